/-
  L5, part 1 — the model's table loops (`nameRecords`, `funcNames`, `localNames`, `paramNames`, `handlerGlobals`, `parseLnam`,
  `parseCrb`) applied to tables laid out the way the scheme does (any number of entries).
-/
import Drx.Link
import DrxProofs.LinkBytes
import DrxProofs.LinkStack
namespace Drx.Link
open Drx Drx.Lscr Drx.Spec
set_option linter.unusedSimpArgs false
set_option linter.unusedVariables false

/-- two lists related entry by entry -/
inductive All2 {α β : Type} (R : α → β → Prop) : List α → List β → Prop
  | nil : All2 R [] []
  | cons {a : α} {b : β} {as : List α} {bs : List β} : R a b → All2 R as bs → All2 R (a :: as) (b :: bs)

theorem All2.length_eq {α β : Type} {R : α → β → Prop} {l1 : List α} {l2 : List β} (h : All2 R l1 l2) : l1.length = l2.length := by
  induction h with
  | nil => rfl
  | cons _ _ ih => simp [ih]

theorem All2.get {α β : Type} {R : α → β → Prop} {l1 : List α} {l2 : List β} (h : All2 R l1 l2) :
    ∀ (i : Nat) (a : α), l1[i]? = some a → ∃ b, l2[i]? = some b ∧ R a b := by
  induction h with
  | nil => intro i a hi; simp at hi
  | cons hr _ ih =>
    intro i a hi
    cases i with
    | zero => simp at hi; subst hi; exact ⟨_, rfl, hr⟩
    | succ j => simp at hi; simpa using ih j a hi

/-- `xs` are indices into `names` that denote `ns`, entry by entry -/
def NamesAt (names : List Str) (xs : List Nat) (ns : List Str) : Prop :=
  All2 (fun x n => x < 256 ∧ names[x]? = some n) xs ns

theorem NamesAt.length {names : List Str} {xs : List Nat} {ns : List Str} (h : NamesAt names xs ns) : xs.length = ns.length :=
  All2.length_eq h

theorem nameOr_some (names : List Str) (x : Nat) (n : Str) (h : names[x]? = some n) : nameOr names (x : Int) = n := by
  unfold nameOr
  have : (x : Int) ≥ 0 := by omega
  simp only [this, if_true, Int.toNat_natCast, h, Option.getD_some]

theorem read16 (d : Bytes) (a : Nat) (x : Nat) (rest : Bytes) (h : CodeAt d a (be16 x ++ rest)) (hx : x < 32768) (off : Int)
    (hoff : (a : Int) = off) : Lscr.getSI 2 d off = .ok (x : Int) := by
  subst hoff
  rw [getSI_be16 d a x h.left (by omega), toSigned16_small x hx]

/-- `parse_lrcr_prb` / `parse_lrcr_grb` -/
theorem nameRecords_ok (d : Bytes) (names : List Str) : ∀ (xs : List Nat) (ns : List Str) (a : Nat), NamesAt names xs ns →
    CodeAt d a (xs.flatMap be16) → nameRecords d names (a : Int) ((a + 2 * xs.length : Nat) : Int) = .ok ns := by
  intro xs ns a h
  induction h generalizing a with
  | nil =>
    intro _
    rw [nameRecords]
    simp
  | @cons x n xs ns hx _ ih =>
    intro hc
    simp only [List.flatMap_cons] at hc
    rw [nameRecords]
    have hlt : (a : Int) < ((a + 2 * (x :: xs).length : Nat) : Int) := by simp only [List.length_cons]; omega
    simp only [hlt, dite_true]
    rw [read16 d a x _ hc (by omega) _ rfl]
    have e1 : (a : Int) + 2 = ((a + 2 : Nat) : Int) := by omega
    have e2 : ((a + 2 * (x :: xs).length : Nat) : Int) = ((a + 2 + 2 * xs.length : Nat) : Int) := by
      simp only [List.length_cons]; omega
    simp only [bind, Except.bind, e1, e2]
    rw [ih (a + 2) (by simpa [be16_length] using hc.right)]
    simp only [pure, Except.pure, nameOr_some names x n hx.2]

/-- `fn.local_vars`: the nodes of a table of names -/
def Leaves (cls : Leaf) (ns : List Str) (l : List Node) : Prop :=
  All2 (fun n x => ∃ p, x = Node.leaf cls (.s n) p) ns l

theorem localNames_ok (ctx : Lscr.Ctx) (d : Bytes) (a : Nat) : ∀ (xs : List Nat) (ns : List Str) (nl : Nat), NamesAt ctx.names xs ns →
    CodeAt d (a + 2 * nl) (xs.flatMap be16) → ∃ l, localNames ctx d (a : Int) xs.length nl = .ok l ∧ Leaves .localVar ns l := by
  intro xs ns nl h
  induction h generalizing nl with
  | nil => intro _; exact ⟨[], rfl, All2.nil⟩
  | @cons x n xs ns hx _ ih =>
    intro hc
    simp only [List.flatMap_cons] at hc
    obtain ⟨l, hl, hleaves⟩ := ih (nl + 1) (by
      have := hc.right
      simp only [be16_length] at this
      have e : a + 2 * nl + 2 = a + 2 * (nl + 1) := by omega
      rwa [e] at this)
    refine ⟨.leaf .localVar (.s n) (2 * (nl : Int) + (a : Int)) :: l, ?_, All2.cons ⟨_, rfl⟩ hleaves⟩
    simp only [List.length_cons, localNames]
    rw [read16 d (a + 2 * nl) x _ hc (by omega) _ (by omega)]
    simp only [bind, Except.bind, nameAt, pyGet_some _ _ _ hx.2, hl, pure, Except.pure]

theorem paramNames_ok (ctx : Lscr.Ctx) (d : Bytes) (a : Nat) : ∀ (xs : List Nat) (ns : List Str) (nl : Nat), NamesAt ctx.names xs ns →
    CodeAt d (a + 2 * nl) (xs.flatMap be16) → ∃ l, paramNames ctx d (a : Int) xs.length nl = .ok (l, false) ∧ Leaves .paramName ns l := by
  intro xs ns nl h
  induction h generalizing nl with
  | nil => intro _; exact ⟨[], rfl, All2.nil⟩
  | @cons x n xs ns hx _ ih =>
    intro hc
    simp only [List.flatMap_cons] at hc
    obtain ⟨l, hl, hleaves⟩ := ih (nl + 1) (by
      have := hc.right
      simp only [be16_length] at this
      have e : a + 2 * nl + 2 = a + 2 * (nl + 1) := by omega
      rwa [e] at this)
    refine ⟨.leaf .paramName (.s n) (2 * (nl : Int) + (a : Int)) :: l, ?_, All2.cons ⟨_, rfl⟩ hleaves⟩
    simp only [List.length_cons, paramNames]
    rw [read16 d (a + 2 * nl) x _ hc (by omega) _ (by omega)]
    have hge : (x : Int) ≥ 0 := by omega
    simp only [bind, Except.bind, hge, if_true, nameAt, pyGet_some _ _ _ hx.2, hl, pure, Except.pure, Bool.or_self]

theorem pyIn_leaves_false (pre : List Str) (acc : List Node) (h : Leaves .globalVar pre acc) (n : Str) (p : Int) (hn : n ∉ pre) :
    pyIn (.leaf .globalVar (.s n) p) acc = false := by
  induction h with
  | nil => rfl
  | @cons m x ms xs hx _ ih =>
    obtain ⟨q, rfl⟩ := hx
    have hne : m ≠ n := fun e => hn (by simp [e])
    have ih' := ih (fun hm => hn (by simp [hm]))
    unfold pyIn at ih' ⊢
    simp only [List.any_cons, ih', Bool.or_false]
    simp [Node.pyEq, Node.cls, Node.name, hne]

theorem leaves_append {cls : Leaf} {a b : List Str} {x y : List Node} (h1 : Leaves cls a x) (h2 : Leaves cls b y) : Leaves cls (a ++ b) (x ++ y) := by
  induction h1 with
  | nil => exact h2
  | cons hr _ ih => exact All2.cons hr ih

/-- the handler's own table of global names (`count C` entries): one `GlobalVariable` per entry when the names are distinct -/
theorem handlerGlobals_ok (ctx : Lscr.Ctx) (d : Bytes) (a : Nat) : ∀ (xs : List Nat) (ns : List Str) (nl : Nat) (pre : List Str) (acc : List Node),
    NamesAt ctx.names xs ns → (pre ++ ns).Nodup → Leaves .globalVar pre acc →
    CodeAt d (a + 2 * nl) (xs.flatMap be16) →
    ∃ l, handlerGlobals ctx d (a : Int) xs.length nl acc = .ok (acc ++ l) ∧ Leaves .globalVar ns l := by
  intro xs ns nl pre acc h
  induction h generalizing nl pre acc with
  | nil => intro _ _ _; exact ⟨[], by simp [handlerGlobals], All2.nil⟩
  | @cons x n xs ns hx _ ih =>
    intro hnd hacc hc
    simp only [List.flatMap_cons] at hc
    have hnp : n ∉ pre := by
      intro hm
      rw [List.nodup_append] at hnd
      exact hnd.2.2 n hm n (by simp) rfl
    have hnd' : ((pre ++ [n]) ++ ns).Nodup := by simpa [List.append_assoc] using hnd
    have hpy := pyIn_leaves_false pre acc hacc n (2 * (nl : Int) + (a : Int)) hnp
    have hacc' : Leaves .globalVar (pre ++ [n]) (acc ++ [.leaf .globalVar (.s n) (2 * (nl : Int) + (a : Int))]) :=
      leaves_append hacc (All2.cons ⟨_, rfl⟩ All2.nil)
    obtain ⟨l, hl, hleaves⟩ := ih (nl + 1) (pre ++ [n]) _ hnd' hacc' (by
      have := hc.right
      simp only [be16_length] at this
      have e : a + 2 * nl + 2 = a + 2 * (nl + 1) := by omega
      rwa [e] at this)
    refine ⟨.leaf .globalVar (.s n) (2 * (nl : Int) + (a : Int)) :: l, ?_, All2.cons ⟨_, rfl⟩ hleaves⟩
    simp only [List.length_cons, handlerGlobals]
    rw [read16 d (a + 2 * nl) x _ hc (by omega) _ (by omega)]
    have hlt : x < ctx.names.length := by
      rcases Nat.lt_or_ge x ctx.names.length with hh | hh
      · exact hh
      · rw [List.getElem?_eq_none_iff.mpr hh] at hx; cases hx.2
    have hcond : (x : Int) ≥ 0 ∧ (x : Int) < (ctx.names.length : Int) := by omega
    simp only [bind, Except.bind, hcond, and_self, if_true, nameOr_some _ _ _ hx.2, hpy, Bool.false_eq_true, if_false, hl]
    simp [List.append_assoc]

/-- `parse_frb_func_names`: the first field of every 42-byte record -/
theorem funcNames_ok (d : Bytes) (names : List Str) : ∀ (xs : List Nat) (ns : List Str) (a : Nat), NamesAt names xs ns →
    (∀ j x, xs[j]? = some x → ∃ rest, CodeAt d (a + 42 * j) (be16 x ++ rest)) →
    funcNames d names xs.length (a : Int) = .ok ns := by
  intro xs ns a h
  induction h generalizing a with
  | nil => intro _; rfl
  | @cons x n xs ns hx _ ih =>
    intro hc
    obtain ⟨rest, h0⟩ := hc 0 x rfl
    simp only [List.length_cons, funcNames]
    rw [read16 d a x rest (by simpa using h0) (by omega) _ rfl]
    have e1 : (a : Int) + 42 = ((a + 42 : Nat) : Int) := by omega
    simp only [bind, Except.bind, e1]
    rw [ih (a + 42) (by
      intro j y hj
      obtain ⟨r, hr⟩ := hc (j + 1) y (by simpa using hj)
      have e : a + 42 * (j + 1) = a + 42 + 42 * j := by omega
      exact ⟨r, by rwa [e] at hr⟩)]
    simp only [pure, Except.pure, nameOr_some names x n hx.2]

/-! ### the name table chunk -/

theorem macRoman_ascii : ∀ n, n < 128 → decodeByte .macRoman (UInt8.ofNat n) = some (Char.ofNat n) := by decide +kernel

/-- printable ASCII names: what the mac_roman codec maps to itself -/
def asciiName (n : Spec.Name) : Bool := n.all fun c => decide (c.toNat < 128)

theorem decodeText_ascii (n : Spec.Name) (h : asciiName n = true) : decodeText .macRoman (nameBytes n) = .ok n := by
  unfold decodeText
  simp only
  induction n with
  | nil => rfl
  | cons c cs ih =>
    simp only [asciiName, List.all_cons, Bool.and_eq_true, decide_eq_true_eq] at h
    have hc := macRoman_ascii c.toNat h.1
    have ih' := ih (by simpa [asciiName] using h.2)
    simp only [nameBytes, List.map_cons, List.mapM_cons, hc, bind, Except.bind] at ih' ⊢
    rw [ih']
    simp [pure, Except.pure, Char.ofNat_toNat]

end Drx.Link
