/-
  Reader ∘ printer = identity, handler and script level (DrxProps/C02b.lean).
  Layout-generic: blank lines (`.nl` tokens) may stand wherever the reader skips them, so that both the compact reference layout
  (`printLingo`) and the decompiler's layout with blank lines are instances.
-/
import DrxProofs.SpecStmt
namespace Drx.Spec
set_option linter.unusedSimpArgs false
set_option linter.unusedVariables false

/-! ### name lists -/

theorem pNames_print : ∀ (ns : List Name) (rest : List Tok), pNames (prNames ns ++ .nl :: rest) = some (ns, rest)
  | [], rest => by simp [prNames, pNames]
  | [n], rest => by simp [prNames, pNames, eos]
  | n :: m :: ns, rest => by
    have ih := pNames_print (m :: ns) rest
    simp only [prNames, List.cons_append] at ih ⊢
    simp [pNames, ih]

theorem prNames_no_nl : ∀ (ns : List Name), ∀ x ∈ prNames ns, x ≠ .nl
  | [] => by simp [prNames]
  | [n] => by simp [prNames]
  | n :: m :: ns => by
    have ih := prNames_no_nl (m :: ns)
    intro x hx
    simp only [prNames, List.mem_cons] at hx
    rcases hx with hx | hx | hx
    · subst hx; simp
    · subst hx; simp
    · exact ih x hx

theorem skipLine_line : ∀ (l : List Tok), (∀ x ∈ l, x ≠ .nl) → ∀ (p : List Tok), skipLine (l ++ .nl :: p) = p
  | [], _, p => by simp [skipLine]
  | t :: l, h, p => by
    have ht : t ≠ .nl := h t (by simp)
    have ih := skipLine_line l (fun x hx => h x (by simp [hx])) p
    cases t <;> simp_all [skipLine]

/-! ### what the statement-list reader skips: blank lines and declaration lines -/

/-- `Skip p n`: `p` consists of `n` blank lines / `global …` / `instance …` / `property …` lines -/
inductive Skip : List Tok → Nat → Prop
  | nil : Skip [] 0
  | nl {p : List Tok} {n : Nat} : Skip p n → Skip (.nl :: p) (n + 1)
  | line {k : String} {l p : List Tok} {n : Nat} : (k = "global" ∨ k = "instance" ∨ k = "property") → (∀ x ∈ l, x ≠ .nl) →
      Skip p n → Skip (kw k :: (l ++ .nl :: p)) (n + 1)

variable (env : Env)

theorem pStmts_skipline (f : Nat) (k : String) (hk : k = "global" ∨ k = "instance" ∨ k = "property") (X : List Tok) :
    pStmts env (f + 1) (kw k :: X) = pStmts env f (skipLine X) := by
  rcases hk with hk | hk | hk <;> subst hk
  · have a1 : (Tok.id ['g','l','o','b','a','l']).kw "end" = false := by decide
    have a2 : (Tok.id ['g','l','o','b','a','l']).kw "else" = false := by decide
    have a3 : (Tok.id ['g','l','o','b','a','l']).kw "global" = true := by decide
    simp only [kw]
    simp [pStmts, a1, a2, a3]
  · have a1 : (Tok.id ['i','n','s','t','a','n','c','e']).kw "end" = false := by decide
    have a2 : (Tok.id ['i','n','s','t','a','n','c','e']).kw "else" = false := by decide
    have a3 : (Tok.id ['i','n','s','t','a','n','c','e']).kw "global" = false := by decide
    have a4 : (Tok.id ['i','n','s','t','a','n','c','e']).kw "instance" = true := by decide
    simp only [kw]
    simp [pStmts, a1, a2, a3, a4]
  · have a1 : (Tok.id ['p','r','o','p','e','r','t','y']).kw "end" = false := by decide
    have a2 : (Tok.id ['p','r','o','p','e','r','t','y']).kw "else" = false := by decide
    have a3 : (Tok.id ['p','r','o','p','e','r','t','y']).kw "global" = false := by decide
    have a4 : (Tok.id ['p','r','o','p','e','r','t','y']).kw "instance" = false := by decide
    have a5 : (Tok.id ['p','r','o','p','e','r','t','y']).kw "property" = true := by decide
    simp only [kw]
    simp [pStmts, a1, a2, a3, a4, a5]

theorem pStmts_skip {p : List Tok} {n : Nat} (h : Skip p n) :
    ∀ (F : Nat) (R : List Tok), pStmts env (F + n) (p ++ R) = pStmts env F R := by
  induction h with
  | nil => intro F R; rfl
  | nl _ ih =>
    intro F R
    rw [← Nat.add_assoc]
    simp only [List.cons_append, pStmts, if_true]
    exact ih F R
  | @line k l p n hk hl _ ih =>
    intro F R
    rw [← Nat.add_assoc]
    have e : skipLine (l ++ .nl :: p ++ R) = p ++ R := by
      have := skipLine_line l hl (p ++ R)
      simpa using this
    rw [List.cons_append, pStmts_skipline env _ k hk, e]
    exact ih F R

theorem skip_append {p q : List Tok} {n m : Nat} (hp : Skip p n) (hq : Skip q m) : Skip (p ++ q) (n + m) := by
  induction hp with
  | nil => simpa using hq
  | @nl p' n' _ ih =>
    have e : n' + 1 + m = (n' + m) + 1 := by omega
    rw [e]
    exact Skip.nl ih
  | @line k l p' n' hk hl _ ih =>
    have e : n' + 1 + m = (n' + m) + 1 := by omega
    rw [e]
    have := Skip.line hk hl ih
    simpa using this

/-! ### handlers -/

/-- the environment `pHandler` builds for a handler whose tokens after the parameter line are `body` -/
def handlerEnv (se : ScriptEnv) (isMethod : Bool) (params : List Name) (body : List Tok) : Env :=
  { params, globals := se.globals ++ declared "global" (.nl :: handlerSpan body), props := se.props, handlers := se.handlers,
    assigned := assignedNames (.nl :: handlerSpan body), isMethod }

def handlerKw (m : Bool) : Tok := if m then kw "method" else kw "on"

/-- a printed handler reads back: header line, any blank / declaration lines (`pre`), the statements, `end` -/
theorem rp_handler (se : ScriptEnv) (m : Bool) (name : Name) (params : List Name) (pre : List Tok) (n : Nat) (hpre : Skip pre n)
    (body : List Stmt) (rest : List Tok)
    (hfrag : FragSs (handlerEnv se m params (pre ++ (prSs body ++ kw "end" :: .nl :: rest))) body)
    (F : Nat) (hF : fuelSs body + n ≤ F) :
    pHandler se F (handlerKw m :: .id name :: (prNames params ++ .nl :: (pre ++ (prSs body ++ kw "end" :: .nl :: rest))))
      = some ({ name, params, isMethod := m, body }, rest) := by
  obtain ⟨F', rfl⟩ : ∃ F', F = F' + n := ⟨F - n, by omega⟩
  have hs := rp_stmts (handlerEnv se m params (pre ++ (prSs body ++ kw "end" :: .nl :: rest))) body hfrag (kw "end" :: .nl :: rest)
    (by simp only [Stop, headIs, kw]; decide) F' (by omega)
  have hk := pStmts_skip (handlerEnv se m params (pre ++ (prSs body ++ kw "end" :: .nl :: rest))) hpre F' (prSs body ++ kw "end" :: .nl :: rest)
  rw [hs] at hk
  have hn := pNames_print params (pre ++ (prSs body ++ kw "end" :: .nl :: rest))
  have e1 : (Tok.id ['e','n','d']).kw "end" = true := by decide
  cases m with
  | false =>
    have k1 : isHandlerStart (Tok.id ['o','n']) = true := by decide
    have k2 : (Tok.id ['o','n']).kw "method" = false := by decide
    simp only [handlerEnv, k2] at hk ⊢
    simp only [handlerKw, kw, Bool.false_eq_true, if_false] at hk hn ⊢
    simp only [pHandler, k1, if_true, hn, k2]
    simp only [hk]
    simp [e1, eos]
  | true =>
    have k1 : isHandlerStart (Tok.id ['m','e','t','h','o','d']) = true := by decide
    have k2 : (Tok.id ['m','e','t','h','o','d']).kw "method" = true := by decide
    simp only [handlerEnv, k2] at hk ⊢
    simp only [handlerKw, kw, if_true] at hk hn ⊢
    simp only [pHandler, k1, if_true, hn, k2]
    simp only [hk]
    simp [e1, eos]

end Drx.Spec
