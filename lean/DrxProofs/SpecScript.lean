/-
  Reader ∘ printer = identity, handler and script level (DrxProps/C02b.lean).
  Layout-generic: blank lines (`.nl` tokens) may stand wherever the reader skips them, so that both the compact reference layout
  (`printLingo`) and the decompiler's layout with blank lines are instances.
-/
import DrxProofs.SpecStmt
namespace Drx.Spec
set_option linter.unusedSimpArgs false
set_option linter.unusedVariables false

/-! ### name lists -/

theorem pNames_print : ∀ (ns : List Name) (rest : List Tok), pNames (prNames ns ++ .nl :: rest) = some (ns, rest)
  | [], rest => by simp [prNames, pNames]
  | [n], rest => by simp [prNames, pNames, eos]
  | n :: m :: ns, rest => by
    have ih := pNames_print (m :: ns) rest
    simp only [prNames, List.cons_append] at ih ⊢
    simp [pNames, ih]

theorem prNames_no_nl : ∀ (ns : List Name), ∀ x ∈ prNames ns, x ≠ .nl
  | [] => by simp [prNames]
  | [n] => by simp [prNames]
  | n :: m :: ns => by
    have ih := prNames_no_nl (m :: ns)
    intro x hx
    simp only [prNames, List.mem_cons] at hx
    rcases hx with hx | hx | hx
    · subst hx; simp
    · subst hx; simp
    · exact ih x hx

theorem skipLine_line : ∀ (l : List Tok), (∀ x ∈ l, x ≠ .nl) → ∀ (p : List Tok), skipLine (l ++ .nl :: p) = p
  | [], _, p => by simp [skipLine]
  | t :: l, h, p => by
    have ht : t ≠ .nl := h t (by simp)
    have ih := skipLine_line l (fun x hx => h x (by simp [hx])) p
    cases t <;> simp_all [skipLine]

/-! ### what the statement-list reader skips: blank lines and declaration lines -/

/-- `Skip p n`: `p` consists of `n` blank lines / `global …` / `instance …` / `property …` lines -/
inductive Skip : List Tok → Nat → Prop
  | nil : Skip [] 0
  | nl {p : List Tok} {n : Nat} : Skip p n → Skip (.nl :: p) (n + 1)
  | line {k : String} {l p : List Tok} {n : Nat} : (k = "global" ∨ k = "instance" ∨ k = "property") → (∀ x ∈ l, x ≠ .nl) →
      Skip p n → Skip (kw k :: (l ++ .nl :: p)) (n + 1)

variable (env : Env)

theorem pStmts_skipline (f : Nat) (k : String) (hk : k = "global" ∨ k = "instance" ∨ k = "property") (X : List Tok) :
    pStmts env (f + 1) (kw k :: X) = pStmts env f (skipLine X) := by
  rcases hk with hk | hk | hk <;> subst hk
  · have a1 : (Tok.id ['g','l','o','b','a','l']).kw "end" = false := by decide
    have a2 : (Tok.id ['g','l','o','b','a','l']).kw "else" = false := by decide
    have a3 : (Tok.id ['g','l','o','b','a','l']).kw "global" = true := by decide
    simp only [kw]
    simp [pStmts, a1, a2, a3]
  · have a1 : (Tok.id ['i','n','s','t','a','n','c','e']).kw "end" = false := by decide
    have a2 : (Tok.id ['i','n','s','t','a','n','c','e']).kw "else" = false := by decide
    have a3 : (Tok.id ['i','n','s','t','a','n','c','e']).kw "global" = false := by decide
    have a4 : (Tok.id ['i','n','s','t','a','n','c','e']).kw "instance" = true := by decide
    simp only [kw]
    simp [pStmts, a1, a2, a3, a4]
  · have a1 : (Tok.id ['p','r','o','p','e','r','t','y']).kw "end" = false := by decide
    have a2 : (Tok.id ['p','r','o','p','e','r','t','y']).kw "else" = false := by decide
    have a3 : (Tok.id ['p','r','o','p','e','r','t','y']).kw "global" = false := by decide
    have a4 : (Tok.id ['p','r','o','p','e','r','t','y']).kw "instance" = false := by decide
    have a5 : (Tok.id ['p','r','o','p','e','r','t','y']).kw "property" = true := by decide
    simp only [kw]
    simp [pStmts, a1, a2, a3, a4, a5]

theorem pStmts_skip {p : List Tok} {n : Nat} (h : Skip p n) :
    ∀ (F : Nat) (R : List Tok), pStmts env (F + n) (p ++ R) = pStmts env F R := by
  induction h with
  | nil => intro F R; rfl
  | nl _ ih =>
    intro F R
    rw [← Nat.add_assoc]
    simp only [List.cons_append, pStmts, if_true]
    exact ih F R
  | @line k l p n hk hl _ ih =>
    intro F R
    rw [← Nat.add_assoc]
    have e : skipLine (l ++ .nl :: p ++ R) = p ++ R := by
      have := skipLine_line l hl (p ++ R)
      simpa using this
    rw [List.cons_append, pStmts_skipline env _ k hk, e]
    exact ih F R

theorem skip_append {p q : List Tok} {n m : Nat} (hp : Skip p n) (hq : Skip q m) : Skip (p ++ q) (n + m) := by
  induction hp with
  | nil => simpa using hq
  | @nl p' n' _ ih =>
    have e : n' + 1 + m = (n' + m) + 1 := by omega
    rw [e]
    exact Skip.nl ih
  | @line k l p' n' hk hl _ ih =>
    have e : n' + 1 + m = (n' + m) + 1 := by omega
    rw [e]
    have := Skip.line hk hl ih
    simpa using this

/-! ### handlers -/

/-- the environment `pHandler` builds for a handler whose tokens after the parameter line are `body` -/
def handlerEnv (se : ScriptEnv) (isMethod : Bool) (params : List Name) (body : List Tok) : Env :=
  { params, globals := se.globals ++ declared "global" (.nl :: handlerSpan body), props := se.props, handlers := se.handlers,
    assigned := assignedNames (.nl :: handlerSpan body), isMethod }

def handlerKw (m : Bool) : Tok := if m then kw "method" else kw "on"

/-- a printed handler reads back: header line, any blank / declaration lines (`pre`), the statements, `end` -/
theorem rp_handler (se : ScriptEnv) (m : Bool) (name : Name) (params : List Name) (pre : List Tok) (n : Nat) (hpre : Skip pre n)
    (body : List Stmt) (rest : List Tok)
    (hfrag : FragSs (handlerEnv se m params (pre ++ (prSs body ++ kw "end" :: .nl :: rest))) body)
    (F : Nat) (hF : fuelSs body + n ≤ F) :
    pHandler se F (handlerKw m :: .id name :: (prNames params ++ .nl :: (pre ++ (prSs body ++ kw "end" :: .nl :: rest))))
      = some ({ name, params, isMethod := m, body }, rest) := by
  obtain ⟨F', rfl⟩ : ∃ F', F = F' + n := ⟨F - n, by omega⟩
  have hs := rp_stmts (handlerEnv se m params (pre ++ (prSs body ++ kw "end" :: .nl :: rest))) body hfrag (kw "end" :: .nl :: rest)
    (by simp only [Stop, headIs, kw]; decide) F' (by omega)
  have hk := pStmts_skip (handlerEnv se m params (pre ++ (prSs body ++ kw "end" :: .nl :: rest))) hpre F' (prSs body ++ kw "end" :: .nl :: rest)
  rw [hs] at hk
  have hn := pNames_print params (pre ++ (prSs body ++ kw "end" :: .nl :: rest))
  have e1 : (Tok.id "end".toList).kw "end" = true := by decide
  cases m with
  | false =>
    have k1 : isHandlerStart (Tok.id "on".toList) = true := by decide
    have k2 : (Tok.id "on".toList).kw "method" = false := by decide
    simp only [handlerEnv] at hk
    simp only [handlerKw, kw, Bool.false_eq_true, if_false] at hk hn ⊢
    simp only [pHandler, k1, if_true, hn, k2]
    simp only [hk]
    have e2 : (Tok.id ['e','n','d']).kw "end" = true := by decide
    simp [e2, eos]
  | true =>
    have k1 : isHandlerStart (Tok.id "method".toList) = true := by decide
    have k2 : (Tok.id "method".toList).kw "method" = true := by decide
    simp only [handlerEnv] at hk
    simp only [handlerKw, kw, if_true] at hk hn ⊢
    simp only [pHandler, k1, if_true, hn, k2]
    simp only [hk]
    have e2 : (Tok.id ['e','n','d']).kw "end" = true := by decide
    simp [e2, eos]

/-! ### line structure of printed code -/

/-- no newline token inside -/
def noNl (ts : List Tok) : Bool := ts.all (· != .nl)

theorem noNl_append (a b : List Tok) : noNl (a ++ b) = (noNl a && noNl b) := by simp [noNl]
theorem noNl_cons (t : Tok) (a : List Tok) : noNl (t :: a) = (t != .nl && noNl a) := by simp [noNl]
theorem noNl_nil : noNl [] = true := rfl
theorem noNl_mem (ts : List Tok) (h : noNl ts = true) : ∀ x ∈ ts, x ≠ .nl := by
  intro x hx; simp [noNl] at h; exact h x hx

theorem optok_ne_nl (op : BinOp) : (op.tok != .nl) = true := by cases op <;> simp [BinOp.tok, kw]

mutual
theorem prE_noNl : ∀ (e : Expr), noNl (prE e) = true
  | .int _ => by simp [prE, noNl]
  | .str s => by
    by_cases h0 : s = []
    · simp [prE, strToks, h0, noNl]
    · cases hc : nameOfConstant s <;> simp [prE, strToks, h0, hc, noNl]
  | .float _ _ => by simp [prE, noNl]
  | .sym _ => by simp [prE, noNl]
  | .var _ _ => by simp [prE, noNl]
  | .me => by simp [prE, kw, noNl]
  | .key _ => by simp [prE, kw, noNl]
  | .movie _ => by simp [prE, kw, noNl]
  | .un op a => by
    have := prE_noNl a
    cases op <;> simp [prE, kw, noNl_cons, this]
  | .field a => by
    have := prE_noNl a
    simp [prE, kw, noNl_cons, this]
  | .bin op a b => by
    have ha := prE_noNl a
    have hb := prE_noNl b
    cases hop : op.isInfix <;> simp [prE, hop, kw, noNl_cons, noNl_append, ha, hb, optok_ne_nl, noNl_nil]
  | .call f as => by
    have := prArgs_noNl as
    simp [prE, noNl_cons, noNl_append, this, noNl_nil]
  | .mcall o m as => by
    have ho := prE_noNl o
    have := prTail_noNl as
    simp [prE, noNl_cons, noNl_append, this, ho, noNl_nil]
  | .list as => by
    have := prArgs_noNl as
    simp [prE, noNl_cons, noNl_append, this, noNl_nil]
  | .plist as => by
    have := prPairs_noNl as
    cases as <;> simp [prE, noNl_cons, noNl_append, this, noNl_nil]
  | .the t k as => by
    have := prThe_noNl t k as
    simpa [prE] using this
  | .oprop n o => by
    have := prE_noNl o
    simp [prE, kw, noNl_cons, this]
  | .chunk c a b d => by
    have ha := prE_noNl a
    have hb := prE_noNl b
    have hd := prE_noNl d
    have hcase : b = .int 0 ∨ prE (.chunk c a b d) = Tok.id c.tag.toList :: prE a ++ Tok.id "to".toList :: prE b ++ Tok.id "of".toList :: prE d := by
      cases b with
      | int n => cases n with
        | zero => exact Or.inl rfl
        | succ m => exact Or.inr (by simp [prE, kw])
      | _ => exact Or.inr (by simp [prE, kw])
    rcases hcase with hb0 | hpr
    · subst hb0; simp [prE, kw, noNl_cons, noNl_append, ha, hd]
    · rw [hpr]; simp [noNl_cons, noNl_append, ha, hb, hd]
theorem prArgs_noNl : ∀ (es : List Expr), noNl (prArgs es) = true
  | [] => by simp [prArgs, noNl]
  | e :: es => by
    have he := prE_noNl e
    have := prTail_noNl es
    rw [prArgs_cons]
    simp [noNl_append, he, this]
theorem prTail_noNl : ∀ (es : List Expr), noNl (prTail es) = true
  | [] => by simp [prTail, noNl]
  | e :: es => by
    have he := prE_noNl e
    have := prTail_noNl es
    simp [prTail, noNl_cons, noNl_append, he, this]
theorem prPairs_noNl : ∀ (es : List Expr), noNl (prPairs es) = true
  | [] => by simp [prPairs, noNl]
  | [k] => by simpa [prPairs] using prE_noNl k
  | [k, v] => by
    have hk := prE_noNl k
    have hv := prE_noNl v
    simp [prPairs, noNl_cons, noNl_append, hk, hv]
  | k :: v :: w :: r => by
    have hk := prE_noNl k
    have hv := prE_noNl v
    have := prPairs_noNl (w :: r)
    simp only [prPairs, noNl_cons, noNl_append, hk, hv, this]
    simp
theorem prThe_noNl : ∀ (t : Tbl) (k : Nat) (as : List Expr), noNl (prThe t k as) = true
  | t, k, [] => by
    unfold prThe
    split <;> (try split) <;> (try split) <;> simp_all [kw, noNl]
  | t, k, [a] => by
    have := prE_noNl a
    unfold prThe
    split <;> (try split) <;> (try split) <;> simp_all [kw, noNl_cons, noNl_append, noNl_nil]
  | t, k, [a, b] => by
    have ha := prE_noNl a
    have hb := prE_noNl b
    unfold prThe
    split <;> (try split) <;> (try split) <;> simp_all [kw, noNl_cons, noNl_append, noNl_nil]
  | t, k, a :: b :: c :: ds => by
    unfold prThe
    split <;> (try split) <;> (try split) <;> simp_all [kw, noNl_cons, noNl_append, noNl_nil]
end

/-- `Lines P ts`: `ts` is a sequence of complete lines (each ends in `.nl`), blank or starting with a token that satisfies `P` -/
inductive Lines (P : Tok → Bool) : List Tok → Prop
  | nil : Lines P []
  | blank {r : List Tok} : Lines P r → Lines P (.nl :: r)
  | line {t : Tok} {l r : List Tok} : P t = true → t ≠ .nl → noNl l = true → Lines P r → Lines P (t :: (l ++ .nl :: r))

theorem lines_append {P : Tok → Bool} {a b : List Tok} (ha : Lines P a) (hb : Lines P b) : Lines P (a ++ b) := by
  induction ha with
  | nil => simpa using hb
  | blank _ ih => exact Lines.blank ih
  | line h1 h2 h3 _ ih =>
    have := Lines.line h1 h2 h3 ih
    simpa using this

theorem lines_mono {P Q : Tok → Bool} (hPQ : ∀ t, P t = true → Q t = true) {a : List Tok} (ha : Lines P a) : Lines Q a := by
  induction ha with
  | nil => exact Lines.nil
  | blank _ ih => exact Lines.blank ih
  | line h1 h2 h3 _ ih => exact Lines.line (hPQ _ h1) h2 h3 ih

theorem lines_head {P : Tok → Bool} {a : List Tok} (ha : Lines P a) (hne : a ≠ []) : ∃ t B, a = t :: B ∧ (t = .nl ∨ P t = true) := by
  cases ha with
  | nil => exact absurd rfl hne
  | blank _ => exact ⟨_, _, rfl, Or.inl rfl⟩
  | line h1 _ _ _ => exact ⟨_, _, rfl, Or.inr h1⟩

theorem lines_one {P : Tok → Bool} (t : Tok) (l : List Tok) (h1 : P t = true) (h2 : t ≠ .nl) (h3 : noNl l = true) :
    Lines P (t :: (l ++ [.nl])) := Lines.line h1 h2 h3 Lines.nil

theorem lines_replicate {P : Tok → Bool} : ∀ (k : Nat), Lines P (List.replicate k .nl)
  | 0 => Lines.nil
  | k + 1 => Lines.blank (lines_replicate k)

/-- heads of printed lines inside a handler: no declaration keyword, no handler start -/
def lineHead (t : Tok) : Bool :=
  t != .nl && !t.kw "global" && !t.kw "instance" && !t.kw "property" && !t.kw "on" && !t.kw "method"

theorem lineHead_of_cmdName (s : Name) (h : cmdName s = true) : lineHead (.id s) = true := by
  simp [cmdName, List.all] at h
  simp [lineHead, h]

theorem prCallStmt_shape (f : Name) (as : List Expr) : ∃ X, prCallStmt f as = .id f :: X ∧ noNl X = true := by
  unfold prCallStmt
  split
  · split
    · exact ⟨_, rfl, by simp [noNl_cons, prArgs_noNl]⟩
    · exact ⟨_, rfl, prArgs_noNl _⟩
  · split
    · split
      · split
        · exact ⟨_, rfl, by simp [noNl]⟩
        · exact ⟨_, rfl, prArgs_noNl _⟩
      · exact ⟨_, rfl, prArgs_noNl _⟩
    · exact ⟨_, rfl, prArgs_noNl _⟩

mutual
/-- the environment-free part of the statement fragment: what stands at the head of a printed line -/
def headOk : Stmt → Bool
  | .call f _ => f == "put".toList || f == "sound".toList || f == "go".toList || cmdName f
  | .mcall o _ _ => match prE o with
    | [.id s] => cmdName s
    | _ => false
  | .tell _ b => headsOk b
  | .ifThen _ t e => headsOk t && headsOk e
  | .repeatWhile _ b => headsOk b
  | .repeatWith _ _ _ _ b => headsOk b
  | .repeatIn _ _ b => headsOk b
  | _ => true
def headsOk : List Stmt → Bool
  | [] => true
  | s :: ss => headOk s && headsOk ss
end

mutual
theorem prS_lines : ∀ (s : Stmt), headOk s = true → Lines lineHead (prS s)
  | .set lv v, _ => by
    have := lines_one (P := lineHead) (kw "set") (prE lv ++ .p .eq :: prE v) (by decide) (by simp [kw])
      (by simp [noNl_append, noNl_cons, prE_noNl])
    simpa [prS] using this
  | .put md v lv, _ => by
    have := lines_one (P := lineHead) (kw "put") (prE v ++ kw md.tag :: prE lv) (by decide) (by simp [kw])
      (by simp [noNl_append, noNl_cons, prE_noNl, kw])
    simpa [prS] using this
  | .delete t, _ => by
    have := lines_one (P := lineHead) (kw "delete") (prE t) (by decide) (by simp [kw]) (prE_noNl t)
    simpa [prS] using this
  | .hilite t, _ => by
    have := lines_one (P := lineHead) (kw "hilite") (prE t) (by decide) (by simp [kw]) (prE_noNl t)
    simpa [prS] using this
  | .exit, _ => by
    have := lines_one (P := lineHead) (kw "exit") [] (by decide) (by simp [kw]) rfl
    simpa [prS] using this
  | .exitRepeat, _ => by
    have := lines_one (P := lineHead) (kw "exit") [kw "repeat"] (by decide) (by simp [kw]) (by simp [noNl, kw])
    simpa [prS] using this
  | .call f as, h => by
    obtain ⟨X, hX, hn⟩ := prCallStmt_shape f as
    have hf : lineHead (.id f) = true := by
      simp only [headOk, Bool.or_eq_true, beq_iff_eq] at h
      rcases h with ((hc | hc) | hc) | hc
      · subst hc; decide
      · subst hc; decide
      · subst hc; decide
      · exact lineHead_of_cmdName f hc
    have := lines_one (P := lineHead) (.id f) X hf (by simp) hn
    simpa [prS, hX] using this
  | .mcall o m as, h => by
    simp only [headOk] at h
    split at h
    · rename_i s hs
      have := lines_one (P := lineHead) (.id s) (.id m :: prTail as) (lineHead_of_cmdName s h) (by simp)
        (by simp [noNl_cons, prTail_noNl])
      simpa [prS, hs] using this
    · cases h
  | .tell o b, h => by
    have hb : headsOk b = true := by simpa [headOk] using h
    have h1 := lines_one (P := lineHead) (kw "tell") (prE o) (by decide) (by simp [kw]) (prE_noNl o)
    have h2 := prSs_lines b hb
    have h3 := lines_one (P := lineHead) (kw "end") [kw "tell"] (by decide) (by simp [kw]) (by simp [noNl, kw])
    have := lines_append h1 (lines_append h2 h3)
    simpa [prS] using this
  | .ifThen c t e, h => by
    obtain ⟨ht, he⟩ : headsOk t = true ∧ headsOk e = true := by simpa [headOk] using h
    have h1 := lines_one (P := lineHead) (kw "if") (prE c ++ [kw "then"]) (by decide) (by simp [kw])
      (by simp [noNl_append, noNl_cons, prE_noNl, kw, noNl_nil])
    have h2 := prSs_lines t ht
    have h4 := lines_one (P := lineHead) (kw "end") [kw "if"] (by decide) (by simp [kw]) (by simp [noNl, kw])
    cases e with
    | nil =>
      have := lines_append h1 (lines_append h2 h4)
      simpa [prS] using this
    | cons e1 es =>
      have h3 := lines_one (P := lineHead) (kw "else") [] (by decide) (by simp [kw]) rfl
      have h5 := prSs_lines (e1 :: es) he
      have := lines_append h1 (lines_append h2 (lines_append h3 (lines_append h5 h4)))
      simpa [prS] using this
  | .repeatWhile c b, h => by
    have hb : headsOk b = true := by simpa [headOk] using h
    have h1 := lines_one (P := lineHead) (kw "repeat") (kw "while" :: prE c) (by decide) (by simp [kw])
      (by simp [noNl_cons, prE_noNl, kw])
    have h2 := prSs_lines b hb
    have h3 := lines_one (P := lineHead) (kw "end") [kw "repeat"] (by decide) (by simp [kw]) (by simp [noNl, kw])
    have := lines_append h1 (lines_append h2 h3)
    simpa [prS] using this
  | .repeatWith v a b down body, h => by
    have hb : headsOk body = true := by simpa [headOk] using h
    have h1 := lines_one (P := lineHead) (kw "repeat")
      (kw "with" :: (prE v ++ .p .eq :: (prE a ++ ((if down then [kw "down", kw "to"] else [kw "to"]) ++ prE b)))) (by decide) (by simp [kw])
      (by cases down <;> simp [noNl_cons, noNl_append, prE_noNl, kw])
    have h2 := prSs_lines body hb
    have h3 := lines_one (P := lineHead) (kw "end") [kw "repeat"] (by decide) (by simp [kw]) (by simp [noNl, kw])
    have := lines_append h1 (lines_append h2 h3)
    simpa [prS] using this
  | .repeatIn v l body, h => by
    have hb : headsOk body = true := by simpa [headOk] using h
    have h1 := lines_one (P := lineHead) (kw "repeat") (kw "with" :: (prE v ++ kw "in" :: prE l)) (by decide) (by simp [kw])
      (by simp [noNl_cons, noNl_append, prE_noNl, kw])
    have h2 := prSs_lines body hb
    have h3 := lines_one (P := lineHead) (kw "end") [kw "repeat"] (by decide) (by simp [kw]) (by simp [noNl, kw])
    have := lines_append h1 (lines_append h2 h3)
    simpa [prS] using this
theorem prSs_lines : ∀ (ss : List Stmt), headsOk ss = true → Lines lineHead (prSs ss)
  | [], _ => by simpa [prSs] using (Lines.nil (P := lineHead))
  | s :: ss, h => by
    obtain ⟨hs, hss⟩ : headOk s = true ∧ headsOk ss = true := by simpa [headsOk] using h
    have := lines_append (prS_lines s hs) (prSs_lines ss hss)
    simpa [prSs] using this
end

variable (env : Env)

mutual
/-- the statement fragment implies the environment-free head condition -/
theorem headOk_of_frag : ∀ (s : Stmt), FragS env s → headOk s = true
  | .set _ _, _ => rfl
  | .put _ _ _, _ => rfl
  | .delete _, _ => rfl
  | .hilite _, _ => rfl
  | .exit, _ => rfl
  | .exitRepeat, _ => rfl
  | .call f as, h => by
    obtain ⟨hc, _⟩ : CallOk env f as ∧ FragL env as := h
    simp only [headOk, Bool.or_eq_true, beq_iff_eq]
    rcases hc with hc | ⟨hc, _⟩ | ⟨hc, _⟩ | ⟨hc, _⟩
    · exact Or.inl (Or.inl (Or.inl hc))
    · exact Or.inl (Or.inl (Or.inr hc))
    · exact Or.inl (Or.inr hc)
    · exact Or.inr hc
  | .mcall o m as, h => by
    obtain ⟨⟨s, hs, hc, _⟩, _⟩ : RecvStmtOk env o ∧ FragL env as := h
    simp [headOk, hs, hc]
  | .tell o b, h => by
    obtain ⟨_, hb⟩ : Frag env o ∧ FragSs env b := h
    simpa [headOk] using headsOk_of_frag b hb
  | .ifThen c t e, h => by
    obtain ⟨_, ht, he⟩ : Frag env c ∧ FragSs env t ∧ FragSs env e := h
    simp [headOk, headsOk_of_frag t ht, headsOk_of_frag e he]
  | .repeatWhile c b, h => by
    obtain ⟨_, hb⟩ : Frag env c ∧ FragSs env b := h
    simpa [headOk] using headsOk_of_frag b hb
  | .repeatWith v a b _ body, h => by
    obtain ⟨_, _, _, hb⟩ : VarOk env v ∧ Frag env a ∧ Frag env b ∧ FragSs env body := h
    simpa [headOk] using headsOk_of_frag body hb
  | .repeatIn v l body, h => by
    obtain ⟨_, _, hb⟩ : VarOk env v ∧ Frag env l ∧ FragSs env body := h
    simpa [headOk] using headsOk_of_frag body hb
theorem headsOk_of_frag : ∀ (ss : List Stmt), FragSs env ss → headsOk ss = true
  | [], _ => rfl
  | s :: ss, h => by
    obtain ⟨hs, hss⟩ : FragS env s ∧ FragSs env ss := h
    simp [headsOk, headOk_of_frag s hs, headsOk_of_frag ss hss]
end

/-! ### what the script reader collects from the token stream: declared names, handler names, handler spans -/

theorem declared_skip (k : String) (t : Tok) (ht : t ≠ .nl) (X : List Tok) : declared k (t :: X) = declared k X := by
  cases t <;> first | exact absurd rfl ht | simp [declared]

theorem declared_skips (k : String) : ∀ (l : List Tok), noNl l = true → ∀ (X : List Tok), declared k (l ++ X) = declared k X
  | [], _, X => rfl
  | t :: l, h, X => by
    simp only [noNl_cons, Bool.and_eq_true, bne_iff_ne, ne_eq] at h
    rw [List.cons_append, declared_skip k t h.1, declared_skips k l h.2]

/-- lines that do not start with the keyword declare nothing -/
theorem declared_lines (k : String) {a : List Tok} (ha : Lines (fun t => !t.kw k) a) :
    ∀ (R : List Tok), declared k (.nl :: (a ++ R)) = declared k (.nl :: R) := by
  induction ha with
  | nil => intro R; rfl
  | @blank r _ ih =>
    intro R
    have : declared k (.nl :: .nl :: (r ++ R)) = declared k (.nl :: (r ++ R)) := by simp [declared, kw_nl]
    simpa using this.trans (ih R)
  | @line t l r h1 h2 h3 _ ih =>
    intro R
    have hk : t.kw k = false := by simpa using h1
    have e1 : declared k (.nl :: t :: (l ++ .nl :: r ++ R)) = declared k (t :: (l ++ .nl :: r ++ R)) := by simp [declared, hk]
    have e2 := declared_skip k t h2 (l ++ .nl :: r ++ R)
    have e3 := declared_skips k l h3 (.nl :: r ++ R)
    simp only [List.cons_append, List.append_assoc] at e1 e2 e3 ⊢
    rw [e1, e2, e3]
    simpa using ih R

/-- a declaration line declares its names -/
theorem declared_decl (k : String) (hk : (kw k).kw k = true) (ns : List Name) (R : List Tok) :
    declared k (.nl :: kw k :: (prNames ns ++ .nl :: R)) = ns ++ declared k (.nl :: R) := by
  have hn := pNames_print ns R
  have hs := declared_skips k (prNames ns) (by
    simp only [noNl, List.all_eq_true, bne_iff_ne, ne_eq]; exact prNames_no_nl ns) (.nl :: R)
  simp only [kw] at hk ⊢
  simp [declared, hk, hn, hs]

theorem handlerNames_skip (t : Tok) (ht : t ≠ .nl) (X : List Tok) : handlerNames (t :: X) = handlerNames X := by
  cases t <;> first | exact absurd rfl ht | simp [handlerNames]

theorem handlerNames_skips : ∀ (l : List Tok), noNl l = true → ∀ (X : List Tok), handlerNames (l ++ X) = handlerNames X
  | [], _, X => rfl
  | t :: l, h, X => by
    simp only [noNl_cons, Bool.and_eq_true, bne_iff_ne, ne_eq] at h
    rw [List.cons_append, handlerNames_skip t h.1, handlerNames_skips l h.2]

theorem handlerNames_nl_notStart (t : Tok) (h : isHandlerStart t = false) (X : List Tok) :
    handlerNames (.nl :: t :: X) = handlerNames (t :: X) := by
  cases X with
  | nil => cases t <;> simp [handlerNames]
  | cons x X' => cases x <;> simp [handlerNames, h]

/-- lines that do not start a handler contribute no handler name -/
theorem handlerNames_lines {a : List Tok} (ha : Lines (fun t => !isHandlerStart t) a) :
    ∀ (R : List Tok), handlerNames (.nl :: (a ++ R)) = handlerNames (.nl :: R) := by
  induction ha with
  | nil => intro R; rfl
  | @blank r _ ih =>
    intro R
    have := handlerNames_nl_notStart .nl (by decide) (r ++ R)
    simpa using this.trans (ih R)
  | @line t l r h1 h2 h3 _ ih =>
    intro R
    have hk : isHandlerStart t = false := by simpa using h1
    have e1 := handlerNames_nl_notStart t hk (l ++ .nl :: r ++ R)
    have e2 := handlerNames_skip t h2 (l ++ .nl :: r ++ R)
    have e3 := handlerNames_skips l h3 (.nl :: r ++ R)
    simp only [List.cons_append, List.append_assoc] at e1 e2 e3 ⊢
    rw [e1, e2, e3]
    simpa using ih R

theorem handlerNames_start (m : Bool) (name : Name) (X : List Tok) :
    handlerNames (.nl :: handlerKw m :: .id name :: X) = name :: handlerNames X := by
  cases m
  · have : isHandlerStart (Tok.id ['o','n']) = true := by decide
    simp [handlerKw, kw, handlerNames, this]
  · have : isHandlerStart (Tok.id ['m','e','t','h','o','d']) = true := by decide
    simp [handlerKw, kw, handlerNames, this]

theorem handlerSpan_skip (t : Tok) (ht : t ≠ .nl) (X : List Tok) : handlerSpan (t :: X) = t :: handlerSpan X := by
  cases t <;> first | exact absurd rfl ht | simp [handlerSpan]

theorem handlerSpan_skips : ∀ (l : List Tok), noNl l = true → ∀ (X : List Tok), handlerSpan (l ++ X) = l ++ handlerSpan X
  | [], _, X => rfl
  | t :: l, h, X => by
    simp only [noNl_cons, Bool.and_eq_true, bne_iff_ne, ne_eq] at h
    rw [List.cons_append, handlerSpan_skip t h.1, handlerSpan_skips l h.2]
    rfl

/-- the span of a handler runs over all lines that do not start a handler: the lines without their last newline, followed by
    what `handlerSpan` makes of that newline and the rest -/
theorem handlerSpan_lines {a : List Tok} (ha : Lines (fun t => !isHandlerStart t) a) :
    ∀ (R : List Tok), handlerSpan (.nl :: (a ++ R)) = (.nl :: a).dropLast ++ handlerSpan (.nl :: R) := by
  induction ha with
  | nil => intro R; rfl
  | @blank r _ ih =>
    intro R
    have e : handlerSpan (.nl :: .nl :: (r ++ R)) = .nl :: handlerSpan (.nl :: (r ++ R)) := by
      have : isHandlerStart .nl = false := by decide
      simp [handlerSpan, this]
    simp only [List.cons_append]
    rw [e, ih R]
    simp [List.dropLast]
  | @line t l r h1 h2 h3 _ ih =>
    intro R
    have hk : isHandlerStart t = false := by simpa using h1
    have e1 : handlerSpan (.nl :: t :: (l ++ .nl :: r ++ R)) = .nl :: handlerSpan (t :: (l ++ .nl :: r ++ R)) := by
      simp [handlerSpan, hk]
    have e2 := handlerSpan_skip t h2 (l ++ .nl :: r ++ R)
    have e3 := handlerSpan_skips l h3 (.nl :: r ++ R)
    simp only [List.cons_append, List.append_assoc] at e1 e2 e3 ⊢
    rw [e1, e2, e3, ih R]
    have : (Tok.nl :: t :: (l ++ Tok.nl :: r)).dropLast = Tok.nl :: t :: (l ++ (Tok.nl :: r).dropLast) := by
      have e : Tok.nl :: t :: (l ++ Tok.nl :: r) = (Tok.nl :: t :: l) ++ (Tok.nl :: r) := by simp
      rw [e, List.dropLast_append_of_ne_nil (by simp)]
      simp
    rw [this]
    simp

/-! ### layouts: where blank lines stand -/

/-- numbers of extra blank lines: after the `factory` line, after the script's `global` lines (if any), after the `instance` line,
    after a handler's `global` lines (if any), before every handler except the first -/
structure Layout where
  afterFactory : Nat := 0
  afterGlobals : Nat := 0
  afterInstance : Nat := 0
  afterHGlobals : Nat := 0
  betweenHandlers : Nat := 0

def nls (k : Nat) : List Tok := List.replicate k .nl

def hGlobals (s : Script) (h : Handler) : List Name := (h.globalsUsed s.globals).foldr insertName []

def globalLines (gs : List Name) : List Tok := gs.flatMap (fun g => [kw "global", .id g, .nl])

/-- declaration lines at the top of a handler -/
def prPre (L : Layout) (s : Script) (h : Handler) : List Tok :=
  (if h.isMethod ∧ lowerName h.name = "mnew".toList ∧ s.props ≠ [] then kw "instance" :: (prNames s.props ++ .nl :: nls L.afterInstance) else [])
    ++ (globalLines (hGlobals s h) ++ (if hGlobals s h = [] then [] else nls L.afterHGlobals))

def prHandlerL (L : Layout) (s : Script) (h : Handler) : List Tok :=
  handlerKw h.isMethod :: .id h.name :: (prNames h.params ++ .nl :: (prPre L s h ++ (prSs h.body ++ [kw "end", .nl])))

def prHandlersL (L : Layout) (s : Script) : List Handler → List Tok
  | [] => []
  | [h] => prHandlerL L s h
  | h :: h2 :: hs => prHandlerL L s h ++ (nls L.betweenHandlers ++ prHandlersL L s (h2 :: hs))

def prHeaderL (L : Layout) (s : Script) : List Tok :=
  (if s.props ≠ [] ∧ s.factory = [] then kw "property" :: (prNames s.props ++ [.nl]) else [])
    ++ ((if s.factory ≠ [] then kw "factory" :: .id s.factory :: .nl :: nls L.afterFactory else [])
    ++ (globalLines s.globals ++ (if s.globals = [] then [] else nls L.afterGlobals)))

/-- the script printer with a layout; `printLingo` is the layout without blank lines -/
def printLingoL (L : Layout) (s : Script) : List Tok := prHeaderL L s ++ prHandlersL L s s.handlers

theorem prHandlerL_compact (s : Script) (h : Handler) : prHandlerL {} s h = prHandler s h := by
  simp only [prHandlerL, prHandler, prPre, nls, globalLines, hGlobals, handlerKw, List.replicate]
  by_cases hi : h.isMethod = true ∧ lowerName h.name = "mnew".toList ∧ s.props ≠ []
  · by_cases hg : (h.globalsUsed s.globals).foldr insertName [] = [] <;> simp [hi, hg]
  · by_cases hg : (h.globalsUsed s.globals).foldr insertName [] = [] <;> simp [hi, hg]

theorem prHandlersL_compact (s : Script) : ∀ (hs : List Handler), prHandlersL {} s hs = hs.flatMap (prHandler s)
  | [] => rfl
  | [h] => by simp [prHandlersL, prHandlerL_compact]
  | h :: h2 :: hs => by
    have := prHandlersL_compact s (h2 :: hs)
    simp only [prHandlersL, prHandlerL_compact, this, nls, List.replicate, List.nil_append, List.flatMap_cons]

theorem printLingoL_compact (s : Script) : printLingoL {} s = printLingo s := by
  simp only [printLingoL, printLingo, prHeaderL, prHandlersL_compact, nls, globalLines, List.replicate]
  by_cases h1 : s.props ≠ [] ∧ s.factory = [] <;> by_cases h2 : s.factory ≠ [] <;> by_cases h3 : s.globals = [] <;> simp [h1, h2, h3]

/-! ### the header -/

theorem skipNl_nls : ∀ (k : Nat) (X : List Tok), skipNl (nls k ++ X) = skipNl X
  | 0, X => rfl
  | k + 1, X => by
    have := skipNl_nls k X
    simpa [nls, List.replicate, skipNl] using this

theorem skipNl_kw (k : String) (X : List Tok) : skipNl (kw k :: X) = kw k :: X := rfl
theorem skipNl_handlerKw (m : Bool) (X : List Tok) : skipNl (handlerKw m :: X) = handlerKw m :: X := by cases m <;> rfl

theorem pHeader_nls (f k : Nat) (X : List Tok) (s0 : Script) : pHeader (f + 1) (nls k ++ X) s0 = pHeader (f + 1) X s0 := by
  simp only [pHeader, skipNl_nls]

theorem pHeader_property (f : Nat) (ns : List Name) (R : List Tok) (s0 : Script) :
    pHeader (f + 1) (kw "property" :: (prNames ns ++ .nl :: R)) s0 = pHeader f R { s0 with props := s0.props ++ ns } := by
  have k1 : (Tok.id "property".toList).kw "property" = true := by decide
  simp only [pHeader, skipNl_kw]
  simp only [kw, k1, if_true, pNames_print]

theorem pHeader_global (f : Nat) (g : Name) (R : List Tok) (s0 : Script) :
    pHeader (f + 1) (kw "global" :: .id g :: .nl :: R) s0 = pHeader f R { s0 with globals := s0.globals ++ [g] } := by
  have k1 : (Tok.id "global".toList).kw "property" = false := by decide
  have k2 : (Tok.id "global".toList).kw "global" = true := by decide
  have hn : pNames (.id g :: .nl :: R) = some ([g], R) := by simpa [prNames] using pNames_print [g] R
  simp only [pHeader, skipNl_kw]
  simp only [kw, k1, k2, if_true, if_false, Bool.false_eq_true, hn]

theorem pHeader_factory (f : Nat) (n : Name) (R : List Tok) (s0 : Script) :
    pHeader (f + 1) (kw "factory" :: .id n :: .nl :: R) s0 = pHeader f R { s0 with factory := n } := by
  have k1 : (Tok.id "factory".toList).kw "property" = false := by decide
  have k2 : (Tok.id "factory".toList).kw "global" = false := by decide
  have k3 : (Tok.id "factory".toList).kw "factory" = true := by decide
  simp only [pHeader, skipNl_kw]
  simp only [kw, k1, k2, k3, if_true, if_false, Bool.false_eq_true]
  rfl

theorem pHeader_globals : ∀ (gs : List Name) (f : Nat) (R : List Tok) (s0 : Script),
    pHeader (f + gs.length) (globalLines gs ++ R) s0 = pHeader f R { s0 with globals := s0.globals ++ gs }
  | [], f, R, s0 => by simp [globalLines]
  | g :: gs, f, R, s0 => by
    have ih := pHeader_globals gs f R { s0 with globals := s0.globals ++ [g] }
    have e : f + (g :: gs).length = (f + gs.length) + 1 := by simp; omega
    rw [e]
    simp only [globalLines, List.flatMap_cons, List.cons_append, List.nil_append, List.append_assoc] at ih ⊢
    rw [pHeader_global, ih]

theorem pHeader_stop (f : Nat) (m : Bool) (X : List Tok) (s0 : Script) :
    pHeader (f + 1) (handlerKw m :: X) s0 = some (s0, handlerKw m :: X) := by
  cases m
  · have k1 : (Tok.id "on".toList).kw "property" = false := by decide
    have k2 : (Tok.id "on".toList).kw "global" = false := by decide
    have k3 : (Tok.id "on".toList).kw "factory" = false := by decide
    simp only [pHeader, skipNl_handlerKw]
    simp only [handlerKw, kw, k1, k2, k3, if_true, if_false, Bool.false_eq_true]
  · have k1 : (Tok.id "method".toList).kw "property" = false := by decide
    have k2 : (Tok.id "method".toList).kw "global" = false := by decide
    have k3 : (Tok.id "method".toList).kw "factory" = false := by decide
    simp only [pHeader, skipNl_handlerKw]
    simp only [handlerKw, kw, k1, k2, k3, if_true, if_false, Bool.false_eq_true]

theorem pHeader_end (f : Nat) (s0 : Script) : pHeader (f + 1) [] s0 = some (s0, []) := by simp [pHeader, skipNl]

/-- what follows the header: nothing, or a handler -/
def StartsHandler (R : List Tok) : Prop := R = [] ∨ ∃ m X, R = handlerKw m :: X

theorem pHeader_done (f : Nat) (R : List Tok) (hR : StartsHandler R) (s0 : Script) : pHeader (f + 1) R s0 = some (s0, R) := by
  rcases hR with rfl | ⟨m, X, rfl⟩
  · exact pHeader_end f s0
  · exact pHeader_stop f m X s0

/-- the printed header reads back as the script's header fields -/
theorem rp_header (L : Layout) (s : Script) (R : List Tok) (hR : StartsHandler R) (F : Nat) (hF : s.globals.length + 4 ≤ F) :
    pHeader F (prHeaderL L s ++ R) { factory := [], props := [], globals := [], handlers := [] }
      = some ({ factory := s.factory, props := if s.props ≠ [] ∧ s.factory = [] then s.props else [], globals := s.globals, handlers := [] }, R) := by
  obtain ⟨f, rfl⟩ : ∃ f, F = f + (s.globals.length + 3) := ⟨F - (s.globals.length + 3), by omega⟩
  -- the tail: global lines, blank lines, then the handlers
  have tail : ∀ (s0 : Script) (f' : Nat), 1 ≤ f' →
      pHeader (f' + s.globals.length) (globalLines s.globals ++ ((if s.globals = [] then [] else nls L.afterGlobals) ++ R)) s0
        = some ({ s0 with globals := s0.globals ++ s.globals }, R) := by
    intro s0 f' hf'
    obtain ⟨f'', rfl⟩ : ∃ f'', f' = f'' + 1 := ⟨f' - 1, by omega⟩
    rw [pHeader_globals]
    by_cases hg : s.globals = []
    · simp only [hg, if_true, List.nil_append]
      exact pHeader_done f'' R hR _
    · simp only [hg, if_false]
      rw [pHeader_nls]
      exact pHeader_done f'' R hR _
  by_cases h1 : s.props ≠ [] ∧ s.factory = []
  · have hp : prHeaderL L s ++ R = kw "property" :: (prNames s.props ++ .nl ::
        (globalLines s.globals ++ ((if s.globals = [] then [] else nls L.afterGlobals) ++ R))) := by
      simp [prHeaderL, h1]
    have e : f + (s.globals.length + 3) = (f + 2 + s.globals.length) + 1 := by omega
    rw [hp, e, pHeader_property, tail _ (f + 2) (by omega)]
    simp [h1]
  · by_cases h2 : s.factory = []
    · have hp0 : s.props = [] := by
        by_cases hh : s.props = []
        · exact hh
        · exact absurd ⟨hh, h2⟩ h1
      have hp : prHeaderL L s ++ R = globalLines s.globals ++ ((if s.globals = [] then [] else nls L.afterGlobals) ++ R) := by
        simp [prHeaderL, hp0, h2]
      have e : f + (s.globals.length + 3) = (f + 3) + s.globals.length := by omega
      rw [hp, e, tail _ (f + 3) (by omega)]
      simp [hp0, h2]
    · have hp : prHeaderL L s ++ R = kw "factory" :: .id s.factory :: .nl :: (nls L.afterFactory ++
          (globalLines s.globals ++ ((if s.globals = [] then [] else nls L.afterGlobals) ++ R))) := by
        simp [prHeaderL, h2]
      have e : f + (s.globals.length + 3) = (f + 1 + s.globals.length + 1) + 1 := by omega
      rw [hp, e, pHeader_factory, pHeader_nls]
      have e2 : f + 1 + s.globals.length + 1 = (f + 2) + s.globals.length := by omega
      rw [e2, tail _ (f + 2) (by omega)]
      simp [h2]

/-! ### fuel of statements against printed length -/

theorem prCallStmt_len (f : Name) (as : List Expr) : 1 ≤ (prCallStmt f as).length := by
  obtain ⟨X, hX, _⟩ := prCallStmt_shape f as
  simp [hX]

mutual
theorem fuelS_bound : ∀ (s : Stmt), fuelS s + 1 ≤ 2 * (prS s).length
  | .set _ _ => by simp [fuelS, prS]; omega
  | .put _ _ _ => by simp [fuelS, prS]; omega
  | .delete _ => by simp [fuelS, prS]; omega
  | .hilite _ => by simp [fuelS, prS]; omega
  | .exit => by simp [fuelS, prS]
  | .exitRepeat => by simp [fuelS, prS]
  | .call f as => by have := prCallStmt_len f as; simp [fuelS, prS]; omega
  | .mcall _ _ _ => by simp [fuelS, prS]; omega
  | .tell _ b => by have := fuelSs_bound b; simp [fuelS, prS]; omega
  | .ifThen _ t e => by
    have := fuelSs_bound t
    have := fuelSs_bound e
    cases e with
    | nil => simp [fuelS, fuelSs, prS, prSs] at *; omega
    | cons e1 es => simp [fuelS, prS] at *; omega
  | .repeatWhile _ b => by have := fuelSs_bound b; simp [fuelS, prS]; omega
  | .repeatWith _ _ _ d b => by have := fuelSs_bound b; cases d <;> simp [fuelS, prS] <;> omega
  | .repeatIn _ _ b => by have := fuelSs_bound b; simp [fuelS, prS]; omega
theorem fuelSs_bound : ∀ (ss : List Stmt), fuelSs ss ≤ 2 * (prSs ss).length + 1
  | [] => by simp [fuelSs]
  | s :: ss => by
    have := fuelS_bound s
    have := fuelSs_bound ss
    simp [fuelSs, prSs]; omega
end

/-! ### the declaration lines of a handler -/

theorem skip_nls : ∀ (k : Nat), Skip (nls k) k
  | 0 => Skip.nil
  | k + 1 => Skip.nl (skip_nls k)

theorem skip_globalLines : ∀ (gs : List Name), Skip (globalLines gs) gs.length
  | [] => Skip.nil
  | g :: gs => by
    have := Skip.line (k := "global") (l := [.id g]) (Or.inl rfl) (by simp) (skip_globalLines gs)
    simpa [globalLines] using this

theorem globalLines_cons (g : Name) (gs : List Name) : globalLines (g :: gs) = kw "global" :: .id g :: .nl :: globalLines gs := rfl

theorem globalLines_length : ∀ (gs : List Name), (globalLines gs).length = 3 * gs.length
  | [] => rfl
  | g :: gs => by rw [globalLines_cons]; simp [globalLines_length gs]; omega

theorem nls_length (k : Nat) : (nls k).length = k := by simp [nls]

theorem skip_prPre (L : Layout) (s : Script) (h : Handler) : ∃ n, Skip (prPre L s h) n ∧ n ≤ (prPre L s h).length := by
  have hg : ∃ n, Skip (globalLines (hGlobals s h) ++ (if hGlobals s h = [] then [] else nls L.afterHGlobals)) n
      ∧ n ≤ (globalLines (hGlobals s h) ++ (if hGlobals s h = [] then [] else nls L.afterHGlobals)).length := by
    by_cases hh : hGlobals s h = []
    · rw [if_pos hh, hh]
      exact ⟨0, by simpa [globalLines] using Skip.nil, by simp⟩
    · rw [if_neg hh]
      refine ⟨(hGlobals s h).length + L.afterHGlobals, skip_append (skip_globalLines _) (skip_nls _), ?_⟩
      rw [List.length_append, globalLines_length, nls_length]
      omega
  obtain ⟨n, hn, hl⟩ := hg
  unfold prPre
  by_cases hi : h.isMethod = true ∧ lowerName h.name = "mnew".toList ∧ s.props ≠ []
  · rw [if_pos hi]
    refine ⟨L.afterInstance + 1 + n, ?_, ?_⟩
    · have h1 : Skip (kw "instance" :: (prNames s.props ++ .nl :: nls L.afterInstance)) (L.afterInstance + 1) :=
        Skip.line (k := "instance") (Or.inr (Or.inl rfl)) (prNames_no_nl s.props) (skip_nls _)
      exact skip_append h1 hn
    · rw [List.length_append] at hl ⊢
      simp only [List.length_cons, List.length_append, nls_length]
      omega
  · rw [if_neg hi]
    exact ⟨n, by simpa using hn, by simpa using hl⟩

/-! ### the handler list -/

/-- the tokens that follow a handler when the remaining handlers are `hs` -/
def afterHandler (L : Layout) (s : Script) : List Handler → List Tok
  | [] => []
  | h2 :: hs => nls L.betweenHandlers ++ prHandlersL L s (h2 :: hs)

theorem prHandlersL_cons (L : Layout) (s : Script) (h : Handler) (hs : List Handler) :
    prHandlersL L s (h :: hs) = prHandlerL L s h ++ afterHandler L s hs := by
  cases hs <;> simp [prHandlersL, afterHandler]

/-- every handler body lies in the statement fragment, under the environment the script reader builds for that handler from the
    token stream (parameters, script and handler globals, assigned names, handler names, `me` in methods) -/
def HandlersOk (se : ScriptEnv) (L : Layout) (s : Script) : List Handler → Prop
  | [] => True
  | h :: hs =>
    FragSs (handlerEnv se h.isMethod h.params (prPre L s h ++ (prSs h.body ++ kw "end" :: .nl :: afterHandler L s hs))) h.body
      ∧ HandlersOk se L s hs

theorem pHandlers_nls (se : ScriptEnv) (f k : Nat) (X : List Tok) : pHandlers se (f + 1) (nls k ++ X) = pHandlers se (f + 1) X := by
  simp only [pHandlers, skipNl_nls]

theorem rp_handlers (se : ScriptEnv) (L : Layout) (s : Script) : ∀ (hs : List Handler), HandlersOk se L s hs →
    ∀ (F : Nat), 2 * (prHandlersL L s hs).length + hs.length + 2 ≤ F → pHandlers se F (prHandlersL L s hs) = some hs
  | [], _, F, hF => by
    obtain ⟨f, rfl⟩ : ∃ f, F = f + 1 := ⟨F - 1, by omega⟩
    simp [prHandlersL, pHandlers, skipNl]
  | h :: hs, hok, F, hF => by
    obtain ⟨hfr, hrest⟩ := hok
    obtain ⟨f, rfl⟩ : ∃ f, F = f + 1 := ⟨F - 1, by omega⟩
    obtain ⟨n, hskip, hn⟩ := skip_prPre L s h
    rw [prHandlersL_cons] at hF ⊢
    have hlen : (prHandlerL L s h).length ≥ (prPre L s h).length + (prSs h.body).length + 4 := by
      simp [prHandlerL]; omega
    have hfb := fuelSs_bound h.body
    have hH := rp_handler se h.isMethod h.name h.params (prPre L s h) n hskip h.body (afterHandler L s hs) hfr f
      (by simp only [List.length_append] at hF; omega)
    have hH' : pHandler se f (prHandlerL L s h ++ afterHandler L s hs) = some (h, afterHandler L s hs) := by
      have : prHandlerL L s h ++ afterHandler L s hs
          = handlerKw h.isMethod :: .id h.name :: (prNames h.params ++ .nl :: (prPre L s h ++ (prSs h.body ++ kw "end" :: .nl :: afterHandler L s hs))) := by
        simp [prHandlerL]
      rw [this, hH]
    have hsk : skipNl (prHandlerL L s h ++ afterHandler L s hs) = prHandlerL L s h ++ afterHandler L s hs := by
      simp only [prHandlerL, List.cons_append]; exact skipNl_handlerKw _ _
    have hnext : pHandlers se f (afterHandler L s hs) = some hs := by
      cases hs with
      | nil =>
        obtain ⟨f', rfl⟩ : ∃ f', f = f' + 1 := ⟨f - 1, by simp only [List.length_append] at hF; omega⟩
        simp [afterHandler, pHandlers, skipNl]
      | cons h2 hs2 =>
        obtain ⟨f', rfl⟩ : ∃ f', f = f' + 1 := ⟨f - 1, by simp only [List.length_append] at hF; omega⟩
        simp only [afterHandler]
        rw [pHandlers_nls]
        exact rp_handlers se L s (h2 :: hs2) hrest (f' + 1) (by
          simp only [afterHandler, List.length_append, List.length_cons] at hF ⊢; omega)
    have htx : prHandlerL L s h ++ afterHandler L s hs = handlerKw h.isMethod :: (.id h.name ::
        (prNames h.params ++ .nl :: (prPre L s h ++ (prSs h.body ++ kw "end" :: .nl :: afterHandler L s hs)))) := by
      simp [prHandlerL]
    generalize handlerKw h.isMethod = t at htx
    generalize (Tok.id h.name :: (prNames h.params ++ .nl :: (prPre L s h ++ (prSs h.body ++ kw "end" :: .nl :: afterHandler L s hs)))) = X at htx
    rw [htx] at hsk hH'
    simp only [pHandlers, htx, hsk, hH', hnext]

/-! ### line structure of a whole handler; what `instance` lines and handler headers contribute -/

theorem lines_globalLines {P : Tok → Bool} (hP : P (kw "global") = true) : ∀ (gs : List Name), Lines P (globalLines gs)
  | [] => Lines.nil
  | g :: gs => by
    have := Lines.line (P := P) (t := kw "global") (l := [.id g]) (r := globalLines gs) hP (by simp [kw]) (by simp [noNl])
      (lines_globalLines hP gs)
    simpa [globalLines] using this

theorem lines_nls {P : Tok → Bool} (k : Nat) : Lines P (nls k) := lines_replicate k

/-- the lines of a handler after its header line and `instance` line -/
def handlerTail (L : Layout) (s : Script) (h : Handler) : List Tok :=
  globalLines (hGlobals s h) ++ ((if hGlobals s h = [] then [] else nls L.afterHGlobals) ++ (prSs h.body ++ [kw "end", .nl]))

theorem handlerTail_lines (L : Layout) (s : Script) (h : Handler) (hb : headsOk h.body = true) (P : Tok → Bool)
    (hg : P (kw "global") = true) (hP : ∀ t, lineHead t = true → P t = true) : Lines P (handlerTail L s h) := by
  unfold handlerTail
  refine lines_append (lines_globalLines hg _) (lines_append ?_ (lines_append (lines_mono hP (prSs_lines h.body hb)) ?_))
  · by_cases hh : hGlobals s h = []
    · rw [if_pos hh]; exact Lines.nil
    · rw [if_neg hh]; exact lines_nls _
  · have := lines_one (P := P) (kw "end") [] (hP _ (by decide)) (by simp [kw]) rfl
    simpa using this

def instDecl (s : Script) (h : Handler) : List Name :=
  if h.isMethod ∧ lowerName h.name = "mnew".toList ∧ s.props ≠ [] then s.props else []

/-- shape of a printed handler: header line, optional `instance` line (+ blank lines), tail -/
theorem prHandlerL_shape (L : Layout) (s : Script) (h : Handler) :
    prHandlerL L s h = handlerKw h.isMethod :: ((.id h.name :: prNames h.params) ++ .nl ::
      ((if h.isMethod ∧ lowerName h.name = "mnew".toList ∧ s.props ≠ [] then kw "instance" :: (prNames s.props ++ .nl :: nls L.afterInstance) else [])
        ++ handlerTail L s h)) := by
  simp [prHandlerL, prPre, handlerTail]

theorem lineHead_not_kw (k : String) (hk : k = "instance" ∨ k = "global") (t : Tok) (h : lineHead t = true) : (!t.kw k) = true := by
  simp [lineHead] at h
  rcases hk with hk | hk <;> subst hk <;> simp [h]

theorem lineHead_not_start (t : Tok) (h : lineHead t = true) : (!isHandlerStart t) = true := by
  simp [lineHead] at h
  simp [isHandlerStart, h]

theorem handlerKw_ne_nl (m : Bool) : handlerKw m ≠ .nl := by cases m <;> simp [handlerKw, kw]

theorem declared_instance_handler (L : Layout) (s : Script) (h : Handler) (hb : headsOk h.body = true) (R : List Tok) :
    declared "instance" (.nl :: (prHandlerL L s h ++ R)) = instDecl s h ++ declared "instance" (.nl :: R) := by
  have hk : ∀ m, (!(handlerKw m).kw "instance") = true := by intro m; cases m <;> decide
  have hline : Lines (fun t => !t.kw "instance") (handlerKw h.isMethod :: ((.id h.name :: prNames h.params) ++ [.nl])) :=
    lines_one _ _ (hk _) (handlerKw_ne_nl _) (by
      simp only [noNl, List.all_cons, List.all_eq_true, bne_iff_ne, ne_eq, Bool.and_eq_true]
      exact ⟨by simp, prNames_no_nl _⟩)
  have htail : Lines (fun t => !t.kw "instance") (handlerTail L s h) :=
    handlerTail_lines L s h hb _ (by decide) (lineHead_not_kw "instance" (Or.inl rfl))
  rw [prHandlerL_shape]
  have e1 := declared_lines "instance" hline
  unfold instDecl
  by_cases hi : h.isMethod = true ∧ lowerName h.name = "mnew".toList ∧ s.props ≠ []
  · rw [if_pos hi, if_pos hi]
    have e0 := e1 (kw "instance" :: (prNames s.props ++ .nl :: (nls L.afterInstance ++ (handlerTail L s h ++ R))))
    have e2 := declared_decl "instance" (by decide) s.props (nls L.afterInstance ++ (handlerTail L s h ++ R))
    have e3 := declared_lines "instance" (lines_append (lines_nls (P := fun t => !t.kw "instance") L.afterInstance) htail) R
    simp only [List.cons_append, List.append_assoc, List.nil_append] at e0 e2 e3 ⊢
    rw [e0, e2, e3]
  · rw [if_neg hi, if_neg hi]
    have e0 := e1 (handlerTail L s h ++ R)
    have e3 := declared_lines "instance" htail R
    simp only [List.cons_append, List.append_assoc, List.nil_append] at e0 e3 ⊢
    rw [e0, e3]

theorem declared_instance_handlers (L : Layout) (s : Script) (se : ScriptEnv) : ∀ (hs : List Handler), HandlersOk se L s hs →
    declared "instance" (.nl :: prHandlersL L s hs) = hs.flatMap (instDecl s)
  | [], _ => by simp [prHandlersL, declared]
  | h :: hs, hok => by
    obtain ⟨hfr, hrest⟩ := hok
    rw [prHandlersL_cons, declared_instance_handler L s h (headsOk_of_frag _ h.body hfr)]
    cases hs with
    | nil => simp [afterHandler, declared]
    | cons h2 hs2 =>
      have ih := declared_instance_handlers L s se (h2 :: hs2) hrest
      have e := declared_lines "instance" (lines_nls (P := fun t => !t.kw "instance") L.betweenHandlers) (prHandlersL L s (h2 :: hs2))
      simp only [afterHandler]
      rw [e, ih]
      simp

theorem handlers_length_le (L : Layout) (s : Script) : ∀ (hs : List Handler), hs.length ≤ (prHandlersL L s hs).length
  | [] => by simp
  | h :: hs => by
    have := handlers_length_le L s hs
    rw [prHandlersL_cons]
    cases hs with
    | nil => simp [prHandlerL]
    | cons h2 hs2 => simp only [afterHandler, List.length_append, List.length_cons, prHandlerL] at this ⊢; omega

/-! ### the script -/

/-- script-level part of the environments: what `parseScript` collects before it reads the handlers -/
def scriptEnvOf (L : Layout) (s : Script) : ScriptEnv :=
  { props := s.props, globals := s.globals, handlers := handlerNames (.nl :: prHandlersL L s s.handlers) }

/-- the scripts the round-trip theorem covers: the property names are declared exactly once (a `property` line, or the `instance`
    line of the one `mNew` method of a factory), and every handler body lies in the statement fragment -/
def ScriptOk (L : Layout) (s : Script) : Prop :=
  ((if s.props ≠ [] ∧ s.factory = [] then s.props else []) ++ s.handlers.flatMap (instDecl s) = s.props)
    ∧ HandlersOk (scriptEnvOf L s) L s s.handlers

theorem startsHandler_handlers (L : Layout) (s : Script) (hs : List Handler) : StartsHandler (prHandlersL L s hs) := by
  cases hs with
  | nil => exact Or.inl rfl
  | cons h hs =>
    exact Or.inr ⟨h.isMethod, (Tok.id h.name :: (prNames h.params ++ .nl :: (prPre L s h ++ (prSs h.body ++ [kw "end", .nl])))) ++ afterHandler L s hs,
      by rw [prHandlersL_cons]; simp [prHandlerL]⟩

/-- the script reader inverts the script printer, in every layout -/
theorem rp_script (L : Layout) (s : Script) (h : ScriptOk L s) : parseScript (printLingoL L s) = some s := by
  obtain ⟨hprops, hok⟩ := h
  have hlenH : (prHeaderL L s).length ≥ 3 * s.globals.length := by
    simp only [prHeaderL, List.length_append, globalLines_length]; omega
  have hH := rp_header L s (prHandlersL L s s.handlers) (startsHandler_handlers L s s.handlers)
    (4 * (printLingoL L s).length + 16) (by simp only [printLingoL, List.length_append]; omega)
  have hD := declared_instance_handlers L s (scriptEnvOf L s) s.handlers hok
  have hHs := rp_handlers (scriptEnvOf L s) L s s.handlers hok (4 * (printLingoL L s).length + 16) (by
    have := handlers_length_le L s s.handlers
    simp only [printLingoL, List.length_append]; omega)
  unfold parseScript
  simp only [printLingoL] at hH hHs ⊢
  simp only [hH, hD, hprops]
  simp only [scriptEnvOf] at hHs
  simp only [hHs]


/-! ### the environments the script reader builds, made explicit -/

theorem lines_instPart {P : Tok → Bool} (hP : P (kw "instance") = true) (L : Layout) (s : Script) (h : Handler) :
    Lines P (if h.isMethod ∧ lowerName h.name = "mnew".toList ∧ s.props ≠ [] then kw "instance" :: (prNames s.props ++ .nl :: nls L.afterInstance) else []) := by
  by_cases hi : h.isMethod = true ∧ lowerName h.name = "mnew".toList ∧ s.props ≠ []
  · rw [if_pos hi]
    exact Lines.line hP (by simp [kw]) (by
      simp only [noNl, List.all_eq_true, bne_iff_ne, ne_eq]; exact prNames_no_nl _) (lines_nls _)
  · rw [if_neg hi]; exact Lines.nil

/-- everything of a printed handler after its header line, as lines -/
theorem handlerBody_lines (L : Layout) (s : Script) (h : Handler) (hb : headsOk h.body = true) (P : Tok → Bool)
    (hi : P (kw "instance") = true) (hg : P (kw "global") = true) (hP : ∀ t, lineHead t = true → P t = true) :
    Lines P (prPre L s h ++ (prSs h.body ++ [kw "end", .nl])) := by
  have e : prPre L s h ++ (prSs h.body ++ [kw "end", .nl])
      = (if h.isMethod ∧ lowerName h.name = "mnew".toList ∧ s.props ≠ [] then kw "instance" :: (prNames s.props ++ .nl :: nls L.afterInstance) else [])
        ++ handlerTail L s h := by simp [prPre, handlerTail]
  rw [e]
  exact lines_append (lines_instPart hi L s h) (handlerTail_lines L s h hb P hg hP)

theorem handlerNames_handler (L : Layout) (s : Script) (h : Handler) (hb : headsOk h.body = true) (R : List Tok) :
    handlerNames (.nl :: (prHandlerL L s h ++ R)) = h.name :: handlerNames (.nl :: R) := by
  have hl := handlerBody_lines L s h hb (fun t => !isHandlerStart t) (by decide) (by decide) lineHead_not_start
  have e1 := handlerNames_start h.isMethod h.name (prNames h.params ++ .nl :: (prPre L s h ++ (prSs h.body ++ [kw "end", .nl]) ++ R))
  have e2 := handlerNames_skips (prNames h.params) (by
    simp only [noNl, List.all_eq_true, bne_iff_ne, ne_eq]; exact prNames_no_nl _) (.nl :: (prPre L s h ++ (prSs h.body ++ [kw "end", .nl]) ++ R))
  have e3 := handlerNames_lines hl R
  simp only [prHandlerL, List.cons_append, List.append_assoc] at e1 e2 e3 ⊢
  rw [e1, e2, e3]

/-- the handler names the script reader collects are the handlers' names, in order -/
theorem handlerNames_handlers (L : Layout) (s : Script) : ∀ (hs : List Handler), (∀ h ∈ hs, headsOk h.body = true) →
    handlerNames (.nl :: prHandlersL L s hs) = hs.map (·.name)
  | [], _ => by simp [prHandlersL, handlerNames]
  | h :: hs, hok => by
    rw [prHandlersL_cons, handlerNames_handler L s h (hok h (by simp))]
    cases hs with
    | nil => simp [afterHandler, handlerNames]
    | cons h2 hs2 =>
      have ih := handlerNames_handlers L s (h2 :: hs2) (fun x hx => hok x (by simp [hx]))
      have e := handlerNames_lines (lines_nls (P := fun t => !isHandlerStart t) L.betweenHandlers) (prHandlersL L s (h2 :: hs2))
      simp only [afterHandler]
      rw [e, ih]
      simp

theorem handlerSpan_nls_handler : ∀ (k : Nat) (m : Bool) (X : List Tok), handlerSpan (.nl :: (nls k ++ handlerKw m :: X)) = nls k
  | 0, m, X => by
    have : isHandlerStart (handlerKw m) = true := by cases m <;> decide
    simp [nls, handlerSpan, this]
  | k + 1, m, X => by
    have ih := handlerSpan_nls_handler k m X
    have : isHandlerStart .nl = false := by decide
    simp only [nls, List.replicate, List.cons_append] at ih ⊢
    simp [handlerSpan, this, ih]

theorem declared_nls (key : String) : ∀ (k : Nat), declared key (nls k) = []
  | 0 => rfl
  | 1 => by simp [nls, declared]
  | k + 2 => by
    have ih := declared_nls key (k + 1)
    simp only [nls, List.replicate] at ih ⊢
    simp [declared, kw_nl, ih]

theorem declared_globalLines : ∀ (gs : List Name) (R : List Tok),
    declared "global" (.nl :: (globalLines gs ++ R)) = gs ++ declared "global" (.nl :: R)
  | [], R => rfl
  | g :: gs, R => by
    have e := declared_decl "global" (by decide) [g] (globalLines gs ++ R)
    simp only [prNames, List.cons_append, List.nil_append] at e
    rw [globalLines_cons]
    simp only [List.cons_append]
    rw [e, declared_globalLines gs R]

/-- the tokens after a handler: nothing, or blank lines and the next handler -/
theorem afterHandler_shape (L : Layout) (s : Script) (hs : List Handler) :
    afterHandler L s hs = [] ∨ ∃ m X, afterHandler L s hs = nls L.betweenHandlers ++ handlerKw m :: X := by
  cases hs with
  | nil => exact Or.inl rfl
  | cons h2 hs2 =>
    refine Or.inr ⟨h2.isMethod, (Tok.id h2.name :: (prNames h2.params ++ .nl :: (prPre L s h2 ++ (prSs h2.body ++ [kw "end", .nl])))) ++ afterHandler L s hs2, ?_⟩
    show nls L.betweenHandlers ++ prHandlersL L s (h2 :: hs2) = _
    rw [prHandlersL_cons]
    simp [prHandlerL]

/-- **the handler's own `global` declarations, as the script reader sees them, are exactly the printed ones** -/
theorem declared_global_span (L : Layout) (s : Script) (h : Handler) (hs : List Handler) (hb : headsOk h.body = true) :
    declared "global" (.nl :: handlerSpan (prPre L s h ++ (prSs h.body ++ kw "end" :: .nl :: afterHandler L s hs))) = hGlobals s h := by
  -- the span is the handler's lines without the last newline, followed by the blank lines before the next handler
  have hl := handlerBody_lines L s h hb (fun t => !isHandlerStart t) (by decide) (by decide) lineHead_not_start
  have hsp := handlerSpan_lines hl (afterHandler L s hs)
  have hne : ∃ t B, prPre L s h ++ (prSs h.body ++ [kw "end", .nl]) = t :: B ∧ isHandlerStart t = false := by
    obtain ⟨t, B, h1, h2⟩ := lines_head hl (by simp)
    refine ⟨t, B, h1, ?_⟩
    rcases h2 with h2 | h2
    · subst h2; decide
    · simpa using h2
  obtain ⟨t, B, htB, hts⟩ := hne
  have e0 : Tok.nl :: handlerSpan (prPre L s h ++ (prSs h.body ++ kw "end" :: .nl :: afterHandler L s hs))
      = handlerSpan (.nl :: (prPre L s h ++ (prSs h.body ++ [kw "end", .nl]) ++ afterHandler L s hs)) := by
    have : prPre L s h ++ (prSs h.body ++ kw "end" :: .nl :: afterHandler L s hs)
        = (prPre L s h ++ (prSs h.body ++ [kw "end", .nl])) ++ afterHandler L s hs := by simp
    rw [this, htB]
    simp [handlerSpan, hts]
  rw [e0, hsp]
  -- drop the last newline
  have hdl : (Tok.nl :: (prPre L s h ++ (prSs h.body ++ [kw "end", .nl]))).dropLast = .nl :: (prPre L s h ++ (prSs h.body ++ [kw "end"])) := by
    have : Tok.nl :: (prPre L s h ++ (prSs h.body ++ [kw "end", .nl])) = (Tok.nl :: (prPre L s h ++ (prSs h.body ++ [kw "end"]))) ++ [.nl] := by simp
    rw [this, List.dropLast_concat]
  rw [hdl]
  -- what follows: a newline (end of input) or the blank lines before the next handler; neither declares anything
  have htailT : ∃ T, handlerSpan (.nl :: afterHandler L s hs) = nls T := by
    rcases afterHandler_shape L s hs with h0 | ⟨m, X, h1⟩
    · rw [h0]; exact ⟨1, by simp [handlerSpan, nls]⟩
    · rw [h1]; exact ⟨_, handlerSpan_nls_handler _ m X⟩
  obtain ⟨T, hT⟩ := htailT
  rw [hT]
  -- now count the declarations line by line
  have hinst := lines_instPart (P := fun t => !t.kw "global") (by decide) L s h
  have hstm : Lines (fun t => !t.kw "global") ((if hGlobals s h = [] then [] else nls L.afterHGlobals) ++ prSs h.body) := by
    refine lines_append ?_ (lines_mono (lineHead_not_kw "global" (Or.inr rfl)) (prSs_lines h.body hb))
    by_cases hh : hGlobals s h = []
    · rw [if_pos hh]; exact Lines.nil
    · rw [if_neg hh]; exact lines_nls _
  have e1 := declared_lines "global" hinst
    (globalLines (hGlobals s h) ++ (((if hGlobals s h = [] then [] else nls L.afterHGlobals) ++ prSs h.body) ++ (kw "end" :: nls T)))
  have e2 := declared_globalLines (hGlobals s h) (((if hGlobals s h = [] then [] else nls L.afterHGlobals) ++ prSs h.body) ++ (kw "end" :: nls T))
  have e3 := declared_lines "global" hstm (kw "end" :: nls T)
  have e4 : declared "global" (.nl :: kw "end" :: nls T) = [] := by
    have k1 : (Tok.id ['e','n','d']).kw "global" = false := by decide
    have := declared_nls "global" T
    simp only [kw]
    cases T with
    | zero => simp [nls, declared, k1]
    | succ T' =>
      have e : declared "global" (Tok.id ['e','n','d'] :: nls (T' + 1)) = declared "global" (nls (T' + 1)) :=
        declared_skip "global" _ (by simp) _
      simp [declared, k1, e, this]
  have shape : Tok.nl :: (prPre L s h ++ (prSs h.body ++ [kw "end"])) ++ nls T
      = .nl :: ((if h.isMethod ∧ lowerName h.name = "mnew".toList ∧ s.props ≠ [] then kw "instance" :: (prNames s.props ++ .nl :: nls L.afterInstance) else [])
          ++ (globalLines (hGlobals s h) ++ (((if hGlobals s h = [] then [] else nls L.afterHGlobals) ++ prSs h.body) ++ (kw "end" :: nls T)))) := by
    simp [prPre]
  rw [shape, e1, e2, e3, e4]
  simp

/-- the reference layout (no blank lines) -/
theorem rp_script_compact (s : Script) (h : ScriptOk {} s) : parseScript (printLingo s) = some s := by
  rw [← printLingoL_compact]; exact rp_script {} s h

end Drx.Spec
