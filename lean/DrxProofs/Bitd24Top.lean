/-
  C06, 32 bits per pixel, end to end (zero offsets).
-/
import DrxProofs.Bitd24
namespace Drx.Bitd
open Drx Drx.Bitd.Spec

/-- one BMP row of a planar 32-bit line (alpha, red, green, blue planes): blue, green, red of every pixel -/
def bmpRow24 (W : Nat) (line : Bytes) : Bytes :=
  interleave3 (slice line (3 * W) (4 * W)) (slice line (2 * W) (3 * W)) (slice line W (2 * W)) ++ zeros ((4 - (3 * W) % 4) % 4)

theorem deint24_lines (w : Nat) (L : List Bytes) (hl : ∀ r ∈ L, r.length = 4 * w) :
    deint24 L.flatten w L.length = L.flatMap (bmpRow24 w) := by
  unfold deint24
  rw [List.range_eq_range']
  apply flatMap_range'
  intro i hi
  simp only [Nat.zero_add]
  unfold bmpRow24
  rw [slice_flatten_uniform (4 * w) L i (3 * w) (4 * w) hl hi (by omega) (by omega),
      slice_flatten_uniform (4 * w) L i (2 * w) (3 * w) hl hi (by omega) (by omega),
      slice_flatten_uniform (4 * w) L i w (2 * w) hl hi (by omega) (by omega)]
  congr 2
  omega

abbrev Px32 := UInt8 × UInt8 × UInt8 × UInt8

/-- the planar scan lines of a 32-bit image -/
def lines32 (rows : List (List Px32)) : List Bytes :=
  rows.map fun r => r.map (·.1) ++ r.map (·.2.1) ++ r.map (·.2.2.1) ++ r.map (·.2.2.2)

theorem interleave3_quads (r : List Px32) :
    interleave3 (r.map (·.2.2.2)) (r.map (·.2.2.1)) (r.map (·.2.1)) = r.flatMap fun p => [p.2.2.2, p.2.2.1, p.2.1] := by
  induction r with
  | nil => rfl
  | cons p r ih => simp [interleave3, ih]

theorem pixelsOf_three (r : List Px32) (rest : Bytes) :
    pixelsOf 3 r.length ((r.flatMap fun p => [p.2.2.2, p.2.2.1, p.2.1]) ++ rest) = r.map fun p => [p.2.2.2, p.2.2.1, p.2.1] := by
  induction r with
  | nil => rfl
  | cons p r ih => simp [pixelsOf, ih]

theorem flatMap_quads_length (a : List Px32) : (a.flatMap fun p => [p.2.2.2, p.2.2.1, p.2.1]).length = 3 * a.length := by
  induction a with
  | nil => rfl
  | cons p a ih => rw [List.flatMap_cons, List.length_append, ih]; simp; omega

theorem bmpRow24_line (r : List Px32) :
    bmpRow24 r.length (r.map (·.1) ++ r.map (·.2.1) ++ r.map (·.2.2.1) ++ r.map (·.2.2.2))
      = (r.flatMap fun p => [p.2.2.2, p.2.2.1, p.2.1]) ++ zeros ((4 - (3 * r.length) % 4) % 4) := by
  unfold bmpRow24
  have e3 : slice (r.map (·.1) ++ r.map (·.2.1) ++ r.map (·.2.2.1) ++ r.map (·.2.2.2)) (3 * r.length) (4 * r.length) = r.map (·.2.2.2) := by
    have := slice_at (r.map (·.1) ++ r.map (·.2.1) ++ r.map (·.2.2.1)) (r.map (·.2.2.2)) [] (3 * r.length) r.length (by simp; omega) (by simp)
    rw [List.append_nil] at this
    have e : 3 * r.length + r.length = 4 * r.length := by omega
    rw [e] at this; exact this
  have e2 : slice (r.map (·.1) ++ r.map (·.2.1) ++ r.map (·.2.2.1) ++ r.map (·.2.2.2)) (2 * r.length) (3 * r.length) = r.map (·.2.2.1) := by
    have := slice_at (r.map (·.1) ++ r.map (·.2.1)) (r.map (·.2.2.1)) (r.map (·.2.2.2)) (2 * r.length) r.length (by simp; omega) (by simp)
    have e : 2 * r.length + r.length = 3 * r.length := by omega
    rw [e] at this; exact this
  have e1 : slice (r.map (·.1) ++ r.map (·.2.1) ++ r.map (·.2.2.1) ++ r.map (·.2.2.2)) r.length (2 * r.length) = r.map (·.2.1) := by
    have := slice_at (r.map (·.1)) (r.map (·.2.1)) (r.map (·.2.2.1) ++ r.map (·.2.2.2)) r.length r.length (by simp) (by simp)
    have e : r.length + r.length = 2 * r.length := by omega
    rw [e, ← List.append_assoc] at this; exact this
  rw [e3, e2, e1, interleave3_quads]

theorem compressed24_spec (W H : Nat) (hW : 0 < W) (opsRows : List (List Op)) (rows : List Bytes)
    (hv : validRows opsRows rows = true) (hn : rows.length = H) (hH : 0 < H) (hl : ∀ r ∈ rows, r.length = 4 * W) :
    compressed24 (packed opsRows.flatten) W H = .ok ((rows.reverse.map (bmpRow24 W)).flatten) := by
  unfold compressed24
  have hz : zeros (4 * W * H) = zeros ((H - 1 + 1) * (4 * W)) ++ [] := by
    rw [List.append_nil]; congr 1
    have : H - 1 + 1 = H := by omega
    rw [this]; exact Nat.mul_comm _ _
  have e : ((H : Int) - 1) = ((H - 1 : Nat) : Int) := by omega
  have := loop24_rows (4 * W) (by omega) opsRows rows (H - 1) [] hv (by omega) hl
  rw [hz, e, this]
  simp only [List.append_nil]
  have hL : ∀ r ∈ rows.reverse, r.length = 4 * W := fun r h => hl r (by simpa using h)
  have hd := deint24_lines W rows.reverse hL
  rw [List.length_reverse, hn] at hd
  rw [hd, List.flatMap_def]

/-- the 54 bytes in front of the pixel area of a 24-bit BMP -/
def hdr24 (W H : Nat) : Bytes :=
  fileHdr ((W * H * 3 + 40 + 14 : Nat) : Int) ((40 + 14 : Nat) : Int) ++ (info40 W H 24 0 ++ [])

theorem hdr24_length (W H : Nat) : (hdr24 W H).length = 54 := by
  unfold hdr24
  simp only [List.length_append, fileHdr_length, info40_length, List.length_nil]

theorem decode24_eval (c : Call) (oy : Nat) (hoy : c.padH = (oy : Int))
    (hW : c.width < 2147483648) (hH : c.height < 2147483648) (hsize : c.width * c.height * 3 + 54 < 2147483648) (bmp : Bytes) (b : Buf)
    (hbmp : (if (c.fdata.length : Int) = (((c.width : Int) - c.padW) * 2) * ((c.height : Int) - oy)
      then (.error .notImpl : R Bytes) else compressed24 c.fdata c.width c.height) = .ok bmp) :
    decode24 true c b = ([], .ok (hdr24 c.width c.height ++ bmp)) := by
  unfold decode24
  rw [hoy, fixPad_nat]
  dsimp only
  rw [bind_ok _ _ _ _ _ (writeBmpHeader_ok _ _ (i32_nat _ (by omega)) (i32_nat _ (by omega)) b)]
  rw [bind_ok _ _ _ _ _ (writeInfoHeader40_ok _ _ 24 0 (i32_nat _ hW) (i32_nat _ hH) (by omega) (by omega) _)]
  rw [hbmp]
  unfold hdr24
  simp only [List.append_nil]
  rfl

theorem decodeClass_24 : decodeClass "Decoder24b" = decode24 := by
  funext r c
  unfold decodeClass
  have h1 : ¬ ("Decoder24b" = "Decoder1b") := by decide
  have h2 : ¬ ("Decoder24b" = "Decoder4b") := by decide
  have h3 : ¬ ("Decoder24b" = "Decoder8b") := by decide
  have h4 : ¬ ("Decoder24b" = "Decoder16b") := by decide
  rw [if_neg h1, if_neg h2, if_neg h3, if_neg h4, if_pos rfl]

theorem lookup_32 : lookupN 32 Gen.BitdTables.decoders = some "Decoder24b" := by decide

theorem decode24_eta (c : Call) (pal : String) : decode24 true { c with palette := pal } (DecState.init c.depth)
    = decode24 true { c with palette := pal } [] := rfl

theorem bitd2bmp_32 (c : Call) (hd : c.depth = 32) : bitd2bmp c = (decode24 true { c with palette := paletteName c } []).2 := by
  have hl : lookupN c.depth Gen.BitdTables.decoders = some "Decoder24b" := by rw [hd]; exact lookup_32
  unfold bitd2bmp
  rw [decodeStep_snd true _ c _ hl, decodeClass_24]
  exact congrArg Prod.snd (decode24_eta c (paletteName c))

theorem wf32 (W H ox oy : Nat) (rows : List (List Px32)) (h : (Img.mk W H ox oy (.d32 rows)).wf = true) :
    ox ≤ W ∧ oy ≤ H ∧ rows.length = H - oy ∧ ∀ r ∈ rows, r.length = W - ox := by
  simp only [Img.wf, Pixels.shapeOk, Img.w, Img.h, Bool.and_eq_true, decide_eq_true_eq, beq_iff_eq, List.all_eq_true] at h
  exact ⟨h.1.1, h.1.2, h.2.1, h.2.2⟩

theorem read_bmp24 (W H : Nat) (hW : W < 2147483648) (hH : H < 2147483648)
    (rows : List (List Px32)) (hrows : rows.length = H) (hpix : ∀ r ∈ rows, r.length = W) :
    readBmp (hdr24 W H ++ ((lines32 rows).reverse.map (bmpRow24 W)).flatten ++ []) = some (canvas ⟨W, H, 0, 0, .d32 rows⟩) := by
  have hf := hdr40_fields ((W * H * 3 + 40 + 14 : Nat) : Int) (40 + 14) W H 24 0 [] (by omega) hW hH (by omega)
  have hlen : (hdr24 W H).length = 40 + 14 := hdr24_length W H
  have hrw : ∀ r ∈ (lines32 rows).reverse.map (bmpRow24 W), r.length = (W * 24 + 31) / 32 * 4 := by
    intro r hr
    simp only [lines32, List.mem_map, List.mem_reverse] at hr
    obtain ⟨l, ⟨a, ha, rfl⟩, rfl⟩ := hr
    have := hpix a ha
    rw [← this, bmpRow24_line]
    simp only [List.length_append, zeros_length, flatMap_quads_length]
    omega
  rw [readBmp_rows (hdr24 W H) W H 24 _ [] (by rw [hlen]; omega) hf.1 (by rw [hlen]; exact hf.2.1) hf.2.2.1 hf.2.2.2.1
    hf.2.2.2.2.1 hf.2.2.2.2.2 hW hH (Or.inr (Or.inr rfl)) (by simp [lines32, hrows]) hrw]
  have e24 : (24 : Nat) / 8 = 3 := rfl
  rw [e24, ← List.map_reverse, List.reverse_reverse]
  unfold lines32
  rw [List.map_map, List.map_map]
  unfold canvas canvasRows
  simp only [Pixels.bytesPerPixel, List.replicate_zero, List.nil_append, List.map_map]
  congr 1
  apply List.map_congr_left
  intro r hr
  simp only [Function.comp]
  have := hpix r hr
  rw [← this, bmpRow24_line, pixelsOf_three]

/-- 32 bit, PackBits storage, no offsets, any scan-line segmentation whose length does not trigger the decoder's
    (2 bytes per pixel) raw test: header ++ BMP rows -/
theorem bitd2bmp_32_packed (W H : Nat) (rows : List (List Px32)) (p1 p2 : UInt8) (opsRows : List (List Op))
    (hwf : (Img.mk W H 0 0 (.d32 rows)).wf = true) (hfit : fitsHeader (Img.mk W H 0 0 (.d32 rows)) = true)
    (hv : validEnc ⟨W, H, 0, 0, .d32 rows⟩ p1 p2 (.packed opsRows) = true)
    (hne : (serialise ⟨W, H, 0, 0, .d32 rows⟩ p1 p2 (.packed opsRows)).length ≠ (serialise ⟨W, H, 0, 0, .d32 rows⟩ p1 p2 .raw).length)
    (hne2 : (serialise ⟨W, H, 0, 0, .d32 rows⟩ p1 p2 (.packed opsRows)).length ≠ 2 * W * H) :
    bitd2bmp (callOf ⟨W, H, 0, 0, .d32 rows⟩ (serialise ⟨W, H, 0, 0, .d32 rows⟩ p1 p2 (.packed opsRows)))
      = .ok (hdr24 W H ++ ((lines32 rows).reverse.map (bmpRow24 W)).flatten) := by
  obtain ⟨_, _, hrows, hpix⟩ := wf32 W H 0 0 rows hwf
  simp only [Nat.sub_zero] at hrows hpix
  simp only [fitsHeader, decide_eq_true_eq] at hfit
  obtain ⟨hW, hH, hWH⟩ := fits_bounds W H hfit
  have hv' : validRows opsRows (lines32 rows) = true := hv
  have hraw : ∀ r ∈ lines32 rows, r.length = 4 * W := by
    intro r hr
    simp only [lines32, List.mem_map] at hr
    obtain ⟨a, ha, rfl⟩ := hr
    simp [hpix a ha]; omega
  have hlen : (lines32 rows).flatten.length = 4 * W * H := by
    rw [length_flatten_uniform _ _ hraw]; simp [lines32, hrows]
  have hne' : (packed opsRows.flatten).length ≠ 4 * W * H := by
    rw [← hlen]; exact hne
  have hne2' : (packed opsRows.flatten).length ≠ 2 * W * H := hne2
  have hpos : 0 < W ∧ 0 < H := by
    refine ⟨Nat.pos_of_ne_zero ?_, Nat.pos_of_ne_zero ?_⟩
    · intro h0
      apply hne'
      have : packed opsRows.flatten = [] := validRows_all_empty opsRows _ hv' (by
        intro r hr
        have := hraw r hr
        rw [h0] at this
        exact List.eq_nil_of_length_eq_zero this)
      rw [this, h0]; simp
    · intro h0
      apply hne'
      have : rows = [] := List.eq_nil_of_length_eq_zero (by omega)
      subst this
      have : packed opsRows.flatten = [] := validRows_all_empty opsRows _ hv' (by simp [lines32])
      rw [this, h0]; simp
  rw [bitd2bmp_32 _ rfl]
  have hspec := compressed24_spec W H hpos.1 opsRows (lines32 rows) hv' (by simp [lines32, hrows]) hpos.2 hraw
  rw [decode24_eval { callOf ⟨W, H, 0, 0, .d32 rows⟩ (serialise ⟨W, H, 0, 0, .d32 rows⟩ p1 p2 (.packed opsRows)) with
      palette := paletteName (callOf ⟨W, H, 0, 0, .d32 rows⟩ (serialise ⟨W, H, 0, 0, .d32 rows⟩ p1 p2 (.packed opsRows))) } 0 rfl hW hH
    (by show W * H * 3 + 54 < 2147483648; omega)
    ((lines32 rows).reverse.map (bmpRow24 W)).flatten []
    (by
      show (if (((packed opsRows.flatten).length : Nat) : Int) = (((W : Int) - ((0 : Nat) : Int)) * 2) * ((H : Int) - ((0 : Nat) : Int))
        then (.error .notImpl : R Bytes) else compressed24 (packed opsRows.flatten) W H) = _
      have : ¬ ((((packed opsRows.flatten).length : Nat) : Int) = (((W : Int) - ((0 : Nat) : Int)) * 2) * ((H : Int) - ((0 : Nat) : Int))) := by
        intro h
        apply hne2'
        have e : (((W : Int) - ((0 : Nat) : Int)) * 2) * ((H : Int) - ((0 : Nat) : Int)) = ((2 * W * H : Nat) : Int) := by
          simp only [Int.natCast_mul, Int.natCast_zero, Int.sub_zero]
          rw [Int.mul_comm (W : Int) 2]; rfl
        rw [e] at h
        exact Int.ofNat_inj.mp h
      rw [if_neg this]
      exact hspec)]
  rfl

end Drx.Bitd
