/-
  C06, 32 bits per pixel, end to end (zero offsets).
-/
import DrxProofs.Bitd24
namespace Drx.Bitd
open Drx Drx.Bitd.Spec

/-- one BMP row of a planar 32-bit line (alpha, red, green, blue planes) of `w` pixels placed at column `ox`:
    blue, green, red of every pixel -/
def bmpRow24 (stride ox w : Nat) (line : Bytes) : Bytes :=
  zeros (3 * ox) ++ interleave3 (slice line (3 * w) (4 * w)) (slice line (2 * w) (3 * w)) (slice line w (2 * w))
    ++ zeros (stride - 3 * ox - 3 * w)

def stride24 (W : Nat) : Nat := 3 * W + (4 - (3 * W) % 4) % 4

theorem deint24_lines (w cw ch ox : Nat) (hw : 0 < w) (L : List Bytes) (hl : ∀ r ∈ L, r.length = 4 * w) :
    deint24 L.flatten w L.length cw ch ox = L.flatMap (bmpRow24 (stride24 cw) ox w) ++ zeros (stride24 cw * (ch - L.length)) := by
  unfold deint24 stride24
  have hw0 : ¬ (w = 0) := by omega
  simp only [hw0, if_false]
  congr 1
  rw [List.range_eq_range']
  apply flatMap_range'
  intro i hi
  simp only [Nat.zero_add]
  unfold bmpRow24
  rw [slice_flatten_uniform (4 * w) L i (3 * w) (4 * w) hl hi (by omega) (by omega),
      slice_flatten_uniform (4 * w) L i (2 * w) (3 * w) hl hi (by omega) (by omega),
      slice_flatten_uniform (4 * w) L i w (2 * w) hl hi (by omega) (by omega)]

abbrev Px32 := UInt8 × UInt8 × UInt8 × UInt8

/-- the planar scan lines of a 32-bit image -/
def lines32 (rows : List (List Px32)) : List Bytes :=
  rows.map fun r => r.map (·.1) ++ r.map (·.2.1) ++ r.map (·.2.2.1) ++ r.map (·.2.2.2)

theorem interleave3_quads (r : List Px32) :
    interleave3 (r.map (·.2.2.2)) (r.map (·.2.2.1)) (r.map (·.2.1)) = r.flatMap fun p => [p.2.2.2, p.2.2.1, p.2.1] := by
  induction r with
  | nil => rfl
  | cons p r ih => simp [interleave3, ih]

theorem pixelsOf_three (r : List Px32) (rest : Bytes) :
    pixelsOf 3 r.length ((r.flatMap fun p => [p.2.2.2, p.2.2.1, p.2.1]) ++ rest) = r.map fun p => [p.2.2.2, p.2.2.1, p.2.1] := by
  induction r with
  | nil => rfl
  | cons p r ih => simp [pixelsOf, ih]

theorem flatMap_quads_length (a : List Px32) : (a.flatMap fun p => [p.2.2.2, p.2.2.1, p.2.1]).length = 3 * a.length := by
  induction a with
  | nil => rfl
  | cons p a ih => rw [List.flatMap_cons, List.length_append, ih]; simp; omega

theorem bmpRow24_line (stride ox : Nat) (r : List Px32) :
    bmpRow24 stride ox r.length (r.map (·.1) ++ r.map (·.2.1) ++ r.map (·.2.2.1) ++ r.map (·.2.2.2))
      = zeros (3 * ox) ++ (r.flatMap fun p => [p.2.2.2, p.2.2.1, p.2.1]) ++ zeros (stride - 3 * ox - 3 * r.length) := by
  unfold bmpRow24
  have e3 : slice (r.map (·.1) ++ r.map (·.2.1) ++ r.map (·.2.2.1) ++ r.map (·.2.2.2)) (3 * r.length) (4 * r.length) = r.map (·.2.2.2) := by
    have := slice_at (r.map (·.1) ++ r.map (·.2.1) ++ r.map (·.2.2.1)) (r.map (·.2.2.2)) [] (3 * r.length) r.length (by simp; omega) (by simp)
    rw [List.append_nil] at this
    have e : 3 * r.length + r.length = 4 * r.length := by omega
    rw [e] at this; exact this
  have e2 : slice (r.map (·.1) ++ r.map (·.2.1) ++ r.map (·.2.2.1) ++ r.map (·.2.2.2)) (2 * r.length) (3 * r.length) = r.map (·.2.2.1) := by
    have := slice_at (r.map (·.1) ++ r.map (·.2.1)) (r.map (·.2.2.1)) (r.map (·.2.2.2)) (2 * r.length) r.length (by simp; omega) (by simp)
    have e : 2 * r.length + r.length = 3 * r.length := by omega
    rw [e] at this; exact this
  have e1 : slice (r.map (·.1) ++ r.map (·.2.1) ++ r.map (·.2.2.1) ++ r.map (·.2.2.2)) r.length (2 * r.length) = r.map (·.2.1) := by
    have := slice_at (r.map (·.1)) (r.map (·.2.1)) (r.map (·.2.2.1) ++ r.map (·.2.2.2)) r.length r.length (by simp) (by simp)
    have e : r.length + r.length = 2 * r.length := by omega
    rw [e, ← List.append_assoc] at this; exact this
  rw [e3, e2, e1, interleave3_quads]

theorem compressed24_spec (W H ox oy : Nat) (hox : ox < W) (hoy : oy < H) (opsRows : List (List Op)) (rows : List Bytes)
    (hv : validRows opsRows rows = true) (hn : rows.length = H - oy) (hl : ∀ r ∈ rows, r.length = 4 * (W - ox)) :
    compressed24 (packed opsRows.flatten) W H ox oy
      = .ok ((fileRowsK (stride24 W) oy (rows.reverse.map (bmpRow24 (stride24 W) ox (W - ox)))).flatten) := by
  unfold compressed24
  simp only
  have hz : zeros (4 * (W - ox) * (H - oy)) = zeros ((H - oy - 1 + 1) * (4 * (W - ox))) ++ [] := by
    rw [List.append_nil]; congr 1
    have : H - oy - 1 + 1 = H - oy := by omega
    rw [this]; exact Nat.mul_comm _ _
  have e : (((H - oy : Nat) : Int) - 1) = ((H - oy - 1 : Nat) : Int) := by omega
  have := loop24_rows (4 * (W - ox)) (by omega) opsRows rows (H - oy - 1) [] hv (by omega) hl
  rw [hz, e, this]
  simp only [List.append_nil]
  have hL : ∀ r ∈ rows.reverse, r.length = 4 * (W - ox) := fun r h => hl r (by simpa using h)
  have hd := deint24_lines (W - ox) W H ox (by omega) rows.reverse hL
  rw [List.length_reverse, hn] at hd
  have e2 : H - (H - oy) = oy := by omega
  rw [hd, fileRowsK_flatten, List.flatMap_def, e2]

/-- the 54 bytes in front of the pixel area of a 24-bit BMP -/
def hdr24 (W H : Nat) : Bytes :=
  fileHdr ((W * H * 3 + 40 + 14 : Nat) : Int) ((40 + 14 : Nat) : Int) ++ (info40 W H 24 0 ++ [])

theorem hdr24_length (W H : Nat) : (hdr24 W H).length = 54 := by
  unfold hdr24
  simp only [List.length_append, fileHdr_length, info40_length, List.length_nil]

theorem decode24_eval (c : Call) (oy : Nat) (hoy : c.padH = (oy : Int))
    (hW : c.width < 2147483648) (hH : c.height < 2147483648) (hsize : c.width * c.height * 3 + 54 < 2147483648) (bmp : Bytes) (b : Buf)
    (hbmp : (if (c.fdata.length : Int) = (((c.width : Int) - c.padW) * 4) * ((c.height : Int) - oy)
      then (.error .notImpl : R Bytes) else compressed24 c.fdata c.width c.height c.padW oy) = .ok bmp) :
    decode24 true c b = ([], .ok (hdr24 c.width c.height ++ bmp)) := by
  unfold decode24
  rw [hoy, fixPad_nat]
  dsimp only
  rw [bind_ok _ _ _ _ _ (writeBmpHeader_ok _ _ (i32_nat _ (by omega)) (i32_nat _ (by omega)) b)]
  rw [bind_ok _ _ _ _ _ (writeInfoHeader40_ok _ _ 24 0 (i32_nat _ hW) (i32_nat _ hH) (by omega) (by omega) _)]
  rw [hbmp]
  unfold hdr24
  simp only [List.append_nil]
  rfl

theorem decodeClass_24 : decodeClass "Decoder24b" = decode24 := by
  funext r c
  unfold decodeClass
  have h1 : ¬ ("Decoder24b" = "Decoder1b") := by decide
  have h2 : ¬ ("Decoder24b" = "Decoder4b") := by decide
  have h3 : ¬ ("Decoder24b" = "Decoder8b") := by decide
  have h4 : ¬ ("Decoder24b" = "Decoder16b") := by decide
  rw [if_neg h1, if_neg h2, if_neg h3, if_neg h4, if_pos rfl]

theorem lookup_32 : lookupN 32 Gen.BitdTables.decoders = some "Decoder24b" := by decide

theorem decode24_eta (c : Call) (pal : String) : decode24 true { c with palette := pal } (DecState.init c.depth)
    = decode24 true { c with palette := pal } [] := rfl

theorem bitd2bmp_32 (c : Call) (hd : c.depth = 32) : bitd2bmp c = (decode24 true { c with palette := paletteName c } []).2 := by
  have hl : lookupN c.depth Gen.BitdTables.decoders = some "Decoder24b" := by rw [hd]; exact lookup_32
  unfold bitd2bmp
  rw [decodeStep_snd true _ c _ hl, decodeClass_24]
  exact congrArg Prod.snd (decode24_eta c (paletteName c))

theorem wf32 (W H ox oy : Nat) (rows : List (List Px32)) (h : (Img.mk W H ox oy (.d32 rows)).wf = true) :
    ox ≤ W ∧ oy ≤ H ∧ rows.length = H - oy ∧ ∀ r ∈ rows, r.length = W - ox := by
  simp only [Img.wf, Pixels.shapeOk, Img.w, Img.h, Bool.and_eq_true, decide_eq_true_eq, beq_iff_eq, List.all_eq_true] at h
  exact ⟨h.1.1, h.1.2, h.2.1, h.2.2⟩

/-- the explicit BMP of a 32-bit image -/
def bmp24 (W H ox oy : Nat) (rows : List (List Px32)) : Bytes :=
  hdr24 W H ++ (fileRowsK (stride24 W) oy ((lines32 rows).reverse.map (bmpRow24 (stride24 W) ox (W - ox)))).flatten

theorem read_bmp24 (W H ox oy : Nat) (hox : ox ≤ W) (hoy : oy ≤ H) (hW : W < 2147483648) (hH : H < 2147483648)
    (rows : List (List Px32)) (hrows : rows.length = H - oy) (hpix : ∀ r ∈ rows, r.length = W - ox) :
    readBmp (bmp24 W H ox oy rows) = some (canvas ⟨W, H, ox, oy, .d32 rows⟩) := by
  unfold bmp24
  have hf := hdr40_fields ((W * H * 3 + 40 + 14 : Nat) : Int) (40 + 14) W H 24 0 [] (by omega) hW hH (by omega)
  have hlen : (hdr24 W H).length = 40 + 14 := hdr24_length W H
  have hrowlen : ∀ r ∈ fileRowsK (stride24 W) oy ((lines32 rows).reverse.map (bmpRow24 (stride24 W) ox (W - ox))),
      r.length = (W * 24 + 31) / 32 * 4 := by
    intro r hr
    simp only [fileRowsK, lines32, List.mem_append, List.mem_map, List.mem_reverse, List.mem_replicate] at hr
    rcases hr with ⟨l, ⟨a, ha, rfl⟩, rfl⟩ | ⟨_, rfl⟩
    · have := hpix a ha
      rw [← this, bmpRow24_line]
      simp only [List.length_append, zeros_length, flatMap_quads_length, stride24]
      omega
    · simp [stride24]; omega
  have hcount : (fileRowsK (stride24 W) oy ((lines32 rows).reverse.map (bmpRow24 (stride24 W) ox (W - ox)))).length = H := by
    simp [fileRowsK, lines32, hrows]; omega
  have := readBmp_rows (hdr24 W H) W H 24 _ [] (by rw [hlen]; omega) hf.1 (by rw [hlen]; exact hf.2.1) hf.2.2.1 hf.2.2.2.1
    hf.2.2.2.2.1 hf.2.2.2.2.2 hW hH (Or.inr (Or.inr rfl)) hcount hrowlen
  rw [List.append_nil] at this
  rw [this]
  have e24 : (24 : Nat) / 8 = 3 := rfl
  rw [e24]
  unfold lines32
  rw [← List.map_reverse, List.map_map]
  rw [read_fileRowsK 3 (stride24 W) W ox oy hox (by unfold stride24; omega) rows _ (fun r => r.map fun p => [p.2.2.2, p.2.2.1, p.2.1])]
  · unfold canvas canvasRows
    simp only [Pixels.bytesPerPixel, List.map_map]
    rfl
  · intro a ha
    have hal := hpix a ha
    refine ⟨a.flatMap fun p => [p.2.2.2, p.2.2.1, p.2.1], by rw [flatMap_quads_length, hal], ?_, ?_⟩
    · rw [← hal]; exact pixelsOf_three a _
    · simp only [Function.comp]
      rw [← hal, bmpRow24_line]

theorem lines32_len (W ox : Nat) (rows : List (List Px32)) (hpix : ∀ r ∈ rows, r.length = W - ox) :
    ∀ r ∈ lines32 rows, r.length = 4 * (W - ox) := by
  intro r hr
  simp only [lines32, List.mem_map] at hr
  obtain ⟨a, ha, rfl⟩ := hr
  simp [hpix a ha]; omega

theorem cast4 (W H ox oy : Nat) (hox : ox ≤ W) (hoy : oy ≤ H) :
    (((W : Int) - (ox : Int)) * 4) * ((H : Int) - (oy : Int)) = ((4 * (W - ox) * (H - oy) : Nat) : Int) := by
  have ewi : ((W : Int) - (ox : Int)) = ((W - ox : Nat) : Int) := by omega
  have ehi : ((H : Int) - (oy : Int)) = ((H - oy : Nat) : Int) := by omega
  rw [ewi, ehi, Int.natCast_mul, Int.natCast_mul, Int.mul_comm ((W - ox : Nat) : Int) 4]; rfl

/-- 32 bit, PackBits storage: every geometry, every valid scan-line segmentation -/
theorem bitd2bmp_32_packed (W H ox oy : Nat) (rows : List (List Px32)) (p1 p2 : UInt8) (opsRows : List (List Op))
    (hwf : (Img.mk W H ox oy (.d32 rows)).wf = true) (hfit : fitsHeader (Img.mk W H ox oy (.d32 rows)) = true)
    (hv : validEnc ⟨W, H, ox, oy, .d32 rows⟩ p1 p2 (.packed opsRows) = true)
    (hne : (serialise ⟨W, H, ox, oy, .d32 rows⟩ p1 p2 (.packed opsRows)).length ≠ (serialise ⟨W, H, ox, oy, .d32 rows⟩ p1 p2 .raw).length) :
    bitd2bmp (callOf ⟨W, H, ox, oy, .d32 rows⟩ (serialise ⟨W, H, ox, oy, .d32 rows⟩ p1 p2 (.packed opsRows))) = .ok (bmp24 W H ox oy rows) := by
  obtain ⟨hox, hoy, hrows, hpix⟩ := wf32 W H ox oy rows hwf
  simp only [fitsHeader, decide_eq_true_eq] at hfit
  obtain ⟨hW, hH, hWH⟩ := fits_bounds W H hfit
  have hv' : validRows opsRows (lines32 rows) = true := hv
  have hraw := lines32_len W ox rows hpix
  have hlen : (lines32 rows).flatten.length = 4 * (W - ox) * (H - oy) := by
    rw [length_flatten_uniform _ _ hraw]; simp [lines32, hrows]
  have hne' : (packed opsRows.flatten).length ≠ 4 * (W - ox) * (H - oy) := by
    rw [← hlen]; exact hne
  have hpos : ox < W ∧ oy < H := by
    refine ⟨Nat.lt_of_not_le ?_, Nat.lt_of_not_le ?_⟩
    · intro hle
      have h0 : W - ox = 0 := by omega
      apply hne'
      have : packed opsRows.flatten = [] := validRows_all_empty opsRows _ hv' (by
        intro r hr
        have := hraw r hr
        rw [h0] at this
        exact List.eq_nil_of_length_eq_zero this)
      rw [this, h0]; simp
    · intro hle
      have h0 : H - oy = 0 := by omega
      apply hne'
      have : rows = [] := List.eq_nil_of_length_eq_zero (by omega)
      subst this
      have : packed opsRows.flatten = [] := validRows_all_empty opsRows _ hv' (by simp [lines32])
      rw [this, h0]; simp
  rw [bitd2bmp_32 _ rfl]
  have hspec := compressed24_spec W H ox oy hpos.1 hpos.2 opsRows (lines32 rows) hv' (by simp [lines32, hrows]) hraw
  rw [decode24_eval { callOf ⟨W, H, ox, oy, .d32 rows⟩ (serialise ⟨W, H, ox, oy, .d32 rows⟩ p1 p2 (.packed opsRows)) with
      palette := paletteName (callOf ⟨W, H, ox, oy, .d32 rows⟩ (serialise ⟨W, H, ox, oy, .d32 rows⟩ p1 p2 (.packed opsRows))) } oy rfl hW hH
    (by show W * H * 3 + 54 < 2147483648; omega) _ []
    (by
      show (if (((packed opsRows.flatten).length : Nat) : Int) = (((W : Int) - (ox : Int)) * 4) * ((H : Int) - (oy : Int))
        then (.error .notImpl : R Bytes) else compressed24 (packed opsRows.flatten) W H ox oy) = _
      have : ¬ ((((packed opsRows.flatten).length : Nat) : Int) = (((W : Int) - (ox : Int)) * 4) * ((H : Int) - (oy : Int))) := by
        intro h
        apply hne'
        rw [cast4 W H ox oy hox hoy] at h
        exact Int.ofNat_inj.mp h
      rw [if_neg this]
      exact hspec)]
  rfl

/-- `Decoder24b.decode` when the raw-size test fires -/
theorem decode24_raw (c : Call) (oy : Nat) (hoy : c.padH = (oy : Int))
    (hW : c.width < 2147483648) (hH : c.height < 2147483648) (hsize : c.width * c.height * 3 + 54 < 2147483648) (b : Buf)
    (htest : (c.fdata.length : Int) = (((c.width : Int) - c.padW) * 4) * ((c.height : Int) - oy)) :
    (decode24 true c b).2 = .error .notImpl := by
  unfold decode24
  rw [hoy, fixPad_nat]
  dsimp only
  rw [bind_ok _ _ _ _ _ (writeBmpHeader_ok _ _ (i32_nat _ (by omega)) (i32_nat _ (by omega)) b)]
  rw [bind_ok _ _ _ _ _ (writeInfoHeader40_ok _ _ 24 0 (i32_nat _ hW) (i32_nat _ hH) (by omega) (by omega) _)]
  rw [if_pos htest]
  rfl

/-- raw 32-bit storage is rejected (NotImplementedError), never decoded into a wrong picture -/
theorem bitd2bmp_32_raw_rejected (W H ox oy : Nat) (rows : List (List Px32)) (p1 p2 : UInt8)
    (hwf : (Img.mk W H ox oy (.d32 rows)).wf = true) (hfit : fitsHeader (Img.mk W H ox oy (.d32 rows)) = true) :
    bitd2bmp (callOf ⟨W, H, ox, oy, .d32 rows⟩ (serialise ⟨W, H, ox, oy, .d32 rows⟩ p1 p2 .raw)) = .error .notImpl := by
  obtain ⟨hox, hoy, hrows, hpix⟩ := wf32 W H ox oy rows hwf
  simp only [fitsHeader, decide_eq_true_eq] at hfit
  obtain ⟨hW, hH, hWH⟩ := fits_bounds W H hfit
  have hraw := lines32_len W ox rows hpix
  have hlen : (lines32 rows).flatten.length = 4 * (W - ox) * (H - oy) := by
    rw [length_flatten_uniform _ _ hraw]; simp [lines32, hrows]
  rw [bitd2bmp_32 _ rfl]
  exact decode24_raw { callOf ⟨W, H, ox, oy, .d32 rows⟩ (serialise ⟨W, H, ox, oy, .d32 rows⟩ p1 p2 .raw) with
      palette := paletteName (callOf ⟨W, H, ox, oy, .d32 rows⟩ (serialise ⟨W, H, ox, oy, .d32 rows⟩ p1 p2 .raw)) } oy rfl hW hH
    (by show W * H * 3 + 54 < 2147483648; omega) []
    (by
      show (((lines32 rows).flatten.length : Nat) : Int) = (((W : Int) - (ox : Int)) * 4) * ((H : Int) - (oy : Int))
      rw [hlen, cast4 W H ox oy hox hoy])

end Drx.Bitd
