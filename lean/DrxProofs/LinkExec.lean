/-
  L1m — the model's opcode walker on the bytes `encodeInstrs is` does, instruction by instruction, what `Link.execI` does on
  the decoded instruction list (`Link.runIs`): operand lengths, operand values and the class dispatched to agree with the
  scheme's instruction set.  The opcode → class facts are table lemmas over the regenerated `Drx/Gen/Opcodes.lean`.
-/
import Drx.Link
import DrxProofs.SpecCompile
namespace Drx.Link
open Drx Drx.Lscr Drx.Gen Drx.Spec
set_option linter.unusedSimpArgs false

/-! ### bytes at an address -/

/-- the byte string `bs` sits in `d` at address `a` -/
def CodeAt (d : Bytes) (a : Nat) (bs : Bytes) : Prop := ∃ pre post, d = pre ++ bs ++ post ∧ pre.length = a

theorem CodeAt.left {d : Bytes} {a : Nat} {x y : Bytes} (h : CodeAt d a (x ++ y)) : CodeAt d a x := by
  obtain ⟨pre, post, hd, hl⟩ := h
  exact ⟨pre, y ++ post, by simp [hd], hl⟩

theorem CodeAt.right {d : Bytes} {a : Nat} {x y : Bytes} (h : CodeAt d a (x ++ y)) : CodeAt d (a + x.length) y := by
  obtain ⟨pre, post, hd, hl⟩ := h
  exact ⟨pre ++ x, post, by simp [hd], by simp [hl]⟩

theorem CodeAt.tail {d : Bytes} {a : Nat} {b : UInt8} {y : Bytes} (h : CodeAt d a (b :: y)) : CodeAt d (a + 1) y := by
  have : CodeAt d a ([b] ++ y) := h
  simpa using this.right

theorem pyGet_nat {α} (l : List α) (i : Nat) : pyGet l (i : Int) = match l[i]? with | some x => .ok x | none => .error .index := by
  unfold pyGet
  have h1 : ¬ ((i : Int) < 0) := by omega
  simp only [h1, if_false, Int.toNat_natCast]
  cases l[i]? <;> rfl

theorem CodeAt.get {d : Bytes} {a : Nat} {b : UInt8} {y : Bytes} (h : CodeAt d a (b :: y)) : d[a]? = some b := by
  obtain ⟨pre, post, hd, hl⟩ := h
  subst hd; subst hl
  simp

theorem CodeAt.byte {d : Bytes} {a : Nat} {b : UInt8} {y : Bytes} (h : CodeAt d a (b :: y)) :
    Lscr.byteAtI d (a : Int) = .ok b.toNat := by
  unfold Lscr.byteAtI
  rw [pyGet_nat, h.get]
  rfl

/-! ### one instruction -/

/-- side conditions under which `stepOpcode` on the encoded instruction is `execI`: operands fit their bytes and the table
    registers the opcode with the length the scheme's encoding has (and a class that reads exactly those operand bytes) -/
def GoodI : Instr → Prop
  | .op1 b => b < 256 ∧ ∀ info, Opcodes.opcodes.lookup b = some info →
      info.nbytes = 1 ∧ info.impl ∉ readsP1 ∧ info.impl ∉ readsP2
  | .op2 b x => b < 256 ∧ x < 256 ∧ ∀ info, Opcodes.opcodes.lookup b = some info →
      info.nbytes = 2 ∧ (info.kind = "bi" ∨ info.kind = "tri" ∨ (info.impl ∈ readsP1 ∧ info.impl ∉ readsP2))
  | .op3 b x => b < 256 ∧ x < 65536 ∧ ∀ info, Opcodes.opcodes.lookup b = some info →
      info.nbytes = 3 ∧ info.kind ≠ "tri" ∧ info.impl ∈ readsP2

theorem int_succ (a : Nat) : (a : Int) + 1 = ((a + 1 : Nat) : Int) := by omega

theorem step_good (ctx : Lscr.Ctx) (d : Bytes) (a : Nat) (i : Instr) (regs : Regs) (st : PState) (hg : GoodI i)
    (hc : CodeAt d a i.encode) :
    ∃ regs', stepOpcode ctx d (a : Int) (a : Int) regs st
      = (execI ctx i (a : Int) st).map fun s => (((a + i.size : Nat) : Int), regs', s) := by
  cases i with
  | op1 b =>
    obtain ⟨hb, hg⟩ := hg
    have hbyte : Lscr.byteAtI d (a : Int) = .ok b := by
      have := hc.byte
      simpa [Instr.encode, UInt8.toNat_ofNat', Nat.mod_eq_of_lt hb] using this
    refine ⟨regs, ?_⟩
    unfold stepOpcode
    simp only [hbyte, Bind.bind, Except.bind, execI]
    cases hl : Opcodes.opcodes.lookup b with
    | none => rfl
    | some info =>
      obtain ⟨hn, h1, h2⟩ := hg info hl
      have n2 : ¬ info.nbytes = 2 := by omega
      have n3 : ¬ info.nbytes = 3 := by omega
      simp only [n2, n3, if_false, step1, process, h1, h2, Bind.bind, Except.bind, Instr.size, int_succ]
      cases process0 ctx info (a : Int) st <;> rfl
  | op2 b x =>
    obtain ⟨hb, hx, hg⟩ := hg
    have hbyte : Lscr.byteAtI d (a : Int) = .ok b := by
      have := hc.byte
      simpa [Instr.encode, UInt8.toNat_ofNat', Nat.mod_eq_of_lt hb] using this
    have hbyte2 : Lscr.byteAtI d ((a : Int) + 1) = .ok x := by
      have := hc.tail.byte
      rw [int_succ]
      simpa [Instr.encode, UInt8.toNat_ofNat', Nat.mod_eq_of_lt hx] using this
    unfold stepOpcode
    simp only [hbyte, Bind.bind, Except.bind, execI]
    cases hl : Opcodes.opcodes.lookup b with
    | none => exact ⟨regs, rfl⟩
    | some info =>
      obtain ⟨hn, hk⟩ := hg info hl
      have e2 : (a : Int) + 1 + 1 = ((a + 2 : Nat) : Int) := by omega
      simp only [hn, if_true, step2, hbyte2, Bind.bind, Except.bind, Instr.size, e2]
      by_cases hbi : info.kind = "bi" ∨ info.kind = "tri"
      · refine ⟨regs, ?_⟩
        simp only [hbi, if_true]
        cases Opcodes.biOpcodes.lookup (b * 256 + x) with
        | none => rfl
        | some info2 =>
          simp only
          cases process ctx info2 0 0 (a : Int) st <;> rfl
      · refine ⟨regs.set b (x, (regs.get b).2), ?_⟩
        have hk' : info.impl ∈ readsP1 ∧ info.impl ∉ readsP2 := by
          rcases hk with h | h | h
          · exact absurd (Or.inl h) hbi
          · exact absurd (Or.inr h) hbi
          · exact h
        simp only [hbi, if_false, process, hk'.1, hk'.2, if_true]
        have hget : ((regs.set b (x, (regs.get b).2)).get b).1 = x := by
          simp [Regs.get, Regs.set, List.lookup]
        rw [hget]
        cases process1 ctx info x (a : Int) st <;> rfl
  | op3 b x =>
    obtain ⟨hb, hx, hg⟩ := hg
    have hbyte : Lscr.byteAtI d (a : Int) = .ok b := by
      have := hc.byte
      simpa [Instr.encode, UInt8.toNat_ofNat', Nat.mod_eq_of_lt hb] using this
    have hx1 : x / 256 < 256 := by omega
    have hbyte2 : Lscr.byteAtI d ((a : Int) + 1) = .ok (x / 256) := by
      have := hc.tail.byte
      rw [int_succ]
      simpa [Instr.encode, UInt8.toNat_ofNat', Nat.mod_eq_of_lt hx1] using this
    have hbyte3 : Lscr.byteAtI d ((a : Int) + 1 + 1) = .ok (x % 256) := by
      have := hc.tail.tail.byte
      have e2 : (a : Int) + 1 + 1 = ((a + 1 + 1 : Nat) : Int) := by omega
      rw [e2]
      simpa [Instr.encode, UInt8.toNat_ofNat'] using this
    unfold stepOpcode
    simp only [hbyte, Bind.bind, Except.bind, execI]
    cases hl : Opcodes.opcodes.lookup b with
    | none => exact ⟨regs, rfl⟩
    | some info =>
      obtain ⟨hn, hk, hr⟩ := hg info hl
      have n2 : ¬ info.nbytes = 2 := by omega
      have e3 : (a : Int) + 1 + 2 = ((a + 3 : Nat) : Int) := by omega
      refine ⟨regs.set b (x / 256, x % 256), ?_⟩
      simp only [hn, n2, if_true, if_false, step3, hbyte2, hbyte3, Bind.bind, Except.bind, Instr.size, e3, hk, process, hr]
      have hget : (regs.set b (x / 256, x % 256)).get b = (x / 256, x % 256) := by
        simp [Regs.get, Regs.set, List.lookup]
      rw [hget]
      cases process2 ctx info (x / 256) (x % 256) (a : Int) st <;> rfl

/-! ### the loop -/

theorem runIs_append (ctx : Lscr.Ctx) (x y : List Instr) (a : Nat) (st : PState) :
    runIs ctx a (x ++ y) st = (runIs ctx a x st).bind (runIs ctx (a + codeSize x) y) := by
  induction x generalizing a st with
  | nil => simp [runIs, codeSize, Except.bind]
  | cons i x ih =>
    simp only [List.cons_append, runIs, codeSize]
    cases execI ctx i (a : Int) st with
    | error e => rfl
    | ok st' =>
      simp only
      rw [ih, Nat.add_assoc]

/-- L1m: the opcode loop over the encoded instruction list `is` (sitting at address `a` inside the code area
    `bcOff .. bcOff + bcLen`) performs `runIs`; it arrives at the address after the list with the state `runIs` computes -/
theorem opcodeLoop_run (ctx : Lscr.Ctx) (d : Bytes) (bcOff bcLen : Nat) :
    ∀ (is : List Instr) (a : Nat) (regs : Regs) (st st' : PState), (∀ i ∈ is, GoodI i) → CodeAt d a (encodeInstrs is) →
      bcOff ≤ a → a + codeSize is ≤ bcOff + bcLen → runIs ctx a is st = .ok st' →
      ∃ regs', opcodeLoop ctx d bcOff bcLen (a : Int) regs st = opcodeLoop ctx d bcOff bcLen ((a + codeSize is : Nat) : Int) regs' st' := by
  intro is
  induction is with
  | nil =>
    intro a regs st st' _ _ _ _ hr
    simp only [runIs, Except.ok.injEq] at hr
    subst hr
    exact ⟨regs, by simp [codeSize]⟩
  | cons i is ih =>
    intro a regs st st' hg hc hlo hhi hr
    have hgi : GoodI i := hg i (by simp)
    have hci : CodeAt d a i.encode := by
      simp only [encodeInstrs] at hc
      exact hc.left
    have hcr : CodeAt d (a + i.size) (encodeInstrs is) := by
      simp only [encodeInstrs] at hc
      have := hc.right
      rwa [encode_length] at this
    obtain ⟨regs1, hstep⟩ := step_good ctx d a i regs st hgi hci
    simp only [runIs] at hr
    cases he : execI ctx i (a : Int) st with
    | error e => rw [he] at hr; cases hr
    | ok st1 =>
      rw [he] at hr hstep
      simp only at hr
      simp only [codeSize] at hhi
      have hsz : 1 ≤ i.size := by cases i <;> simp [Instr.size]
      obtain ⟨regs2, hrest⟩ := ih (a + i.size) regs1 st1 st' (fun j hj => hg j (by simp [hj])) hcr (by omega) (by omega) hr
      refine ⟨regs2, ?_⟩
      rw [opcodeLoop]
      have hlt : (a : Int) - (bcOff : Int) < (bcLen : Int) := by omega
      simp only [hlt, if_true]
      split
      · rename_i e heq
        rw [hstep] at heq
        simp [Except.map] at heq
      · rename_i r heq
        rw [hstep] at heq
        simp only [Except.map, Except.ok.injEq] at heq
        subst heq
        simp only
        rw [hrest]
        simp only [codeSize, Nat.add_assoc]

/-- at the end of the code area the loop stops -/
theorem opcodeLoop_end (ctx : Lscr.Ctx) (d : Bytes) (bcOff bcLen : Nat) (regs : Regs) (st : PState) :
    opcodeLoop ctx d bcOff bcLen ((bcOff + bcLen : Nat) : Int) regs st = .ok (regs, st) := by
  rw [opcodeLoop]
  have : ¬ (((bcOff + bcLen : Nat) : Int) - (bcOff : Int) < (bcLen : Int)) := by omega
  simp only [this, if_false]

end Drx.Link
