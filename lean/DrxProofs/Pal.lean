/-
  Helper lemmas for property C14 (colour tables).
-/
import Drx.Pal
import DrxProofs.Py
namespace Drx.Pal
open Drx

theorem ofNat_mod256 (n : Nat) : UInt8.ofNat (n % 256) = UInt8.ofNat n := by
  apply UInt8.toNat_inj.mp
  simp [UInt8.toNat_ofNat']

theorem encBE2 (x : Nat) : encBE 2 x = [hi x, UInt8.ofNat x] := by
  simp [encBE, hi, ofNat_mod256]

/-- six bytes per entry -/
theorem encClut_cons (c : Rgb16) (p : List Rgb16) :
    encClut (c :: p) = hi c.r :: UInt8.ofNat c.r :: hi c.g :: UInt8.ofNat c.g :: hi c.b :: UInt8.ofNat c.b :: encClut p := by
  simp [encClut, encBE2]

theorem encClut_length (p : List Rgb16) : (encClut p).length = 6 * p.length := by
  induction p with
  | nil => rfl
  | cons c p ih => rw [encClut_cons]; simp [ih]; omega

theorem bmpTable_cons (c : Rgb16) (p : List Rgb16) :
    bmpTable (c :: p) = hi c.b :: hi c.g :: hi c.r :: 0 :: bmpTable p := by
  simp [bmpTable]

theorem bmpTable_length (p : List Rgb16) : (bmpTable p).length = 4 * p.length := by
  induction p with
  | nil => rfl
  | cons c p ih => rw [bmpTable_cons]; simp [ih]; omega

/-- the `range(n)` loop on an encoded palette with at least `n` entries, whatever follows -/
theorem clutLoop_enc (n : Nat) (p : List Rgb16) (extra : Bytes) (h : n ≤ p.length) :
    clutLoop n (encClut p ++ extra) = .ok (bmpTable (p.take n)) := by
  induction n generalizing p with
  | zero => simp [clutLoop, bmpTable]
  | succ n ih =>
    cases p with
    | nil => simp at h
    | cons c p =>
      have h' : n ≤ p.length := by simpa using h
      rw [encClut_cons]
      simp only [List.cons_append, clutLoop, ih p h', List.take_succ_cons, bmpTable_cons]

/-- too few entries: IndexError -/
theorem clutLoop_short (n : Nat) (p : List Rgb16) (h : p.length < n) :
    clutLoop n (encClut p) = .error .index := by
  induction n generalizing p with
  | zero => omega
  | succ n ih =>
    cases p with
    | nil => simp [encClut, clutLoop]
    | cons c p =>
      have h' : p.length < n := by simpa using h
      rw [encClut_cons]
      simp only [clutLoop, ih p h']

theorem clut2rgb_enc (p : List Rgb16) : clut2rgb (encClut p) = .ok (rgbList p) := by
  induction p with
  | nil => simp [encClut, clut2rgb, rgbList]
  | cons c p ih =>
    rw [encClut_cons]
    simp only [clut2rgb, ih]
    simp [rgbList]

/-- entry `i` of the BMP table -/
theorem bmpTable_entry (p : List Rgb16) (i : Nat) (c : Rgb16) (h : p[i]? = some c) :
    slice (bmpTable p) (4 * i) (4 * i + 4) = [hi c.b, hi c.g, hi c.r, 0] := by
  induction p generalizing i with
  | nil => simp at h
  | cons c0 p ih =>
    rw [bmpTable_cons]
    cases i with
    | zero =>
      simp at h; subst h
      simp [slice]
    | succ i =>
      have h' : p[i]? = some c := by simpa using h
      have := ih i h'
      simp only [slice] at this ⊢
      have e : 4 * (i + 1) = 4 * i + 4 := by omega
      rw [e]
      simpa using this

/-- reading a BMP colour table back as `#rrggbb` strings (4 bytes per entry: blue, green, red, reserved) -/
def tableToRgb : Bytes → List (List Char)
  | b :: g :: r :: _ :: rest => colorStr r g b :: tableToRgb rest
  | _ => []

theorem tableToRgb_bmpTable (p : List Rgb16) : tableToRgb (bmpTable p) = rgbList p := by
  induction p with
  | nil => rfl
  | cons c p ih => rw [bmpTable_cons]; simp [tableToRgb, ih, rgbList]

/-- on ANY byte string on which both readers succeed, the first `n` JSON colours are the BMP table's entries -/
theorem agree_any (n : Nat) (d P : Bytes) (L : List (List Char))
    (hP : clutLoop n d = .ok P) (hL : clut2rgb d = .ok L) : L.take n = tableToRgb P := by
  induction n generalizing d P L with
  | zero => simp [clutLoop] at hP; subst hP; simp [tableToRgb]
  | succ n ih =>
    match d, hP, hL with
    | [r, x1, g, x2, b], hP, hL =>
      simp only [clut2rgb] at hL
      simp only [clutLoop] at hP
      split at hP
      · simp at hP hL; subst hP hL; simp [tableToRgb]
      · simp at hP
    | r :: x1 :: g :: x2 :: b :: x3 :: rest, hP, hL =>
      simp only [clutLoop] at hP
      simp only [clut2rgb] at hL
      cases hP' : clutLoop n rest with
      | error e => simp [hP'] at hP
      | ok out =>
        cases hL' : clut2rgb rest with
        | error e => simp [hL'] at hL
        | ok cs =>
          simp [hP'] at hP; simp [hL'] at hL; subst hP hL
          simp [tableToRgb, ih rest out cs hP' hL']
    | [], hP, _ => simp [clutLoop] at hP
    | [_], hP, _ => simp [clutLoop] at hP
    | [_, _], hP, _ => simp [clutLoop] at hP
    | [_, _, _], hP, _ => simp [clutLoop] at hP
    | [_, _, _, _], hP, _ => simp [clutLoop] at hP

/-! ### struct.pack of table values -/

def byteOf (v : Int) : UInt8 := UInt8.ofNat v.toNat

theorem packVals_ok (t : List Int) (h : ∀ v ∈ t, 0 ≤ v ∧ v < 256) : packVals t = .ok (t.map byteOf) := by
  induction t with
  | nil => rfl
  | cons v vs ih =>
    have hv := h v (by simp)
    have := ih (fun w hw => h w (by simp [hw]))
    simp [packVals, hv, this, byteOf]

theorem packB_ok (n : Nat) (t : List Int) (hl : t.length = n) (h : ∀ v ∈ t, 0 ≤ v ∧ v < 256) :
    packB n t = .ok (t.map byteOf) := by
  simp [packB, hl, packVals_ok t h]

theorem packVals_bytes (bs : Bytes) : packVals (bs.map fun b => (b.toNat : Int)) = .ok bs := by
  induction bs with
  | nil => rfl
  | cons b bs ih =>
    have := UInt8.toNat_lt b
    have h1 : (0 : Int) ≤ (b.toNat : Int) ∧ (b.toNat : Int) < 256 := by omega
    simp only [List.map_cons, packVals, h1, and_self, if_true, ih]
    simp

theorem lookup_none_of_ne {α β : Type} [BEq α] [LawfulBEq α] (l : List (α × β)) (k : α) (h : ∀ kv ∈ l, kv.1 ≠ k) :
    l.lookup k = none := by
  induction l with
  | nil => rfl
  | cons x xs ih =>
    obtain ⟨a, b⟩ := x
    have h1 : a ≠ k := h (a, b) (by simp)
    have h2 : (k == a) = false := by simp [Ne.symm h1]
    simp [List.lookup, h2, ih (fun kv hkv => h kv (by simp [hkv]))]

theorem lookup_mem {α β : Type} [BEq α] [LawfulBEq α] (l : List (α × β)) (k : α) (v : β) (h : l.lookup k = some v) :
    (k, v) ∈ l := by
  induction l with
  | nil => simp at h
  | cons x xs ih =>
    obtain ⟨a, b⟩ := x
    simp only [List.lookup] at h
    split at h
    · next heq => simp at h; subst h; have : k = a := by simpa using heq
                  subst this; simp
    · simp [ih h]

/-! ### registry predicates used by the statements of DrxProps/C14.lean -/

/-- `PALETTES[nbits][name]` when both keys exist -/
def tableOf (reg : Registry) (nbits : Nat) (name : String) : Option (List Int) := (reg.lookup nbits).bind (·.lookup name)

theorem tableOf_some {reg : Registry} {nbits : Nat} {name : String} {t : List Int} :
    tableOf reg nbits name = some t ↔ ∃ d, reg.lookup nbits = some d ∧ d.lookup name = some t := by
  unfold tableOf
  cases reg.lookup nbits <;> simp

/-- every table of the registry, at the depth of every decoder that can select it, has `4*ncolors` values, all bytes -/
def tablesWF (reg : Registry) (decs : List (Nat × Nat × Nat)) : Bool :=
  decs.all fun (_, nbits, ncolors) =>
    match reg.lookup nbits with
    | none => true
    | some d => d.all fun (_, t) => t.length == ncolors * 4 && t.all fun v => decide (0 ≤ v ∧ v < 256)

theorem tablesWF_elim {reg : Registry} {decs : List (Nat × Nat × Nat)} (h : tablesWF reg decs = true)
    {depth nbits ncolors : Nat} (hd : (depth, nbits, ncolors) ∈ decs) {d : List (String × List Int)}
    (hr : reg.lookup nbits = some d) {name : String} {t : List Int} (ht : (name, t) ∈ d) :
    t.length = ncolors * 4 ∧ ∀ v ∈ t, 0 ≤ v ∧ v < 256 := by
  unfold tablesWF at h
  rw [List.all_eq_true] at h
  have h1 := h _ hd
  simp only [hr] at h1
  rw [List.all_eq_true] at h1
  have h2 := h1 _ ht
  simp only [Bool.and_eq_true, beq_iff_eq, List.all_eq_true, decide_eq_true_eq] at h2
  exact h2

/-- two association lists without a shadowed key on either side that contain each other agree on every lookup -/
theorem lookup_ext {α β : Type} [BEq α] [LawfulBEq α] (A B : List (α × β))
    (hAB : ∀ kv ∈ A, B.lookup kv.1 = some kv.2) (hBA : ∀ kv ∈ B, A.lookup kv.1 = some kv.2) (k : α) :
    A.lookup k = B.lookup k := by
  cases hA : A.lookup k with
  | some v => exact (hAB (k, v) (lookup_mem A k v hA)).symm
  | none =>
    cases hB : B.lookup k with
    | none => rfl
    | some v => have := hBA (k, v) (lookup_mem B k v hB); simp [hA] at this

/-- first and last entry and the reserved bytes of a BGR0 table -/
def whiteFirstBlackLast (t : List Int) : Bool :=
  t.take 4 == [255, 255, 255, 0] && (t.drop (t.length - 4)) == [0, 0, 0, 0]

def reservedZero : List Int → Bool
  | _ :: _ :: _ :: a :: rest => a == 0 && reservedZero rest
  | [] => true
  | _ => false

end Drx.Pal
