/-
  The PackBits lemma of C06: reading what `packed` wrote gives back `unpack`, for every list of valid operations.
-/
import Drx.BitdSpec
namespace Drx.Bitd.Spec
open Drx

theorem unpackBits_op (o : Op) (hv : o.valid = true) (rest : Bytes) :
    unpackBits (o.bytes ++ rest) = (unpackBits rest).map (o.expand ++ ·) := by
  cases o with
  | lit bs =>
    simp only [Op.valid, Bool.and_eq_true, decide_eq_true_eq] at hv
    have e1 : (UInt8.ofNat (bs.length - 1)).toNat = bs.length - 1 := by
      simp only [UInt8.toNat_ofNat']; omega
    simp only [Op.bytes, Op.expand, List.cons_append]
    rw [unpackBits.eq_def]
    have e2 : ¬ (bs.length - 1 ≥ 128) := by omega
    have e3 : bs.length - 1 + 1 = bs.length := by omega
    have e4 : bs.length ≤ (bs ++ rest).length := by simp
    simp only [e1, e2, e3, e4, if_false, if_true]
    simp
  | run n v =>
    simp only [Op.valid, Bool.and_eq_true, decide_eq_true_eq] at hv
    have e1 : (UInt8.ofNat (257 - n)).toNat = 257 - n := by
      simp only [UInt8.toNat_ofNat']; omega
    simp only [Op.bytes, Op.expand, List.cons_append, List.nil_append]
    rw [unpackBits]
    have e2 : 257 - n ≥ 128 := by omega
    have e3 : 257 - (257 - n) = n := by omega
    simp only [e1, e2, e3, if_true]

theorem unpackBits_ops (ops : List Op) (hv : ∀ o ∈ ops, o.valid = true) (rest : Bytes) :
    unpackBits (packed ops ++ rest) = (unpackBits rest).map (unpack ops ++ ·) := by
  induction ops with
  | nil => simp [packed, unpack]
  | cons o os ih =>
    simp only [packed, unpack, List.flatMap_cons, List.append_assoc] at ih ⊢
    rw [unpackBits_op o (hv o (by simp)), ih (fun o' h => hv o' (by simp [h]))]
    cases unpackBits rest <;> simp

/-- unpack (pack ops) = the bytes the operations stand for — for ALL lists of valid operations -/
theorem unpackBits_packed (ops : List Op) (hv : ∀ o ∈ ops, o.valid = true) : unpackBits (packed ops) = some (unpack ops) := by
  have := unpackBits_ops ops hv []
  simp only [List.append_nil] at this
  rw [this, unpackBits]
  simp

/-- the stream of a whole image reads back as the concatenation of its scan lines -/
theorem unpackBits_rows : ∀ (opsRows : List (List Op)) (rows : List Bytes), validRows opsRows rows = true →
    unpackBits (packed opsRows.flatten) = some rows.flatten := by
  intro opsRows
  induction opsRows with
  | nil =>
    intro rows hv
    cases rows with
    | nil => simp [packed, unpackBits]
    | cons r rs => simp [validRows] at hv
  | cons ops os ih =>
    intro rows hv
    cases rows with
    | nil => simp [validRows] at hv
    | cons r rs =>
      simp only [validRows, Bool.and_eq_true, List.all_eq_true, beq_iff_eq] at hv
      obtain ⟨⟨hvo, hun⟩, hvr⟩ := hv
      have : packed (ops :: os).flatten = packed ops ++ packed os.flatten := by simp [packed]
      rw [this, unpackBits_ops ops hvo, ih rs hvr, hun]
      simp

end Drx.Bitd.Spec
