/-
  One fragment for whole scripts: every handler is EITHER flat (agent-link's `FragH`: all expression forms of `FragE` anywhere) OR
  structured (agent-link-flow's `FragTs` + `okAmbs`, text level `FragHX`).  The container chain `parse_linkg` is parametric in
  the per-handler body semantics, so the two developments combine handler by handler.
-/
import DrxProofs.LinkTextT
import DrxProofs.LinkLexText
import DrxProofs.LinkRead
namespace Drx.Link
open Drx Drx.Lscr Drx.Spec Drx.LinkFlow
set_option linter.unusedSimpArgs false
set_option linter.unusedVariables false

/-- a structured handler (byte level: agent-link-flow's conditions; text level: `FragHX`) -/
def FragHS (s : Spec.Script) (h : Handler) : Bool :=
  FragTs h.body && okAmbs false h.body && FragHX s h

/-- flat or structured -/
def FragHM (s : Spec.Script) (h : Handler) : Bool := FragH s h || FragHS s h

/-- **the fragment of `T_C02_all`** (decidable) -/
def FragScriptM (s : Spec.Script) : Bool :=
  s.factory.isEmpty && s.props.all idOk && s.globals.all idOk && s.handlers.all (FragHM s)

/-! ### flat bodies are structured bodies -/

theorem fragSs_fragXs : ∀ (ss : List Stmt), FragSs ss = true → FragXs ss = true
  | [], _ => rfl
  | s :: ss, h => by
    simp only [FragSs, Bool.and_eq_true] at h
    simp only [FragXs, Bool.and_eq_true]
    refine ⟨?_, fragSs_fragXs ss h.2⟩
    cases s <;> first | (simp [FragS] at h; done) | (simp only [FragX]; exact h.1) | rfl

theorem embSs_embTs : ∀ (ss : List Stmt) (ns : List Node), FragSs ss = true → EmbSs ss ns → EmbTs ss ns
  | [], ns, _, h => h
  | s :: ss, ns, hf, h => by
    obtain ⟨x, xs, rfl, hx, hxs⟩ := h
    simp only [FragSs, Bool.and_eq_true] at hf
    refine ⟨x, xs, rfl, ?_, embSs_embTs ss xs hf.2 hxs⟩
    cases s <;> first | (simp [FragS] at hf; done) | (simp only [EmbT]; exact hx)

/-! ### the mixed body semantics -/

def Bmix (hs : List Spec.Name) (h : Handler) (a len : Nat) (raw : List Node) : Prop :=
  if FragSs h.body = true then B₀ hs h a len raw else Bsrc h a len raw

theorem bodyRun_mix (hnames : List Spec.Name) (h : Handler) (hf : FragSs h.body = true ∨ FragTs h.body = true) :
    BodyRun (Bmix hnames) hnames h := by
  by_cases hb : FragSs h.body = true
  · have := bodyRun₀ hnames h hb
    intro s0 s1 cs hcs
    obtain ⟨e, hop, hrun⟩ := this s0 s1 cs hcs
    refine ⟨e, hop, ?_⟩
    intro sF ctx hF hrel G hG hP a st hb' hgv hst
    obtain ⟨raw, gv', hB, hpos, hgv', hr⟩ := hrun sF ctx hF hrel G hG hP a st hb' hgv hst
    exact ⟨raw, gv', by simp only [Bmix, hb, if_true]; exact hB, hpos, hgv', hr⟩
  · have hT : FragTs h.body = true := by rcases hf with hf | hf; exact absurd hf hb; exact hf
    have := bodyRun_src hnames h hT
    intro s0 s1 cs hcs
    obtain ⟨e, hop, hrun⟩ := this s0 s1 cs hcs
    refine ⟨e, hop, ?_⟩
    intro sF ctx hF hrel G hG hP a st hb' hgv hst
    obtain ⟨raw, gv', hB, hpos, hgv', hr⟩ := hrun sF ctx hF hrel G hG hP a st hb' hgv hst
    exact ⟨raw, gv', by simp only [Bmix, hb, if_false]; exact hB, hpos, hgv', hr⟩

theorem flowOk_mix (hs : List Spec.Name) (h : Handler)
    (hf : FragSs h.body = true ∨ (FragTs h.body = true ∧ okAmbs false h.body = true)) : FlowOk (Bmix hs) Fsrc h := by
  by_cases hb : FragSs h.body = true
  · intro a len raw hB hpos
    simp only [Bmix, hb, if_true] at hB
    obtain ⟨fin, hfl, hF⟩ := flowOk₀ hs h a len raw hB hpos
    exact ⟨fin, hfl, embSs_embTs h.body fin hb (EmbSsH.toEmbSs hs h.body fin hF)⟩
  · have hT : FragTs h.body = true ∧ okAmbs false h.body = true := by rcases hf with hf | hf; exact absurd hf hb; exact hf
    intro a len raw hB hpos
    simp only [Bmix, hb, if_false] at hB
    exact flowOk_src h hT.1 hT.2 a len raw hB hpos

/-! ### what the fragment gives -/

theorem fragHM_spec (s : Spec.Script) (h : Handler) (hf : FragHM s h = true) :
    h.isMethod = false ∧ idOk h.name = true ∧ (∀ v ∈ h.params, idOk v = true) ∧ FragXs h.body = true ∧
      (∀ v ∈ Stmt.varsList .prop h.body, v ∈ s.props) ∧ (∀ g ∈ h.globalsUsed s.globals, idOk g = true) ∧
      (FragSs h.body = true ∨ (FragTs h.body = true ∧ okAmbs false h.body = true)) := by
  simp only [FragHM, Bool.or_eq_true] at hf
  rcases hf with hf | hf
  · obtain ⟨a, b, c, d, e, f⟩ := fragH_spec s h hf
    exact ⟨a, b, c, fragSs_fragXs h.body d, e, f, Or.inl d⟩
  · simp only [FragHS, Bool.and_eq_true] at hf
    obtain ⟨⟨hT, hA⟩, hX⟩ := hf
    obtain ⟨a, b, c, d, e, f⟩ := fragHX_spec s h hX
    exact ⟨a, b, c, d, fun v hv => List.contains_iff_mem.mp (e v hv), f, Or.inr ⟨hT, hA⟩⟩

theorem fragScriptM_spec (s : Spec.Script) (hf : FragScriptM s = true) :
    s.factory = [] ∧ (∀ v ∈ s.props, idOk v = true) ∧ (∀ g ∈ s.globals, idOk g = true) ∧ ∀ h ∈ s.handlers, FragHM s h = true := by
  simp only [FragScriptM, Bool.and_eq_true, List.all_eq_true, List.isEmpty_iff] at hf
  exact ⟨hf.1.1.1, hf.1.1.2, hf.1.2, hf.2⟩

/-- **bytes → tree** for mixed scripts -/
theorem parse_mixed (o : Options) (s : Spec.Script) (c : Compiled) (hf : FragScriptM s = true) (hcmp : compile o s = .ok c)
    (hasc : ∀ n ∈ c.names, asciiName n = true) (hlen : c.names.length < 32768) :
    ∃ t, Lscr.parseScript c.lscr c.lnam = .ok t ∧ ScriptRelg Fsrc s t := by
  obtain ⟨hfac, _, _, hH⟩ := fragScriptM_spec s hf
  obtain ⟨t, ht, hrel, _⟩ := parse_linkg (Bmix (s.handlers.map (·.name))) Fsrc o s c hfac (fun h hh => by
    obtain ⟨hm, _, _, _, hp, _, hor⟩ := fragHM_spec s h (hH h hh)
    exact ⟨bodyRun_mix _ h (hor.imp id (·.1)), flowOk_mix _ h hor, hm, hp⟩) hcmp hasc hlen
  exact ⟨t, ht, hrel⟩

theorem scriptLex_of_fragM (s : Spec.Script) (hf : FragScriptM s = true) : ScriptLex s := by
  obtain ⟨h1, h2, h3, h4⟩ := fragScriptM_spec s hf
  refine ⟨h1, h2, h3, ?_⟩
  intro h hh
  obtain ⟨_, a, b, c, _, d, _⟩ := fragHM_spec s h (h4 h hh)
  exact ⟨bodyLex_structured h.body c, a, b, d⟩

theorem lex_mText_mixed (s : Spec.Script) (hf : FragScriptM s = true) : lex (mText s) = some (dToks s) :=
  lex_mTextg s (scriptLex_of_fragM s hf)

theorem read_dToks_mixed (s : Spec.Script) (hf : FragScriptM s = true) (hr : ReadOkB s = true) :
    Spec.parseScript (dToks s) = some s := by
  obtain ⟨h1, _, _, h4⟩ := fragScriptM_spec s hf
  rw [dToks_eqg s h1 (fun h hh => (fragHM_spec s h (h4 h hh)).1)]
  exact rp_scriptW dLayout s (readOkB_spec s hr)

end Drx.Link
