/-
  Helper lemmas about the Python-semantics layer: integer encode/decode round trips,
  slices of concatenations.
-/
import Drx.Py
namespace Drx

@[simp] theorem encBE_length (k n : Nat) : (encBE k n).length = k := by
  induction k generalizing n with
  | zero => rfl
  | succ k ih => simp [encBE, ih]

@[simp] theorem encOrd_length (o : Order) (k n : Nat) : (encOrd o k n).length = k := by
  cases o <;> simp [encOrd]

@[simp] theorem encS_length (o : Order) (k : Nat) (i : Int) : (encS o k i).length = k := by
  simp [encS]

theorem foldl_be (b : Bytes) (A : Nat) :
    List.foldl (fun acc (x : UInt8) => acc * 256 + x.toNat) A b
      = A * 256 ^ b.length + List.foldl (fun acc (x : UInt8) => acc * 256 + x.toNat) 0 b := by
  induction b generalizing A with
  | nil => simp
  | cons x xs ih =>
    simp only [List.foldl_cons, List.length_cons]
    rw [ih (A * 256 + x.toNat), ih (0 * 256 + x.toNat), Nat.pow_succ, Nat.add_mul]
    simp only [Nat.zero_mul, Nat.zero_add]
    have : A * 256 * 256 ^ xs.length = A * (256 ^ xs.length * 256) := by
      rw [Nat.mul_assoc, Nat.mul_comm 256]
    omega

theorem beNat_append (a b : Bytes) : beNat (a ++ b) = beNat a * 256 ^ b.length + beNat b := by
  unfold beNat
  rw [List.foldl_append, foldl_be]

theorem beNat_singleton (x : UInt8) : beNat [x] = x.toNat := by simp [beNat]

theorem beNat_encBE (k n : Nat) : beNat (encBE k n) = n % 256 ^ k := by
  induction k generalizing n with
  | zero => simp [encBE, beNat, Nat.mod_one]
  | succ k ih =>
    rw [encBE, beNat_append, ih]
    simp only [List.length_singleton, beNat_singleton, UInt8.toNat_ofNat', Nat.pow_one]
    have e : n % 256 ^ (k + 1) = n % 256 + 256 * (n / 256 % 256 ^ k) := by
      rw [Nat.pow_succ, Nat.mul_comm (256 ^ k) 256, Nat.mod_mul]
    rw [e]
    have : n % 256 % (2 ^ 7 * 2) = n % 256 := Nat.mod_mod_of_dvd n (by decide : (2^7*2) ∣ 256)
    omega

theorem beNat_lt (l : Bytes) : beNat l < 256 ^ l.length := by
  induction l with
  | nil => simp [beNat]
  | cons x xs ih =>
    have e : x :: xs = [x] ++ xs := rfl
    rw [e, beNat_append, beNat_singleton]
    simp only [List.length_append, List.length_singleton]
    rw [Nat.add_comm 1, Nat.pow_succ]
    have := UInt8.toNat_lt x
    have h : 0 < 256 ^ xs.length := Nat.pow_pos (by decide)
    calc x.toNat * 256 ^ xs.length + beNat xs
        < x.toNat * 256 ^ xs.length + 256 ^ xs.length := by omega
      _ = (x.toNat + 1) * 256 ^ xs.length := by rw [Nat.add_mul, Nat.one_mul]
      _ ≤ 256 * 256 ^ xs.length := Nat.mul_le_mul_right _ (by omega)
      _ = 256 ^ xs.length * 256 := Nat.mul_comm _ _

theorem ordNat_encOrd (o : Order) (k n : Nat) : ordNat o (encOrd o k n) = n % 256 ^ k := by
  cases o <;> simp [ordNat, encOrd, leNat, beNat_encBE]

theorem ordNat_encOrd_of_lt (o : Order) (k n : Nat) (h : n < 256 ^ k) : ordNat o (encOrd o k n) = n := by
  rw [ordNat_encOrd, Nat.mod_eq_of_lt h]

theorem unpackU_encOrd (o : Order) (k n : Nat) (h : n < 256 ^ k) : unpackU o k (encOrd o k n) = .ok n := by
  simp [unpackU, ordNat_encOrd_of_lt o k n h]

/-- a signed value in range survives `ofSigned`/`toSigned` -/
theorem toSigned_ofSigned (bits : Nat) (hb : 0 < bits) (i : Int)
    (lo : -((2 ^ (bits - 1) : Nat) : Int) ≤ i) (hi : i < ((2 ^ (bits - 1) : Nat) : Int)) :
    toSigned bits (ofSigned bits i) = i := by
  unfold toSigned ofSigned
  have hp : (2 ^ bits : Nat) = 2 * 2 ^ (bits - 1) := by
    obtain ⟨m, rfl⟩ : ∃ m, bits = m + 1 := ⟨bits - 1, by omega⟩
    simp [Nat.pow_succ, Nat.mul_comm]
  generalize (2 ^ (bits - 1) : Nat) = H at *
  rw [hp]
  generalize hm : ((2 * H : Nat) : Int) = m
  have hm' : m = 2 * (H : Int) := by omega
  by_cases hneg : i < 0
  · have e : i % m = i + m := by
      rw [← Int.add_emod_right i m]
      exact Int.emod_eq_of_lt (by omega) (by omega)
    rw [e]
    have h3 : ((i + m).toNat : Int) = i + m := Int.toNat_of_nonneg (by omega)
    have : ¬ ((i + m).toNat < H) := by omega
    simp only [this, if_false]
    omega
  · have e : i % m = i := Int.emod_eq_of_lt (by omega) (by omega)
    rw [e]
    have : (i.toNat < H) := by omega
    simp only [this, if_true]
    exact Int.toNat_of_nonneg (by omega)

theorem ofSigned_lt (bits : Nat) (i : Int) : ofSigned bits i < 2 ^ bits := by
  unfold ofSigned
  have hpos : (0 : Int) < ((2 ^ bits : Nat) : Int) := by
    have : 0 < 2 ^ bits := Nat.pow_pos (by decide); omega
  have := Int.emod_lt_of_pos i hpos
  have h0 := Int.emod_nonneg i (by omega : ((2 ^ bits : Nat) : Int) ≠ 0)
  omega

theorem pow256 (k : Nat) : 256 ^ k = 2 ^ (8 * k) := by
  rw [Nat.pow_mul]

theorem unpackS_encS (o : Order) (k : Nat) (hk : 0 < k) (i : Int)
    (lo : -((2 ^ (8 * k - 1) : Nat) : Int) ≤ i) (hi : i < ((2 ^ (8 * k - 1) : Nat) : Int)) :
    unpackS o k (encS o k i) = .ok i := by
  unfold unpackS encS
  simp only [encOrd_length, if_true]
  rw [ordNat_encOrd_of_lt _ _ _ (by rw [pow256]; exact ofSigned_lt _ _)]
  rw [toSigned_ofSigned _ (by omega) _ lo hi]

/-! ### slices of concatenations -/

theorem slice_append_left (a b : List α) (n : Nat) (h : n = a.length) : slice (a ++ b) 0 n = a := by
  subst h; simp [slice]

theorem slice_at (pre x post : List α) (i k : Nat) (hi : i = pre.length) (hk : k = x.length) :
    slice (pre ++ x ++ post) i (i + k) = x := by
  subst hi hk
  simp [slice]

theorem slice_at' (pre x post : List α) (i j : Nat) (hi : i = pre.length) (hj : j = pre.length + x.length) :
    slice (pre ++ (x ++ post)) i j = x := by
  subst hi hj
  simp [slice]

end Drx
