/-
  List lemmas shared by the C06 proofs: zero runs, the image of a partly painted row inside the flat
  `bytearray`, one painted pixel = one `List.set`, indexing into a concatenation of equally long rows.
-/
import Drx.BitdSpec
namespace Drx.Bitd
open Drx

@[simp] theorem zeros_length (n : Nat) : (zeros n).length = n := by simp [zeros]

theorem zeros_add (a b : Nat) : zeros (a + b) = zeros a ++ zeros b := by
  simp [zeros, List.replicate_append_replicate]

theorem zeros_succ (n : Nat) : zeros (n + 1) = 0 :: zeros n := by
  simp [zeros, List.replicate_succ]

theorem zeros_zero : zeros 0 = [] := rfl

/-- a row of `stride` bytes in which the first `min painted.length w` image pixels (starting at column `ox`)
    have been painted -/
def rowImg (stride ox w : Nat) (painted : Bytes) : Bytes :=
  zeros ox ++ painted.take w ++ zeros (stride - ox - min painted.length w)

theorem rowImg_nil (stride ox w : Nat) (h : ox ≤ stride) : rowImg stride ox w [] = zeros stride := by
  unfold rowImg
  simp only [List.take_nil, List.append_nil, List.length_nil, Nat.zero_min, Nat.sub_zero]
  rw [← zeros_add]; congr 1; omega

theorem rowImg_length (stride ox w : Nat) (p : Bytes) (h : ox + w ≤ stride) : (rowImg stride ox w p).length = stride := by
  unfold rowImg
  simp only [List.length_append, zeros_length, List.length_take]
  omega

/-- painting beyond the image width changes nothing -/
theorem rowImg_snoc_ge (stride ox w : Nat) (p : Bytes) (v : UInt8) (h : w ≤ p.length) :
    rowImg stride ox w (p ++ [v]) = rowImg stride ox w p := by
  unfold rowImg
  rw [List.take_append_of_le_length h]
  simp only [List.length_append, List.length_singleton]
  congr 2
  omega

/-- `data[A.length + x + ox] = v` paints pixel `x` of the current row -/
theorem set_rowImg (A B : Bytes) (stride ox w : Nat) (p : Bytes) (v : UInt8)
    (hx : p.length < w) (hw : ox + w ≤ stride) :
    (A ++ rowImg stride ox w p ++ B).set (A.length + p.length + ox) v = A ++ rowImg stride ox w (p ++ [v]) ++ B := by
  unfold rowImg
  have e1 : p.take w = p := List.take_of_length_le (by omega)
  have e2 : (p ++ [v]).take w = p ++ [v] := List.take_of_length_le (by simp; omega)
  have e3 : min p.length w = p.length := by omega
  have e4 : min (p ++ [v]).length w = p.length + 1 := by simp; omega
  rw [e1, e2, e3, e4]
  have e5 : stride - ox - p.length = (stride - ox - (p.length + 1)) + 1 := by omega
  rw [e5, zeros_succ]
  simp only [List.append_assoc]
  rw [List.set_append_right _ _ (by omega)]
  congr 1
  have : A.length + p.length + ox - A.length = ox + p.length := by omega
  rw [this, List.set_append_right _ _ (by simp)]
  congr 1
  simp only [zeros_length, Nat.add_sub_cancel_left]
  rw [List.set_append_right _ _ (by omega)]
  simp

theorem setAt_rowImg (A B : Bytes) (stride ox w : Nat) (p : Bytes) (v : UInt8)
    (hx : p.length < w) (hw : ox + w ≤ stride) :
    setAt (A ++ rowImg stride ox w p ++ B) (A.length + p.length + ox) v = .ok (A ++ rowImg stride ox w (p ++ [v]) ++ B) := by
  unfold setAt
  have : A.length + p.length + ox < (A ++ rowImg stride ox w p ++ B).length := by
    simp only [List.length_append, rowImg_length _ _ _ _ hw]; omega
  simp only [this, if_true]
  rw [set_rowImg A B stride ox w p v hx hw]

theorem rowImg_take (stride ox w : Nat) (r : Bytes) (h : w ≤ r.length) :
    rowImg stride ox w (r.take w) = rowImg stride ox w r := by
  unfold rowImg
  simp only [List.take_take, Nat.min_self, List.length_take]
  congr 2
  omega

/-- the bytes from row `y` on, in a concatenation of rows of equal length `s` -/
theorem drop_flatten_uniform (s : Nat) : ∀ (rows : List Bytes) (y : Nat), (∀ r ∈ rows, r.length = s) → (hy : y < rows.length) →
    rows.flatten.drop (y * s) = rows[y] ++ (rows.drop (y + 1)).flatten := by
  intro rows
  induction rows with
  | nil => intro y _ hy; simp at hy
  | cons r rs ih =>
    intro y hl hy
    cases y with
    | zero => simp
    | succ y =>
      have hr : r.length = s := hl r (by simp)
      simp only [List.flatten_cons, List.getElem_cons_succ, List.drop_succ_cons]
      have : (y + 1) * s = r.length + y * s := by rw [Nat.add_mul, hr]; omega
      rw [this, List.drop_append]
      simp only [Nat.add_sub_cancel_left]
      rw [List.drop_of_length_le (by omega)]
      simp only [List.nil_append]
      exact ih y (fun r' h => hl r' (by simp [h])) (by simpa using hy)

theorem byteAt_of_drop (l : Bytes) (k : Nat) (v : UInt8) (t : Bytes) (h : l.drop k = v :: t) : byteAt l k = .ok v := by
  unfold byteAt
  have : l[k]? = some v := by
    have := congrArg (fun x => x[0]?) h
    simpa using this
  simp [this]

theorem drop_succ_of_drop (l : Bytes) (k : Nat) (v : UInt8) (t : Bytes) (h : l.drop k = v :: t) : l.drop (k + 1) = t := by
  have : l.drop (k + 1) = (l.drop k).drop 1 := by rw [List.drop_drop]
  rw [this, h]; rfl

end Drx.Bitd
