/-
  The 20-byte layout reports the transition byte through `get_transition_name`, which never returns the empty string
  (unknown ids, including 0 = "no transition", become their decimal text).  Consequence for `vwsc_to_score`, whose test is
  `main['transition_id'] != ''`: see DrxProps/C0809.lean `d4_transition_event_iff_main`.
-/
import Drx.VwscChannels
import Drx.VwscSpec
import Drx.ScoreSpec
namespace Drx.Vwsc
open Drx Drx.Vwsc.Spec

theorem natStr_ne_nil (n : Nat) : natStr n ≠ [] := by
  unfold natStr
  intro h
  simp at h

theorem transitionNames_nonempty : ∀ p ∈ Gen.Score.transitionNames, p.2.toList ≠ [] := by decide

theorem lookup_mem {β : Type} (l : List (Nat × β)) (k : Nat) (v : β) (h : l.lookup k = some v) : (k, v) ∈ l := by
  induction l with
  | nil => simp [List.lookup] at h
  | cons p ps ih =>
    obtain ⟨a, b⟩ := p
    simp only [List.lookup] at h
    split at h
    · rename_i heq
      simp at heq; cases h; simp [heq]
    · simp [ih h]

theorem transitionName_ne_nil (v : Int) : transitionName v ≠ [] := by
  unfold transitionName
  split
  · rename_i s hs
    exact transitionNames_nonempty _ (lookup_mem _ _ _ hs)
  · exact natStr_ne_nil _

end Drx.Vwsc
