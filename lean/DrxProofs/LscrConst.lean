/-
  Helper lemmas for property C11: decimal rendering/reading of integers, the JavaScript string literal, tables.
-/
import Drx.Lscr
import Drx.Lscr.LitEval
namespace Drx.Lscr
open Drx

/-! ### decimal digits -/

theorem digitChar_spec : ∀ k, k < 10 → isAsciiDigit (digitChar k) = true ∧ (digitChar k).toNat - 48 = k ∧ digitChar k ≠ '-' ∧ digitChar k ≠ '"' := by
  decide

theorem digitChar_mod (n : Nat) : digitChar n = digitChar (n % 10) := by
  simp [digitChar]

theorem digitsVal_append (s t : Str) (a : Nat) : digitsVal (s ++ t) a = (digitsVal s a).bind (fun b => digitsVal t b) := by
  induction s generalizing a with
  | nil => simp [digitsVal]
  | cons c cs ih =>
    simp only [List.cons_append, digitsVal]
    split
    · exact ih _
    · rfl

theorem natDigits_acc (fuel n : Nat) (acc : Str) : natDigits fuel n acc = natDigits fuel n [] ++ acc := by
  induction fuel generalizing n acc with
  | zero => simp [natDigits]
  | succ f ih =>
    simp only [natDigits]
    split
    · simp
    · rw [ih (n / 10) (digitChar n :: acc), ih (n / 10) [digitChar n]]
      simp

theorem digitsVal_natDigits (fuel n : Nat) (h : n < 10 ^ fuel) : digitsVal (natDigits fuel n []) 0 = some n := by
  induction fuel generalizing n with
  | zero => simp at h; subst h; simp [natDigits, digitsVal]
  | succ f ih =>
    simp only [natDigits]
    split
    · rename_i h10
      have := digitChar_spec n h10
      simp [digitsVal, this.1, this.2.1]
    · rename_i h10
      rw [natDigits_acc, digitsVal_append]
      have hlt : n / 10 < 10 ^ f := by
        have : n < 10 ^ f * 10 := by rw [Nat.pow_succ] at h; exact h
        exact Nat.div_lt_of_lt_mul (by rw [Nat.mul_comm]; exact this)
      rw [ih (n / 10) hlt]
      have hm := digitChar_spec (n % 10) (Nat.mod_lt _ (by omega))
      rw [digitChar_mod]
      simp only [Option.bind, digitsVal, hm.1, hm.2.1, if_true]
      congr 1
      omega

theorem lt_ten_pow_succ (n : Nat) : n < 10 ^ (n + 1) := by
  induction n with
  | zero => simp
  | succ k ih => rw [Nat.pow_succ]; omega

/-- reading the decimal text of a natural number gives it back -/
theorem digitsVal_natStr (n : Nat) : digitsVal (natStr n) 0 = some n :=
  digitsVal_natDigits (n + 1) n (lt_ten_pow_succ n)

theorem natDigits_head (fuel n : Nat) (acc : Str) (hf : 0 < fuel) :
    ∃ c rest, natDigits fuel n acc = c :: rest ∧ isAsciiDigit c = true ∧ c ≠ '-' ∧ c ≠ '"' := by
  induction fuel generalizing n acc with
  | zero => omega
  | succ f ih =>
    simp only [natDigits]
    split
    · rename_i h10
      have := digitChar_spec n h10
      exact ⟨_, _, rfl, this.1, this.2.2.1, this.2.2.2⟩
    · cases f with
      | zero =>
        have hm := digitChar_spec (n % 10) (Nat.mod_lt _ (by omega))
        refine ⟨digitChar n, acc, by simp [natDigits], ?_, ?_, ?_⟩ <;> rw [digitChar_mod]
        · exact hm.1
        · exact hm.2.2.1
        · exact hm.2.2.2
      | succ g => exact ih (n / 10) _ (by omega)

theorem natStr_head (n : Nat) : ∃ c rest, natStr n = c :: rest ∧ isAsciiDigit c = true ∧ c ≠ '-' ∧ c ≠ '"' :=
  natDigits_head (n + 1) n [] (by omega)

/-- reading the decimal text of an integer gives it back -/
theorem evalIntLit_intStr (i : Int) : evalIntLit (intStr i) = some i := by
  cases i with
  | ofNat n =>
    obtain ⟨c, rest, he, hd, hm, _⟩ := natStr_head n
    have hv := digitsVal_natStr n
    simp only [intStr]
    rw [he] at hv ⊢
    unfold evalIntLit
    split
    · rename_i d ds heq; simp only [List.cons.injEq] at heq; exact absurd heq.1 hm
    · rename_i d ds _ heq; simp only [List.cons.injEq] at heq; obtain ⟨h1, h2⟩ := heq; subst h1; subst h2; simp [hv]
    · rename_i heq; simp at heq
  | negSucc n =>
    obtain ⟨c, rest, he, hd, hm, _⟩ := natStr_head (n + 1)
    have hv := digitsVal_natStr (n + 1)
    simp only [intStr]
    rw [he] at hv ⊢
    simp only [evalIntLit, hv, Option.map]
    congr 1

/-! ### the JavaScript string literal -/

/-- what `replace(n, '"', '\\"')` does to one character -/
def jsQuote (c : Char) : Str := if c = '"' then ['\\', '"'] else [c]

theorem replaceAll_quote (l : Str) : replaceAll l ['"'] ['\\', '"'] = l.flatMap jsQuote := by
  induction l with
  | nil => rw [replaceAll]; rfl
  | cons c cs ih =>
    rw [replaceAll]
    by_cases hc : c = '"'
    · subst hc
      simp [jsQuote, ih]
    · have : ¬ (['"'] : Str).isPrefixOf (c :: cs) = true := by
        simp [List.isPrefixOf]; exact fun h => hc h.symm
      simp [this, jsQuote, hc, ih]

theorem hexVal_hexDigit : ∀ d, d < 16 → hexVal (hexDigit d) = some d ∧ hexDigit d ≠ '"' ∧ hexDigit d ≠ '\\' := by decide

theorem unitChar_toNat (c : Char) : unitChar c.toNat = some c := by
  unfold unitChar unitChar.mkCharOpt
  have hv := c.valid
  have h1 : ¬ (0xD800 ≤ c.toNat ∧ c.toNat ≤ 0xDFFF) := by
    intro h
    have := c.valid
    simp only [UInt32.isValidChar, Nat.isValidChar, Char.toNat] at this h
    omega
  have h2 : c.toNat.isValidChar := c.valid
  simp only [h1, if_false, h2, dite_true]
  congr 1

theorem hexVal2_spec (n : Nat) (h : n < 256) : hexVal2 (hexDigit (n / 16 % 16)) (hexDigit (n % 16)) = some n := by
  have h1 := (hexVal_hexDigit (n / 16 % 16) (Nat.mod_lt _ (by omega))).1
  have h2 := (hexVal_hexDigit (n % 16) (Nat.mod_lt _ (by omega))).1
  simp only [hexVal2, h1, h2, Option.bind_eq_bind, Option.bind_some, Option.pure_def]
  congr 1
  omega

theorem hexVal4_spec (n : Nat) (h : n < 65536) :
    hexVal4 (hexDigit (n / 4096 % 16)) (hexDigit (n / 256 % 16)) (hexDigit (n / 16 % 16)) (hexDigit (n % 16)) = some n := by
  have h1 := (hexVal_hexDigit (n / 4096 % 16) (Nat.mod_lt _ (by omega))).1
  have h2 := (hexVal_hexDigit (n / 256 % 16) (Nat.mod_lt _ (by omega))).1
  have h3 := (hexVal_hexDigit (n / 16 % 16) (Nat.mod_lt _ (by omega))).1
  have h4 := (hexVal_hexDigit (n % 16) (Nat.mod_lt _ (by omega))).1
  simp only [hexVal4, hexVal2, h1, h2, h3, h4, Option.bind_eq_bind, Option.bind_some, Option.pure_def]
  congr 1
  omega

theorem jsQuote_hexDigit (d : Nat) (h : d < 16) : jsQuote (hexDigit d) = [hexDigit d] := by
  simp [jsQuote, (hexVal_hexDigit d h).2.1]

/-- the escape of one character, with the quotes escaped for JavaScript, reads back as that character -/
theorem jsStrBody_char (c : Char) (rest : Str) (hc : c.toNat < 65536) :
    jsStrBody ((unicodeEscapeChar c).flatMap jsQuote ++ rest) = (jsStrBody rest).map fun vr => (c :: vr.1, vr.2) := by
  unfold unicodeEscapeChar
  by_cases h1 : c = '\\'
  · subst h1; simp [jsQuote, jsStrBody, (by decide : isAsciiDigit '\\' = false)]
  · by_cases h2 : c = '\t'
    · subst h2; simp [jsQuote, jsStrBody, (by decide : isAsciiDigit 't' = false)]
    · by_cases h3 : c = '\n'
      · subst h3; simp [jsQuote, jsStrBody, (by decide : isAsciiDigit 'n' = false)]
      · by_cases h4 : c = '\r'
        · subst h4; simp [jsQuote, jsStrBody, (by decide : isAsciiDigit 'r' = false)]
        · simp only [h1, h2, h3, h4, if_false]
          by_cases hp : 32 ≤ c.toNat ∧ c.toNat < 127
          · simp only [hp, and_self, if_true]
            by_cases hq : c = '"'
            · subst hq; simp [jsQuote, jsStrBody, (by decide : isAsciiDigit '"' = false)]
            · have hnl : ¬ (c = '\n' ∨ c = '\r') := by simp [h3, h4]
              simp only [List.flatMap_cons, List.flatMap_nil, jsQuote, hq, if_false, List.append_nil, List.cons_append, List.nil_append]
              rw [jsStrBody]
              · simp [hnl]
              all_goals (intros; simp_all)
          · simp only [hp, if_false]
            by_cases h8 : c.toNat < 256
            · simp only [h8, if_true, hex2]
              have e1 := jsQuote_hexDigit (c.toNat / 16 % 16) (Nat.mod_lt _ (by omega))
              have e2 := jsQuote_hexDigit (c.toNat % 16) (Nat.mod_lt _ (by omega))
              have q1 : jsQuote '\\' = ['\\'] := by decide
              have q2 : jsQuote 'x' = ['x'] := by decide
              simp only [List.flatMap_cons, List.flatMap_nil, q1, q2, e1, e2, List.append_nil, List.cons_append, List.nil_append]
              simp only [jsStrBody, hexVal2_spec c.toNat h8]
              cases jsStrBody rest <;> simp [unitChar_toNat]
            · have hlt : c.toNat < 65536 := hc
              simp only [h8, hlt, if_false, if_true, hex4l]
              have e1 := jsQuote_hexDigit (c.toNat / 4096 % 16) (Nat.mod_lt _ (by omega))
              have e2 := jsQuote_hexDigit (c.toNat / 256 % 16) (Nat.mod_lt _ (by omega))
              have e3 := jsQuote_hexDigit (c.toNat / 16 % 16) (Nat.mod_lt _ (by omega))
              have e4 := jsQuote_hexDigit (c.toNat % 16) (Nat.mod_lt _ (by omega))
              have q1 : jsQuote '\\' = ['\\'] := by decide
              have q2 : jsQuote 'u' = ['u'] := by decide
              simp only [List.flatMap_cons, List.flatMap_nil, q1, q2, e1, e2, e3, e4, List.append_nil, List.cons_append, List.nil_append]
              simp only [jsStrBody, hexVal4_spec c.toNat hlt]
              cases jsStrBody rest <;> simp [unitChar_toNat]

theorem jsStrBody_escape (s : Str) (hs : ∀ c ∈ s, c.toNat < 65536) (rest : Str) :
    jsStrBody ((unicodeEscape s).flatMap jsQuote ++ '"' :: rest) = some (s, rest) := by
  induction s with
  | nil => simp [unicodeEscape, jsStrBody]
  | cons c cs ih =>
    have hc : c.toNat < 65536 := hs c (by simp)
    have hcs : ∀ x ∈ cs, x.toNat < 65536 := fun x hx => hs x (by simp [hx])
    simp only [unicodeEscape, List.flatMap_cons, List.flatMap_append, List.append_assoc] at ih ⊢
    rw [jsStrBody_char c _ hc, ih hcs]
    rfl

theorem escapeString_body (s : Str) : slice (escapeString s) 1 ((escapeString s).length - 1) = unicodeEscape s := by
  simp [escapeString, slice]

theorem isPrefixOf_append_self (p x : Str) : p.isPrefixOf (p ++ x) = true := by
  induction p with
  | nil => simp [List.isPrefixOf]
  | cons a as ih => simp [List.isPrefixOf, ih]

/-- the JavaScript literal of a string constant evaluates to the string, whatever characters (below U+10000) it has -/
theorem evalJsLit_constJs (s : Str) (hs : ∀ c ∈ s, c.toNat < 65536) :
    evalJsLit (constJs (.s (escapeString s))).str = some s := by
  have hq : startsWith (escapeString s) ['"'] = true := by simp [startsWith, escapeString, List.isPrefixOf]
  simp only [constJs, hq, if_true, Name.str, escapeString_body, replaceAll_quote]
  unfold evalJsLit
  rw [List.append_assoc, isPrefixOf_append_self]
  simp only [if_true]
  have hl : (S "new LingoString(\"").length = 17 := by decide
  rw [show ∀ (x : Str), List.drop 17 (S "new LingoString(\"" ++ x) = x from fun x => by
    rw [← hl]; exact List.drop_left]
  have : S "\")" = '"' :: [')'] := by decide
  rw [this, jsStrBody_escape s hs]
  simp

/-! ### Mac-Roman text has no character above U+FFFF -/

theorem macRoman_table_small : Gen.Codecs.macRoman.toList.all (fun n => decide (n < 65536)) = true := by decide +kernel

theorem decodeByte_macRoman_small (b : UInt8) (c : Char) (h : decodeByte .macRoman b = some c) : c.toNat < 65536 := by
  unfold decodeByte at h
  simp only [Codec.table] at h
  cases hg : Gen.Codecs.macRoman[b.toNat]? with
  | none => rw [hg] at h; simp at h
  | some n =>
    rw [hg] at h
    simp only [Option.bind_some, mkChar] at h
    split at h
    · rename_i hv
      have hn : n < 65536 := by
        have hm : n ∈ Gen.Codecs.macRoman.toList := by
          rw [Array.mem_toList_iff]
          exact Array.mem_of_getElem? hg
        have := List.all_eq_true.mp macRoman_table_small n hm
        simpa using this
      cases h
      simpa [Char.toNat, Char.ofNatAux] using hn
    · simp at h

theorem mapM_all {α β : Type} {f : α → R β} {P : β → Prop} (hf : ∀ a b, f a = .ok b → P b) :
    ∀ (l : List α) (s : List β), l.mapM f = .ok s → ∀ c ∈ s, P c := by
  intro l
  induction l with
  | nil => intro s h; simp [pure, Except.pure] at h; subst h; simp
  | cons a l ih =>
    intro s h
    rw [List.mapM_cons] at h
    simp only [bind, Except.bind] at h
    cases ha : f a with
    | error e => rw [ha] at h; simp at h
    | ok b =>
      rw [ha] at h
      simp only at h
      generalize hr : l.mapM f = r at h
      cases r with
      | error e => simp at h
      | ok r =>
        simp only [pure, Except.pure, Except.ok.injEq] at h
        subst h
        intro c hc
        simp only [List.mem_cons] at hc
        rcases hc with rfl | hc
        · exact hf a _ ha
        · exact ih r hr c hc

theorem mapM_all_mem {α β : Type} {f : α → R β} {P : β → Prop} :
    ∀ (l : List α) (s : List β), (∀ a ∈ l, ∀ b, f a = .ok b → P b) → l.mapM f = .ok s → ∀ c ∈ s, P c := by
  intro l
  induction l with
  | nil => intro s _ h; simp [pure, Except.pure] at h; subst h; simp
  | cons a l ih =>
    intro s hf h
    rw [List.mapM_cons] at h
    simp only [bind, Except.bind] at h
    cases ha : f a with
    | error e => rw [ha] at h; simp at h
    | ok b =>
      rw [ha] at h
      simp only at h
      generalize hr : l.mapM f = r at h
      cases r with
      | error e => simp at h
      | ok r =>
        simp only [pure, Except.pure, Except.ok.injEq] at h
        subst h
        intro c hc
        simp only [List.mem_cons] at hc
        rcases hc with rfl | hc
        · exact hf a (by simp) _ ha
        · exact ih r (fun x hx => hf x (by simp [hx])) hr c hc

theorem decodeText_macRoman_small (bs : Bytes) (s : Str) (h : decodeText .macRoman bs = .ok s) : ∀ c ∈ s, c.toNat < 65536 := by
  simp only [decodeText] at h
  refine mapM_all (P := fun c => c.toNat < 65536) ?_ bs s h
  intro b c hb
  split at hb
  · rename_i ch hd; cases hb; exact decodeByte_macRoman_small b _ hd
  · cases hb

/-! ### integer constants are rendered as they are stored -/

theorem predefined_keys_quoted : ∀ kv ∈ predefinedConstants, kv.1.head? = some '"' := by decide

theorem lookup_none_of_head {l : List (Str × Str)} (h : ∀ kv ∈ l, kv.1.head? = some '"') (s : Str) (hs : s.head? ≠ some '"') :
    l.lookup s = none := by
  induction l with
  | nil => rfl
  | cons x xs ih =>
    obtain ⟨k, v⟩ := x
    have hk : k.head? = some '"' := h (k, v) (by simp)
    have hne : (s == k) = false := by
      apply beq_false_of_ne
      intro e; subst e; exact hs hk
    simp only [List.lookup, hne]
    exact ih (fun kv hkv => h kv (by simp [hkv]))

theorem intStr_head (i : Int) : (intStr i).head? ≠ some '"' := by
  cases i with
  | ofNat n =>
    obtain ⟨c, rest, he, _, _, hq⟩ := natStr_head n
    simp only [intStr, he, List.head?_cons, ne_eq, Option.some.injEq]
    exact hq
  | negSucc n => simp [intStr]

theorem startsWith_quote_false (s : Str) (h : s.head? ≠ some '"') : startsWith s ['"'] = false := by
  cases s with
  | nil => rfl
  | cons c cs =>
    simp only [List.head?_cons, ne_eq, Option.some.injEq] at h
    simp [startsWith, List.isPrefixOf]; exact fun e => h e.symm

theorem constLingo_intStr (i : Int) : constLingo (.s (intStr i)) = .s (intStr i) := by
  simp only [constLingo, lookup_none_of_head predefined_keys_quoted _ (intStr_head i), startsWith_quote_false _ (intStr_head i)]
  simp

theorem constJs_intStr (i : Int) : constJs (.s (intStr i)) = .s (intStr i) := by
  simp only [constJs, startsWith_quote_false _ (intStr_head i)]
  simp

/-! ### strings without special characters -/

/-- printable ASCII other than the backslash and the quote -/
def plainChar (c : Char) : Bool := 32 ≤ c.toNat && c.toNat < 127 && c != '\\' && c != '"'

theorem unicodeEscapeChar_plain (c : Char) (h : plainChar c = true) : unicodeEscapeChar c = [c] := by
  simp only [plainChar, Bool.and_eq_true, decide_eq_true_eq, bne_iff_ne, ne_eq] at h
  obtain ⟨⟨⟨h1, h2⟩, h3⟩, h4⟩ := h
  have ht : c ≠ '\t' := by intro e; subst e; simp at h1
  have hn : c ≠ '\n' := by intro e; subst e; simp at h1
  have hr : c ≠ '\r' := by intro e; subst e; simp at h1
  simp [unicodeEscapeChar, h3, ht, hn, hr, h1, h2]

theorem unicodeEscape_plain (s : Str) (h : ∀ c ∈ s, plainChar c = true) : unicodeEscape s = s := by
  induction s with
  | nil => rfl
  | cons c cs ih =>
    simp only [unicodeEscape, List.flatMap_cons] at ih ⊢
    rw [unicodeEscapeChar_plain c (h c (by simp)), ih (fun x hx => h x (by simp [hx]))]
    rfl

theorem findFrom_skip (t rest : Str) (c : Char) (v : Str) (k limit : Nat) (ht : ∀ x ∈ t, x ≠ c)
    (hr : findFrom rest (c :: v) (k + t.length) limit = none) : findFrom (t ++ rest) (c :: v) k limit = none := by
  induction t generalizing k with
  | nil => simpa using hr
  | cons x xs ih =>
    rw [List.cons_append, findFrom]
    split
    · rfl
    · have hx : x ≠ c := ht x (by simp)
      have : ((c :: v).isPrefixOf (x :: (xs ++ rest))) = false := by
        simp [List.isPrefixOf]; intro e; exact absurd e.symm hx
      simp only [this]
      apply ih (k + 1) (fun y hy => ht y (by simp [hy]))
      have : k + 1 + xs.length = k + (x :: xs).length := by simp; omega
      rw [this]; exact hr

theorem replLoop_nonpos (k v n : Str) (idx : Nat) (pos : Int) (h : ¬ pos > 0) : replLoop k v n idx pos = n := by
  rw [replLoop]; simp [h]

/-- no occurrence of the first character of `v` inside the quotes: the pass leaves the text alone -/
theorem replPass_plain (k : Str) (c : Char) (v : Str) (s : Str) (hs : ∀ x ∈ s, x ≠ c) (hc : c = '"' ∨ c ≠ '"') :
    let n := '"' :: (s ++ ['"'])
    replLoop k (c :: v) n 1 (pyFind n (c :: v) 1 (n.length - 1)) = n := by
  intro n
  apply replLoop_nonpos
  have hfind : findFrom (s ++ ['"']) (c :: v) 1 (s.length + 1) = none := by
    apply findFrom_skip s ['"'] c v 1 (s.length + 1) hs
    rw [findFrom]
    by_cases hq : c = '"'
    · subst hq
      have : 1 + s.length + ('"' :: v).length > s.length + 1 := by simp; omega
      simp only [this, if_true]
    · have hp : ((c :: v).isPrefixOf ['"']) = false := by
        simp [List.isPrefixOf]; intro e; exact absurd e hq
      simp only [hp]
      split
      · rfl
      · simp [findFrom]
  have : pyFind n (c :: v) 1 (n.length - 1) = -1 := by
    simp only [pyFind, n, List.length_cons, List.length_append, List.length_nil, List.drop_succ_cons, List.drop_zero]
    have e1 : min (s.length + (0 + 1) + 1 - 1) (s.length + (0 + 1) + 1) = s.length + 1 := by omega
    have e2 : ¬ (1 > s.length + (0 + 1) + 1) := by omega
    simp only [e1, e2, if_false, hfind]
  rw [this]; decide

theorem replacementConstants_value : replacementConstants =
    [(S "QUOTE", S "\""), (S "BACKSPACE", S "\\x08"), (S "ENTER", S "\\x03"), (S "RETURN", S "\\r"), (S "TAB", S "\\t")] := by decide

theorem predefinedConstants_value : predefinedConstants =
    [(S "\"\"", S "EMPTY"), (S "\"\\x08\"", S "BACKSPACE"), (S "\"\\x03\"", S "ENTER"), (S "\"\"\"", S "QUOTE"),
     (S "\"\\r\"", S "RETURN"), (S "\"\\t\"", S "TAB")] := by decide

theorem plain_ne_quote (s : Str) (h : ∀ c ∈ s, plainChar c = true) : ∀ x ∈ s, x ≠ '"' := by
  intro x hx e; subst e; have := h _ hx; simp [plainChar] at this

theorem plain_ne_backslash (s : Str) (h : ∀ c ∈ s, plainChar c = true) : ∀ x ∈ s, x ≠ '\\' := by
  intro x hx e; subst e; have := h _ hx; simp [plainChar] at this

/-- a text without quotes, backslashes and non-printable characters is written between quotes unchanged -/
theorem replaceChars_plain (s : Str) (h : ∀ c ∈ s, plainChar c = true) :
    replaceCharsWithLingoConstants ('"' :: (s ++ ['"'])) = '"' :: (s ++ ['"']) := by
  have hq := plain_ne_quote s h
  have hb := plain_ne_backslash s h
  unfold replaceCharsWithLingoConstants
  rw [replacementConstants_value]
  simp only [List.foldl_cons, List.foldl_nil, S]
  have p1 := replPass_plain "QUOTE".toList '"' [] s hq (Or.inl rfl)
  have p2 := replPass_plain "BACKSPACE".toList '\\' ['x', '0', '8'] s hb (Or.inr (by decide))
  have p3 := replPass_plain "ENTER".toList '\\' ['x', '0', '3'] s hb (Or.inr (by decide))
  have p4 := replPass_plain "RETURN".toList '\\' ['r'] s hb (Or.inr (by decide))
  have p5 := replPass_plain "TAB".toList '\\' ['t'] s hb (Or.inr (by decide))
  simp only at p1 p2 p3 p4 p5
  have e1 : "\"".toList = ['"'] := by decide
  have e2 : "\\x08".toList = ['\\', 'x', '0', '8'] := by decide
  have e3 : "\\x03".toList = ['\\', 'x', '0', '3'] := by decide
  have e4 : "\\r".toList = ['\\', 'r'] := by decide
  have e5 : "\\t".toList = ['\\', 't'] := by decide
  rw [e1, e2, e3, e4, e5, p1, p2, p3, p4, p5]

theorem lrun_append (e : Option (List Str)) (m : LM) (a b : Str) : lrun e m (a ++ b) = lrun e (lrun e m a) b := by
  simp [lrun, List.foldl_append]

theorem lrun_cons (e : Option (List Str)) (m : LM) (c : Char) (r : Str) : lrun e m (c :: r) = lrun e (lstep e m c) r := rfl

theorem lrun_nil (e : Option (List Str)) (m : LM) : lrun e m [] = m := rfl

/-- inside a string literal Lingo reads every character other than the quote as itself -/
theorem lrun_none_body (s : Str) (o : Str) (h : ∀ x ∈ s, x ≠ '"') : lrun none ⟨.S, o⟩ s = ⟨.S, o ++ s⟩ := by
  induction s generalizing o with
  | nil => simp [lrun]
  | cons c cs ih =>
    have hc : c ≠ '"' := h c (by simp)
    rw [lrun_cons]
    have : lstep none ⟨.S, o⟩ c = ⟨.S, o ++ [c]⟩ := by simp [lstep, hc]
    rw [this, ih _ (fun x hx => h x (by simp [hx]))]
    simp

theorem evalLingoLit_quoted (s : Str) (h : ∀ x ∈ s, x ≠ '"') : evalLingoLit ('"' :: (s ++ ['"'])) = some s := by
  unfold evalLingoLit
  rw [lrun_cons]
  have h0 : lstep none linit '"' = ⟨.S, []⟩ := by simp [lstep, linit]
  rw [h0, lrun_append, lrun_none_body s [] h]
  simp [lrun, lstep, lfinal]

theorem predefined_lookup_plain (s : Str) (h : ∀ c ∈ s, plainChar c = true) (hne : s ≠ []) :
    predefinedConstants.lookup ('"' :: (s ++ ['"'])) = none := by
  rw [predefinedConstants_value]
  have hq := plain_ne_quote s h
  have hb := plain_ne_backslash s h
  cases s with
  | nil => exact absurd rfl hne
  | cons c cs =>
    have h1 : c ≠ '"' := hq c (by simp)
    have h2 : c ≠ '\\' := hb c (by simp)
    have e1 : (c == '"') = false := by simpa using h1
    have e2 : (c == '\\') = false := by simpa using h2
    simp [List.lookup, S, e1, e2]

end Drx.Lscr
