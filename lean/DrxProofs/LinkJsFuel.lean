/-
  The reader of the JavaScript subset inverts the reference printer with a TIGHT fuel bound: `jW e + 7 ≤ 10 * (prJ e).length`.
  (agent-lspec's `js_read_print_expr` has the additive bound `jfuel e + 10`, which exceeds the fuel `readJsExpr` / `jStmt` pass,
  `10 * tokens + …`, on large trees; the structure of the proof is theirs, the measure is new.)
-/
import DrxProofs.SpecJs
namespace Drx.Spec
set_option linter.unusedSimpArgs false
set_option linter.unusedVariables false

mutual
/-- fuel that suffices to read `prJ e` at the unary level -/
def jW : JE → Nat
  | .num _ _ => 2
  | .un _ a => jW a + 10
  | .mem o _ => jC o + 2
  | .idx o i => jC o + jW i + 9
  | .call g as => jC g + jWL as + 2
  | .bin _ a b => jW a + jW b + 18
  | _ => 3
/-- extra fuel to read `e` in receiver position (parenthesised when numeric / prefix) and go on with a postfix chain -/
def jC : JE → Nat
  | .num _ _ => 11
  | .un _ a => jW a + 19
  | .mem o _ => jC o + 1
  | .idx o i => jC o + jW i + 8
  | .call g as => jC g + jWL as + 1
  | .bin _ a b => jW a + jW b + 17
  | _ => 2
def jWL : List JE → Nat
  | [] => 1
  | [e] => jW e + 8
  | e :: e2 :: es => jW e + 8 + jWL (e2 :: es)
end

theorem jW_eq_jC (e : JE) (h : e.needsParen = false) : jW e = jC e + 1 := by
  cases e <;> simp_all [jW, jC, JE.needsParen]

mutual
theorem js_cont_t : ∀ (e : JE), JFrag e → ∀ (R : List JTok) (x : JE × List JTok) (B : Nat),
    (∀ F, B ≤ F → jPostfix F e R = some x) → ∀ F, B + jC e ≤ F → jUnary F (wrapRecv e (prJ e) ++ R) = some x
  | .num d s, _, R, x, B, hp, F, hF => by
    simp only [jC] at hF
    obtain ⟨f, rfl⟩ : ∃ f, F = f + 4 := ⟨F - 4, by omega⟩
    have hl : jLevel (f + 2) 1 ([JTok.num d s] ++ .p .rp :: R) = some (.num d s, .p .rp :: R) :=
      jclimb _ _ (.num d s) 2 (fun F' hF' => by
        obtain ⟨f', rfl⟩ : ∃ f', F' = f' + 2 := ⟨F' - 2, by omega⟩
        exact jU_num f' d s _ _ (jPostfix_stop f' _ _ (nopost_closer _ _ (Or.inl rfl)))) 6 1 (by omega) (by omega)
        (jfollow_closer _ _ _ (Or.inl rfl)) (f + 2) (by omega)
    have := jU_paren (f + 2) _ R (.num d s) x hl (hp (f + 3) (by omega))
    simpa [wrapRecv, JE.needsParen, prJ] using this
  | .lstr s, _, R, x, B, hp, F, hF => by
    simp only [jC] at hF
    obtain ⟨f, rfl⟩ : ∃ f, F = f + 2 := ⟨F - 2, by omega⟩
    simpa [wrapRecv, JE.needsParen, prJ] using jU_lstr f s R x (hp (f + 1) (by omega))
  | .dstr s, _, R, x, B, hp, F, hF => by
    simp only [jC] at hF
    obtain ⟨f, rfl⟩ : ∃ f, F = f + 2 := ⟨F - 2, by omega⟩
    simpa [wrapRecv, JE.needsParen, prJ] using jU_dstr f s R x (hp (f + 1) (by omega))
  | .sstr s, _, R, x, B, hp, F, hF => by
    simp only [jC] at hF
    obtain ⟨f, rfl⟩ : ∃ f, F = f + 2 := ⟨F - 2, by omega⟩
    simpa [wrapRecv, JE.needsParen, prJ] using jU_sstr f s R x (hp (f + 1) (by omega))
  | .id n, h, R, x, B, hp, F, hF => by
    simp only [jC] at hF
    obtain ⟨hk, hn⟩ : isJsKeyword n = false ∧ n ≠ "new".toList := h
    obtain ⟨f, rfl⟩ : ∃ f, F = f + 2 := ⟨F - 2, by omega⟩
    simpa [wrapRecv, JE.needsParen, prJ] using jU_id f n R x hk hn (hp (f + 1) (by omega))
  | .mem o n, h, R, x, B, hp, F, hF => by
    simp only [jC] at hF
    have ho : JFrag o := h
    have := js_cont_t o ho (.p .dot :: .id n :: R) x (B + 1)
      (fun F' hF' => by
        obtain ⟨f', rfl⟩ : ∃ f', F' = f' + 1 := ⟨F' - 1, by omega⟩
        exact jP_mem f' o n R x (hp f' (by omega))) F (by omega)
    simpa [wrapRecv, JE.needsParen, prJ] using this
  | .idx o i, h, R, x, B, hp, F, hF => by
    simp only [jC] at hF
    obtain ⟨ho, hi⟩ : JFrag o ∧ JFrag i := h
    have hI : ∀ F', jW i + 7 ≤ F' → jLevel F' 1 (prJ i ++ .p .rb :: R) = some (i, .p .rb :: R) := fun F' hF' =>
      jclimb _ _ i (jW i) (fun F'' hF'' => js_whole_t i hi _ (nopost_closer _ _ (Or.inr (Or.inr (Or.inl rfl)))) F'' hF'') 6 1 (by omega) (by omega)
        (jfollow_closer _ _ _ (Or.inr (Or.inr (Or.inl rfl)))) F' (by omega)
    have := js_cont_t o ho (.p .lb :: (prJ i ++ .p .rb :: R)) x (B + jW i + 8)
      (fun F' hF' => by
        obtain ⟨f', rfl⟩ : ∃ f', F' = f' + 1 := ⟨F' - 1, by omega⟩
        exact jP_idx f' o i _ R x (hI f' (by omega)) (hp f' (by omega))) F (by omega)
    simpa [wrapRecv, JE.needsParen, prJ] using this
  | .call g as, h, R, x, B, hp, F, hF => by
    simp only [jC] at hF
    obtain ⟨hg, has⟩ : JFrag g ∧ JFragL as := h
    have hA : ∀ F', jWL as ≤ F' → jArgs F' (prJArgs as ++ .p .rp :: R) = some (as, R) := fun F' hF' => js_args_t as has R F' hF'
    have := js_cont_t g hg (.p .lp :: (prJArgs as ++ .p .rp :: R)) x (B + jWL as + 1)
      (fun F' hF' => by
        obtain ⟨f', rfl⟩ : ∃ f', F' = f' + 1 := ⟨F' - 1, by omega⟩
        exact jP_call f' g as _ R x (hA f' (by omega)) (hp f' (by omega))) F (by omega)
    simpa [wrapRecv, JE.needsParen, prJ] using this
  | .un op a, h, R, x, B, hp, F, hF => by
    simp only [jC] at hF
    obtain ⟨hop, ha⟩ : (op = "-".toList ∨ op = "!".toList) ∧ JFrag a := h
    obtain ⟨f, rfl⟩ : ∃ f, F = f + 2 := ⟨F - 2, by omega⟩
    have hA : ∀ F', jW a + 7 ≤ F' → jLevel F' 1 (prJ a ++ .p .rp :: (.p .rp :: R)) = some (a, .p .rp :: (.p .rp :: R)) := fun F' hF' =>
      jclimb _ _ a (jW a) (fun F'' hF'' => js_whole_t a ha _ (nopost_closer _ _ (Or.inl rfl)) F'' hF'') 6 1 (by omega) (by omega)
        (jfollow_closer _ _ _ (Or.inl rfl)) F' (by omega)
    have hU := jread_un op hop a (prJ a) (.p .rp :: R) (jW a + 7) hA (nopost_closer _ _ (Or.inl rfl))
    have hl : jLevel f 1 ((jsUnTok op).getD (.p .bang) :: .p .lp :: (prJ a ++ .p .rp :: (.p .rp :: R))) = some (.un op a, .p .rp :: R) :=
      jclimb _ _ (.un op a) (jW a + 10) hU 6 1 (by omega) (by omega) (jfollow_closer _ _ _ (Or.inl rfl)) f (by omega)
    have := jU_paren f _ R (.un op a) x hl (hp (f + 1) (by omega))
    simpa [wrapRecv, JE.needsParen, prJ] using this
  | .bin op a b, h, R, x, B, hp, F, hF => by
    simp only [jC] at hF
    obtain ⟨hop, ha, hb⟩ : (jsOpInfo op).isSome = true ∧ JFrag a ∧ JFrag b := h
    obtain ⟨y, hy⟩ := Option.isSome_iff_exists.mp hop
    obtain ⟨hy1, hy2⟩ := jsOpInfo_spec op y hy
    obtain ⟨f, rfl⟩ : ∃ f, F = f + 2 := ⟨F - 2, by omega⟩
    have hlv := jsOps_level y hy1
    have hA : ∀ F', jW a + 7 ≤ F' →
        jLevel F' (y.2.2 + 1) (prJ a ++ y.2.1 :: (prJ b ++ .p .rp :: R)) = some (a, y.2.1 :: (prJ b ++ .p .rp :: R)) := fun F' hF' =>
      jclimb _ _ a (jW a) (fun F'' hF'' => js_whole_t a ha _ (nopost_optok y hy1 _) F'' hF'') (6 - y.2.2) (y.2.2 + 1) (by omega) (by omega)
        (jfollow_optok y hy1 _) F' (by omega)
    have hB : ∀ F', jW b + 7 ≤ F' → jLevel F' (y.2.2 + 1) (prJ b ++ .p .rp :: R) = some (b, .p .rp :: R) := fun F' hF' =>
      jclimb _ _ b (jW b) (fun F'' hF'' => js_whole_t b hb _ (nopost_closer _ _ (Or.inl rfl)) F'' hF'') (6 - y.2.2) (y.2.2 + 1) (by omega) (by omega)
        (jfollow_closer _ _ _ (Or.inl rfl)) F' (by omega)
    have hin := jread_infix y hy1 a b (prJ a) (prJ b) (.p .rp :: R) (jW a + jW b + 7)
      (fun F' hF' => hA F' (by omega)) (fun F' hF' => hB F' (by omega)) (jfollow_closer _ _ _ (Or.inl rfl))
      (y.2.2 - 1) 1 (by omega) (Nat.le_refl 1) f (by omega)
    have htok : (jsOpTok op).getD (.p .plus) = y.2.1 := by
      have := jsOps_tok y hy1
      rw [hy2] at this; simp [this]
    rw [hy2] at hin
    have := jU_paren f _ R (.bin op a b) x hin (hp (f + 1) (by omega))
    simpa [wrapRecv, JE.needsParen, prJ, htok] using this
  | .newLS _, h, _, _, _, _, _, _ => absurd h (by simp [JFrag])
  | .spread _, h, _, _, _, _, _, _ => absurd h (by simp [JFrag])
theorem js_whole_t : ∀ (e : JE), JFrag e → ∀ (R : List JTok), NoPost R → ∀ F, jW e ≤ F → jUnary F (prJ e ++ R) = some (e, R)
  | .num d s, _, R, hR, F, hF => by
    simp only [jW] at hF
    obtain ⟨f, rfl⟩ : ∃ f, F = f + 2 := ⟨F - 2, by omega⟩
    simpa [prJ] using jU_num f d s R _ (jPostfix_stop f _ R hR)
  | .un op a, h, R, hR, F, hF => by
    simp only [jW] at hF
    obtain ⟨hop, ha⟩ : (op = "-".toList ∨ op = "!".toList) ∧ JFrag a := h
    have hA : ∀ F', jW a + 7 ≤ F' → jLevel F' 1 (prJ a ++ .p .rp :: R) = some (a, .p .rp :: R) := fun F' hF' =>
      jclimb _ _ a (jW a) (fun F'' hF'' => js_whole_t a ha _ (nopost_closer _ _ (Or.inl rfl)) F'' hF'') 6 1 (by omega) (by omega)
        (jfollow_closer _ _ _ (Or.inl rfl)) F' (by omega)
    have := jread_un op hop a (prJ a) R (jW a + 7) hA hR F (by omega)
    simpa [prJ] using this
  | .lstr s, h, R, hR, F, hF => by
    have := js_cont_t (.lstr s) h R (.lstr s, R) 1 (fun F' hF' => by
      obtain ⟨f', rfl⟩ : ∃ f', F' = f' + 1 := ⟨F' - 1, by omega⟩
      exact jPostfix_stop f' _ R hR) F (by simp only [jW, jC] at hF ⊢; omega)
    simpa [wrapRecv, JE.needsParen] using this
  | .dstr s, h, R, hR, F, hF => by
    have := js_cont_t (.dstr s) h R (.dstr s, R) 1 (fun F' hF' => by
      obtain ⟨f', rfl⟩ : ∃ f', F' = f' + 1 := ⟨F' - 1, by omega⟩
      exact jPostfix_stop f' _ R hR) F (by simp only [jW, jC] at hF ⊢; omega)
    simpa [wrapRecv, JE.needsParen] using this
  | .sstr s, h, R, hR, F, hF => by
    have := js_cont_t (.sstr s) h R (.sstr s, R) 1 (fun F' hF' => by
      obtain ⟨f', rfl⟩ : ∃ f', F' = f' + 1 := ⟨F' - 1, by omega⟩
      exact jPostfix_stop f' _ R hR) F (by simp only [jW, jC] at hF ⊢; omega)
    simpa [wrapRecv, JE.needsParen] using this
  | .id n, h, R, hR, F, hF => by
    have := js_cont_t (.id n) h R (.id n, R) 1 (fun F' hF' => by
      obtain ⟨f', rfl⟩ : ∃ f', F' = f' + 1 := ⟨F' - 1, by omega⟩
      exact jPostfix_stop f' _ R hR) F (by simp only [jW, jC] at hF ⊢; omega)
    simpa [wrapRecv, JE.needsParen] using this
  | .mem o n, h, R, hR, F, hF => by
    have := js_cont_t (.mem o n) h R (.mem o n, R) 1 (fun F' hF' => by
      obtain ⟨f', rfl⟩ : ∃ f', F' = f' + 1 := ⟨F' - 1, by omega⟩
      exact jPostfix_stop f' _ R hR) F (by simp only [jW, jC] at hF ⊢; omega)
    simpa [wrapRecv, JE.needsParen] using this
  | .idx o i, h, R, hR, F, hF => by
    have := js_cont_t (.idx o i) h R (.idx o i, R) 1 (fun F' hF' => by
      obtain ⟨f', rfl⟩ : ∃ f', F' = f' + 1 := ⟨F' - 1, by omega⟩
      exact jPostfix_stop f' _ R hR) F (by simp only [jW, jC] at hF ⊢; omega)
    simpa [wrapRecv, JE.needsParen] using this
  | .call g as, h, R, hR, F, hF => by
    have := js_cont_t (.call g as) h R (.call g as, R) 1 (fun F' hF' => by
      obtain ⟨f', rfl⟩ : ∃ f', F' = f' + 1 := ⟨F' - 1, by omega⟩
      exact jPostfix_stop f' _ R hR) F (by simp only [jW, jC] at hF ⊢; omega)
    simpa [wrapRecv, JE.needsParen] using this
  | .bin op a b, h, R, hR, F, hF => by
    have := js_cont_t (.bin op a b) h R (.bin op a b, R) 1 (fun F' hF' => by
      obtain ⟨f', rfl⟩ : ∃ f', F' = f' + 1 := ⟨F' - 1, by omega⟩
      exact jPostfix_stop f' _ R hR) F (by simp only [jW, jC] at hF ⊢; omega)
    simpa [wrapRecv, JE.needsParen] using this
  | .newLS _, h, _, _, _, _ => absurd h (by simp [JFrag])
  | .spread _, h, _, _, _, _ => absurd h (by simp [JFrag])
theorem js_args_t : ∀ (es : List JE), JFragL es → ∀ (R : List JTok) (F : Nat), jWL es ≤ F →
    jArgs F (prJArgs es ++ .p .rp :: R) = some (es, R)
  | [], _, R, F, hF => by
    simp only [jWL] at hF
    obtain ⟨f, rfl⟩ : ∃ f, F = f + 1 := ⟨F - 1, by omega⟩
    simp [prJArgs, jArgs]
  | [e], h, R, F, hF => by
    simp only [jWL] at hF
    obtain ⟨he, _⟩ : JFrag e ∧ JFragL [] := h
    obtain ⟨f, rfl⟩ : ∃ f, F = f + 1 := ⟨F - 1, by omega⟩
    have hE : jLevel f 1 (prJ e ++ .p .rp :: R) = some (e, .p .rp :: R) :=
      jclimb _ _ e (jW e) (fun F'' hF'' => js_whole_t e he _ (nopost_closer _ _ (Or.inl rfl)) F'' hF'') 6 1 (by omega) (by omega)
        (jfollow_closer _ _ _ (Or.inl rfl)) f (by omega)
    have hh := prJ_head e he
    cases hpe : prJ e with
    | nil => rw [hpe] at hh; exact absurd hh (by simp [JHeadOk])
    | cons t ts =>
      rw [hpe] at hh hE
      simpa [prJArgs, hpe] using jArgs_one f t _ R e hh (by simpa using hE)
  | e :: e2 :: es, h, R, F, hF => by
    simp only [jWL] at hF
    obtain ⟨he, hes⟩ : JFrag e ∧ JFragL (e2 :: es) := h
    obtain ⟨f, rfl⟩ : ∃ f, F = f + 1 := ⟨F - 1, by omega⟩
    have hE : jLevel f 1 (prJ e ++ .p .comma :: (prJArgs (e2 :: es) ++ .p .rp :: R)) = some (e, .p .comma :: (prJArgs (e2 :: es) ++ .p .rp :: R)) :=
      jclimb _ _ e (jW e) (fun F'' hF'' => js_whole_t e he _ (nopost_closer _ _ (Or.inr (Or.inl rfl))) F'' hF'') 6 1 (by omega) (by omega)
        (jfollow_closer _ _ _ (Or.inr (Or.inl rfl))) f (by omega)
    have hRest := js_args_t (e2 :: es) hes R f (by omega)
    have hh := prJ_head e he
    cases hpe : prJ e with
    | nil => rw [hpe] at hh; exact absurd hh (by simp [JHeadOk])
    | cons t ts =>
      rw [hpe] at hh hE
      rw [prJArgs_cons2, hpe]
      simpa using jArgs_more f t _ _ R e e2 es hh (by simpa using hE) hRest
end

/-- reading at any grouping level -/
theorem js_read_print_expr_t (e : JE) (h : JFrag e) (lvl : Nat) (h1 : 1 ≤ lvl) (h7 : lvl ≤ 7)
    (R : List JTok) (hf : JFollow lvl R) (hp : NoPost R) (F : Nat) (hF : jW e + 7 ≤ F) :
    jLevel F lvl (prJ e ++ R) = some (e, R) :=
  jclimb _ _ e (jW e) (fun F' hF' => js_whole_t e h R hp F' hF') (7 - lvl) lvl (by omega) h1 hf F (by omega)

/-! ### the bound fits the fuel the readers pass: ten per token -/

mutual
theorem jW_le : ∀ (e : JE), JFrag e → jW e + 7 ≤ 10 * (prJ e).length
  | .num _ _, _ => by simp [jW, prJ]
  | .lstr _, _ => by simp [jW, prJ]
  | .dstr _, _ => by simp [jW, prJ]
  | .sstr _, _ => by simp [jW, prJ]
  | .id _, _ => by simp [jW, prJ]
  | .un op a, h => by
    have := jW_le a h.2
    simp only [jW, prJ, List.length_cons, List.length_append, List.length_nil]; omega
  | .mem o n, h => by
    have ho : JFrag o := h
    have := jC_le o ho
    simp only [jW, prJ, List.length_cons, List.length_append, List.length_nil]; omega
  | .idx o i, h => by
    obtain ⟨ho, hi⟩ : JFrag o ∧ JFrag i := h
    have h1 := jC_le o ho
    have h2 := jW_le i hi
    simp only [jW, prJ, List.length_cons, List.length_append, List.length_nil]; omega
  | .call g as, h => by
    obtain ⟨hg, has⟩ : JFrag g ∧ JFragL as := h
    have h1 := jC_le g hg
    have h2 := jWL_le as has
    simp only [jW, prJ, List.length_cons, List.length_append, List.length_nil]; omega
  | .bin op a b, h => by
    obtain ⟨_, ha, hb⟩ : (jsOpInfo op).isSome = true ∧ JFrag a ∧ JFrag b := h
    have h1 := jW_le a ha
    have h2 := jW_le b hb
    simp only [jW, prJ, List.length_cons, List.length_append, List.length_nil]; omega
  | .newLS _, h => absurd h (by simp [JFrag])
  | .spread _, h => absurd h (by simp [JFrag])
theorem jC_le : ∀ (e : JE), JFrag e → jC e + 8 ≤ 10 * (wrapRecv e (prJ e)).length
  | .num _ _, _ => by simp [jC, prJ, wrapRecv, JE.needsParen]
  | .lstr _, _ => by simp [jC, prJ, wrapRecv, JE.needsParen]
  | .dstr _, _ => by simp [jC, prJ, wrapRecv, JE.needsParen]
  | .sstr _, _ => by simp [jC, prJ, wrapRecv, JE.needsParen]
  | .id _, _ => by simp [jC, prJ, wrapRecv, JE.needsParen]
  | .un op a, h => by
    have := jW_le a h.2
    simp only [jC, prJ, wrapRecv, JE.needsParen, if_true, List.length_cons, List.length_append, List.length_nil]; omega
  | .mem o n, h => by
    have ho : JFrag o := h
    have := jC_le o ho
    simp only [jC, prJ, wrapRecv_of_not (.mem o n) _ rfl, List.length_cons, List.length_append, List.length_nil]; omega
  | .idx o i, h => by
    obtain ⟨ho, hi⟩ : JFrag o ∧ JFrag i := h
    have h1 := jC_le o ho
    have h2 := jW_le i hi
    simp only [jC, prJ, wrapRecv_of_not (.idx o i) _ rfl, List.length_cons, List.length_append, List.length_nil]; omega
  | .call g as, h => by
    obtain ⟨hg, has⟩ : JFrag g ∧ JFragL as := h
    have h1 := jC_le g hg
    have h2 := jWL_le as has
    simp only [jC, prJ, wrapRecv_of_not (.call g as) _ rfl, List.length_cons, List.length_append, List.length_nil]; omega
  | .bin op a b, h => by
    obtain ⟨_, ha, hb⟩ : (jsOpInfo op).isSome = true ∧ JFrag a ∧ JFrag b := h
    have h1 := jW_le a ha
    have h2 := jW_le b hb
    simp only [jC, prJ, wrapRecv_of_not (.bin op a b) _ rfl, List.length_cons, List.length_append, List.length_nil]; omega
  | .newLS _, h => absurd h (by simp [JFrag])
  | .spread _, h => absurd h (by simp [JFrag])
theorem jWL_le : ∀ (es : List JE), JFragL es → jWL es ≤ 10 * (prJArgs es).length + 1
  | [], _ => by simp [jWL, prJArgs]
  | [e], h => by
    have := jW_le e h.1
    simp only [jWL, prJArgs]; omega
  | e :: e2 :: es, h => by
    obtain ⟨he, hes⟩ : JFrag e ∧ JFragL (e2 :: es) := h
    have h1 := jW_le e he
    have h2 := jWL_le (e2 :: es) hes
    simp only [jWL, prJArgs_cons2, List.length_cons, List.length_append]; omega
end

/-- the whole-expression reader (`readJsExpr` passes `10 * tokens + 16`) -/
theorem jExpr_prJ (e : JE) (h : JFrag e) (F : Nat) (hF : 10 * (prJ e).length ≤ F) : jExpr F (prJ e) = some (e, []) := by
  have := js_read_print_expr_t e h 1 (Nat.le_refl 1) (by omega) [] trivial trivial F (by have := jW_le e h; omega)
  simpa [jExpr] using this

end Drx.Spec
