/-
  C03 link: the three control-flow instructions of the model's stack machine (`Parse.process`) are exactly the events of
  `Drx.LinkFlow.Ev`: `93 hi lo` appends `jump index (index + hi*256+lo)`, `95 hi lo` pops the condition and appends
  `jz index cond (index + hi*256+lo)`, `54 k` replaces the statement list by `jumpBack stmts index k`.
-/
import Drx.Lscr.Parse
import DrxProofs.LinkFlowEv
namespace Drx.LinkFlow
open Drx Drx.Lscr Drx.Gen

theorem process_forwardJump (ctx : Ctx) (info : Opcodes.OpInfo) (p1 p2 : Nat) (index : Int) (st : PState)
    (h : info.impl = "FowardJumpOpcode") :
    process ctx info p1 p2 index st = .ok (st.addStmt index (.jump index (index + ((p1 * 256 + p2 : Nat) : Int)))) := by
  simp [process, process2, h, readsP2]

theorem process_conditionalJump (ctx : Ctx) (info : Opcodes.OpInfo) (p1 p2 : Nat) (index : Int) (st : PState) (c : Node)
    (rest : List Node) (h : info.impl = "ConditionalJumpOpcode") (hs : st.stack = c :: rest) :
    process ctx info p1 p2 index st =
      .ok (({ st with stack := rest } : PState).addStmt index (.jz index c (index + ((p1 * 256 + p2 : Nat) : Int)))) := by
  simp [process, process2, h, readsP2, PState.pop, hs, bind, Except.bind, pure, Except.pure]

theorem process_backJump (ctx : Ctx) (info : Opcodes.OpInfo) (p1 p2 : Nat) (index : Int) (st : PState) (s' : List Node)
    (h : info.impl = "JumpOpcode") (hj : jumpBack st.stmts index p1 = .ok s') :
    process ctx info p1 p2 index st = .ok { st with stmts := s' } := by
  simp [process, process1, h, readsP2, readsP1, hj, bind, Except.bind, pure, Except.pure]

/-- the generated opcode table maps the three opcodes to these classes -/
theorem opcode_classes :
    (Opcodes.opcodes.lookup 0x93).map (·.impl) = some "FowardJumpOpcode" ∧
    (Opcodes.opcodes.lookup 0x95).map (·.impl) = some "ConditionalJumpOpcode" ∧
    (Opcodes.opcodes.lookup 0x54).map (·.impl) = some "JumpOpcode" := by decide

/-! ### the whole pipeline of one handler -/

/-- events → statement list → `condition_detect` → `loop_detect` -/
theorem decompileFlow_lower (ss : List Src) (o : Int) (h : Src.oks none o ss = true) :
    decompileFlow (rawEv o (lower ss)) = .ok (tgtL o ss) := by
  unfold decompileFlow
  rw [runEv_rawEv _ o (wf_lower ss none o h)]
  exact reconstruct ss o h

/-- the model's `parse_opcodes` (opcode loop, then `condition_detect`, then `loop_detect`): whenever the opcode loop leaves the
    statement list of a compiled skeleton of the class, the handler's statements are the source nesting -/
theorem parseOpcodes_reconstructs (ctx : Ctx) (d : Bytes) (r : FrbRec) (regs regs' : Regs) (bpc : Nat) (tell : Bool) (st' : PState)
    (ss : List Src) (o : Int)
    (h1 : opcodeLoop ctx d r.bcOff r.bcLen r.bcOff regs { bpc := bpc, tell := tell, gvars := r.globals } = .ok (regs', st'))
    (h2 : st'.stmts = emit false o (lower ss)) (h : Src.oks none o ss = true) :
    parseOpcodes ctx d r regs bpc tell = .ok (regs', { st' with stmts := tgtL o ss }) := by
  have hr := reconstruct ss o h
  unfold parseOpcodes
  simp only [h1, bind, Except.bind, h2] at hr ⊢
  cases hc : condDetect (emit false o (lower ss)) with
  | error e => rw [hc] at hr; cases hr
  | ok s1 =>
    rw [hc] at hr
    simp only at hr ⊢
    rw [hr]
    rfl

/-! ### every statement once and in order; no raw jump left -/

theorem codeStmts_simple (c : Node) (h : simpleCode c = true) : codeStmts c = [c] := by
  obtain ⟨_, _, h1, h2, _⟩ := simpleCode_spec h
  cases c <;> first | (exact absurd rfl h1) | (exact absurd rfl h2) | rfl

mutual
theorem codes_tgtL1 : (x : Src) → ∀ (prev : Option Node) (o : Int), x.ok prev o = true → stmtCodesL (tgtL1 o x) = x.codes1
  | .simple s, prev, o, h => by
    obtain ⟨_, h2⟩ := ok_simple.1 h
    simp [tgtL1, stmtCodesL, stmtCodes, codeStmts_simple _ h2, Src.codes1]
  | .ifThen csz cond t e, prev, o, h => by
    obtain ⟨ht, he⟩ := ok_if.1 h
    simp [tgtL1, stmtCodesL, stmtCodes, codeStmts, Src.codes1, codes_tgtL t _ _ ht, codes_tgtL e _ _ he]
  | .loop .while_ csz cond body, prev, o, h => by
    obtain ⟨hb, _, _⟩ := ok_while.1 h
    simp [tgtL1, stmtCodesL, stmtCodes, codeStmts, Src.codes1, codes_tgtL body _ _ hb]
  | .loop (.with_ pre incr) csz cond body, prev, o, h => by
    obtain ⟨_, _, _, _, hb, hsome, _⟩ := ok_with.1 h
    obtain ⟨⟨pl, pr, vn, sg⟩, hparts⟩ := Option.isSome_iff_exists.1 hsome
    simp [tgtL1, hparts, stmtCodesL, stmtCodes, codeStmts, Src.codes1, codes_tgtL body _ _ hb]
  | .loop (.in_ presz bp incrsz postsz) csz cond body, prev, o, h => by
    obtain ⟨_, _, hb, hsome, _⟩ := ok_in.1 h
    obtain ⟨⟨start, vn, fl⟩, hparts⟩ := Option.isSome_iff_exists.1 hsome
    simp [tgtL1, hparts, stmtCodesL, stmtCodes, codeStmts, Src.codes1, codes_tgtL body _ _ hb]
theorem codes_tgtL : (ss : List Src) → ∀ (prev : Option Node) (o : Int), Src.oks prev o ss = true →
    stmtCodesL (tgtL o ss) = Src.codes ss
  | [], _, _, _ => by simp [tgtL, stmtCodesL, Src.codes]
  | x :: xs, prev, o, h => by
    obtain ⟨hx, hxs⟩ := oks_cons.1 h
    have stmtCodesL_append : ∀ a b : List Node, stmtCodesL (a ++ b) = stmtCodesL a ++ stmtCodesL b := by
      intro a b
      induction a with
      | nil => simp [stmtCodesL]
      | cons y a ih => simp [stmtCodesL, ih]
    rw [tgtL_cons, stmtCodesL_append, codes_tgtL1 x prev o hx, codes_tgtL xs _ _ hxs]
    simp [Src.codes]
end

mutual
theorem codes1_simple : (x : Src) → ∀ (prev : Option Node) (o : Int), x.ok prev o = true → ∀ c ∈ x.codes1, simpleCode c = true
  | .simple s, prev, o, h, c, hc => by
    obtain ⟨_, h2⟩ := ok_simple.1 h
    simp [Src.codes1] at hc; subst hc; exact h2
  | .ifThen csz cond t e, prev, o, h, c, hc => by
    obtain ⟨ht, he⟩ := ok_if.1 h
    simp only [Src.codes1, List.mem_append] at hc
    rcases hc with hc | hc
    · exact codes_simple t _ _ ht c hc
    · exact codes_simple e _ _ he c hc
  | .loop .while_ csz cond body, prev, o, h, c, hc => by
    obtain ⟨hb, _, _⟩ := ok_while.1 h
    exact codes_simple body _ _ hb c (by simpa [Src.codes1] using hc)
  | .loop (.with_ pre incr) csz cond body, prev, o, h, c, hc => by
    obtain ⟨_, _, _, _, hb, _, _⟩ := ok_with.1 h
    exact codes_simple body _ _ hb c (by simpa [Src.codes1] using hc)
  | .loop (.in_ presz bp incrsz postsz) csz cond body, prev, o, h, c, hc => by
    obtain ⟨_, _, hb, _, _⟩ := ok_in.1 h
    exact codes_simple body _ _ hb c (by simpa [Src.codes1] using hc)
theorem codes_simple : (ss : List Src) → ∀ (prev : Option Node) (o : Int), Src.oks prev o ss = true →
    ∀ c ∈ Src.codes ss, simpleCode c = true
  | [], _, _, _, c, hc => by simp [Src.codes] at hc
  | x :: xs, prev, o, h, c, hc => by
    obtain ⟨hx, hxs⟩ := oks_cons.1 h
    simp only [Src.codes, List.mem_append] at hc
    rcases hc with hc | hc
    · exact codes1_simple x prev o hx c hc
    · exact codes_simple xs _ _ hxs c hc
end

/-! ### the one coincidence of the compile scheme -/

theorem lower_append (a b : List Src) : lower (a ++ b) = lower a ++ lower b := by
  induction a with
  | nil => simp [lower]
  | cons x a ih => simp [lower, ih]

/-- `repeat with v = a to b … end repeat` and `set v = a / repeat while v <= b … set v = 1 + v / end repeat` lower to the SAME
    skeleton (same bytes): the decompiler cannot tell them apart, it prints the first -/
theorem with_lowers_as_while (pre incr : Smp) (csz : Nat) (cond : Node) (body : List Src) :
    lower1 (.loop (.with_ pre incr) csz cond body) =
      lower1 (.simple pre) ++ lower1 (.loop .while_ csz cond (body ++ [.simple incr])) := by
  simp [lower1, lower_append, lower]

end Drx.LinkFlow
