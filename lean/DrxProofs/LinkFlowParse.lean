/-
  C03 link: the three control-flow instructions of the model's stack machine (`Parse.process`) are exactly the events of
  `Drx.LinkFlow.Ev`: `93 hi lo` appends `jump index (index + hi*256+lo)`, `95 hi lo` pops the condition and appends
  `jz index cond (index + hi*256+lo)`, `54 k` replaces the statement list by `jumpBack stmts index k`.
-/
import Drx.Lscr.Parse
import DrxProofs.LinkFlowEv
namespace Drx.LinkFlow
open Drx Drx.Lscr Drx.Gen

theorem process_forwardJump (ctx : Ctx) (info : Opcodes.OpInfo) (p1 p2 : Nat) (index : Int) (st : PState)
    (h : info.impl = "FowardJumpOpcode") :
    process ctx info p1 p2 index st = .ok (st.addStmt index (.jump index (index + ((p1 * 256 + p2 : Nat) : Int)))) := by
  simp [process, process2, h, readsP2]

theorem process_conditionalJump (ctx : Ctx) (info : Opcodes.OpInfo) (p1 p2 : Nat) (index : Int) (st : PState) (c : Node)
    (rest : List Node) (h : info.impl = "ConditionalJumpOpcode") (hs : st.stack = c :: rest) :
    process ctx info p1 p2 index st =
      .ok (({ st with stack := rest } : PState).addStmt index (.jz index c (index + ((p1 * 256 + p2 : Nat) : Int)))) := by
  simp [process, process2, h, readsP2, PState.pop, hs, bind, Except.bind, pure, Except.pure]

theorem process_backJump (ctx : Ctx) (info : Opcodes.OpInfo) (p1 p2 : Nat) (index : Int) (st : PState) (s' : List Node)
    (h : info.impl = "JumpOpcode") (hj : jumpBack st.stmts index p1 = .ok s') :
    process ctx info p1 p2 index st = .ok { st with stmts := s' } := by
  simp [process, process1, h, readsP2, readsP1, hj, bind, Except.bind, pure, Except.pure]

/-- the generated opcode table maps the three opcodes to these classes -/
theorem opcode_classes :
    (Opcodes.opcodes.lookup 0x93).map (·.impl) = some "FowardJumpOpcode" ∧
    (Opcodes.opcodes.lookup 0x95).map (·.impl) = some "ConditionalJumpOpcode" ∧
    (Opcodes.opcodes.lookup 0x54).map (·.impl) = some "JumpOpcode" := by decide

end Drx.LinkFlow
