/-
  Bounds for the counting twins of the decompiler's loops (Drx/Lscr/Steps.lean), part 1: container loops and the opcode loop.
  Everything is bounded by the DATA LENGTH (or the declared code length), never by a declared count: a round that completes
  has read input at a position that moves forward.
-/
import Drx.Lscr.Steps
namespace Drx.Lscr.Steps
open Drx Drx.Gen Drx.Lscr

/-! ### reading at integer positions -/

theorem pySlice_length' {α} (d : List α) (a b : Int) :
    (pySlice d a b).length =
      min ((if b < 0 then max (b + d.length) 0 else min b d.length).toNat - (if a < 0 then max (a + d.length) 0 else min a d.length).toNat)
          (d.length - (if a < 0 then max (a + d.length) 0 else min a d.length).toNat) := by
  simp [pySlice, List.length_take, List.length_drop]

/-- a k-byte field read at an integer position succeeds only inside `-len ≤ i` and `i + k ≤ len` -/
theorem pySlice_field' {α} {d : List α} {i : Int} {k : Nat} (hk : 0 < k) (h : (pySlice d i (i + k)).length = k) :
    -(d.length : Int) ≤ i ∧ i + k ≤ d.length := by
  rw [pySlice_length'] at h
  by_cases h1 : i < 0 <;> by_cases h2 : i + (k : Int) < 0 <;> simp only [h1, h2, if_true, if_false] at h <;> omega

theorem getSI_ok_range {k : Nat} {d : Bytes} {i : Int} {v : Int} (hk : 0 < k) (h : getSI k d i = .ok v) :
    -(d.length : Int) ≤ i ∧ i + k ≤ d.length := by
  unfold getSI unpackS at h
  split at h
  · rename_i hl; exact pySlice_field' hk hl
  · cases h

theorem byteAtI_ok_range {d : Bytes} {i : Int} {b : Nat} (h : byteAtI d i = .ok b) : -(d.length : Int) ≤ i ∧ i < d.length := by
  unfold byteAtI pyGet at h
  by_cases hi : i < 0
  · simp only [hi, if_true] at h
    by_cases hj : i + (d.length : Int) < 0
    · simp [hj, Except.map] at h
    · simp only [hj, if_false] at h
      constructor
      · omega
      · omega
  · simp only [hi, if_false] at h
    constructor
    · omega
    · cases hg : d[i.toNat]? with
      | none => rw [hg] at h; simp [Except.map] at h
      | some x =>
        have := List.getElem?_eq_some_iff.mp hg
        obtain ⟨hlt, _⟩ := this
        omega

/-- what is left of the data when reading from integer position `i` (positions before `-len` cannot be read at all) -/
def leftFrom (d : Bytes) (i : Int) : Nat := if -(d.length : Int) ≤ i then ((d.length : Int) - i).toNat else 0

theorem leftFrom_le (d : Bytes) (i : Int) : leftFrom d i ≤ 2 * d.length := by
  unfold leftFrom; split <;> omega


/-! ### container loops -/

theorem bind_ok {α β : Type} {x : R α} {f : α → R β} {b : β} (h : (x >>= f) = .ok b) : ∃ a, x = .ok a ∧ f a = .ok b := by
  cases x with
  | error e => cases h
  | ok a => exact ⟨a, rfl, h⟩

/-- after the type and the offset of a constant record have been read, every successful branch returns the index `idx2` -/
macro "crb_tail" h:ident : tactic => `(tactic| (
  simp only [bind, Except.bind, pure, Except.pure, throw, throwThe, MonadExceptOf.throw] at $h:ident
  repeat (any_goals (split at $h:ident))
  all_goals first
    | (cases $h:ident; done)
    | (simp only [Except.ok.injEq] at $h:ident; rw [← $h:ident])))

/-- a completed round of the constant-record loop has read at `st.idx` and moved on by 6 or 8 bytes, inside the data -/
theorem crbStep_advance {codec : Codec} {d : Bytes} {conOff : Int} {st st' : CrbState} (h : crbStep codec d conOff st = .ok st') :
    -(d.length : Int) ≤ st.idx ∧ st.idx + 6 ≤ st'.idx ∧ st'.idx ≤ d.length := by
  unfold crbStep at h
  simp only at h
  by_cases hb : st.bpc = 8
  · simp only [hb, if_true] at h
    obtain ⟨t, h1, h⟩ := bind_ok h
    simp only [pure_bind] at h
    obtain ⟨coff, h2, h⟩ := bind_ok h
    have a := getSI_ok_range (by decide) h1
    have b := getSI_ok_range (by decide) h2
    have hidx : st'.idx = st.idx + 4 + 4 := by crb_tail h
    omega
  · simp only [hb, if_false] at h
    obtain ⟨t, h1, h⟩ := bind_ok h
    have a := getSI_ok_range (by decide) h1
    by_cases ht : t = 0
    · simp only [ht, if_true] at h
      obtain ⟨t2, _, h⟩ := bind_ok h
      simp only [pure_bind] at h
      obtain ⟨coff, h2, h⟩ := bind_ok h
      have b := getSI_ok_range (by decide) h2
      have hidx : st'.idx = st.idx + 4 + 4 := by crb_tail h
      omega
    · simp only [ht, if_false, pure_bind] at h
      obtain ⟨coff, h2, h⟩ := bind_ok h
      have b := getSI_ok_range (by decide) h2
      have hidx : st'.idx = st.idx + 2 + 4 := by crb_tail h
      omega

theorem crbSteps_bound (codec : Codec) (d : Bytes) (conOff : Int) (n : Nat) (st : CrbState) :
    6 * crbSteps codec d conOff n st ≤ leftFrom d st.idx + 6 := by
  induction n generalizing st with
  | zero => simp [crbSteps]
  | succ n ih =>
    unfold crbSteps
    split
    · omega
    · rename_i st' h
      have a := crbStep_advance h
      have := ih st'
      unfold leftFrom at this ⊢
      have h1 : -(d.length : Int) ≤ st.idx := a.1
      have h2 : -(d.length : Int) ≤ st'.idx := by omega
      simp only [h1, h2, if_true] at this ⊢
      omega

/-- constant records: at most one round per 6 bytes that can be read (+ the round that raises), for ANY declared count and
    ANY (signed) record offset -/
theorem crbSteps_linear (codec : Codec) (d : Bytes) (conOff : Int) (n : Nat) (st : CrbState) :
    6 * crbSteps codec d conOff n st ≤ 2 * d.length + 6 := by
  have := crbSteps_bound codec d conOff n st
  have := leftFrom_le d st.idx
  omega

theorem nameRecordsSteps_bound (d : Bytes) (idx stop : Int) : 2 * nameRecordsSteps d idx stop ≤ leftFrom d idx + 2 := by
  fun_induction nameRecordsSteps d idx stop with
  | case1 idx h e he => omega
  | case2 idx h v hv ih =>
    have a := getSI_ok_range (by decide) hv
    unfold leftFrom at ih ⊢
    have h1 : -(d.length : Int) ≤ idx := a.1
    have h2 : -(d.length : Int) ≤ idx + 2 := by omega
    simp only [h1, h2, if_true] at ih ⊢
    omega
  | case3 idx h => omega

/-- property / global name records: one round per 2 bytes that can be read, whatever the two table offsets are -/
theorem nameRecordsSteps_linear (d : Bytes) (idx stop : Int) : nameRecordsSteps d idx stop ≤ d.length + 1 := by
  have := nameRecordsSteps_bound d idx stop
  have := leftFrom_le d idx
  omega

theorem funcNamesSteps_short (d : Bytes) (k : Nat) (idx : Int) (h : (d.length : Int) < idx + 2) : funcNamesSteps d k idx ≤ 1 := by
  cases k with
  | zero => simp [funcNamesSteps]
  | succ k =>
    unfold funcNamesSteps
    split
    · omega
    · rename_i v hv
      have := getSI_ok_range (by decide) hv
      omega

theorem funcNamesSteps_bound (d : Bytes) (k : Nat) (idx : Int) : 42 * funcNamesSteps d k idx ≤ leftFrom d idx + 82 := by
  induction k generalizing idx with
  | zero => simp [funcNamesSteps]
  | succ k ih =>
    unfold funcNamesSteps
    split
    · omega
    · rename_i v hv
      have a := getSI_ok_range (by decide) hv
      by_cases hfar : (d.length : Int) < idx + 42 + 2
      · have := funcNamesSteps_short d k (idx + 42) hfar
        unfold leftFrom
        have h1 : -(d.length : Int) ≤ idx := a.1
        simp only [h1, if_true]
        omega
      · have := ih (idx + 42)
        unfold leftFrom at this ⊢
        have h1 : -(d.length : Int) ≤ idx := a.1
        have h2 : -(d.length : Int) ≤ idx + 42 := by omega
        simp only [h1, h2, if_true] at this ⊢
        omega

/-- handler-name pass over the function records: one round per 42 bytes, for ANY declared record count -/
theorem funcNamesSteps_linear (d : Bytes) (k : Nat) (idx : Int) : 42 * funcNamesSteps d k idx ≤ 2 * d.length + 82 := by
  have := funcNamesSteps_bound d k idx
  have := leftFrom_le d idx
  omega

theorem localNamesSteps_bound (ctx : Ctx) (d : Bytes) (off : Int) (k nl : Nat) :
    2 * localNamesSteps ctx d off k nl ≤ leftFrom d (2 * nl + off) + 2 := by
  induction k generalizing nl with
  | zero => simp [localNamesSteps]
  | succ k ih =>
    unfold localNamesSteps
    split
    · omega
    · rename_i n hn
      have a := getSI_ok_range (by decide) hn
      split
      · omega
      · have := ih (nl + 1)
        unfold leftFrom at this ⊢
        have h1 : -(d.length : Int) ≤ 2 * (nl : Int) + off := a.1
        have h2 : -(d.length : Int) ≤ 2 * ((nl + 1 : Nat) : Int) + off := by omega
        simp only [h1, h2, if_true] at this ⊢
        omega

theorem paramNamesSteps_bound (ctx : Ctx) (d : Bytes) (off : Int) (k nl : Nat) :
    2 * paramNamesSteps ctx d off k nl ≤ leftFrom d (2 * nl + off) + 2 := by
  induction k generalizing nl with
  | zero => simp [paramNamesSteps]
  | succ k ih =>
    unfold paramNamesSteps
    split
    · omega
    · rename_i n hn
      have a := getSI_ok_range (by decide) hn
      have key : 2 * (1 + paramNamesSteps ctx d off k (nl + 1)) ≤ leftFrom d (2 * nl + off) + 2 := by
        have := ih (nl + 1)
        unfold leftFrom at this ⊢
        have h1 : -(d.length : Int) ≤ 2 * (nl : Int) + off := a.1
        have h2 : -(d.length : Int) ≤ 2 * ((nl + 1 : Nat) : Int) + off := by omega
        simp only [h1, h2, if_true] at this ⊢
        omega
      split
      · split
        · omega
        · exact key
      · exact key

theorem handlerGlobalsSteps_bound (d : Bytes) (off : Int) (k nl : Nat) :
    2 * handlerGlobalsSteps d off k nl ≤ leftFrom d (2 * nl + off) + 2 := by
  induction k generalizing nl with
  | zero => simp [handlerGlobalsSteps]
  | succ k ih =>
    unfold handlerGlobalsSteps
    split
    · omega
    · rename_i n hn
      have a := getSI_ok_range (by decide) hn
      have := ih (nl + 1)
      unfold leftFrom at this ⊢
      have h1 : -(d.length : Int) ≤ 2 * (nl : Int) + off := a.1
      have h2 : -(d.length : Int) ≤ 2 * ((nl + 1 : Nat) : Int) + off := by omega
      simp only [h1, h2, if_true] at this ⊢
      omega

/-- the three name tables of ONE function record: at most `len + 1` rounds each, whatever counts and offsets it declares -/
theorem tablesSteps_linear (ctx : Ctx) (d : Bytes) (idx : Int) (declared0 : Nat) : tablesSteps ctx d idx declared0 ≤ 3 * d.length + 3 := by
  unfold tablesSteps
  split
  · rename_i nArg argOff nLocal localOff countC globOff bcLen _ _ _ _ _ _ _
    have a := localNamesSteps_bound ctx d localOff nLocal.toNat 0
    have b := paramNamesSteps_bound ctx d argOff nArg.toNat 0
    have c := handlerGlobalsSteps_bound d globOff countC.toNat 0
    have := leftFrom_le d (2 * ((0 : Nat) : Int) + localOff)
    have := leftFrom_le d (2 * ((0 : Nat) : Int) + argOff)
    have := leftFrom_le d (2 * ((0 : Nat) : Int) + globOff)
    dsimp only
    split
    · omega
    · split
      · omega
      · split
        · omega
        · omega
  · omega


/-! ### the opcode loop -/

theorem stepOpcode_reads {ctx : Ctx} {d : Bytes} {idxc index : Int} {regs : Regs} {st : PState} {r : Int × Regs × PState}
    (h : stepOpcode ctx d idxc index regs st = .ok r) : -(d.length : Int) ≤ idxc ∧ idxc < d.length := by
  unfold stepOpcode at h
  cases hb : byteAtI d idxc with
  | error e => rw [hb] at h; simp [bind, Except.bind] at h
  | ok b => exact byteAtI_ok_range hb

/-- the twin's result is the model's opcode loop -/
theorem opcodeLoopS_result (ctx : Ctx) (d : Bytes) (bcOff bcLen idxc : Int) (regs : Regs) (st : PState) :
    (opcodeLoopS ctx d bcOff bcLen idxc regs st).2 = opcodeLoop ctx d bcOff bcLen idxc regs st := by
  fun_induction opcodeLoopS ctx d bcOff bcLen idxc regs st with
  | case1 idxc regs st hlt e he =>
    rw [opcodeLoop]; simp only [hlt, if_true]
    split
    · rename_i e' he'; rw [he] at he'; cases he'; rfl
    · rename_i r hr; rw [he] at hr; cases hr
  | case2 idxc regs st hlt r hr rest ih =>
    rw [opcodeLoop]; simp only [hlt, if_true]
    split
    · rename_i e' he'; rw [hr] at he'; cases he'
    · rename_i r' hr'; rw [hr] at hr'; cases hr'; exact ih
  | case3 idxc regs st hlt =>
    rw [opcodeLoop]; simp only [hlt, if_false]

/-- one round per instruction, an instruction is at least one byte of the declared code length -/
theorem opcodeLoopS_rounds_code (ctx : Ctx) (d : Bytes) (bcOff bcLen idxc : Int) (regs : Regs) (st : PState) :
    (opcodeLoopS ctx d bcOff bcLen idxc regs st).1.rounds ≤ (bcLen - (idxc - bcOff)).toNat := by
  fun_induction opcodeLoopS ctx d bcOff bcLen idxc regs st with
  | case1 idxc regs st hlt e he => simp only; omega
  | case2 idxc regs st hlt r hr rest ih =>
    have := stepOpcode_advance hr
    have hrest : rest = opcodeLoopS ctx d bcOff bcLen r.1 r.2.1 r.2.2 := rfl
    rw [← hrest] at ih
    simp only; omega
  | case3 idxc regs st hlt => simp

/-- … and at least one byte of the DATA: whatever code length a function record declares -/
theorem opcodeLoopS_rounds_data (ctx : Ctx) (d : Bytes) (bcOff bcLen idxc : Int) (regs : Regs) (st : PState) :
    (opcodeLoopS ctx d bcOff bcLen idxc regs st).1.rounds ≤ leftFrom d idxc + 1 := by
  fun_induction opcodeLoopS ctx d bcOff bcLen idxc regs st with
  | case1 idxc regs st hlt e he => simp only; omega
  | case2 idxc regs st hlt r hr rest ih =>
    have := stepOpcode_advance hr
    have a := stepOpcode_reads hr
    have hrest : rest = opcodeLoopS ctx d bcOff bcLen r.1 r.2.1 r.2.2 := rfl
    rw [← hrest] at ih
    unfold leftFrom at ih ⊢
    have h1 : -(d.length : Int) ≤ idxc := a.1
    have h2 : -(d.length : Int) ≤ r.1 := by omega
    simp only [h1, h2, if_true] at ih ⊢
    omega
  | case3 idxc regs st hlt => simp

theorem opcodeLoopS_rounds_linear (ctx : Ctx) (d : Bytes) (bcOff bcLen idxc : Int) (regs : Regs) (st : PState) :
    (opcodeLoopS ctx d bcOff bcLen idxc regs st).1.rounds ≤ 2 * d.length + 1 := by
  have := opcodeLoopS_rounds_data ctx d bcOff bcLen idxc regs st
  have := leftFrom_le d idxc
  omega

/-- one backward jump scans the statement list once and removes at most all of it -/
theorem jumpRounds_le (d : Bytes) (idxc : Int) (st : PState) : jumpRounds d idxc st ≤ 2 * st.stmts.length := by
  unfold jumpRounds
  split
  · split
    · split
      · split
        · have := List.length_filter_le (fun s : Node => decide (s.pos ≥ idxc - (‹Nat› : Int))) st.stmts
          omega
        · omega
      · omega
    · omega
  · omega

end Drx.Lscr.Steps
