/-
  Helper lemmas for property C12 (second half): the operand registers of the shared opcode singletons never influence a
  parse — every register that `process` reads was written by `parse_opcodes` in the same step.
-/
import Drx.Lscr
namespace Drx.Lscr
open Drx Drx.Gen

/-- table fact (checked by `decide` on the regenerated table): an `OPCODES` entry whose `process` reads `param2` is a
    3-byte instruction, and one that reads `param1` is a 2- or 3-byte instruction that is not a two-byte opcode proper -/
def regsTableOk : Bool :=
  Opcodes.opcodes.all fun e =>
    let info := e.2
    (decide (info.impl ∈ readsP2) → decide (info.nbytes = 3 ∧ info.kind ≠ "tri")) &&
    (decide (info.impl ∈ readsP1) → decide (info.nbytes = 2 ∧ info.kind ≠ "bi" ∧ info.kind ≠ "tri") || decide (info.nbytes = 3 ∧ info.kind ≠ "tri"))

theorem regsTableOk_true : regsTableOk = true := by decide

theorem lookup_mem {α β : Type} [BEq α] [LawfulBEq α] (l : List (α × β)) (k : α) (v : β) (h : l.lookup k = some v) : (k, v) ∈ l := by
  induction l with
  | nil => simp at h
  | cons x xs ih =>
    obtain ⟨a, b⟩ := x
    by_cases hk : k == a
    · simp only [List.lookup, hk] at h
      have : a = k := by simp at hk; exact hk.symm
      cases h; subst this; simp
    · have hk' : (k == a) = false := by simpa using hk
      simp only [List.lookup, hk'] at h
      exact List.mem_cons_of_mem _ (ih h)

theorem Regs.get_set (r : Regs) (k : Nat) (v : Nat × Nat) : (r.set k v).get k = v := by
  simp [Regs.get, Regs.set, List.lookup]

/-- what a step leaves behind apart from the registers -/
def stepObs (x : Int × Regs × PState) : Int × PState := (x.1, x.2.2)

theorem process_no_regs (ctx : Ctx) (info : Opcodes.OpInfo) (p1 p2 q1 q2 : Nat) (index : Int) (st : PState)
    (h1 : info.impl ∉ readsP1) (h2 : info.impl ∉ readsP2) : process ctx info p1 p2 index st = process ctx info q1 q2 index st := by
  simp [process, h1, h2]

theorem process_p1_only (ctx : Ctx) (info : Opcodes.OpInfo) (p1 p2 q2 : Nat) (index : Int) (st : PState)
    (h2 : info.impl ∉ readsP2) : process ctx info p1 p2 index st = process ctx info p1 q2 index st := by
  simp [process, h2]

theorem map_bind_pure {α β γ : Type} (x : R α) (f : α → β) (g : β → γ) :
    Except.map g (x >>= fun a => pure (f a)) = x >>= fun a => pure (g (f a)) := by
  cases x <;> rfl

theorem step1_indep (ctx : Ctx) (opcode : Nat) (info : Opcodes.OpInfo) (idxc index : Int) (regs regs' : Regs) (st : PState)
    (h1 : info.impl ∉ readsP1) (h2 : info.impl ∉ readsP2) :
    (step1 ctx opcode info idxc index regs st).map stepObs = (step1 ctx opcode info idxc index regs' st).map stepObs := by
  unfold step1
  have e := process_no_regs ctx info (regs.get opcode).1 (regs.get opcode).2 (regs'.get opcode).1 (regs'.get opcode).2 index st h1 h2
  rw [e]
  generalize process ctx info (regs'.get opcode).1 (regs'.get opcode).2 index st = r
  cases r <;> rfl

theorem step2_indep (ctx : Ctx) (d : Bytes) (opcode : Nat) (info : Opcodes.OpInfo) (idxc index : Int) (regs regs' : Regs) (st : PState)
    (h2 : info.impl ∉ readsP2) :
    (step2 ctx d opcode info idxc index regs st).map stepObs = (step2 ctx d opcode info idxc index regs' st).map stepObs := by
  unfold step2
  cases byteAtI d idxc with
  | error e => simp only [Bind.bind, Except.bind, Except.map]
  | ok opcode2 =>
    simp only [Bind.bind, Except.bind]
    by_cases hk : info.kind = "bi" ∨ info.kind = "tri"
    · simp only [hk, if_true]
      cases Opcodes.biOpcodes.lookup (opcode * 256 + opcode2) with
      | none => rfl
      | some info2 =>
        simp only
        generalize process ctx info2 0 0 index st = r
        cases r <;> rfl
    · simp only [hk, if_false, Regs.get_set]
      have e := process_p1_only ctx info opcode2 (regs.get opcode).2 (regs'.get opcode).2 index st h2
      rw [e]
      generalize process ctx info opcode2 (regs'.get opcode).2 index st = r
      cases r <;> rfl

theorem step3_indep (ctx : Ctx) (d : Bytes) (opcode : Nat) (info : Opcodes.OpInfo) (idxc index : Int) (regs regs' : Regs) (st : PState) :
    (step3 ctx d opcode info idxc index regs st).map stepObs = (step3 ctx d opcode info idxc index regs' st).map stepObs := by
  unfold step3
  cases byteAtI d idxc with
  | error e => simp only [Bind.bind, Except.bind, Except.map]
  | ok opcode2 =>
    simp only [Bind.bind, Except.bind]
    cases byteAtI d (idxc + 1) with
    | error e => simp only [Bind.bind, Except.bind, Except.map]
    | ok opcode3 =>
      simp only
      by_cases hk : info.kind = "tri"
      · simp only [hk, if_true]
        cases Opcodes.triOpcodes.lookup (opcode * 65536 + opcode2 * 256 + opcode3) with
        | none => rfl
        | some info3 =>
          simp only
          generalize process ctx info3 0 0 index st = r
          cases r <;> rfl
      · simp only [hk, if_false, Regs.get_set]
        generalize process ctx info opcode2 opcode3 index st = r
        cases r <;> rfl

theorem stepOpcode_indep (ctx : Ctx) (d : Bytes) (idxc index : Int) (regs regs' : Regs) (st : PState) :
    (stepOpcode ctx d idxc index regs st).map stepObs = (stepOpcode ctx d idxc index regs' st).map stepObs := by
  unfold stepOpcode
  cases hb : byteAtI d idxc with
  | error e => simp only [Bind.bind, Except.bind, Except.map]
  | ok opcode =>
    simp only [Bind.bind, Except.bind]
    cases hl : Opcodes.opcodes.lookup opcode with
    | none => rfl
    | some info =>
      have hmem := lookup_mem _ _ _ hl
      have hT := regsTableOk_true
      unfold regsTableOk at hT
      rw [List.all_eq_true] at hT
      have hinfo := hT _ hmem
      simp only [Bool.and_eq_true, Bool.or_eq_true, decide_eq_true_eq, Bool.decide_and, Bool.decide_eq_true] at hinfo
      simp only
      by_cases hn2 : info.nbytes = 2
      · simp only [hn2, if_true]
        apply step2_indep
        intro hc
        have := (hinfo.1 hc).1
        omega
      · by_cases hn3 : info.nbytes = 3
        · simp only [hn2, hn3, if_true, if_false]
          apply step3_indep
        · simp only [hn2, hn3, if_false]
          apply step1_indep
          · intro hc
            rcases hinfo.2 hc with h | h
            · exact hn2 h.1
            · exact hn3 h.1
          · intro hc
            exact hn3 (hinfo.1 hc).1

theorem opcodeLoop_indep (ctx : Ctx) (d : Bytes) (bcOff bcLen : Int) :
    ∀ (n : Nat) (idxc : Int) (regs regs' : Regs) (st : PState), (bcLen - (idxc - bcOff)).toNat = n →
      (opcodeLoop ctx d bcOff bcLen idxc regs st).map Prod.snd = (opcodeLoop ctx d bcOff bcLen idxc regs' st).map Prod.snd := by
  intro n
  induction n using Nat.strongRecOn with
  | _ n ih =>
    intro idxc regs regs' st hn
    rw [opcodeLoop, opcodeLoop]
    by_cases hc : idxc - bcOff < bcLen
    · simp only [hc, if_true]
      have hs := stepOpcode_indep ctx d idxc idxc regs regs' st
      cases h1 : stepOpcode ctx d idxc idxc regs st with
      | error e1 =>
        cases h2 : stepOpcode ctx d idxc idxc regs' st with
        | error e2 => rw [h1, h2] at hs; simp only [Except.map] at hs ⊢; cases hs; rfl
        | ok v2 => rw [h1, h2] at hs; simp [Except.map] at hs
      | ok v1 =>
        cases h2 : stepOpcode ctx d idxc idxc regs' st with
        | error e2 => rw [h1, h2] at hs; simp [Except.map] at hs
        | ok v2 =>
          rw [h1, h2] at hs
          simp only [Except.map, Except.ok.injEq, stepObs, Prod.mk.injEq] at hs
          obtain ⟨i1, r1, s1⟩ := v1
          obtain ⟨i2, r2, s2⟩ := v2
          simp only at hs
          obtain ⟨hi, hs'⟩ := hs
          subst hi; subst hs'
          have hadv := stepOpcode_advance h1
          simp only at hadv
          exact ih (bcLen - (i1 - bcOff)).toNat (by omega) i1 r1 r2 s1 rfl
    · simp only [hc, if_false, Except.map]

theorem parseOpcodes_indep (ctx : Ctx) (d : Bytes) (r : FrbRec) (regs regs' : Regs) (bpc : Nat) (tell : Bool) :
    (parseOpcodes ctx d r regs bpc tell).map Prod.snd = (parseOpcodes ctx d r regs' bpc tell).map Prod.snd := by
  unfold parseOpcodes
  have h := opcodeLoop_indep ctx d r.bcOff r.bcLen _ r.bcOff regs regs' { bpc := bpc, tell := tell, gvars := r.globals } rfl
  cases h1 : opcodeLoop ctx d r.bcOff r.bcLen r.bcOff regs { bpc := bpc, tell := tell, gvars := r.globals } with
  | error e1 =>
    cases h2 : opcodeLoop ctx d r.bcOff r.bcLen r.bcOff regs' { bpc := bpc, tell := tell, gvars := r.globals } with
    | error e2 => rw [h1, h2] at h; simp only [Except.map] at h; cases h; rfl
    | ok v2 => rw [h1, h2] at h; simp [Except.map] at h
  | ok v1 =>
    cases h2 : opcodeLoop ctx d r.bcOff r.bcLen r.bcOff regs' { bpc := bpc, tell := tell, gvars := r.globals } with
    | error e2 => rw [h1, h2] at h; simp [Except.map] at h
    | ok v2 =>
      rw [h1, h2] at h
      obtain ⟨r1, s1⟩ := v1
      obtain ⟨r2, s2⟩ := v2
      simp only [Except.map, Except.ok.injEq] at h
      subst h
      simp only [Bind.bind, Except.bind]
      generalize condDetect s1.stmts = c
      cases c with
      | error e => rfl
      | ok l =>
        simp only
        generalize loopDetect l = c2
        cases c2 <;> rfl

/-- `parseFunc` apart from the registers it hands on -/
def frbObs (fs : FrbState) : Nat × Bool × List FuncDef × Nat := (fs.bpc, fs.tell, fs.funcs, fs.declared)

theorem parseFunc_indep (ctx0 : Ctx) (d : Bytes) (idx : Int) (fs fs' : FrbState) (h : frbObs fs = frbObs fs') :
    (parseFunc ctx0 d idx fs).map frbObs = (parseFunc ctx0 d idx fs').map frbObs := by
  obtain ⟨b, t, rg, fn, dc⟩ := fs
  obtain ⟨b', t', rg', fn', dc'⟩ := fs'
  simp only [frbObs, Prod.mk.injEq] at h
  obtain ⟨hb, ht, hf, hd⟩ := h
  subst hb; subst ht; subst hf; subst hd
  unfold parseFunc
  generalize readFrb ctx0 d idx dc = rr
  cases rr with
  | error e => rfl
  | ok r =>
    simp only [Bind.bind, Except.bind]
    have h := parseOpcodes_indep { ctx0 with params := r.params, localVars := r.locals } d r rg rg' b t
    cases h1 : parseOpcodes { ctx0 with params := r.params, localVars := r.locals } d r rg b t with
    | error e1 =>
      cases h2 : parseOpcodes { ctx0 with params := r.params, localVars := r.locals } d r rg' b t with
      | error e2 => rw [h1, h2] at h; simp only [Except.map] at h; cases h; rfl
      | ok v2 => rw [h1, h2] at h; simp [Except.map] at h
    | ok v1 =>
      cases h2 : parseOpcodes { ctx0 with params := r.params, localVars := r.locals } d r rg' b t with
      | error e2 => rw [h1, h2] at h; simp [Except.map] at h
      | ok v2 =>
        rw [h1, h2] at h
        obtain ⟨r1, s1⟩ := v1
        obtain ⟨r2, s2⟩ := v2
        simp only [Except.map, Except.ok.injEq] at h
        subst h
        rfl

theorem parseFuncs_indep (ctx : Ctx) (d : Bytes) : ∀ (k : Nat) (idx : Int) (fs fs' : FrbState), frbObs fs = frbObs fs' →
    (parseFuncs ctx d k idx fs).map frbObs = (parseFuncs ctx d k idx fs').map frbObs
  | 0, idx, fs, fs', h => by simp [parseFuncs, Except.map, h]
  | k + 1, idx, fs, fs', h => by
    have h1 := parseFunc_indep ctx d idx fs fs' h
    simp only [parseFuncs, Bind.bind, Except.bind]
    cases e1 : parseFunc ctx d idx fs with
    | error x =>
      cases e2 : parseFunc ctx d idx fs' with
      | error y => rw [e1, e2] at h1; simp only [Except.map] at h1 ⊢; cases h1; rfl
      | ok y => rw [e1, e2] at h1; simp [Except.map] at h1
    | ok x =>
      cases e2 : parseFunc ctx d idx fs' with
      | error y => rw [e1, e2] at h1; simp [Except.map] at h1
      | ok y =>
        rw [e1, e2] at h1
        simp only [Except.map, Except.ok.injEq] at h1
        exact parseFuncs_indep ctx d k (idx + 42) x y h1

/-- the registers a parse starts with do not influence the script it returns -/
theorem parseLscrWith_regs_irrelevant (codec : Codec) (regs regs' : Regs) (d : Bytes) (names : List Str) :
    (parseLscrWith codec regs d names).map Prod.fst = (parseLscrWith codec regs' d names).map Prod.fst := by
  unfold parseLscrWith
  generalize readContainer codec d names = rc
  cases rc with
  | error e => rfl
  | ok c =>
    simp only [Bind.bind, Except.bind]
    have h := parseFuncs_indep { names := names, constants := c.constants, localFuncs := c.lfn, props := c.props, scriptGlobals := c.globs, params := [], localVars := [] }
      d c.h.frbN.toNat c.h.frbOff { bpc := c.bpc, tell := false, regs := regs, funcs := [] }
      { bpc := c.bpc, tell := false, regs := regs', funcs := [] } rfl
    cases e1 : parseFuncs { names := names, constants := c.constants, localFuncs := c.lfn, props := c.props, scriptGlobals := c.globs, params := [], localVars := [] }
      d c.h.frbN.toNat c.h.frbOff { bpc := c.bpc, tell := false, regs := regs, funcs := [] } with
    | error x =>
      cases e2 : parseFuncs { names := names, constants := c.constants, localFuncs := c.lfn, props := c.props, scriptGlobals := c.globs, params := [], localVars := [] }
        d c.h.frbN.toNat c.h.frbOff { bpc := c.bpc, tell := false, regs := regs', funcs := [] } with
      | error y => rw [e1, e2] at h; simp only [Except.map] at h ⊢; cases h; rfl
      | ok y => rw [e1, e2] at h; simp [Except.map] at h
    | ok x =>
      cases e2 : parseFuncs { names := names, constants := c.constants, localFuncs := c.lfn, props := c.props, scriptGlobals := c.globs, params := [], localVars := [] }
        d c.h.frbN.toNat c.h.frbOff { bpc := c.bpc, tell := false, regs := regs', funcs := [] } with
      | error y => rw [e1, e2] at h; simp [Except.map] at h
      | ok y =>
        rw [e1, e2] at h
        simp only [Except.map, Except.ok.injEq, frbObs, Prod.mk.injEq] at h
        simp only [Except.map, pure, Except.pure, h.2.2]

/-- the same for the whole entry point (name table chunk + script chunk) -/
theorem parseScriptWith_regs_irrelevant (codec : Codec) (regs regs' : Regs) (lscr lnam : Bytes) :
    (parseScriptWith codec regs lscr lnam).map Prod.fst = (parseScriptWith codec regs' lscr lnam).map Prod.fst := by
  unfold parseScriptWith
  generalize parseLnam codec lnam = rn
  cases rn with
  | error e => rfl
  | ok names => exact parseLscrWith_regs_irrelevant codec regs regs' lscr names

end Drx.Lscr
