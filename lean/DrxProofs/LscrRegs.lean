/-
  Helper lemmas for property C12 (second half): the operand registers of the shared opcode singletons never influence a
  parse — every register that `process` reads was written by `parse_opcodes` in the same step.
-/
import Drx.Lscr
namespace Drx.Lscr
open Drx Drx.Gen

/-- classes whose `process` reads `self.param1` -/
def readsP1 : List String := ["Int1bOpcode", "Int2bOpcode", "LiteralOpcode", "Literal2Opcode", "SymbolOpcode", "PropertyOpcode",
  "VariableOpcode", "GlobalVariableOpcode", "PropertyNameOpcode", "ParameterNameOpcode", "LocalVariableOpcode", "TellPropertyOpcode",
  "AssignGlobalVariableOpcode", "LoadPropertyOpcode", "AssignPropertyOpcode", "AssignParameterOpcode", "AssignLocalVariableOpcode",
  "JumpOpcode", "FowardJumpOpcode", "ConditionalJumpOpcode", "CallLocalOpcode", "CallExternalOpcode", "CallObjectMethodOpcode",
  "CallExternalMethodOpcode", "PropertyAccesorOpcode", "AssignPropertyAccesorOpcode", "KeyPropertyAccesorOpcode", "CopySymbolOpcode",
  "DiscardSymbolsOpcode", "LoadListOpcode", "LoadLongListOpcode"]

/-- classes whose `process` reads `self.param2` -/
def readsP2 : List String := ["Int2bOpcode", "Literal2Opcode", "FowardJumpOpcode", "ConditionalJumpOpcode", "LoadLongListOpcode"]

theorem process_indep_p2 (ctx : Ctx) (info : Opcodes.OpInfo) (p1 p2 p2' : Nat) (index : Int) (st : PState)
    (h : info.impl ∉ readsP2) : process ctx info p1 p2 index st = process ctx info p1 p2' index st := by
  unfold process
  split <;> first | rfl | (exfalso; simp_all [readsP2])

theorem process_indep_p1 (ctx : Ctx) (info : Opcodes.OpInfo) (p1 p1' p2 : Nat) (index : Int) (st : PState)
    (h : info.impl ∉ readsP1) : process ctx info p1 p2 index st = process ctx info p1' p2 index st := by
  unfold process
  split <;> first | rfl | (exfalso; simp_all [readsP1])

end Drx.Lscr
