/-
  C06, 16 bits per pixel (zero offsets, operations confined to a byte plane): the PackBits loop of decoder16b.py
  fills the planar buffer line by line; the de-interleave loop turns it into BMP rows.
-/
import DrxProofs.Bitd1Top
namespace Drx.Bitd
open Drx Drx.Bitd.Spec

theorem setAtI_nat (d : Bytes) (n : Nat) (v : UInt8) : setAtI d (n : Int) v = setAt d n v := by
  unfold setAtI
  have : (0 : Int) ≤ (n : Int) := by omega
  simp only [this, if_true, Int.toNat_natCast]

theorem idx_cast (y width x : Nat) : ((y : Int) * (width : Int) + (x : Int)) = ((y * width + x : Nat) : Int) := by
  rw [Int.natCast_add, Int.natCast_mul]

/-- the planar buffer: lines below `A` untouched, the current line filled up to `p`, finished lines in `B` -/
def bufP (width : Nat) (A B p : Bytes) : Bytes := A ++ rowImg width 0 width p ++ B

theorem rowImg_full (width : Nat) (r : Bytes) (h : r.length = width) : rowImg width 0 width r = r := by
  unfold rowImg
  have : r.take width = r := by rw [← h]; simp
  rw [this]
  simp [zeros, h]

theorem paintRun16_spec (width y : Nat) (v : UInt8) (A B : Bytes) (hA : A.length = y * width) :
    ∀ (n : Nat) (p : Bytes), p.length + n ≤ width →
      paintRun16 width (y : Int) v n (bufP width A B p) p.length
        = .ok (bufP width A B (p ++ List.replicate n v), p.length + n) := by
  intro n
  induction n with
  | zero => intro p _; simp [paintRun16]
  | succ n ih =>
    intro p hp
    unfold paintRun16
    rw [idx_cast, setAtI_nat]
    have e : y * width + p.length = A.length + p.length + 0 := by omega
    rw [e]
    unfold bufP
    rw [setAt_rowImg A B width 0 width p v (by omega) (by omega)]
    simp only
    have := ih (p ++ [v]) (by simp; omega)
    unfold bufP at this
    simp only [List.length_append, List.length_singleton] at this
    rw [this]
    simp [List.replicate_succ, Nat.add_assoc, Nat.add_comm 1 n]

/-- a literal that stays inside the line; the line wraps exactly when its last byte fills it -/
theorem paintLit16_spec (width y : Nat) (A B : Bytes) (hA : A.length = y * width) :
    ∀ (bs p rest : Bytes), p.length + bs.length ≤ width → bs ≠ [] →
      paintLit16 width bs.length (bs ++ rest) (bufP width A B p) p.length (y : Int)
        = .ok (bufP width A B (p ++ bs),
               (if p.length + bs.length = width then 0 else p.length + bs.length),
               (if p.length + bs.length = width then (y : Int) - 1 else (y : Int)), rest) := by
  intro bs
  induction bs with
  | nil => intro p rest _ h; exact absurd rfl h
  | cons v bs ih =>
    intro p rest hp _
    simp only [List.length_cons] at hp ⊢
    unfold paintLit16
    simp only [List.cons_append]
    rw [idx_cast, setAtI_nat]
    have e : y * width + p.length = A.length + p.length + 0 := by omega
    rw [e]
    unfold bufP
    rw [setAt_rowImg A B width 0 width p v (by omega) (by omega)]
    simp only
    cases bs with
    | nil =>
      simp only [List.length_nil, Nat.zero_add, List.nil_append] at hp ⊢
      by_cases hw : p.length + 1 ≥ width
      · have h2 : p.length + 1 = width := by omega
        rw [if_pos hw, if_pos h2, if_pos h2]
        simp [paintLit16]
      · have h2 : ¬ (p.length + 1 = width) := by omega
        rw [if_neg hw, if_neg h2, if_neg h2]
        simp [paintLit16]
    | cons v2 bs2 =>
      simp only [List.length_cons] at hp ⊢
      have hlt : ¬ (p.length + 1 ≥ width) := by omega
      rw [if_neg hlt]
      have := ih (p ++ [v]) rest (by simp only [List.length_cons, List.length_append, List.length_nil]; omega) (by simp)
      unfold bufP at this
      simp only [List.length_append, List.length_cons, List.length_nil, Nat.zero_add] at this
      rw [this]
      have e1 : p.length + 1 + (bs2.length + 1) = p.length + (bs2.length + 1 + 1) := by omega
      simp only [e1, List.append_assoc, List.cons_append, List.nil_append]

/-- where the loop stands relative to the painted prefix `p` of line `y`: at it, or (line start only) still at the
    end of the line above, which a run filled without wrapping -/
def Pos (width x : Nat) (yI : Int) (plen y : Nat) : Prop :=
  (x = plen ∧ yI = (y : Int)) ∨ (plen = 0 ∧ x = width ∧ yI = (y : Int) + 1)

/-- line `y` is complete: wrapped to the next line (literal) or standing at its end (run) -/
def Done (width x : Nat) (yI : Int) (y : Nat) : Prop :=
  (x = 0 ∧ yI = (y : Int) - 1) ∨ (x = width ∧ yI = (y : Int))

theorem jump16_pos (w width n x : Nat) (yI : Int) (plen y : Nat) (hpos : Pos width x yI plen y)
    (hn : 1 ≤ n) (hfit : plen + n ≤ width) (hns : ¬ (plen < w ∧ w < plen + n)) (hw : w ≤ width) :
    jump16 w width n x yI = (plen, (y : Int)) := by
  unfold jump16
  rcases hpos with ⟨hx, hy⟩ | ⟨hp0, hx, hy⟩
  · rw [hx, hy]
    have h1 : ¬ (plen + n > w ∧ plen < w) := by omega
    have h2 : ¬ (plen + n > width) := by omega
    simp only [h1, if_false, h2]
  · rw [hx, hy, hp0]
    have h1 : ¬ (width + n > w ∧ width < w) := by omega
    have h2 : width + n > width := by omega
    simp only [h1, if_false, h2, if_true]
    congr 1; omega

theorem loop16_nil (w width : Nat) (data : Bytes) (x : Nat) (yI : Int) : loop16 w width [] data x yI = .ok data := by
  rw [loop16]; split <;> rfl

theorem loop16_run (w width n : Nat) (v : UInt8) (rest data : Bytes) (x : Nat) (yI : Int) (x0 : Nat) (y0 : Int)
    (h2 : 2 ≤ n) (h128 : n ≤ 128) (hy : 0 ≤ yI) (hj : jump16 w width n x yI = (x0, y0)) :
    loop16 w width ((Op.run n v).bytes ++ rest) data x yI =
      match paintRun16 width y0 v n data x0 with
      | .error e => .error e
      | .ok (data, x) => loop16 w width rest data x y0 := by
  have e1 : (UInt8.ofNat (257 - n)).toNat = 257 - n := by
    simp only [UInt8.toNat_ofNat']; omega
  simp only [Op.bytes, List.cons_append, List.nil_append]
  rw [loop16]
  have e0 : ¬ (yI < 0) := by omega
  have e2 : (257 - n ≥ 128) := by omega
  have e3 : 257 - (257 - n) = n := by omega
  simp only [e0, e1, e2, e3, if_true, if_false, hj]
  cases paintRun16 width y0 v n data x0 with
  | error e => rfl
  | ok a => cases a; rfl

theorem loop16_lit (w width : Nat) (bs : Bytes) (rest data : Bytes) (x : Nat) (yI : Int) (x0 : Nat) (y0 : Int)
    (h1 : 1 ≤ bs.length) (h128 : bs.length ≤ 128) (hy : 0 ≤ yI) (hj : jump16 w width bs.length x yI = (x0, y0)) :
    loop16 w width ((Op.lit bs).bytes ++ rest) data x yI =
      match paintLit16 width bs.length (bs ++ rest) data x0 y0 with
      | .error e => .error e
      | .ok (data, x, y, r2) => loop16 w width r2 data x y := by
  have e1 : (UInt8.ofNat (bs.length - 1)).toNat = bs.length - 1 := by
    simp only [UInt8.toNat_ofNat']; omega
  simp only [Op.bytes, List.cons_append]
  rw [loop16.eq_def]
  have e0 : ¬ (yI < 0) := by omega
  have e2 : ¬ (bs.length - 1 ≥ 128) := by omega
  have e3 : bs.length - 1 + 1 = bs.length := by omega
  simp only [e0, e1, e2, if_false]
  split <;> rename_i heq <;> rw [e1, e3, hj] at heq <;> simp only [heq]

end Drx.Bitd
