/-
  C06, 16 bits per pixel (zero offsets, operations confined to a byte plane): the PackBits loop of decoder16b.py
  fills the planar buffer line by line; the de-interleave loop turns it into BMP rows.
-/
import DrxProofs.Bitd1Top
namespace Drx.Bitd
open Drx Drx.Bitd.Spec

theorem setAtI_nat (d : Bytes) (n : Nat) (v : UInt8) : setAtI d (n : Int) v = setAt d n v := by
  unfold setAtI
  have : (0 : Int) ≤ (n : Int) := by omega
  simp only [this, if_true, Int.toNat_natCast]

theorem idx_cast (y width x : Nat) : ((y : Int) * (width : Int) + (x : Int)) = ((y * width + x : Nat) : Int) := by
  rw [Int.natCast_add, Int.natCast_mul]

/-- the planar buffer: lines below `A` untouched, the current line filled up to `p`, finished lines in `B` -/
def bufP (width : Nat) (A B p : Bytes) : Bytes := A ++ rowImg width 0 width p ++ B

theorem rowImg_full (width : Nat) (r : Bytes) (h : r.length = width) : rowImg width 0 width r = r := by
  unfold rowImg
  have : r.take width = r := by rw [← h]; simp
  rw [this]
  simp [zeros, h]

theorem paintRun16_spec (width y : Nat) (v : UInt8) (A B : Bytes) (hA : A.length = y * width) :
    ∀ (n : Nat) (p : Bytes), p.length + n ≤ width →
      paintRun16 width (y : Int) v n (bufP width A B p) p.length
        = .ok (bufP width A B (p ++ List.replicate n v), p.length + n) := by
  intro n
  induction n with
  | zero => intro p _; simp [paintRun16]
  | succ n ih =>
    intro p hp
    unfold paintRun16
    rw [idx_cast, setAtI_nat]
    have e : y * width + p.length = A.length + p.length + 0 := by omega
    rw [e]
    unfold bufP
    rw [setAt_rowImg A B width 0 width p v (by omega) (by omega)]
    simp only
    have := ih (p ++ [v]) (by simp; omega)
    unfold bufP at this
    simp only [List.length_append, List.length_singleton] at this
    rw [this]
    simp [List.replicate_succ, Nat.add_assoc, Nat.add_comm 1 n]

/-- a literal that stays inside the line; the line wraps exactly when its last byte fills it -/
theorem paintLit16_spec (width y : Nat) (A B : Bytes) (hA : A.length = y * width) :
    ∀ (bs p rest : Bytes), p.length + bs.length ≤ width → bs ≠ [] →
      paintLit16 width bs.length (bs ++ rest) (bufP width A B p) p.length (y : Int)
        = .ok (bufP width A B (p ++ bs),
               (if p.length + bs.length = width then 0 else p.length + bs.length),
               (if p.length + bs.length = width then (y : Int) - 1 else (y : Int)), rest) := by
  intro bs
  induction bs with
  | nil => intro p rest _ h; exact absurd rfl h
  | cons v bs ih =>
    intro p rest hp _
    simp only [List.length_cons] at hp ⊢
    unfold paintLit16
    simp only [List.cons_append]
    rw [idx_cast, setAtI_nat]
    have e : y * width + p.length = A.length + p.length + 0 := by omega
    rw [e]
    unfold bufP
    rw [setAt_rowImg A B width 0 width p v (by omega) (by omega)]
    simp only
    cases bs with
    | nil =>
      simp only [List.length_nil, Nat.add_zero, Nat.zero_add, List.nil_append] at hp ⊢
      by_cases hw : p.length + 1 ≥ width
      · have h2 : p.length + 1 = width := by omega
        rw [if_pos hw, if_pos h2, if_pos h2]
        simp [paintLit16]
      · have h2 : ¬ (p.length + 1 = width) := by omega
        rw [if_neg hw, if_neg h2, if_neg h2]
        simp [paintLit16]
    | cons v2 bs2 =>
      simp only [List.length_cons] at hp ⊢
      have hlt : ¬ (p.length + 1 ≥ width) := by omega
      rw [if_neg hlt]
      have := ih (p ++ [v]) rest (by simp only [List.length_cons, List.length_append, List.length_nil]; omega) (by simp)
      unfold bufP at this
      simp only [List.length_append, List.length_cons, List.length_nil, Nat.zero_add] at this
      rw [this]
      have e1 : p.length + 1 + (bs2.length + 1) = p.length + (bs2.length + 1 + 1) := by omega
      simp only [e1, List.append_assoc, List.cons_append, List.nil_append]

end Drx.Bitd
