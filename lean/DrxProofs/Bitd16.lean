/-
  C06, 16 bits per pixel (zero offsets, operations confined to a byte plane): the PackBits loop of decoder16b.py
  fills the planar buffer line by line; the de-interleave loop turns it into BMP rows.
-/
import DrxProofs.Bitd1Top
namespace Drx.Bitd
open Drx Drx.Bitd.Spec

theorem setAtI_nat (d : Bytes) (n : Nat) (v : UInt8) : setAtI d (n : Int) v = setAt d n v := by
  unfold setAtI
  have : (0 : Int) ≤ (n : Int) := by omega
  simp only [this, if_true, Int.toNat_natCast]

theorem idx_cast (y width x : Nat) : ((y : Int) * (width : Int) + (x : Int)) = ((y * width + x : Nat) : Int) := by
  rw [Int.natCast_add, Int.natCast_mul]

/-- the planar buffer: lines below `A` untouched, the current line filled up to `p`, finished lines in `B` -/
def bufP (width : Nat) (A B p : Bytes) : Bytes := A ++ rowImg width 0 width p ++ B

theorem rowImg_full (width : Nat) (r : Bytes) (h : r.length = width) : rowImg width 0 width r = r := by
  unfold rowImg
  have : r.take width = r := by rw [← h]; simp
  rw [this]
  simp [zeros, h]

theorem paintRun16_spec (width y : Nat) (v : UInt8) (A B : Bytes) (hA : A.length = y * width) :
    ∀ (n : Nat) (p : Bytes), p.length + n ≤ width →
      paintRun16 width (y : Int) v n (bufP width A B p) p.length
        = .ok (bufP width A B (p ++ List.replicate n v), p.length + n) := by
  intro n
  induction n with
  | zero => intro p _; simp [paintRun16]
  | succ n ih =>
    intro p hp
    unfold paintRun16
    rw [idx_cast, setAtI_nat]
    have e : y * width + p.length = A.length + p.length + 0 := by omega
    rw [e]
    unfold bufP
    rw [setAt_rowImg A B width 0 width p v (by omega) (by omega)]
    simp only
    have := ih (p ++ [v]) (by simp; omega)
    unfold bufP at this
    simp only [List.length_append, List.length_singleton] at this
    rw [this]
    simp [List.replicate_succ, Nat.add_assoc, Nat.add_comm 1 n]

/-- a literal that stays inside the line; the line wraps exactly when its last byte fills it -/
theorem paintLit16_spec (width y : Nat) (A B : Bytes) (hA : A.length = y * width) :
    ∀ (bs p rest : Bytes), p.length + bs.length ≤ width → bs ≠ [] →
      paintLit16 width bs.length (bs ++ rest) (bufP width A B p) p.length (y : Int)
        = .ok (bufP width A B (p ++ bs),
               (if p.length + bs.length = width then 0 else p.length + bs.length),
               (if p.length + bs.length = width then (y : Int) - 1 else (y : Int)), rest) := by
  intro bs
  induction bs with
  | nil => intro p rest _ h; exact absurd rfl h
  | cons v bs ih =>
    intro p rest hp _
    simp only [List.length_cons] at hp ⊢
    unfold paintLit16
    simp only [List.cons_append]
    rw [idx_cast, setAtI_nat]
    have e : y * width + p.length = A.length + p.length + 0 := by omega
    rw [e]
    unfold bufP
    rw [setAt_rowImg A B width 0 width p v (by omega) (by omega)]
    simp only
    cases bs with
    | nil =>
      simp only [List.length_nil, Nat.zero_add, List.nil_append] at hp ⊢
      by_cases hw : p.length + 1 ≥ width
      · have h2 : p.length + 1 = width := by omega
        rw [if_pos hw, if_pos h2, if_pos h2]
        simp [paintLit16]
      · have h2 : ¬ (p.length + 1 = width) := by omega
        rw [if_neg hw, if_neg h2, if_neg h2]
        simp [paintLit16]
    | cons v2 bs2 =>
      simp only [List.length_cons] at hp ⊢
      have hlt : ¬ (p.length + 1 ≥ width) := by omega
      rw [if_neg hlt]
      have := ih (p ++ [v]) rest (by simp only [List.length_cons, List.length_append, List.length_nil]; omega) (by simp)
      unfold bufP at this
      simp only [List.length_append, List.length_cons, List.length_nil, Nat.zero_add] at this
      rw [this]
      have e1 : p.length + 1 + (bs2.length + 1) = p.length + (bs2.length + 1 + 1) := by omega
      simp only [e1, List.append_assoc, List.cons_append, List.nil_append]

/-- where the loop stands relative to the painted prefix `p` of line `y`: at it, or (line start only) still at the
    end of the line above, which a run filled without wrapping -/
def Pos (width x : Nat) (yI : Int) (plen y : Nat) : Prop :=
  (x = plen ∧ yI = (y : Int)) ∨ (plen = 0 ∧ x = width ∧ yI = (y : Int) + 1)

/-- line `y` is complete: wrapped to the next line (literal) or standing at its end (run) -/
def Done (width x : Nat) (yI : Int) (y : Nat) : Prop :=
  (x = 0 ∧ yI = (y : Int) - 1) ∨ (x = width ∧ yI = (y : Int))

theorem jump16_pos (width n x : Nat) (yI : Int) (plen y : Nat) (hpos : Pos width x yI plen y)
    (hn : 1 ≤ n) (hfit : plen + n ≤ width) :
    jump16 width n x yI = (plen, (y : Int)) := by
  unfold jump16
  rcases hpos with ⟨hx, hy⟩ | ⟨hp0, hx, hy⟩
  · rw [hx, hy]
    have h2 : ¬ (plen + n > width) := by omega
    simp only [h2, if_false]
  · rw [hx, hy, hp0]
    have h2 : width + n > width := by omega
    simp only [h2, if_true]
    congr 1; omega

theorem loop16_nil (width : Nat) (data : Bytes) (x : Nat) (yI : Int) : loop16 width [] data x yI = .ok data := by
  rw [loop16]; split <;> rfl

theorem loop16_neg (width : Nat) (rest data : Bytes) (x : Nat) (yI : Int) (h : yI < 0) : loop16 width rest data x yI = .ok data := by
  rw [loop16.eq_def]; simp [h]

theorem loop16_run (width n : Nat) (v : UInt8) (rest data : Bytes) (x : Nat) (yI : Int) (x0 : Nat) (y0 : Int)
    (h2 : 2 ≤ n) (h128 : n ≤ 128) (hy : 0 ≤ yI) (hj : jump16 width n x yI = (x0, y0)) :
    loop16 width ((Op.run n v).bytes ++ rest) data x yI =
      match paintRun16 width y0 v n data x0 with
      | .error e => .error e
      | .ok (data, x) => loop16 width rest data x y0 := by
  have e1 : (UInt8.ofNat (257 - n)).toNat = 257 - n := by
    simp only [UInt8.toNat_ofNat']; omega
  simp only [Op.bytes, List.cons_append, List.nil_append]
  rw [loop16]
  have e0 : ¬ (yI < 0) := by omega
  have e2 : (257 - n ≥ 128) := by omega
  have e3 : 257 - (257 - n) = n := by omega
  simp only [e0, e1, e2, e3, if_true, if_false, hj]
  cases paintRun16 width y0 v n data x0 with
  | error e => rfl
  | ok a => cases a; rfl

theorem loop16_lit (width : Nat) (bs : Bytes) (rest data : Bytes) (x : Nat) (yI : Int) (x0 : Nat) (y0 : Int)
    (h1 : 1 ≤ bs.length) (h128 : bs.length ≤ 128) (hy : 0 ≤ yI) (hj : jump16 width bs.length x yI = (x0, y0)) :
    loop16 width ((Op.lit bs).bytes ++ rest) data x yI =
      match paintLit16 width bs.length (bs ++ rest) data x0 y0 with
      | .error e => .error e
      | .ok (data, x, y, r2) => loop16 width r2 data x y := by
  have e1 : (UInt8.ofNat (bs.length - 1)).toNat = bs.length - 1 := by
    simp only [UInt8.toNat_ofNat']; omega
  simp only [Op.bytes, List.cons_append]
  rw [loop16.eq_def]
  have e0 : ¬ (yI < 0) := by omega
  have e2 : ¬ (bs.length - 1 ≥ 128) := by omega
  have e3 : bs.length - 1 + 1 = bs.length := by omega
  simp only [e0, e1, e2, if_false]
  split <;> rename_i heq <;> rw [e1, e3, hj] at heq <;> simp only [heq]

/-- one operation of a line: it starts at the end of the painted prefix (or is moved there from the end of the line
    above) and leaves the loop at the new end, or on the next line when a literal filled the line -/
theorem loop16_op (width y : Nat) (A B : Bytes) (hA : A.length = y * width)
    (o : Op) (hv : o.valid = true) (p rest : Bytes) (x : Nat) (yI : Int) (hpos : Pos width x yI p.length y)
    (hfit : p.length + o.expand.length ≤ width) :
    ∃ x' yI', ((p.length + o.expand.length < width ∧ x' = p.length + o.expand.length ∧ yI' = (y : Int)) ∨
               (p.length + o.expand.length = width ∧ Done width x' yI' y)) ∧
      loop16 width (o.bytes ++ rest) (bufP width A B p) x yI = loop16 width rest (bufP width A B (p ++ o.expand)) x' yI' := by
  have hyI : 0 ≤ yI := by rcases hpos with ⟨_, h⟩ | ⟨_, _, h⟩ <;> omega
  have hlen := expand_length_pos o hv
  have hj := jump16_pos width o.expand.length x yI p.length y hpos hlen hfit
  cases o with
  | lit bs =>
    simp only [Op.valid, Bool.and_eq_true, decide_eq_true_eq] at hv
    simp only [Op.expand] at hfit hj hlen ⊢
    rw [loop16_lit width bs rest _ x yI _ _ hv.1 hv.2 hyI hj]
    rw [paintLit16_spec width y A B hA bs p rest hfit (by intro h; subst h; simp at hlen)]
    by_cases hfull : p.length + bs.length = width
    · refine ⟨0, (y : Int) - 1, Or.inr ⟨hfull, Or.inl ⟨rfl, rfl⟩⟩, ?_⟩
      simp only [hfull, if_true]
    · refine ⟨p.length + bs.length, (y : Int), Or.inl ⟨by omega, rfl, rfl⟩, ?_⟩
      simp only [hfull, if_false]
  | run n v =>
    simp only [Op.valid, Bool.and_eq_true, decide_eq_true_eq] at hv
    simp only [Op.expand, List.length_replicate] at hfit hj hlen ⊢
    rw [loop16_run width n v rest _ x yI _ _ hv.1 hv.2 hyI hj]
    rw [paintRun16_spec width y v A B hA n p hfit]
    refine ⟨p.length + n, (y : Int), ?_, rfl⟩
    by_cases hfull : p.length + n = width
    · exact Or.inr ⟨hfull, Or.inr ⟨hfull, rfl⟩⟩
    · exact Or.inl ⟨by omega, rfl, rfl⟩

theorem loop16_ops (width y : Nat) (A B : Bytes) (hA : A.length = y * width) (rest : Bytes) :
    ∀ (ops : List Op) (p : Bytes) (x : Nat) (yI : Int), Pos width x yI p.length y →
      (∀ o ∈ ops, o.valid = true) → ops ≠ [] → p.length + (unpack ops).length = width →
      ∃ x' yI', Done width x' yI' y ∧
        loop16 width (packed ops ++ rest) (bufP width A B p) x yI
          = loop16 width rest (bufP width A B (p ++ unpack ops)) x' yI' := by
  intro ops
  induction ops with
  | nil => intro p x yI _ _ h; exact absurd rfl h
  | cons o os ih =>
    intro p x yI hpos hv _ hlen
    have hvo := hv o (by simp)
    have hvos : ∀ o' ∈ os, o'.valid = true := fun o' h => hv o' (by simp [h])
    simp only [unpack, packed, List.flatMap_cons, List.length_append, List.append_assoc] at hlen ⊢
    obtain ⟨x1, y1, hcase, heq⟩ := loop16_op width y A B hA o hvo p (List.flatMap Op.bytes os ++ rest) x yI hpos (by omega)
    rw [heq]
    have hpos1 := expand_length_pos o hvo
    cases os with
    | nil =>
      simp only [List.flatMap_nil, List.length_nil, Nat.add_zero, List.nil_append, List.append_nil] at hlen ⊢
      rcases hcase with ⟨hlt, _, _⟩ | ⟨_, hdone⟩
      · omega
      · exact ⟨x1, y1, hdone, rfl⟩
    | cons o2 os2 =>
      have hpos2 := expand_length_pos o2 (hvos o2 (by simp))
      rcases hcase with ⟨hlt, hx1, hy1⟩ | ⟨hfull, _⟩
      · have hp' : Pos width x1 y1 (p ++ o.expand).length y := Or.inl ⟨by simp [hx1], hy1⟩
        obtain ⟨x2, y2, hdone, heq2⟩ := ih (p ++ o.expand) x1 y1 hp' hvos (by simp)
          (by simp only [unpack, List.length_append]; omega)
        refine ⟨x2, y2, hdone, ?_⟩
        simp only [unpack, packed] at heq2
        rw [heq2]
        simp [List.append_assoc]
      · simp only [List.flatMap_cons, List.length_append] at hlen; omega

def RowStart (width x : Nat) (yI : Int) (y : Nat) : Prop := Pos width x yI 0 y

/-- all lines of a planar image (`y + 1` of them, top line first) fill the buffer from file row `y` down to 0 -/
theorem loop16_rows (width : Nat) (hpos : 0 < width) :
    ∀ (opsRows : List (List Op)) (rows : List Bytes) (y : Nat) (B : Bytes) (x : Nat) (yI : Int), RowStart width x yI y →
      validRows opsRows rows = true → rows.length = y + 1 → (∀ r ∈ rows, r.length = width) →
      loop16 width (packed opsRows.flatten) (zeros ((y + 1) * width) ++ B) x yI = .ok (rows.reverse.flatten ++ B) := by
  intro opsRows
  induction opsRows with
  | nil =>
    intro rows y B x yI _ hv hl _
    cases rows with
    | nil => simp at hl
    | cons r rs => simp [validRows] at hv
  | cons ops os ih =>
    intro rows y B x yI hstart hv hl hlen
    cases rows with
    | nil => simp [validRows] at hv
    | cons r rs =>
      simp only [validRows, Bool.and_eq_true, List.all_eq_true, beq_iff_eq] at hv
      obtain ⟨⟨hvo, hun⟩, hvr⟩ := hv
      have hr : r.length = width := hlen r (by simp)
      have hne : ops ≠ [] := by
        intro h; subst h; simp [unpack] at hun; subst hun; simp at hr; omega
      have hz : zeros ((y + 1) * width) = zeros (y * width) ++ rowImg width 0 width [] := by
        rw [rowImg_nil _ _ _ (by omega), ← zeros_add]; congr 1; rw [Nat.add_mul]; simp
      obtain ⟨x1, y1, hdone, hstep⟩ := loop16_ops width y (zeros (y * width)) B (by simp) (packed os.flatten) ops [] x yI
        hstart hvo hne (by simp [hun, hr])
      simp only [bufP, List.nil_append] at hstep
      have hpk : packed (ops :: os).flatten = packed ops ++ packed os.flatten := by simp [packed]
      rw [hpk, hz]
      simp only [List.append_assoc] at hstep ⊢
      rw [hstep, hun, rowImg_full width r hr]
      by_cases hy : y = 0
      · subst hy
        have : rs = [] := by simp at hl; exact hl
        subst this
        have hos : os = [] := by
          cases os with
          | nil => rfl
          | cons a b => simp [validRows] at hvr
        subst hos
        simp only [List.flatten_nil, packed, List.flatMap_nil]
        rw [loop16_nil]
        simp [zeros_zero]
      · obtain ⟨y', rfl⟩ : ∃ y', y = y' + 1 := ⟨y - 1, by omega⟩
        have hl' : rs.length = y' + 1 := by simp at hl; omega
        have hstart' : RowStart width x1 y1 y' := by
          rcases hdone with ⟨hx, hy1⟩ | ⟨hx, hy1⟩
          · exact Or.inl ⟨hx, by rw [hy1]; omega⟩
          · exact Or.inr ⟨rfl, hx, by rw [hy1]; omega⟩
        have := ih rs y' (r ++ B) x1 y1 hstart' hvr hl' (fun r' h => hlen r' (by simp [h]))
        rw [this]
        simp [List.append_assoc]

end Drx.Bitd
