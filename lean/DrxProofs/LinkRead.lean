/-
  The tokens of the model's text are the reference printer's tokens in the decompiler's layout (`Spec.printLingoLW dLayout`),
  so agent-lspec's script-level reader theorem `rp_scriptW` applies to what the model prints.
-/
import Drx.Link
import DrxProofs.LinkLexText
import DrxProofs.SpecScript
import DrxProofs.LinkWhile
namespace Drx.Link
open Drx Drx.Spec
set_option linter.unusedSimpArgs false
set_option linter.unusedVariables false

/-- where the decompiler writes blank lines -/
def dLayout : Layout := { afterFactory := 1, afterGlobals := 1, afterInstance := 1, afterHGlobals := 1, betweenHandlers := 1 }

theorem dGlobalLines_eq (gl : List Spec.Name) : dGlobalLines gl = globalLines gl ++ (if gl = [] then [] else nls dLayout.afterHGlobals) := by
  cases gl <;> simp [dGlobalLines, globalLines, dLayout, nls]

theorem dHandler_eq (s : Spec.Script) (h : Handler) (hm : h.isMethod = false) : dHandler s h = prHandlerLW dLayout s h := by
  have hgl : hGlobalsSorted s h = hGlobals s h := rfl
  simp [dHandler, prHandlerLW, prPre, hm, hgl, handlerKw, dGlobalLines_eq]

theorem dHandlers_eq (s : Spec.Script) : ∀ (hs : List Handler), (∀ h ∈ hs, h.isMethod = false) →
    dHandlers s hs true = prHandlersLW dLayout s hs ∧ (hs ≠ [] → dHandlers s hs false = .nl :: prHandlersLW dLayout s hs)
  | [], _ => ⟨rfl, fun h => absurd rfl h⟩
  | [h], hf => by
    have e := dHandler_eq s h (hf h (by simp))
    simp [dHandlers, prHandlersLW, e]
  | h :: h2 :: hs, hf => by
    have e := dHandler_eq s h (hf h (by simp))
    obtain ⟨_, ih⟩ := dHandlers_eq s (h2 :: hs) (fun x hx => hf x (by simp [hx]))
    have ih' := ih (by simp)
    have e1 : dHandlers s (h :: h2 :: hs) true = dHandler s h ++ dHandlers s (h2 :: hs) false := by
      show (if true = true then [] else [Tok.nl]) ++ dHandler s h ++ dHandlers s (h2 :: hs) false = _
      simp
    have e2 : dHandlers s (h :: h2 :: hs) false = .nl :: (dHandler s h ++ dHandlers s (h2 :: hs) false) := by
      show (if false = true then [] else [Tok.nl]) ++ dHandler s h ++ dHandlers s (h2 :: hs) false = _
      simp
    have e3 : prHandlersLW dLayout s (h :: h2 :: hs) = prHandlerLW dLayout s h ++ (.nl :: prHandlersLW dLayout s (h2 :: hs)) := by
      show prHandlerLW dLayout s h ++ (nls dLayout.betweenHandlers ++ prHandlersLW dLayout s (h2 :: hs)) = _
      rfl
    constructor
    · rw [e1, e, ih', e3]
    · intro _
      rw [e2, e, ih', e3]

theorem dToks_eqg (s : Spec.Script) (hfac : s.factory = []) (hH : ∀ h ∈ s.handlers, h.isMethod = false) :
    dToks s = printLingoLW dLayout s := by
  unfold dToks printLingoLW prHeaderL
  rw [(dHandlers_eq s s.handlers hH).1]
  congr 1
  by_cases hp : s.props = [] <;> by_cases hg : s.globals = [] <;>
    simp [hp, hg, hfac, globalLines, dLayout, nls, List.length_pos_iff]

theorem dToks_eq (s : Spec.Script) (hf : FragScript s = true) : dToks s = printLingoLW dLayout s := by
  have hfac : s.factory = [] := (fragScript_spec s hf).1
  have hH : ∀ h ∈ s.handlers, FragH s h = true := by
    simp only [FragScript, Bool.and_eq_true, List.all_eq_true] at hf
    exact hf.2
  exact dToks_eqg s hfac (fun h hh => (fragH_spec s h (hH h hh)).1)

theorem dToks_eq_structured (s : Spec.Script) (hf : FragScriptX s = true) : dToks s = printLingoLW dLayout s := by
  simp only [FragScriptX, Bool.and_eq_true, List.all_eq_true, List.isEmpty_iff] at hf
  exact dToks_eqg s hf.1.1.1 (fun h hh => (fragHX_spec s h (hf.2 h hh)).1)

/-! ### a Boolean form of agent-lspec's fragment predicate (for the constructs of the link fragment) -/

def plainIdB (n : Spec.Name) : Bool :=
  !(Tok.id n).kw "not" && !(Tok.id n).kw "sprite" && !(Tok.id n).kw "the" && !(Tok.id n).kw "field" && (chunkOfSingular n).isNone

theorem plainIdB_spec (n : Spec.Name) (h : plainIdB n = true) : PlainId n := by
  simp only [plainIdB, Bool.and_eq_true, Bool.not_eq_true', Option.isNone_iff_eq_none] at h
  obtain ⟨⟨⟨⟨h1, h2⟩, h3⟩, h4⟩, h5⟩ := h
  exact ⟨h1, h2, h3, h4, h5⟩

def simpleIsKey (n : Spec.Name) : Bool := match theSimple n with | .key m => decide (m = n) | _ => false
def simpleIsMovie (n : Spec.Name) : Bool := match theSimple n with | .movie m => decide (m = n) | _ => false

theorem simpleIsKey_spec (n : Spec.Name) (h : simpleIsKey n = true) : theSimple n = .key n := by
  unfold simpleIsKey at h
  split at h
  · rename_i m heq; rw [heq, of_decide_eq_true h]
  · cases h

theorem simpleIsMovie_spec (n : Spec.Name) (h : simpleIsMovie n = true) : theSimple n = .movie n := by
  unfold simpleIsMovie at h
  split at h
  · rename_i m heq; rw [heq, of_decide_eq_true h]
  · cases h

/-- the tree's variable is what the reader's environment resolves the name to (assignment / receiver position) -/
def resolvesVarB (env : Env) (k : VarKind) (n : Spec.Name) : Bool :=
  match env.resolveVar n with
  | .var k' n' => decide (k' = k) && decide (n' = n)
  | _ => false

theorem resolvesVarB_spec (env : Env) (k : VarKind) (n : Spec.Name) (h : resolvesVarB env k n = true) : env.resolveVar n = .var k n := by
  unfold resolvesVarB at h
  split at h
  · rename_i k' n' heq
    simp only [Bool.and_eq_true, decide_eq_true_eq] at h
    rw [heq, h.1, h.2]
  · cases h

/-- receiver of `obj(mSel, …)`: a variable the reader knows as one -/
def recvB (env : Env) : Expr → Bool
  | .var k n => plainIdB n && env.isVar n && resolvesVarB env k n
  | _ => false

theorem recvB_spec (env : Env) (o : Expr) (h : recvB env o = true) : RecvOk env o := by
  cases o with
  | var k n =>
    simp only [recvB, Bool.and_eq_true] at h
    exact ⟨n, rfl, plainIdB_spec n h.1.1, h.1.2, resolvesVarB_spec env k n h.2⟩
  | _ => simp [recvB] at h

/-- receiver of the command form `obj mSel, …` -/
def recvSB (env : Env) : Expr → Bool
  | .var k n => cmdName n && !(Tok.id n).kw "sound" && env.isVar n && resolvesVarB env k n
  | _ => false

theorem recvSB_spec (env : Env) (o : Expr) (h : recvSB env o = true) : RecvStmtOk env o := by
  cases o with
  | var k n =>
    simp only [recvSB, Bool.and_eq_true, Bool.not_eq_true'] at h
    exact ⟨n, rfl, h.1.1.1, h.1.1.2, h.1.2, resolvesVarB_spec env k n h.2⟩
  | _ => simp [recvSB] at h

mutual
/-- `Spec.Frag env e`, decidable form -/
def fragEB (env : Env) : Expr → Bool
  | .int _ => true
  | .str _ => true
  | .sym _ => true
  | .var k n => plainIdB n && resolvesTo env n k
  | .un _ a => fragEB env a
  | .bin _ a b => fragEB env a && fragEB env b
  | .field a => fragEB env a
  | .call f as => plainIdB f && !env.isVar f && fragLB env as
  | .mcall o _ as => recvB env o && fragLB env as
  | .list as => fragLB env as
  | .plist as => decide (as.length % 2 = 0) && fragLB env as
  | .the t k as => TheOk t k as.length && fragLB env as
  | .key n => plainThe n && isObjectless n && simpleIsKey n
  | .movie n => plainThe n && isObjectless n && simpleIsMovie n
  | .oprop n o => plainThe n && !isObjectless n && headNotObj (prE o) && fragEB env o
  | .chunk _ a b d => fragEB env a && fragEB env b && fragEB env d
  | _ => false
def fragLB (env : Env) : List Expr → Bool
  | [] => true
  | e :: es => fragEB env e && fragLB env es
end

mutual
theorem fragEB_spec (env : Env) : ∀ (e : Expr), fragEB env e = true → Spec.Frag env e
  | .int _, _ => by simp [Spec.Frag]
  | .var k n, h => by
    simp only [fragEB, Bool.and_eq_true] at h
    simp only [Spec.Frag]
    exact ⟨plainIdB_spec n h.1, h.2⟩
  | .un _ a, h => by
    simp only [fragEB] at h
    simp only [Spec.Frag]
    exact fragEB_spec env a h
  | .bin _ a b, h => by
    simp only [fragEB, Bool.and_eq_true] at h
    simp only [Spec.Frag]
    exact ⟨fragEB_spec env a h.1, fragEB_spec env b h.2⟩
  | .field a, h => by
    simp only [fragEB] at h
    simp only [Spec.Frag]
    exact fragEB_spec env a h
  | .call f as, h => by
    simp only [fragEB, Bool.and_eq_true, Bool.not_eq_true'] at h
    simp only [Spec.Frag]
    exact ⟨plainIdB_spec f h.1.1, h.1.2, fragLB_spec env as h.2⟩
  | .list as, h => by
    simp only [fragEB] at h
    simp only [Spec.Frag]
    exact fragLB_spec env as h
  | .str _, _ => by simp [Spec.Frag]
  | .float _ _, h => by simp [fragEB] at h
  | .sym _, _ => by simp [Spec.Frag]
  | .me, h => by simp [fragEB] at h
  | .mcall o _ as, h => by
    simp only [fragEB, Bool.and_eq_true] at h
    simp only [Spec.Frag]
    exact ⟨recvB_spec env o h.1, fragLB_spec env as h.2⟩
  | .plist as, h => by
    simp only [fragEB, Bool.and_eq_true, decide_eq_true_eq] at h
    simp only [Spec.Frag]
    exact ⟨h.1, fragLB_spec env as h.2⟩
  | .the t k as, h => by
    simp only [fragEB, Bool.and_eq_true] at h
    simp only [Spec.Frag]
    exact ⟨h.1, fragLB_spec env as h.2⟩
  | .key n, h => by
    simp only [fragEB, Bool.and_eq_true] at h
    simp only [Spec.Frag]
    exact ⟨plainThe_spec n h.1.1, h.1.2, simpleIsKey_spec n h.2⟩
  | .movie n, h => by
    simp only [fragEB, Bool.and_eq_true] at h
    simp only [Spec.Frag]
    exact ⟨plainThe_spec n h.1.1, h.1.2, simpleIsMovie_spec n h.2⟩
  | .oprop n o, h => by
    simp only [fragEB, Bool.and_eq_true, Bool.not_eq_true'] at h
    simp only [Spec.Frag]
    exact ⟨plainThe_spec n h.1.1.1, h.1.1.2, h.1.2, fragEB_spec env o h.2⟩
  | .chunk k a b d, h => by
    simp only [fragEB, Bool.and_eq_true] at h
    simp only [Spec.Frag]
    exact ⟨fragEB_spec env a h.1.1, fragEB_spec env b h.1.2, fragEB_spec env d h.2⟩
theorem fragLB_spec (env : Env) : ∀ (es : List Expr), fragLB env es = true → Spec.FragL env es
  | [], _ => by simp [Spec.FragL]
  | e :: es, h => by
    simp only [fragLB, Bool.and_eq_true] at h
    simp only [Spec.FragL]
    exact ⟨fragEB_spec env e h.1, fragLB_spec env es h.2⟩
end

/-- assignment target: a variable the environment classifies the way the tree does -/
def lvB (env : Env) : Expr → Bool
  | .var k n => plainIdB n && (match env.resolveVar n with | .var k' n' => decide (k' = k) && decide (n' = n) | _ => false)
  | .the t k as => fragEB env (.the t k as)
  | .oprop n o => fragEB env (.oprop n o)
  | .movie n => fragEB env (.movie n)
  | _ => false

theorem lvB_spec (env : Env) (lv : Expr) (h : lvB env lv = true) : LvOk env lv := by
  cases lv with
  | var k n =>
    simp only [lvB, Bool.and_eq_true] at h
    refine Or.inl ⟨n, rfl, plainIdB_spec n h.1, ?_⟩
    have h2 := h.2
    split at h2
    · rename_i k' n' heq
      simp only [Bool.and_eq_true, decide_eq_true_eq] at h2
      rw [heq, h2.1, h2.2]
    · cases h2
  | the t k as =>
    simp only [lvB] at h
    exact Or.inr ⟨rfl, fragEB_spec env _ h⟩
  | oprop n o =>
    simp only [lvB] at h
    exact Or.inr ⟨rfl, fragEB_spec env _ h⟩
  | movie n =>
    simp only [lvB] at h
    exact Or.inr ⟨rfl, fragEB_spec env _ h⟩
  | _ => simp [lvB] at h

/-- target of `put` / `delete` / `hilite`: a variable the environment classifies the way the tree does, `field e`, a chunk -/
def tgB (env : Env) : Expr → Bool
  | .var k n => lvB env (.var k n)
  | .field e => fragEB env (.field e)
  | .chunk c a b d => fragEB env (.chunk c a b d)
  | _ => false

theorem tgB_spec (env : Env) (lv : Expr) (h : tgB env lv = true) : LvOk env lv := by
  cases lv with
  | var k n => exact lvB_spec env _ (by simpa only [tgB] using h)
  | field e => simp only [tgB] at h; exact Or.inr ⟨rfl, fragEB_spec env _ h⟩
  | chunk c a b d => simp only [tgB] at h; exact Or.inr ⟨rfl, fragEB_spec env _ h⟩
  | _ => simp [tgB] at h

/-- loop variable of `repeat with`: a variable the environment classifies the way the tree does -/
def varOkB (env : Env) : Expr → Bool
  | .var k n => (match env.resolveVar n with | .var k' n' => decide (k' = k) && decide (n' = n) | _ => false)
  | _ => false

theorem varOkB_spec (env : Env) (v : Expr) (h : varOkB env v = true) : VarOk env v := by
  cases v with
  | var k n =>
    simp only [varOkB] at h
    refine ⟨n, rfl, ?_⟩
    split at h
    · rename_i k' n' heq
      simp only [Bool.and_eq_true, decide_eq_true_eq] at h
      rw [heq, h.1, h.2]
    · cases h
  | _ => simp [varOkB] at h

mutual
def fragSB (env : Env) : Stmt → Bool
  | .set lv v => lvB env lv && fragEB env v
  | .call f as => (decide (f = "put".toList) || (cmdName f && !(Tok.id f).kw "sound" && !(Tok.id f).kw "go" && !env.isVar f)
      || (decide (f = "sound".toList) && (match as with | .sym _ :: _ => true | _ => false))
      || (decide (f = "go".toList) && !env.isVar f && (match as with | [.sym w] => goWord w | _ => false))) && fragLB env as
  | .exit => true
  | .put md v lv => fragEB env v && tgB env lv && (decide (md ≠ .into) || lvKind lv)
  | .delete t => tgB env t
  | .hilite t => tgB env t
  | .mcall o _ as => recvSB env o && fragLB env as
  | .ifThen c t e => fragEB env c && fragSsB env t && fragSsB env e
  | .repeatWhile c b => fragEB env c && fragSsB env b
  | .repeatWith v a b _ body => varOkB env v && fragEB env a && fragEB env b && fragSsB env body
  | .repeatIn v l body => varOkB env v && fragEB env l && fragSsB env body
  | _ => false
def fragSsB (env : Env) : List Stmt → Bool
  | [] => true
  | s :: ss => fragSB env s && fragSsB env ss
end

mutual
theorem fragSB_spec (env : Env) : ∀ (s : Stmt), fragSB env s = true → Spec.FragS env s
  | .set lv v, h => by
    simp only [fragSB, Bool.and_eq_true] at h
    simp only [Spec.FragS]
    exact ⟨lvB_spec env lv h.1, fragEB_spec env v h.2⟩
  | .call f as, h => by
    simp only [fragSB, Bool.and_eq_true, Bool.or_eq_true, decide_eq_true_eq, Bool.not_eq_true'] at h
    simp only [Spec.FragS]
    refine ⟨?_, fragLB_spec env as h.2⟩
    rcases h.1 with ((hp | hc) | hs) | hg
    · exact Or.inl hp
    · exact Or.inr (Or.inr (Or.inr ⟨hc.1.1.1, hc.1.1.2, hc.1.2, hc.2⟩))
    · refine Or.inr (Or.inl ⟨hs.1, ?_⟩)
      have h2 := hs.2
      split at h2
      · rename_i m more; exact ⟨m, more, rfl⟩
      · cases h2
    · refine Or.inr (Or.inr (Or.inl ⟨hg.1.1, hg.1.2, ?_⟩))
      have h2 := hg.2
      split at h2
      · rename_i w; exact ⟨w, rfl, h2⟩
      · cases h2
  | .exit, _ => by simp [Spec.FragS]
  | .ifThen c t e, h => by
    simp only [fragSB, Bool.and_eq_true] at h
    simp only [Spec.FragS]
    exact ⟨fragEB_spec env c h.1.1, fragSsB_spec env t h.1.2, fragSsB_spec env e h.2⟩
  | .repeatWhile c b, h => by
    simp only [fragSB, Bool.and_eq_true] at h
    simp only [Spec.FragS]
    exact ⟨fragEB_spec env c h.1, fragSsB_spec env b h.2⟩
  | .repeatWith v a b d body, h => by
    simp only [fragSB, Bool.and_eq_true] at h
    simp only [Spec.FragS]
    exact ⟨varOkB_spec env v h.1.1.1, fragEB_spec env a h.1.1.2, fragEB_spec env b h.1.2, fragSsB_spec env body h.2⟩
  | .put md v lv, h => by
    simp only [fragSB, Bool.and_eq_true, Bool.or_eq_true, decide_eq_true_eq] at h
    simp only [Spec.FragS]
    exact ⟨fragEB_spec env v h.1.1, tgB_spec env lv h.1.2, fun hm => h.2.resolve_left (fun hne => hne hm)⟩
  | .delete t, h => by
    simp only [fragSB] at h
    simp only [Spec.FragS]
    exact tgB_spec env t h
  | .hilite t, h => by
    simp only [fragSB] at h
    simp only [Spec.FragS]
    exact tgB_spec env t h
  | .mcall o _ as, h => by
    simp only [fragSB, Bool.and_eq_true] at h
    simp only [Spec.FragS]
    exact ⟨recvSB_spec env o h.1, fragLB_spec env as h.2⟩
  | .tell .., h => by simp [fragSB] at h
  | .repeatIn v l body, h => by
    simp only [fragSB, Bool.and_eq_true] at h
    simp only [Spec.FragS]
    exact ⟨varOkB_spec env v h.1.1, fragEB_spec env l h.1.2, fragSsB_spec env body h.2⟩
  | .exitRepeat, h => by simp [fragSB] at h
theorem fragSsB_spec (env : Env) : ∀ (ss : List Stmt), fragSsB env ss = true → Spec.FragSs env ss
  | [], _ => by simp [Spec.FragSs]
  | s :: ss, h => by
    simp only [fragSsB, Bool.and_eq_true] at h
    simp only [Spec.FragSs]
    exact ⟨fragSB_spec env s h.1, fragSsB_spec env ss h.2⟩
end

/-- `HandlersOkW`, decidable form: every body is checked under the environment the reference reader builds for that handler
    from the printed tokens (parameters, declared globals, property names, handler names, assigned names) -/
def handlersOkB (se : ScriptEnv) (L : Layout) (s : Spec.Script) : List Handler → Bool
  | [] => true
  | h :: hs =>
    fragSsB (handlerEnv se h.isMethod h.params (prPre L s h ++ (prSsW h.body ++ kw "end" :: .nl :: afterHandlerW L s hs))) h.body
      && handlersOkB se L s hs

theorem handlersOkB_spec (se : ScriptEnv) (L : Layout) (s : Spec.Script) : ∀ (hs : List Handler), handlersOkB se L s hs = true →
    HandlersOkW se L s hs
  | [], _ => trivial
  | h :: hs, hb => by
    simp only [handlersOkB, Bool.and_eq_true] at hb
    exact ⟨fragSsB_spec _ _ hb.1, handlersOkB_spec se L s hs hb.2⟩

/-- **the reader-side condition, explicit and decidable**: the identifiers of every handler are no words of the expression
    grammar and are classified by the reader's environment (built from the printed text itself) the way the tree says -/
def ReadOkB (s : Spec.Script) : Bool :=
  decide ((if s.props ≠ [] ∧ s.factory = [] then s.props else []) ++ s.handlers.flatMap (instDecl s) = s.props)
    && handlersOkB (scriptEnvOfW dLayout s) dLayout s s.handlers

theorem readOkB_spec (s : Spec.Script) (h : ReadOkB s = true) : ScriptOkW dLayout s := by
  simp only [ReadOkB, Bool.and_eq_true, decide_eq_true_eq] at h
  exact ⟨h.1, handlersOkB_spec _ _ _ _ h.2⟩

theorem read_dToks (s : Spec.Script) (hf : FragScript s = true) (hr : ReadOkB s = true) : Spec.parseScript (dToks s) = some s := by
  rw [dToks_eq s hf]
  exact rp_scriptW dLayout s (readOkB_spec s hr)

theorem read_dToks_structured (s : Spec.Script) (hf : FragScriptX s = true) (hr : ReadOkB s = true) :
    Spec.parseScript (dToks s) = some s := by
  rw [dToks_eq_structured s hf]
  exact rp_scriptW dLayout s (readOkB_spec s hr)

end Drx.Link
