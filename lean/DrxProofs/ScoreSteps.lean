/-
  C10, score family: bounds on the exact loop-round twins of Drx/ScoreSteps.lean, for ANY input bytes.
-/
import Drx.ScoreSteps
import Drx.ScoreSpec
import DrxProofs.Py
import DrxProofs.VwscRect
import DrxProofs.VwscSteps
namespace Drx.Vwsc
open Drx

theorem slice_length_le (d : Bytes) (a b : Nat) : (slice d a b).length ≤ d.length - a := by
  simp [slice, List.length_take, List.length_drop]; omega

theorem getS_ok_len (o : Order) (k : Nat) (hk : 0 < k) (d : Bytes) (off : Nat) (v : Int) (h : getS o k d off = .ok v) :
    off + k ≤ d.length := by
  unfold getS unpackS at h
  split at h
  · rename_i hl
    have := slice_length_le d off (off + k)
    omega
  · cases h

theorem patchRounds_le (buf : Bytes) (p n : Nat) (data : Bytes) :
    patchRounds buf p n data ≤ n ∧ patchRounds buf p n data ≤ data.length + 1 := by
  induction n generalizing buf p data with
  | zero => simp [patchRounds]
  | succ n ih =>
    cases data with
    | nil => simp [patchRounds]
    | cons b bs =>
      simp only [patchRounds]
      split
      · have := ih (buf.set p b) (p + 1) bs
        simp only [List.length_cons]; omega
      · simp

theorem patch_ok_len (buf : Bytes) (p n : Nat) (data b : Bytes) (h : patch buf p n data = .ok b) : n ≤ data.length := by
  induction n generalizing buf p data with
  | zero => omega
  | succ n ih =>
    cases data with
    | nil => simp [patch] at h
    | cons x xs =>
      simp only [patch] at h
      split at h
      · have := ih _ _ _ h; simp; omega
      · cases h

/-- inner loops of one record: the copy rounds and the delta rounds are bounded both by what the record's size word announces
    and by the bytes that are really there -/
theorem deltaWork_bounds (d buf : Bytes) (idx : Nat) (cs : Int) :
    (deltaWork d buf idx cs).2 ≤ cs.toNat ∧ (deltaWork d buf idx cs).2 ≤ d.length - idx ∧
    (deltaWork d buf idx cs).1 ≤ cs.toNat ∧ (deltaWork d buf idx cs).1 ≤ d.length - idx + 1 := by
  fun_induction deltaWork d buf idx cs with
  | case1 buf idx cs hcs e he => simp; omega
  | case2 buf idx cs hcs ds hds hbr => simp; omega
  | case3 buf idx cs hcs ds hds hbr e he => simp; omega
  | case4 buf idx cs hcs ds hds hbr off0 hoff deltaOffset n deltaData r e he =>
    have h1 := getS_ok_len _ 2 (by decide) _ _ _ hoff
    have hr := patchRounds_le buf deltaOffset.toNat n deltaData
    have hl := slice_length_le d (idx + 4) (idx + 4 + n)
    simp only [r, deltaData] at *
    refine ⟨?_, ?_, ?_, ?_⟩ <;> simp only [n] at * <;> omega
  | case5 buf idx cs hcs ds hds hbr off0 hoff deltaOffset n deltaData r buf' hp w ih =>
    have h1 := getS_ok_len _ 2 (by decide) _ _ _ hoff
    have hr := patchRounds_le buf deltaOffset.toNat n deltaData
    have hl := slice_length_le d (idx + 4) (idx + 4 + n)
    have hn := patch_ok_len _ _ _ _ _ hp
    simp only [r, deltaData, w] at *
    obtain ⟨i1, i2, i3, i4⟩ := ih
    refine ⟨?_, ?_, ?_, ?_⟩ <;> simp only [n] at * <;> omega
  | case6 buf idx cs hcs => simp

theorem spriteRounds_nil (lay : Layout) : spriteRounds lay [] = 0 := by rw [spriteRounds.eq_def]

theorem spriteRounds_le (lay : Layout) (rest : Bytes) : spriteRounds lay rest * lay.frameSize ≤ rest.length + (lay.frameSize - 1) := by
  fun_induction spriteRounds lay rest with
  | case1 => simp
  | case2 b bs e he =>
    have := lay.frameSize_pos
    simp only [he, List.length_cons, Nat.one_mul]; omega
  | case3 b bs s hs ih =>
    have hp := lay.frameSize_pos
    simp only [hs]
    rw [Nat.add_mul, Nat.one_mul]
    by_cases hsmall : (b :: bs).length ≤ lay.frameSize
    · rw [List.drop_of_length_le hsmall, spriteRounds_nil]; simp; omega
    · simp only [List.length_drop, List.length_cons] at ih hsmall ⊢
      omega

/-- one call of parse_vwsc_channels makes at most one sprite-loop round per `frame_size` bytes of the channel buffer -/
theorem parseRounds_le (lay : Layout) (buf : Bytes) : parseRounds lay buf ≤ buf.length / lay.frameSize := by
  have hp := lay.frameSize_pos
  unfold parseRounds
  split
  · exact Nat.zero_le _
  · split
    · exact Nat.zero_le _
    · by_cases hsmall : buf.length ≤ lay.frameSize + lay.frameSize
      · rw [List.drop_of_length_le hsmall, spriteRounds_nil]; exact Nat.zero_le _
      · have := spriteRounds_le lay (buf.drop (lay.frameSize + lay.frameSize))
        rw [Nat.le_div_iff_mul_le hp]
        simp only [List.length_drop] at this
        omega

/-- all five counters of the record loop, for any bytes and any state: the invariant of the induction over the records -/
theorem recWork_bounds (lay : Layout) (d : Bytes) (N : Nat) :
    ∀ (m : Nat) (buf : Bytes) (idx : Nat) (prev : Bool) (acc : Work), d.length - idx = m → buf.length = N →
      let W := recWork lay d buf idx prev acc
      W.records ≤ acc.records + (d.length - idx + 1) / 2 ∧
      W.copied ≤ acc.copied + (d.length - idx) ∧
      W.deltas ≤ acc.deltas + (d.length - idx) ∧
      W.parses + acc.records ≤ acc.parses + W.records ∧
      W.sprites + acc.parses * (N / lay.frameSize) ≤ acc.sprites + W.parses * (N / lay.frameSize) := by
  intro m
  induction m using Nat.strongRecOn with
  | _ m ih =>
    intro buf idx prev acc hm hb
    have hmul : ∀ a : Nat, (a + 1) * (N / lay.frameSize) = a * (N / lay.frameSize) + N / lay.frameSize := fun a => by
      rw [Nat.add_mul, Nat.one_mul]
    rw [recWork.eq_def]
    split
    · rename_i hlt
      split
      · simp only; omega
      · rename_i size hsz
        have h2 := getS_ok_len _ 2 (by decide) _ _ _ hsz
        split
        · simp only; omega
        · split
          · split
            · have := ih (d.length - (idx + 2)) (by omega) buf (idx + 2) true { acc with records := acc.records + 1 } rfl hb
              simp only at this ⊢; omega
            · have hr := parseRounds_le lay buf
              rw [hb] at hr
              split
              · simp only [hmul]; omega
              · have := ih (d.length - (idx + 2)) (by omega) buf (idx + 2) true
                  { acc with records := acc.records + 1, parses := acc.parses + 1, sprites := acc.sprites + parseRounds lay buf } rfl hb
                simp only [hmul] at this ⊢; omega
          · rename_i hge hne
            have hw := deltaWork_bounds d buf (idx + 2) (size - 2)
            split
            · simp only; omega
            · rename_i s hd
              have hinv := deltaLoop_inv d buf (idx + 2) (size - 2) 0 0 s hd
              have hlen := deltaLoop_length d buf (idx + 2) (size - 2) 0 0 s hd
              have hr := parseRounds_le lay s.buf
              rw [hlen, hb] at hr
              split
              · simp only [hmul]; omega
              · have := ih (d.length - ((s.idx : Int) + s.cs).toNat) (by omega) s.buf ((s.idx : Int) + s.cs).toNat true
                  { records := acc.records + 1, deltas := acc.deltas + (deltaWork d buf (idx + 2) (size - 2)).1,
                    copied := acc.copied + (deltaWork d buf (idx + 2) (size - 2)).2, parses := acc.parses + 1,
                    sprites := acc.sprites + parseRounds lay s.buf } rfl (by rw [hlen, hb])
                simp only [hmul] at this ⊢; omega
    · simp only; omega

/-! ### header: what the validated words bound -/

theorem lookup_channelParsers (k : Nat) :
    Gen.Score.channelParsers.lookup k =
      if k = 20 then some ("D4VwscChannelParser", 20) else if k = 24 then some ("D5VwscChannelParser", 24) else none := by
  unfold Gen.Score.channelParsers
  by_cases h20 : k = 20
  · subst h20; rfl
  · by_cases h24 : k = 24
    · subst h24; rfl
    · have e20 : (k == 20) = false := by simpa using h20
      have e24 : (k == 24) = false := by simpa using h24
      simp [List.lookup, e20, e24, h20, h24]

theorem lookupParser_ok (fs : Int) (lay : Layout) (h : lookupParser fs = .ok lay) : fs = ((lay.frameSize : Nat) : Int) := by
  unfold lookupParser at h
  split at h
  · cases h
  · rename_i hneg
    rw [lookup_channelParsers] at h
    by_cases h20 : fs.toNat = 20
    · simp [h20] at h; subst h; simp [Layout.frameSize]; omega
    · by_cases h24 : fs.toNat = 24
      · simp [h24] at h; subst h; simp [Layout.frameSize]; omega
      · simp [h20, h24] at h

theorem ordNat_lt (o : Order) (s : Bytes) : ordNat o s < 256 ^ s.length := by
  cases o with
  | be => exact beNat_lt s
  | le => have := beNat_lt s.reverse; simpa [ordNat, leNat] using this

theorem unpackS2_le (o : Order) (s : Bytes) (v : Int) (h : unpackS o 2 s = .ok v) : v ≤ 32767 := by
  unfold unpackS at h
  split at h
  · rename_i hl
    cases h
    have := ordNat_lt o s
    rw [hl] at this
    unfold toSigned
    split <;> omega
  · cases h

theorem parseHeader_ok (d : Bytes) (h : Header) (hh : parseHeader d = .ok h) :
    h.frameSize = ((h.lay.frameSize : Nat) : Int) ∧ 0 ≤ h.channelCount * h.frameSize ∧ h.channelCount ≤ 32767 ∧ 20 ≤ d.length := by
  unfold parseHeader at hh
  simp only [bind, Except.bind, pure, Except.pure, throw, throwThe, MonadExceptOf.throw] at hh
  repeat' split at hh
  all_goals (try (cases hh; done))
  rename_i v0 _ v4 _ _ _ _ v8 _ v12 _ fsz hfs _ cc hcc _ v18 h18 _ lay hlay _
  cases hh
  refine ⟨lookupParser_ok _ _ hlay, by show (0 : Int) ≤ cc * fsz; omega, unpackS2_le _ _ _ hcc, ?_⟩
  have := getS_ok_len _ 2 (by decide) _ _ _ h18
  omega

/-- parse_vwsc_data on ANY bytes: every loop counter and the one allocation -/
theorem vwscWork_bounds (d : Bytes) :
    (vwscWork d).1.records ≤ d.length / 2 ∧ (vwscWork d).1.copied ≤ d.length ∧ (vwscWork d).1.deltas ≤ d.length ∧
    (vwscWork d).1.parses ≤ (vwscWork d).1.records ∧ (vwscWork d).1.sprites ≤ (vwscWork d).1.parses * (vwscWork d).2.2 ∧
    (vwscWork d).2.1 ≤ 24 * (vwscWork d).2.2 ∧ (vwscWork d).2.2 ≤ 32767 := by
  unfold vwscWork
  split
  · simp
  · rename_i h hh
    obtain ⟨hfs, hnn, hcc, hlen⟩ := parseHeader_ok d h hh
    have hN : (h.channelCount * h.frameSize).toNat = h.channelCount.toNat * h.lay.frameSize ∧ 0 ≤ h.channelCount := by
      rw [hfs] at hnn ⊢
      cases hl : h.lay <;> simp [hl, Layout.frameSize] at hnn ⊢ <;> omega
    have hdiv : h.channelCount.toNat * h.lay.frameSize / h.lay.frameSize = h.channelCount.toNat :=
      Nat.mul_div_cancel _ h.lay.frameSize_pos
    have := recWork_bounds h.lay d (h.channelCount.toNat * h.lay.frameSize) _ (zeros (h.channelCount * h.frameSize).toNat) 20 false {} rfl
      (by simp [zeros, hN.1])
    simp only [hdiv] at this
    obtain ⟨b1, b2, b3, b4, b5⟩ := this
    have hfs24 : h.lay.frameSize ≤ 24 := by cases h.lay <;> decide
    have hmul : h.channelCount.toNat * h.lay.frameSize ≤ 24 * h.channelCount.toNat := by
      rw [Nat.mul_comm]; exact Nat.mul_le_mul_right _ hfs24
    simp at b1 b2 b3 b4 b5
    show (recWork h.lay d (zeros (h.channelCount * h.frameSize).toNat) 20 false {}).records ≤ d.length / 2 ∧ _
    simp only []
    refine ⟨by omega, by omega, by omega, by omega, b5, by rw [hN.1]; exact hmul, by omega⟩

theorem spriteLoop_length_le (lay : Layout) (rest : Bytes) (l : List (Option Sprite)) (h : spriteLoop lay rest = .ok l) :
    l.length * lay.frameSize ≤ rest.length + (lay.frameSize - 1) := by
  fun_induction spriteLoop lay rest generalizing l with
  | case1 => cases h; simp
  | case2 b bs e he => simp [he] at h
  | case3 b bs s e hs he ih => simp [hs, he] at h
  | case4 b bs s ss hs hss ih =>
    simp only [hs, hss, Except.ok.injEq] at h
    subst h
    have hp := lay.frameSize_pos
    have := ih ss hss
    simp only [List.length_cons]
    rw [Nat.add_mul, Nat.one_mul]
    by_cases hsmall : (b :: bs).length ≤ lay.frameSize
    · rw [List.drop_of_length_le hsmall] at hss
      rw [spriteLoop.eq_def] at hss
      cases hss
      simp; omega
    · simp only [List.length_drop, List.length_cons] at this hsmall ⊢
      omega

theorem parseChannels_score_le (lay : Layout) (buf : Bytes) (f : Frame) (h : parseChannels lay buf = .ok f) :
    f.score.length ≤ buf.length / lay.frameSize := by
  have hp := lay.frameSize_pos
  unfold parseChannels at h
  simp only [bind, Except.bind, pure, Except.pure] at h
  split at h
  · cases h
  · split at h
    · cases h
    · split at h
      · cases h
      · rename_i ss hss
        cases h
        simp only
        by_cases hsmall : buf.length ≤ lay.frameSize + lay.frameSize
        · rw [List.drop_of_length_le hsmall, spriteLoop.eq_def] at hss
          cases hss; exact Nat.zero_le _
        · have := spriteLoop_length_le lay _ ss hss
          rw [Nat.le_div_iff_mul_le hp]
          simp only [List.length_drop] at this
          omega

/-- every decoded frame has at most the declared number of channels -/
theorem parseVwsc_channels_le (d : Bytes) (frames : List Frame) (h : parseVwsc d = .ok frames) :
    Drx.Score.Spec.channelsOf frames ≤ (vwscWork d).2.2 := by
  unfold parseVwsc at h
  unfold vwscWork
  simp only [bind, Except.bind] at h
  cases hh : parseHeader d with
  | error e => simp [hh] at h
  | ok hd =>
    simp only [hh] at h ⊢
    obtain ⟨hfs, hnn, hcc, hlen⟩ := parseHeader_ok d hd hh
    have hN : (hd.channelCount * hd.frameSize).toNat = hd.channelCount.toNat * hd.lay.frameSize := by
      rw [hfs] at hnn ⊢
      cases hl : hd.lay <;> simp [hl, Layout.frameSize] at hnn ⊢ <;> omega
    cases frames with
    | nil => simp [Drx.Score.Spec.channelsOf]
    | cons f0 fs =>
      have key := recLoop_frames hd.lay d (zeros (hd.channelCount * hd.frameSize).toNat).length _ _ 20 none (f0 :: fs) rfl rfl
        (by intro f hf; cases hf) h
      obtain ⟨b, hb, hp⟩ := key f0 (by simp)
      have := parseChannels_score_le hd.lay b f0 hp
      rw [hb] at this
      simp only [zeros, List.length_replicate, hN, Nat.mul_div_cancel _ hd.lay.frameSize_pos] at this
      simpa [Drx.Score.Spec.channelsOf] using this

theorem pySlice_length_le (l : List α) (a b : Int) : (pySlice l a b).length ≤ l.length := by
  unfold pySlice
  simp only [List.length_take, List.length_drop]
  omega

theorem locateData_length_le (fdata data : Bytes) (h : locateData fdata = .ok data) : data.length ≤ fdata.length := by
  unfold locateData at h
  simp only [bind, Except.bind, pure, Except.pure, throw, throwThe, MonadExceptOf.throw] at h
  repeat' split at h
  all_goals first | (cases h; done) | (cases h; exact pySlice_length_le _ _ _)

theorem parseVwscFile_eq_locate (fdata : Bytes) : parseVwscFile fdata = (locateData fdata).bind parseVwsc := by
  unfold parseVwscFile locateData
  simp only [bind, Except.bind, pure, Except.pure, throw, throwThe, MonadExceptOf.throw]
  repeat' split
  all_goals first | rfl | simp_all

end Drx.Vwsc

namespace Drx.Score
open Drx Drx.Vwsc Drx.Score.Spec

theorem stepFrameRounds_le (sps : List (List Span)) (cells : List (Option Sprite)) : stepFrameRounds sps cells ≤ sps.length := by
  induction sps generalizing cells with
  | nil => simp [stepFrameRounds]
  | cons sp sps ih =>
    cases cells with
    | nil => simp [stepFrameRounds]
    | cons c cs => have := ih cs; simp [stepFrameRounds]; omega

theorem stepFrame_length (i j : Nat) (sps : List (List Span)) (cells : List (Option Sprite)) (out : List (List Span))
    (h : stepFrame i j sps cells = .ok out) : out.length = sps.length := by
  induction sps generalizing j cells out with
  | nil => simp [stepFrame] at h; subst h; rfl
  | cons sp sps ih =>
    cases cells with
    | nil => simp [stepFrame] at h
    | cons c cs =>
      simp only [stepFrame] at h
      split at h
      · cases h
      · rename_i rest hr
        cases h
        simp [ih _ _ _ hr]

theorem pass2Rounds_le (i : Nat) (frames : List Frame) (sps : List (List Span)) :
    (pass2Rounds i frames sps).1 ≤ frames.length ∧ (pass2Rounds i frames sps).2 ≤ frames.length * sps.length := by
  induction frames generalizing i sps with
  | nil => simp [pass2Rounds]
  | cons f fs ih =>
    have hr := stepFrameRounds_le sps f.score
    simp only [pass2Rounds, List.length_cons]
    split
    · simp only [Nat.add_mul, Nat.one_mul]
      have : 0 ≤ fs.length * sps.length := Nat.zero_le _
      omega
    · rename_i sps' hs
      have hl := stepFrame_length _ _ _ _ _ hs
      have := ih (i + 1) sps'
      rw [hl] at this
      simp only [Nat.add_mul, Nat.one_mul]
      omega

/-- vwsc_to_score on ANY frame table: its four loops make at most `channels + frames·(2 + channels)` rounds -/
theorem toScoreWork_bounds (frames : List Frame) :
    (toScoreWork frames).init = channelsOf frames ∧ (toScoreWork frames).pass1 = frames.length ∧
    (toScoreWork frames).pass2 ≤ frames.length ∧ (toScoreWork frames).cells ≤ frames.length * channelsOf frames := by
  have h := pass2Rounds_le 0 frames (List.replicate (channelsOf frames) [])
  simp only [List.length_replicate] at h
  cases frames with
  | nil => simp [toScoreWork, channelsOf, pass2Rounds]
  | cons f fs => exact ⟨rfl, rfl, h.1, h.2⟩

/-- **the whole score pipeline on ANY bytes**: all loop rounds of `vwsc_to_score(parse_vwsc_file_data(d))` together are bounded by
    a fixed multiple of the input length plus (frames ≤ |d|/2) × (declared channels) -/
theorem pipelineRounds_le (fdata : Bytes) :
    pipelineRounds fdata ≤ 4 * fdata.length + (2 * fdata.length + 1) * declaredChannels fdata := by
  unfold pipelineRounds declaredChannels
  cases hl : locateData fdata with
  | error e => simp
  | ok data =>
    simp only
    have hL := locateData_length_le fdata data hl
    obtain ⟨b1, b2, b3, b4, b5, _, _⟩ := vwscWork_bounds data
    generalize hcc : (vwscWork data).2.2 = cc at *
    generalize hW : (vwscWork data).1 = W at *
    have hP : W.parses * cc ≤ (data.length / 2) * cc := Nat.mul_le_mul_right _ (by omega)
    have hx : 3 * ((data.length / 2) * cc) ≤ (2 * fdata.length) * cc := by
      rw [← Nat.mul_assoc]; exact Nat.mul_le_mul_right _ (by omega)
    rw [Nat.add_mul, Nat.one_mul]
    cases hp : parseVwsc data with
    | error e => simp only; omega
    | ok frames =>
      simp only
      have hn : frames.length ≤ data.length / 2 := by
        have e1 := parseVwscSteps_records_eq data frames hp
        have e2 := parseVwscSteps_records_le data
        omega
      have hch : channelsOf frames ≤ cc := by rw [← hcc]; exact parseVwsc_channels_le data frames hp
      obtain ⟨s1, s2, s3, s4⟩ := toScoreWork_bounds frames
      have hcells : frames.length * channelsOf frames ≤ (data.length / 2) * cc := Nat.mul_le_mul hn hch
      simp only [ScoreWork.lineHits]
      omega

end Drx.Score
