/-
  C10, score family: bounds on the exact loop-round twins of Drx/ScoreSteps.lean, for ANY input bytes.
-/
import Drx.ScoreSteps
import Drx.ScoreSpec
import DrxProofs.Py
import DrxProofs.VwscRect
import DrxProofs.VwscSteps
namespace Drx.Vwsc
open Drx

theorem slice_length_le (d : Bytes) (a b : Nat) : (slice d a b).length ≤ d.length - a := by
  simp [slice, List.length_take, List.length_drop]; omega

theorem getS_ok_len (o : Order) (k : Nat) (hk : 0 < k) (d : Bytes) (off : Nat) (v : Int) (h : getS o k d off = .ok v) :
    off + k ≤ d.length := by
  unfold getS unpackS at h
  split at h
  · rename_i hl
    have := slice_length_le d off (off + k)
    omega
  · cases h

theorem patchRounds_le (buf : Bytes) (p n : Nat) (data : Bytes) :
    patchRounds buf p n data ≤ n ∧ patchRounds buf p n data ≤ data.length + 1 := by
  induction n generalizing buf p data with
  | zero => simp [patchRounds]
  | succ n ih =>
    cases data with
    | nil => simp [patchRounds]
    | cons b bs =>
      simp only [patchRounds]
      split
      · have := ih (buf.set p b) (p + 1) bs
        simp only [List.length_cons]; omega
      · simp

theorem patch_ok_len (buf : Bytes) (p n : Nat) (data b : Bytes) (h : patch buf p n data = .ok b) : n ≤ data.length := by
  induction n generalizing buf p data with
  | zero => omega
  | succ n ih =>
    cases data with
    | nil => simp [patch] at h
    | cons x xs =>
      simp only [patch] at h
      split at h
      · have := ih _ _ _ h; simp; omega
      · cases h

/-- inner loops of one record: the copy rounds and the delta rounds are bounded both by what the record's size word announces
    and by the bytes that are really there -/
theorem deltaWork_bounds (d buf : Bytes) (idx : Nat) (cs : Int) :
    (deltaWork d buf idx cs).2 ≤ cs.toNat ∧ (deltaWork d buf idx cs).2 ≤ d.length - idx ∧
    (deltaWork d buf idx cs).1 ≤ cs.toNat ∧ (deltaWork d buf idx cs).1 ≤ d.length - idx + 1 := by
  fun_induction deltaWork d buf idx cs with
  | case1 buf idx cs hcs e he => simp; omega
  | case2 buf idx cs hcs ds hds hbr => simp; omega
  | case3 buf idx cs hcs ds hds hbr e he => simp; omega
  | case4 buf idx cs hcs ds hds hbr off0 hoff deltaOffset n deltaData r e he =>
    have h1 := getS_ok_len _ 2 (by decide) _ _ _ hoff
    have hr := patchRounds_le buf deltaOffset.toNat n deltaData
    have hl := slice_length_le d (idx + 4) (idx + 4 + n)
    simp only [r, deltaData] at *
    refine ⟨?_, ?_, ?_, ?_⟩ <;> simp only [n] at * <;> omega
  | case5 buf idx cs hcs ds hds hbr off0 hoff deltaOffset n deltaData r buf' hp w ih =>
    have h1 := getS_ok_len _ 2 (by decide) _ _ _ hoff
    have hr := patchRounds_le buf deltaOffset.toNat n deltaData
    have hl := slice_length_le d (idx + 4) (idx + 4 + n)
    have hn := patch_ok_len _ _ _ _ _ hp
    simp only [r, deltaData, w] at *
    obtain ⟨i1, i2, i3, i4⟩ := ih
    refine ⟨?_, ?_, ?_, ?_⟩ <;> simp only [n] at * <;> omega
  | case6 buf idx cs hcs => simp

theorem spriteRounds_nil (lay : Layout) : spriteRounds lay [] = 0 := by rw [spriteRounds.eq_def]

theorem spriteRounds_le (lay : Layout) (rest : Bytes) : spriteRounds lay rest * lay.frameSize ≤ rest.length + (lay.frameSize - 1) := by
  fun_induction spriteRounds lay rest with
  | case1 => simp
  | case2 b bs e he =>
    have := lay.frameSize_pos
    simp only [he, List.length_cons, Nat.one_mul]; omega
  | case3 b bs s hs ih =>
    have hp := lay.frameSize_pos
    simp only [hs]
    rw [Nat.add_mul, Nat.one_mul]
    by_cases hsmall : (b :: bs).length ≤ lay.frameSize
    · rw [List.drop_of_length_le hsmall, spriteRounds_nil]; simp; omega
    · simp only [List.length_drop, List.length_cons] at ih hsmall ⊢
      omega

/-- one call of parse_vwsc_channels makes at most one sprite-loop round per `frame_size` bytes of the channel buffer -/
theorem parseRounds_le (lay : Layout) (buf : Bytes) : parseRounds lay buf ≤ buf.length / lay.frameSize := by
  have hp := lay.frameSize_pos
  unfold parseRounds
  split
  · exact Nat.zero_le _
  · split
    · exact Nat.zero_le _
    · by_cases hsmall : buf.length ≤ lay.frameSize + lay.frameSize
      · rw [List.drop_of_length_le hsmall, spriteRounds_nil]; exact Nat.zero_le _
      · have := spriteRounds_le lay (buf.drop (lay.frameSize + lay.frameSize))
        rw [Nat.le_div_iff_mul_le hp]
        simp only [List.length_drop] at this
        omega

/-- all five counters of the record loop, for any bytes and any state: the invariant of the induction over the records -/
theorem recWork_bounds (lay : Layout) (d : Bytes) (N : Nat) :
    ∀ (m : Nat) (buf : Bytes) (idx : Nat) (prev : Bool) (acc : Work), d.length - idx = m → buf.length = N →
      let W := recWork lay d buf idx prev acc
      W.records ≤ acc.records + (d.length - idx + 1) / 2 ∧
      W.copied ≤ acc.copied + (d.length - idx) ∧
      W.deltas ≤ acc.deltas + (d.length - idx) ∧
      W.parses + acc.records ≤ acc.parses + W.records ∧
      W.sprites + acc.parses * (N / lay.frameSize) ≤ acc.sprites + W.parses * (N / lay.frameSize) := by
  intro m
  induction m using Nat.strongRecOn with
  | _ m ih =>
    intro buf idx prev acc hm hb
    have hmul : ∀ a : Nat, (a + 1) * (N / lay.frameSize) = a * (N / lay.frameSize) + N / lay.frameSize := fun a => by
      rw [Nat.add_mul, Nat.one_mul]
    rw [recWork.eq_def]
    split
    · rename_i hlt
      split
      · simp only; omega
      · rename_i size hsz
        have h2 := getS_ok_len _ 2 (by decide) _ _ _ hsz
        split
        · simp only; omega
        · split
          · split
            · have := ih (d.length - (idx + 2)) (by omega) buf (idx + 2) true { acc with records := acc.records + 1 } rfl hb
              simp only at this ⊢; omega
            · have hr := parseRounds_le lay buf
              rw [hb] at hr
              split
              · simp only [hmul]; omega
              · have := ih (d.length - (idx + 2)) (by omega) buf (idx + 2) true
                  { acc with records := acc.records + 1, parses := acc.parses + 1, sprites := acc.sprites + parseRounds lay buf } rfl hb
                simp only [hmul] at this ⊢; omega
          · rename_i hge hne
            have hw := deltaWork_bounds d buf (idx + 2) (size - 2)
            split
            · simp only; omega
            · rename_i s hd
              have hinv := deltaLoop_inv d buf (idx + 2) (size - 2) 0 0 s hd
              have hlen := deltaLoop_length d buf (idx + 2) (size - 2) 0 0 s hd
              have hr := parseRounds_le lay s.buf
              rw [hlen, hb] at hr
              split
              · simp only [hmul]; omega
              · have := ih (d.length - ((s.idx : Int) + s.cs).toNat) (by omega) s.buf ((s.idx : Int) + s.cs).toNat true
                  { records := acc.records + 1, deltas := acc.deltas + (deltaWork d buf (idx + 2) (size - 2)).1,
                    copied := acc.copied + (deltaWork d buf (idx + 2) (size - 2)).2, parses := acc.parses + 1,
                    sprites := acc.sprites + parseRounds lay s.buf } rfl (by rw [hlen, hb])
                simp only [hmul] at this ⊢; omega
    · simp only; omega

/-! ### header: what the validated words bound -/

theorem lookup_channelParsers (k : Nat) :
    Gen.Score.channelParsers.lookup k =
      if k = 20 then some ("D4VwscChannelParser", 20) else if k = 24 then some ("D5VwscChannelParser", 24) else none := by
  unfold Gen.Score.channelParsers
  by_cases h20 : k = 20
  · subst h20; rfl
  · by_cases h24 : k = 24
    · subst h24; rfl
    · have e20 : (k == 20) = false := by simpa using h20
      have e24 : (k == 24) = false := by simpa using h24
      simp [List.lookup, e20, e24, h20, h24]

theorem lookupParser_ok (fs : Int) (lay : Layout) (h : lookupParser fs = .ok lay) : fs = ((lay.frameSize : Nat) : Int) := by
  unfold lookupParser at h
  split at h
  · cases h
  · rename_i hneg
    rw [lookup_channelParsers] at h
    by_cases h20 : fs.toNat = 20
    · simp [h20] at h; subst h; simp [Layout.frameSize]; omega
    · by_cases h24 : fs.toNat = 24
      · simp [h24] at h; subst h; simp [Layout.frameSize]; omega
      · simp [h20, h24] at h

theorem ordNat_lt (o : Order) (s : Bytes) : ordNat o s < 256 ^ s.length := by
  cases o with
  | be => exact beNat_lt s
  | le => have := beNat_lt s.reverse; simpa [ordNat, leNat] using this

theorem unpackS2_le (o : Order) (s : Bytes) (v : Int) (h : unpackS o 2 s = .ok v) : v ≤ 32767 := by
  unfold unpackS at h
  split at h
  · rename_i hl
    cases h
    have := ordNat_lt o s
    rw [hl] at this
    unfold toSigned
    split <;> omega
  · cases h

theorem parseHeader_ok (d : Bytes) (h : Header) (hh : parseHeader d = .ok h) :
    h.frameSize = ((h.lay.frameSize : Nat) : Int) ∧ 0 ≤ h.channelCount * h.frameSize ∧ h.channelCount ≤ 32767 ∧ 20 ≤ d.length := by
  unfold parseHeader at hh
  simp only [bind, Except.bind, pure, Except.pure, throw, throwThe, MonadExceptOf.throw] at hh
  repeat' split at hh
  all_goals (try (cases hh; done))
  rename_i v0 _ v4 _ _ _ _ v8 _ v12 _ fsz hfs _ cc hcc _ v18 h18 _ lay hlay _
  cases hh
  refine ⟨lookupParser_ok _ _ hlay, by show (0 : Int) ≤ cc * fsz; omega, unpackS2_le _ _ _ hcc, ?_⟩
  have := getS_ok_len _ 2 (by decide) _ _ _ h18
  omega

end Drx.Vwsc
