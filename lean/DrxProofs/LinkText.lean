/-
  L6m — `generate_lingo` of the image of a source tree is the text `mE` / `mS` / `mHandler` / `mText` (character level).
-/
import Drx.Link
import DrxProofs.LscrConst
import DrxProofs.LinkStack
import DrxProofs.LinkTables
import DrxProofs.SpecLex
namespace Drx.Link
open Drx Drx.Lscr Drx.Gen Drx.Spec
set_option linter.unusedSimpArgs false
set_option linter.unusedVariables false

/-! ### operator table -/

theorem binop_text (o : BinOp) : dictGet OpNames.lingoBinOp (binName o) = .ok (if o.isInfix then opTxt o else S "sprite... " ++ opTxt o) ∧
    (binName o = S "assign") = False := by
  cases o <;> exact ⟨rfl, eq_false (by decide)⟩

theorem infix_not_sprite (o : BinOp) (h : o.isInfix = true) : startsWith (opTxt o) (S "sprite... ") = false := by
  cases o <;> first | rfl | (simp [BinOp.isInfix] at h)

theorem prefix_sprite (o : BinOp) (h : o.isInfix = false) :
    startsWith (S "sprite... " ++ opTxt o) (S "sprite... ") = true ∧ removePrefix (S "sprite... " ++ opTxt o) (S "sprite... ") = opTxt o := by
  cases o <;> first | exact ⟨by decide, by decide⟩ | (simp [BinOp.isInfix] at h)

/-! ### first characters -/

theorem natStr_eq_intStr (k : Nat) : natStr k = Lscr.intStr ((k : Nat) : Int) := rfl

/-- the printed form of an expression of the fragment starts with '-' only for a unary minus -/
theorem mE_not_minus : ∀ (e : Expr), FragE e = true → startsMinus e = false → startsWith (mE e) (S "-") = false
  | .int k, _, _ => by
    obtain ⟨c, rest, h, _, hc, _⟩ := natStr_head k
    simp only [mE, h, startsWith, S]
    simp [List.isPrefixOf, hc]
    exact fun e => hc e.symm
  | .var _ v, hf, _ => by
    simp only [FragE] at hf
    cases v with
    | nil => simp [idOk] at hf
    | cons c cs =>
      simp only [idOk, Bool.and_eq_true] at hf
      have : c ≠ '-' := by
        intro e; subst e
        have : isIdStart '-' = false := by decide
        rw [this] at hf; simp at hf
      simp only [mE, startsWith, S]
      simp [List.isPrefixOf]
      exact fun e => this e.symm
  | .un .neg _, _, hm => by simp [startsMinus] at hm
  | .un .not _, _, _ => by simp [mE, startsWith, S, List.isPrefixOf]
  | .bin o a b, _, _ => by
    cases h : o.isInfix <;> simp [mE, h, startsWith, S, List.isPrefixOf]
  | .str _, hf, _ => by simp [FragE] at hf
  | .float _ _, hf, _ => by simp [FragE] at hf
  | .sym _, hf, _ => by simp [FragE] at hf
  | .me, hf, _ => by simp [FragE] at hf
  | .field _, hf, _ => by simp [FragE] at hf
  | .call _ _, hf, _ => by simp [FragE] at hf
  | .mcall _ _ _, hf, _ => by simp [FragE] at hf
  | .list _, hf, _ => by simp [FragE] at hf
  | .plist _, hf, _ => by simp [FragE] at hf
  | .the _ _ _, hf, _ => by simp [FragE] at hf
  | .key _, hf, _ => by simp [FragE] at hf
  | .movie _, hf, _ => by simp [FragE] at hf
  | .oprop _ _, hf, _ => by simp [FragE] at hf
  | .chunk _ _ _ _, hf, _ => by simp [FragE] at hf

/-! ### expressions -/

theorem lingo_emb : ∀ (e : Expr), FragE e = true → ∀ (n : Node), Emb e n → ∀ (ind : Nat), lingo false n ind = .ok (.s (mE e))
  | .int k, _, n, h, ind => by
    obtain ⟨p, rfl⟩ := h
    simp only [lingo, leafLingo, mE]
    rw [natStr_eq_intStr, constLingo_intStr]
  | .var .loc v, _, n, h, ind => by obtain ⟨p, rfl⟩ := h; simp only [lingo, leafLingo, mE]
  | .var .param v, _, n, h, ind => by obtain ⟨p, rfl⟩ := h; simp only [lingo, leafLingo, mE]
  | .var .glob v, _, n, h, ind => by obtain ⟨p, rfl⟩ := h; simp only [lingo, leafLingo, mE]
  | .var .prop v, _, n, h, ind => by obtain ⟨p, rfl⟩ := h; simp only [lingo, leafLingo, mE]
  | .un .neg a, hf, n, h, ind => by
    obtain ⟨p, x, rfl, hx⟩ := h
    simp only [FragE, Bool.and_eq_true, Bool.not_eq_true'] at hf
    have ih := lingo_emb a hf.1 x hx ind
    have hm := mE_not_minus a hf.1 hf.2
    simp only [lingo, ih, bind, Except.bind, unName, if_true, Lscr.Name.str, hm, Bool.false_eq_true, if_false, pure, Except.pure, mE]
  | .un .not a, hf, n, h, ind => by
    obtain ⟨p, x, rfl, hx⟩ := h
    simp only [FragE] at hf
    have ih := lingo_emb a hf x hx ind
    have hne : ¬ (S "not" = S "minus") := by decide
    simp only [lingo, ih, bind, Except.bind, unName, hne, if_false, Lscr.Name.str, pure, Except.pure, mE]
    rfl
  | .bin o a b, hf, n, h, ind => by
    obtain ⟨p, x, y, rfl, hx, hy⟩ := h
    simp only [FragE, Bool.and_eq_true] at hf
    obtain ⟨⟨_, hfa⟩, hfb⟩ := hf
    have iha := lingo_emb a hfa x hx ind
    have ihb := lingo_emb b hfb y hy ind
    obtain ⟨hd, hna⟩ := binop_text o
    simp only [lingo, hna, if_false, hd, iha, ihb, bind, Except.bind, Lscr.Name.str, pure, Except.pure, mE]
    cases hi : o.isInfix with
    | true =>
      simp only [if_true, infix_not_sprite o hi, Bool.false_eq_true, if_false]
    | false =>
      obtain ⟨h1, h2⟩ := prefix_sprite o hi
      simp only [Bool.false_eq_true, if_false, h1, if_true, h2]
  | .str _, hf, _, _, _ => by simp [FragE] at hf
  | .float _ _, hf, _, _, _ => by simp [FragE] at hf
  | .sym _, hf, _, _, _ => by simp [FragE] at hf
  | .me, hf, _, _, _ => by simp [FragE] at hf
  | .field _, hf, _, _, _ => by simp [FragE] at hf
  | .call _ _, hf, _, _, _ => by simp [FragE] at hf
  | .mcall _ _ _, hf, _, _, _ => by simp [FragE] at hf
  | .list _, hf, _, _, _ => by simp [FragE] at hf
  | .plist _, hf, _, _, _ => by simp [FragE] at hf
  | .the _ _ _, hf, _, _, _ => by simp [FragE] at hf
  | .key _, hf, _, _, _ => by simp [FragE] at hf
  | .movie _, hf, _, _, _ => by simp [FragE] at hf
  | .oprop _ _, hf, _, _, _ => by simp [FragE] at hf
  | .chunk _ _ _ _, hf, _, _, _ => by simp [FragE] at hf

/-! ### statements -/

theorem idOk_chars (v : Spec.Name) (h : idOk v = true) : ∀ c ∈ v, isIdChar c = true := by
  cases v with
  | nil => simp [idOk] at h
  | cons c cs =>
    simp only [idOk, Bool.and_eq_true, List.all_eq_true] at h
    intro x hx
    rcases List.mem_cons.mp hx with hx | hx
    · subst hx; exact idStart_idChar x h.1
    · exact h.2 x hx

theorem idOk_not_field (v : Spec.Name) (h : idOk v = true) : startsWith v (S "field(") = false := by
  cases hs : startsWith v (S "field(") with
  | false => rfl
  | true =>
    have hp : (S "field(") <+: v := List.isPrefixOf_iff_prefix.mp hs
    obtain ⟨t, ht⟩ := hp
    have : '(' ∈ v := by rw [← ht]; simp [S]
    have := idOk_chars v h _ this
    exact absurd this (by decide)

theorem lingo_lv (lv : Expr) (hf : FragLv lv = true) (l : Node) (h : EmbLv lv l) (ind : Nat) : lingo false l ind = .ok (.s (mE lv)) := by
  cases lv with
  | var k v =>
    cases k with
    | loc => obtain ⟨p, rfl⟩ := h; simp only [lingo, leafLingo, mE]
    | param => obtain ⟨p, rfl⟩ := h; simp only [lingo, leafLingo, mE]
    | glob => obtain ⟨p, rfl⟩ := h; simp only [lingo, leafLingo, mE]
    | prop =>
      obtain ⟨p, q, rfl⟩ := h
      simp only [lingo, leafLingo, mE, bind, Except.bind, Node.cls, pure, Except.pure]
      simp
  | _ => simp [FragLv] at hf

theorem lingo_stmt (s : Stmt) (hf : FragS s = true) (n : Node) (h : EmbS s n) (ind : Nat) : lingo false n ind = .ok (.s (mS ind s)) := by
  cases s with
  | set lv v =>
    obtain ⟨p, q, l, r, rfl, hl, hr⟩ := h
    simp only [FragS, Bool.and_eq_true] at hf
    have e1 := lingo_lv lv hf.1 l hl ind
    have e2 := lingo_emb v hf.2 r hr ind
    have hid : idOk (mE lv) = true := by
      cases lv with
      | var k v => simpa [FragLv, mE] using hf.1
      | _ => simp [FragLv] at hf
    have hnf := idOk_not_field _ hid
    simp only [lingo, if_true, e1, e2, bind, Except.bind, Lscr.Name.asStr, hnf, Bool.false_eq_true, false_and, if_false, Lscr.Name.str,
      pure, Except.pure, mS]
    simp [List.append_assoc]
  | _ => simp [FragS] at hf

theorem lingo_stmts : ∀ (ss : List Stmt), FragSs ss = true → ∀ (ns : List Node), EmbSs ss ns → ∀ (ind : Nat),
    lingoStmts ns ind = .ok (mSs ind ss)
  | [], _, ns, h, ind => by
    simp only [EmbSs] at h; subst h; simp [lingoStmts, mSs]
  | s :: ss, hf, ns, h, ind => by
    obtain ⟨x, xs, rfl, hx, hxs⟩ := h
    simp only [FragSs, Bool.and_eq_true] at hf
    have e1 := lingo_stmt s hf.1 x hx ind
    have e2 := lingo_stmts ss hf.2 xs hxs ind
    simp only [lingoStmts, e1, e2, bind, Except.bind, Lscr.Name.asStr, pure, Except.pure, mSs]

/-! ### handlers -/

theorem idChar_not_space (c : Char) (h : isIdChar c = true) : isPySpace c = false := by
  simp only [isIdChar, Char.isAlphanum, Char.isAlpha, Char.isUpper, Char.isLower, Char.isDigit, Bool.or_eq_true, Bool.and_eq_true,
    decide_eq_true_eq, beq_iff_eq, ge_iff_le, UInt32.le_iff_toNat_le] at h
  have eA : 'A'.val.toNat = 65 := rfl
  have eZ : 'Z'.val.toNat = 90 := rfl
  have ea : 'a'.val.toNat = 97 := rfl
  have ez : 'z'.val.toNat = 122 := rfl
  have e0 : '0'.val.toNat = 48 := rfl
  have e9 : '9'.val.toNat = 57 := rfl
  have hn : c.toNat = c.val.toNat := rfl
  have hr : (48 ≤ c.toNat ∧ c.toNat ≤ 122) := by
    rcases h with ((h | h) | h) | h
    · omega
    · omega
    · omega
    · subst h; decide
  unfold isPySpace
  simp only [Bool.or_eq_false_iff, Bool.and_eq_false_iff, decide_eq_false_iff_not, beq_eq_false_iff_ne, ne_eq]
  omega

theorem rstrip_last (s : Str) (c : Char) (h : s.getLast? = some c) (hc : isPySpace c = false) : rstrip s = s := by
  unfold rstrip
  have : s.reverse.head? = some c := by rw [List.head?_reverse]; exact h
  cases hr : s.reverse with
  | nil => rw [hr] at this; cases this
  | cons x xs =>
    rw [hr] at this
    simp only [List.head?_cons, Option.some.injEq] at this
    subst this
    simp only [stripLeft, hc, Bool.false_eq_true, if_false]
    rw [← hr, List.reverse_reverse]

theorem joinWith_last (sep : Str) : ∀ (l : List Str) (x : Str) (c : Char), l.getLast? = some x → x.getLast? = some c →
    (joinWith sep l).getLast? = some c
  | [], _, _, h, _ => by simp at h
  | [y], x, c, h, hc => by simp at h; subst h; simpa [joinWith] using hc
  | y :: z :: r, x, c, h, hc => by
    have ih := joinWith_last sep (z :: r) x c (by simpa [List.getLast?_cons_cons] using h) hc
    simp only [joinWith]
    rw [List.getLast?_append, ih]
    rfl

theorem idOk_last (v : Spec.Name) (h : idOk v = true) : ∃ c, v.getLast? = some c ∧ isIdChar c = true := by
  cases hv : v.getLast? with
  | none => rw [List.getLast?_eq_none_iff] at hv; subst hv; simp [idOk] at h
  | some c => exact ⟨c, rfl, idOk_chars v h c (List.mem_of_getLast? hv)⟩

theorem params_names (ns : List Str) (l : List Node) (h : Leaves .paramName ns l) : l.mapM (fun p => p.name) = .ok (ns.map Lscr.Name.s) := by
  induction h with
  | nil => rfl
  | cons hx _ ih =>
    obtain ⟨p, rfl⟩ := hx
    rename_i n0 _ _ _
    have e : (Node.leaf .paramName (.s n0) p).name = .ok (.s n0) := rfl
    simp only [List.mapM_cons, e, ih, bind, Except.bind, pure, Except.pure, List.map_cons]

theorem gvars_names (G : List Spec.Name) : ∀ (l : List Node), GvOk G l → ∃ gs : List Str, l.mapM (fun g => g.name) = .ok (gs.map Lscr.Name.s) ∧ ∀ g ∈ gs, g ∈ G
  | [], _ => ⟨[], rfl, by simp⟩
  | x :: xs, h => by
    obtain ⟨g, p, rfl, hg⟩ := h x (by simp)
    obtain ⟨gs, hgs, hm⟩ := gvars_names G xs (fun y hy => h y (by simp [hy]))
    refine ⟨g :: gs, ?_, ?_⟩
    · have e : (Node.leaf .globalVar (.s g) p).name = .ok (.s g) := rfl
      simp only [List.mapM_cons, e, hgs, bind, Except.bind, pure, Except.pure, List.map_cons]
    · intro y hy
      rcases List.mem_cons.mp hy with hy | hy
      · subst hy; exact hg
      · exact hm y hy

theorem GvOk_sorted (G : List Spec.Name) (l : List Node) (h : GvOk G l) : GvOk G (sortedByName l) := by
  intro x hx
  unfold sortedByName at hx
  exact h x (List.mem_mergeSort.mp hx)

/-- what the container layer establishes about one parsed handler -/
structure FuncRel (G : List Spec.Name) (h : Handler) (f : FuncDef) : Prop where
  name : f.name = h.name
  params : Leaves .paramName h.params f.params
  locals : Leaves .localVar h.locals f.localVars
  isMethod : f.isMethod = false
  gvars : GvOk G f.globalVars
  stmts : ∃ ns p q, f.stmts = ns ++ [.stmt p (.callFn (.s (S "exit")) q .none true false false .none)] ∧ EmbSs h.body ns

theorem bodyLingo_exit (ns : List Node) (p q : Int) (ind : Nat) :
    bodyLingo (ns ++ [.stmt p (.callFn (.s (S "exit")) q .none true false false .none)]) ind = lingoStmts ns ind := by
  unfold bodyLingo bodyStmts endsWithExit
  simp [Node.name, Except.map, bind, Except.bind, pure, Except.pure]

theorem funcLingo_rel (script : Lscr.Script) (h : Handler) (f : FuncDef) (hr : FuncRel script.globalVars h f)
    (hfb : FragSs h.body = true) (hp : ∀ v ∈ h.params, idOk v = true) : funcLingo script f = .ok (mHandler h) := by
  obtain ⟨ns, p, q, hst, hemb⟩ := hr.stmts
  obtain ⟨gs, hgs, hgm⟩ := gvars_names _ _ (GvOk_sorted _ _ hr.gvars)
  have hbody := lingo_stmts h.body hfb ns hemb 1
  have hshown : ∀ (pr : Lscr.Name → Bool), (∀ v ∈ gs, pr (.s v) = false) → (gs.map Lscr.Name.s).filter pr = [] := by
    intro pr hpr
    rw [List.filter_eq_nil_iff]
    intro g hg
    obtain ⟨v, hv, rfl⟩ := List.mem_map.mp hg
    simp [hpr v hv]
  have hmap : (List.map Lscr.Name.str (List.map Lscr.Name.s h.params)) = h.params := by
    induction h.params with
    | nil => rfl
    | cons a as ih => simp [Lscr.Name.str, ih]
  have hemp : f.params.isEmpty = h.params.isEmpty := by
    have hlen : h.params.length = f.params.length := hr.params.length_eq
    cases hh : h.params <;> cases hf : f.params <;> simp_all
  unfold funcLingo
  simp only [params_names _ _ hr.params, hgs, bind, Except.bind, pure, Except.pure, hr.isMethod, Bool.false_eq_true, if_false, and_false,
    false_and, hst, bodyLingo_exit, hbody, hr.name, hmap, hemp]
  rw [hshown]
  · simp only [List.map_nil, List.flatten_nil, List.isEmpty_nil, if_true, List.append_nil]
    unfold mHandler
    cases hps : h.params with
    | nil => simp
    | cons a as =>
      have hne : (a :: as).isEmpty = false := rfl
      simp only [hne, Bool.false_eq_true, if_false]
      cases hx : (a :: as).getLast? with
      | none => simp at hx
      | some x =>
        have hxm : x ∈ h.params := by rw [hps]; exact List.mem_of_getLast? hx
        obtain ⟨c, hc1, hc2⟩ := idOk_last x (hp x hxm)
        have hj := joinWith_last (S ", ") (a :: as) x c hx hc1
        have hlast : (S " " ++ joinWith (S ", ") (a :: as)).getLast? = some c := by
          rw [List.getLast?_append, hj]; rfl
        rw [rstrip_last _ c hlast (idChar_not_space c hc2)]
  · intro v hv
    simp [hgm v hv]

/-! ### scripts -/

/-- what the container layer establishes about the parsed script -/
structure ScriptRel (s : Spec.Script) (t : Lscr.Script) : Prop where
  props : t.properties = s.props
  globs : t.globalVars = s.globals
  fac : t.factoryName = []
  funcs : All2 (FuncRel s.globals) s.handlers t.functions

theorem funcsLingo_rel (t : Lscr.Script) : ∀ (hs : List Handler) (fs : List FuncDef), All2 (FuncRel t.globalVars) hs fs →
    (∀ h ∈ hs, FragSs h.body = true ∧ ∀ v ∈ h.params, idOk v = true) → ∀ (first : Bool),
    funcsLingo t fs first = .ok (mHandlers hs first) := by
  intro hs fs h
  induction h with
  | nil => intro _ _; rfl
  | @cons hd f hs fs hr _ ih =>
    intro hfr first
    obtain ⟨hb, hp⟩ := hfr hd (by simp)
    simp only [funcsLingo, funcLingo_rel t hd f hr hb hp, ih (fun x hx => hfr x (by simp [hx])) false, bind, Except.bind, pure,
      Except.pure, mHandlers]

theorem lingoText_rel (s : Spec.Script) (t : Lscr.Script) (hr : ScriptRel s t)
    (hfr : ∀ h ∈ s.handlers, FragSs h.body = true ∧ ∀ v ∈ h.params, idOk v = true) : lingoText t = .ok (mText s) := by
  have hf := funcsLingo_rel t s.handlers t.functions (by rw [hr.globs]; exact hr.funcs) hfr true
  unfold lingoText
  simp only [hf, bind, Except.bind, pure, Except.pure, hr.props, hr.globs, hr.fac, List.length_nil, Nat.lt_irrefl, if_false, and_true,
    gt_iff_lt, mText, List.append_nil]

end Drx.Link
