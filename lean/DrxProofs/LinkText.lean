/-
  L6m — `generate_lingo` of the image of a source tree is the text `mE` / `mS` / `mHandler` / `mText` (character level).
-/
import Drx.Link
import DrxProofs.LscrConst
import DrxProofs.LinkStack
import DrxProofs.LinkTables
import DrxProofs.LinkContainer
import DrxProofs.LinkSort
import DrxProofs.SpecLex
namespace Drx.Link
open Drx Drx.Lscr Drx.Gen Drx.Spec
set_option linter.unusedSimpArgs false
set_option linter.unusedVariables false

/-! ### operator table -/

theorem binop_text (o : BinOp) : dictGet OpNames.lingoBinOp (binName o) = .ok (if o.isInfix then opTxt o else S "sprite... " ++ opTxt o) ∧
    (binName o = S "assign") = False := by
  cases o <;> exact ⟨rfl, eq_false (by decide)⟩

theorem infix_not_sprite (o : BinOp) (h : o.isInfix = true) : startsWith (opTxt o) (S "sprite... ") = false := by
  cases o <;> first | rfl | (simp [BinOp.isInfix] at h)

theorem prefix_sprite (o : BinOp) (h : o.isInfix = false) :
    startsWith (S "sprite... " ++ opTxt o) (S "sprite... ") = true ∧ removePrefix (S "sprite... " ++ opTxt o) (S "sprite... ") = opTxt o := by
  cases o <;> first | exact ⟨by decide, by decide⟩ | (simp [BinOp.isInfix] at h)

/-! ### first characters -/

theorem natStr_eq_intStr (k : Nat) : natStr k = Lscr.intStr ((k : Nat) : Int) := rfl

theorem strThe_op (t : Tbl) (k : Nat) (op : Str) (r : Nat) (h : strThe t k = some (op, r)) : op = S "number" ∨ op = S "last" := by
  cases t <;> simp [strThe] at h <;> first | exact Or.inr h.2.1.symm | exact Or.inl h.1.symm

/-- the two shapes of `the … of e` with one argument -/
theorem mE_the1 (t : Tbl) (k : Nat) (e : Expr) (hf : FragE (.the t k [e]) = true) :
    (∃ cls tb w, theTbl t = some (cls, tb, w) ∧ (tb.any fun x => x.1 == k) = true ∧ (idxName e).isSome = true ∧
        mE (.the t k [e]) = S "the " ++ nameOrUnknown tb k ++ S " of " ++ w.toList ++ S " " ++ mE e) ∨
    (∃ op r ty, theTbl t = none ∧ strThe t k = some (op, r) ∧ chunkTy r = some ty ∧
        mE (.the t k [e]) = (if op = S "last" then S "the last " ++ ty ++ S " of " ++ mE e else S "the number of " ++ ty ++ S "s of " ++ mE e)) ∨
    (t = .field ∧ (tblCast.any fun x => x.1 == k) = true ∧
        mE (.the t k [e]) = S "the " ++ nameOrUnknown tblCast k ++ S " of field " ++ mE e) := by
  simp only [FragE, Bool.and_eq_true, Bool.or_eq_true] at hf
  obtain ⟨hor, _⟩ := hf
  cases ht : theTbl t with
  | some v =>
    obtain ⟨cls, tb, w⟩ := v
    rw [ht, theTbl_strThe t k _ ht, theTbl_field t _ ht] at hor
    simp only [Bool.and_eq_true, Bool.false_eq_true, or_false, Bool.false_and, false_and] at hor
    exact Or.inl ⟨cls, tb, w, rfl, hor.1, hor.2, by simp only [mE, ht]⟩
  | none =>
    rw [ht] at hor
    simp only [Bool.false_and, Bool.false_eq_true, false_or, false_and] at hor
    cases hst : strThe t k with
    | none =>
      rw [hst] at hor
      simp only [Bool.false_eq_true, false_or, Bool.and_eq_true, decide_eq_true_eq] at hor
      obtain ⟨rfl, hk⟩ := hor
      exact Or.inr (Or.inr ⟨rfl, hk, by simp only [mE, ht, hst, if_true]⟩)
    | some v =>
      obtain ⟨op, r⟩ := v
      rw [hst] at hor
      have hor' : (chunkTy r).isSome = true := by
        rcases hor with hor | hor
        · exact hor
        · simp only [Bool.and_eq_true, decide_eq_true_eq] at hor
          obtain ⟨rfl, _⟩ := hor
          simp [strThe] at hst
      obtain ⟨ty, hty⟩ := Option.isSome_iff_exists.mp hor'
      exact Or.inr (Or.inl ⟨op, r, ty, rfl, rfl, hty, by simp only [mE, ht, hst, hty, Option.getD_some]⟩)

/-- the text of a `the` form starts with `the ` -/
theorem mE_the_head (t : Tbl) (k : Nat) (as : List Expr) (hf : FragE (.the t k as) = true) : ∃ r, mE (.the t k as) = S "the " ++ r := by
  cases as with
  | nil => cases t <;> first | (simp [FragE] at hf; done) | exact ⟨_, by simp only [mE]; rfl⟩
  | cons x xs =>
    cases xs with
    | cons y ys => cases t <;> simp [FragE] at hf
    | nil =>
      rcases mE_the1 t k x hf with ⟨cls, tb, w, _, _, _, hm⟩ | ⟨op, r, ty, _, _, _, hm⟩ | ⟨_, _, hm⟩
      · exact ⟨_, by rw [hm]; simp only [List.append_assoc]; rfl⟩
      rotate_left
      · exact ⟨_, by rw [hm]; simp only [List.append_assoc]; rfl⟩
      · rw [hm]
        by_cases hop : op = S "last"
        · rw [if_pos hop]; exact ⟨_, by simp only [S, List.append_assoc]; rfl⟩
        · rw [if_neg hop]; exact ⟨_, by simp only [S, List.append_assoc]; rfl⟩

/-- the printed form of an expression of the fragment starts with '-' only for a unary minus -/
theorem mE_not_minus : ∀ (e : Expr), FragE e = true → startsMinus e = false → startsWith (mE e) (S "-") = false
  | .int k, _, _ => by
    obtain ⟨c, rest, h, _, hc, _⟩ := natStr_head k
    simp only [mE, h, startsWith, S]
    simp [List.isPrefixOf, hc]
    exact fun e => hc e.symm
  | .var _ v, hf, _ => by
    simp only [FragE] at hf
    cases v with
    | nil => simp [idOk] at hf
    | cons c cs =>
      simp only [idOk, Bool.and_eq_true] at hf
      have : c ≠ '-' := by
        intro e; subst e
        have : isIdStart '-' = false := by decide
        rw [this] at hf; simp at hf
      simp only [mE, startsWith, S]
      simp [List.isPrefixOf]
      exact fun e => this e.symm
  | .un .neg _, _, hm => by simp [startsMinus] at hm
  | .un .not _, _, _ => by simp [mE, startsWith, S, List.isPrefixOf]
  | .bin o a b, _, _ => by
    cases h : o.isInfix <;> simp [mE, h, startsWith, S, List.isPrefixOf]
  | .field _, _, _ => by simp [mE, startsWith, S, List.isPrefixOf]
  | .call f as, hf, _ => by
    simp only [FragE, Bool.and_eq_true] at hf
    have hid := hf.1.1.1
    cases f with
    | nil => simp [idOk] at hid
    | cons c cs =>
      simp only [idOk, Bool.and_eq_true] at hid
      have : c ≠ '-' := by
        intro e; subst e
        have : isIdStart '-' = false := by decide
        rw [this] at hid; simp at hid
      simp only [mE, startsWith, S]
      simp [List.isPrefixOf]
      exact fun e => this e.symm
  | .list _, _, _ => by simp [mE, startsWith, S, List.isPrefixOf]
  | .str _, _, _ => by simp [mE, startsWith, S, List.isPrefixOf]
  | .float _ _, hf, _ => by simp [FragE] at hf
  | .sym _, _, _ => by simp [mE, startsWith, S, List.isPrefixOf]
  | .me, hf, _ => by simp [FragE] at hf
  | .mcall o m as, hf, _ => by
    simp only [FragE, Bool.and_eq_true] at hf
    obtain ⟨nm, _, hid, _, hshape⟩ := recvOk_spec o hf.1.1
    have hmo : mE o = nm := by rcases hshape with rfl | rfl | rfl <;> rfl
    cases nm with
    | nil => simp [idOk] at hid
    | cons c cs =>
      simp only [idOk, Bool.and_eq_true] at hid
      have : c ≠ '-' := by
        intro e; subst e
        have : isIdStart '-' = false := by decide
        rw [this] at hid; simp at hid
      simp only [mE, hmo, startsWith, S]
      simp [List.isPrefixOf]
      exact fun e => this e.symm
  | .plist as, _, _ => by cases h : as.isEmpty <;> simp [mE, h, startsWith, S, List.isPrefixOf]
  | .the t k as, hf, _ => by
    obtain ⟨r, hr⟩ := mE_the_head t k as hf
    rw [hr]
    simp [startsWith, S, List.isPrefixOf]
  | .key _, _, _ => by simp [mE, startsWith, S, List.isPrefixOf]
  | .movie _, _, _ => by simp [mE, startsWith, S, List.isPrefixOf]
  | .oprop _ _, _, _ => by simp [mE, startsWith, S, List.isPrefixOf]
  | .chunk k _ _ _, _, _ => by cases k <;> simp [mE, ChunkKind.tag, startsWith, S, List.isPrefixOf]

/-! ### argument lists -/

theorem All2.reverse {α β : Type} {R : α → β → Prop} {l1 : List α} {l2 : List β} (h : All2 R l1 l2) : All2 R l1.reverse l2.reverse := by
  have snoc : ∀ {a : List α} {b : List β} {x : α} {y : β}, All2 R a b → R x y → All2 R (a ++ [x]) (b ++ [y]) := by
    intro a b x y hab
    induction hab with
    | nil => intro hxy; exact All2.cons hxy All2.nil
    | cons hr _ ih => intro hxy; exact All2.cons hr (ih hxy)
  induction h with
  | nil => exact All2.nil
  | cons hr _ ih => simp only [List.reverse_cons]; exact snoc ih hr

/-- `[str(s.generate_lingo(ind)) for s in l]` when every element prints a known text and `gv_as_sym` finds no symbol to rewrite -/
theorem lingoStrs_ok (gv : Bool) (ind : Nat) : ∀ (l : List Node) (ts : List Str), All2 (fun n t => lingo false n ind = .ok (.s t)) l ts →
    (gv = true → ∀ n, l.getLast? = some n → n.symName? = none) → lingoStrs gv l ind = .ok ts
  | [], ts, h, _ => by cases h; simp [lingoStrs]
  | [x], ts, h, hs => by
    cases h with
    | cons hx hr =>
      cases hr
      have : (if gv = true then x.symName? else none) = none := by
        cases gv with
        | false => rfl
        | true => simp only [if_true]; exact hs rfl x rfl
      simp only [lingoStrs, this, hx, bind, Except.bind, pure, Except.pure, Lscr.Name.str]
  | x :: y :: r, ts, h, hs => by
    cases h with
    | cons hx hr =>
      have ih := lingoStrs_ok gv ind (y :: r) _ hr (fun hg n hn => hs hg n (by simpa [List.getLast?_cons_cons] using hn))
      simp only [lingoStrs, hx, ih, bind, Except.bind, pure, Except.pure, Lscr.Name.str]

theorem mArgs_eq : ∀ (as : List Expr), mArgs as = joinWith (S ", ") (as.map mE)
  | [] => rfl
  | [e] => by simp [mArgs, joinWith]
  | e :: e2 :: es => by
    have ih := mArgs_eq (e2 :: es)
    simp only [mArgs, ih, List.map_cons, joinWith]

theorem emb_symName : ∀ (e : Expr), FragE e = true → (∀ v, e ≠ .sym v) → ∀ (n : Node), Emb e n → n.symName? = none
  | .int _, _, _, n, h => by obtain ⟨p, rfl⟩ := h; rfl
  | .var .loc _, _, _, n, h => by obtain ⟨p, rfl⟩ := h; rfl
  | .var .param _, _, _, n, h => by obtain ⟨p, rfl⟩ := h; rfl
  | .var .glob _, _, _, n, h => by obtain ⟨p, rfl⟩ := h; rfl
  | .var .prop _, _, _, n, h => by obtain ⟨p, rfl⟩ := h; rfl
  | .un _ _, _, _, n, h => by obtain ⟨p, x, rfl, _⟩ := h; rfl
  | .bin _ _ _, _, _, n, h => by obtain ⟨p, x, y, rfl, _⟩ := h; rfl
  | .field _, _, _, n, h => by obtain ⟨p, x, rfl, _⟩ := h; rfl
  | .call _ _, _, _, n, h => by obtain ⟨p, p', wr, ops, rfl, _⟩ := h; rfl
  | .list _, _, _, n, h => by obtain ⟨p, p', ops, rfl, _⟩ := h; rfl
  | .sym v, _, hne, _, _ => absurd rfl (hne v)
  | .str _, _, _, n, h => by obtain ⟨p, rfl⟩ := h; rfl
  | .float _ _, hf, _, _, _ => by simp [FragE] at hf
  | .me, hf, _, _, _ => by simp [FragE] at hf
  | .mcall _ _ _, _, hne, n, h => emb_symName' _ n h hne
  | .plist _, _, hne, n, h => emb_symName' _ n h hne
  | .the t k as, hf, hne, n, h => emb_symName' _ n h hne
  | .key _, _, _, n, h => by obtain ⟨p, rfl⟩ := h; rfl
  | .movie _, _, _, n, h => by
    rcases h with ⟨p, rfl⟩ | ⟨p, q, o, rfl, _⟩ <;> rfl
  | .oprop _ _, _, hne, n, h => emb_symName' _ n h hne
  | .chunk _ _ _ _, _, hne, n, h => emb_symName' _ n h hne

/-- under `gv_as_sym` the node of the first argument is not a symbol, unless the call clashes (`gvClash`) -/
theorem first_not_sym (f : Spec.Name) (as : List Expr) (hfl : FragL as = true) (ns : List Node) (hemb : EmbL as ns)
    (hg : gvClash f as = false) :
    Lscr.listHas Gen.PropTables.listFunctions (pyLower f) = true → ∀ n, ns.reverse.getLast? = some n → n.symName? = none := by
  intro hgv n hn
  rw [List.getLast?_reverse] at hn
  cases as with
  | nil => simp only [EmbL] at hemb; subst hemb; simp at hn
  | cons e es =>
    obtain ⟨x, xs, rfl, hx, _⟩ := hemb
    simp only [List.head?_cons, Option.some.injEq] at hn
    subst hn
    simp only [FragL, Bool.and_eq_true] at hfl
    refine emb_symName e hfl.1 ?_ x hx
    intro v hv
    subst hv
    simp [gvClash, hgv] at hg

theorem plainCall_spec (f : Spec.Name) (h : plainCallName f = true) :
    (Lscr.Name.s f == Lscr.Name.s (S "sound")) = false ∧ (Lscr.Name.s f == Lscr.Name.s (S "go")) = false := by
  simp only [plainCallName, Bool.and_eq_true, bne_iff_ne, ne_eq] at h
  constructor
  · simp only [beq_eq_false_iff_ne, ne_eq, Lscr.Name.s.injEq]; exact h.1
  · simp only [beq_eq_false_iff_ne, ne_eq, Lscr.Name.s.injEq]; exact h.2

/-- the text of a call's argument list, from the texts of the arguments -/
theorem call_args_text (gv : Bool) (ind : Nat) (as : List Expr) (hfl : FragL as = true) (ns : List Node) (hemb : EmbL as ns)
    (hall : All2 (fun e n => lingo false n ind = .ok (.s (mE e))) as ns)
    (hlast : gv = true → ∀ n, ns.reverse.getLast? = some n → n.symName? = none) :
    (lingoStrs gv ns.reverse ind).map commaJoinRev = .ok (mArgs as) := by
  have h1 : All2 (fun n t => lingo false n ind = .ok (.s t)) ns.reverse (as.map mE).reverse := by
    have : All2 (fun n t => lingo false n ind = .ok (.s t)) ns (as.map mE) := by
      clear hemb hfl hlast
      induction hall with
      | nil => exact All2.nil
      | cons hr _ ih => exact All2.cons hr ih
    exact this.reverse
  rw [lingoStrs_ok gv ind _ _ h1 hlast]
  simp [Except.map, commaJoinRev, mArgs_eq]

/-- the operand list of a method call: the arguments (pop order), then the selector symbol with `use_hash` cleared — printed
    bare whether or not `gv_as_sym` applies -/
theorem lingoStrs_sym (gv : Bool) (ind : Nat) (m : Spec.Name) (ps : Int) : ∀ (l : List Node) (ts : List Str),
    All2 (fun n t => lingo false n ind = .ok (.s t)) l ts → lingoStrs gv (l ++ [.sym (.s m) ps false]) ind = .ok (ts ++ [m])
  | [], ts, h => by
    cases h
    cases gv <;> simp [lingoStrs, Node.symName?, lingo, symLingo, bind, Except.bind, pure, Except.pure, Lscr.Name.str]
  | x :: l, ts, h => by
    cases h with
    | cons hx hr =>
      have ih := lingoStrs_sym gv ind m ps l _ hr
      cases hl : l ++ [Node.sym (.s m) ps false] with
      | nil => simp at hl
      | cons y r =>
        rw [hl] at ih
        simp only [List.cons_append, hl, lingoStrs, hx, ih, bind, Except.bind, pure, Except.pure, Lscr.Name.str]

theorem joinWith_cons (sep x : Str) (l : List Str) : joinWith sep (x :: l) = x ++ (if l.isEmpty then [] else sep ++ joinWith sep l) := by
  cases l with
  | nil => simp [joinWith]
  | cons y r => simp [joinWith]

/-- the text of a method call's operand list -/
theorem mcall_args_text (gv : Bool) (ind : Nat) (m : Spec.Name) (ps : Int) (as : List Expr) (ns : List Node)
    (hall : All2 (fun e n => lingo false n ind = .ok (.s (mE e))) as ns) :
    (lingoStrs gv (ns.reverse ++ [.sym (.s m) ps false]) ind).map commaJoinRev
      = .ok (m ++ (if as.isEmpty then [] else S ", " ++ mArgs as)) := by
  have h1 : All2 (fun n t => lingo false n ind = .ok (.s t)) ns.reverse (as.map mE).reverse := by
    have : All2 (fun n t => lingo false n ind = .ok (.s t)) ns (as.map mE) := by
      induction hall with
      | nil => exact All2.nil
      | cons hr _ ih => exact All2.cons hr ih
    exact this.reverse
  rw [lingoStrs_sym gv ind m ps _ _ h1]
  simp only [Except.map, commaJoinRev, List.reverse_append, List.reverse_cons, List.reverse_nil, List.nil_append, List.reverse_reverse,
    List.singleton_append, joinWith_cons, mArgs_eq, List.isEmpty_map]

/-! ### property lists -/

def revPairs : List Str → List Str
  | v :: k :: r => (k ++ S ": " ++ v) :: revPairs r
  | _ => []

def fwdPairs : List Str → List Str
  | k :: v :: r => (k ++ S ": " ++ v) :: fwdPairs r
  | _ => []

theorem lingoPairs_ok (ind : Nat) : ∀ (ns : List Node) (ts : List Str), All2 (fun n t => lingo false n ind = .ok (.s t)) ns ts →
    ns.length % 2 = 0 → lingoPairs ns ind = .ok (revPairs ts)
  | [], ts, h, _ => by cases h; simp [lingoPairs, revPairs]
  | [x], ts, h, hl => by simp at hl
  | v :: k :: r, ts, h, hl => by
    cases h with
    | cons hv hr =>
      cases hr with
      | cons hk hr =>
        have ih := lingoPairs_ok ind r _ hr (by simp at hl; omega)
        simp only [lingoPairs, hv, hk, ih, bind, Except.bind, pure, Except.pure, Lscr.Name.str, revPairs]

theorem revPairs_snoc : ∀ (x : List Str) (v k : Str), x.length % 2 = 0 → revPairs (x ++ [v, k]) = revPairs x ++ [k ++ S ": " ++ v]
  | [], v, k, _ => by simp [revPairs]
  | [a], v, k, h => by simp at h
  | a :: b :: r, v, k, h => by
    have ih := revPairs_snoc r v k (by simp at h; omega)
    simp only [List.cons_append, revPairs, ih]

theorem revPairs_reverse : ∀ (l : List Str), l.length % 2 = 0 → (revPairs l.reverse).reverse = fwdPairs l
  | [], _ => by simp [revPairs, fwdPairs]
  | [a], h => by simp at h
  | k :: v :: r, h => by
    have hr : r.length % 2 = 0 := by simp at h; omega
    have ih := revPairs_reverse r hr
    have e : (k :: v :: r).reverse = r.reverse ++ [v, k] := by simp
    rw [e, revPairs_snoc r.reverse v k (by simpa using hr), List.reverse_append, ih]
    simp [fwdPairs]

theorem fwdPairs_join : ∀ (as : List Expr), as.length % 2 = 0 → joinWith (S ", ") (fwdPairs (as.map mE)) = mPairs as
  | [], _ => by simp [fwdPairs, joinWith, mPairs]
  | [a], h => by simp at h
  | [k, v], _ => by simp [fwdPairs, joinWith, mPairs]
  | [a, b, c], h => by simp at h
  | k :: v :: k2 :: v2 :: r, h => by
    have ih := fwdPairs_join (k2 :: v2 :: r) (by simp at h ⊢; omega)
    simp only [List.map_cons, fwdPairs, joinWith, mPairs] at ih ⊢
    rw [ih]
    try simp [List.append_assoc]

theorem fwdPairs_ne_nil (as : List Expr) (h : as.length % 2 = 0) (hne : as ≠ []) : fwdPairs (as.map mE) ≠ [] := by
  match as, h, hne with
  | [], _, hne => exact absurd rfl hne
  | [a], h, _ => simp at h
  | k :: v :: r, _, _ => simp [fwdPairs]

/-- the text of the pairs of a property list, from the texts of its entries -/
theorem pairs_text (ind : Nat) (as : List Expr) (ns : List Node)
    (hall : All2 (fun e n => lingo false n ind = .ok (.s (mE e))) as ns) (hlen : as.length % 2 = 0) :
    ∃ l, lingoPairs ns.reverse ind = .ok l ∧ (as ≠ [] → l ≠ []) ∧ commaJoinRev l = mPairs as := by
  have h1 : All2 (fun n t => lingo false n ind = .ok (.s t)) ns.reverse (as.map mE).reverse := by
    have : All2 (fun n t => lingo false n ind = .ok (.s t)) ns (as.map mE) := by
      clear hlen
      induction hall with
      | nil => exact All2.nil
      | cons hr _ ih => exact All2.cons hr ih
    exact this.reverse
  have hnl : ns.reverse.length % 2 = 0 := by rw [List.length_reverse, ← hall.length_eq]; exact hlen
  refine ⟨revPairs (as.map mE).reverse, lingoPairs_ok ind _ _ h1 hnl, ?_, ?_⟩
  · intro hne he
    have := revPairs_reverse (as.map mE) (by simpa using hlen)
    rw [he] at this
    exact fwdPairs_ne_nil as hlen hne this.symm
  · unfold commaJoinRev
    rw [revPairs_reverse (as.map mE) (by simpa using hlen), fwdPairs_join as hlen]

/-! ### expressions -/

/-- a property of a hidden owner (`_movie`, `_system`, …, or the object of an enclosing `tell`) prints without `of` -/
theorem lingo_propAcc (p q : Int) (o prop : Str) (ind : Nat) (ho : startsWith o (S "_") = true ∨ o = S "tell_obj") :
    lingo false (.propAcc p (.leaf .localVar (.s o) q) prop false) ind = .ok (.s (S "the " ++ prop)) := by
  have hc : ¬ ((Lscr.Name.s o == Lscr.Name.s (S "me")) = true ∧ (Node.leaf .localVar (.s o) q).cls = .leaf .node) := by
    intro h
    have := h.2
    simp [Node.cls] at this
  simp only [lingo, leafLingo, bind, Except.bind, hc, if_false, Lscr.Name.asStr, ho, if_true, pure, Except.pure, Bool.not_false, and_self]

/-- the text of an object index: the node's name is what the printer writes (literals and variables) -/
theorem idx_text (e : Expr) (nm : Lscr.Name) (hi : idxName e = some nm) (hf : FragE e = true) : nm.str = mE e := by
  cases e with
  | int k => simp only [idxName, Option.some.injEq] at hi; subst hi; rfl
  | str v =>
    simp only [idxName, Option.some.injEq] at hi; subst hi
    simp only [FragE] at hf
    obtain ⟨hne, hpl⟩ := plainStr_spec v hf
    have hpl' : ∀ c ∈ v, plainChar c = true := hpl
    simp only [Lscr.Name.str, escapeString, unicodeEscape_plain v hpl', mE]
    rfl
  | var k v => simp only [idxName, Option.some.injEq] at hi; subst hi; rfl
  | _ => simp [idxName] at hi

/-- `the <p> of sprite n` -/
theorem lingo_objAcc (t : Tbl) (cls : Leaf) (tb : List (Nat × String)) (w : String) (ht : theTbl t = some (cls, tb, w)) (p q : Int)
    (nm : Lscr.Name) (e : Expr) (hi : idxName e = some nm) (hf : FragE e = true) (prop : Str) (ind : Nat) :
    lingo false (.propAcc p (.leaf cls nm q) prop false) ind = .ok (.s (S "the " ++ prop ++ S " of " ++ w.toList ++ S " " ++ mE e)) := by
  have htxt := idx_text e nm hi hf
  have hc : ∀ x : Lscr.Name, ¬ ((x == Lscr.Name.s (S "me")) = true ∧ (Node.leaf cls nm q).cls = .leaf .node) := by
    intro x h
    have := h.2
    cases t <;> simp [theTbl] at ht <;> (obtain ⟨rfl, _, _⟩ := ht; simp [Node.cls] at this)
  cases t <;> simp [theTbl] at ht <;>
  · obtain ⟨rfl, rfl, rfl⟩ := ht
    simp only [lingo, leafLingo, bind, Except.bind, hc, if_false, Lscr.Name.asStr, pure, Except.pure, htxt, Lscr.Name.str]
    simp [startsWith, S, List.isPrefixOf, List.append_assoc]
    exact htxt

/-- the text of an admissible object of `the <p> of <obj>` is not `me` -/
theorem objText_ok (o : Expr) (hf : FragE o = true) (ho : objOk o = true) : mE o ≠ S "me" := by
  cases o with
  | int k =>
    obtain ⟨c, rest, h, hd, _, _⟩ := natStr_head k
    have hc : ∀ x : Char, isAsciiDigit x = false → c ≠ x := by
      intro x hx e; subst e; rw [hx] at hd; cases hd
    simp only [mE, h, S]
    intro e; simp at e; exact hc 'm' (by decide) e.1
  | var k v =>
    simp only [objOk, bne_iff_ne, ne_eq] at ho
    exact ho
  | call f as =>
    have hlp : '(' ∈ mE (.call f as) := by simp [mE, S]
    intro e; rw [e] at hlp; simp [S] at hlp
  | mcall o m as =>
    have hlp : '(' ∈ mE (.mcall o m as) := by simp [mE, S]
    intro e; rw [e] at hlp; simp [S] at hlp
  | un op a => cases op <;> simp [mE, S]
  | bin op a b => cases h : op.isInfix <;> simp [mE, h, S]
  | field a => simp [mE, S]
  | list as => simp [mE, S]
  | str v => simp [mE, S]
  | sym v => simp [mE, S]
  | key v => simp [mE, S]
  | movie v => simp [mE, S]
  | oprop v o => simp [mE, S]
  | plist as => cases h : as.isEmpty <;> simp [mE, h, S]
  | chunk k a b d => cases k <;> simp [mE, ChunkKind.tag, S]
  | the t k as =>
    obtain ⟨r, hr⟩ := mE_the_head t k as hf
    rw [hr]
    simp [S]
  | _ => simp [FragE] at hf

mutual
theorem lingo_emb : ∀ (e : Expr), FragE e = true → ∀ (n : Node), Emb e n → ∀ (ind : Nat), lingo false n ind = .ok (.s (mE e))
  | .int k, _, n, h, ind => by
    obtain ⟨p, rfl⟩ := h
    simp only [lingo, leafLingo, mE]
    rw [natStr_eq_intStr, constLingo_intStr]
  | .sym v, _, n, h, ind => by
    obtain ⟨p, rfl⟩ := h
    simp only [lingo, symLingo, if_true, Lscr.Name.asStr, Except.map, mE]
  | .var .loc v, _, n, h, ind => by obtain ⟨p, rfl⟩ := h; simp only [lingo, leafLingo, mE]
  | .var .param v, _, n, h, ind => by obtain ⟨p, rfl⟩ := h; simp only [lingo, leafLingo, mE]
  | .var .glob v, _, n, h, ind => by obtain ⟨p, rfl⟩ := h; simp only [lingo, leafLingo, mE]
  | .var .prop v, _, n, h, ind => by obtain ⟨p, rfl⟩ := h; simp only [lingo, leafLingo, mE]
  | .un .neg a, hf, n, h, ind => by
    obtain ⟨p, x, rfl, hx⟩ := h
    simp only [FragE, Bool.and_eq_true, Bool.not_eq_true'] at hf
    have ih := lingo_emb a hf.1 x hx ind
    have hm := mE_not_minus a hf.1 hf.2
    simp only [lingo, ih, bind, Except.bind, unName, if_true, Lscr.Name.str, hm, Bool.false_eq_true, if_false, pure, Except.pure, mE]
  | .un .not a, hf, n, h, ind => by
    obtain ⟨p, x, rfl, hx⟩ := h
    simp only [FragE] at hf
    have ih := lingo_emb a hf x hx ind
    have hne : ¬ (S "not" = S "minus") := by decide
    simp only [lingo, ih, bind, Except.bind, unName, hne, if_false, Lscr.Name.str, pure, Except.pure, mE]
    rfl
  | .bin o a b, hf, n, h, ind => by
    obtain ⟨p, x, y, rfl, hx, hy⟩ := h
    simp only [FragE, Bool.and_eq_true] at hf
    obtain ⟨⟨_, hfa⟩, hfb⟩ := hf
    have iha := lingo_emb a hfa x hx ind
    have ihb := lingo_emb b hfb y hy ind
    obtain ⟨hd, hna⟩ := binop_text o
    simp only [lingo, hna, if_false, hd, iha, ihb, bind, Except.bind, Lscr.Name.str, pure, Except.pure, mE]
    cases hi : o.isInfix with
    | true =>
      simp only [if_true, infix_not_sprite o hi, Bool.false_eq_true, if_false]
    | false =>
      obtain ⟨h1, h2⟩ := prefix_sprite o hi
      simp only [Bool.false_eq_true, if_false, h1, if_true, h2]
  | .field a, hf, n, h, ind => by
    obtain ⟨p, x, rfl, hx⟩ := h
    simp only [FragE] at hf
    have ih := lingo_emb a hf x hx ind
    have hne : ¬ (S "field" = S "minus") := by decide
    simp only [lingo, ih, bind, Except.bind, hne, if_false, Lscr.Name.str, pure, Except.pure, mE]
    rfl
  | .call f as, hf, n, h, ind => by
    obtain ⟨p, p', wr, ops, rfl, hops⟩ := h
    simp only [FragE, Bool.and_eq_true, Bool.not_eq_true'] at hf
    obtain ⟨⟨⟨⟨_, hpc⟩, hne⟩, hgc⟩, hfl⟩ := hf
    have hall := lingoL_emb as hfl ops hops ind
    obtain ⟨hs1, hs2⟩ := plainCall_spec f hpc
    have hlen := embL_length as ops hops
    have hemp : ops.reverse.isEmpty = false := by
      cases as with
      | nil => simp at hne
      | cons e es =>
        cases ops with
        | nil => simp at hlen
        | cons x xs => simp
    have htxt := call_args_text (listHas Gen.PropTables.listFunctions (pyLower f)) ind as hfl ops hops hall
      (first_not_sym f as hfl ops hops hgc)
    simp only [lingo, hemp, Bool.false_eq_true, if_false, isListFn, Lscr.Name.asStr, bind, Except.bind, pure, Except.pure, hs1, hs2,
      false_and, Bool.false_and]
    cases hl : lingoStrs (listHas Gen.PropTables.listFunctions (pyLower f)) ops.reverse ind with
    | error e => have := htxt; rw [hl] at this; simp [Except.map] at this
    | ok l =>
      have := htxt
      rw [hl] at this
      simp only [Except.map, Except.ok.injEq] at this
      simp only [this, Bool.not_false, Bool.and_true, if_true, mE, and_self, Bool.true_and, not_false_eq_true, and_true]
  | .list as, hf, n, h, ind => by
    obtain ⟨p, p', ops, rfl, hops⟩ := h
    simp only [FragE] at hf
    have hall := lingoL_emb as hf ops hops ind
    have htxt := call_args_text false ind as hf ops hops hall (fun h => by cases h)
    cases hl : lingoStrs false ops.reverse ind with
    | error e => rw [hl] at htxt; simp [Except.map] at htxt
    | ok l =>
      rw [hl] at htxt
      simp only [Except.map, Except.ok.injEq] at htxt
      simp only [lingo, hl, bind, Except.bind, pure, Except.pure, htxt, mE]
  | .str v, hf, n, h, ind => by
    obtain ⟨p, rfl⟩ := h
    simp only [FragE] at hf
    obtain ⟨hne, hpl⟩ := plainStr_spec v hf
    have hpl' : ∀ c ∈ v, plainChar c = true := hpl
    have he : escapeString v = '"' :: (v ++ ['"']) := by simp only [escapeString, unicodeEscape_plain v hpl']
    have hst : startsWith ('"' :: (v ++ ['"'])) ['"'] = true := by simp [startsWith, List.isPrefixOf]
    simp only [lingo, leafLingo, constLingo, he, predefined_lookup_plain v hpl' hne, hst, if_true, replaceChars_plain v hpl', mE]
    rfl
  | .float _ _, hf, _, _, _ => by simp [FragE] at hf
  | .me, hf, _, _, _ => by simp [FragE] at hf
  | .mcall o m as, hf, n, h, ind => by
    obtain ⟨p, p', ps, rc, ops, nm, hnm, rfl, hops, _⟩ := h
    simp only [FragE, Bool.and_eq_true] at hf
    obtain ⟨⟨hro, _⟩, hfl⟩ := hf
    obtain ⟨nm', hnm', hid, hpc, hshape⟩ := recvOk_spec o hro
    rw [hnm] at hnm'
    cases hnm'
    have hmo : mE o = nm := by rcases hshape with rfl | rfl | rfl <;> rfl
    have hall := lingoL_emb as hfl ops hops ind
    obtain ⟨hs1, hs2⟩ := plainCall_spec nm hpc
    have hemp : (ops.reverse ++ [Node.sym (.s m) ps false]).isEmpty = false := by simp
    have htxt := mcall_args_text (listHas Gen.PropTables.listFunctions (pyLower nm)) ind m ps as ops hall
    simp only [lingo, hemp, Bool.false_eq_true, if_false, isListFn, Lscr.Name.asStr, bind, Except.bind, pure, Except.pure, hs1, hs2,
      false_and, Bool.false_and]
    cases hl : lingoStrs (listHas Gen.PropTables.listFunctions (pyLower nm)) (ops.reverse ++ [Node.sym (.s m) ps false]) ind with
    | error e => have := htxt; rw [hl] at this; simp [Except.map] at this
    | ok l =>
      have := htxt
      rw [hl] at this
      simp only [Except.map, Except.ok.injEq] at this
      simp only [this, Bool.not_false, Bool.and_true, if_true, mE, hmo, and_self, Bool.true_and, not_false_eq_true, and_true,
        List.append_assoc]
  | .plist as, hf, n, h, ind => by
    obtain ⟨p, p', ops, rfl, hops⟩ := h
    simp only [FragE, Bool.and_eq_true, beq_iff_eq] at hf
    have hall := lingoL_emb as hf.1 ops hops ind
    have htxt := pairs_text ind as ops hall hf.2
    cases hemp : as.isEmpty with
    | true =>
      have : as = [] := List.isEmpty_iff.mp hemp
      subst this
      have : ops = [] := by simpa [EmbL] using hops
      subst this
      simp [lingo, lingoPairs, bind, Except.bind, pure, Except.pure, mE]
    | false =>
      obtain ⟨l, hl, hne, hj⟩ := htxt
      have hle : l.isEmpty = false := by
        cases l with
        | nil => exact absurd rfl (hne (by simpa using hemp))
        | cons x xs => rfl
      simp only [lingo, hl, bind, Except.bind, pure, Except.pure, hle, Bool.false_eq_true, if_false, hj, mE, hemp]
  | .the t k as, hf, n, h, ind => by
    cases as with
    | cons x xs =>
      cases xs with
      | cons y ys => cases t <;> simp [FragE] at hf
      | nil =>
        have hfx : FragE x = true := by simp only [FragE, Bool.and_eq_true] at hf; exact hf.2
        simp only [Emb] at h
        rcases h with ⟨p, q, cls, tb, w, nm, ht, hnm, rfl⟩ | ⟨p, y, op, r, ty, hst, hty, rfl, hy⟩ | ⟨rfl, p, q, y, rfl, hy⟩
        · have ht' : theTbl t = some (cls, tb, w) := ht
          simp only [mE, ht']
          exact lingo_objAcc t cls tb w ht p q nm x hnm hfx _ ind
        rotate_left
        · have ihf := lingo_emb (.field x) (by simpa only [FragE] using hfx) (.unary (S "field") q y) ⟨q, y, rfl, hy⟩ ind
          have hm : mE (.the .field k [x]) = S "the " ++ nameOrUnknown tblCast k ++ S " of field " ++ mE x := by
            simp only [mE, theTbl, strThe, if_true]
          rw [hm]
          have hcls : (Node.unary (S "field") q y).cls ≠ .leaf .node := by simp [Node.cls]
          generalize Node.unary (S "field") q y = fn at ihf hcls ⊢
          have hc : ¬ ((Lscr.Name.s (mE (.field x)) == Lscr.Name.s (S "me")) = true ∧ fn.cls = .leaf .node) := fun h => hcls h.2
          simp only [lingo, ihf, bind, Except.bind, hc, if_false, Lscr.Name.asStr, pure, Except.pure, mE, Bool.not_false]
          simp [startsWith, S, List.isPrefixOf, List.append_assoc]
        · have ih := lingo_emb x hfx y hy ind
          rcases mE_the1 t k x hf with ⟨cls, tb, w, ht, _, _, _⟩ | ⟨op', r', ty', _, hst', hty', hm⟩ | ⟨rfl, _, _⟩
          · rw [theTbl_strThe t k _ ht] at hst; cases hst
          rotate_left
          · simp [strThe] at hst
          · rw [hst] at hst'
            simp only [Option.some.injEq, Prod.mk.injEq] at hst'
            obtain ⟨rfl, rfl⟩ := hst'
            rw [hty] at hty'
            simp only [Option.some.injEq] at hty'
            subst hty'
            rw [hm]
            rcases strThe_op t k op r hst with rfl | rfl
            · have hne : ¬ (S "number" = S "last") := by decide
              simp only [lingo, ih, bind, Except.bind, hne, if_false, pure, Except.pure, Lscr.Name.str, List.append_assoc]
              rfl
            · simp only [lingo, ih, bind, Except.bind, if_true, pure, Except.pure, Lscr.Name.str, List.append_assoc]
              rfl
    | nil =>
      cases t with
      | sys =>
        simp only [Emb] at h
        obtain ⟨p, q, o, rfl, ho⟩ := h
        exact lingo_propAcc p q o _ ind ho
      | special =>
        simp only [Emb] at h
        obtain ⟨p, rfl⟩ := h
        simp only [lingo, leafLingo, mE, Lscr.Name.str]
      | _ => simp [FragE] at hf
  | .key v, _, n, h, ind => by
    obtain ⟨p, rfl⟩ := h
    simp only [lingo, mE]
  | .movie v, _, n, h, ind => by
    rcases h with ⟨p, rfl⟩ | ⟨p, q, o, rfl, ho⟩
    · simp only [lingo, leafLingo, mE, Lscr.Name.str]
    · exact lingo_propAcc p q o v ind (Or.inl ho)
  | .oprop v o, hf, n, h, ind => by
    obtain ⟨p, x, rfl, hx⟩ := h
    simp only [FragE, Bool.and_eq_true] at hf
    obtain ⟨⟨_, hobj⟩, hfo⟩ := hf
    have ih := lingo_emb o hfo x hx ind
    have h3 := objText_ok o hfo hobj
    have hme : (Lscr.Name.s (mE o) == Lscr.Name.s (S "me")) = false :=
      beq_false_of_ne (fun e => h3 (Lscr.Name.s.inj e))
    simp only [lingo, ih, bind, Except.bind, hme, Bool.false_eq_true, false_and, if_false, Lscr.Name.asStr, pure, Except.pure, mE,
      List.append_assoc, Bool.not_true]
  | .chunk k a b d, hf, n, h, ind => by
    obtain ⟨p, x, y, z, rfl, hx, hy, hz⟩ := h
    simp only [FragE, Bool.and_eq_true, Bool.not_eq_true'] at hf
    obtain ⟨⟨⟨hfa, _⟩, hfb⟩, hfd⟩ := hf
    have e1 := lingo_emb a hfa x hx 0
    have e3 := lingo_emb d hfd z hz 0
    rcases hy with ⟨hzb, rfl⟩ | ⟨hzb, hy⟩
    · simp only [lingo, Node.isNone, if_true, e1, e3, bind, Except.bind, pure, Except.pure, Lscr.Name.str, mE, hzb, List.append_nil,
        List.append_assoc]
    · have e2 := lingo_emb b hfb y hy 0
      have hn := emb_isNone b y hy
      simp only [lingo, hn, Bool.false_eq_true, if_false, e1, e2, e3, bind, Except.bind, pure, Except.pure, Lscr.Name.str, mE, hzb,
        List.append_assoc]
theorem lingoL_emb : ∀ (as : List Expr), FragL as = true → ∀ (ns : List Node), EmbL as ns → ∀ (ind : Nat),
    All2 (fun e n => lingo false n ind = .ok (.s (mE e))) as ns
  | [], _, ns, h, ind => by simp only [EmbL] at h; subst h; exact All2.nil
  | e :: es, hf, ns, h, ind => by
    obtain ⟨x, xs, rfl, hx, hxs⟩ := h
    simp only [FragL, Bool.and_eq_true] at hf
    exact All2.cons (lingo_emb e hf.1 x hx ind) (lingoL_emb es hf.2 xs hxs ind)
end

/-! ### statements -/

theorem idOk_chars (v : Spec.Name) (h : idOk v = true) : ∀ c ∈ v, isIdChar c = true := by
  cases v with
  | nil => simp [idOk] at h
  | cons c cs =>
    simp only [idOk, Bool.and_eq_true, List.all_eq_true] at h
    intro x hx
    rcases List.mem_cons.mp hx with hx | hx
    · subst hx; exact idStart_idChar x h.1
    · exact h.2 x hx

theorem idOk_not_field (v : Spec.Name) (h : idOk v = true) : startsWith v (S "field(") = false := by
  cases hs : startsWith v (S "field(") with
  | false => rfl
  | true =>
    have hp : (S "field(") <+: v := List.isPrefixOf_iff_prefix.mp hs
    obtain ⟨t, ht⟩ := hp
    have : '(' ∈ v := by rw [← ht]; simp [S]
    have := idOk_chars v h _ this
    exact absurd this (by decide)

theorem lingo_lv (lv : Expr) (hf : FragLv lv = true) (l : Node) (h : EmbLv lv l) (ind : Nat) : lingo false l ind = .ok (.s (mE lv)) := by
  cases lv with
  | var k v =>
    cases k with
    | loc => obtain ⟨p, rfl⟩ := h; simp only [lingo, leafLingo, mE]
    | param => obtain ⟨p, rfl⟩ := h; simp only [lingo, leafLingo, mE]
    | glob => obtain ⟨p, rfl⟩ := h; simp only [lingo, leafLingo, mE]
    | prop =>
      obtain ⟨p, q, rfl⟩ := h
      simp only [lingo, leafLingo, mE, bind, Except.bind, Node.cls, pure, Except.pure]
      simp
  | the t k as =>
    simp only [FragLv, Bool.and_eq_true] at hf
    simp only [EmbLv] at h
    exact lingo_emb _ hf.1 l h ind
  | oprop v o =>
    simp only [FragLv] at hf
    simp only [EmbLv] at h
    exact lingo_emb _ hf l h ind
  | movie v =>
    simp only [FragLv] at hf
    simp only [EmbLv] at h
    exact lingo_emb _ (by simpa [FragE] using hf) l h ind
  | _ => simp [FragLv] at hf

theorem pyGet_last {α} (l : List α) (x : α) : pyGet (l ++ [x]) (-1) = .ok x := by
  have h1 : ((-1 : Int) + ((l ++ [x]).length : Int)) = (l.length : Int) := by simp; omega
  have h2 : ¬ ((l.length : Int) < 0) := by omega
  simp only [pyGet, show ((-1 : Int) < 0) by decide, if_true, h1, h2, if_false, Int.toNat_natCast]
  simp

/-- `operands[0:last]` of a `sound` call: everything but the modifier -/
theorem lingoStrsButLast_snoc (ind : Nat) (x : Node) : ∀ (l : List Node) (ts : List Str),
    All2 (fun n t => lingo false n ind = .ok (.s t)) l ts → lingoStrsButLast (l ++ [x]) ind = .ok ts
  | [], ts, h => by cases h; simp [lingoStrsButLast]
  | y :: l, ts, h => by
    cases h with
    | cons hy hr =>
      have ih := lingoStrsButLast_snoc ind x l _ hr
      cases hl : l ++ [x] with
      | nil => simp at hl
      | cons z r =>
        rw [hl] at ih
        simp only [List.cons_append, hl, lingoStrsButLast, hy, ih, bind, Except.bind, pure, Except.pure, Lscr.Name.str]

theorem listFn_sound : listHas Gen.PropTables.listFunctions (pyLower (S "sound")) = false := by decide
theorem listFn_go : listHas Gen.PropTables.listFunctions (pyLower (S "go")) = false := by decide

theorem goWordX_model (w : Spec.Name) (h : goWordX w = true) : nameInList Gen.PropTables.goWords (.s w) = true := by
  simp only [goWordX, Bool.or_eq_true, beq_iff_eq] at h
  rcases h with (rfl | rfl) | rfl <;> decide

/-- `sound <word> a, b`: the model prints the NAME of the first argument's node and the other arguments -/
theorem lingo_call_sound (p q q' : Int) (wr : Bool) (m : Spec.Name) (rest : List Expr) (ops : List Node) (hfl : FragL rest = true)
    (hops : EmbL (.sym m :: rest) ops) (ind : Nat) :
    lingo false (.stmt p (.callFn (.s (S "sound")) q (.loadList (S "load_list") q' ops.reverse) true false wr .none)) ind
      = .ok (.s (indentOf ind ++ (S "sound " ++ m ++ S " " ++ mArgs rest) ++ S "\n")) := by
  obtain ⟨x, xs, rfl, hx, hxs⟩ := hops
  obtain ⟨px, rfl⟩ := hx
  have hall := lingoL_emb rest hfl xs hxs ind
  have h1 : All2 (fun n t => lingo false n ind = .ok (.s t)) xs.reverse (rest.map mE).reverse := by
    have : All2 (fun n t => lingo false n ind = .ok (.s t)) xs (rest.map mE) := by
      clear hxs hfl
      induction hall with
      | nil => exact All2.nil
      | cons hr _ ih => exact All2.cons hr ih
    exact this.reverse
  have hb := lingoStrsButLast_snoc ind (.sym (.s m) px true) _ _ h1
  have hemp : (xs.reverse ++ [Node.sym (.s m) px true]).isEmpty = false := by simp
  have hsnd : (Lscr.Name.s (S "sound") == Lscr.Name.s (S "sound")) = true := by decide
  simp only [List.reverse_cons, lingo, hemp, Bool.false_eq_true, if_false, isListFn, Lscr.Name.asStr, listFn_sound, hsnd, if_true,
    lastNameGv, pyGet_last, Node.name, hb, bind, Except.bind, pure, Except.pure, Lscr.Name.str, commaJoinRev, List.reverse_reverse,
    mArgs_eq]

/-- `go loop | next | previous` -/
theorem lingo_call_go (p q q' : Int) (wr : Bool) (w : Spec.Name) (hw : goWordX w = true) (ops : List Node)
    (hops : EmbL [.sym w] ops) (ind : Nat) :
    lingo false (.stmt p (.callFn (.s (S "go")) q (.loadList (S "load_list") q' ops.reverse) true false wr .none)) ind
      = .ok (.s (indentOf ind ++ (S "go " ++ w) ++ S "\n")) := by
  obtain ⟨x, xs, rfl, hx, hxs⟩ := hops
  obtain ⟨px, rfl⟩ := hx
  simp only [EmbL] at hxs
  subst hxs
  have hnot : (Lscr.Name.s (S "go") == Lscr.Name.s (S "sound")) = false := by decide
  have hgo : (Lscr.Name.s (S "go") == Lscr.Name.s (S "go")) = true := by decide
  have hgw := goWordX_model w hw
  simp only [List.reverse_cons, List.reverse_nil, List.nil_append, lingo, List.isEmpty_cons, Bool.false_eq_true, if_false, isListFn,
    Lscr.Name.asStr, listFn_go, hnot, hgo, Lscr.goWord, hgw, if_true, bind, Except.bind, pure, Except.pure, Lscr.Name.str, true_and,
    not_false_eq_true, and_self]

/-- the text of a `put` / `delete` / `hilite` target: a global at the bottom of a chunk chain prints its name whichever of the two
    variable classes the model chose -/
theorem lingo_tg : ∀ (lv : Expr) (r : Nat), FragTg r lv = true → ∀ (n : Node), EmbTg lv n → ∀ (ind : Nat), lingo false n ind = .ok (.s (mE lv))
  | .chunk k a b d, r, hf, n, h, ind => by
    obtain ⟨p, x, y, z, rfl, hx, hy, hz⟩ := h
    simp only [FragTg, Bool.and_eq_true, Bool.not_eq_true'] at hf
    obtain ⟨⟨⟨⟨_, hfa⟩, _⟩, hfb⟩, hfd⟩ := hf
    have e1 := lingo_emb a hfa x hx 0
    have e3 := lingo_tg d k.rank hfd z hz 0
    rcases hy with ⟨hzb, rfl⟩ | ⟨hzb, hy⟩
    · simp only [lingo, Node.isNone, if_true, e1, e3, bind, Except.bind, pure, Except.pure, Lscr.Name.str, mE, hzb, List.append_nil,
        List.append_assoc]
    · have e2 := lingo_emb b hfb y hy 0
      have hn := emb_isNone b y hy
      simp only [lingo, hn, Bool.false_eq_true, if_false, e1, e2, e3, bind, Except.bind, pure, Except.pure, Lscr.Name.str, mE, hzb,
        List.append_assoc]
  | .var .glob v, _, _, n, h, ind => by
    obtain ⟨p, rfl | rfl⟩ := h <;> simp only [lingo, leafLingo, mE]
  | .field e, r, hf, n, h, ind => lingo_emb _ (fragTg_fragE _ r hf) n h ind
  | .var .loc v, r, hf, n, h, ind => lingo_emb _ (fragTg_fragE _ r hf) n h ind
  | .var .param _, _, hf, _, _, _ => by simp [FragTg] at hf
  | .var .prop _, _, hf, _, _, _ => by simp [FragTg] at hf
  | .int _, _, hf, _, _, _ => by simp [FragTg] at hf
  | .str _, _, hf, _, _, _ => by simp [FragTg] at hf
  | .float _ _, _, hf, _, _, _ => by simp [FragTg] at hf
  | .sym _, _, hf, _, _, _ => by simp [FragTg] at hf
  | .me, _, hf, _, _, _ => by simp [FragTg] at hf
  | .bin _ _ _, _, hf, _, _, _ => by simp [FragTg] at hf
  | .un _ _, _, hf, _, _, _ => by simp [FragTg] at hf
  | .call _ _, _, hf, _, _, _ => by simp [FragTg] at hf
  | .mcall _ _ _, _, hf, _, _, _ => by simp [FragTg] at hf
  | .list _, _, hf, _, _, _ => by simp [FragTg] at hf
  | .plist _, _, hf, _, _, _ => by simp [FragTg] at hf
  | .the _ _ _, _, hf, _, _, _ => by simp [FragTg] at hf
  | .key _, _, hf, _, _, _ => by simp [FragTg] at hf
  | .movie _, _, hf, _, _, _ => by simp [FragTg] at hf
  | .oprop _ _, _, hf, _, _, _ => by simp [FragTg] at hf

theorem lingo_stmt (s : Stmt) (hf : FragS s = true) (n : Node) (h : EmbS s n) (ind : Nat) : lingo false n ind = .ok (.s (mS ind s)) := by
  cases s with
  | set lv v =>
    obtain ⟨p, q, l, r, rfl, hl, hr⟩ := h
    simp only [FragS, Bool.and_eq_true] at hf
    have e1 := lingo_lv lv hf.1 l hl ind
    have e2 := lingo_emb v hf.2 r hr ind
    have hnf : startsWith (mE lv) (S "field(") = false := by
      cases lv with
      | var k v => exact idOk_not_field _ (by simpa [FragLv, mE] using hf.1)
      | the t k as =>
        obtain ⟨r, hr⟩ := mE_the_head t k as (by have := hf.1; simp only [FragLv, Bool.and_eq_true] at this; exact this.1)
        rw [hr]
        simp [startsWith, S, List.isPrefixOf]
      | oprop n o => simp [mE, startsWith, S, List.isPrefixOf]
      | movie n => simp [mE, startsWith, S, List.isPrefixOf]
      | _ => simp [FragLv] at hf
    simp only [lingo, if_true, e1, e2, bind, Except.bind, Lscr.Name.asStr, hnf, Bool.false_eq_true, false_and, if_false, Lscr.Name.str,
      pure, Except.pure, mS]
    simp [List.append_assoc]
  | call f as =>
    obtain ⟨p, q, q', wr, ops, rfl, hops⟩ := h
    simp only [FragS, Bool.or_eq_true] at hf
    rcases hf with (hf | hf) | hf
    rotate_left
    · -- `sound <word> …`
      simp only [callSound, Bool.and_eq_true, beq_iff_eq] at hf
      obtain ⟨rfl, hf⟩ := hf
      split at hf
      · rename_i m rest
        simp only [Bool.and_eq_true] at hf
        exact (lingo_call_sound p q q' wr m rest ops hf.2 hops ind).trans (by simp [mS, mCall, S, List.append_assoc])
      · cases hf
    · -- `go <word>`
      simp only [callGo, Bool.and_eq_true, beq_iff_eq] at hf
      obtain ⟨rfl, hf⟩ := hf
      split at hf
      · rename_i w
        exact (lingo_call_go p q q' wr w hf ops hops ind).trans (by simp [mS, mCall, hf, S, List.append_assoc])
      · cases hf
    simp only [callPlain, Bool.and_eq_true, Bool.not_eq_true'] at hf
    obtain ⟨⟨⟨_, hpc⟩, hgc⟩, hfl⟩ := hf
    have hall := lingoL_emb as hfl ops hops ind
    obtain ⟨hs1, hs2⟩ := plainCall_spec f hpc
    have hlen := embL_length as ops hops
    cases as with
    | nil =>
      have : ops = [] := by cases ops with | nil => rfl | cons x xs => simp at hlen
      subst this
      simp [lingo, Lscr.Name.asStr, bind, Except.bind, pure, Except.pure, mS, mCall_plain _ _ hpc]
    | cons e es =>
      have hemp : ops.reverse.isEmpty = false := by
        cases ops with
        | nil => simp at hlen
        | cons x xs => simp
      have htxt := call_args_text (listHas Gen.PropTables.listFunctions (pyLower f)) ind (e :: es) hfl ops hops hall
        (first_not_sym f (e :: es) hfl ops hops hgc)
      cases hl : lingoStrs (listHas Gen.PropTables.listFunctions (pyLower f)) ops.reverse ind with
      | error err => rw [hl] at htxt; simp [Except.map] at htxt
      | ok l =>
        rw [hl] at htxt
        simp only [Except.map, Except.ok.injEq] at htxt
        simp only [lingo, hemp, Bool.false_eq_true, if_false, isListFn, Lscr.Name.asStr, bind, Except.bind, pure, Except.pure, hs1, hs2,
          false_and, Bool.false_and, hl, htxt, mS, mCall_plain _ _ hpc, List.isEmpty_cons]
        simp [List.append_assoc]
  | exit =>
    obtain ⟨p, q, rfl⟩ := h
    simp [lingo, Lscr.Name.asStr, bind, Except.bind, pure, Except.pure, mS]
    rfl
  | put m v lv =>
    obtain ⟨p, q, l, r, rfl, hl, hr⟩ := h
    simp only [FragS, Bool.and_eq_true] at hf
    have e1 := lingo_tg lv 0 hf.1.2 l hl ind
    have e2 := lingo_emb v hf.1.1 r hr ind
    simp only [lingo, e1, e2, bind, Except.bind, Lscr.Name.asStr, Lscr.Name.str, pure, Except.pure, mS]
    simp [List.append_assoc]
  | delete t =>
    obtain ⟨p, q, l, rfl, hl⟩ := h
    simp only [FragS, Bool.and_eq_true] at hf
    have e1 := lingo_tg t 0 hf.2 l hl ind
    have hne : ¬ (S "delete" = S "minus") := by decide
    simp only [lingo, e1, hne, if_false, bind, Except.bind, Lscr.Name.asStr, Lscr.Name.str, pure, Except.pure, mS]
    simp [List.append_assoc, S]
  | hilite t =>
    obtain ⟨p, q, l, rfl, hl⟩ := h
    simp only [FragS] at hf
    have e1 := lingo_tg t 0 hf l hl ind
    have hne : ¬ (S "hilite" = S "minus") := by decide
    simp only [lingo, e1, hne, if_false, bind, Except.bind, Lscr.Name.asStr, Lscr.Name.str, pure, Except.pure, mS]
    simp [List.append_assoc, S]
  | mcall o m as =>
    obtain ⟨p, q, q', ps, rc, ops, nm, hnm, rfl, hops, _⟩ := h
    simp only [FragS, Bool.and_eq_true] at hf
    obtain ⟨⟨hro, _⟩, hfl⟩ := hf
    obtain ⟨nm', hnm', hid, hpc, hshape⟩ := recvOk_spec o hro
    rw [hnm] at hnm'
    cases hnm'
    have hmo : mE o = nm := by rcases hshape with rfl | rfl | rfl <;> rfl
    have hall := lingoL_emb as hfl ops hops ind
    obtain ⟨hs1, hs2⟩ := plainCall_spec nm hpc
    have hemp : (ops.reverse ++ [Node.sym (.s m) ps false]).isEmpty = false := by simp
    have htxt := mcall_args_text (listHas Gen.PropTables.listFunctions (pyLower nm)) ind m ps as ops hall
    cases hl : lingoStrs (listHas Gen.PropTables.listFunctions (pyLower nm)) (ops.reverse ++ [Node.sym (.s m) ps false]) ind with
    | error err => rw [hl] at htxt; simp [Except.map] at htxt
    | ok l =>
      rw [hl] at htxt
      simp only [Except.map, Except.ok.injEq] at htxt
      simp only [lingo, hemp, Bool.false_eq_true, if_false, isListFn, Lscr.Name.asStr, bind, Except.bind, pure, Except.pure, hs1, hs2,
        false_and, Bool.false_and, hl, htxt, mS, hmo]
      simp [List.append_assoc]
  | _ => simp [FragS] at hf

theorem lingo_stmts : ∀ (ss : List Stmt), FragSs ss = true → ∀ (ns : List Node), EmbSs ss ns → ∀ (ind : Nat),
    lingoStmts ns ind = .ok (mSs ind ss)
  | [], _, ns, h, ind => by
    simp only [EmbSs] at h; subst h; simp [lingoStmts, mSs]
  | s :: ss, hf, ns, h, ind => by
    obtain ⟨x, xs, rfl, hx, hxs⟩ := h
    simp only [FragSs, Bool.and_eq_true] at hf
    have e1 := lingo_stmt s hf.1 x hx ind
    have e2 := lingo_stmts ss hf.2 xs hxs ind
    simp only [lingoStmts, e1, e2, bind, Except.bind, Lscr.Name.asStr, pure, Except.pure, mSs]

/-! ### handlers -/

theorem idChar_not_space (c : Char) (h : isIdChar c = true) : isPySpace c = false := by
  simp only [isIdChar, Char.isAlphanum, Char.isAlpha, Char.isUpper, Char.isLower, Char.isDigit, Bool.or_eq_true, Bool.and_eq_true,
    decide_eq_true_eq, beq_iff_eq, ge_iff_le, UInt32.le_iff_toNat_le] at h
  have eA : 'A'.val.toNat = 65 := rfl
  have eZ : 'Z'.val.toNat = 90 := rfl
  have ea : 'a'.val.toNat = 97 := rfl
  have ez : 'z'.val.toNat = 122 := rfl
  have e0 : '0'.val.toNat = 48 := rfl
  have e9 : '9'.val.toNat = 57 := rfl
  have hn : c.toNat = c.val.toNat := rfl
  have hr : (48 ≤ c.toNat ∧ c.toNat ≤ 122) := by
    rcases h with ((h | h) | h) | h
    · omega
    · omega
    · omega
    · subst h; decide
  unfold isPySpace
  simp only [Bool.or_eq_false_iff, Bool.and_eq_false_iff, decide_eq_false_iff_not, beq_eq_false_iff_ne, ne_eq]
  omega

theorem rstrip_last (s : Str) (c : Char) (h : s.getLast? = some c) (hc : isPySpace c = false) : rstrip s = s := by
  unfold rstrip
  have : s.reverse.head? = some c := by rw [List.head?_reverse]; exact h
  cases hr : s.reverse with
  | nil => rw [hr] at this; cases this
  | cons x xs =>
    rw [hr] at this
    simp only [List.head?_cons, Option.some.injEq] at this
    subst this
    simp only [stripLeft, hc, Bool.false_eq_true, if_false]
    rw [← hr, List.reverse_reverse]

theorem joinWith_last (sep : Str) : ∀ (l : List Str) (x : Str) (c : Char), l.getLast? = some x → x.getLast? = some c →
    (joinWith sep l).getLast? = some c
  | [], _, _, h, _ => by simp at h
  | [y], x, c, h, hc => by simp at h; subst h; simpa [joinWith] using hc
  | y :: z :: r, x, c, h, hc => by
    have ih := joinWith_last sep (z :: r) x c (by simpa [List.getLast?_cons_cons] using h) hc
    simp only [joinWith]
    rw [List.getLast?_append, ih]
    rfl

theorem idOk_last (v : Spec.Name) (h : idOk v = true) : ∃ c, v.getLast? = some c ∧ isIdChar c = true := by
  cases hv : v.getLast? with
  | none => rw [List.getLast?_eq_none_iff] at hv; subst hv; simp [idOk] at h
  | some c => exact ⟨c, rfl, idOk_chars v h c (List.mem_of_getLast? hv)⟩

theorem params_names (ns : List Str) (l : List Node) (h : Leaves .paramName ns l) : l.mapM (fun p => p.name) = .ok (ns.map Lscr.Name.s) := by
  induction h with
  | nil => rfl
  | cons hx _ ih =>
    obtain ⟨p, rfl⟩ := hx
    rename_i n0 _ _ _
    have e : (Node.leaf .paramName (.s n0) p).name = .ok (.s n0) := rfl
    simp only [List.mapM_cons, e, ih, bind, Except.bind, pure, Except.pure, List.map_cons]

theorem gvars_names (G : List Spec.Name) : ∀ (l : List Node), GvOk G l → l.mapM (fun g => g.name) = .ok ((l.map nameKey).map Lscr.Name.s)
  | [], _ => rfl
  | x :: xs, h => by
    obtain ⟨g, p, rfl, hg⟩ := h x (by simp)
    have ih := gvars_names G xs (fun y hy => h y (by simp [hy]))
    have e : (Node.leaf .globalVar (.s g) p).name = .ok (.s g) := rfl
    simp only [List.mapM_cons, e, ih, bind, Except.bind, pure, Except.pure, List.map_cons, nameKey_glob]

theorem GvOk_sorted (G : List Spec.Name) (l : List Node) (h : GvOk G l) : GvOk G (sortedByName l) := by
  intro x hx
  unfold sortedByName at hx
  exact h x (List.mem_mergeSort.mp hx)

/-- what the container layer establishes about one parsed handler -/
structure FuncRel (hs G : List Spec.Name) (h : Handler) (f : FuncDef) : Prop where
  name : f.name = h.name
  params : Leaves .paramName h.params f.params
  locals : Leaves .localVar h.locals f.localVars
  isMethod : f.isMethod = false
  gvars : GvList G h f.globalVars
  stmts : ∃ ns p q, f.stmts = ns ++ [.stmt p (.callFn (.s (S "exit")) q .none true false false .none)] ∧ EmbSsH hs h.body ns

theorem bodyLingo_exit (ns : List Node) (p q : Int) (ind : Nat) :
    bodyLingo (ns ++ [.stmt p (.callFn (.s (S "exit")) q .none true false false .none)]) ind = lingoStmts ns ind := by
  unfold bodyLingo bodyStmts endsWithExit
  simp [Node.name, Except.map, bind, Except.bind, pure, Except.pure]

/-- the filter of `generate_lingo_code` on names: keep what is not a script-level global -/
theorem shown_filter (SG : List Str) (gs : List Str) (pr : Lscr.Name → Bool)
    (hpr : ∀ v, pr (.s v) = !SG.contains v) : (gs.map Lscr.Name.s).filter pr = (gs.filter (fun g => !SG.contains g)).map Lscr.Name.s := by
  induction gs with
  | nil => rfl
  | cons g gs ih =>
    simp only [List.map_cons, List.filter_cons, hpr g, ih]
    split <;> rfl

theorem glines_eq (f : Spec.Name → Str) (gl : List Spec.Name) :
    (if gl.isEmpty = true then (gl.map f).flatten else (gl.map f).flatten ++ S "\n")
      = (gl.map f).flatten ++ (if gl.isEmpty then [] else S "\n") := by
  cases gl <;> simp

theorem funcLingo_rel (hs : List Spec.Name) (s : Spec.Script) (script : Lscr.Script) (hsg : script.globalVars = s.globals)
    (h : Handler) (f : FuncDef) (hr : FuncRel hs s.globals h f)
    (hfb : FragSs h.body = true) (hp : ∀ v ∈ h.params, idOk v = true) : funcLingo script f = .ok (mHandler s h) := by
  obtain ⟨ns, p, q, hst, hemb⟩ := hr.stmts
  have hgok : GvOk (s.globals ++ h.globalsUsed s.globals) f.globalVars := by
    obtain ⟨_, _, _, _, hok, _⟩ := hr.gvars; exact hok
  have hgs := gvars_names _ _ (GvOk_sorted _ _ hgok)
  have hsh := shown_globals s.globals h f.globalVars hr.gvars
  have hbody := lingo_stmts h.body hfb ns (EmbSsH.toEmbSs hs h.body ns hemb) 1
  have hmap : (List.map Lscr.Name.str (List.map Lscr.Name.s h.params)) = h.params := by
    induction h.params with
    | nil => rfl
    | cons a as ih => simp [Lscr.Name.str, ih]
  have hemp : f.params.isEmpty = h.params.isEmpty := by
    have hlen : h.params.length = f.params.length := hr.params.length_eq
    cases hh : h.params <;> cases hf : f.params <;> simp_all
  unfold funcLingo
  simp only [params_names _ _ hr.params, hgs, bind, Except.bind, pure, Except.pure, hr.isMethod, Bool.false_eq_true, if_false, and_false,
    false_and, hst, bodyLingo_exit, hbody, hr.name, hmap, hemp, hsg]
  rw [shown_filter s.globals _ _ (fun v => rfl), hsh]
  have hgl : (List.map (fun g : Lscr.Name => indentOf 1 ++ S "global " ++ g.str ++ S "\n") (List.map Lscr.Name.s (hGlobalsSorted s h)))
      = List.map (fun g => indentOf 1 ++ S "global " ++ g ++ S "\n") (hGlobalsSorted s h) := by
    rw [List.map_map]; rfl
  have hie : (List.map Lscr.Name.s (hGlobalsSorted s h)).isEmpty = (hGlobalsSorted s h).isEmpty := by
    cases hGlobalsSorted s h <;> rfl
  show _ = Except.ok (mHandler s h)
  unfold mHandler mGlobalLines
  change (Except.ok _ : R Str) = _
  simp only [hGlobalsSorted] at hgl hie ⊢
  rw [hgl, hie]
  cases hps : h.params with
  | nil =>
    rw [glines_eq]
    simp [List.append_assoc]
  | cons a as =>
    have hne : (a :: as).isEmpty = false := rfl
    simp only [hne, Bool.false_eq_true, if_false]
    cases hx : (a :: as).getLast? with
    | none => simp at hx
    | some x =>
      have hxm : x ∈ h.params := by rw [hps]; exact List.mem_of_getLast? hx
      obtain ⟨c, hc1, hc2⟩ := idOk_last x (hp x hxm)
      have hj := joinWith_last (S ", ") (a :: as) x c hx hc1
      have hlast : (S " " ++ joinWith (S ", ") (a :: as)).getLast? = some c := by
        rw [List.getLast?_append, hj]; rfl
      rw [rstrip_last _ c hlast (idChar_not_space c hc2)]
      rw [glines_eq]
      simp [List.append_assoc]

/-! ### scripts -/

/-- what the container layer establishes about the parsed script -/
structure ScriptRel (s : Spec.Script) (t : Lscr.Script) : Prop where
  props : t.properties = s.props
  globs : t.globalVars = s.globals
  fac : t.factoryName = []
  funcs : All2 (FuncRel (s.handlers.map (·.name)) s.globals) s.handlers t.functions

theorem funcsLingo_rel (hn : List Spec.Name) (s : Spec.Script) (t : Lscr.Script) (hsg : t.globalVars = s.globals) :
    ∀ (hs : List Handler) (fs : List FuncDef), All2 (FuncRel hn s.globals) hs fs →
    (∀ h ∈ hs, FragSs h.body = true ∧ ∀ v ∈ h.params, idOk v = true) → ∀ (first : Bool),
    funcsLingo t fs first = .ok (mHandlers s hs first) := by
  intro hs fs h
  induction h with
  | nil => intro _ _; rfl
  | @cons hd f hs fs hr _ ih =>
    intro hfr first
    obtain ⟨hb, hp⟩ := hfr hd (by simp)
    simp only [funcsLingo, funcLingo_rel hn s t hsg hd f hr hb hp, ih (fun x hx => hfr x (by simp [hx])) false, bind, Except.bind, pure,
      Except.pure, mHandlers]

theorem lingoText_rel (s : Spec.Script) (t : Lscr.Script) (hr : ScriptRel s t)
    (hfr : ∀ h ∈ s.handlers, FragSs h.body = true ∧ ∀ v ∈ h.params, idOk v = true) : lingoText t = .ok (mText s) := by
  have hf := funcsLingo_rel (s.handlers.map (·.name)) s t hr.globs s.handlers t.functions hr.funcs hfr true
  unfold lingoText
  simp only [hf, bind, Except.bind, pure, Except.pure, hr.props, hr.globs, hr.fac, List.length_nil, Nat.lt_irrefl, if_false, and_true,
    gt_iff_lt, mText, List.append_nil]

end Drx.Link
