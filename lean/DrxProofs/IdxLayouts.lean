/-
  C17: the hand-written readers of Drx/Idx.lean are the generic reader over the field layouts GENERATED from the Python
  source (Drx/Gen/IdxLayouts.lean, regenerated on every run by harness/gen_idx_layouts.py).
-/
import Drx.Idx
import Drx.Layout
import Drx.Gen.IdxLayouts
import DrxProofs.Layouts
namespace Drx
open Drx.Idx Drx.Layout

/-! ### key.py -/

theorem parseKey_eq_layout (o : Order) (d : Bytes) :
    parseKey o d = readK o d 0 Gen.IdxLayouts.keyHeader fun
      | [_, _, nelements] => keyLoop o d (nelements - 1).toNat 12 []
      | _ => .error .other := rfl

theorem keyLoop_succ_eq_layout (o : Order) (d : Bytes) (n indx : Nat) (kd : KeyData) :
    keyLoop o d (n + 1) indx kd = readK o d indx Gen.IdxLayouts.keyEntry fun
      | [nfile, cas] => (Riff.parseChunkId d (indx + 8) o).bind fun chunkId =>
          keyLoop o d n (indx + 12) (if cas > 0 ∧ nfile > 0 then keyInsert kd cas ⟨chunkId, nfile⟩ else kd)
      | _ => .error .other := rfl

/-! ### cas.py -/

theorem casLoop_eq_layout (d : Bytes) (indx : Nat) :
    casLoop d indx =
      if d.length ≥ indx + 4 then
        readK .be d indx Gen.IdxLayouts.casSlot fun
          | [v] => (casLoop d (indx + 4)).bind fun vs => .ok (v :: vs)
          | _ => .error .other
      else .ok [] := by
  rw [casLoop]
  by_cases h : d.length ≥ indx + 4
  · simp only [h, dite_true, if_true]
    simp only [Gen.IdxLayouts.casSlot, readK, readField, if_true, Nat.add_zero]
    cases getS Order.be 4 d indx with
    | error e => rfl
    | ok v =>
      simp only [Except.bind]
      cases casLoop d (indx + 4) <;> rfl
  · simp only [h, dite_false, if_false]

/-! ### lctx.py -/

theorem parseLctx_eq_layout (d : Bytes) :
    parseLctx d = readK .be d 0 Gen.IdxLayouts.lctxHeader fun
      | [_, _, nscripts, _, scrIdx] => lctxLoop d nscripts.toNat scrIdx
      | _ => .error .other := rfl

/-- one iteration at a non-negative position (negative positions read the same fields through Python's from-the-end slicing) -/
theorem lctxLoop_succ_eq_layout (d : Bytes) (n indx : Nat) :
    lctxLoop d (n + 1) (indx : Int) = readK .be d indx Gen.IdxLayouts.lctxEntry fun
      | [key, scrfile, _] => (lctxLoop d n ((indx + 12 : Nat) : Int)).bind fun rest => .ok (⟨key.toNat, scrfile⟩ :: rest)
      | _ => .error .other := by
  conv => lhs; rw [lctxLoop]
  have c4 : (indx : Int) + 4 = ((indx + 4 : Nat) : Int) := by omega
  have c8 : (indx : Int) + 8 = ((indx + 8 : Nat) : Int) := by omega
  have c12 : (indx : Int) + 12 = ((indx + 12 : Nat) : Int) := by omega
  rw [c4, c8, c12]
  simp only [getUI_nat, getSI_nat, Gen.IdxLayouts.lctxEntry, readK, readField, Nat.add_zero]
  cases getU Order.be 4 d indx with
  | error e => rfl
  | ok key => simp [bind, Except.bind]

/-! ### lnam.py -/

theorem parseLnam_eq_layout (dec : Dec) (d : Bytes) :
    parseLnam dec d = readK .be d 0 Gen.IdxLayouts.lnamHeader fun
      | [_, _, filesize, filesizeCp, _, nnames] =>
          if filesizeCp ≠ filesize then .error .value else lnamLoop dec d nnames.toNat 20
      | _ => .error .other := rfl

theorem lnamLoop_succ_eq_layout (dec : Dec) (d : Bytes) (n indx : Nat) :
    lnamLoop dec d (n + 1) indx = readKB .be d indx Gen.IdxLayouts.lnamEntry fun
      | [nbytes] => (dec (slice d (indx + 1) (indx + 1 + nbytes.toNat))).bind fun name =>
          (lnamLoop dec d n (indx + 1 + nbytes.toNat)).bind fun rest => .ok (name :: rest)
      | _ => .error .other := by
  conv => lhs; rw [lnamLoop]
  simp only [Gen.IdxLayouts.lnamEntry, readKB, readFieldB, Nat.add_zero]
  cases byteAt d indx with
  | error e => rfl
  | ok b => simp [bind, Except.bind]

/-! ### vwlb.py -/

theorem parseVwlb_eq_layout (dec : Dec) (d : Bytes) :
    parseVwlb dec d = readK .be d 0 Gen.IdxLayouts.vwlbHeader fun
      | [nmarkers] => vwlbLoop dec d (2 + 4 * (nmarkers + 1)).toNat nmarkers.toNat 2
      | _ => .error .other := rfl

theorem vwlbLoop_succ_eq_layout (dec : Dec) (d : Bytes) (mnidx n indx : Nat) :
    vwlbLoop dec d mnidx (n + 1) indx = readK .be d indx Gen.IdxLayouts.vwlbEntry fun
      | [frame, nameStart, nameEnd] =>
          if mnidx + nameEnd.toNat < mnidx + nameStart.toNat then .error .value else
          (dec (slice d (mnidx + nameStart.toNat) (mnidx + nameEnd.toNat))).bind fun name =>
          (vwlbLoop dec d mnidx n (indx + 4)).bind fun rest => .ok (⟨name, frame⟩ :: rest)
      | _ => .error .other := by
  conv => lhs; rw [vwlbLoop]
  simp only [Gen.IdxLayouts.vwlbEntry, readK, readField, Nat.add_zero]
  cases getS Order.be 2 d indx with
  | error e => rfl
  | ok fr =>
    cases getU Order.be 2 d (indx + 2) with
    | error e => rfl
    | ok s =>
      cases getU Order.be 2 d (indx + 6) with
      | error e => rfl
      | ok e => simp [bind, Except.bind]

/-! ### vwcf.py -/

theorem parseVwcf_eq_layout (d : Bytes) :
    parseVwcf d = readK .be d 0 [Gen.IdxLayouts.vwcfWords.head!] fun
      | [dataSize] =>
        if (d.length : Int) ≠ dataSize then .error .value else
        readK .be d 0 Gen.IdxLayouts.vwcfWords.tail fun
          | [version, stageTop, stageLeft, stageBottom, stageRight, castArrayStart, castArrayEnd, currentFrameRate] =>
            readKB .be d 0 Gen.IdxLayouts.vwcfBytes fun
              | [stageColor] =>
                let cls := versionClass version
                (match cls with
                  | .dir4 => readK .be d 0 Gen.IdxLayouts.vwcfPaletteDir4 fun | [p] => .ok (paletteName p) | _ => .error .other
                  | .dir5 => readK .be d 0 Gen.IdxLayouts.vwcfPaletteDir5 fun | [p] => .ok (paletteName p) | _ => .error .other
                  | _ => .ok "unknonw").bind fun palette =>
                .ok ⟨cls, stageTop, stageLeft, stageBottom, stageRight, castArrayStart, castArrayEnd, currentFrameRate,
                     stageColor.toNat, palette⟩
              | _ => .error .other
          | _ => .error .other
      | _ => .error .other := by
  unfold parseVwcf
  simp only [Gen.IdxLayouts.vwcfWords, Gen.IdxLayouts.vwcfBytes, List.head!, List.tail, readK, readKB, readField, readFieldB,
    Nat.zero_add, ↓reduceIte, and_self]
  cases getS Order.be 2 d 0 with
  | error e => rfl
  | ok ds =>
    simp only [bind, Except.bind]
    by_cases hl : (d.length : Int) ≠ ds
    · rw [if_pos hl, if_pos hl]
    · rw [if_neg hl, if_neg hl]
      cases getS Order.be 2 d 2 with
      | error e => rfl
      | ok version =>
        cases getS Order.be 2 d 4 with
        | error e => rfl
        | ok a1 =>
          cases getS Order.be 2 d 6 with
          | error e => rfl
          | ok a2 =>
            cases getS Order.be 2 d 8 with
            | error e => rfl
            | ok a3 =>
              cases getS Order.be 2 d 10 with
              | error e => rfl
              | ok a4 =>
                cases getS Order.be 2 d 12 with
                | error e => rfl
                | ok a5 =>
                  cases getS Order.be 2 d 14 with
                  | error e => rfl
                  | ok a6 =>
                    cases getS Order.be 2 d 16 with
                    | error e => rfl
                    | ok a7 =>
                      cases byteAt d 27 with
                      | error e => rfl
                      | ok c =>
                        simp only [Except.bind, Int.toNat_natCast]
                        cases hc : versionClass version <;>
                          simp only [paletteOffset, Gen.IdxLayouts.vwcfPaletteDir4, Gen.IdxLayouts.vwcfPaletteDir5, readK, readField,
                            Nat.zero_add, if_true, pure, Except.pure, Except.bind, Except.map] <;>
                          first | rfl | (cases getS Order.be 2 d 70 <;> rfl) | (cases getS Order.be 2 d 78 <;> rfl)

end Drx
