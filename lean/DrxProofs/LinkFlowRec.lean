/-
  C03 link, layer F1d: the loop-header recognisers of `loop_detect` (`is_repeat_while`, `is_repeat_with`,
  `is_repeat_with_in_list` and the rewrites that follow them) on the three header shapes, with the loop body ABSTRACT.
-/
import DrxProofs.LinkFlowCond
namespace Drx.LinkFlow
open Drx Drx.Lscr

theorem saysNo_spec {x : R Bool} (h : saysNo x = true) : x = .ok false := by
  unfold saysNo at h
  split at h
  · rfl
  · cases h

theorem isRepeatWith_roOf (r : Ro) (prev : Option Node) : isRepeatWith r prev = isRepeatWith (roOf r.cond r.stmts) prev := by
  unfold isRepeatWith; rfl

theorem isRepeatWithIn_roOf (r : Ro) : isRepeatWithIn r = isRepeatWithIn (roOf r.cond r.stmts) := by
  unfold isRepeatWithIn; rfl

/-- `is_repeat_while` + rewrite: the header `if not cond then exit repeat` becomes the loop condition -/
theorem repeatWhile_exitIf (s idx pj : Int) (c0 cond : Node) (Y : List Node) (t : Str) (st : Node) (v : Name) (sg : Str) (lv : Node) :
    repeatWhile ⟨s, idx, c0, exitIf pj cond :: Y, t, st, v, sg, lv⟩ = .ok ⟨s, idx, cond, Y, t, st, v, sg, lv⟩ := by
  simp [repeatWhile, exitIf, exitRepeatStmt]

/-- `repeat while`: no recogniser fires -/
theorem rewriteRepeat_while (s idx pj : Int) (c0 cond : Node) (Y : List Node) (t : Str) (st : Node) (v : Name) (sg : Str) (lv : Node)
    (prev : Option Node) (hW : isRepeatWith (roOf cond Y) prev = .ok false) (hI : isRepeatWithIn (roOf cond Y) = .ok false) :
    rewriteRepeat ⟨s, idx, c0, exitIf pj cond :: Y, t, st, v, sg, lv⟩ prev = .ok (⟨s, idx, cond, Y, t, st, v, sg, lv⟩, false) := by
  unfold rewriteRepeat
  rw [repeatWhile_exitIf]
  simp only [bind, Except.bind]
  rw [isRepeatWith_roOf, hW]
  simp only [Bool.false_eq_true, if_false, pure, Except.pure]
  rw [isRepeatWithIn_roOf, hI]
  rfl

/-- `repeat with v = a to b`: when `withParts` is defined `is_repeat_with` accepts and the rewrite yields its components -/
theorem withParts_spec {cond pre incr pl pr : Node} {vn : Name} {sg : Str} (h : withParts cond pre incr = some (pl, pr, vn, sg))
    (X : List Node) (pp ip : Int) :
    isRepeatWith (roOf cond (X ++ [.stmt ip incr])) (some (.stmt pp pre)) = .ok true ∧
    ∀ (s idx : Int) (t : Str) (st : Node) (v : Name) (sg0 : Str) (lv : Node),
      applyRepeatWith ⟨s, idx, cond, X ++ [.stmt ip incr], t, st, v, sg0, lv⟩ (.stmt pp pre) =
        .ok ⟨s, idx, cond, X, S "for", pr, vn, sg, pl⟩ := by
  unfold withParts at h
  split at h
  · rename_i pop ppos pleft pright cname cpos cleft cright lop lpos lleft iop ipos step iright
    split at h
    · rename_i v1 v2 v3 rn h1 h2 h3 h4
      split at h
      · rename_i hc
        obtain ⟨e1, e2, e3, e4, e5, e6⟩ := hc
        subst e1 e2 e3 e4 e5 e6
        split at h
        · rename_i sn spos
          constructor
          · simp only [isRepeatWith, roOf, List.reverse_append, List.reverse_cons, List.reverse_nil, List.nil_append,
              List.cons_append, h1, h2, h3, h4, bind, Except.bind, ne_eq, not_true_eq_false, if_false, or_self, pure, Except.pure]
            split at h
            · rename_i hc; obtain ⟨e1, e2⟩ := hc; subst e1 e2; rfl
            · split at h
              · rename_i hc; obtain ⟨e1, e2⟩ := hc; subst e1 e2; rfl
              · cases h
          · intro s idx t st v sg0 lv
            simp only [applyRepeatWith, List.reverse_append, List.reverse_cons, List.reverse_nil, List.nil_append,
              List.cons_append, h1, bind, Except.bind, pure, Except.pure, List.dropLast_concat]
            split at h
            · rename_i hc; obtain ⟨e1, e2⟩ := hc; subst e1 e2; cases h; rfl
            · split at h
              · rename_i hc; obtain ⟨e1, e2⟩ := hc; subst e1 e2; cases h; rfl
              · cases h
        · cases h
      · cases h
    · cases h
  · cases h

/-- `repeat with v in l`: when `inParts` is defined `is_repeat_with_in_list` accepts and the rewrite yields its components -/
theorem inParts_spec {cond bpc start fl : Node} {vn : Name} (h : inParts cond bpc = some (start, vn, fl))
    (X : List Node) (bpp : Int) :
    isRepeatWithIn (roOf cond (.stmt bpp bpc :: X)) = .ok true ∧
    ∀ (s idx : Int) (t : Str) (st : Node) (v : Name) (sg0 : Str) (lv : Node),
      applyRepeatWithIn ⟨s, idx, cond, .stmt bpp bpc :: X, t, st, v, sg0, lv⟩ =
        .ok ⟨s, idx, cond, X, S "for_in", start, vn, sg0, fl⟩ := by
  unfold inParts at h
  split at h
  · split at h
    · rename_i hc
      obtain ⟨e1, e2, e3, e4⟩ := hc
      subst e1 e2 e3 e4
      split at h
      · rename_i c0 a1 a0 vn' h1 h2 h3 h4
        split at h
        · rename_i hc
          obtain ⟨e5, e6⟩ := hc
          cases h
          constructor
          · simp [isRepeatWithIn, roOf, Node.operands, h1, h2, h3, e5, e6, bind, Except.bind, pure, Except.pure]
          · intro s idx t st v sg0 lv
            simp [applyRepeatWithIn, Node.operands, h2, h4, bind, Except.bind, pure, Except.pure]
        · cases h
      · cases h
    · cases h
  · cases h

/-- `repeat with`: `is_repeat_with` fires (the statement before the loop is to be removed), `is_repeat_with_in_list` does not -/
theorem rewriteRepeat_with (s idx pj : Int) (c0 cond : Node) (X : List Node) (t : Str) (st : Node) (v : Name) (sg0 : Str) (lv : Node)
    (pp ip : Int) (pre incr pl pr : Node) (vn : Name) (sg : Str) (h : withParts cond pre incr = some (pl, pr, vn, sg))
    (hI : isRepeatWithIn (roOf cond X) = .ok false) :
    rewriteRepeat ⟨s, idx, c0, exitIf pj cond :: (X ++ [.stmt ip incr]), t, st, v, sg0, lv⟩ (some (.stmt pp pre)) =
      .ok (⟨s, idx, cond, X, S "for", pr, vn, sg, pl⟩, true) := by
  obtain ⟨h1, h2⟩ := withParts_spec h X pp ip
  unfold rewriteRepeat
  rw [repeatWhile_exitIf]
  simp only [bind, Except.bind]
  rw [isRepeatWith_roOf, h1]
  simp only [if_true, h2, pure, Except.pure]
  rw [isRepeatWithIn_roOf, hI]
  rfl

/-- `repeat with … in`: `is_repeat_with` does not fire, `is_repeat_with_in_list` does -/
theorem rewriteRepeat_in (s idx pj : Int) (c0 cond : Node) (X : List Node) (t : Str) (st : Node) (v : Name) (sg0 : Str) (lv : Node)
    (bpp : Int) (bpc start fl : Node) (vn : Name) (prev : Option Node) (h : inParts cond bpc = some (start, vn, fl))
    (hW : isRepeatWith (roOf cond (.stmt bpp bpc :: X)) prev = .ok false) :
    rewriteRepeat ⟨s, idx, c0, exitIf pj cond :: (.stmt bpp bpc :: X), t, st, v, sg0, lv⟩ prev =
      .ok (⟨s, idx, cond, X, S "for_in", start, vn, sg0, fl⟩, false) := by
  obtain ⟨h1, h2⟩ := inParts_spec h X bpp
  unfold rewriteRepeat
  rw [repeatWhile_exitIf]
  simp only [bind, Except.bind]
  rw [isRepeatWith_roOf, hW]
  simp only [Bool.false_eq_true, if_false, pure, Except.pure]
  rw [isRepeatWithIn_roOf, h1]
  simp only [if_true, h2]

/-! ### one step of the walk of `loop_detect_in_statements` -/

theorem weightList_cons (x : Node) (l : List Node) : weightList (x :: l) = x.weight + weightList l := by simp [weightList]

theorem weightList_append (a b : List Node) : weightList (a ++ b) = weightList a + weightList b := by
  induction a with
  | nil => simp [weightList]
  | cons x a ih => simp only [List.cons_append, weightList, ih]; omega

/-- `to_remove.append(p_st)` -/
def remOf (rm : Bool) (prev : Option Node) : List Node :=
  match rm, prev with
  | true, some pst => [pst]
  | _, _ => []

/-- a repeat statement: the header rewrite `rewriteRepeat`, the recursive call on the rewritten body, and the walk of the rest
    with the rewritten statement as `previous_st` -/
theorem loopWalk_repeat (p : Int) (r r3 : Ro) (rm : Bool) (prev : Option Node) (rest body' l rem : List Node)
    (h1 : rewriteRepeat r prev = .ok (r3, rm)) (hw : weightList r3.stmts ≤ weightList r.stmts)
    (h2 : loopDetect r3.stmts = .ok body')
    (h3 : loopWalk rest (some (.stmt p ({ r3 with stmts := body' } : Ro).toNode)) = .ok (l, rem)) :
    loopWalk (.stmt p r.toNode :: rest) prev =
      .ok (.stmt p ({ r3 with stmts := body' } : Ro).toNode :: l, remOf rm prev ++ rem) := by
  cases r with
  | mk rp re c body t s v sg vr =>
    simp only [Ro.toNode]
    rw [loopWalk.eq_2]
    simp only [h1, bind, Except.bind, hw, dite_true, h2, h3, pure, Except.pure]
    cases rm <;> cases prev <;> rfl

theorem loopWalk_if (p ip : Int) (c : Node) (ifs elses ifs' elses' rest l rem : List Node) (prev : Option Node)
    (h1 : loopDetect ifs = .ok ifs') (h2 : loopDetect elses = .ok elses')
    (h3 : loopWalk rest (some (.stmt p (.ifThen ip c ifs' elses'))) = .ok (l, rem)) :
    loopWalk (.stmt p (.ifThen ip c ifs elses) :: rest) prev = .ok (.stmt p (.ifThen ip c ifs' elses') :: l, rem) := by
  rw [loopWalk.eq_3]
  simp only [h1, h2, h3, bind, Except.bind, pure, Except.pure]

theorem loopWalk_simple (p : Int) (c : Node) (rest l rem : List Node) (prev : Option Node) (hc : simpleCode c = true)
    (h3 : loopWalk rest (some (.stmt p c)) = .ok (l, rem)) :
    loopWalk (.stmt p c :: rest) prev = .ok (.stmt p c :: l, rem) := by
  obtain ⟨_, _, h1, h2, h4⟩ := simpleCode_spec hc
  rw [loopWalk.eq_5]
  · simp only [h3, bind, Except.bind, pure, Except.pure]
  · intro rp re c' body t s v sg vr e; subst e; exact h2 rfl
  · intro ip c' ifs elses e; subst e; exact h1 rfl
  · intro tp operand inner closed e; subst e; exact h4 rfl

theorem loopDetect_of_walk (l w rem res : List Node) (h1 : loopWalk l none = .ok (w, rem)) (h2 : pyRemoveAll w rem = .ok res) :
    loopDetect l = .ok res := by
  rw [loopDetect.eq_1]
  simp only [h1, bind, Except.bind, h2]

end Drx.LinkFlow
