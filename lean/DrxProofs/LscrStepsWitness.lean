/-
  The Lean mirror of finding F37, lower bound: a family of handlers on which the decompiler's loop rounds grow quadratically.
  Code `01 54 01` repeated n times (`exit`; jump back over it = `repeat while TRUE / exit / end repeat`, n loops in a row):
  the k-th backward jump scans the k statements built so far, so `JumpOpcode.process` makes n·(n+3)/2 rounds on 3·n bytes of
  bytecode.  Proved for every n on the model's own opcode loop (`opcodeLoopS` = `opcodeLoop` + counters), for any data that
  holds these bytes at the code offset; the same counts are measured on the real code by the harness.
-/
import DrxProofs.LscrSteps
namespace Drx.Lscr.Steps
open Drx Drx.Gen Drx.Lscr

/-- the `exit` call node at address `a` -/
def exitCode (a : Int) : Node := .callFn (.s (S "exit")) a .none true false false .none

/-- `repeat while TRUE / exit / end repeat` built by the jump at address `a + 1` -/
def loopStmt (a : Int) : Node :=
  .stmt (a + 1) (.repeat_ a (a + 1) (.leaf .const (.s (S "TRUE")) a) [.stmt a (exitCode a)] (S "while") .none (.s []) [] .none)

/-- the statement list after `i` loops of a handler whose code starts at `off` -/
def loops (off : Int) : Nat → List Node
  | 0 => []
  | i + 1 => loops off i ++ [loopStmt (off + 3 * i)]

theorem loops_length (off : Int) (i : Nat) : (loops off i).length = i := by
  induction i with
  | zero => rfl
  | succ i ih => simp [loops, ih]

theorem loops_pos (off : Int) (i : Nat) : ∀ x ∈ loops off i, x.pos < off + 3 * i := by
  induction i with
  | zero => intro x hx; simp [loops] at hx
  | succ i ih =>
    intro x hx
    simp only [loops, List.mem_append, List.mem_singleton] at hx
    cases hx with
    | inl h => have := ih x h; omega
    | inr h => subst h; simp only [loopStmt, Node.pos]; omega

/-- the code bytes of the family at offset `off`: loop `j` is `01 54 01` at `off + 3·j` -/
def CodeHas (d : Bytes) (off : Int) (n : Nat) : Prop :=
  ∀ j : Nat, j < n → byteAtI d (off + 3 * j) = .ok 1 ∧ byteAtI d (off + 3 * j + 1) = .ok 84 ∧ byteAtI d (off + 3 * j + 2) = .ok 1

theorem step_exit (ctx : Ctx) (d : Bytes) (a : Int) (regs : Regs) (st : PState) (hb : byteAtI d a = .ok 1) :
    stepOpcode ctx d a a regs st = .ok (a + 1, regs, st.addStmt a (exitCode a)) := by
  have hl : Opcodes.opcodes.lookup 1 = some { cls := "ExitOpcode", impl := "ExitOpcode", nbytes := 1, kind := "plain", attrs := [] } := rfl
  unfold stepOpcode
  simp only [hb, bind, Except.bind, hl]
  have h2 : ¬ ((1 : Nat) = 2) := by decide
  have h3 : ¬ ((1 : Nat) = 3) := by decide
  simp only [h2, h3, if_false, step1, process]
  have hp2 : ¬ ("ExitOpcode" ∈ readsP2) := by decide
  have hp1 : ¬ ("ExitOpcode" ∈ readsP1) := by decide
  simp only [hp2, hp1, if_false]
  unfold process0
  simp only [bind, Except.bind, pure, Except.pure, exitCode]

theorem step_back (ctx : Ctx) (d : Bytes) (a : Int) (regs : Regs) (st : PState) (s' : List Node)
    (hb : byteAtI d a = .ok 84) (hb2 : byteAtI d (a + 1) = .ok 1) (hj : jumpBack st.stmts a 1 = .ok s') :
    ∃ regs', stepOpcode ctx d a a regs st = .ok (a + 2, regs', { st with stmts := s' }) := by
  have hl : Opcodes.opcodes.lookup 84 = some { cls := "JumpOpcode", impl := "JumpOpcode", nbytes := 2, kind := "param1", attrs := [] } := rfl
  refine ⟨regs.set 84 (1, (regs.get 84).2), ?_⟩
  unfold stepOpcode
  simp only [hb, bind, Except.bind, hl, if_true, step2, hb2]
  have hk : ¬ ("param1" = "bi" ∨ "param1" = "tri") := by decide
  simp only [hk, if_false, process]
  have hp2 : ¬ ("JumpOpcode" ∈ readsP2) := by decide
  have hp1 : "JumpOpcode" ∈ readsP1 := by decide
  have hget : (regs.set 84 (1, (regs.get 84).2)).get 84 = (1, (regs.get 84).2) := by
    simp [Regs.get, Regs.set, List.lookup]
  simp only [hp2, hp1, if_false, if_true, hget]
  unfold process1
  simp only [hj, bind, Except.bind, pure, Except.pure]
  have : a + 1 + 1 = a + 2 := by omega
  rw [this]

theorem stmt_pyEq_pos {p q : Int} {c e : Node} (h : p ≠ q) : (Node.stmt p c).pyEq (Node.stmt q e) = false := by
  simp [Node.pyEq, Node.cls, Node.name, Node.pos, h]

theorem pyRemove_last (l : List Node) (p : Int) (c : Node) (h : ∀ x ∈ l, x.pos < p) (hs : ∀ x ∈ l, ∃ q e, x = Node.stmt q e) :
    pyRemove (l ++ [Node.stmt p c]) (Node.stmt p c) = .ok l := by
  induction l with
  | nil => simp [pyRemove, Node.pyEq, Node.cls, Node.name, Node.pos]
  | cons y ys ih =>
    obtain ⟨q, e, hy⟩ := hs y (by simp)
    subst hy
    have hq : q < p := by have := h (Node.stmt q e) (by simp); simpa [Node.pos] using this
    simp only [List.cons_append, pyRemove]
    rw [stmt_pyEq_pos (by omega)]
    simp only [Bool.false_eq_true, if_false]
    rw [ih (fun x hx => h x (by simp [hx])) (fun x hx => hs x (by simp [hx]))]
    rfl

theorem loops_stmt (off : Int) (i : Nat) : ∀ x ∈ loops off i, ∃ q e, x = Node.stmt q e := by
  induction i with
  | zero => intro x hx; simp [loops] at hx
  | succ i ih =>
    intro x hx
    simp only [loops, List.mem_append, List.mem_singleton] at hx
    cases hx with
    | inl h => exact ih x h
    | inr h => exact ⟨_, _, h⟩

/-- the backward jump at `off + 3·i + 1` turns the `exit` statement into the (i+1)-th loop -/
theorem jumpBack_loops (off : Int) (i : Nat) :
    jumpBack (loops off i ++ [Node.stmt (off + 3 * i) (exitCode (off + 3 * i))]) (off + 3 * i + 1) 1 = .ok (loops off (i + 1)) := by
  unfold jumpBack
  have hf : (loops off i ++ [Node.stmt (off + 3 * i) (exitCode (off + 3 * i))]).filter
      (fun s => decide (s.pos ≥ off + 3 * i + 1 - ((1 : Nat) : Int))) = [Node.stmt (off + 3 * i) (exitCode (off + 3 * i))] := by
    rw [List.filter_append]
    have h1 : (loops off i).filter (fun s => decide (s.pos ≥ off + 3 * i + 1 - ((1 : Nat) : Int))) = [] := by
      rw [List.filter_eq_nil_iff]
      intro x hx
      have := loops_pos off i x hx
      simp only [decide_eq_true_eq]; omega
    rw [h1]
    simp [Node.pos]
  simp only [hf, pyRemoveAll, List.foldlM, bind, Except.bind]
  rw [pyRemove_last _ _ _ (loops_pos off i) (loops_stmt off i)]
  simp only [pure, Except.pure, loops, loopStmt]
  have e1 : off + 3 * (i : Int) + 1 - ((1 : Nat) : Int) = off + 3 * i := by omega
  rw [e1]

/-- Σ_{j=i}^{i+k-1} (j + 2) -/
def sumFrom : Nat → Nat → Nat
  | _, 0 => 0
  | i, k + 1 => (i + 2) + sumFrom (i + 1) k

theorem sumFrom_closed (i k : Nat) : 2 * sumFrom i k = k * (2 * i + k + 3) := by
  induction k generalizing i with
  | zero => simp [sumFrom]
  | succ k ih =>
    simp only [sumFrom, Nat.mul_add, ih (i + 1)]
    simp only [Nat.add_mul, Nat.mul_add, Nat.mul_one, Nat.one_mul]
    have : k * (2 * i) = 2 * (k * i) := by rw [Nat.mul_left_comm]
    omega

/-- running the opcode loop over loops `i … i+k-1` of the family from the state after `i` loops -/
theorem witness_run (ctx : Ctx) (d : Bytes) (off : Int) (n : Nat) (hc : CodeHas d off n) :
    ∀ (k i : Nat) (regs : Regs) (st : PState), i + k = n → st.stmts = loops off i →
      (opcodeLoopS ctx d off (3 * n) (off + 3 * i) regs st).1.jump = sumFrom i k ∧
      (opcodeLoopS ctx d off (3 * n) (off + 3 * i) regs st).1.rounds = 2 * k := by
  intro k
  induction k with
  | zero =>
    intro i regs st hi hst
    rw [opcodeLoopS]
    have : ¬ (off + 3 * (i : Int) - off < 3 * (n : Int)) := by omega
    simp only [this, if_false, sumFrom]
    simp
  | succ k ih =>
    intro i regs st hi hst
    obtain ⟨b1, b2, b3⟩ := hc i (by omega)
    -- the `exit` instruction
    have s1 := step_exit ctx d (off + 3 * i) regs st b1
    -- the backward jump
    have hst1 : (st.addStmt (off + 3 * i) (exitCode (off + 3 * i))).stmts = loops off i ++ [Node.stmt (off + 3 * i) (exitCode (off + 3 * i))] := by
      simp [PState.addStmt, hst]
    have hj : jumpBack (st.addStmt (off + 3 * i) (exitCode (off + 3 * i))).stmts (off + 3 * i + 1) 1 = .ok (loops off (i + 1)) := by
      rw [hst1]; exact jumpBack_loops off i
    have b3' : byteAtI d (off + 3 * i + 1 + 1) = .ok 1 := by
      have : off + 3 * (i : Int) + 1 + 1 = off + 3 * i + 2 := by omega
      rw [this]; exact b3
    obtain ⟨regs', s2⟩ := step_back ctx d (off + 3 * i + 1) regs (st.addStmt (off + 3 * i) (exitCode (off + 3 * i))) _ b2 b3' hj
    -- jump rounds of the two instructions
    have j1 : jumpRounds d (off + 3 * i) st = 0 := by
      have hl : Opcodes.opcodes.lookup 1 = some { cls := "ExitOpcode", impl := "ExitOpcode", nbytes := 1, kind := "plain", attrs := [] } := rfl
      unfold jumpRounds
      simp only [b1, hl]
      have : ¬ ("ExitOpcode" = "JumpOpcode" ∧ (1 : Nat) = 2 ∧ ¬ ("plain" = "bi" ∨ "plain" = "tri")) := by decide
      simp only [this, if_false]
    have j2 : jumpRounds d (off + 3 * i + 1) (st.addStmt (off + 3 * i) (exitCode (off + 3 * i))) = i + 2 := by
      have hl : Opcodes.opcodes.lookup 84 = some { cls := "JumpOpcode", impl := "JumpOpcode", nbytes := 2, kind := "param1", attrs := [] } := rfl
      unfold jumpRounds
      simp only [b2, hl, b3']
      have : ("JumpOpcode" = "JumpOpcode" ∧ (2 : Nat) = 2 ∧ ¬ ("param1" = "bi" ∨ "param1" = "tri")) := by decide
      simp only [this, if_true, hst1]
      have hf : (loops off i ++ [Node.stmt (off + 3 * i) (exitCode (off + 3 * i))]).filter
          (fun s => decide (s.pos ≥ off + 3 * i + 1 - ((1 : Nat) : Int))) = [Node.stmt (off + 3 * i) (exitCode (off + 3 * i))] := by
        rw [List.filter_append]
        have h1 : (loops off i).filter (fun s => decide (s.pos ≥ off + 3 * i + 1 - ((1 : Nat) : Int))) = [] := by
          rw [List.filter_eq_nil_iff]
          intro x hx
          have := loops_pos off i x hx
          simp only [decide_eq_true_eq]; omega
        rw [h1]
        simp [Node.pos]
      rw [hf]
      simp [loops_length]
    -- unfold two rounds of the loop
    have hrest := ih (i + 1) regs' { (st.addStmt (off + 3 * i) (exitCode (off + 3 * i))) with stmts := loops off (i + 1) } (by omega) rfl
    have e3 : off + 3 * (i : Int) + 1 + 2 = off + 3 * ((i + 1 : Nat) : Int) := by omega
    rw [opcodeLoopS]
    have hlt1 : off + 3 * (i : Int) - off < 3 * (n : Int) := by omega
    simp only [hlt1, if_true]
    split
    · rename_i e he; rw [s1] at he; cases he
    · rename_i r hr
      rw [s1] at hr; cases hr
      simp only
      rw [opcodeLoopS]
      have hlt2 : off + 3 * (i : Int) + 1 - off < 3 * (n : Int) := by omega
      simp only [hlt2, if_true]
      split
      · rename_i e he; rw [s2] at he; cases he
      · rename_i r hr
        rw [s2] at hr; cases hr
        simp only
        rw [e3, hrest.1, hrest.2, j1, j2]
        simp only [sumFrom]
        constructor <;> omega

/-- **F37 in the model, lower bound**: on 3·n bytes of bytecode the loops of `JumpOpcode.process` make n·(n+3)/2 rounds -/
theorem jump_rounds_quadratic (ctx : Ctx) (d : Bytes) (off : Int) (n : Nat) (regs : Regs) (st : PState) (hc : CodeHas d off n)
    (hst : st.stmts = []) :
    2 * (opcodeLoopS ctx d off (3 * n) off regs st).1.jump = n * (n + 3) ∧ (opcodeLoopS ctx d off (3 * n) off regs st).1.rounds = 2 * n := by
  have h := witness_run ctx d off n hc n 0 regs st (by omega) (by simp [loops, hst])
  have e : off + 3 * ((0 : Nat) : Int) = off := by omega
  rw [e] at h
  rw [h.1, h.2, sumFrom_closed]
  constructor
  · simp
  · rfl


/-! ### the family exists: any chunk that holds `01 54 01` n times at its code offset -/

/-- the bytecode of the family -/
def witCode : Nat → Bytes
  | 0 => []
  | n + 1 => [1, 84, 1] ++ witCode n

theorem witCode_get (n j : Nat) (hj : j < n) (post : Bytes) :
    (witCode n ++ post)[3 * j]? = some 1 ∧ (witCode n ++ post)[3 * j + 1]? = some 84 ∧ (witCode n ++ post)[3 * j + 2]? = some 1 := by
  induction n generalizing j with
  | zero => omega
  | succ n ih =>
    cases j with
    | zero => simp [witCode]
    | succ j =>
      have := ih j (by omega)
      have e0 : 3 * (j + 1) = 3 * j + 3 := by omega
      simp only [witCode, List.cons_append, List.nil_append, e0]
      exact this

theorem pyGet_nat' {α} (l : List α) (i : Nat) : pyGet l (i : Int) = match l[i]? with | some x => .ok x | none => .error .index := by
  unfold pyGet
  have h1 : ¬ ((i : Int) < 0) := by omega
  simp only [h1, if_false, Int.toNat_natCast]
  cases l[i]? <;> rfl

theorem byteAtI_append (pre rest : Bytes) (i : Nat) (b : UInt8) (h : rest[i]? = some b) :
    byteAtI (pre ++ rest) ((pre.length + i : Nat) : Int) = .ok b.toNat := by
  unfold byteAtI
  rw [pyGet_nat', List.getElem?_append_right (by omega)]
  simp [h, Except.map]

/-- every byte string `pre ++ (01 54 01)ⁿ ++ post` carries the family's code at offset `|pre|` -/
theorem codeHas_witness (pre post : Bytes) (n : Nat) : CodeHas (pre ++ (witCode n ++ post)) (pre.length : Int) n := by
  intro j hj
  obtain ⟨h0, h1, h2⟩ := witCode_get n j hj post
  have e0 : (pre.length : Int) + 3 * (j : Int) = ((pre.length + 3 * j : Nat) : Int) := by omega
  have e1 : (pre.length : Int) + 3 * (j : Int) + 1 = ((pre.length + (3 * j + 1) : Nat) : Int) := by omega
  have e2 : (pre.length : Int) + 3 * (j : Int) + 2 = ((pre.length + (3 * j + 2) : Nat) : Int) := by omega
  refine ⟨?_, ?_, ?_⟩
  · rw [e0]; exact byteAtI_append pre _ _ 1 h0
  · rw [e1]; exact byteAtI_append pre _ _ 84 h1
  · rw [e2]; exact byteAtI_append pre _ _ 1 h2

end Drx.Lscr.Steps
