/-
  The one coincidence of the compile scheme (C03): `set v = a` followed by `repeat while v <= b … set v = 1 + v end repeat` is laid out
  exactly like `repeat with v = a to b … end repeat`.  Stated on the control skeleton (`CStmt`): a straight-line statement `init`
  followed by a loop without prologue whose body ends in the straight-line statement `incr` has the layout of the loop that carries
  `init` as its prologue and `incr` as its increment part — in every context (`toEnd`) and with the same `exit repeat` targets.
-/
import DrxProofs.SpecLayout
namespace Drx.Spec

theorem sizes_append (a b : List CStmt) : CStmt.sizes (a ++ b) = CStmt.sizes a + CStmt.sizes b := by
  induction a with
  | nil => simp [CStmt.sizes]
  | cons s ss ih => simp [CStmt.sizes, ih]; omega

theorem layoutStmts_append (a b : List CStmt) (te : Option Nat) :
    layoutStmts te (a ++ b) = layoutStmts (te.map (· + CStmt.sizes b)) a ++ layoutStmts te b := by
  induction a with
  | nil => simp [layoutStmts]
  | cons s ss ih =>
    simp only [List.cons_append, layoutStmts, ih, List.append_assoc, sizes_append]
    congr 2
    cases te <;> simp; omega

/-- the `repeat while` spelling and the `repeat with` it is byte-identical to -/
theorem withLike_same_layout (init cond incr : List Instr) (body rest : List CStmt) (te : Option Nat) :
    layoutStmts te (.code init :: .loop [] cond [] (body ++ [.code incr]) [] [] :: rest)
      = layoutStmts te (.loop init cond [] body incr [] :: rest) := by
  simp only [layoutStmts, layoutStmt, layoutStmts_append, CStmt.sizes, CStmt.size, sizes_append, codeSize_nil, Option.map_some,
    List.append_nil, List.nil_append, List.append_assoc]
  have e1 : (0 : Nat) + 2 + (codeSize incr + 0) = codeSize incr + 2 := by omega
  have e2 : 0 + (CStmt.sizes body + (codeSize incr + 0)) + 0 = 0 + CStmt.sizes body + codeSize incr := by omega
  simp only [e1, e2]

end Drx.Spec
