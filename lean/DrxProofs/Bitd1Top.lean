/-
  C06, 1 bit per pixel, end to end.
-/
import DrxProofs.Bitd1
namespace Drx.Bitd
open Drx Drx.Bitd.Spec

/-- bytes per stored scan line of `w` one-bit pixels -/
def lineBytes1 (w : Nat) : Nat := (w + 7) / 8 + ((w + 7) / 8) % 2

theorem g1_of_le (W ox stride : Nat) (h : ox ≤ W) :
    g1 W ox stride = { stride := stride, padW := ox, wImg := W - ox, w := 8 * lineBytes1 (W - ox) } := by
  unfold g1 lineBytes1
  have e1 : ((W : Int) - (ox : Int)).toNat = W - ox := by omega
  have e2 : (((W : Int) - (ox : Int)) + (16 - ((W : Int) - (ox : Int)) % 16) % 16).toNat
      = 8 * ((W - ox + 7) / 8 + ((W - ox + 7) / 8) % 2) := by omega
  simp only [e1, e2]

theorem wSize1_nat (w : Nat) : wSize1 (w : Int) = (lineBytes1 w : Int) := by
  unfold wSize1 lineBytes1
  have e : Int.tdiv (w : Int) 8 = ((w / 8 : Nat) : Int) := by
    rw [Int.tdiv_eq_ediv_of_nonneg (by omega)]; omega
  simp only [e]
  split <;> omega

theorem compressed1_spec (W H ox oy stride : Nat) (hox : ox ≤ W) (hoy : oy < H) (hst : W ≤ stride)
    (opsRows : List (List Op)) (rows : List Bytes) (hv : validRows opsRows rows = true)
    (hn : rows.length = H - oy) (hl : ∀ r ∈ rows, r.length = lineBytes1 (W - ox)) (hpos : 0 < W - ox) :
    compressed1 (packed opsRows.flatten) W H ox oy stride
      = .ok ((rows.reverse.map fun r => rowImg stride ox (W - ox) (bitsOfBytes r)).flatten ++ zeros (oy * stride)) := by
  unfold compressed1
  have hg := g1_of_le W ox stride hox
  have hlt : ¬ (H < 1 + oy) := by omega
  simp only [hlt, if_false]
  have hz : zeros (stride * H) = zeros ((H - 1 - oy + 1) * (g1 W ox stride).stride) ++ zeros (oy * stride) := by
    rw [← zeros_add]; congr 1
    rw [hg]; simp only
    have e : H - 1 - oy + 1 = H - oy := by omega
    rw [e, ← Nat.add_mul]
    have : H - oy + oy = H := by omega
    rw [this]; exact Nat.mul_comm _ _
  rw [hz]
  have hlb : 0 < lineBytes1 (W - ox) := by unfold lineBytes1; omega
  have := loop1_rows (g1 W ox stride) (by rw [hg]; simp only; omega) (by rw [hg]; simp only; omega) [] opsRows rows (H - 1 - oy)
    (zeros (oy * stride)) hv (by omega) (by rw [hg]; simp only; intro r hr; rw [hl r hr])
  simp only [List.append_nil] at this
  rw [this, hg]

theorem raw1_spec (W H ox oy stride : Nat) (hox : ox ≤ W) (hoy : oy ≤ H) (hst : W ≤ stride)
    (rows : List Bytes) (hn : rows.length = H - oy) (hl : ∀ r ∈ rows, r.length = lineBytes1 (W - ox)) :
    raw1 rows.flatten W H ox oy stride (wSize1 ((W : Int) - ox))
      = .ok ((rows.reverse.map fun r => rowImg stride ox (W - ox) (bitsOfBytes r)).flatten ++ zeros (oy * stride)) := by
  unfold raw1
  have e0 : (W : Int) - (ox : Int) = ((W - ox : Nat) : Int) := by omega
  rw [e0, wSize1_nat]
  have e1 : (((W - ox : Nat) : Int)).toNat = W - ox := by omega
  have e2 : ((lineBytes1 (W - ox) : Nat) : Int).toNat = lineBytes1 (W - ox) := by omega
  have e3 : ((stride : Int) - ((W - ox : Nat) : Int) - (ox : Int)).toNat = stride - (W - ox) - ox := by omega
  simp only [e1, e2, e3]
  have hz : zeros (stride * H) = [] ++ zeros ((H - oy) * stride) ++ zeros (oy * stride) := by
    simp only [List.nil_append]
    rw [← zeros_add, ← Nat.add_mul]; congr 1
    have : H - oy + oy = H := by omega
    rw [this]; exact Nat.mul_comm _ _
  rw [hz]
  have := rawLoop1_spec rows stride ox (W - ox) (lineBytes1 (W - ox)) (by omega) (by unfold lineBytes1; omega) hl (zeros (oy * stride))
    (H - oy) [] (by omega)
  simp only [List.length_nil] at this
  rw [this, ← hn, List.take_length]
  simp

/-- the 62 bytes in front of the pixel area of a 1-bit image (written as 8 bits per pixel, two colours) -/
def hdr1 (W H : Nat) : Bytes :=
  fileHdr ((W * H + 2 * 4 + 40 + 14 : Nat) : Int) ((2 * 4 + 40 + 14 : Nat) : Int)
    ++ (info40 W H 8 2 ++ sysPal 1 "black and white")

theorem hdr1_length (W H : Nat) : (hdr1 W H).length = 62 := by
  unfold hdr1
  simp only [List.length_append, fileHdr_length, info40_length, (writeColorPalette_1 []).2]

theorem decode1_eval (c : Call) (oy : Nat) (hoy : c.padH = (oy : Int)) (hpal : c.palette = "black and white") (hcl : c.clut = [])
    (hW : c.width < 2147483648) (hH : c.height < 2147483648) (hsize : c.width * c.height + 62 < 2147483648) (bmp : Bytes) (b : Buf)
    (hbmp : (if (c.fdata.length : Int) = wSize1 ((c.width : Int) - c.padW) * ((c.height : Int) - oy)
      then raw1 c.fdata c.width c.height c.padW oy (stride4 c.width) (wSize1 ((c.width : Int) - c.padW))
      else compressed1 c.fdata c.width c.height c.padW oy (stride4 c.width)) = .ok bmp) :
    decode1 true c b = ([], .ok (hdr1 c.width c.height ++ bmp)) := by
  unfold decode1
  rw [hoy, fixPad_nat, hpal, hcl]
  dsimp only
  rw [bind_ok _ _ _ _ _ (writeBmpHeader_ok _ _ (i32_nat _ (by omega)) (i32_nat _ (by omega)) b)]
  rw [bind_ok _ _ _ _ _ (writeInfoHeader40_ok _ _ 8 2 (i32_nat _ hW) (i32_nat _ hH) (by omega) (by omega) _)]
  rw [bind_ok _ _ _ _ _ (writeColorPalette_1 _).1]
  rw [hbmp]
  unfold hdr1
  simp only [List.append_assoc]
  rfl

theorem decodeClass_1 : decodeClass "Decoder1b" = decode1 := by
  funext r c
  unfold decodeClass
  rw [if_pos rfl]

theorem lookup_1 : lookupN 1 Gen.BitdTables.decoders = some "Decoder1b" := by decide

theorem paletteName_1 (c : Call) (h : c.depth = 1) : paletteName c = "black and white" := by
  unfold paletteName
  have : ¬ (c.depth = 8) := by omega
  rw [if_neg this, if_pos h]

theorem decode1_eta (c : Call) : decode1 true { c with palette := "black and white" } (DecState.init c.depth)
    = decode1 true { c with palette := "black and white" } [] := rfl

theorem bitd2bmp_1 (c : Call) (hd : c.depth = 1) : bitd2bmp c = (decode1 true { c with palette := "black and white" } []).2 := by
  have hl : lookupN c.depth Gen.BitdTables.decoders = some "Decoder1b" := by rw [hd]; exact lookup_1
  unfold bitd2bmp
  rw [decodeStep_snd true _ c _ hl, decodeClass_1, paletteName_1 c hd]
  exact congrArg Prod.snd (decode1_eta c)

/-- the stored scan line of a row of one-bit pixels, as the pixel bytes it is painted as -/
def lineBits (p1 p2 : UInt8) (r : List Bool) : Bytes := bitsOfBytes (evenPad p2 (packRow1 p1 r))

theorem lineBits_prefix (p1 p2 : UInt8) (r : List Bool) : ∃ t, lineBits p1 p2 r = r.map pxByte ++ t := by
  unfold lineBits
  obtain ⟨t1, h1⟩ := evenPad_prefix p2 (packRow1 p1 r)
  obtain ⟨t2, h2⟩ := packRow1_prefix p1 r
  rw [h1, bitsOfBytes_append, h2]
  exact ⟨t2 ++ bitsOfBytes t1, by simp⟩

theorem rawLine1_length (p1 p2 : UInt8) (r : List Bool) : (evenPad p2 (packRow1 p1 r)).length = lineBytes1 r.length := by
  rw [evenPad_length, packRow1_length]; rfl

theorem fileRows1_lineBits (stride ox w oy : Nat) (p1 p2 : UInt8) (rows : List (List Bool)) (h : ∀ r ∈ rows, r.length = w) :
    fileRows1 stride ox w oy (rows.map (lineBits p1 p2)) = fileRows1 stride ox w oy (rows.map fun r => r.map pxByte) := by
  unfold fileRows1
  congr 1
  rw [← List.map_reverse, ← List.map_reverse, List.map_map, List.map_map]
  apply List.map_congr_left
  intro r hr
  obtain ⟨t, ht⟩ := lineBits_prefix p1 p2 r
  simp only [Function.comp, ht]
  exact rowImg_prefix _ _ _ _ _ (by simp [h r (by simpa using hr)])

theorem wf1 (W H ox oy : Nat) (rows : List (List Bool)) (h : (Img.mk W H ox oy (.d1 rows)).wf = true) :
    ox ≤ W ∧ oy ≤ H ∧ rows.length = H - oy ∧ ∀ r ∈ rows, r.length = W - ox := by
  simp only [Img.wf, Pixels.shapeOk, Img.w, Img.h, Bool.and_eq_true, decide_eq_true_eq, beq_iff_eq, List.all_eq_true] at h
  exact ⟨h.1.1, h.1.2, h.2.1, h.2.2⟩

/-- the BMP `hdr1 ++ file rows ++ surplus` of a 1-bit image reads back as its canvas -/
theorem read_bmp1 (W H ox oy : Nat) (hox : ox ≤ W) (hoy : oy ≤ H) (hW : W < 2147483648) (hH : H < 2147483648)
    (rows : List (List Bool)) (hrows : rows.length = H - oy) (hpix : ∀ r ∈ rows, r.length = W - ox) (extra : Bytes) :
    readBmp (hdr1 W H ++ (fileRows1 (stride4 W) ox (W - ox) oy (rows.map fun r => r.map pxByte)).flatten ++ extra)
      = some (canvas ⟨W, H, ox, oy, .d1 rows⟩) := by
  have hf := hdr40_fields ((W * H + 2 * 4 + 40 + 14 : Nat) : Int) (2 * 4 + 40 + 14) W H 8 2 (sysPal 1 "black and white")
    (by omega) hW hH (by omega)
  have hfr := fileRows1_rows (stride4 W) ox (W - ox) oy (rows.map fun r => r.map pxByte) (by have := stride4_ge W; omega)
  have hlen : (hdr1 W H).length = 2 * 4 + 40 + 14 := hdr1_length W H
  rw [readBmp_rows (hdr1 W H) W H 8 _ extra (by rw [hlen]; omega) hf.1 (by rw [hlen]; exact hf.2.1) hf.2.2.1 hf.2.2.2.1
    hf.2.2.2.2.1 hf.2.2.2.2.2 hW hH (Or.inl rfl) (by rw [hfr.1]; simp; omega) (by intro r hr; rw [hfr.2 r hr, stride4_eq])]
  have := read_fileRows1 (stride4 W) W ox oy hox (stride4_ge W) rows (fun r => r.map pxByte) (fun r => r.map pxByte)
    (by intro a ha; simp [hpix a ha]) (fun a _ => ⟨[], by simp⟩)
  have e8 : (8 : Nat) / 8 = 1 := rfl
  rw [e8, this]
  unfold canvas canvasRows
  simp only [Pixels.bytesPerPixel, List.map_map]
  rfl

theorem raw_test1_iff (W H ox oy n : Nat) (hox : ox ≤ W) (hoy : oy ≤ H) :
    ((n : Int) = wSize1 ((W : Int) - ox) * ((H : Int) - oy)) ↔ n = lineBytes1 (W - ox) * (H - oy) := by
  have e0 : (W : Int) - (ox : Int) = ((W - ox : Nat) : Int) := by omega
  have e2 : (H : Int) - oy = ((H - oy : Nat) : Int) := by omega
  rw [e0, wSize1_nat, e2, ← Int.natCast_mul]
  exact Int.ofNat_inj

/-- 1 bit, raw storage, every geometry -/
theorem bitd2bmp_1_raw (W H ox oy : Nat) (rows : List (List Bool)) (p1 p2 : UInt8)
    (hwf : (Img.mk W H ox oy (.d1 rows)).wf = true) (hfit : fitsHeader (Img.mk W H ox oy (.d1 rows)) = true) :
    bitd2bmp (callOf ⟨W, H, ox, oy, .d1 rows⟩ (serialise ⟨W, H, ox, oy, .d1 rows⟩ p1 p2 .raw))
      = .ok (hdr1 W H ++ (fileRows1 (stride4 W) ox (W - ox) oy (rows.map fun r => r.map pxByte)).flatten) := by
  obtain ⟨hox, hoy, hrows, hpix⟩ := wf1 W H ox oy rows hwf
  simp only [fitsHeader, decide_eq_true_eq] at hfit
  obtain ⟨hW, hH, hWH⟩ := fits_bounds W H hfit
  rw [bitd2bmp_1 _ rfl]
  have hraw : ∀ r ∈ rows.map (fun r => evenPad p2 (packRow1 p1 r)), r.length = lineBytes1 (W - ox) := by
    intro r hr
    simp only [List.mem_map] at hr
    obtain ⟨a, ha, rfl⟩ := hr
    rw [rawLine1_length, hpix a ha]
  have hlen : (rows.map (fun r => evenPad p2 (packRow1 p1 r))).flatten.length = lineBytes1 (W - ox) * (H - oy) := by
    rw [length_flatten_uniform _ _ hraw]; simp [hrows]
  have hspec := raw1_spec W H ox oy (stride4 W) hox hoy (stride4_ge W) (rows.map (fun r => evenPad p2 (packRow1 p1 r))) (by simp [hrows]) hraw
  have hlay : ((rows.map (fun r => evenPad p2 (packRow1 p1 r))).reverse.map fun r => rowImg (stride4 W) ox (W - ox) (bitsOfBytes r)).flatten ++ zeros (oy * stride4 W)
      = (fileRows1 (stride4 W) ox (W - ox) oy (rows.map fun r => r.map pxByte)).flatten := by
    rw [← fileRows1_lineBits (stride4 W) ox (W - ox) oy p1 p2 rows hpix, fileRows1_flatten]
    congr 2
    rw [← List.map_reverse, ← List.map_reverse, List.map_map, List.map_map]
    rfl
  rw [hlay] at hspec
  rw [decode1_eval { callOf ⟨W, H, ox, oy, .d1 rows⟩ (serialise ⟨W, H, ox, oy, .d1 rows⟩ p1 p2 .raw) with palette := "black and white" } oy rfl rfl rfl hW hH
    (by show W * H + 62 < 2147483648; omega)
    (fileRows1 (stride4 W) ox (W - ox) oy (rows.map fun r => r.map pxByte)).flatten []
    (by
      show (if (((rows.map (fun r => evenPad p2 (packRow1 p1 r))).flatten.length : Nat) : Int) = wSize1 ((W : Int) - ox) * ((H : Int) - oy)
        then raw1 (rows.map (fun r => evenPad p2 (packRow1 p1 r))).flatten W H ox oy (stride4 W) (wSize1 ((W : Int) - ox))
        else compressed1 (rows.map (fun r => evenPad p2 (packRow1 p1 r))).flatten W H ox oy (stride4 W)) = _
      rw [if_pos ((raw_test1_iff W H ox oy _ hox hoy).mpr hlen)]
      exact hspec)]
  rfl

/-- 1 bit, PackBits storage, every valid scan-line encoding, every geometry -/
theorem bitd2bmp_1_packed (W H ox oy : Nat) (rows : List (List Bool)) (p1 p2 : UInt8) (opsRows : List (List Op))
    (hwf : (Img.mk W H ox oy (.d1 rows)).wf = true) (hfit : fitsHeader (Img.mk W H ox oy (.d1 rows)) = true)
    (hv : validEnc ⟨W, H, ox, oy, .d1 rows⟩ p1 p2 (.packed opsRows) = true)
    (hne : (serialise ⟨W, H, ox, oy, .d1 rows⟩ p1 p2 (.packed opsRows)).length ≠ (serialise ⟨W, H, ox, oy, .d1 rows⟩ p1 p2 .raw).length) :
    bitd2bmp (callOf ⟨W, H, ox, oy, .d1 rows⟩ (serialise ⟨W, H, ox, oy, .d1 rows⟩ p1 p2 (.packed opsRows)))
      = .ok (hdr1 W H ++ (fileRows1 (stride4 W) ox (W - ox) oy (rows.map fun r => r.map pxByte)).flatten) := by
  obtain ⟨hox, hoy, hrows, hpix⟩ := wf1 W H ox oy rows hwf
  simp only [fitsHeader, decide_eq_true_eq] at hfit
  obtain ⟨hW, hH, hWH⟩ := fits_bounds W H hfit
  have hv' : validRows opsRows (rows.map (fun r => evenPad p2 (packRow1 p1 r))) = true := hv
  have hraw : ∀ r ∈ rows.map (fun r => evenPad p2 (packRow1 p1 r)), r.length = lineBytes1 (W - ox) := by
    intro r hr
    simp only [List.mem_map] at hr
    obtain ⟨a, ha, rfl⟩ := hr
    rw [rawLine1_length, hpix a ha]
  have hlen : (rows.map (fun r => evenPad p2 (packRow1 p1 r))).flatten.length = lineBytes1 (W - ox) * (H - oy) := by
    rw [length_flatten_uniform _ _ hraw]; simp [hrows]
  have hne' : (packed opsRows.flatten).length ≠ lineBytes1 (W - ox) * (H - oy) := by
    rw [← hlen]; exact hne
  have hpos : 0 < W - ox ∧ oy < H := by
    refine ⟨Nat.pos_of_ne_zero ?_, Nat.lt_of_not_le ?_⟩
    · intro h0
      apply hne'
      have : packed opsRows.flatten = [] := validRows_all_empty opsRows _ hv' (by
        intro r hr
        have := hraw r hr
        rw [h0] at this
        exact List.eq_nil_of_length_eq_zero this)
      rw [this, h0]; simp [lineBytes1]
    · intro hle
      apply hne'
      have h0 : H - oy = 0 := by omega
      have : rows = [] := List.eq_nil_of_length_eq_zero (by omega)
      subst this
      have : packed opsRows.flatten = [] := validRows_all_empty opsRows _ hv' (by simp)
      rw [this, h0]; simp
  rw [bitd2bmp_1 _ rfl]
  have hspec := compressed1_spec W H ox oy (stride4 W) hox hpos.2 (stride4_ge W) opsRows (rows.map (fun r => evenPad p2 (packRow1 p1 r))) hv'
    (by simp [hrows]) hraw hpos.1
  have hlay : ((rows.map (fun r => evenPad p2 (packRow1 p1 r))).reverse.map fun r => rowImg (stride4 W) ox (W - ox) (bitsOfBytes r)).flatten ++ zeros (oy * stride4 W)
      = (fileRows1 (stride4 W) ox (W - ox) oy (rows.map fun r => r.map pxByte)).flatten := by
    rw [← fileRows1_lineBits (stride4 W) ox (W - ox) oy p1 p2 rows hpix, fileRows1_flatten]
    congr 2
    rw [← List.map_reverse, ← List.map_reverse, List.map_map, List.map_map]
    rfl
  rw [hlay] at hspec
  rw [decode1_eval { callOf ⟨W, H, ox, oy, .d1 rows⟩ (serialise ⟨W, H, ox, oy, .d1 rows⟩ p1 p2 (.packed opsRows)) with palette := "black and white" } oy rfl rfl rfl hW hH
    (by show W * H + 62 < 2147483648; omega)
    (fileRows1 (stride4 W) ox (W - ox) oy (rows.map fun r => r.map pxByte)).flatten []
    (by
      show (if (((packed opsRows.flatten).length : Nat) : Int) = wSize1 ((W : Int) - ox) * ((H : Int) - oy)
        then raw1 (packed opsRows.flatten) W H ox oy (stride4 W) (wSize1 ((W : Int) - ox))
        else compressed1 (packed opsRows.flatten) W H ox oy (stride4 W)) = _
      rw [if_neg (fun h => hne' ((raw_test1_iff W H ox oy _ hox hoy).mp h))]
      exact hspec)]
  rfl

end Drx.Bitd
