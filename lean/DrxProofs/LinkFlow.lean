/-
  L4 (degenerate case used by the link theorems): on a handler whose statements are all assignments / calls
  (no jump, no conditional jump, no repeat) `condition_detect` and `loop_detect` change nothing.
-/
import Drx.Link
namespace Drx.Link
open Drx Drx.Lscr
set_option linter.unusedSimpArgs false
set_option linter.unusedVariables false

/-- a statement whose code is a binary operation (assignment), a call, a `put … into|after|before` or a unary operation
    (`delete` / `hilite`) -/
inductive PlainStmt : Node → Prop
  | bin (p : Int) (op : Str) (q : Int) (l r : Node) : PlainStmt (.stmt p (.binary op q l r))
  | call (p : Int) (n : Lscr.Name) (q : Int) (ps : Node) (up it wr : Bool) (rc : Node) : PlainStmt (.stmt p (.callFn n q ps up it wr rc))
  | sp (p q : Int) (l r : Node) (m : Str) : PlainStmt (.stmt p (.spAssign q l r m))
  | un (p : Int) (op : Str) (q : Int) (x : Node) : PlainStmt (.stmt p (.unary op q x))

def PlainStmts (l : List Node) : Prop := ∀ x ∈ l, PlainStmt x

theorem PlainStmts.tail {x : Node} {l : List Node} (h : PlainStmts (x :: l)) : PlainStmts l := fun y hy => h y (by simp [hy])
theorem PlainStmts.head {x : Node} {l : List Node} (h : PlainStmts (x :: l)) : PlainStmt x := h x (by simp)

theorem plain_not_repeat {x : Node} (h : PlainStmt x) : isNestStmt x = false := by cases h <;> rfl

theorem plain_any_repeat {l : List Node} (h : PlainStmts l) : l.any isNestStmt = false := by
  induction l with
  | nil => rfl
  | cons x l ih => simp only [List.any_cons, plain_not_repeat h.head, ih h.tail, Bool.or_self]

theorem plain_cdDepth {l : List Node} (h : PlainStmts l) : cdDepthL l = 0 := by
  induction l with
  | nil => simp [cdDepthL]
  | cons x l ih =>
    have hx : cdDepth x = 0 := by cases h.head <;> simp [cdDepth]
    simp [cdDepthL, hx, ih h.tail]

theorem scanStep_plain {x : Node} (h : PlainStmt x) : scanStep none {} x = .ok {} := by
  cases h <;> simp [scanStep]

theorem scan_plain {l : List Node} (h : PlainStmts l) : l.foldlM (scanStep none) ({} : ScanSt) = .ok {} := by
  induction l with
  | nil => rfl
  | cons x l ih =>
    simp only [List.foldlM_cons, scanStep_plain h.head, bind, Except.bind]
    exact ih h.tail

theorem condDetect_plain {l : List Node} (h : PlainStmts l) : condDetect l = .ok l := by
  unfold condDetect
  rw [plain_cdDepth h, condDetectD]
  simp only [plain_any_repeat h, Bool.false_eq_true, if_false, bind, Except.bind, pure, Except.pure, scan_plain h]
  rw [condJzs]

theorem loopWalk_plain : ∀ (l : List Node) (prev : Option Node), PlainStmts l → loopWalk l prev = .ok (l, [])
  | [], prev, _ => by rw [loopWalk]
  | x :: l, prev, h => by
    have ih := loopWalk_plain l (some x) h.tail
    cases h.head <;>
    · rw [loopWalk]
      · simp only [ih, bind, Except.bind, pure, Except.pure]
      all_goals (intros; contradiction)

theorem loopDetect_plain {l : List Node} (h : PlainStmts l) : loopDetect l = .ok l := by
  rw [loopDetect]
  simp only [loopWalk_plain l none h, bind, Except.bind, pyRemoveAll, List.foldlM_nil, pure, Except.pure]

end Drx.Link
