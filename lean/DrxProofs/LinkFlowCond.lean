/-
  C03 link, layer F3 (condition_detect): by induction on the skeleton, `condDetectD` applied to the raw statement list of a
  well-formed skeleton returns its nesting `tgtC` — for any nesting depth, inside or outside a loop, with or without a trailing
  else jump, and whether or not the loop bodies have been visited before.
-/
import DrxProofs.LinkFlowClean
namespace Drx.LinkFlow
open Drx Drx.Lscr

/-- in front of the list: nothing, or the header jump of the loop whose body the list is (it leaves the loop: `e < a`) -/
inductive HdrOK (r : Option Int) (o : Int) : List Node → List Node → Prop
  | none : HdrOK r o [] []
  | hdr (pj : Int) (cond : Node) (e a : Int) : r = some e → e < a → pj < o → HdrOK r o [jzStmt pj cond a] [exitIf pj cond]

/-- behind the list: nothing, or the else jump that ends a then-branch -/
def TailOK (x : Int) (T : List Node) : Prop := T = [] ∨ ∃ q b, T = [jumpStmt q b] ∧ x ≤ q

/-- the statement of the induction for one skeleton list -/
def MainAt (ps : List P) : Prop :=
  ∀ (ld : Bool) (d : Nat) (o : Int) (r : Option Int) (H H' T : List Node), P.wfs ps = true → P.depths ps ≤ d → HdrOK r o H H' →
    TailOK (o + P.sizes ps) T → RB r (o + P.sizes ps) →
    condDetectD d (H ++ (emit ld o ps ++ T)) r = .ok (H' ++ (tgtC o ps ++ T))

theorem weights_cons (x : P) (ps : List P) : P.weights (x :: ps) = x.weight + P.weights ps := by simp [P.weights]
theorem depths_cons (x : P) (ps : List P) : P.depths (x :: ps) = max x.depth (P.depths ps) := by simp [P.depths]

/-! ### the nested-repeat part of the first loop -/

theorem repStep_jzStmt (d : Nat) (r : Option Int) (p : Int) (c : Node) (a : Int) : repStep d r (jzStmt p c a) = .ok (jzStmt p c a) :=
  repStep_other d r p _ (by simp [Node.cls]) (by simp [Node.cls])
theorem repStep_jumpStmt (d : Nat) (r : Option Int) (p a : Int) : repStep d r (jumpStmt p a) = .ok (jumpStmt p a) :=
  repStep_other d r p _ (by simp [Node.cls]) (by simp [Node.cls])

/-! ### the second loop: one `if` -/

/-- statements after the construct being processed: raw, at or beyond `x` -/
def RestOK (x : Int) (R : List Node) : Prop :=
  AllS (fun p c => x ≤ p ∧ c.cls ≠ .ifThen ∧ (∀ jp cd a, c = Node.jz jp cd a → jp = p)) R

/-- statements before it: finished, below `o` -/
def DoneOK (o : Int) (done : List Node) : Prop :=
  AllS (fun p c => p < o ∧ c.cls ≠ .jz ∧ (∀ q cd a b, c = Node.ifThen q cd a b → q = p)) done

theorem RestOK.mono {x y : Int} {R : List Node} (h : RestOK x R) (hy : y ≤ x) : RestOK y R :=
  AllS.mono h fun _ _ hh => ⟨by have := hh.1; omega, hh.2⟩

theorem DoneOK.mono {x y : Int} {l : List Node} (h : DoneOK x l) (hy : x ≤ y) : DoneOK y l :=
  AllS.mono h fun _ _ hh => ⟨by have := hh.1; omega, hh.2⟩

theorem restOK_emit (o : Int) (ps : List P) (h : P.wfs ps = true) : RestOK o (emit true o ps) :=
  AllS.mono (emit_inv true o ps h) fun _ _ hh => ⟨hh.1, hh.2.2.1, hh.2.2.2.1⟩

theorem restOK_tail {x : Int} {T : List Node} (h : TailOK x T) : RestOK x T := by
  rcases h with rfl | ⟨q, b, rfl, hq⟩
  · exact AllS.nil
  · refine AllS.cons ⟨hq, by simp [Node.cls], ?_⟩ AllS.nil
    intro jp cd a e; cases e

theorem doneOK_tgtC1 (o : Int) (x : P) (h : x.wf = true) : DoneOK (o + x.size) (tgtC1 o x) :=
  AllS.mono (tgtC1_inv o x h) fun _ _ hh => ⟨hh.2.1, hh.2.2.1, hh.2.2.2.2⟩

theorem pyEq_jz_false {c : Node} {p' p : Int} (cond : Node) (a : Int) (h1 : ∀ jp cd a', c = Node.jz jp cd a' → jp = p')
    (h2 : p' ≠ p) : c.pyEq (.jz p cond a) = false := by
  by_cases hc : c.cls = .jz
  · cases c with
    | jz jp cd a' =>
      rw [pyEq_jz]
      have := h1 _ _ _ rfl
      subst this
      simpa using h2
    | _ => simp [Node.cls] at hc
  · exact pyEq_of_cls_ne (by simpa [Node.cls] using hc)

/-- head condition of `ifScan` from `RestOK` -/
theorem RestOK.ifHead {x : Int} {R : List Node} (h : RestOK x R) (opos stop : Int) (cond : Node) (addr : Int) (h1 : opos < x)
    (h2 : stop ≤ x) : R = [] ∨ ∃ p c R', R = Node.stmt p c :: R' ∧ c.pyEq (.jz opos cond addr) = false ∧ stop ≤ p := by
  cases R with
  | nil => exact Or.inl rfl
  | cons y R' =>
    obtain ⟨p, c, rfl, hp, _, hj⟩ := h.head
    exact Or.inr ⟨p, c, R', rfl, pyEq_jz_false cond addr hj (by omega), by omega⟩

theorem RestOK.elseHead {x : Int} {R : List Node} (h : RestOK x R) (stop : Int) (h2 : stop ≤ x) :
    R = [] ∨ ∃ p c R', R = Node.stmt p c :: R' ∧ stop ≤ p := by
  cases R with
  | nil => exact Or.inl rfl
  | cons y R' =>
    obtain ⟨p, c, rfl, hp, _, _⟩ := h.head
    exact Or.inr ⟨p, c, R', rfl, by omega⟩

theorem RestOK.noPh {x : Int} {R : List Node} (h : RestOK x R) (opos : Int) : NoPh opos R :=
  AllS.mono h fun p c hh cd e => by rw [e] at hh; exact hh.2.1 rfl

theorem DoneOK.noPh {o : Int} {l : List Node} (h : DoneOK o l) (opos : Int) (ho : o ≤ opos) : NoPh opos l :=
  AllS.mono h fun p c hh cd e => by have := hh.2.2 _ _ _ _ e; have := hh.1; omega

theorem allS_jump {φ : Int → Node → Prop} (q b : Int) (h : φ q (.jump q b)) : AllS φ [jumpStmt q b] :=
  AllS.cons h AllS.nil

theorem allS_true {φ} {l : List Node} (h : AllS φ l) : AllS (fun _ _ => True) l := AllS.mono h fun _ _ _ => trivial

theorem mem_stmt_of_allS {φ : Int → Node → Prop} {l : List Node} (h : AllS φ l) {p : Int} {c : Node} (hm : Node.stmt p c ∈ l) :
    φ p c := by
  obtain ⟨p', c', e, hφ⟩ := h _ hm
  cases e; exact hφ

/-- `if … end if` (no else): one round of the second loop puts the reconstructed node where the jz was -/
theorem if_step_noelse (k : Nat) (IH : ∀ ps, P.weights ps < k → MainAt ps) (d n : Nat) (r : Option Int) (o : Int) (csz : Nat)
    (cond : Node) (t : List P) (restJz done R : List Node) (hw : (P.ifThen csz cond t []).weight ≤ k)
    (hwf : (P.ifThen csz cond t []).wf = true) (hd : (P.ifThen csz cond t []).depth ≤ d) (hdone : DoneOK o done)
    (hR : RestOK (o + (P.ifThen csz cond t []).size) R) (hrb : RB r (o + (P.ifThen csz cond t []).size))
    (hlen : (done ++ (emit1 true o (P.ifThen csz cond t []) ++ R)).length ≤ n) :
    condJzs d n (.jz (o + csz) cond (o + csz + 3 + P.sizes t) :: restJz) (done ++ (emit1 true o (P.ifThen csz cond t []) ++ R)) r =
      condJzs d n restJz (done ++ (tgtC1 o (P.ifThen csz cond t []) ++ R)) r := by
  obtain ⟨ht, _, _⟩ := wf_if.1 hwf
  simp only [P.weight] at hw
  simp only [P.depth] at hd
  rw [size_if_noelse] at hR hrb
  have it := emit_inv true (o + csz + 3) t ht
  rw [emit1_if_noelse] at hlen ⊢
  simp only [List.cons_append, jzStmt] at hlen ⊢
  -- the if-part scan
  have h1 := ifScan_split (.jz (o + csz) cond (o + csz + 3 + P.sizes t)) (.ifThen (o + csz) cond [] []) (o + csz)
    (o + csz + 3 + P.sizes t) done (emit true (o + csz + 3) t) R (o + csz) (.jz (o + csz) cond (o + csz + 3 + P.sizes t))
    (AllS.mono hdone fun _ _ hh => ⟨pyEq_of_cls_ne (by simpa [Node.cls] using hh.2.1), by have := hh.1; omega,
      by have := hh.1; omega⟩)
    (by rw [pyEq_jz]; simp)
    (AllS.mono it fun _ _ hh => ⟨pyEq_jz_false _ _ hh.2.2.2.1 (by have := hh.1; omega), by have := hh.1; omega,
      by have := hh.2.1; omega⟩)
    (hR.ifHead _ _ _ _ (by omega) (by omega))
  -- removal of the collected statements
  have h2 : pyRemoveAll (done ++ Node.stmt (o + csz) (.ifThen (o + csz) cond [] []) :: (emit true (o + csz + 3) t ++ R))
      (emit true (o + csz + 3) t) = .ok (done ++ Node.stmt (o + csz) (.ifThen (o + csz) cond [] []) :: R) := by
    have := pyRemoveAll_block (done ++ [Node.stmt (o + csz) (.ifThen (o + csz) cond [] [])]) (emit true (o + csz + 3) t) R
      (AllS.append (allS_true hdone) (AllS.cons trivial AllS.nil)) (allS_true it)
      (by
        intro a ha x hx
        obtain ⟨px, cx, rfl, hpx⟩ := it x hx
        rcases List.mem_append.1 ha with h | h
        · obtain ⟨pa, ca, rfl, hpa⟩ := hdone a h
          have := hpa.1; have := hpx.1; simp [Node.pos]; omega
        · simp only [List.mem_singleton] at h; subst h
          have := hpx.1; simp [Node.pos]; omega)
    simpa using this
  have h3 : breakDetect (emit true (o + csz + 3) t) r = .ok (emit true (o + csz + 3) t) :=
    breakDetect_id _ r (allS_true it) (fun e he p jp ja hm => by
      have := (mem_stmt_of_allS it hm).2.2.2.2 jp ja rfl
      have := hrb e he; omega)
  have h4 : (emit true (o + csz + 3) t).length < n := by
    simp only [List.length_append, List.length_cons] at hlen; omega
  have h5 : condDetectD d (emit true (o + csz + 3) t) r = .ok (tgtC (o + csz + 3) t) := by
    have := IH t (by omega) true d (o + csz + 3) r [] [] [] ht (by omega) HdrOK.none (Or.inl rfl) (hrb.mono (by omega))
    simpa using this
  have hfin : ∀ ifl, finalizeIf (o + csz) (.ifThen (o + csz) cond ifl [])
      (done ++ Node.stmt (o + csz) (.ifThen (o + csz) cond [] []) :: R) = done ++ Node.stmt (o + csz) (.ifThen (o + csz) cond ifl []) :: R :=
    fun ifl => finalizeIf_split _ _ _ _ _ _ (hdone.noPh _ (by omega)) (hR.noPh _)
  simp only [tgtC1, tgtC_nil, List.cons_append, List.nil_append]
  by_cases hn : P.nsts t = 0
  · have e1 := emit_nil_of_nsts true (o + csz + 3) t hn
    have e2 := tgtC_nil_of_nsts (o + csz + 3) t hn
    rw [e2] at h5 ⊢
    rw [condJzs_if_empty d n _ _ _ r restJz _ _ _ _ (fun e he => by have := hrb e he; omega) h1 h2 h3 h4 h5, hfin]
  · obtain ⟨l', lp, lc, hl, hlc⟩ := tgtC_last (o + csz + 3) t ht hn
    have hne : (tgtC (o + csz + 3) t).isEmpty = false := by rw [hl]; simp
    have h6 : pyGet (tgtC (o + csz + 3) t) (-1) = .ok (.stmt lp lc) := by rw [hl]; exact pyGet_last _ _
    rw [condJzs_if d n _ _ _ r restJz _ _ _ _ _ lp lc (fun e he => by have := hrb e he; omega) h1 h2 h3 h4 h5 hne h6 hlc, hfin]

/-- `if … else … end if`: one round of the second loop -/
theorem if_step_else (k : Nat) (IH : ∀ ps, P.weights ps < k → MainAt ps) (d n : Nat) (r : Option Int) (o : Int) (csz : Nat)
    (cond : Node) (t e : List P) (hemp : e ≠ []) (restJz done R : List Node) (hw : (P.ifThen csz cond t e).weight ≤ k)
    (hwf : (P.ifThen csz cond t e).wf = true) (hd : (P.ifThen csz cond t e).depth ≤ d) (hdone : DoneOK o done)
    (hR : RestOK (o + (P.ifThen csz cond t e).size) R) (hrb : RB r (o + (P.ifThen csz cond t e).size))
    (hlen : (done ++ (emit1 true o (P.ifThen csz cond t e) ++ R)).length ≤ n) :
    condJzs d n (.jz (o + csz) cond (o + csz + 3 + P.sizes t + 3) :: restJz) (done ++ (emit1 true o (P.ifThen csz cond t e) ++ R)) r =
      condJzs d n restJz (done ++ (tgtC1 o (P.ifThen csz cond t e) ++ R)) r := by
  obtain ⟨ht, he, _⟩ := wf_if.1 hwf
  simp only [P.weight] at hw
  simp only [P.depth] at hd
  rw [size_if_else _ _ _ _ hemp] at hR hrb
  have it := emit_inv true (o + csz + 3) t ht
  have ie := emit_inv true (o + csz + 3 + P.sizes t + 3) e he
  have hL : done ++ (emit1 true o (P.ifThen csz cond t e) ++ R) =
      done ++ Node.stmt (o + csz) (.jz (o + csz) cond (o + csz + 3 + P.sizes t + 3)) ::
        ((emit true (o + csz + 3) t ++ [jumpStmt (o + csz + 3 + P.sizes t) (o + csz + 3 + P.sizes t + 3 + P.sizes e)]) ++
          (emit true (o + csz + 3 + P.sizes t + 3) e ++ R)) := by
    rw [emit1_if_else _ _ _ _ _ _ hemp]; simp [jzStmt]
  rw [hL] at hlen ⊢
  have hRe : RestOK (o + csz + 3 + P.sizes t + 3) (emit true (o + csz + 3 + P.sizes t + 3) e ++ R) :=
    AllS.append (restOK_emit _ e he) (hR.mono (by push_cast; omega))
  have hX : AllS (EmitInv (o + csz + 3) (o + csz + 3 + P.sizes t + 3 + P.sizes e))
      (emit true (o + csz + 3) t ++ [jumpStmt (o + csz + 3 + P.sizes t) (o + csz + 3 + P.sizes t + 3 + P.sizes e)]) :=
    AllS.append (AllS.mono it fun _ _ hh => hh.mono (by omega) (by omega))
      (AllS.cons ⟨by omega, by omega, by simp [Node.cls], (by intro jp cd a e'; cases e'),
        (by intro jp ja e'; cases e'; omega)⟩ AllS.nil)
  -- the if-part scan
  have h1 := ifScan_split (.jz (o + csz) cond (o + csz + 3 + P.sizes t + 3)) (.ifThen (o + csz) cond [] []) (o + csz)
    (o + csz + 3 + P.sizes t + 3) done _ (emit true (o + csz + 3 + P.sizes t + 3) e ++ R) (o + csz)
    (.jz (o + csz) cond (o + csz + 3 + P.sizes t + 3))
    (AllS.mono hdone fun _ _ hh => ⟨pyEq_of_cls_ne (by simpa [Node.cls] using hh.2.1), by have := hh.1; omega,
      by have := hh.1; omega⟩)
    (by rw [pyEq_jz]; simp)
    (AllS.append (AllS.mono it fun _ _ hh => ⟨pyEq_jz_false _ _ hh.2.2.2.1 (by have := hh.1; omega), by have := hh.1; omega,
      by have := hh.2.1; omega⟩) (allS_jump (o + csz + 3 + P.sizes t) (o + csz + 3 + P.sizes t + 3 + P.sizes e) ⟨pyEq_of_cls_ne (by simp [Node.cls]), by omega, by omega⟩))
    (hRe.ifHead _ _ _ _ (by omega) (by omega))
  have h2 : pyRemoveAll (done ++ Node.stmt (o + csz) (.ifThen (o + csz) cond [] []) ::
      ((emit true (o + csz + 3) t ++ [jumpStmt (o + csz + 3 + P.sizes t) (o + csz + 3 + P.sizes t + 3 + P.sizes e)]) ++
          (emit true (o + csz + 3 + P.sizes t + 3) e ++ R)))
      (emit true (o + csz + 3) t ++ [jumpStmt (o + csz + 3 + P.sizes t) (o + csz + 3 + P.sizes t + 3 + P.sizes e)]) =
      .ok (done ++ Node.stmt (o + csz) (.ifThen (o + csz) cond [] []) :: (emit true (o + csz + 3 + P.sizes t + 3) e ++ R)) := by
    have := pyRemoveAll_block (done ++ [Node.stmt (o + csz) (.ifThen (o + csz) cond [] [])]) _
      (emit true (o + csz + 3 + P.sizes t + 3) e ++ R)
      (AllS.append (allS_true hdone) (AllS.cons trivial AllS.nil)) (allS_true hX)
      (by
        intro a ha x hx
        obtain ⟨px, cx, rfl, hpx⟩ := hX x hx
        rcases List.mem_append.1 ha with h | h
        · obtain ⟨pa, ca, rfl, hpa⟩ := hdone a h
          have := hpa.1; have := hpx.1; simp [Node.pos]; omega
        · simp only [List.mem_singleton] at h; subst h
          have := hpx.1; simp [Node.pos]; omega)
    simpa using this
  have h3 := breakDetect_id _ r (allS_true hX) (fun e' he' p jp ja hm => by
      have := (mem_stmt_of_allS hX hm).2.2.2.2 jp ja rfl
      have := hrb e' he'; push_cast at *; omega)
  have h4 : (emit true (o + csz + 3) t ++ [jumpStmt (o + csz + 3 + P.sizes t) (o + csz + 3 + P.sizes t + 3 + P.sizes e)]).length < n := by
    simp only [List.length_append, List.length_cons] at hlen ⊢; omega
  have h5 : condDetectD d (emit true (o + csz + 3) t ++ [jumpStmt (o + csz + 3 + P.sizes t) (o + csz + 3 + P.sizes t + 3 + P.sizes e)]) r
      = .ok (tgtC (o + csz + 3) t ++ [jumpStmt (o + csz + 3 + P.sizes t) (o + csz + 3 + P.sizes t + 3 + P.sizes e)]) := by
    have := IH t (by omega) true d (o + csz + 3) r [] [] [jumpStmt (o + csz + 3 + P.sizes t) (o + csz + 3 + P.sizes t + 3 + P.sizes e)]
      ht (by omega) HdrOK.none (Or.inr ⟨_, _, rfl, by omega⟩) (hrb.mono (by push_cast; omega))
    simpa using this
  have hne : (tgtC (o + csz + 3) t ++ [jumpStmt (o + csz + 3 + P.sizes t) (o + csz + 3 + P.sizes t + 3 + P.sizes e)]).isEmpty = false := by
    simp
  have h6 : pyGet (tgtC (o + csz + 3) t ++ [jumpStmt (o + csz + 3 + P.sizes t) (o + csz + 3 + P.sizes t + 3 + P.sizes e)]) (-1) =
      .ok (.stmt (o + csz + 3 + P.sizes t) (.jump (o + csz + 3 + P.sizes t) (o + csz + 3 + P.sizes t + 3 + P.sizes e))) :=
    pyGet_last _ _
  -- the else-part scan
  have hes : elseScan (o + csz + 3 + P.sizes t) (o + csz + 3 + P.sizes t + 3 + P.sizes e)
      (done ++ Node.stmt (o + csz) (.ifThen (o + csz) cond [] []) :: (emit true (o + csz + 3 + P.sizes t + 3) e ++ R)) =
      emit true (o + csz + 3 + P.sizes t + 3) e := by
    have := elseScan_split (o + csz + 3 + P.sizes t) (o + csz + 3 + P.sizes t + 3 + P.sizes e)
      (done ++ [Node.stmt (o + csz) (.ifThen (o + csz) cond [] [])]) (emit true (o + csz + 3 + P.sizes t + 3) e) R
      (AllS.append (AllS.mono hdone fun _ _ hh => ⟨by have := hh.1; omega, by have := hh.1; omega⟩)
        (AllS.cons ⟨by omega, by omega⟩ AllS.nil))
      (AllS.mono ie fun _ _ hh => ⟨by have := hh.1; omega, hh.2.1⟩)
      (hR.elseHead _ (by push_cast; omega))
    simpa using this
  have h8 : pyRemoveAll (done ++ Node.stmt (o + csz) (.ifThen (o + csz) cond [] []) :: (emit true (o + csz + 3 + P.sizes t + 3) e ++ R))
      (emit true (o + csz + 3 + P.sizes t + 3) e) = .ok (done ++ Node.stmt (o + csz) (.ifThen (o + csz) cond [] []) :: R) := by
    have := pyRemoveAll_block (done ++ [Node.stmt (o + csz) (.ifThen (o + csz) cond [] [])]) (emit true (o + csz + 3 + P.sizes t + 3) e) R
      (AllS.append (allS_true hdone) (AllS.cons trivial AllS.nil)) (allS_true ie)
      (by
        intro a ha x hx
        obtain ⟨px, cx, rfl, hpx⟩ := ie x hx
        rcases List.mem_append.1 ha with h | h
        · obtain ⟨pa, ca, rfl, hpa⟩ := hdone a h
          have := hpa.1; have := hpx.1; simp [Node.pos]; omega
        · simp only [List.mem_singleton] at h; subst h
          have := hpx.1; simp [Node.pos]; omega)
    simpa using this
  have h9 : breakDetect (emit true (o + csz + 3 + P.sizes t + 3) e) r = .ok (emit true (o + csz + 3 + P.sizes t + 3) e) :=
    breakDetect_id _ r (allS_true ie) (fun e' he' p jp ja hm => by
      have := (mem_stmt_of_allS ie hm).2.2.2.2 jp ja rfl
      have := hrb e' he'; push_cast at *; omega)
  have h10 : (emit true (o + csz + 3 + P.sizes t + 3) e).length < n := by
    simp only [List.length_append, List.length_cons] at hlen; omega
  have h11 : condDetectD d (emit true (o + csz + 3 + P.sizes t + 3) e) r = .ok (tgtC (o + csz + 3 + P.sizes t + 3) e) := by
    have := IH e (by omega) true d (o + csz + 3 + P.sizes t + 3) r [] [] [] he (by omega) HdrOK.none (Or.inl rfl)
      (hrb.mono (by push_cast; omega))
    simpa using this
  rw [condJzs_ifelse d n _ _ _ r restJz _ _ _ _ _ _ _ _ _ _ (fun e' he' => by have := hrb e' he'; push_cast at *; omega)
    h1 h2 h3 h4 h5 hne h6 (fun e' he' => by have := hrb e' he'; push_cast at *; omega)
    (by rw [hes]; exact h8) (by rw [hes]; exact h9) (by rw [hes]; exact h10) (by rw [hes]; exact h11)]
  rw [finalizeIf_split _ _ _ _ _ _ (hdone.noPh _ (by omega)) (hR.noPh _)]
  simp [tgtC1]

/-! ### the second loop over a whole list level -/

theorem tgtC1_length_le (o : Int) (x : P) : (tgtC1 o x).length ≤ (emit1 true o x).length := by
  cases x with
  | simple s => simp [tgtC1, emit1]
  | skip n => simp [tgtC1, emit1]
  | loop csz cond b => simp [tgtC1, emit1]
  | loopX csz cond b1 csz2 cond2 t b2 => simp [tgtC1, emit1]
  | ifThen csz cond t e => simp only [tgtC1, emit1]; split <;> simp

theorem emit1_eq_tgtC1 (o : Int) (x : P) (h : ∀ csz cond t e, x ≠ .ifThen csz cond t e) : emit1 true o x = tgtC1 o x := by
  cases x with
  | simple s => simp [tgtC1, emit1]
  | skip n => simp [tgtC1, emit1]
  | loop csz cond b => simp [tgtC1, emit1]
  | loopX csz cond b1 csz2 cond2 t b2 => simp [tgtC1, emit1]
  | ifThen csz cond t e => exact absurd rfl (h csz cond t e)

theorem jzsOf_cons_other (o : Int) (x : P) (ps : List P) (h : ∀ csz cond t e, x ≠ .ifThen csz cond t e) :
    jzsOf o (x :: ps) = jzsOf (o + x.size) ps := by
  cases x with
  | simple s => simp [jzsOf]
  | skip n => simp [jzsOf]
  | loop csz cond b => simp [jzsOf]
  | loopX csz cond b1 csz2 cond2 t b2 => simp [jzsOf]
  | ifThen csz cond t e => exact absurd rfl (h csz cond t e)

/-- the second loop over the ifs of a list level, in continuation form: `J'` = the jz operations that remain afterwards,
    `T` = the (raw) statements behind the list -/
theorem condJzs_emitK (k : Nat) (IH : ∀ ps, P.weights ps < k → MainAt ps) (d n : Nat) (r : Option Int) (J' : List Node) :
    ∀ (ps : List P) (o : Int) (done T : List Node), P.weights ps ≤ k → P.wfs ps = true → P.depths ps ≤ d → DoneOK o done →
      RestOK (o + P.sizes ps) T → RB r (o + P.sizes ps) → (done ++ (emit true o ps ++ T)).length ≤ n →
      condJzs d n (jzsOf o ps ++ J') (done ++ (emit true o ps ++ T)) r = condJzs d n J' (done ++ (tgtC o ps ++ T)) r := by
  intro ps
  induction ps with
  | nil =>
    intro o done T _ _ _ _ _ _ _
    simp only [jzsOf, emit_nil, tgtC_nil, List.nil_append]
  | cons x ps ih =>
    intro o done T hw hwf hd hdone hT hrb hlen
    obtain ⟨hx, hps⟩ := wfs_cons.1 hwf
    rw [weights_cons] at hw
    rw [depths_cons] at hd
    rw [sizes_cons] at hT hrb
    have hT' : RestOK (o + x.size + P.sizes ps) T := hT.mono (by push_cast; omega)
    have hrb' : RB r (o + x.size + P.sizes ps) := hrb.mono (by push_cast; omega)
    have hR : RestOK (o + x.size) (emit true (o + x.size) ps ++ T) :=
      AllS.append (restOK_emit _ ps hps) (hT'.mono (by omega))
    have hdone' : DoneOK (o + x.size) (done ++ tgtC1 o x) := AllS.append (hdone.mono (by omega)) (doneOK_tgtC1 o x hx)
    rw [emit_cons, tgtC_cons, List.append_assoc] at *
    -- after the construct at the head has been dealt with, the list induction applies
    have hcont : ∀ restJz, restJz = jzsOf (o + x.size) ps ++ J' →
        condJzs d n restJz (done ++ (tgtC1 o x ++ (emit true (o + x.size) ps ++ T))) r =
          condJzs d n J' (done ++ (tgtC1 o x ++ tgtC (o + x.size) ps ++ T)) r := by
      intro restJz hj
      have hlen' : ((done ++ tgtC1 o x) ++ (emit true (o + x.size) ps ++ T)).length ≤ n := by
        have := tgtC1_length_le o x
        simp only [List.length_append] at hlen ⊢; omega
      have := ih (o + x.size) (done ++ tgtC1 o x) T (by omega) hps (by omega) hdone' hT' hrb' hlen'
      rw [hj]
      simpa [List.append_assoc] using this
    by_cases hif : ∃ csz cond t e, x = .ifThen csz cond t e
    · obtain ⟨csz, cond, t, e, rfl⟩ := hif
      rw [jzsOf_cons_if, List.cons_append]
      by_cases hemp : e = []
      · subst hemp
        simp only [List.isEmpty_nil, if_true, Int.add_zero]
        have hrbx : RB r (o + (P.ifThen csz cond t []).size) := hrb.mono (by push_cast; omega)
        rw [if_step_noelse k IH d n r o csz cond t _ done _ (by omega) hx (by omega) hdone hR hrbx hlen]
        exact hcont _ rfl
      · have hie : e.isEmpty = false := by cases e <;> simp_all
        simp only [hie, Bool.false_eq_true, if_false]
        have hrbx : RB r (o + (P.ifThen csz cond t e).size) := hrb.mono (by push_cast; omega)
        rw [if_step_else k IH d n r o csz cond t e hemp _ done _ (by omega) hx (by omega) hdone hR hrbx hlen]
        exact hcont _ rfl
    · have hno : ∀ csz cond t e, x ≠ .ifThen csz cond t e := fun csz cond t e h => hif ⟨csz, cond, t, e, h⟩
      rw [jzsOf_cons_other o x ps hno, emit1_eq_tgtC1 o x hno]
      exact hcont _ rfl

theorem condJzs_emit (k : Nat) (IH : ∀ ps, P.weights ps < k → MainAt ps) (d n : Nat) (r : Option Int)
    (ps : List P) (o : Int) (done T : List Node) (hw : P.weights ps ≤ k) (hwf : P.wfs ps = true) (hd : P.depths ps ≤ d)
    (hdone : DoneOK o done) (hT : TailOK (o + P.sizes ps) T) (hrb : RB r (o + P.sizes ps))
    (hlen : (done ++ (emit true o ps ++ T)).length ≤ n) :
    condJzs d n (jzsOf o ps) (done ++ (emit true o ps ++ T)) r = .ok (done ++ (tgtC o ps ++ T)) := by
  have := condJzs_emitK k IH d n r [] ps o done T hw hwf hd hdone (restOK_tail hT) hrb hlen
  rw [List.append_nil] at this
  rw [this, condJzs_nil]

/-! ### a loop body with one `if … exit repeat end if` (layer F4, restricted class) -/

theorem emit_noIfs (o : Int) : ∀ (ps : List P), P.noIfs ps = true → emit true o ps = tgtC o ps ∧ jzsOf o ps = [] := by
  intro ps
  induction ps generalizing o with
  | nil => intro _; simp [emit, tgtC, jzsOf]
  | cons x ps ih =>
    intro h
    have hno : ∀ csz cond t e, x ≠ .ifThen csz cond t e := by
      intro csz cond t e hx; subst hx; simp [P.noIfs] at h
    have hps : P.noIfs ps = true := by cases x <;> simp_all [P.noIfs]
    obtain ⟨h1, h2⟩ := ih (o + x.size) hps
    exact ⟨by rw [emit_cons, tgtC_cons, emit1_eq_tgtC1 o x hno, h1], by rw [jzsOf_cons_other o x ps hno, h2]⟩

/-- `break_detect` only looks at the second-to-last statement -/
theorem breakDetect_snoc (l0 : List Node) (x : Node) (r : Option Int) (hl : AllS (fun _ _ => True) l0)
    (hj : ∀ e, r = some e → ∀ p jp ja, Node.stmt p (.jump jp ja) ∈ l0 → ja ≤ e) : breakDetect (l0 ++ [x]) r = .ok (l0 ++ [x]) := by
  unfold breakDetect
  split
  · rfl
  · rename_i e
    split
    · rfl
    · split
      · rename_i elseJump lastSt revInit hrev
        have hmem : lastSt ∈ l0 := by
          rw [List.reverse_append] at hrev
          simp only [List.reverse_cons, List.reverse_nil, List.nil_append, List.cons_append, List.cons.injEq] at hrev
          have : lastSt ∈ l0.reverse := by rw [hrev.2]; simp
          simpa using this
        obtain ⟨p, c, rfl, _⟩ := hl lastSt hmem
        split
        · rename_i x1 jp ja hx
          cases hx
          have := hj e rfl p jp ja hmem
          have n : ¬ e < ja := by omega
          simp [n]
        · rfl
        · rename_i hx1 hx2
          exact absurd rfl (hx2 p c)
      · rfl

theorem foldlM_scan_append {s s1 : ScanSt} {r : Option Int} {l1 l2 : List Node} (h : l1.foldlM (scanStep r) s = .ok s1) :
    (l1 ++ l2).foldlM (scanStep r) s = l2.foldlM (scanStep r) s1 := foldlM_append_ok h

/-- the body of a loop with one if-exit: `condition_detect` turns the exit jump into the `exit repeat` statement that ends the
    then-branch; the statements behind the `if` (none of them an `if`) stay as they are -/
theorem bodyX (k : Nat) (IH : ∀ ps, P.weights ps < k → MainAt ps) (d' : Nat) (b1 t b2 : List P) (csz2 : Nat) (cond cond2 : Node)
    (pj o1 idx a0 X : Int) (hw1 : P.weights b1 < k) (hwt : P.weights t < k) (hwf1 : P.wfs b1 = true) (hwft : P.wfs t = true)
    (hwf2 : P.wfs b2 = true) (hno : P.noIfs b2 = true) (hd1 : P.depths b1 ≤ d') (hdt : P.depths t ≤ d')
    (hpj : pj < o1) (hidx : o1 + P.sizes b1 + csz2 + 3 + P.sizes t + 3 + P.sizes b2 ≤ idx) (ha0 : idx < a0) (hX : idx < X)
    (hm1 : (emit false o1 b1).mapM (repStep d' (some idx)) = .ok (emit true o1 b1))
    (hm2 : (emit false (o1 + P.sizes b1 + csz2 + 3) t).mapM (repStep d' (some idx)) = .ok (emit true (o1 + P.sizes b1 + csz2 + 3) t))
    (hm3 : (emit false (o1 + P.sizes b1 + csz2 + 3 + P.sizes t + 3) b2).mapM (repStep d' (some idx)) = .ok (emit true (o1 + P.sizes b1 + csz2 + 3 + P.sizes t + 3) b2)) :
    condDetectD d' (jzStmt pj cond a0 :: (emit false o1 b1 ++ jzStmt (o1 + P.sizes b1 + csz2) cond2 (o1 + P.sizes b1 + csz2 + 3 + P.sizes t + 3) :: (emit false (o1 + P.sizes b1 + csz2 + 3) t ++ jumpStmt (o1 + P.sizes b1 + csz2 + 3 + P.sizes t) X :: emit false (o1 + P.sizes b1 + csz2 + 3 + P.sizes t + 3) b2))) (some idx) =
      .ok (exitIf pj cond :: (tgtC o1 b1 ++ Node.stmt (o1 + P.sizes b1 + csz2) (.ifThen (o1 + P.sizes b1 + csz2) cond2 (tgtC (o1 + P.sizes b1 + csz2 + 3) t ++ [exitRepeatStmt (o1 + P.sizes b1 + csz2 + 3 + P.sizes t)]) []) :: tgtC (o1 + P.sizes b1 + csz2 + 3 + P.sizes t + 3) b2)) := by
  have it := emit_inv true (o1 + P.sizes b1 + csz2 + 3) t hwft
  have i2 := emit_inv true (o1 + P.sizes b1 + csz2 + 3 + P.sizes t + 3) b2 hwf2
  obtain ⟨hb2eq, _⟩ := emit_noIfs (o1 + P.sizes b1 + csz2 + 3 + P.sizes t + 3) b2 hno
  -- part 1 of the first loop
  have hM : mapRep d' (jzStmt pj cond a0 :: (emit false o1 b1 ++ jzStmt (o1 + P.sizes b1 + csz2) cond2 (o1 + P.sizes b1 + csz2 + 3 + P.sizes t + 3) :: (emit false (o1 + P.sizes b1 + csz2 + 3) t ++ jumpStmt (o1 + P.sizes b1 + csz2 + 3 + P.sizes t) X :: emit false (o1 + P.sizes b1 + csz2 + 3 + P.sizes t + 3) b2))) (some idx) = .ok (jzStmt pj cond a0 :: (emit true o1 b1 ++ jzStmt (o1 + P.sizes b1 + csz2) cond2 (o1 + P.sizes b1 + csz2 + 3 + P.sizes t + 3) :: (emit true (o1 + P.sizes b1 + csz2 + 3) t ++ jumpStmt (o1 + P.sizes b1 + csz2 + 3 + P.sizes t) X :: emit true (o1 + P.sizes b1 + csz2 + 3 + P.sizes t + 3) b2))) := by
    rw [mapRep_eq]
    exact mapM_cons_ok (repStep_jzStmt ..) (mapM_append_ok hm1 (mapM_cons_ok (repStep_jzStmt ..)
      (mapM_append_ok hm2 (mapM_cons_ok (repStep_jumpStmt ..) hm3))))
  -- part 2: the scan
  have st0 := scanStep_jz (some idx) {} pj pj cond a0 (fun a' ha' => by cases ha') (by simp [resetSt, PrevOK])
  have hsel : selAddr (some idx) a0 = none := by simp [selAddr, ha0]
  rw [hsel] at st0
  have hN0 : Neutral (ScanSt.mk none (resetSt {}).prev false (({} : ScanSt).jzs ++ [.jz pj cond a0])) o1 :=
    ⟨(fun a' ha' => by cases ha'), (by simp [resetSt, PrevOK])⟩
  obtain ⟨s1, hs1, hN1, hJ1⟩ := scan_emit (some idx) b1 o1 _ hwf1 (fun e he => by cases he; omega) hN0
  have st2 := scanStep_jz (some idx) s1 (o1 + P.sizes b1 + csz2) (o1 + P.sizes b1 + csz2) cond2 (o1 + P.sizes b1 + csz2 + 3 + P.sizes t + 3)
    (fun a' ha' => by have := hN1.1 a' ha'; omega) hN1.2
  rw [addrSel (some idx) _ (fun e he => by cases he; omega)] at st2
  have hskip : AllS (fun p _ => p < (o1 + P.sizes b1 + csz2 + 3 + P.sizes t + 3)) (emit true (o1 + P.sizes b1 + csz2 + 3) t ++ [jumpStmt (o1 + P.sizes b1 + csz2 + 3 + P.sizes t) X]) :=
    AllS.append (it.mono fun _ _ hh => by have := hh.2.1; omega) (allS_jump _ _ (by omega))
  have sk := scan_skip (some idx) (o1 + P.sizes b1 + csz2 + 3 + P.sizes t + 3) _ hskip _
    (rfl : (ScanSt.mk (some (o1 + P.sizes b1 + csz2 + 3 + P.sizes t + 3)) (resetSt s1).prev false (s1.jzs ++ [.jz (o1 + P.sizes b1 + csz2) cond2 (o1 + P.sizes b1 + csz2 + 3 + P.sizes t + 3)])).address = _)
  rw [lastOr_append_singleton] at sk
  obtain ⟨s3, hs3, hJ3⟩ : ∃ s3, (emit true (o1 + P.sizes b1 + csz2 + 3 + P.sizes t + 3) b2).foldlM (scanStep (some idx))
      (ScanSt.mk (some (o1 + P.sizes b1 + csz2 + 3 + P.sizes t + 3)) (some (jumpStmt (o1 + P.sizes b1 + csz2 + 3 + P.sizes t) X)) false (s1.jzs ++ [.jz (o1 + P.sizes b1 + csz2) cond2 (o1 + P.sizes b1 + csz2 + 3 + P.sizes t + 3)])) = .ok s3 ∧
      s3.jzs = s1.jzs ++ [.jz (o1 + P.sizes b1 + csz2) cond2 (o1 + P.sizes b1 + csz2 + 3 + P.sizes t + 3)] := by
    cases hxs : emit true (o1 + P.sizes b1 + csz2 + 3 + P.sizes t + 3) b2 with
    | nil => exact ⟨_, rfl, rfl⟩
    | cons y ys =>
      rw [hxs] at i2
      obtain ⟨py, cy, rfl, hpy⟩ := i2.head
      have sa := scanStep_afterJump (some idx) (ScanSt.mk (some (o1 + P.sizes b1 + csz2 + 3 + P.sizes t + 3)) (some (jumpStmt (o1 + P.sizes b1 + csz2 + 3 + P.sizes t) X)) false
          (s1.jzs ++ [.jz (o1 + P.sizes b1 + csz2) cond2 (o1 + P.sizes b1 + csz2 + 3 + P.sizes t + 3)])) py cy _ _ _
        (fun a' ha' => by simp only [Option.some.injEq] at ha'; have := hpy.1; omega) rfl rfl
      have sk2 := scan_skip (some idx) X ys (i2.tail.mono fun _ _ hh => by have := hh.2.1; omega) _
        (rfl : (ScanSt.mk (some X) (some (jumpStmt (o1 + P.sizes b1 + csz2 + 3 + P.sizes t) X)) true (s1.jzs ++ [.jz (o1 + P.sizes b1 + csz2) cond2 (o1 + P.sizes b1 + csz2 + 3 + P.sizes t + 3)])).address = _)
      exact ⟨_, by rw [foldlM_cons_ok sa, sk2], rfl⟩
  have hS : (jzStmt pj cond a0 :: (emit true o1 b1 ++ jzStmt (o1 + P.sizes b1 + csz2) cond2 (o1 + P.sizes b1 + csz2 + 3 + P.sizes t + 3) :: (emit true (o1 + P.sizes b1 + csz2 + 3) t ++ jumpStmt (o1 + P.sizes b1 + csz2 + 3 + P.sizes t) X :: emit true (o1 + P.sizes b1 + csz2 + 3 + P.sizes t + 3) b2))).foldlM (scanStep (some idx)) {} = .ok s3 := by
    rw [jzStmt, foldlM_cons_ok st0, foldlM_append_ok hs1, jzStmt, foldlM_cons_ok st2, foldlM_append_cons_ok sk]
    exact hs3
  have hjzs : s3.jzs = .jz pj cond a0 :: (jzsOf o1 b1 ++ [.jz (o1 + P.sizes b1 + csz2) cond2 (o1 + P.sizes b1 + csz2 + 3 + P.sizes t + 3)]) := by
    rw [hJ3, hJ1]; simp
  rw [condDetectD_eq, hM]
  show ((jzStmt pj cond a0 :: (emit true o1 b1 ++ jzStmt (o1 + P.sizes b1 + csz2) cond2 (o1 + P.sizes b1 + csz2 + 3 + P.sizes t + 3) :: (emit true (o1 + P.sizes b1 + csz2 + 3) t ++ jumpStmt (o1 + P.sizes b1 + csz2 + 3 + P.sizes t) X :: emit true (o1 + P.sizes b1 + csz2 + 3 + P.sizes t + 3) b2))).foldlM (scanStep (some idx)) {}).bind _ = _
  rw [hS]
  show condJzs d' (jzStmt pj cond a0 :: (emit false o1 b1 ++ jzStmt (o1 + P.sizes b1 + csz2) cond2 (o1 + P.sizes b1 + csz2 + 3 + P.sizes t + 3) :: (emit false (o1 + P.sizes b1 + csz2 + 3) t ++ jumpStmt (o1 + P.sizes b1 + csz2 + 3 + P.sizes t) X :: emit false (o1 + P.sizes b1 + csz2 + 3 + P.sizes t + 3) b2))).length s3.jzs (jzStmt pj cond a0 :: (emit true o1 b1 ++ jzStmt (o1 + P.sizes b1 + csz2) cond2 (o1 + P.sizes b1 + csz2 + 3 + P.sizes t + 3) :: (emit true (o1 + P.sizes b1 + csz2 + 3) t ++ jumpStmt (o1 + P.sizes b1 + csz2 + 3 + P.sizes t) X :: emit true (o1 + P.sizes b1 + csz2 + 3 + P.sizes t + 3) b2))) (some idx) = _
  rw [hjzs]
  have hlenEq : (jzStmt pj cond a0 :: (emit false o1 b1 ++ jzStmt (o1 + P.sizes b1 + csz2) cond2 (o1 + P.sizes b1 + csz2 + 3 + P.sizes t + 3) :: (emit false (o1 + P.sizes b1 + csz2 + 3) t ++ jumpStmt (o1 + P.sizes b1 + csz2 + 3 + P.sizes t) X :: emit false (o1 + P.sizes b1 + csz2 + 3 + P.sizes t + 3) b2))).length = (jzStmt pj cond a0 :: (emit true o1 b1 ++ jzStmt (o1 + P.sizes b1 + csz2) cond2 (o1 + P.sizes b1 + csz2 + 3 + P.sizes t + 3) :: (emit true (o1 + P.sizes b1 + csz2 + 3) t ++ jumpStmt (o1 + P.sizes b1 + csz2 + 3 + P.sizes t) X :: emit true (o1 + P.sizes b1 + csz2 + 3 + P.sizes t + 3) b2))).length := by
    simp only [List.length_cons, List.length_append, emit_length]
  rw [hlenEq]
  -- the loop's own header jump
  rw [jzStmt, condJzs_exit d' _ pj cond a0 idx _ _ _ ha0 (replaceFirstCode_head _ _ pj _ _ (by rw [pyEq_jz]; simp))]
  -- the ifs in front of the if-exit
  have hdone0 : DoneOK o1 [exitIf pj cond] := by
    refine AllS.cons ⟨hpj, by simp [Node.cls], ?_⟩ AllS.nil
    intro q' cd a' b' e'
    simp only [Node.ifThen.injEq] at e'
    exact e'.1.symm
  have hT1 : RestOK (o1 + P.sizes b1) (jzStmt (o1 + P.sizes b1 + csz2) cond2 (o1 + P.sizes b1 + csz2 + 3 + P.sizes t + 3) :: (emit true (o1 + P.sizes b1 + csz2 + 3) t ++
      jumpStmt (o1 + P.sizes b1 + csz2 + 3 + P.sizes t) X :: emit true (o1 + P.sizes b1 + csz2 + 3 + P.sizes t + 3) b2)) := by
    refine AllS.cons ⟨by omega, by simp [Node.cls], by intro jp cd a' e'; cases e'; rfl⟩ ?_
    refine AllS.append ((restOK_emit _ t hwft).mono (by omega)) (AllS.cons ⟨by omega, by simp [Node.cls], by intro jp cd a' e'; cases e'⟩
      ((restOK_emit _ b2 hwf2).mono (by omega)))
  have hk1 := condJzs_emitK k IH d' (Node.stmt pj (Node.jz pj cond a0) :: (emit true o1 b1 ++ jzStmt (o1 + P.sizes b1 + csz2) cond2 (o1 + P.sizes b1 + csz2 + 3 + P.sizes t + 3) ::
      (emit true (o1 + P.sizes b1 + csz2 + 3) t ++ jumpStmt (o1 + P.sizes b1 + csz2 + 3 + P.sizes t) X :: emit true (o1 + P.sizes b1 + csz2 + 3 + P.sizes t + 3) b2))).length (some idx)
    [.jz (o1 + P.sizes b1 + csz2) cond2 (o1 + P.sizes b1 + csz2 + 3 + P.sizes t + 3)] b1 o1 [exitIf pj cond] _ (by omega) hwf1 hd1 hdone0 hT1 (fun e he => by cases he; omega)
    (by simp)
  have hshape : Node.stmt pj (Node.ifThen pj (Node.unary (S "not") pj cond) [exitRepeatStmt pj] []) ::
      (emit true o1 b1 ++ jzStmt (o1 + P.sizes b1 + csz2) cond2 (o1 + P.sizes b1 + csz2 + 3 + P.sizes t + 3) :: (emit true (o1 + P.sizes b1 + csz2 + 3) t ++ jumpStmt (o1 + P.sizes b1 + csz2 + 3 + P.sizes t) X :: emit true (o1 + P.sizes b1 + csz2 + 3 + P.sizes t + 3) b2)) =
      [exitIf pj cond] ++ (emit true o1 b1 ++ (jzStmt (o1 + P.sizes b1 + csz2) cond2 (o1 + P.sizes b1 + csz2 + 3 + P.sizes t + 3) :: (emit true (o1 + P.sizes b1 + csz2 + 3) t ++
        jumpStmt (o1 + P.sizes b1 + csz2 + 3 + P.sizes t) X :: emit true (o1 + P.sizes b1 + csz2 + 3 + P.sizes t + 3) b2))) := rfl
  rw [hshape, hk1]
  -- the if-exit itself
  have hdone1 : DoneOK (o1 + P.sizes b1) ([exitIf pj cond] ++ tgtC o1 b1) :=
    AllS.append (hdone0.mono (by omega)) (AllS.mono (tgtC_inv o1 b1 hwf1) fun _ _ hh => ⟨hh.2.1, hh.2.2.1, hh.2.2.2.2⟩)
  have hR2 : RestOK (o1 + P.sizes b1 + csz2 + 3 + P.sizes t + 3) (emit true (o1 + P.sizes b1 + csz2 + 3 + P.sizes t + 3) b2) := restOK_emit _ b2 hwf2
  have hXinv : AllS (EmitInv (o1 + P.sizes b1 + csz2 + 3) (o1 + P.sizes b1 + csz2 + 3 + P.sizes t + 3)) (emit true (o1 + P.sizes b1 + csz2 + 3) t) := it.mono fun _ _ hh => hh.mono (by omega) (by omega)
  have hL2 : [exitIf pj cond] ++ (tgtC o1 b1 ++ (jzStmt (o1 + P.sizes b1 + csz2) cond2 (o1 + P.sizes b1 + csz2 + 3 + P.sizes t + 3) :: (emit true (o1 + P.sizes b1 + csz2 + 3) t ++ jumpStmt (o1 + P.sizes b1 + csz2 + 3 + P.sizes t) X :: emit true (o1 + P.sizes b1 + csz2 + 3 + P.sizes t + 3) b2))) =
      ([exitIf pj cond] ++ tgtC o1 b1) ++ Node.stmt (o1 + P.sizes b1 + csz2) (.jz (o1 + P.sizes b1 + csz2) cond2 (o1 + P.sizes b1 + csz2 + 3 + P.sizes t + 3)) :: ((emit true (o1 + P.sizes b1 + csz2 + 3) t ++ [jumpStmt (o1 + P.sizes b1 + csz2 + 3 + P.sizes t) X]) ++ emit true (o1 + P.sizes b1 + csz2 + 3 + P.sizes t + 3) b2) := by
    simp [jzStmt]
  rw [hL2]
  have h1 := ifScan_split (.jz (o1 + P.sizes b1 + csz2) cond2 (o1 + P.sizes b1 + csz2 + 3 + P.sizes t + 3)) (.ifThen (o1 + P.sizes b1 + csz2) cond2 [] []) (o1 + P.sizes b1 + csz2) (o1 + P.sizes b1 + csz2 + 3 + P.sizes t + 3) ([exitIf pj cond] ++ tgtC o1 b1)
    (emit true (o1 + P.sizes b1 + csz2 + 3) t ++ [jumpStmt (o1 + P.sizes b1 + csz2 + 3 + P.sizes t) X]) (emit true (o1 + P.sizes b1 + csz2 + 3 + P.sizes t + 3) b2) (o1 + P.sizes b1 + csz2) (.jz (o1 + P.sizes b1 + csz2) cond2 (o1 + P.sizes b1 + csz2 + 3 + P.sizes t + 3))
    (AllS.mono hdone1 fun _ _ hh => ⟨pyEq_of_cls_ne (by simpa [Node.cls] using hh.2.1), by have := hh.1; omega, by have := hh.1; omega⟩)
    (by rw [pyEq_jz]; simp)
    (AllS.append (AllS.mono hXinv fun _ _ hh => ⟨pyEq_jz_false _ _ hh.2.2.2.1 (by have := hh.1; omega), by have := hh.1; omega,
      by have := hh.2.1; omega⟩) (allS_jump (o1 + P.sizes b1 + csz2 + 3 + P.sizes t) X ⟨pyEq_of_cls_ne (by simp [Node.cls]), by omega, by omega⟩))
    (hR2.ifHead _ _ _ _ (by omega) (by omega))
  have h2 : pyRemoveAll (([exitIf pj cond] ++ tgtC o1 b1) ++ Node.stmt (o1 + P.sizes b1 + csz2) (.ifThen (o1 + P.sizes b1 + csz2) cond2 [] []) ::
      ((emit true (o1 + P.sizes b1 + csz2 + 3) t ++ [jumpStmt (o1 + P.sizes b1 + csz2 + 3 + P.sizes t) X]) ++ emit true (o1 + P.sizes b1 + csz2 + 3 + P.sizes t + 3) b2)) (emit true (o1 + P.sizes b1 + csz2 + 3) t ++ [jumpStmt (o1 + P.sizes b1 + csz2 + 3 + P.sizes t) X]) =
      .ok (([exitIf pj cond] ++ tgtC o1 b1) ++ Node.stmt (o1 + P.sizes b1 + csz2) (.ifThen (o1 + P.sizes b1 + csz2) cond2 [] []) :: emit true (o1 + P.sizes b1 + csz2 + 3 + P.sizes t + 3) b2) := by
    have hXall : AllS (fun p _ => (o1 + P.sizes b1 + csz2) < p) (emit true (o1 + P.sizes b1 + csz2 + 3) t ++ [jumpStmt (o1 + P.sizes b1 + csz2 + 3 + P.sizes t) X]) :=
      AllS.append (AllS.mono hXinv fun _ _ hh => by have := hh.1; omega) (allS_jump _ _ (by omega))
    have := pyRemoveAll_block (([exitIf pj cond] ++ tgtC o1 b1) ++ [Node.stmt (o1 + P.sizes b1 + csz2) (.ifThen (o1 + P.sizes b1 + csz2) cond2 [] [])]) _ (emit true (o1 + P.sizes b1 + csz2 + 3 + P.sizes t + 3) b2)
      (AllS.append (allS_true hdone1) (AllS.cons trivial AllS.nil)) (allS_true hXall)
      (by
        intro a ha x hx
        obtain ⟨px, cx, rfl, hpx⟩ := hXall x hx
        rcases List.mem_append.1 ha with h | h
        · obtain ⟨pa, ca, rfl, hpa⟩ := hdone1 a h
          have := hpa.1; simp [Node.pos]; omega
        · simp only [List.mem_singleton] at h; subst h
          simp [Node.pos]; omega)
    simpa using this
  have h3 : breakDetect (emit true (o1 + P.sizes b1 + csz2 + 3) t ++ [jumpStmt (o1 + P.sizes b1 + csz2 + 3 + P.sizes t) X]) (some idx) = .ok (emit true (o1 + P.sizes b1 + csz2 + 3) t ++ [jumpStmt (o1 + P.sizes b1 + csz2 + 3 + P.sizes t) X]) :=
    breakDetect_snoc _ _ _ (allS_true hXinv) (fun e he p jp ja hm => by
      cases he
      have := (mem_stmt_of_allS hXinv hm).2.2.2.2 jp ja rfl
      omega)
  have h4 : (emit true (o1 + P.sizes b1 + csz2 + 3) t ++ [jumpStmt (o1 + P.sizes b1 + csz2 + 3 + P.sizes t) X]).length <
      (Node.stmt pj (Node.jz pj cond a0) :: (emit true o1 b1 ++ jzStmt (o1 + P.sizes b1 + csz2) cond2 (o1 + P.sizes b1 + csz2 + 3 + P.sizes t + 3) :: (emit true (o1 + P.sizes b1 + csz2 + 3) t ++ jumpStmt (o1 + P.sizes b1 + csz2 + 3 + P.sizes t) X :: emit true (o1 + P.sizes b1 + csz2 + 3 + P.sizes t + 3) b2))).length := by
    simp only [List.length_append, List.length_cons, List.length_nil]; omega
  have h5 : condDetectD d' (emit true (o1 + P.sizes b1 + csz2 + 3) t ++ [jumpStmt (o1 + P.sizes b1 + csz2 + 3 + P.sizes t) X]) (some idx) = .ok (tgtC (o1 + P.sizes b1 + csz2 + 3) t ++ [jumpStmt (o1 + P.sizes b1 + csz2 + 3 + P.sizes t) X]) := by
    have := IH t hwt true d' (o1 + P.sizes b1 + csz2 + 3) (some idx) [] [] [jumpStmt (o1 + P.sizes b1 + csz2 + 3 + P.sizes t) X] hwft hdt HdrOK.none (Or.inr ⟨_, _, rfl, by omega⟩)
      (fun e he => by cases he; omega)
    simpa using this
  have hne : (tgtC (o1 + P.sizes b1 + csz2 + 3) t ++ [jumpStmt (o1 + P.sizes b1 + csz2 + 3 + P.sizes t) X]).isEmpty = false := by simp
  have h6 : pyGet (tgtC (o1 + P.sizes b1 + csz2 + 3) t ++ [jumpStmt (o1 + P.sizes b1 + csz2 + 3 + P.sizes t) X]) (-1) = .ok (.stmt (o1 + P.sizes b1 + csz2 + 3 + P.sizes t) (.jump (o1 + P.sizes b1 + csz2 + 3 + P.sizes t) X)) := pyGet_last _ _
  rw [condJzs_if_exit d' _ (o1 + P.sizes b1 + csz2) cond2 (o1 + P.sizes b1 + csz2 + 3 + P.sizes t + 3) idx [] _ _ _ _ _ (o1 + P.sizes b1 + csz2 + 3 + P.sizes t) (o1 + P.sizes b1 + csz2 + 3 + P.sizes t) X (by omega) h1 h2 h3 h4 h5 hne h6 hX, condJzs_nil,
    finalizeIf_split _ _ _ _ _ _ (hdone1.noPh _ (by omega)) (hR2.noPh _), hb2eq]
  simp

mutual
theorem mapRep1_emit (k : Nat) (IH : ∀ ps, P.weights ps < k → MainAt ps) (ld : Bool) (d : Nat) (r : Option Int) :
    (x : P) → (o : Int) → x.weight ≤ k → x.wf = true → x.depth ≤ d → (emit1 ld o x).mapM (repStep d r) = .ok (emit1 true o x)
  | .simple s, o, _, h, _ => by
    obtain ⟨_, h2⟩ := wf_simple.1 h
    rw [emit1_simple, emit1_simple]
    exact mapM_cons_ok (repStep_other d r _ _ (simpleCode_spec h2).2.2.2.1 (simpleCode_spec h2).2.2.2.2) mapM_nil_ok
  | .skip n, o, _, _, _ => by rw [emit1_skip, emit1_skip]; rfl
  | .ifThen csz cond t e, o, hw, h, hd => by
    obtain ⟨ht, he, _⟩ := wf_if.1 h
    simp only [P.weight] at hw
    simp only [P.depth] at hd
    have h1 := mapReps_emit k IH ld d r t (o + csz + 3) (by omega) ht (by omega)
    have h2 := mapReps_emit k IH ld d r e (o + csz + 3 + P.sizes t + 3) (by omega) he (by omega)
    by_cases hemp : e = []
    · subst hemp
      rw [emit1_if_noelse, emit1_if_noelse]
      exact mapM_cons_ok (repStep_jzStmt ..) h1
    · rw [emit1_if_else _ _ _ _ _ _ hemp, emit1_if_else _ _ _ _ _ _ hemp]
      exact mapM_cons_ok (repStep_jzStmt ..) (mapM_append_ok h1 (mapM_cons_ok (repStep_jumpStmt ..) h2))
  | .loop csz cond body, o, hw, h, hd => by
    simp only [P.weight] at hw
    simp only [P.depth] at hd
    obtain ⟨d', rfl⟩ : ∃ d', d = d' + 1 := ⟨d - 1, by omega⟩
    have hb := wf_loop.1 h
    cases ld with
    | true =>
      rw [emit1_loop_done]
      refine mapM_cons_ok ?_ mapM_nil_ok
      apply repStep_repeat
      apply clean_id
      exact CleanL.cons_plain (c := .ifThen (o + csz) (.unary (S "not") (o + csz) cond) [exitRepeatStmt (o + csz)] [])
        (by simp [Node.cls]) (by simp [Node.cls]) (by simp [Node.cls]) (tgtC_clean _ body hb d' (by omega))
    | false =>
      rw [emit1_loop_raw, emit1_loop_done]
      refine mapM_cons_ok ?_ mapM_nil_ok
      apply repStep_repeat
      have := IH body (by omega) false d' (o + csz + 3) (some (o + csz + 3 + P.sizes body))
        [jzStmt (o + csz) cond (o + csz + 3 + P.sizes body + 2)] [exitIf (o + csz) cond] [] hb (by omega)
        (HdrOK.hdr (o + csz) cond (o + csz + 3 + P.sizes body) _ rfl (by omega) (by omega)) (Or.inl rfl)
        (fun e he => by cases he; omega)
      simpa using this
  | .loopX csz cond b1 csz2 cond2 t b2, o, hw, h, hd => by
    simp only [P.weight] at hw
    simp only [P.depth] at hd
    obtain ⟨d', rfl⟩ : ∃ d', d = d' + 1 := ⟨d - 1, by omega⟩
    obtain ⟨hb1, ht, hb2, hno⟩ := wf_loopX.1 h
    cases ld with
    | true =>
      simp only [emit1, if_true]
      refine mapM_cons_ok ?_ mapM_nil_ok
      apply repStep_repeat
      apply clean_id
      refine CleanL.cons_plain (c := .ifThen (o + csz) (.unary (S "not") (o + csz) cond) [exitRepeatStmt (o + csz)] [])
        (by simp [Node.cls]) (by simp [Node.cls]) (by simp [Node.cls]) ?_
      exact CleanL.append (tgtC_clean _ b1 hb1 d' (by omega))
        (CleanL.cons_plain (by simp [Node.cls]) (by simp [Node.cls]) (by simp [Node.cls]) (tgtC_clean _ b2 hb2 d' (by omega)))
    | false =>
      simp only [emit1, Bool.false_eq_true, if_false, if_true]
      refine mapM_cons_ok ?_ mapM_nil_ok
      apply repStep_repeat
      exact bodyX k IH d' b1 t b2 csz2 cond cond2 (o + csz) (o + csz + 3) _ _ _ (by omega) (by omega) hb1 ht hb2 hno (by omega) (by omega)
        (by omega) (by omega) (by omega) (by omega)
        (mapReps_emit k IH false d' _ b1 _ (by omega) hb1 (by omega))
        (mapReps_emit k IH false d' _ t _ (by omega) ht (by omega))
        (mapReps_emit k IH false d' _ b2 _ (by omega) hb2 (by omega))
theorem mapReps_emit (k : Nat) (IH : ∀ ps, P.weights ps < k → MainAt ps) (ld : Bool) (d : Nat) (r : Option Int) :
    (ps : List P) → (o : Int) → P.weights ps ≤ k → P.wfs ps = true → P.depths ps ≤ d →
      (emit ld o ps).mapM (repStep d r) = .ok (emit true o ps)
  | [], o, _, _, _ => by rw [emit_nil, emit_nil]; rfl
  | x :: ps, o, hw, h, hd => by
    obtain ⟨hx, hps⟩ := wfs_cons.1 h
    rw [weights_cons] at hw
    rw [depths_cons] at hd
    rw [emit_cons, emit_cons]
    exact mapM_append_ok (mapRep1_emit k IH ld d r x o (by omega) hx (by omega))
      (mapReps_emit k IH ld d r ps (o + x.size) (by omega) hps (by omega))
end


/-! ### the whole function on one list -/

theorem mainAt_step (k : Nat) (IH : ∀ ps, P.weights ps < k → MainAt ps) (ps : List P) (hw : P.weights ps ≤ k) : MainAt ps := by
  intro ld d o r H H' T hwf hd hH hT hrb
  -- part 1 of the first loop
  have hM : mapRep d (H ++ (emit ld o ps ++ T)) r = .ok (H ++ (emit true o ps ++ T)) := by
    rw [mapRep_eq]
    refine mapM_append_ok ?_ (mapM_append_ok (mapReps_emit k IH ld d r ps o hw hwf hd) ?_)
    · cases hH with
      | none => rfl
      | hdr pj cond e a _ _ _ => exact mapM_cons_ok (repStep_jzStmt ..) mapM_nil_ok
    · rcases hT with rfl | ⟨q, b, rfl, _⟩
      · rfl
      · exact mapM_cons_ok (repStep_jumpStmt ..) mapM_nil_ok
  have hlenEq : (H ++ (emit ld o ps ++ T)).length = (H ++ (emit true o ps ++ T)).length := by
    simp only [List.length_append, emit_length]
  -- part 2: the scan
  obtain ⟨J0, s0, hs0, hN0, hJ0, hstep⟩ : ∃ (J0 : List Node) (s0 : ScanSt), H.foldlM (scanStep r) {} = .ok s0 ∧ Neutral s0 o ∧
      s0.jzs = J0 ∧ (∀ rest R, DoneOK o H' → (H' ++ R).length ≤ (H ++ R).length →
        condJzs d (H ++ R).length (J0 ++ rest) (H ++ R) r = condJzs d (H ++ R).length rest (H' ++ R) r) := by
    cases hH with
    | none => exact ⟨[], {}, rfl, Neutral.init o [], rfl, fun rest R _ _ => rfl⟩
    | hdr pj cond e a hr hea hpj =>
      subst hr
      have st := scanStep_jz (some e) {} pj pj cond a (fun a' ha' => by cases ha') (by simp [resetSt, PrevOK])
      have hsel : selAddr (some e) a = none := by simp [selAddr, hea]
      rw [hsel] at st
      refine ⟨[.jz pj cond a], ⟨none, (resetSt {}).prev, false, ({} : ScanSt).jzs ++ [.jz pj cond a]⟩, ?_, ?_, rfl, ?_⟩
      · rw [jzStmt, foldlM_cons_ok st]; rfl
      · constructor
        · intro a' ha'; cases ha'
        · simp [resetSt, PrevOK]
      · intro rest R _ _
        simp only [List.cons_append, List.nil_append, jzStmt]
        rw [condJzs_exit d _ pj cond a e rest _ _ hea (replaceFirstCode_head _ _ pj _ _ (by rw [pyEq_jz]; simp))]
        rfl
  obtain ⟨s1, hs1, hN1, hJ1⟩ := scan_emit r ps o s0 hwf hrb hN0
  obtain ⟨s2, hs2, hJ2⟩ : ∃ s2, T.foldlM (scanStep r) s1 = .ok s2 ∧ s2.jzs = s1.jzs := by
    rcases hT with rfl | ⟨q, b, rfl, hq⟩
    · exact ⟨s1, rfl, rfl⟩
    · refine ⟨resetSt s1, ?_, resetSt_jzs s1⟩
      have := scan_plain_step r s1 _ q (.jump q b) hN1 hq (by simp [Node.cls])
      rw [jumpStmt, foldlM_cons_ok this]; rfl
  have hS : (H ++ (emit true o ps ++ T)).foldlM (scanStep r) {} = .ok s2 := by
    rw [foldlM_append_ok hs0, foldlM_append_ok hs1, hs2]
  have hdoneH : DoneOK o H' := by
    cases hH with
    | none => exact AllS.nil
    | hdr pj cond e a _ _ hpj =>
      refine AllS.cons ⟨hpj, by simp [Node.cls], ?_⟩ AllS.nil
      intro q cd a' b' e'
      simp only [Node.ifThen.injEq] at e'
      exact e'.1.symm
  have hlenH : ∀ R, (H' ++ R).length ≤ (H ++ R).length := by
    intro R
    cases hH with
    | none => exact Nat.le_refl _
    | hdr pj cond e a _ _ _ => simp
  rw [condDetectD_eq, hM]
  show ((H ++ (emit true o ps ++ T)).foldlM (scanStep r) {}).bind _ = _
  rw [hS]
  show condJzs d (H ++ (emit ld o ps ++ T)).length s2.jzs (H ++ (emit true o ps ++ T)) r = _
  rw [hJ2, hJ1, hJ0, hlenEq, hstep _ _ hdoneH (hlenH _)]
  exact condJzs_emit k IH d _ r ps o H' T hw hwf hd hdoneH hT hrb (hlenH _)

/-- `condition_detect_in_statements` reconstructs every well-formed skeleton (induction on the number of constructs) -/
theorem mainAt_all : ∀ (k : Nat) (ps : List P), P.weights ps < k → MainAt ps := by
  intro k
  induction k with
  | zero => intro ps h; exact absurd h (Nat.not_lt_zero _)
  | succ k ih => exact fun ps h => mainAt_step k ih ps (by omega)

theorem mainAt (ps : List P) : MainAt ps := mainAt_all (P.weights ps + 1) ps (by omega)

end Drx.LinkFlow
