/-
  C03 link, layer F3 (loop_detect): on the nesting `tgtC` that `condition_detect` produces for a lowered source skeleton of the
  class `Src.oks`, `loop_detect` produces the source nesting `tgtL`: every loop with its own header, the separate statements
  `set v = a` / step / `set v = getAt(…)` absorbed into the header, every other statement once and in order.
-/
import DrxProofs.LinkFlowRec
namespace Drx.LinkFlow
open Drx Drx.Lscr

/-! ### lowering: sizes and statement lists -/

theorem sizes_append (a b : List P) : P.sizes (a ++ b) = P.sizes a + P.sizes b := by
  induction a with
  | nil => simp [P.sizes]
  | cons x a ih => simp only [List.cons_append, P.sizes, ih]; omega

theorem tgtC_append (o : Int) (a b : List P) : tgtC o (a ++ b) = tgtC o a ++ tgtC (o + P.sizes a) b := by
  induction a generalizing o with
  | nil => simp [tgtC, P.sizes]
  | cons x a ih =>
    have e : o + (x.size : Int) + (P.sizes a : Int) = o + ((x.size + P.sizes a : Nat) : Int) := by push_cast; omega
    simp only [List.cons_append, tgtC, P.sizes, ih, List.append_assoc, e]

theorem lower_cons (x : Src) (xs : List Src) : lower (x :: xs) = lower1 x ++ lower xs := by simp only [lower]
theorem lower_nil : lower [] = [] := by simp only [lower]

theorem tgtL_cons (o : Int) (x : Src) (xs : List Src) : tgtL o (x :: xs) = tgtL1 o x ++ tgtL (o + x.size) xs := by simp only [tgtL]
theorem tgtL_nil (o : Int) : tgtL o [] = [] := by simp only [tgtL]

theorem tgtC_lower_cons (o : Int) (x : Src) (xs : List Src) :
    tgtC o (lower (x :: xs)) = tgtC o (lower1 x) ++ tgtC (o + x.size) (lower xs) := by
  rw [lower_cons, tgtC_append]; rfl

theorem size_simple (s : Smp) : (Src.simple s).size = s.sz := by simp [Src.size, lower1, P.sizes, P.size]
theorem size_ifThen (csz : Nat) (cond : Node) (t e : List Src) :
    (Src.ifThen csz cond t e).size = (P.ifThen csz cond (lower t) (lower e)).size := by simp [Src.size, lower1, P.sizes]
theorem size_while (csz : Nat) (cond : Node) (body : List Src) :
    (Src.loop .while_ csz cond body).size = csz + 3 + P.sizes (lower body) + 2 := by simp [Src.size, lower1, P.sizes, P.size]
theorem size_with (pre incr : Smp) (csz : Nat) (cond : Node) (body : List Src) :
    (Src.loop (.with_ pre incr) csz cond body).size = pre.sz + (csz + 3 + (P.sizes (lower body) + incr.sz) + 2) := by
  simp [Src.size, lower1, P.sizes, P.size, sizes_append]
theorem size_in (presz : Nat) (bp : Smp) (incrsz postsz csz : Nat) (cond : Node) (body : List Src) :
    (Src.loop (.in_ presz bp incrsz postsz) csz cond body).size =
      presz + (csz + 3 + (bp.sz + (P.sizes (lower body) + incrsz)) + 2) + postsz := by
  simp [Src.size, lower1, P.sizes, P.size, sizes_append]; omega

theorem tgtC_lower1_simple (o : Int) (s : Smp) : tgtC o (lower1 (.simple s)) = [.stmt (o + s.off) s.code] := by
  simp [lower1, tgtC, tgtC1]

theorem tgtC_lower1_if (o : Int) (csz : Nat) (cond : Node) (t e : List Src) :
    tgtC o (lower1 (.ifThen csz cond t e)) =
      [.stmt (o + csz) (.ifThen (o + csz) cond (tgtC (o + csz + 3) (lower t)) (tgtC (o + csz + 3 + P.sizes (lower t) + 3) (lower e)))] := by
  simp [lower1, tgtC, tgtC1]

theorem tgtC_lower1_while (o : Int) (csz : Nat) (cond : Node) (body : List Src) :
    tgtC o (lower1 (.loop .while_ csz cond body)) =
      [.stmt (o + csz + 3 + P.sizes (lower body)) (rawLoop o (o + csz + 3 + P.sizes (lower body))
        (exitIf (o + csz) cond :: tgtC (o + csz + 3) (lower body)))] := by
  simp [lower1, tgtC, tgtC1]

theorem tgtC_lower1_with (o : Int) (pre incr : Smp) (csz : Nat) (cond : Node) (body : List Src) :
    tgtC o (lower1 (.loop (.with_ pre incr) csz cond body)) =
      [.stmt (o + pre.off) pre.code,
       .stmt (o + pre.sz + csz + 3 + (P.sizes (lower body) + incr.sz)) (rawLoop (o + pre.sz) (o + pre.sz + csz + 3 + (P.sizes (lower body) + incr.sz))
        (exitIf (o + pre.sz + csz) cond :: (tgtC (o + pre.sz + csz + 3) (lower body) ++
          [.stmt (o + pre.sz + csz + 3 + P.sizes (lower body) + incr.off) incr.code])))] := by
  simp [lower1, tgtC, tgtC1, tgtC_append, sizes_append, P.sizes, P.size]

theorem tgtC_lower1_in (o : Int) (presz : Nat) (bp : Smp) (incrsz postsz csz : Nat) (cond : Node) (body : List Src) :
    tgtC o (lower1 (.loop (.in_ presz bp incrsz postsz) csz cond body)) =
      [.stmt (o + presz + csz + 3 + (bp.sz + (P.sizes (lower body) + incrsz))) (rawLoop (o + presz) (o + presz + csz + 3 + (bp.sz + (P.sizes (lower body) + incrsz)))
        (exitIf (o + presz + csz) cond :: .stmt (o + presz + csz + 3 + bp.off) bp.code :: tgtC (o + presz + csz + 3 + bp.sz) (lower body)))] := by
  simp [lower1, tgtC, tgtC1, tgtC_append, sizes_append, P.sizes, P.size]

/-! ### the class predicate, unfolded -/

theorem oks_cons {prev : Option Node} {o : Int} {x : Src} {xs : List Src} :
    Src.oks prev o (x :: xs) = true ↔ x.ok prev o = true ∧ Src.oks (lastOr (tgtL1 o x) prev) (o + x.size) xs = true := by
  simp [Src.oks]

theorem ok_simple {prev : Option Node} {o : Int} {s : Smp} :
    (Src.simple s).ok prev o = true ↔ s.off < s.sz ∧ simpleCode s.code = true := by simp [Src.ok]

theorem ok_if {prev : Option Node} {o : Int} {csz : Nat} {cond : Node} {t e : List Src} :
    (Src.ifThen csz cond t e).ok prev o = true ↔
      Src.oks none (o + csz + 3) t = true ∧ Src.oks none (o + csz + 3 + P.sizes (lower t) + 3) e = true := by simp [Src.ok]

theorem ok_while {prev : Option Node} {o : Int} {csz : Nat} {cond : Node} {body : List Src} :
    (Src.loop .while_ csz cond body).ok prev o = true ↔ Src.oks none (o + csz + 3) body = true ∧
      isRepeatWith (roOf cond (tgtC (o + csz + 3) (lower body))) prev = .ok false ∧
      isRepeatWithIn (roOf cond (tgtC (o + csz + 3) (lower body))) = .ok false := by
  simp only [Src.ok, Bool.and_eq_true, and_assoc]
  constructor
  · rintro ⟨h1, h2, h3⟩; exact ⟨h1, saysNo_spec h2, saysNo_spec h3⟩
  · rintro ⟨h1, h2, h3⟩; exact ⟨h1, by rw [h2]; rfl, by rw [h3]; rfl⟩

theorem ok_with {prev : Option Node} {o : Int} {pre incr : Smp} {csz : Nat} {cond : Node} {body : List Src} :
    (Src.loop (.with_ pre incr) csz cond body).ok prev o = true ↔ pre.off < pre.sz ∧ incr.off < incr.sz ∧
      simpleCode pre.code = true ∧ simpleCode incr.code = true ∧ Src.oks none (o + pre.sz + csz + 3) body = true ∧
      (withParts cond pre.code incr.code).isSome = true ∧
      isRepeatWithIn (roOf cond (tgtC (o + pre.sz + csz + 3) (lower body))) = .ok false := by
  simp only [Src.ok, Bool.and_eq_true, and_assoc, decide_eq_true_eq]
  constructor
  · rintro ⟨h1, h2, h3, h4, h5, h6, h7⟩; exact ⟨h1, h2, h3, h4, h5, h6, saysNo_spec h7⟩
  · rintro ⟨h1, h2, h3, h4, h5, h6, h7⟩; exact ⟨h1, h2, h3, h4, h5, h6, by rw [h7]; rfl⟩

theorem ok_in {prev : Option Node} {o : Int} {presz : Nat} {bp : Smp} {incrsz postsz csz : Nat} {cond : Node} {body : List Src} :
    (Src.loop (.in_ presz bp incrsz postsz) csz cond body).ok prev o = true ↔ bp.off < bp.sz ∧ simpleCode bp.code = true ∧
      Src.oks none (o + presz + csz + 3 + bp.sz) body = true ∧ (inParts cond bp.code).isSome = true ∧
      isRepeatWith (roOf cond (.stmt (o + presz + csz + 3 + bp.off) bp.code :: tgtC (o + presz + csz + 3 + bp.sz) (lower body))) prev
        = .ok false := by
  simp only [Src.ok, Bool.and_eq_true, and_assoc, decide_eq_true_eq]
  constructor
  · rintro ⟨h1, h2, h3, h4, h5⟩; exact ⟨h1, h2, h3, h4, saysNo_spec h5⟩
  · rintro ⟨h1, h2, h3, h4, h5⟩; exact ⟨h1, h2, h3, h4, by rw [h5]; rfl⟩

/-! ### what the walk returns: the statements `set v = a` of the `repeat with` loops are still in the list -/

def preStmts (o : Int) : Src → List Node
  | .loop (.with_ pre _) _ _ _ => [.stmt (o + pre.off) pre.code]
  | _ => []

def walked (o : Int) : List Src → List Node
  | [] => []
  | x :: xs => preStmts o x ++ (tgtL1 o x ++ walked (o + x.size) xs)

def rems (o : Int) : List Src → List Node
  | [] => []
  | x :: xs => preStmts o x ++ rems (o + x.size) xs

/-- top-level statements of the final tree lie inside the construct -/
theorem tgtL1_bound {prev : Option Node} {o : Int} (x : Src) (h : x.ok prev o = true) :
    AllS (fun p _ => o ≤ p ∧ p < o + x.size) (tgtL1 o x) := by
  cases x with
  | simple s =>
    obtain ⟨h1, _⟩ := ok_simple.1 h
    simp only [tgtL1, size_simple]
    exact AllS.cons ⟨by omega, by omega⟩ AllS.nil
  | ifThen csz cond t e =>
    simp only [tgtL1, size_ifThen, size_if]
    exact AllS.cons ⟨by omega, by omega⟩ AllS.nil
  | loop hd csz cond body =>
    cases hd with
    | while_ =>
      simp only [tgtL1, size_while]
      exact AllS.cons ⟨by omega, by push_cast; omega⟩ AllS.nil
    | with_ pre incr =>
      simp only [tgtL1, size_with]
      split
      · exact AllS.cons ⟨by omega, by push_cast; omega⟩ AllS.nil
      · exact AllS.nil
    | in_ presz bp incrsz postsz =>
      simp only [tgtL1, size_in]
      split
      · exact AllS.cons ⟨by omega, by push_cast; omega⟩ AllS.nil
      · exact AllS.nil

theorem remove_walked : ∀ (ss : List Src) (o : Int) (prev : Option Node) (A : List Node), Src.oks prev o ss = true →
    AllS (fun p _ => p < o) A → pyRemoveAll (A ++ walked o ss) (rems o ss) = .ok (A ++ tgtL o ss) := by
  intro ss
  induction ss with
  | nil => intro o prev A _ _; simp [walked, rems, tgtL_nil, pyRemoveAll_nil]
  | cons x xs ih =>
    intro o prev A h hA
    obtain ⟨hx, hxs⟩ := oks_cons.1 h
    have hb := tgtL1_bound x hx
    have hA' : AllS (fun p _ => p < o + x.size) (A ++ tgtL1 o x) :=
      AllS.append (AllS.mono hA fun _ _ hh => by omega) (AllS.mono hb fun _ _ hh => hh.2)
    have ih' := ih (o + x.size) _ (A ++ tgtL1 o x) hxs hA'
    simp only [walked, rems, tgtL_cons]
    by_cases hw : ∃ pre incr csz cond body, x = .loop (.with_ pre incr) csz cond body
    · obtain ⟨pre, incr, csz, cond, body, rfl⟩ := hw
      simp only [preStmts, List.cons_append, List.nil_append]
      rw [pyRemoveAll_cons, pyRemove_append A _ _ (fun a ha => by
        obtain ⟨pa, ca, rfl, hpa⟩ := hA a ha
        rw [pyEq_stmt]; simp; omega) (by rw [pyEq_stmt]; simp)]
      show pyRemoveAll (A ++ (tgtL1 o _ ++ walked _ xs)) (rems _ xs) = _
      rw [← List.append_assoc, ih', List.append_assoc]
    · have hp : preStmts o x = [] := by
        cases x with
        | loop hd csz cond body =>
          cases hd with
          | with_ pre incr => exact absurd ⟨pre, incr, csz, cond, body, rfl⟩ hw
          | _ => rfl
        | _ => rfl
      rw [hp, List.nil_append, List.nil_append, ← List.append_assoc, ih', List.append_assoc]

/-! ### the walk -/

theorem remOf_false (prev : Option Node) : remOf false prev = [] := by cases prev <;> rfl

theorem rawLoop_toNode (s idx : Int) (B : List Node) :
    rawLoop s idx B = (Ro.mk s idx (.leaf .const (.s (S "TRUE")) s) B (S "while") .none (.s []) [] .none).toNode := rfl

theorem loopWalk_nil (prev : Option Node) : loopWalk [] prev = .ok ([], []) := by rw [loopWalk.eq_1]

mutual
theorem walk1 : (x : Src) → ∀ (o : Int) (prev : Option Node) (rest l rem : List Node), x.ok prev o = true →
    loopWalk rest (lastOr (tgtL1 o x) prev) = .ok (l, rem) →
    loopWalk (tgtC o (lower1 x) ++ rest) prev = .ok (preStmts o x ++ (tgtL1 o x ++ l), preStmts o x ++ rem)
  | .simple s, o, prev, rest, l, rem, h, hr => by
    obtain ⟨_, h2⟩ := ok_simple.1 h
    rw [tgtC_lower1_simple]
    exact loopWalk_simple _ _ rest l rem prev h2 hr
  | .ifThen csz cond t e, o, prev, rest, l, rem, h, hr => by
    obtain ⟨ht, he⟩ := ok_if.1 h
    rw [tgtC_lower1_if]
    have h1 := loopDetect_of_walk _ _ _ _ (walks t (o + csz + 3) none ht)
      (by simpa using remove_walked t (o + csz + 3) none [] ht AllS.nil)
    have h2 := loopDetect_of_walk _ _ _ _ (walks e (o + csz + 3 + P.sizes (lower t) + 3) none he)
      (by simpa using remove_walked e (o + csz + 3 + P.sizes (lower t) + 3) none [] he AllS.nil)
    exact loopWalk_if _ _ cond _ _ _ _ rest l rem prev h1 h2 hr
  | .loop .while_ csz cond body, o, prev, rest, l, rem, h, hr => by
    obtain ⟨hb, hW, hI⟩ := ok_while.1 h
    rw [tgtC_lower1_while, rawLoop_toNode]
    have h2 := loopDetect_of_walk _ _ _ _ (walks body (o + csz + 3) none hb)
      (by simpa using remove_walked body (o + csz + 3) none [] hb AllS.nil)
    have := loopWalk_repeat (o + csz + 3 + P.sizes (lower body)) _ _ false prev rest _ l rem
      (rewriteRepeat_while o (o + csz + 3 + P.sizes (lower body)) (o + csz) (.leaf .const (.s (S "TRUE")) o) cond
        (tgtC (o + csz + 3) (lower body)) (S "while") .none (.s []) [] .none prev hW hI)
      (by simp only [weightList_cons]; omega) h2 hr
    rw [remOf_false] at this
    exact this
  | .loop (.with_ pre incr) csz cond body, o, prev, rest, l, rem, h, hr => by
    obtain ⟨_, _, hp, _, hb, hsome, hI⟩ := ok_with.1 h
    obtain ⟨⟨pl, pr, vn, sg⟩, hparts⟩ := Option.isSome_iff_exists.1 hsome
    rw [tgtC_lower1_with, rawLoop_toNode]
    simp only [tgtL1, hparts] at hr ⊢
    have h2 := loopDetect_of_walk _ _ _ _ (walks body (o + pre.sz + csz + 3) none hb)
      (by simpa using remove_walked body (o + pre.sz + csz + 3) none [] hb AllS.nil)
    have hl := loopWalk_repeat (o + pre.sz + csz + 3 + (P.sizes (lower body) + incr.sz)) _ _ true (some (.stmt (o + pre.off) pre.code)) rest _ l rem
      (rewriteRepeat_with (o + pre.sz) (o + pre.sz + csz + 3 + (P.sizes (lower body) + incr.sz)) (o + pre.sz + csz)
        (.leaf .const (.s (S "TRUE")) (o + pre.sz)) cond (tgtC (o + pre.sz + csz + 3) (lower body)) (S "while") .none (.s []) [] .none
        (o + pre.off) (o + pre.sz + csz + 3 + P.sizes (lower body) + incr.off) pre.code incr.code pl pr vn sg hparts hI)
      (by simp only [weightList_cons, weightList_append]; omega) h2 hr
    exact loopWalk_simple _ _ _ _ _ prev hp hl
  | .loop (.in_ presz bp incrsz postsz) csz cond body, o, prev, rest, l, rem, h, hr => by
    obtain ⟨_, _, hb, hsome, hW⟩ := ok_in.1 h
    obtain ⟨⟨start, vn, fl⟩, hparts⟩ := Option.isSome_iff_exists.1 hsome
    rw [tgtC_lower1_in, rawLoop_toNode]
    simp only [tgtL1, hparts] at hr ⊢
    have h2 := loopDetect_of_walk _ _ _ _ (walks body (o + presz + csz + 3 + bp.sz) none hb)
      (by simpa using remove_walked body (o + presz + csz + 3 + bp.sz) none [] hb AllS.nil)
    have := loopWalk_repeat (o + presz + csz + 3 + (bp.sz + (P.sizes (lower body) + incrsz))) _ _ false prev rest _ l rem
      (rewriteRepeat_in (o + presz) (o + presz + csz + 3 + (bp.sz + (P.sizes (lower body) + incrsz))) (o + presz + csz)
        (.leaf .const (.s (S "TRUE")) (o + presz)) cond (tgtC (o + presz + csz + 3 + bp.sz) (lower body)) (S "while") .none (.s []) [] .none
        (o + presz + csz + 3 + bp.off) bp.code start fl vn prev hparts hW)
      (by simp only [weightList_cons]; omega) h2 hr
    rw [remOf_false] at this
    exact this
theorem walks : (ss : List Src) → ∀ (o : Int) (prev : Option Node), Src.oks prev o ss = true →
    loopWalk (tgtC o (lower ss)) prev = .ok (walked o ss, rems o ss)
  | [], o, prev, _ => by rw [lower_nil, tgtC_nil]; exact loopWalk_nil prev
  | x :: xs, o, prev, h => by
    obtain ⟨hx, hxs⟩ := oks_cons.1 h
    rw [tgtC_lower_cons]
    exact walk1 x o prev _ _ _ hx (walks xs (o + x.size) _ hxs)
end

/-- `loop_detect_in_statements` on the output of `condition_detect` for a lowered source skeleton -/
theorem loopDetect_tgtC (ss : List Src) (o : Int) (h : Src.oks none o ss = true) :
    loopDetect (tgtC o (lower ss)) = .ok (tgtL o ss) :=
  loopDetect_of_walk _ _ _ _ (walks ss o none h) (by simpa using remove_walked ss o none [] h AllS.nil)

/-! ### sufficient syntactic conditions for the `repeat while` side condition -/

theorem isRepeatWith_none (r : Ro) : isRepeatWith r none = .ok false := rfl

theorem isRepeatWith_notBinary (r : Ro) (p : Int) (c : Node) (h : c.cls ≠ .binary) :
    isRepeatWith r (some (.stmt p c)) = .ok false := by
  cases c <;> first | (exact absurd rfl h) | rfl

theorem isRepeatWithIn_leftNotConst (r : Ro) (h : ∀ op p l rr, r.cond = .binary op p l rr → l.cls ≠ .leaf .const) :
    isRepeatWithIn r = .ok false := by
  unfold isRepeatWithIn
  split
  · rename_i op p index ipos cname cp cpar a b c d hc
    exact absurd rfl (h _ _ _ _ hc)
  · rfl

/-- a sufficient syntactic condition for a `repeat while` to be in the class: it is the first statement of its list or the
    statement before it is not an assignment-like binary operation, and the left operand of its condition is not a constant -/
theorem while_in_class (prev : Option Node) (o : Int) (csz : Nat) (cond : Node) (body : List Src)
    (hb : Src.oks none (o + csz + 3) body = true)
    (hprev : prev = none ∨ ∃ p c, prev = some (.stmt p c) ∧ c.cls ≠ .binary)
    (hcond : ∀ op p l rr, cond = .binary op p l rr → l.cls ≠ .leaf .const) :
    (Src.loop .while_ csz cond body).ok prev o = true := by
  refine ok_while.2 ⟨hb, ?_, isRepeatWithIn_leftNotConst _ hcond⟩
  rcases hprev with rfl | ⟨p, c, rfl, hc⟩
  · rfl
  · exact isRepeatWith_notBinary _ p c hc

/-! ### the lowered skeleton is well-formed -/

theorem wfs_append (a b : List P) : P.wfs (a ++ b) = (P.wfs a && P.wfs b) := by
  induction a with
  | nil => simp [P.wfs]
  | cons x a ih => simp [P.wfs, ih, Bool.and_assoc]

theorem nsts_append (a b : List P) : P.nsts (a ++ b) = P.nsts a + P.nsts b := by
  induction a with
  | nil => simp [P.nsts]
  | cons x a ih => simp only [List.cons_append, P.nsts, ih]; omega

theorem nsts_lower1_pos (x : Src) : P.nsts (lower1 x) ≠ 0 := by
  cases x with
  | simple s => simp [lower1, P.nsts, P.nst]
  | ifThen csz cond t e => simp [lower1, P.nsts, P.nst]
  | loop hd csz cond body => cases hd <;> simp [lower1, P.nsts, P.nst]

theorem nsts_lower_pos (ss : List Src) (h : ss ≠ []) : P.nsts (lower ss) ≠ 0 := by
  cases ss with
  | nil => exact absurd rfl h
  | cons x xs =>
    rw [lower_cons, nsts_append]
    have := nsts_lower1_pos x
    omega

theorem lower_eq_nil (ss : List Src) : lower ss = [] ↔ ss = [] := by
  constructor
  · intro h
    cases ss with
    | nil => rfl
    | cons x xs =>
      have := nsts_lower_pos (x :: xs) (by simp)
      rw [h] at this
      simp [P.nsts] at this
  · rintro rfl; exact lower_nil

mutual
theorem wf_lower1 : (x : Src) → ∀ (prev : Option Node) (o : Int), x.ok prev o = true → P.wfs (lower1 x) = true
  | .simple s, prev, o, h => by
    obtain ⟨h1, h2⟩ := ok_simple.1 h
    simp [lower1, P.wfs, P.wf, h1, h2]
  | .ifThen csz cond t e, prev, o, h => by
    obtain ⟨ht, he⟩ := ok_if.1 h
    have h1 := wf_lower t _ _ ht
    have h2 := wf_lower e _ _ he
    have h3 : lower e = [] ∨ P.nsts (lower e) ≠ 0 := by
      by_cases hh : e = []
      · exact Or.inl ((lower_eq_nil e).2 hh)
      · exact Or.inr (nsts_lower_pos e hh)
    simp only [lower1, P.wfs, Bool.and_true]
    exact wf_if.2 ⟨h1, h2, h3⟩
  | .loop .while_ csz cond body, prev, o, h => by
    obtain ⟨hb, _, _⟩ := ok_while.1 h
    have := wf_lower body _ _ hb
    simp [lower1, P.wfs, P.wf, this]
  | .loop (.with_ pre incr) csz cond body, prev, o, h => by
    obtain ⟨h1, h2, h3, h4, hb, _, _⟩ := ok_with.1 h
    have := wf_lower body _ _ hb
    simp [lower1, P.wfs, P.wf, this, wfs_append, h1, h2, h3, h4]
  | .loop (.in_ presz bp incrsz postsz) csz cond body, prev, o, h => by
    obtain ⟨h1, h2, hb, _, _⟩ := ok_in.1 h
    have := wf_lower body _ _ hb
    simp [lower1, P.wfs, P.wf, this, wfs_append, h1, h2]
theorem wf_lower : (ss : List Src) → ∀ (prev : Option Node) (o : Int), Src.oks prev o ss = true → P.wfs (lower ss) = true
  | [], _, _, _ => by simp [lower, P.wfs]
  | x :: xs, prev, o, h => by
    obtain ⟨hx, hxs⟩ := oks_cons.1 h
    rw [lower_cons, wfs_append, wf_lower1 x prev o hx, wf_lower xs _ _ hxs]
    rfl
end

/-- **Reconstruction.** `condition_detect` followed by `loop_detect`, applied to the statement list the stack machine produces for
    the compiled source skeleton `ss` (laid out from address `o`), yields the source nesting: for every `ss` in the class. -/
theorem reconstruct (ss : List Src) (o : Int) (h : Src.oks none o ss = true) :
    (condDetect (emit false o (lower ss))).bind loopDetect = .ok (tgtL o ss) := by
  have hwf := wf_lower ss none o h
  have hd : P.depths (lower ss) ≤ cdDepthL (emit false o (lower ss)) := by rw [emit_depth o _ hwf]; exact Nat.le_refl _
  have hc : condDetect (emit false o (lower ss)) = .ok (tgtC o (lower ss)) := by
    unfold condDetect
    have := mainAt (lower ss) false _ o none [] [] [] hwf hd HdrOK.none (Or.inl rfl) (fun e he => by cases he)
    simpa using this
  rw [hc]
  exact loopDetect_tgtC ss o h

end Drx.LinkFlow
