/-
  C03 link, byte level (part 7): the flow passes on the raw statement list of an embedded structured handler body followed by
  the handler's final `exit` (at the end address of the body's code): the result is the source nesting followed by the `exit`.
-/
import DrxProofs.LinkFlow2Tree
import DrxProofs.LinkFlow2With
namespace Drx.LinkFlow
open Drx Drx.Lscr Drx.Spec Drx.Link

theorem embSrc_append : ∀ (ss : List Stmt) (xs : List Src) (ts : List Stmt) (ys : List Src), EmbSrc ss xs → EmbSrc ts ys →
    EmbSrc (ss ++ ts) (xs ++ ys)
  | [], xs, ts, ys, h1, h2 => by
    have : xs = [] := h1
    subst this
    simpa using h2
  | s :: ss, xs, ts, ys, h1, h2 => by
    obtain ⟨y, ys', rfl, ha, hb⟩ := h1
    exact ⟨y, ys' ++ ys, rfl, ha, embSrc_append ss ys' ts ys hb h2⟩

theorem okAmbs_append_exit : ∀ (ss : List Stmt) (ps : Bool), okAmbs ps ss = true → okAmbs ps (ss ++ [.exit]) = true
  | [], ps, _ => by simp [okAmbs, okAmb1]
  | s :: ss, ps, h => by
    simp only [okAmbs, Bool.and_eq_true, List.cons_append] at h ⊢
    exact ⟨h.1, okAmbs_append_exit ss _ h.2⟩

theorem tgtL_append (o : Int) : ∀ (xs ys : List Src), tgtL o (xs ++ ys) = tgtL o xs ++ tgtL (o + P.sizes (lower xs)) ys
  | [], ys => by simp [tgtL, lower, P.sizes]
  | x :: xs, ys => by
    have e : o + (x.size : Int) + (P.sizes (lower xs) : Int) = o + ((P.sizes (lower1 x) + P.sizes (lower xs) : Nat) : Int) := by
      rw [Src.size_eq]; push_cast; omega
    rw [List.cons_append, tgtL_cons, tgtL_cons, tgtL_append (o + x.size) xs ys, lower_cons, Drx.LinkFlow.sizes_append, List.append_assoc, e]

/-- the handler's final `exit` as a source statement of one byte -/
def exitSmp (q : Int) : Smp := ⟨1, 0, .callFn (.s (S "exit")) q .none true false false .none⟩

theorem exitNode_eq (p q : Int) : exitNode p q = .stmt p (exitSmp q).code := rfl

/-- **the flow passes on an embedded structured body**: `condition_detect` then `loop_detect` turn the raw list followed by the
    final exit into the source nesting followed by the exit -/
theorem fragTs_append_exit : ∀ (ss : List Stmt), FragTs ss = true → FragTs (ss ++ [.exit]) = true
  | [], _ => by simp [FragTs, FragT]
  | s :: ss, h => by
    simp only [FragTs, Bool.and_eq_true, List.cons_append] at h ⊢
    exact ⟨h.1, fragTs_append_exit ss h.2⟩

theorem flow_core (ss : List Stmt) (src : List Src) (hfr : FragTs ss = true) (hemb : EmbSrc ss src) (hok : okAmbs false ss = true) (a : Nat) (q : Int) :
    (condDetect (emit false (a : Int) (lower src) ++ [exitNode ((a : Int) + P.sizes (lower src)) q])).bind loopDetect =
      .ok (tgtL (a : Int) src ++ [exitNode ((a : Int) + P.sizes (lower src)) q]) := by
  have hx : EmbSrc1 .exit (.simple (exitSmp q)) := ⟨exitSmp q, 0, rfl, by simp [exitSmp], ⟨0, q, rfl⟩, PlainStmt.call _ _ _ _ _ _ _ _⟩
  have hemb' : EmbSrc (ss ++ [.exit]) (src ++ [.simple (exitSmp q)]) := embSrc_append ss src [.exit] _ hemb ⟨_, [], rfl, hx, rfl⟩
  have hcls := classs (ss ++ [.exit]) _ (fragTs_append_exit ss hfr) hemb' false none (a : Int) (Or.inl rfl) (okAmbs_append_exit ss false hok)
  have hrec := reconstruct _ (a : Int) hcls
  rw [lower_append, emit_append, tgtL_append] at hrec
  simpa [lower, lower1, emit, emit1, tgtL, tgtL1, exitNode_eq, exitSmp] using hrec

end Drx.LinkFlow
