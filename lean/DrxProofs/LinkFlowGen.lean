/-
  C03 link: structural facts about the statement lists `emit` / `tgtC` of a well-formed skeleton (position ranges, classes of
  the codes, lengths, last statements, loop depth).
-/
import DrxProofs.LinkFlowStep
namespace Drx.LinkFlow
open Drx Drx.Lscr

theorem simpleCode_spec {c : Node} (h : simpleCode c = true) :
    c.cls ≠ .jz ∧ c.cls ≠ .jump ∧ c.cls ≠ .ifThen ∧ c.cls ≠ .repeat_ ∧ c.cls ≠ .tell := by
  simpa [simpleCode, and_assoc] using h

theorem wfs_cons {x : P} {ps : List P} : P.wfs (x :: ps) = true ↔ x.wf = true ∧ P.wfs ps = true := by
  simp [P.wfs]

theorem wf_simple {s : Smp} : (P.simple s).wf = true ↔ s.off < s.sz ∧ simpleCode s.code = true := by
  simp [P.wf]

theorem wf_if {csz : Nat} {cond : Node} {t e : List P} : (P.ifThen csz cond t e).wf = true ↔
    P.wfs t = true ∧ P.wfs e = true ∧ (e = [] ∨ P.nsts e ≠ 0) := by
  simp [P.wf, and_assoc]

theorem wf_loop {csz : Nat} {cond : Node} {body : List P} : (P.loop csz cond body).wf = true ↔ P.wfs body = true := by
  simp [P.wf]

theorem wf_loopX {csz : Nat} {cond : Node} {b1 : List P} {csz2 : Nat} {cond2 : Node} {t b2 : List P} :
    (P.loopX csz cond b1 csz2 cond2 t b2).wf = true ↔ P.wfs b1 = true ∧ P.wfs t = true ∧ P.wfs b2 = true ∧ P.noIfs b2 = true := by
  simp [P.wf, and_assoc]

theorem sizes_cons (x : P) (ps : List P) : P.sizes (x :: ps) = x.size + P.sizes ps := by simp [P.sizes]

theorem size_if (csz : Nat) (cond : Node) (t e : List P) :
    (P.ifThen csz cond t e).size = csz + 3 + P.sizes t + (if e.isEmpty then 0 else 3 + P.sizes e) := by simp [P.size]

theorem size_loop (csz : Nat) (cond : Node) (body : List P) : (P.loop csz cond body).size = csz + 3 + P.sizes body + 2 := by
  simp [P.size]

theorem size_loopX (csz : Nat) (cond : Node) (b1 : List P) (csz2 : Nat) (cond2 : Node) (t b2 : List P) :
    (P.loopX csz cond b1 csz2 cond2 t b2).size = csz + 3 + (P.sizes b1 + (csz2 + 3 + P.sizes t + 3) + P.sizes b2) + 2 := by
  simp [P.size]

/-! ### equations of `emit` / `tgtC` -/

theorem emit_cons (ld : Bool) (o : Int) (x : P) (ps : List P) : emit ld o (x :: ps) = emit1 ld o x ++ emit ld (o + x.size) ps := by
  simp only [emit]
theorem emit_nil (ld : Bool) (o : Int) : emit ld o [] = [] := by simp only [emit]
theorem emit1_simple (ld : Bool) (o : Int) (s : Smp) : emit1 ld o (.simple s) = [.stmt (o + s.off) s.code] := by simp only [emit1]
theorem emit1_skip (ld : Bool) (o : Int) (n : Nat) : emit1 ld o (.skip n) = [] := by simp only [emit1]
theorem emit1_if_noelse (ld : Bool) (o : Int) (csz : Nat) (cond : Node) (t : List P) :
    emit1 ld o (.ifThen csz cond t []) = jzStmt (o + csz) cond (o + csz + 3 + P.sizes t) :: emit ld (o + csz + 3) t := by
  simp [emit1]
theorem emit1_if_else (ld : Bool) (o : Int) (csz : Nat) (cond : Node) (t e : List P) (h : e ≠ []) :
    emit1 ld o (.ifThen csz cond t e) = jzStmt (o + csz) cond (o + csz + 3 + P.sizes t + 3) ::
        (emit ld (o + csz + 3) t ++
          jumpStmt (o + csz + 3 + P.sizes t) (o + csz + 3 + P.sizes t + 3 + P.sizes e) :: emit ld (o + csz + 3 + P.sizes t + 3) e) := by
  have : e.isEmpty = false := by cases e <;> simp_all
  simp [emit1, this]
theorem emit1_loop_done (o : Int) (csz : Nat) (cond : Node) (body : List P) :
    emit1 true o (.loop csz cond body) = [.stmt (o + csz + 3 + P.sizes body) (rawLoop o (o + csz + 3 + P.sizes body)
      (exitIf (o + csz) cond :: tgtC (o + csz + 3) body))] := by simp [emit1]
theorem emit1_loop_raw (o : Int) (csz : Nat) (cond : Node) (body : List P) :
    emit1 false o (.loop csz cond body) = [.stmt (o + csz + 3 + P.sizes body) (rawLoop o (o + csz + 3 + P.sizes body)
      (jzStmt (o + csz) cond (o + csz + 3 + P.sizes body + 2) :: emit false (o + csz + 3) body))] := by simp [emit1]
theorem emit1_loopX_raw (o : Int) (csz : Nat) (cond : Node) (b1 : List P) (csz2 : Nat) (cond2 : Node) (t b2 : List P) :
    emit1 false o (.loopX csz cond b1 csz2 cond2 t b2) =
      [.stmt (o + csz + 3 + (P.sizes b1 + (csz2 + 3 + P.sizes t + 3) + P.sizes b2))
        (rawLoop o (o + csz + 3 + (P.sizes b1 + (csz2 + 3 + P.sizes t + 3) + P.sizes b2))
          (jzStmt (o + csz) cond (o + csz + 3 + (P.sizes b1 + (csz2 + 3 + P.sizes t + 3) + P.sizes b2) + 2) ::
            (emit false (o + csz + 3) b1 ++
              jzStmt (o + csz + 3 + P.sizes b1 + csz2) cond2 (o + csz + 3 + P.sizes b1 + csz2 + 3 + P.sizes t + 3) ::
                (emit false (o + csz + 3 + P.sizes b1 + csz2 + 3) t ++
                  jumpStmt (o + csz + 3 + P.sizes b1 + csz2 + 3 + P.sizes t)
                      (o + csz + 3 + (P.sizes b1 + (csz2 + 3 + P.sizes t + 3) + P.sizes b2) + 2) ::
                    emit false (o + csz + 3 + P.sizes b1 + csz2 + 3 + P.sizes t + 3) b2))))] := by simp [emit1]
theorem tgtC_cons (o : Int) (x : P) (ps : List P) : tgtC o (x :: ps) = tgtC1 o x ++ tgtC (o + x.size) ps := by simp only [tgtC]
theorem tgtC_nil (o : Int) : tgtC o [] = [] := by simp only [tgtC]
theorem size_if_noelse (csz : Nat) (cond : Node) (t : List P) : (P.ifThen csz cond t []).size = csz + 3 + P.sizes t := by
  simp [P.size]
theorem size_if_else (csz : Nat) (cond : Node) (t e : List P) (h : e ≠ []) :
    (P.ifThen csz cond t e).size = csz + 3 + P.sizes t + 3 + P.sizes e := by
  have : e.isEmpty = false := by cases e <;> simp_all
  simp [P.size, this]; omega

/-! ### codes and position ranges -/

/-- what holds of every statement `stmt p c` of a raw list level occupying `[lo, hi)` -/
def EmitInv (lo hi : Int) (p : Int) (c : Node) : Prop :=
  lo ≤ p ∧ p < hi ∧ c.cls ≠ .ifThen ∧ (∀ jp cd a, c = Node.jz jp cd a → jp = p) ∧ (∀ jp ja, c = Node.jump jp ja → ja ≤ hi)

theorem EmitInv.mono {lo hi lo' hi' p : Int} {c : Node} (h : EmitInv lo hi p c) (h1 : lo' ≤ lo) (h2 : hi ≤ hi') :
    EmitInv lo' hi' p c :=
  ⟨by have := h.1; omega, by have := h.2.1; omega, h.2.2.1, h.2.2.2.1, fun jp ja e => by have := h.2.2.2.2 jp ja e; omega⟩

theorem emitInv_simple {lo hi p : Int} {c : Node} (h1 : lo ≤ p) (h2 : p < hi) (hc : simpleCode c = true) : EmitInv lo hi p c := by
  obtain ⟨a, b, c', d, _⟩ := simpleCode_spec hc
  refine ⟨h1, h2, c', ?_, ?_⟩
  · intro jp cd a' e; subst e; exact absurd rfl a
  · intro jp ja e; subst e; exact absurd rfl b

mutual
theorem emit1_inv (ld : Bool) (o : Int) : (x : P) → x.wf = true → AllS (EmitInv o (o + x.size)) (emit1 ld o x)
  | .simple s, h => by
    obtain ⟨h1, h2⟩ := wf_simple.1 h
    simp only [emit1, P.size]
    exact AllS.cons (emitInv_simple (by omega) (by omega) h2) AllS.nil
  | .skip n, _ => by simp only [emit1]; exact AllS.nil
  | .ifThen csz cond t e, h => by
    obtain ⟨ht, he, _⟩ := wf_if.1 h
    have it := emit_inv ld (o + csz + 3) t ht
    have ie := emit_inv ld (o + csz + 3 + P.sizes t + 3) e he
    simp only [emit1, size_if]
    split
    · rename_i hemp
      refine AllS.cons ?_ (it.mono fun p c hh => hh.mono (by omega) (by omega))
      refine ⟨by omega, by omega, by simp [Node.cls], ?_, ?_⟩
      · intro jp cd a e'; cases e'; rfl
      · intro jp ja e'; cases e'
    · rename_i hemp
      refine AllS.cons ?_ (AllS.append (it.mono fun p c hh => hh.mono (by omega) (by omega)) (AllS.cons ?_
        (ie.mono fun p c hh => hh.mono (by omega) (by simp; omega))))
      · refine ⟨by omega, by omega, by simp [Node.cls], ?_, ?_⟩
        · intro jp cd a e'; cases e'; rfl
        · intro jp ja e'; cases e'
      · refine ⟨by omega, by simp; omega, by simp [Node.cls], ?_, ?_⟩
        · intro jp cd a e'; cases e'
        · intro jp ja e'; cases e'; simp; omega
  | .loop csz cond body, _ => by
    simp only [emit1, size_loop]
    refine AllS.cons ?_ AllS.nil
    refine ⟨by omega, by omega, by simp [Node.cls, rawLoop], ?_, ?_⟩
    · intro jp cd a e'; simp [rawLoop] at e'
    · intro jp ja e'; simp [rawLoop] at e'
  | .loopX csz cond b1 csz2 cond2 t b2, _ => by
    simp only [emit1, size_loopX]
    refine AllS.cons ?_ AllS.nil
    refine ⟨by omega, by omega, by simp [Node.cls, rawLoop], ?_, ?_⟩
    · intro jp cd a e'; simp [rawLoop] at e'
    · intro jp ja e'; simp [rawLoop] at e'
theorem emit_inv (ld : Bool) (o : Int) : (ps : List P) → P.wfs ps = true → AllS (EmitInv o (o + P.sizes ps)) (emit ld o ps)
  | [], _ => by simp only [emit]; exact AllS.nil
  | x :: ps, h => by
    obtain ⟨hx, hps⟩ := wfs_cons.1 h
    simp only [emit, sizes_cons]
    exact AllS.append ((emit1_inv ld o x hx).mono fun p c hh => hh.mono (by omega) (by omega))
      ((emit_inv ld (o + x.size) ps hps).mono fun p c hh => hh.mono (by omega) (by omega))
end

/-- what holds of every statement `stmt p c` of a reconstructed list level occupying `[lo, hi)` -/
def TgtInv (lo hi : Int) (p : Int) (c : Node) : Prop :=
  lo ≤ p ∧ p < hi ∧ c.cls ≠ .jz ∧ c.cls ≠ .jump ∧ (∀ q cd a b, c = Node.ifThen q cd a b → q = p)

theorem TgtInv.mono {lo hi lo' hi' p : Int} {c : Node} (h : TgtInv lo hi p c) (h1 : lo' ≤ lo) (h2 : hi ≤ hi') :
    TgtInv lo' hi' p c :=
  ⟨by have := h.1; omega, by have := h.2.1; omega, h.2.2.1, h.2.2.2.1, h.2.2.2.2⟩

theorem nsts_cons (x : P) (ps : List P) : P.nsts (x :: ps) = x.nst + P.nsts ps := by simp [P.nsts]

theorem tgtC1_ne_nil (o : Int) : (x : P) → x.nst ≠ 0 → tgtC1 o x ≠ []
  | .simple _, _ => by simp [tgtC1]
  | .skip _, h => by simp [P.nst] at h
  | .ifThen .., _ => by simp [tgtC1]
  | .loop .., _ => by simp [tgtC1]
  | .loopX .., _ => by simp [tgtC1]

theorem tgtC_ne_nil (o : Int) : (ps : List P) → P.nsts ps ≠ 0 → tgtC o ps ≠ []
  | [], h => by simp [P.nsts] at h
  | x :: ps, h => by
    rw [nsts_cons] at h
    simp only [tgtC]
    by_cases hx : x.nst = 0
    · have := tgtC_ne_nil (o + x.size) ps (by omega)
      simp [this]
    · have := tgtC1_ne_nil o x hx
      simp [this]

theorem tgtC1_inv (o : Int) : (x : P) → x.wf = true → AllS (TgtInv o (o + x.size)) (tgtC1 o x)
  | .simple s, h => by
    obtain ⟨h1, h2⟩ := wf_simple.1 h
    obtain ⟨a, b, c', d, _⟩ := simpleCode_spec h2
    simp only [tgtC1, P.size]
    refine AllS.cons ⟨by omega, by omega, a, b, ?_⟩ AllS.nil
    intro q cd a' b' e; rw [e] at c'; exact absurd rfl c'
  | .skip n, _ => by simp only [tgtC1]; exact AllS.nil
  | .ifThen csz cond t e, h => by
    simp only [tgtC1, size_if]
    refine AllS.cons ⟨by omega, by omega, by simp [Node.cls], by simp [Node.cls], ?_⟩ AllS.nil
    intro q cd a' b' e'
    simp only [Node.ifThen.injEq] at e'
    exact e'.1.symm
  | .loop csz cond body, _ => by
    simp only [tgtC1, size_loop]
    refine AllS.cons ⟨by omega, by omega, by simp [Node.cls, rawLoop], by simp [Node.cls, rawLoop], ?_⟩ AllS.nil
    intro q cd a' b' e'; simp [rawLoop] at e'
  | .loopX csz cond b1 csz2 cond2 t b2, _ => by
    simp only [tgtC1, size_loopX]
    refine AllS.cons ⟨by omega, by omega, by simp [Node.cls, rawLoop], by simp [Node.cls, rawLoop], ?_⟩ AllS.nil
    intro q cd a' b' e'; simp [rawLoop] at e'

theorem tgtC_inv (o : Int) : (ps : List P) → P.wfs ps = true → AllS (TgtInv o (o + P.sizes ps)) (tgtC o ps)
  | [], _ => by simp only [tgtC]; exact AllS.nil
  | x :: ps, h => by
    obtain ⟨hx, hps⟩ := wfs_cons.1 h
    simp only [tgtC, sizes_cons]
    exact AllS.append ((tgtC1_inv o x hx).mono fun p c hh => hh.mono (by omega) (by omega))
      ((tgtC_inv (o + x.size) ps hps).mono fun p c hh => hh.mono (by omega) (by omega))

/-! ### lengths, first and last statements -/

mutual
theorem emit1_length (ld : Bool) (o : Int) : (x : P) → (emit1 ld o x).length = x.nst
  | .simple _ => by simp [emit1, P.nst]
  | .skip _ => by simp [emit1, P.nst]
  | .ifThen csz cond t e => by
    have h1 := emit_length ld (o + csz + 3) t
    have h2 := emit_length ld (o + csz + 3 + P.sizes t + 3) e
    simp only [emit1, P.nst]
    split <;> simp [h1, h2] <;> (try omega)
  | .loop .. => by simp [emit1, P.nst]
  | .loopX .. => by simp [emit1, P.nst]
theorem emit_length (ld : Bool) (o : Int) : (ps : List P) → (emit ld o ps).length = P.nsts ps
  | [] => by simp [emit, P.nsts]
  | x :: ps => by simp [emit, P.nsts, emit1_length ld o x, emit_length ld (o + x.size) ps]
end

theorem emit_nil_of_nsts (ld : Bool) (o : Int) (ps : List P) (h : P.nsts ps = 0) : emit ld o ps = [] := by
  apply List.eq_nil_of_length_eq_zero; rw [emit_length, h]

theorem emit1_nil_of_nst (ld : Bool) (o : Int) (x : P) (h : x.nst = 0) : emit1 ld o x = [] := by
  apply List.eq_nil_of_length_eq_zero; rw [emit1_length, h]

theorem tgtC_nil_of_nsts (o : Int) : (ps : List P) → P.nsts ps = 0 → tgtC o ps = []
  | [], _ => by simp [tgtC]
  | x :: ps, h => by
    rw [nsts_cons] at h
    have h2 := tgtC_nil_of_nsts (o + x.size) ps (by omega)
    cases x with
    | skip n => simp [tgtC, tgtC1, h2]
    | simple s => simp [P.nst] at h
    | ifThen csz cond t e => simp [P.nst] at h
    | loop csz cond b => simp [P.nst] at h
    | loopX csz cond b1 csz2 cond2 t b2 => simp [P.nst] at h

/-- a statement whose code is not a jump -/
def EndsPlain (l : List Node) : Prop := ∃ l' p c, l = l' ++ [Node.stmt p c] ∧ c.cls ≠ .jump

theorem EndsPlain.single (p : Int) (c : Node) (h : c.cls ≠ .jump) : EndsPlain [Node.stmt p c] := ⟨[], p, c, rfl, h⟩

theorem EndsPlain.prepend {l : List Node} (h : EndsPlain l) (a : List Node) : EndsPlain (a ++ l) := by
  obtain ⟨l', p, c, e, hc⟩ := h
  exact ⟨a ++ l', p, c, by rw [e, List.append_assoc], hc⟩

mutual
theorem emit1_last (ld : Bool) (o : Int) : (x : P) → x.wf = true → x.nst ≠ 0 → EndsPlain (emit1 ld o x)
  | .simple s, h, _ => by
    obtain ⟨_, h2⟩ := wf_simple.1 h
    simp only [emit1]
    exact EndsPlain.single _ _ (simpleCode_spec h2).2.1
  | .skip _, _, h => by simp [P.nst] at h
  | .ifThen csz cond t e, h, _ => by
    obtain ⟨ht, he, hne⟩ := wf_if.1 h
    simp only [emit1]
    split
    · by_cases hn : P.nsts t = 0
      · rw [emit_nil_of_nsts ld _ t hn]
        exact EndsPlain.single _ _ (by simp [Node.cls])
      · have := (emit_last ld (o + csz + 3) t ht hn).prepend [jzStmt (o + csz) cond (o + csz + 3 + P.sizes t)]
        simpa using this
    · rename_i hemp
      have hne' : P.nsts e ≠ 0 := by
        rcases hne with h | h
        · subst h; simp at hemp
        · exact h
      have := (emit_last ld (o + csz + 3 + P.sizes t + 3) e he hne').prepend
        (jzStmt (o + csz) cond (o + csz + 3 + P.sizes t + 3) :: (emit ld (o + csz + 3) t ++
          [jumpStmt (o + csz + 3 + P.sizes t) (o + csz + 3 + P.sizes t + 3 + P.sizes e)]))
      simpa using this
  | .loop .., _, _ => by
    simp only [emit1]
    exact EndsPlain.single _ _ (by simp [rawLoop, Node.cls])
  | .loopX .., _, _ => by
    simp only [emit1]
    exact EndsPlain.single _ _ (by simp [rawLoop, Node.cls])
theorem emit_last (ld : Bool) (o : Int) : (ps : List P) → P.wfs ps = true → P.nsts ps ≠ 0 → EndsPlain (emit ld o ps)
  | [], _, h => by simp [P.nsts] at h
  | x :: ps, h, hn => by
    obtain ⟨hx, hps⟩ := wfs_cons.1 h
    rw [nsts_cons] at hn
    simp only [emit]
    by_cases h0 : P.nsts ps = 0
    · rw [emit_nil_of_nsts ld _ ps h0, List.append_nil]
      exact emit1_last ld o x hx (by omega)
    · exact (emit_last ld (o + x.size) ps hps h0).prepend _
end

theorem tgtC1_last (o : Int) : (x : P) → x.wf = true → x.nst ≠ 0 → EndsPlain (tgtC1 o x)
  | .simple s, h, _ => by
    obtain ⟨_, h2⟩ := wf_simple.1 h
    simp only [tgtC1]
    exact EndsPlain.single _ _ (simpleCode_spec h2).2.1
  | .skip _, _, h => by simp [P.nst] at h
  | .ifThen .., _, _ => by
    simp only [tgtC1]
    exact EndsPlain.single _ _ (by simp [Node.cls])
  | .loop .., _, _ => by
    simp only [tgtC1]
    exact EndsPlain.single _ _ (by simp [rawLoop, Node.cls])
  | .loopX .., _, _ => by
    simp only [tgtC1]
    exact EndsPlain.single _ _ (by simp [rawLoop, Node.cls])

theorem tgtC_last (o : Int) : (ps : List P) → P.wfs ps = true → P.nsts ps ≠ 0 → EndsPlain (tgtC o ps)
  | [], _, h => by simp [P.nsts] at h
  | x :: ps, h, hn => by
    obtain ⟨hx, hps⟩ := wfs_cons.1 h
    rw [nsts_cons] at hn
    simp only [tgtC]
    by_cases h0 : P.nsts ps = 0
    · rw [tgtC_nil_of_nsts _ ps h0, List.append_nil]
      exact tgtC1_last o x hx (by omega)
    · exact (tgtC_last (o + x.size) ps hps h0).prepend _

/-! ### loop depth of the raw list -/

theorem cdDepthL_append (a b : List Node) : cdDepthL (a ++ b) = max (cdDepthL a) (cdDepthL b) := by
  induction a with
  | nil => simp [cdDepthL]
  | cons x a ih => simp only [List.cons_append, cdDepthL, ih]; omega

theorem cdDepth_jzStmt (p : Int) (c : Node) (a : Int) : cdDepth (jzStmt p c a) = 0 := by simp [jzStmt, cdDepth]
theorem cdDepth_jumpStmt (p a : Int) : cdDepth (jumpStmt p a) = 0 := by simp [jumpStmt, cdDepth]

theorem cdDepth_simple (p : Int) (c : Node) (h : c.cls ≠ .repeat_) (h' : c.cls ≠ .tell) : cdDepth (.stmt p c) = 0 := by
  cases c <;> first | (exact absurd rfl h) | (exact absurd rfl h') | simp [cdDepth]

mutual
theorem emit1_depth (o : Int) : (x : P) → x.wf = true → cdDepthL (emit1 false o x) = x.depth
  | .simple s, h => by
    obtain ⟨_, h2⟩ := wf_simple.1 h
    simp [emit1, cdDepthL, P.depth, cdDepth_simple _ _ (simpleCode_spec h2).2.2.2.1 (simpleCode_spec h2).2.2.2.2]
  | .skip _, _ => by simp [emit1, cdDepthL, P.depth]
  | .ifThen csz cond t e, h => by
    obtain ⟨ht, he, _⟩ := wf_if.1 h
    have h1 := emit_depth (o + csz + 3) t ht
    have h2 := emit_depth (o + csz + 3 + P.sizes t + 3) e he
    simp only [emit1, P.depth]
    split
    · rename_i hemp
      have : e = [] := by simpa using hemp
      subst this
      simp [cdDepthL, cdDepth_jzStmt, h1, P.depths]
    · simp [cdDepthL, cdDepthL_append, cdDepth_jzStmt, cdDepth_jumpStmt, h1, h2]
  | .loop csz cond body, h => by
    have h1 := emit_depth (o + csz + 3) body (wf_loop.1 h)
    simp [emit1, cdDepthL, P.depth, rawLoop, cdDepth, cdDepth_jzStmt, h1]
  | .loopX csz cond b1 csz2 cond2 t b2, h => by
    obtain ⟨hb1, ht, hb2, _⟩ := wf_loopX.1 h
    have h1 := emit_depth (o + csz + 3) b1 hb1
    have h2 := emit_depth (o + csz + 3 + P.sizes b1 + csz2 + 3) t ht
    have h3 := emit_depth (o + csz + 3 + P.sizes b1 + csz2 + 3 + P.sizes t + 3) b2 hb2
    simp [emit1, cdDepthL, P.depth, rawLoop, cdDepth, cdDepth_jzStmt, cdDepth_jumpStmt, cdDepthL_append, h1, h2, h3]
theorem emit_depth (o : Int) : (ps : List P) → P.wfs ps = true → cdDepthL (emit false o ps) = P.depths ps
  | [], _ => by simp [emit, cdDepthL, P.depths]
  | x :: ps, h => by
    obtain ⟨hx, hps⟩ := wfs_cons.1 h
    simp [emit, cdDepthL_append, P.depths, emit1_depth o x hx, emit_depth (o + x.size) ps hps]
end

end Drx.LinkFlow
