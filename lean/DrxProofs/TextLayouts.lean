/-
  C16: the hand-written readers of Drx/Stxt.lean and Drx/Fmap.lean are the generic reader over the field layouts GENERATED
  from the Python source (Drx/Gen/TextLayouts.lean, regenerated on every run by harness/gen_idx_layouts.py).
-/
import Drx.Stxt
import Drx.Fmap
import Drx.Layout
import Drx.Gen.TextLayouts
import DrxProofs.Layouts
import DrxProofs.Text
namespace Drx
open Drx.Fmap Drx.Stxt Drx.Layout

/-! ### stxt.py -/

theorem parseStxt_eq_layout (dec : Dec) (fm : List FontInfo) (d : Bytes) :
    parseStxt dec fm d = readK .be d 0 Gen.TextLayouts.stxtHeader fun
      | [idxb, nchars, _] => (dec (pySlice d idxb (idxb + nchars))).bind fun text =>
          (getSI .be 2 d (idxb + nchars)).bind fun nformat =>
          (runLoop fm d nformat.toNat (idxb + nchars + 2)).bind fun formats => .ok ⟨text, formats⟩
      | _ => .error .other := rfl

/-- the run count is the 16-bit word at the end of the text (stated at a non-negative position) -/
theorem stxtCount_eq_layout (d : Bytes) (p : Nat) :
    getSI .be 2 d (p : Int) = readK .be d p Gen.TextLayouts.stxtCount fun | [n] => .ok n | _ => .error .other := by
  rw [getSI_nat]
  simp only [Gen.TextLayouts.stxtCount, readK, readField, Nat.add_zero, ↓reduceIte]
  cases getS Order.be 2 d p <;> rfl

/-- `'#%02X%02X%02X'` on numbers -/
def colorStrN (r g b : Nat) : Text := '#' :: (hex2U r ++ hex2U g ++ hex2U b)

theorem colorStr_eq_colorStrN (r g b : UInt8) : colorStr r g b = colorStrN r.toNat g.toNat b.toNat := rfl

/-- one 20-byte style record at a non-negative position: all fourteen reads, in the generated order, offsets and widths -/
theorem runLoop_succ_eq_layout (fm : List FontInfo) (d : Bytes) (n i : Nat) :
    runLoop fm d (n + 1) (i : Int) = readKB .be d i Gen.TextLayouts.stxtRun fun
      | [_, start, _, _, fontId, fmt, _, size, red, _, green, _, blue, _] =>
          (runLoop fm d n ((i + 20 : Nat) : Int)).bind fun rest =>
            .ok (⟨colorStrN red.toNat green.toNat blue.toNat, start, fmt.toNat % 2 = 1, fmt.toNat / 2 % 2 = 1, fmt.toNat / 4 % 2 = 1,
                  size, fontFamily fm fontId⟩ :: rest)
      | _ => .error .other := by
  rw [runLoop_nat, runLoop_nat]
  conv => lhs; rw [runLoopN]
  simp only [Gen.TextLayouts.stxtRun, readKB_byte, readKB_signed, readKB_nil]
  rfl

/-! ### fmap.py -/

theorem parseFmap_eq_layout (dec : Dec) (d : Bytes) :
    parseFmap dec d = readK .be d 0 Gen.TextLayouts.fmapSizes fun
      | [headerSize, additionalSize] =>
        if 8 + headerSize + additionalSize ≠ (d.length : Int) then .error .value else
        let hd := pySlice d 8 (8 + headerSize)
        let bd := pySlice d (8 + headerSize) (8 + headerSize + additionalSize)
        readK .be hd 0 Gen.TextLayouts.fmapHeader fun
          | [_, _, _, _, nfonts, nfontsCap, _, _, _, _, _, _] =>
            (metaLoop hd nfontsCap.toNat 28).bind fun metadata => fontLoop dec bd nfonts.toNat metadata 0
          | _ => .error .other
      | _ => .error .other := rfl

theorem metaLoop_succ_eq_layout (hd : Bytes) (n idx : Nat) :
    metaLoop hd (n + 1) idx = readK .be hd idx Gen.TextLayouts.fmapMeta fun
      | [displacement, _, fontId] => (metaLoop hd n (idx + 8)).bind fun rest => .ok ((displacement, fontId) :: rest)
      | _ => .error .other := rfl

/-- one font record at a non-negative displacement -/
theorem fontLoop_succ_eq_layout (dec : Dec) (bd : Bytes) (n disp : Nat) (fontId : Int) (ms : List (Int × Int)) (acc : Nat) :
    fontLoop dec bd (n + 1) (((disp : Int), fontId) :: ms) acc = readK .be bd disp Gen.TextLayouts.fmapFont fun
      | [nchars] =>
          let nameData := pySlice bd ((disp : Int) + 4) ((disp : Int) + 4 + nchars)
          if acc + nameData.length > bd.length then .error .value else
          (dec nameData).bind fun name =>
          (fontLoop dec bd n ms (acc + nameData.length)).bind fun rest => .ok (⟨name, fontId⟩ :: rest)
      | _ => .error .other := by
  conv => lhs; rw [fontLoop]
  rw [getSI_nat]
  rfl

end Drx
