/-
  The runtime guard of `Flow.loopWalk` (`weightList r.stmts ≤ weightList body`, kept by agent-lscr as the termination argument)
  never fires, for ANY input: the three header rewrites only drop the first and/or the last statement of the body.
-/
import DrxProofs.LinkFlowRec
namespace Drx.LinkFlow
open Drx Drx.Lscr

theorem weightList_tail_le (x : Node) (l : List Node) : weightList l ≤ weightList (x :: l) := by
  rw [weightList_cons]; omega

theorem repeatWhile_weight (r r1 : Ro) (h : repeatWhile r = .ok r1) : weightList r1.stmts ≤ weightList r.stmts := by
  unfold repeatWhile at h
  split at h
  · cases h; exact Nat.le_refl _
  · rename_i st rest hs
    split at h
    · split at h
      · split at h
        · cases h; rw [hs]; exact weightList_tail_le _ _
        · cases h; exact Nat.le_refl _
      · cases h; exact Nat.le_refl _
      · cases h
    · cases h; exact Nat.le_refl _
    · cases h

theorem applyRepeatWith_weight (r r2 : Ro) (p : Node) (h : applyRepeatWith r p = .ok r2) : weightList r2.stmts ≤ weightList r.stmts := by
  unfold applyRepeatWith at h
  split at h
  · simp only [bind, Except.bind] at h
    split at h
    · cases h
    · simp only [pure, Except.pure, Except.ok.injEq] at h
      subst h
      exact weightList_dropLast_le _
  · cases h

theorem applyRepeatWithIn_weight (r r3 : Ro) (h : applyRepeatWithIn r = .ok r3) : weightList r3.stmts ≤ weightList r.stmts := by
  unfold applyRepeatWithIn at h
  split at h
  · rename_i hs
    simp only [bind, Except.bind] at h
    split at h
    · cases h
    · split at h
      · cases h
      · split at h
        · cases h
        · simp only [pure, Except.pure, Except.ok.injEq] at h
          subst h
          rw [hs]; exact weightList_tail_le _ _
  · cases h

/-- **the guard of `loopWalk` never fires** -/
theorem rewriteRepeat_weight (r r3 : Ro) (prev : Option Node) (rm : Bool) (h : rewriteRepeat r prev = .ok (r3, rm)) :
    weightList r3.stmts ≤ weightList r.stmts := by
  unfold rewriteRepeat at h
  simp only [bind, Except.bind] at h
  cases h1 : repeatWhile r with
  | error e => rw [h1] at h; cases h
  | ok r1 =>
    rw [h1] at h
    have w1 := repeatWhile_weight r r1 h1
    simp only at h
    cases h2 : isRepeatWith r1 prev with
    | error e => rw [h2] at h; cases h
    | ok isWith =>
      rw [h2] at h
      simp only at h
      cases isWith with
      | false =>
        simp only [Bool.false_eq_true, if_false, pure, Except.pure] at h
        cases h3 : isRepeatWithIn r1 with
        | error e => rw [h3] at h; cases h
        | ok isIn =>
          rw [h3] at h
          cases isIn with
          | false =>
            simp only [Bool.false_eq_true, if_false, Except.ok.injEq, Prod.mk.injEq] at h
            obtain ⟨rfl, _⟩ := h; exact w1
          | true =>
            simp only [if_true] at h
            cases h4 : applyRepeatWithIn r1 with
            | error e => rw [h4] at h; cases h
            | ok r3' =>
              rw [h4] at h
              simp only [Except.ok.injEq, Prod.mk.injEq] at h
              obtain ⟨rfl, _⟩ := h
              exact Nat.le_trans (applyRepeatWithIn_weight r1 _ h4) w1
      | true =>
        simp only [if_true] at h
        cases prev with
        | none => cases h
        | some p =>
          simp only at h
          cases h5 : applyRepeatWith r1 p with
          | error e => rw [h5] at h; cases h
          | ok r2 =>
            rw [h5] at h
            have w2 := applyRepeatWith_weight r1 r2 p h5
            simp only [pure, Except.pure] at h
            cases h3 : isRepeatWithIn r2 with
            | error e => rw [h3] at h; cases h
            | ok isIn =>
              rw [h3] at h
              cases isIn with
              | false =>
                simp only [Bool.false_eq_true, if_false, Except.ok.injEq, Prod.mk.injEq] at h
                obtain ⟨rfl, _⟩ := h; exact Nat.le_trans w2 w1
              | true =>
                simp only [if_true] at h
                cases h4 : applyRepeatWithIn r2 with
                | error e => rw [h4] at h; cases h
                | ok r3' =>
                  rw [h4] at h
                  simp only [Except.ok.injEq, Prod.mk.injEq] at h
                  obtain ⟨rfl, _⟩ := h
                  exact Nat.le_trans (applyRepeatWithIn_weight r2 _ h4) (Nat.le_trans w2 w1)

end Drx.LinkFlow
