/-
  C06, 8 bits per pixel: the PackBits loop and the raw loop of decoder8b.py paint exactly the rows of the image.
-/
import DrxProofs.BitdRows
namespace Drx.Bitd
open Drx Drx.Bitd.Spec

/-- the flat buffer with rows below `A` untouched, the current row painted up to `p`, finished rows in `B` -/
def buf8 (g : G8) (A B p : Bytes) : Bytes := A ++ rowImg g.stride g.padW g.wImg p ++ B

theorem paintRun8_spec (g : G8) (y : Nat) (v : UInt8) (A B : Bytes)
    (hA : A.length = y * g.stride) (hw : g.padW + g.wImg ≤ g.stride) :
    ∀ (n : Nat) (p : Bytes), p.length + n ≤ g.w →
      paintRun8 g y v n (buf8 g A B p) p.length = .ok (buf8 g A B (p ++ List.replicate n v), p.length + n) := by
  intro n
  induction n with
  | zero => intro p _; simp [paintRun8]
  | succ n ih =>
    intro p hp
    unfold paintRun8
    have h1 : ¬ (p.length ≥ g.w) := by omega
    simp only [h1, if_false]
    have hnext : buf8 g A B (p ++ [v] ++ List.replicate n v) = buf8 g A B (p ++ List.replicate (n + 1) v) := by
      simp [List.replicate_succ]
    by_cases hx : p.length < g.wImg
    · simp only [hx, if_true]
      have e : y * g.stride + p.length + g.padW = A.length + p.length + g.padW := by omega
      rw [e]
      unfold buf8
      rw [setAt_rowImg A B g.stride g.padW g.wImg p v hx hw]
      have := ih (p ++ [v]) (by simp; omega)
      unfold buf8 at this
      simp only [List.length_append, List.length_singleton] at this
      simp only [this]
      simp [List.replicate_succ, Nat.add_assoc, Nat.add_comm 1 n]
    · simp only [hx, if_false]
      have := ih (p ++ [v]) (by simp; omega)
      unfold buf8 at this ⊢
      rw [rowImg_snoc_ge _ _ _ _ _ (by omega)] at this
      simp only [List.length_append, List.length_singleton] at this
      simp only [this]
      simp [List.replicate_succ, Nat.add_assoc, Nat.add_comm 1 n]

theorem paintLit8_spec (g : G8) (y : Nat) (A B : Bytes)
    (hA : A.length = y * g.stride) (hw : g.padW + g.wImg ≤ g.stride) :
    ∀ (bs : Bytes) (p rest : Bytes), p.length + bs.length ≤ g.w →
      paintLit8 g y bs.length (bs ++ rest) (buf8 g A B p) p.length
        = .ok (buf8 g A B (p ++ bs), p.length + bs.length, rest) := by
  intro bs
  induction bs with
  | nil => intro p rest _; simp [paintLit8]
  | cons v bs ih =>
    intro p rest hp
    simp only [List.length_cons] at hp ⊢
    unfold paintLit8
    have h1 : ¬ (p.length ≥ g.w) := by omega
    simp only [h1, if_false, List.cons_append]
    by_cases hx : p.length < g.wImg
    · simp only [hx, if_true]
      have e : y * g.stride + p.length + g.padW = A.length + p.length + g.padW := by omega
      rw [e]
      unfold buf8
      rw [setAt_rowImg A B g.stride g.padW g.wImg p v hx hw]
      have := ih (p ++ [v]) rest (by simp; omega)
      unfold buf8 at this
      simp only [List.length_append, List.length_singleton] at this
      simp only [this]
      simp [Nat.add_assoc, Nat.add_comm 1]
    · simp only [hx, if_false]
      have := ih (p ++ [v]) rest (by simp; omega)
      unfold buf8 at this ⊢
      rw [rowImg_snoc_ge _ _ _ _ _ (by omega)] at this
      simp only [List.length_append, List.length_singleton] at this
      simp only [this]
      simp [Nat.add_assoc, Nat.add_comm 1]

end Drx.Bitd
