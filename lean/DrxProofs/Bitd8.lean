/-
  C06, 8 bits per pixel: the PackBits loop and the raw loop of decoder8b.py paint exactly the rows of the image.
-/
import DrxProofs.BitdRows
namespace Drx.Bitd
open Drx Drx.Bitd.Spec

/-- the flat buffer with rows below `A` untouched, the current row painted up to `p`, finished rows in `B` -/
def buf8 (g : G8) (A B p : Bytes) : Bytes := A ++ rowImg g.stride g.padW g.wImg p ++ B

theorem paintRun8_spec (g : G8) (y : Nat) (v : UInt8) (A B : Bytes)
    (hA : A.length = y * g.stride) (hw : g.padW + g.wImg ≤ g.stride) :
    ∀ (n : Nat) (p : Bytes), p.length + n ≤ g.w →
      paintRun8 g y v n (buf8 g A B p) p.length = .ok (buf8 g A B (p ++ List.replicate n v), p.length + n) := by
  intro n
  induction n with
  | zero => intro p _; simp [paintRun8]
  | succ n ih =>
    intro p hp
    unfold paintRun8
    have h1 : ¬ (p.length ≥ g.w) := by omega
    simp only [h1, if_false]
    by_cases hx : p.length < g.wImg
    · simp only [hx, if_true]
      have e : y * g.stride + p.length + g.padW = A.length + p.length + g.padW := by omega
      rw [e]
      unfold buf8
      rw [setAt_rowImg A B g.stride g.padW g.wImg p v hx hw]
      have := ih (p ++ [v]) (by simp; omega)
      unfold buf8 at this
      simp only [List.length_append, List.length_singleton] at this
      simp only [this]
      simp [List.replicate_succ, Nat.add_assoc, Nat.add_comm 1 n]
    · simp only [hx, if_false]
      have := ih (p ++ [v]) (by simp; omega)
      unfold buf8 at this ⊢
      rw [rowImg_snoc_ge _ _ _ _ _ (by omega)] at this
      simp only [List.length_append, List.length_singleton] at this
      simp only [this]
      simp [List.replicate_succ, Nat.add_assoc, Nat.add_comm 1 n]

theorem paintLit8_spec (g : G8) (y : Nat) (A B : Bytes)
    (hA : A.length = y * g.stride) (hw : g.padW + g.wImg ≤ g.stride) :
    ∀ (bs : Bytes) (p rest : Bytes), p.length + bs.length ≤ g.w →
      paintLit8 g y bs.length (bs ++ rest) (buf8 g A B p) p.length
        = .ok (buf8 g A B (p ++ bs), p.length + bs.length, rest) := by
  intro bs
  induction bs with
  | nil => intro p rest _; simp [paintLit8]
  | cons v bs ih =>
    intro p rest hp
    simp only [List.length_cons] at hp ⊢
    unfold paintLit8
    have h1 : ¬ (p.length ≥ g.w) := by omega
    simp only [h1, if_false, List.cons_append]
    by_cases hx : p.length < g.wImg
    · simp only [hx, if_true]
      have e : y * g.stride + p.length + g.padW = A.length + p.length + g.padW := by omega
      rw [e]
      unfold buf8
      rw [setAt_rowImg A B g.stride g.padW g.wImg p v hx hw]
      have := ih (p ++ [v]) rest (by simp; omega)
      unfold buf8 at this
      simp only [List.length_append, List.length_singleton] at this
      simp only [this]
      simp [Nat.add_assoc, Nat.add_comm 1]
    · simp only [hx, if_false]
      have := ih (p ++ [v]) rest (by simp; omega)
      unfold buf8 at this ⊢
      rw [rowImg_snoc_ge _ _ _ _ _ (by omega)] at this
      simp only [List.length_append, List.length_singleton] at this
      simp only [this]
      simp [Nat.add_assoc, Nat.add_comm 1]

/-- after an operation: the row is complete (next row or stop) or not -/
def next8 (g : G8) (rest data : Bytes) (x y : Nat) : R Bytes :=
  if x ≥ g.w then (if y = 0 then .ok data else loop8 g rest data 0 (y - 1)) else loop8 g rest data x y

theorem loop8_run (g : G8) (n : Nat) (v : UInt8) (rest data : Bytes) (x y : Nat) (h2 : 2 ≤ n) (h128 : n ≤ 128) :
    loop8 g ((Op.run n v).bytes ++ rest) data x y =
      match paintRun8 g y v n data x with
      | .error e => .error e
      | .ok (data, x) => next8 g rest data x y := by
  have e1 : (UInt8.ofNat (257 - n)).toNat = 257 - n := by
    simp only [UInt8.toNat_ofNat']; omega
  simp only [Op.bytes, List.cons_append, List.nil_append]
  rw [loop8]
  have e2 : (257 - n ≥ 128) := by omega
  have e3 : 257 - (257 - n) = n := by omega
  simp only [e1, e2, e3, if_true, next8]
  cases paintRun8 g y v n data x <;> rfl

theorem loop8_lit (g : G8) (bs : Bytes) (rest data : Bytes) (x y : Nat) (h1 : 1 ≤ bs.length) (h128 : bs.length ≤ 128) :
    loop8 g ((Op.lit bs).bytes ++ rest) data x y =
      match paintLit8 g y bs.length (bs ++ rest) data x with
      | .error e => .error e
      | .ok (data, x, r2) => next8 g r2 data x y := by
  have e1 : (UInt8.ofNat (bs.length - 1)).toNat = bs.length - 1 := by
    simp only [UInt8.toNat_ofNat']; omega
  simp only [Op.bytes, List.cons_append]
  rw [loop8.eq_def]
  have e2 : ¬ (bs.length - 1 ≥ 128) := by omega
  have e3 : bs.length - 1 + 1 = bs.length := by omega
  have e4 : ¬ (bs.length > (bs ++ rest).length) := by simp
  simp only [e1, e2, e3, e4, if_false, next8]
  split <;> rename_i heq <;> rw [e1, e3] at heq <;> simp only [heq]

theorem expand_length_pos (o : Op) (h : o.valid = true) : 1 ≤ o.expand.length := by
  cases o with
  | lit bs => simp [Op.valid] at h; simp [Op.expand]; omega
  | run n v => simp [Op.valid] at h; simp [Op.expand]; omega

/-- one operation of a scan line -/
theorem loop8_op (g : G8) (y : Nat) (A B : Bytes) (hA : A.length = y * g.stride) (hw : g.padW + g.wImg ≤ g.stride)
    (o : Op) (hv : o.valid = true) (p rest : Bytes) (hp : p.length + o.expand.length ≤ g.w) :
    loop8 g (o.bytes ++ rest) (buf8 g A B p) p.length y
      = next8 g rest (buf8 g A B (p ++ o.expand)) (p.length + o.expand.length) y := by
  cases o with
  | lit bs =>
    simp only [Op.valid, Bool.and_eq_true, decide_eq_true_eq] at hv
    rw [loop8_lit g bs rest _ _ _ hv.1 hv.2]
    simp only [Op.expand] at hp ⊢
    rw [paintLit8_spec g y A B hA hw bs p rest hp]
  | run n v =>
    simp only [Op.valid, Bool.and_eq_true, decide_eq_true_eq] at hv
    rw [loop8_run g n v rest _ _ _ hv.1 hv.2]
    simp only [Op.expand, List.length_replicate] at hp ⊢
    rw [paintRun8_spec g y v A B hA hw n p hp]

/-- the operations of one scan line (they expand to exactly the `g.w` bytes of the line) -/
theorem loop8_ops (g : G8) (y : Nat) (A B : Bytes) (hA : A.length = y * g.stride) (hw : g.padW + g.wImg ≤ g.stride) (rest : Bytes) :
    ∀ (ops : List Op) (p : Bytes), (∀ o ∈ ops, o.valid = true) → ops ≠ [] → p.length + (unpack ops).length = g.w →
      loop8 g (packed ops ++ rest) (buf8 g A B p) p.length y =
        (if y = 0 then .ok (buf8 g A B (p ++ unpack ops)) else loop8 g rest (buf8 g A B (p ++ unpack ops)) 0 (y - 1)) := by
  intro ops
  induction ops with
  | nil => intro p _ h; exact absurd rfl h
  | cons o os ih =>
    intro p hv _ hlen
    have hvo := hv o (by simp)
    have hvos : ∀ o' ∈ os, o'.valid = true := fun o' h => hv o' (by simp [h])
    simp only [unpack, packed, List.flatMap_cons, List.length_append, List.append_assoc] at hlen ⊢
    rw [loop8_op g y A B hA hw o hvo p _ (by omega)]
    have hpos := expand_length_pos o hvo
    cases os with
    | nil =>
      simp only [List.flatMap_nil, List.length_nil, Nat.add_zero, List.nil_append, List.append_nil] at hlen ⊢
      unfold next8
      have : p.length + o.expand.length ≥ g.w := by omega
      simp only [this, if_true]
    | cons o2 os2 =>
      have hpos2 := expand_length_pos o2 (hvos o2 (by simp))
      have hlt : ¬ (p.length + o.expand.length ≥ g.w) := by
        simp only [List.flatMap_cons, List.length_append] at hlen; omega
      unfold next8
      simp only [hlt, if_false]
      have := ih (p ++ o.expand) hvos (by simp) (by simp only [unpack, List.length_append]; omega)
      simp only [List.length_append, unpack, packed] at this
      rw [this]
      simp [List.append_assoc]

theorem unpack_nil_of_valid (ops : List Op) (hv : ∀ o ∈ ops, o.valid = true) (h : (unpack ops).length = 0) : ops = [] := by
  cases ops with
  | nil => rfl
  | cons o os =>
    have := expand_length_pos o (hv o (by simp))
    simp only [unpack, List.flatMap_cons, List.length_append] at h
    omega

/-- all scan lines: `y + 1` lines, top line first, painted from file row `y` down to file row 0 -/
theorem loop8_rows (g : G8) (hw : g.padW + g.wImg ≤ g.stride) (hpos : 0 < g.w) (rest : Bytes) :
    ∀ (opsRows : List (List Op)) (rows : List Bytes) (y : Nat) (B : Bytes),
      validRows opsRows rows = true → rows.length = y + 1 → (∀ r ∈ rows, r.length = g.w) →
      loop8 g (packed opsRows.flatten ++ rest) (zeros ((y + 1) * g.stride) ++ B) 0 y
        = .ok ((rows.reverse.map fun r => rowImg g.stride g.padW g.wImg r).flatten ++ B) := by
  intro opsRows
  induction opsRows with
  | nil =>
    intro rows y B hv hl _
    cases rows with
    | nil => simp at hl
    | cons r rs => simp [validRows] at hv
  | cons ops os ih =>
    intro rows y B hv hl hlen
    cases rows with
    | nil => simp [validRows] at hv
    | cons r rs =>
      simp only [validRows, Bool.and_eq_true, List.all_eq_true, beq_iff_eq] at hv
      obtain ⟨⟨hvo, hun⟩, hvr⟩ := hv
      have hr : r.length = g.w := hlen r (by simp)
      have hne : ops ≠ [] := by
        intro h; subst h; simp [unpack] at hun; subst hun; simp at hr; omega
      have hz : zeros ((y + 1) * g.stride) = zeros (y * g.stride) ++ rowImg g.stride g.padW g.wImg [] := by
        rw [rowImg_nil _ _ _ (by omega), ← zeros_add]; congr 1; rw [Nat.add_mul]; simp
      have hstep := loop8_ops g y (zeros (y * g.stride)) B (by simp) hw (packed os.flatten ++ rest) ops []
        hvo hne (by simp [hun, hr])
      simp only [buf8, List.nil_append, List.length_nil] at hstep
      simp only [List.flatten_cons, packed, List.flatMap_append, List.append_assoc] at hstep ⊢
      rw [hz]
      simp only [List.append_assoc]
      rw [hstep, hun]
      by_cases hy : y = 0
      · subst hy
        have : rs = [] := by
          simp at hl; exact hl
        subst this
        simp [zeros_zero]
      · simp only [hy, if_false]
        obtain ⟨y', rfl⟩ : ∃ y', y = y' + 1 := ⟨y - 1, by omega⟩
        have hl' : rs.length = y' + 1 := by simp at hl; omega
        have := ih rs y' (rowImg g.stride g.padW g.wImg r ++ B) hvr hl' (fun r' h => hlen r' (by simp [h]))
        simp only [packed, Nat.add_sub_cancel] at this ⊢
        rw [this]
        simp [List.append_assoc]

/-! ### the raw path -/

theorem copyRow8_spec (fdata A B : Bytes) (stride ox w : Nat) (hw : ox + w ≤ stride) :
    ∀ (bs p : Bytes) (k : Nat) (rest : Bytes), fdata.drop k = bs ++ rest → p.length + bs.length ≤ w →
      copyRow8 fdata bs.length (A ++ rowImg stride ox w p ++ B) (A.length + ox + p.length) k
        = .ok (A ++ rowImg stride ox w (p ++ bs) ++ B, A.length + ox + (p.length + bs.length)) := by
  intro bs
  induction bs with
  | nil => intro p k rest _ _; simp [copyRow8]
  | cons v bs ih =>
    intro p k rest hd hp
    simp only [List.length_cons] at hp ⊢
    unfold copyRow8
    rw [byteAt_of_drop fdata k v (bs ++ rest) (by simpa using hd)]
    have e : A.length + ox + p.length = A.length + p.length + ox := by omega
    simp only [e]
    rw [setAt_rowImg A B stride ox w p v (by omega) hw]
    have := ih (p ++ [v]) (k + 1) rest (drop_succ_of_drop fdata k v (bs ++ rest) (by simpa using hd)) (by simp; omega)
    simp only [List.length_append, List.length_singleton] at this
    have e2 : A.length + p.length + ox + 1 = A.length + ox + (p.length + 1) := by omega
    simp only [e2, this]
    simp [Nat.add_assoc, Nat.add_comm 1]

/-- the `while y >= 0` loop: `n` lines still to copy; line `n - 1` of the source goes to the next free file row -/
theorem rawLoop8_spec (rows : List Bytes) (stride ox w wSize : Nat) (hw : ox + w ≤ stride) (hws : w ≤ wSize)
    (hl : ∀ r ∈ rows, r.length = wSize) (Z : Bytes) :
    ∀ (n : Nat) (done : Bytes), n ≤ rows.length →
      rawLoop8 rows.flatten w wSize ox (stride - w - ox) n (done ++ zeros (n * stride) ++ Z) done.length
        = .ok (done ++ (((rows.take n).reverse.map fun r => rowImg stride ox w r).flatten ++ Z)) := by
  intro n
  induction n with
  | zero => intro done _; simp [rawLoop8, zeros_zero]
  | succ y ih =>
    intro done hn
    unfold rawLoop8
    have hy : y < rows.length := by omega
    have hr : rows[y].length = wSize := hl _ (List.getElem_mem hy)
    have hz : zeros ((y + 1) * stride) = rowImg stride ox w [] ++ zeros (y * stride) := by
      rw [rowImg_nil _ _ _ (by omega), ← zeros_add]; congr 1; rw [Nat.add_mul]; omega
    have hd := drop_flatten_uniform wSize rows y hl hy
    have hd' : rows.flatten.drop (y * wSize) = rows[y].take w ++ (rows[y].drop w ++ (rows.drop (y + 1)).flatten) := by
      rw [hd, ← List.append_assoc, List.take_append_drop]
    have hc := copyRow8_spec rows.flatten done (zeros (y * stride) ++ Z) stride ox w hw (rows[y].take w) [] (y * wSize) _ hd'
      (by simp [List.length_take]; omega)
    have htl : (rows[y].take w).length = w := by simp [List.length_take]; omega
    simp only [htl, List.length_nil, Nat.add_zero, Nat.zero_add, List.nil_append] at hc
    rw [hz]
    simp only [List.append_assoc] at hc ⊢
    rw [hc]
    simp only
    have hdi : done.length + ox + w + (stride - w - ox) = (done ++ rowImg stride ox w (rows[y].take w)).length := by
      simp only [List.length_append, rowImg_length _ _ _ _ hw]; omega
    rw [hdi]
    have := ih (done ++ rowImg stride ox w (rows[y].take w)) (by omega)
    simp only [List.append_assoc] at this
    rw [this]
    rw [rowImg_take _ _ _ _ (by omega)]
    have ht : rows.take (y + 1) = rows.take y ++ [rows[y]] := by
      rw [List.take_add_one]; simp [List.getElem?_eq_getElem hy]
    rw [ht]
    simp only [List.reverse_append, List.reverse_cons, List.reverse_nil, List.nil_append, List.cons_append,
      List.map_cons, List.flatten_cons, List.append_assoc]

/-! ### the two paths of `Decoder8b.decode` on the scan lines of an image -/

theorem g8_of_le (W ox stride : Nat) (h : ox ≤ W) :
    g8 W ox stride = { stride := stride, padW := ox, wImg := W - ox, w := (W - ox) + (W - ox) % 2,
                       bw := if (W - ox) + (W - ox) % 2 + ox > stride then stride + 4 else stride } := by
  unfold g8
  have e1 : ((W : Int) - (ox : Int)).toNat = W - ox := by omega
  have e2 : (((W : Int) - (ox : Int)) + ((W : Int) - (ox : Int)) % 2).toNat = (W - ox) + (W - ox) % 2 := by omega
  have e3 : ((((W : Int) - (ox : Int)) + ((W : Int) - (ox : Int)) % 2 + (ox : Int) > (stride : Int))) ↔ ((W - ox) + (W - ox) % 2 + ox > stride) := by omega
  simp only [e1, e2, e3]

/-- the pixel area the compressed path produces: rows bottom-up at pitch `stride`, `oy` empty rows above them
    and (when the even-padded line does not fit the stride) `4·H` surplus bytes -/
theorem compressed8_spec (W H ox oy stride : Nat) (hox : ox ≤ W) (hoy : oy < H) (hst : W ≤ stride)
    (opsRows : List (List Op)) (rows : List Bytes) (hv : validRows opsRows rows = true)
    (hn : rows.length = H - oy) (hl : ∀ r ∈ rows, r.length = (W - ox) + (W - ox) % 2) (hpos : 0 < W - ox) :
    compressed8 (packed opsRows.flatten) W H ox oy stride
      = .ok ((rows.reverse.map fun r => rowImg stride ox (W - ox) r).flatten ++ zeros (oy * stride)
              ++ zeros (((g8 W ox stride).bw - stride) * H)) := by
  unfold compressed8
  have hg := g8_of_le W ox stride hox
  have hlt : ¬ (H < 1 + oy) := by omega
  simp only [hlt, if_false]
  have hz : zeros ((g8 W ox stride).bw * H) = zeros ((H - 1 - oy + 1) * (g8 W ox stride).stride)
      ++ (zeros (oy * stride) ++ zeros (((g8 W ox stride).bw - stride) * H)) := by
    rw [← zeros_add, ← zeros_add]; congr 1
    rw [hg]; simp only
    have e : H - 1 - oy + 1 = H - oy := by omega
    rw [e]
    have hm : (H - oy) * stride + oy * stride = stride * H := by
      rw [← Nat.add_mul]
      have : H - oy + oy = H := by omega
      rw [this]; exact Nat.mul_comm _ _
    split
    · have : stride + 4 - stride = 4 := by omega
      rw [this, Nat.add_mul]; omega
    · simp only [Nat.sub_self, Nat.zero_mul, Nat.add_zero]; omega
  rw [hz]
  have := loop8_rows (g8 W ox stride) (by rw [hg]; simp only; omega) (by rw [hg]; simp only; omega) [] opsRows rows (H - 1 - oy)
    (zeros (oy * stride) ++ zeros (((g8 W ox stride).bw - stride) * H)) hv (by omega) (by rw [hg]; exact hl)
  simp only [List.append_nil] at this
  rw [this, hg]
  simp only [List.append_assoc]

theorem raw8_spec (W H ox oy stride : Nat) (hox : ox ≤ W) (hoy : oy ≤ H) (hst : W ≤ stride)
    (rows : List Bytes) (hn : rows.length = H - oy) (hl : ∀ r ∈ rows, r.length = (W - ox) + (W - ox) % 2) :
    raw8 rows.flatten W H ox oy stride (((W : Int) - ox) + ((W : Int) - ox) % 2)
      = .ok ((rows.reverse.map fun r => rowImg stride ox (W - ox) r).flatten ++ zeros (oy * stride)) := by
  unfold raw8
  have e1 : ((W : Int) - (ox : Int)).toNat = W - ox := by omega
  have e2 : (((W : Int) - (ox : Int)) + ((W : Int) - (ox : Int)) % 2).toNat = (W - ox) + (W - ox) % 2 := by omega
  have e3 : ((stride : Int) - ((W : Int) - (ox : Int)) - (ox : Int)).toNat = stride - (W - ox) - ox := by omega
  simp only [e1, e2, e3]
  have hz : zeros (stride * H) = [] ++ zeros ((H - oy) * stride) ++ zeros (oy * stride) := by
    simp only [List.nil_append]
    rw [← zeros_add, ← Nat.add_mul]; congr 1
    have : H - oy + oy = H := by omega
    rw [this]; exact Nat.mul_comm _ _
  rw [hz]
  have := rawLoop8_spec rows stride ox (W - ox) ((W - ox) + (W - ox) % 2) (by omega) (by omega) hl (zeros (oy * stride))
    (H - oy) [] (by omega)
  simp only [List.length_nil] at this
  rw [this, ← hn, List.take_length]
  simp

end Drx.Bitd
