/-
  C06, 8 bits per pixel: the PackBits loop and the raw loop of decoder8b.py paint exactly the rows of the image.
-/
import DrxProofs.BitdRows
namespace Drx.Bitd
open Drx Drx.Bitd.Spec

/-- the flat buffer with rows below `A` untouched, the current row painted up to `p`, finished rows in `B` -/
def buf8 (g : G8) (A B p : Bytes) : Bytes := A ++ rowImg g.stride g.padW g.wImg p ++ B

theorem paintRun8_spec (g : G8) (y : Nat) (v : UInt8) (A B : Bytes)
    (hA : A.length = y * g.stride) (hw : g.padW + g.wImg ≤ g.stride) :
    ∀ (n : Nat) (p : Bytes), p.length + n ≤ g.w →
      paintRun8 g y v n (buf8 g A B p) p.length = .ok (buf8 g A B (p ++ List.replicate n v), p.length + n) := by
  intro n
  induction n with
  | zero => intro p _; simp [paintRun8]
  | succ n ih =>
    intro p hp
    unfold paintRun8
    have h1 : ¬ (p.length ≥ g.w) := by omega
    simp only [h1, if_false]
    by_cases hx : p.length < g.wImg
    · simp only [hx, if_true]
      have e : y * g.stride + p.length + g.padW = A.length + p.length + g.padW := by omega
      rw [e]
      unfold buf8
      rw [setAt_rowImg A B g.stride g.padW g.wImg p v hx hw]
      have := ih (p ++ [v]) (by simp; omega)
      unfold buf8 at this
      simp only [List.length_append, List.length_singleton] at this
      simp only [this]
      simp [List.replicate_succ, Nat.add_assoc, Nat.add_comm 1 n]
    · simp only [hx, if_false]
      have := ih (p ++ [v]) (by simp; omega)
      unfold buf8 at this ⊢
      rw [rowImg_snoc_ge _ _ _ _ _ (by omega)] at this
      simp only [List.length_append, List.length_singleton] at this
      simp only [this]
      simp [List.replicate_succ, Nat.add_assoc, Nat.add_comm 1 n]

theorem paintLit8_spec (g : G8) (y : Nat) (A B : Bytes)
    (hA : A.length = y * g.stride) (hw : g.padW + g.wImg ≤ g.stride) :
    ∀ (bs : Bytes) (p rest : Bytes), p.length + bs.length ≤ g.w →
      paintLit8 g y bs.length (bs ++ rest) (buf8 g A B p) p.length
        = .ok (buf8 g A B (p ++ bs), p.length + bs.length, rest) := by
  intro bs
  induction bs with
  | nil => intro p rest _; simp [paintLit8]
  | cons v bs ih =>
    intro p rest hp
    simp only [List.length_cons] at hp ⊢
    unfold paintLit8
    have h1 : ¬ (p.length ≥ g.w) := by omega
    simp only [h1, if_false, List.cons_append]
    by_cases hx : p.length < g.wImg
    · simp only [hx, if_true]
      have e : y * g.stride + p.length + g.padW = A.length + p.length + g.padW := by omega
      rw [e]
      unfold buf8
      rw [setAt_rowImg A B g.stride g.padW g.wImg p v hx hw]
      have := ih (p ++ [v]) rest (by simp; omega)
      unfold buf8 at this
      simp only [List.length_append, List.length_singleton] at this
      simp only [this]
      simp [Nat.add_assoc, Nat.add_comm 1]
    · simp only [hx, if_false]
      have := ih (p ++ [v]) rest (by simp; omega)
      unfold buf8 at this ⊢
      rw [rowImg_snoc_ge _ _ _ _ _ (by omega)] at this
      simp only [List.length_append, List.length_singleton] at this
      simp only [this]
      simp [Nat.add_assoc, Nat.add_comm 1]

/-- after an operation: the row is complete (next row or stop) or not -/
def next8 (g : G8) (rest data : Bytes) (x y : Nat) : R Bytes :=
  if x ≥ g.w then (if y = 0 then .ok data else loop8 g rest data 0 (y - 1)) else loop8 g rest data x y

theorem loop8_run (g : G8) (n : Nat) (v : UInt8) (rest data : Bytes) (x y : Nat) (h2 : 2 ≤ n) (h128 : n ≤ 128) :
    loop8 g ((Op.run n v).bytes ++ rest) data x y =
      match paintRun8 g y v n data x with
      | .error e => .error e
      | .ok (data, x) => next8 g rest data x y := by
  have e1 : (UInt8.ofNat (257 - n)).toNat = 257 - n := by
    simp only [UInt8.toNat_ofNat']; omega
  simp only [Op.bytes, List.cons_append, List.nil_append]
  rw [loop8]
  have e2 : (257 - n ≥ 128) := by omega
  have e3 : 257 - (257 - n) = n := by omega
  simp only [e1, e2, e3, if_true, next8]
  cases paintRun8 g y v n data x <;> rfl

theorem loop8_lit (g : G8) (bs : Bytes) (rest data : Bytes) (x y : Nat) (h1 : 1 ≤ bs.length) (h128 : bs.length ≤ 128) :
    loop8 g ((Op.lit bs).bytes ++ rest) data x y =
      match paintLit8 g y bs.length (bs ++ rest) data x with
      | .error e => .error e
      | .ok (data, x, r2) => next8 g r2 data x y := by
  have e1 : (UInt8.ofNat (bs.length - 1)).toNat = bs.length - 1 := by
    simp only [UInt8.toNat_ofNat']; omega
  simp only [Op.bytes, List.cons_append]
  rw [loop8.eq_def]
  have e2 : ¬ (bs.length - 1 ≥ 128) := by omega
  have e3 : bs.length - 1 + 1 = bs.length := by omega
  have e4 : ¬ (bs.length > (bs ++ rest).length) := by simp
  simp only [e1, e2, e3, e4, if_false, next8]
  split <;> rename_i heq <;> rw [e1, e3] at heq <;> simp only [heq]

theorem expand_length_pos (o : Op) (h : o.valid = true) : 1 ≤ o.expand.length := by
  cases o with
  | lit bs => simp [Op.valid] at h; simp [Op.expand]; omega
  | run n v => simp [Op.valid] at h; simp [Op.expand]; omega

/-- one operation of a scan line -/
theorem loop8_op (g : G8) (y : Nat) (A B : Bytes) (hA : A.length = y * g.stride) (hw : g.padW + g.wImg ≤ g.stride)
    (o : Op) (hv : o.valid = true) (p rest : Bytes) (hp : p.length + o.expand.length ≤ g.w) :
    loop8 g (o.bytes ++ rest) (buf8 g A B p) p.length y
      = next8 g rest (buf8 g A B (p ++ o.expand)) (p.length + o.expand.length) y := by
  cases o with
  | lit bs =>
    simp only [Op.valid, Bool.and_eq_true, decide_eq_true_eq] at hv
    rw [loop8_lit g bs rest _ _ _ hv.1 hv.2]
    simp only [Op.expand] at hp ⊢
    rw [paintLit8_spec g y A B hA hw bs p rest hp]
  | run n v =>
    simp only [Op.valid, Bool.and_eq_true, decide_eq_true_eq] at hv
    rw [loop8_run g n v rest _ _ _ hv.1 hv.2]
    simp only [Op.expand, List.length_replicate] at hp ⊢
    rw [paintRun8_spec g y v A B hA hw n p hp]

/-- the operations of one scan line (they expand to exactly the `g.w` bytes of the line) -/
theorem loop8_ops (g : G8) (y : Nat) (A B : Bytes) (hA : A.length = y * g.stride) (hw : g.padW + g.wImg ≤ g.stride) (rest : Bytes) :
    ∀ (ops : List Op) (p : Bytes), (∀ o ∈ ops, o.valid = true) → ops ≠ [] → p.length + (unpack ops).length = g.w →
      loop8 g (packed ops ++ rest) (buf8 g A B p) p.length y =
        (if y = 0 then .ok (buf8 g A B (p ++ unpack ops)) else loop8 g rest (buf8 g A B (p ++ unpack ops)) 0 (y - 1)) := by
  intro ops
  induction ops with
  | nil => intro p _ h; exact absurd rfl h
  | cons o os ih =>
    intro p hv _ hlen
    have hvo := hv o (by simp)
    have hvos : ∀ o' ∈ os, o'.valid = true := fun o' h => hv o' (by simp [h])
    simp only [unpack, packed, List.flatMap_cons, List.length_append, List.append_assoc] at hlen ⊢
    rw [loop8_op g y A B hA hw o hvo p _ (by omega)]
    have hpos := expand_length_pos o hvo
    cases os with
    | nil =>
      simp only [List.flatMap_nil, List.length_nil, Nat.add_zero, List.nil_append, List.append_nil] at hlen ⊢
      unfold next8
      have : p.length + o.expand.length ≥ g.w := by omega
      simp only [this, if_true]
    | cons o2 os2 =>
      have hpos2 := expand_length_pos o2 (hvos o2 (by simp))
      have hlt : ¬ (p.length + o.expand.length ≥ g.w) := by
        simp only [List.flatMap_cons, List.length_append] at hlen; omega
      unfold next8
      simp only [hlt, if_false]
      have := ih (p ++ o.expand) hvos (by simp) (by simp only [unpack, List.length_append]; omega)
      simp only [List.length_append, unpack, packed] at this
      rw [this]
      simp [List.append_assoc]

theorem unpack_nil_of_valid (ops : List Op) (hv : ∀ o ∈ ops, o.valid = true) (h : (unpack ops).length = 0) : ops = [] := by
  cases ops with
  | nil => rfl
  | cons o os =>
    have := expand_length_pos o (hv o (by simp))
    simp only [unpack, List.flatMap_cons, List.length_append] at h
    omega

/-- all scan lines: `y + 1` lines, top line first, painted from file row `y` down to file row 0 -/
theorem loop8_rows (g : G8) (hw : g.padW + g.wImg ≤ g.stride) (hpos : 0 < g.w) (rest : Bytes) :
    ∀ (opsRows : List (List Op)) (rows : List Bytes) (y : Nat) (B : Bytes),
      validRows opsRows rows = true → rows.length = y + 1 → (∀ r ∈ rows, r.length = g.w) →
      loop8 g (packed opsRows.flatten ++ rest) (zeros ((y + 1) * g.stride) ++ B) 0 y
        = .ok ((rows.reverse.map fun r => rowImg g.stride g.padW g.wImg r).flatten ++ B) := by
  intro opsRows
  induction opsRows with
  | nil =>
    intro rows y B hv hl _
    cases rows with
    | nil => simp at hl
    | cons r rs => simp [validRows] at hv
  | cons ops os ih =>
    intro rows y B hv hl hlen
    cases rows with
    | nil => simp [validRows] at hv
    | cons r rs =>
      simp only [validRows, Bool.and_eq_true, List.all_eq_true, beq_iff_eq] at hv
      obtain ⟨⟨hvo, hun⟩, hvr⟩ := hv
      have hr : r.length = g.w := hlen r (by simp)
      have hne : ops ≠ [] := by
        intro h; subst h; simp [unpack] at hun; subst hun; simp at hr; omega
      have hz : zeros ((y + 1) * g.stride) = zeros (y * g.stride) ++ rowImg g.stride g.padW g.wImg [] := by
        rw [rowImg_nil _ _ _ (by omega), ← zeros_add]; congr 1; rw [Nat.add_mul]; simp
      have hstep := loop8_ops g y (zeros (y * g.stride)) B (by simp) hw (packed os.flatten ++ rest) ops []
        hvo hne (by simp [hun, hr])
      simp only [buf8, List.nil_append, List.length_nil] at hstep
      simp only [List.flatten_cons, packed, List.flatMap_append, List.append_assoc] at hstep ⊢
      rw [hz]
      simp only [List.append_assoc]
      rw [hstep, hun]
      by_cases hy : y = 0
      · subst hy
        have : rs = [] := by
          simp at hl; exact hl
        subst this
        simp [zeros_zero]
      · simp only [hy, if_false]
        obtain ⟨y', rfl⟩ : ∃ y', y = y' + 1 := ⟨y - 1, by omega⟩
        have hl' : rs.length = y' + 1 := by simp at hl; omega
        have := ih rs y' (rowImg g.stride g.padW g.wImg r ++ B) hvr hl' (fun r' h => hlen r' (by simp [h]))
        simp only [packed, Nat.add_sub_cancel, List.append_assoc] at this ⊢
        rw [this]
        simp [List.append_assoc]

end Drx.Bitd
