/-
  Rendering a token list and lexing it again is the identity:  lex (renderToks ts) = some ts  for token lists whose tokens
  are individually well-formed (`safeToks`).  The renderer separates every token by a space (none after `#`), so there is no
  hazard between ADJACENT tokens (`- -` never becomes `--`, two words never fuse); what remains are hazards INSIDE a token.
-/
import Drx.Spec.LingoPrint
namespace Drx.Spec
set_option linter.unusedSimpArgs false

/-- an identifier the lexer reads back as one identifier token -/
def validId : Name → Bool
  | [] => false
  | c :: cs => isIdStart c && cs.all isIdChar

/-- string content that can stand between two quotes -/
def safeStr (s : Name) : Bool := s.all fun x => x != '"' && x != '\n' && x != '\r'

/-- the hazard predicate (decidable): identifiers are identifiers, string literals contain no quote and no line end, a decimal
    literal has at least one digit after the point -/
def safeTok : Tok → Bool
  | .id s => validId s
  | .num _ => true
  | .flt _ s => decide (1 ≤ s)
  | .str s => safeStr s
  | .p _ => true
  | .nl => true

def safeToks (ts : List Tok) : Bool := ts.all safeTok

/-! ### character classes -/

theorem idStart_not_digit (c : Char) (h : isIdStart c = true) : c.isDigit = false := by
  simp only [isIdStart, Char.isAlpha, Char.isUpper, Char.isLower, Bool.or_eq_true, Bool.and_eq_true, decide_eq_true_eq, beq_iff_eq] at h
  simp only [Char.isDigit, Bool.and_eq_false_iff, decide_eq_false_iff_not]
  have eA : 'A'.val.toNat = 65 := rfl
  have eZ : 'Z'.val.toNat = 90 := rfl
  have ea : 'a'.val.toNat = 97 := rfl
  have ez : 'z'.val.toNat = 122 := rfl
  have e0 : '0'.val.toNat = 48 := rfl
  have e9 : '9'.val.toNat = 57 := rfl
  simp only [ge_iff_le, UInt32.le_iff_toNat_le] at h ⊢
  rcases h with (h | h) | h
  · omega
  · omega
  · subst h; decide

theorem idStart_ne (c l : Char) (h : isIdStart c = true) (hl : isIdStart l = false) : (c == l) = false := by
  cases hc : c == l with
  | false => rfl
  | true => have := eq_of_beq hc; subst this; rw [h] at hl; cases hl

theorem idStart_idChar (c : Char) (h : isIdStart c = true) : isIdChar c = true := by
  simp only [isIdStart, Bool.or_eq_true] at h
  simp only [isIdChar, Char.isAlphanum, Bool.or_eq_true]
  rcases h with h | h
  · exact Or.inl (Or.inl h)
  · exact Or.inr h

theorem spanC_append (p : Char → Bool) (a : List Char) (b : Char) (r : List Char)
    (ha : a.all p = true) (hb : p b = false) : spanC p (a ++ b :: r) = (a, b :: r) := by
  induction a with
  | nil => simp [spanC, hb]
  | cons x xs ih =>
    simp only [List.all_cons, Bool.and_eq_true] at ha
    simp [spanC, ha.1, ih ha.2]

/-! ### one token at a time -/

theorem lex_space (f : Nat) (rest : List Char) (acc : List Tok) : lexAux (f + 1) (' ' :: rest) acc = lexAux f rest acc := by
  simp [lexAux]

theorem lex_id (f : Nat) (c : Char) (cs rest : List Char) (acc : List Tok) (h : validId (c :: cs) = true) :
    lexAux (f + 2) ((c :: cs) ++ ' ' :: rest) acc = lexAux f rest (.id (c :: cs) :: acc) := by
  simp only [validId, Bool.and_eq_true] at h
  obtain ⟨h1, h2⟩ := h
  have n1 := idStart_ne c ' ' h1 (by decide)
  have n2 := idStart_ne c '\t' h1 (by decide)
  have n3 := idStart_ne c '\n' h1 (by decide)
  have n4 := idStart_ne c '\r' h1 (by decide)
  have n5 := idStart_ne c '-' h1 (by decide)
  have n6 := idStart_ne c '"' h1 (by decide)
  have n7 := idStart_not_digit c h1
  have hall : (c :: cs).all isIdChar = true := by simp [idStart_idChar c h1, h2]
  have hsp := spanC_append isIdChar (c :: cs) ' ' rest hall (by decide)
  rw [List.cons_append] at hsp ⊢
  rw [lexAux.eq_def]
  simp only [n1, n2, n3, n4, n5, n6, n7, h1, hsp, Bool.or_self, Bool.false_eq_true, if_false, if_true]
  exact lex_space f rest _

theorem lex_str (f : Nat) (s rest : List Char) (acc : List Tok) (h : safeStr s = true) :
    lexAux (f + 2) (('"' :: s ++ ['"']) ++ ' ' :: rest) acc = lexAux f rest (.str s :: acc) := by
  have hsp := spanC_append (fun x => x != '"' && x != '\n' && x != '\r') s '"' (' ' :: rest) h (by decide)
  have e : ('"' :: s ++ ['"']) ++ ' ' :: rest = '"' :: (s ++ '"' :: ' ' :: rest) := by simp
  rw [e, lexAux.eq_def]
  simp only [hsp]
  simp
  exact lex_space f rest _

theorem pc_s0 : isIdStart '#' = false := by decide
theorem pc_d0 : Char.isDigit '#' = false := by decide
theorem pc_s1 : isIdStart '(' = false := by decide
theorem pc_d1 : Char.isDigit '(' = false := by decide
theorem pc_s2 : isIdStart ')' = false := by decide
theorem pc_d2 : Char.isDigit ')' = false := by decide
theorem pc_s3 : isIdStart '[' = false := by decide
theorem pc_d3 : Char.isDigit '[' = false := by decide
theorem pc_s4 : isIdStart ']' = false := by decide
theorem pc_d4 : Char.isDigit ']' = false := by decide
theorem pc_s5 : isIdStart ',' = false := by decide
theorem pc_d5 : Char.isDigit ',' = false := by decide
theorem pc_s6 : isIdStart ':' = false := by decide
theorem pc_d6 : Char.isDigit ':' = false := by decide
theorem pc_s7 : isIdStart '=' = false := by decide
theorem pc_d7 : Char.isDigit '=' = false := by decide
theorem pc_s8 : isIdStart '<' = false := by decide
theorem pc_d8 : Char.isDigit '<' = false := by decide
theorem pc_s9 : isIdStart '>' = false := by decide
theorem pc_d9 : Char.isDigit '>' = false := by decide
theorem pc_s10 : isIdStart '&' = false := by decide
theorem pc_d10 : Char.isDigit '&' = false := by decide
theorem pc_s11 : isIdStart '+' = false := by decide
theorem pc_d11 : Char.isDigit '+' = false := by decide
theorem pc_s12 : isIdStart '-' = false := by decide
theorem pc_d12 : Char.isDigit '-' = false := by decide
theorem pc_s13 : isIdStart '*' = false := by decide
theorem pc_d13 : Char.isDigit '*' = false := by decide
theorem pc_s14 : isIdStart '/' = false := by decide
theorem pc_d14 : Char.isDigit '/' = false := by decide
theorem pc_s15 : isIdStart '\n' = false := by decide
theorem pc_d15 : Char.isDigit '\n' = false := by decide

theorem lex_hash (f : Nat) (rest : List Char) (acc : List Tok) : lexAux (f + 1) ('#' :: rest) acc = lexAux f rest (.p .hash :: acc) := by
  simp [lexAux, pc_s0, pc_d0, pc_s1, pc_d1, pc_s2, pc_d2, pc_s3, pc_d3, pc_s4, pc_d4, pc_s5, pc_d5, pc_s6, pc_d6, pc_s7, pc_d7, pc_s8, pc_d8, pc_s9, pc_d9, pc_s10, pc_d10, pc_s11, pc_d11, pc_s12, pc_d12, pc_s13, pc_d13, pc_s14, pc_d14, pc_s15, pc_d15]

theorem lex_nl (f : Nat) (rest : List Char) (acc : List Tok) : lexAux (f + 1) ('\n' :: rest) acc = lexAux f rest (.nl :: acc) := by
  simp [lexAux, pc_s0, pc_d0, pc_s1, pc_d1, pc_s2, pc_d2, pc_s3, pc_d3, pc_s4, pc_d4, pc_s5, pc_d5, pc_s6, pc_d6, pc_s7, pc_d7, pc_s8, pc_d8, pc_s9, pc_d9, pc_s10, pc_d10, pc_s11, pc_d11, pc_s12, pc_d12, pc_s13, pc_d13, pc_s14, pc_d14, pc_s15, pc_d15]

theorem lex_punct (f : Nat) (x : P) (hx : x ≠ .hash) (rest : List Char) (acc : List Tok) :
    lexAux (f + 2) (x.text.toList ++ ' ' :: rest) acc = lexAux f rest (.p x :: acc) := by
  cases x <;> first | exact absurd rfl hx | simp [P.text, lexAux, pc_s0, pc_d0, pc_s1, pc_d1, pc_s2, pc_d2, pc_s3, pc_d3, pc_s4, pc_d4, pc_s5, pc_d5, pc_s6, pc_d6, pc_s7, pc_d7, pc_s8, pc_d8, pc_s9, pc_d9, pc_s10, pc_d10, pc_s11, pc_d11, pc_s12, pc_d12, pc_s13, pc_d13, pc_s14, pc_d14, pc_s15, pc_d15]

theorem digitChar_isDigit : ∀ d, d < 10 → (digitChar d).isDigit = true := by decide
theorem digitChar_val : ∀ d, d < 10 → (digitChar d).toNat - 48 = d := by decide

theorem digitsVal_foldl (l : List Char) (a : Nat) :
    l.foldl (fun n c => n * 10 + (c.toNat - 48)) a = a * 10 ^ l.length + digitsVal l := by
  induction l generalizing a with
  | nil => simp [digitsVal]
  | cons c cs ih =>
    simp only [List.foldl_cons, digitsVal, List.length_cons]
    rw [ih, ih (0 * 10 + (c.toNat - 48))]
    simp only [Nat.pow_succ, Nat.zero_mul, Nat.zero_add]
    rw [Nat.add_mul, Nat.mul_assoc, Nat.mul_comm 10 (10 ^ cs.length), Nat.add_assoc]

theorem digitsVal_snoc (l : List Char) (c : Char) : digitsVal (l ++ [c]) = digitsVal l * 10 + (c.toNat - 48) := by
  simp [digitsVal, List.foldl_append]

theorem natDigits_val (n : Nat) : digitsVal (natDigits n) = n := by
  induction n using Nat.strongRecOn with
  | _ n ih =>
    rw [natDigits]
    split
    · rename_i h
      simp [digitsVal, digitChar_val n h]
    · rename_i h
      rw [digitsVal_snoc, ih (n / 10) (by omega), digitChar_val (n % 10) (by omega)]
      omega

theorem natDigits_all (n : Nat) : (natDigits n).all Char.isDigit = true := by
  induction n using Nat.strongRecOn with
  | _ n ih =>
    rw [natDigits]
    split
    · rename_i h; simp [digitChar_isDigit n h]
    · rename_i h
      simp [ih (n / 10) (by omega), digitChar_isDigit (n % 10) (by omega)]

theorem natDigits_ne_nil (n : Nat) : natDigits n ≠ [] := by
  rw [natDigits]
  split <;> simp

theorem digit_ne (c l : Char) (h : c.isDigit = true) (hl : l.isDigit = false) : (c == l) = false := by
  cases hc : c == l with
  | false => rfl
  | true => have := eq_of_beq hc; subst this; rw [h] at hl; cases hl

theorem digit_not_idStart (c : Char) (h : c.isDigit = true) : isIdStart c = false := by
  cases hs : isIdStart c with
  | false => rfl
  | true => rw [idStart_not_digit c hs] at h; cases h

theorem lex_num (f : Nat) (n : Nat) (rest : List Char) (acc : List Tok) :
    lexAux (f + 2) (natDigits n ++ ' ' :: rest) acc = lexAux f rest (.num n :: acc) := by
  have hall := natDigits_all n
  have hval := natDigits_val n
  cases hd : natDigits n with
  | nil => exact absurd hd (natDigits_ne_nil n)
  | cons c cs =>
    rw [hd] at hall hval
    have hc : c.isDigit = true := by simp only [List.all_cons, Bool.and_eq_true] at hall; exact hall.1
    have n1 := digit_ne c ' ' hc (by decide)
    have n2 := digit_ne c '\t' hc (by decide)
    have n3 := digit_ne c '\n' hc (by decide)
    have n4 := digit_ne c '\r' hc (by decide)
    have n5 := digit_ne c '-' hc (by decide)
    have n6 := digit_ne c '"' hc (by decide)
    have hsp := spanC_append Char.isDigit (c :: cs) ' ' rest hall (by decide)
    rw [List.cons_append] at hsp ⊢
    rw [lexAux.eq_def]
    simp only [n1, n2, n3, n4, n5, n6, hc, hsp, Bool.or_self, Bool.false_eq_true, if_false, if_true, hval]
    exact lex_space f rest _

theorem digitsVal_zeros (k : Nat) (l : List Char) : digitsVal (List.replicate k '0' ++ l) = digitsVal l := by
  induction k with
  | zero => simp
  | succ k ih =>
    simp only [List.replicate_succ, List.cons_append, digitsVal, List.foldl_cons] at ih ⊢
    simpa using ih

/-- the digit string of a decimal literal: at least `s + 1` digits -/
def fltDigits (d s : Nat) : List Char :=
  let ds := natDigits d
  if ds.length ≤ s then List.replicate (s + 1 - ds.length) '0' ++ ds else ds

theorem fltText_eq (d s : Nat) : fltText d s = (fltDigits d s).take ((fltDigits d s).length - s) ++ '.' :: (fltDigits d s).drop ((fltDigits d s).length - s) := by
  simp only [fltText, fltDigits]

theorem fltDigits_len (d s : Nat) : s < (fltDigits d s).length := by
  simp only [fltDigits]
  split
  · simp; omega
  · omega

theorem fltDigits_all (d s : Nat) : (fltDigits d s).all Char.isDigit = true := by
  simp only [fltDigits]
  split
  · simp only [List.all_append, natDigits_all, Bool.and_true]
    simp
  · exact natDigits_all d

theorem fltDigits_val (d s : Nat) : digitsVal (fltDigits d s) = d := by
  simp only [fltDigits]
  split
  · rw [digitsVal_zeros, natDigits_val]
  · exact natDigits_val d

theorem all_take {α} (p : α → Bool) (l : List α) (k : Nat) (h : l.all p = true) : (l.take k).all p = true := by
  simp only [List.all_eq_true] at h ⊢
  exact fun x hx => h x (List.mem_of_mem_take hx)

theorem all_drop {α} (p : α → Bool) (l : List α) (k : Nat) (h : l.all p = true) : (l.drop k).all p = true := by
  simp only [List.all_eq_true] at h ⊢
  exact fun x hx => h x (List.mem_of_mem_drop hx)

theorem lex_flt (f : Nat) (d s : Nat) (hs : 1 ≤ s) (rest : List Char) (acc : List Tok) :
    lexAux (f + 2) (fltText d s ++ ' ' :: rest) acc = lexAux f rest (.flt d s :: acc) := by
  have hlen := fltDigits_len d s
  have hall := fltDigits_all d s
  have hval := fltDigits_val d s
  generalize hD : fltDigits d s = D at hlen hall hval
  rw [fltText_eq, hD]
  have hip : (D.take (D.length - s)).all Char.isDigit = true := all_take _ _ _ hall
  have hfp : (D.drop (D.length - s)).all Char.isDigit = true := all_drop _ _ _ hall
  have hfl : (D.drop (D.length - s)).length = s := by simp; omega
  cases hI : D.take (D.length - s) with
  | nil =>
    have : (D.take (D.length - s)).length = D.length - s := by simp
    rw [hI] at this; simp at this; omega
  | cons c cs =>
    cases hF : D.drop (D.length - s) with
    | nil => rw [hF] at hfl; simp at hfl; omega
    | cons e es =>
      rw [hI] at hip; rw [hF] at hfp hfl
      have hc : c.isDigit = true := by simp only [List.all_cons, Bool.and_eq_true] at hip; exact hip.1
      have he : e.isDigit = true := by simp only [List.all_cons, Bool.and_eq_true] at hfp; exact hfp.1
      have n1 := digit_ne c ' ' hc (by decide)
      have n2 := digit_ne c '\t' hc (by decide)
      have n3 := digit_ne c '\n' hc (by decide)
      have n4 := digit_ne c '\r' hc (by decide)
      have n5 := digit_ne c '-' hc (by decide)
      have n6 := digit_ne c '"' hc (by decide)
      have hsp1 := spanC_append Char.isDigit (c :: cs) '.' (e :: es ++ ' ' :: rest) hip (by decide)
      have hsp2 := spanC_append Char.isDigit (e :: es) ' ' rest hfp (by decide)
      have hjoin : (c :: cs) ++ (e :: es) = D := by rw [← hI, ← hF]; exact List.take_append_drop _ _
      have hv : digitsVal ((c :: cs) ++ (e :: es)) = d := by rw [hjoin]; exact hval
      have e1 : ((c :: cs) ++ '.' :: (e :: es)) ++ ' ' :: rest = c :: (cs ++ '.' :: (e :: es ++ ' ' :: rest)) := by simp
      rw [e1, lexAux.eq_def]
      rw [List.cons_append] at hsp1 hsp2
      simp only [n1, n2, n3, n4, n5, n6, hc, hsp1, Bool.or_self, Bool.false_eq_true, if_false, if_true]
      simp only [List.cons_append, he, if_true, hsp2, hfl]
      rw [List.cons_append] at hv
      rw [hv]
      exact lex_space f rest _

/-! ### the whole token list -/

def lexFuel : List Tok → Nat
  | [] => 1
  | .p .hash :: ts => lexFuel ts + 1
  | .nl :: ts => lexFuel ts + 1
  | _ :: ts => lexFuel ts + 2

theorem lexFuel_pos (ts : List Tok) : 1 ≤ lexFuel ts := by
  induction ts with
  | nil => simp [lexFuel]
  | cons t ts ih =>
    cases t with
    | p x => cases x <;> simp [lexFuel] <;> omega
    | nl => simp [lexFuel]
    | id s => simp [lexFuel]
    | num n => simp [lexFuel]
    | flt a b => simp [lexFuel]
    | str s => simp [lexFuel]

theorem lexAux_render : ∀ (ts : List Tok), safeToks ts = true → ∀ (acc : List Tok) (F : Nat), lexFuel ts ≤ F →
    lexAux F (renderToks ts) acc = some (acc.reverse ++ ts)
  | [], _, acc, F, hF => by
    obtain ⟨f, rfl⟩ : ∃ f, F = f + 1 := ⟨F - 1, by simp [lexFuel] at hF; omega⟩
    simp [renderToks, lexAux]
  | t :: ts, h, acc, F, hF => by
    simp only [safeToks, List.all_cons, Bool.and_eq_true] at h
    obtain ⟨ht, hts⟩ := h
    have ih := fun acc' F' hF' => lexAux_render ts (by simpa [safeToks] using hts) acc' F' hF'
    have hpos := lexFuel_pos ts
    cases t with
    | nl =>
      obtain ⟨f, rfl⟩ : ∃ f, F = f + 1 := ⟨F - 1, by simp [lexFuel] at hF; omega⟩
      simp only [renderToks]
      rw [lex_nl, ih _ f (by simp [lexFuel] at hF; omega)]
      simp
    | id s =>
      obtain ⟨f, rfl⟩ : ∃ f, F = f + 2 := ⟨F - 2, by simp [lexFuel] at hF; omega⟩
      cases s with
      | nil => simp [safeTok, validId] at ht
      | cons c cs =>
        simp only [renderToks, Tok.text]
        rw [lex_id f c cs _ _ (by simpa [safeTok] using ht), ih _ f (by simp [lexFuel] at hF; omega)]
        simp
    | num n =>
      obtain ⟨f, rfl⟩ : ∃ f, F = f + 2 := ⟨F - 2, by simp [lexFuel] at hF; omega⟩
      simp only [renderToks, Tok.text]
      rw [lex_num, ih _ f (by simp [lexFuel] at hF; omega)]
      simp
    | flt a b =>
      obtain ⟨f, rfl⟩ : ∃ f, F = f + 2 := ⟨F - 2, by simp [lexFuel] at hF; omega⟩
      simp only [renderToks, Tok.text]
      rw [lex_flt f a b (by simpa [safeTok] using ht), ih _ f (by simp [lexFuel] at hF; omega)]
      simp
    | str s =>
      obtain ⟨f, rfl⟩ : ∃ f, F = f + 2 := ⟨F - 2, by simp [lexFuel] at hF; omega⟩
      simp only [renderToks, Tok.text]
      rw [lex_str f s _ _ (by simpa [safeTok] using ht), ih _ f (by simp [lexFuel] at hF; omega)]
      simp
    | p x =>
      by_cases hx : x = .hash
      · subst hx
        obtain ⟨f, rfl⟩ : ∃ f, F = f + 1 := ⟨F - 1, by simp [lexFuel] at hF; omega⟩
        simp only [renderToks]
        rw [lex_hash, ih _ f (by simp [lexFuel] at hF; omega)]
        simp
      · obtain ⟨f, rfl⟩ : ∃ f, F = f + 2 := ⟨F - 2, by cases x <;> simp [lexFuel] at hF hx ⊢ <;> omega⟩
        have hr : renderToks (.p x :: ts) = x.text.toList ++ ' ' :: renderToks ts := by
          cases x <;> first | exact absurd rfl hx | simp [renderToks, Tok.text]
        rw [hr, lex_punct f x hx, ih _ f (by cases x <;> simp [lexFuel] at hF hx ⊢ <;> omega)]
        simp

theorem natDigits_len (n : Nat) : 1 ≤ (natDigits n).length := by
  have := natDigits_ne_nil n
  cases h : natDigits n with
  | nil => exact absurd h this
  | cons c cs => simp

/-- the rendered text is long enough to serve as the lexer's fuel -/
theorem lexFuel_le_length : ∀ (ts : List Tok), safeToks ts = true → lexFuel ts ≤ (renderToks ts).length + 1
  | [], _ => by simp [lexFuel, renderToks]
  | t :: ts, h => by
    simp only [safeToks, List.all_cons, Bool.and_eq_true] at h
    have ih := lexFuel_le_length ts (by simpa [safeToks] using h.2)
    cases t with
    | nl => simp [lexFuel, renderToks]; omega
    | id s =>
      cases s with
      | nil => simp [safeTok, validId] at h
      | cons c cs => simp [lexFuel, renderToks, Tok.text]; omega
    | num n => have := natDigits_len n; simp [lexFuel, renderToks, Tok.text]; omega
    | flt a b => simp [lexFuel, renderToks, Tok.text, fltText]; omega
    | str s => simp [lexFuel, renderToks, Tok.text]; omega
    | p x => cases x <;> simp [lexFuel, renderToks, Tok.text, P.text] <;> omega

/-- **rendering then lexing is the identity** on token lists without hazards -/
theorem lex_render (ts : List Tok) (h : safeToks ts = true) : lex (renderToks ts) = some ts := by
  have := lexAux_render ts h [] ((renderToks ts).length + 1) (lexFuel_le_length ts h)
  simpa [lex] using this

end Drx.Spec
