/-
  Lemmas behind DrxProps/C18.lean: decimal printing is injective, the name sanitiser is safe,
  the save loop writes exactly the designated resources.
-/
import Drx.Xtract
import Drx.RiffSpec
import DrxProofs.Riff
namespace Drx.Xtract
open Drx Drx.Riff

/-! ### decimal -/

def isDigit (c : Char) : Prop := 48 ≤ c.toNat ∧ c.toNat ≤ 57

theorem digit_toNat : ∀ n, n < 10 → (Char.ofNat (48 + n)).toNat = 48 + n := by decide

theorem dec_ne_nil (n : Nat) : dec n ≠ [] := by
  rw [dec]; split <;> simp

theorem dec_digits (n : Nat) : ∀ c ∈ dec n, isDigit c := by
  fun_induction dec n with
  | case1 n h =>
    intro c hc; simp at hc; subst hc
    unfold isDigit; rw [digit_toNat n h]; omega
  | case2 n h ih =>
    intro c hc; simp at hc
    rcases hc with hc | hc
    · exact ih c hc
    · subst hc; unfold isDigit; rw [digit_toNat _ (Nat.mod_lt _ (by decide))]; omega

def undec (l : List Char) : Nat := l.foldl (fun a c => a * 10 + (c.toNat - 48)) 0

theorem undec_dec (n : Nat) : undec (dec n) = n := by
  fun_induction dec n with
  | case1 n h => simp [undec, digit_toNat n h]
  | case2 n h ih =>
    unfold undec at ih ⊢
    rw [List.foldl_append, ih]
    simp [digit_toNat _ (Nat.mod_lt n (by decide : 0 < 10))]
    omega

theorem dec_injective (a b : Nat) (h : dec a = dec b) : a = b := by
  rw [← undec_dec a, ← undec_dec b, h]

/-! ### the sanitiser -/

/-- the alphabet `[A-Za-z0-9\-_.]` -/
def IsSafe (c : Char) : Prop :=
  (65 ≤ c.toNat ∧ c.toNat ≤ 90) ∨ (97 ≤ c.toNat ∧ c.toNat ≤ 122) ∨ (48 ≤ c.toNat ∧ c.toNat ≤ 57) ∨ c = '-' ∨ c = '_' ∨ c = '.'

theorem safeChar_isSafe (c : Char) : IsSafe (safeChar c) := by
  unfold safeChar; simp only []
  split
  · rename_i h; exact h
  · right; right; right; right; left; rfl

theorem safeChar_digit (c : Char) (h : isDigit c) : safeChar c = c := by
  unfold safeChar; simp only []
  have : (48 ≤ c.toNat ∧ c.toNat ≤ 57) := h
  simp [this]

theorem IsSafe.not_sep {c : Char} (h : IsSafe c) : c ≠ '/' ∧ c ≠ '\\' ∧ c.toNat ≠ 0 := by
  refine ⟨?_, ?_, ?_⟩
  · rintro rfl; unfold IsSafe at h; revert h; decide
  · rintro rfl; unfold IsSafe at h; revert h; decide
  · intro h0
    rcases h with h | h | h | h | h | h
    · omega
    · omega
    · omega
    · subst h; revert h0; decide
    · subst h; revert h0; decide
    · subst h; revert h0; decide

theorem fileName_safe (idx : Nat) (id : List Char) : ∀ c ∈ fileName idx id, IsSafe c := by
  intro c hc
  unfold fileName at hc
  simp only [List.mem_map] at hc
  obtain ⟨x, _, rfl⟩ := hc
  exact safeChar_isSafe x

theorem map_safeChar_dec (n : Nat) : (dec n).map safeChar = dec n := by
  have := dec_digits n
  generalize dec n = l at this
  induction l with
  | nil => rfl
  | cons x xs ih =>
    simp only [List.map_cons]
    rw [safeChar_digit x (this x (by simp)), ih (fun c hc => this c (by simp [hc]))]

theorem fileName_eq (idx : Nat) (id : List Char) : fileName idx id = dec idx ++ '.' :: id.map safeChar := by
  unfold fileName
  rw [List.map_append, map_safeChar_dec]
  rfl

/-- the name starts with a decimal digit: it is not empty, not `.`, not `..`, not hidden, not absolute -/
theorem fileName_head_digit (idx : Nat) (id : List Char) : ∃ c rest, fileName idx id = c :: rest ∧ isDigit c := by
  rw [fileName_eq]
  have hne := dec_ne_nil idx
  have hd := dec_digits idx
  cases h : dec idx with
  | nil => exact absurd h hne
  | cons c cs => exact ⟨c, _, rfl, hd c (by simp [h])⟩

theorem fileName_injective (i j : Nat) (id1 id2 : List Char) (h1 : id1.length = 4) (h2 : id2.length = 4)
    (h : fileName i id1 = fileName j id2) : i = j := by
  rw [fileName_eq, fileName_eq] at h
  have hl := congrArg List.length h
  simp [h1, h2] at hl
  have := List.append_inj_left h hl
  exact dec_injective i j this

/-! ### the save loop -/

def Ignored (e : SEntry) : Prop := ignoreIds.contains (e.id.map sanitize) = true ∨ e.size ≤ 0

/-- entry `e` designates chunk `c` of the movie `cs` behind a prefix of `P` bytes -/
def Designates (cs : List SChunk) (P : Nat) (e : SEntry) (c : SChunk) : Prop :=
  ∃ before after, cs = before ++ c :: after ∧ e.offset = (P : Int) + (offsetAfter before : Int)
    ∧ e.id.map sanitize = c.id.map sanitize

/-- what must be written for the resolved map entries, the first of which has index `idx` -/
def expectedFiles : List (SEntry × Option SChunk) → Nat → List (List Char × Bytes)
  | [], _ => []
  | (_, none) :: rest, idx => expectedFiles rest (idx + 1)
  | (_, some c) :: rest, idx => (fileName idx (c.id.map sanitize), c.data) :: expectedFiles rest (idx + 1)

def Resolved (cs : List SChunk) (P : Nat) (p : SEntry × Option SChunk) : Prop :=
  match p.2 with
  | none => Ignored p.1
  | some c => ¬ Ignored p.1 ∧ Designates cs P p.1 c

theorem getByOffset_designated (cs : List SChunk) (P : Nat) (e : SEntry) (c : SChunk) (h : Designates cs P e c) :
    getByOffset (cs.map SChunk.view) (e.offset - (P : Int)) = .ok c.view := by
  obtain ⟨before, after, rfl, ho, _⟩ := h
  have : e.offset - (P : Int) = (offsetAfter before : Int) := by omega
  rw [this]
  have := getByOffsetAux_hit before c after 12
  unfold getByOffset offsetAfter
  rw [← this]; congr 1

theorem saveLoop_spec (cs : List SChunk) (P : Nat) (pairs : List (SEntry × Option SChunk))
    (h : ∀ p ∈ pairs, Resolved cs P p) (idx : Nat) (acc : List (List Char × Bytes)) :
    saveLoop (cs.map SChunk.view) P (pairs.map (fun p => p.1.view)) idx acc
      = ⟨acc.reverse ++ expectedFiles pairs idx, .done⟩ := by
  induction pairs generalizing idx acc with
  | nil => simp [saveLoop, expectedFiles]
  | cons p rest ih =>
    obtain ⟨e, r⟩ := p
    have hp := h (e, r) (by simp)
    have hrest : ∀ q ∈ rest, Resolved cs P q := fun q hq => h q (by simp [hq])
    have ih' := ih hrest
    simp only [List.map_cons, saveLoop, SEntry.view] at ih' ⊢
    cases r with
    | none =>
      have hi : Ignored e := hp
      have : (ignoreIds.contains (e.id.map sanitize) = true ∨ e.size ≤ 0) := hi
      simp only [this, if_true]
      rw [ih']; simp [expectedFiles]
    | some c =>
      obtain ⟨hni, hd⟩ : ¬ Ignored e ∧ Designates cs P e c := hp
      have : ¬ (ignoreIds.contains (e.id.map sanitize) = true ∨ e.size ≤ 0) := hni
      simp only [this, if_false]
      rw [getByOffset_designated cs P e c hd]
      obtain ⟨_, _, _, _, hid⟩ := hd
      simp only [SChunk.view, hid, ne_eq, not_true_eq_false, if_false]
      rw [ih']
      simp [expectedFiles]

end Drx.Xtract
