/-
  Helper lemmas for C16 (styled text, font map): the font lookup fold is the spec lookup, the style-record loop and the
  two font-map loops on encoded objects, the two round trips.
-/
import Drx.Stxt
import Drx.Fmap
import Drx.TextSpec
import DrxProofs.Py
import DrxProofs.Fields
namespace Drx
open Drx.Fmap Drx.Stxt Drx.TextSpec
/-! ### styled text -/

theorem fontFamily_fold (fm : List FontInfo) (id : Int) (init : Text) :
    fm.foldl (fun acc f => if f.id = id then f.name else acc) init
      = match (fm.filter (fun f => f.id = id)).getLast? with | some f => f.name | none => init := by
  induction fm generalizing init with
  | nil => simp
  | cons a rest ih =>
    simp only [List.foldl_cons, ih, List.filter_cons]
    by_cases h : a.id = id
    · simp only [h, if_true, decide_true]
      cases hl : (rest.filter fun f => decide (f.id = id)).getLast? with
      | none =>
        have : rest.filter (fun f => decide (f.id = id)) = [] := by simpa using hl
        simp [this]
      | some f =>
        have hne : rest.filter (fun f => decide (f.id = id)) ≠ [] := by intro h0; simp [h0] at hl
        rw [List.getLast?_cons_of_ne_nil hne] <;> simp [hl]
    · simp [h]

theorem fontFamily_eq_specFont (fm : List FontInfo) (id : Int) : fontFamily fm id = specFont fm id := by
  unfold fontFamily specFont
  rw [fontFamily_fold]
  rfl

theorem colorStr_eq (r g b : UInt8) :
    colorStr r g b = ['#', hexU (r.toNat / 16), hexU (r.toNat % 16), hexU (g.toNat / 16), hexU (g.toNat % 16),
      hexU (b.toNat / 16), hexU (b.toNat % 16)] := by
  have hr := UInt8.toNat_lt r; have hg := UInt8.toNat_lt g; have hb := UInt8.toNat_lt b
  have e1 : r.toNat / 16 % 16 = r.toNat / 16 := by omega
  have e2 : g.toNat / 16 % 16 = g.toNat / 16 := by omega
  have e3 : b.toNat / 16 % 16 = b.toNat / 16 := by omega
  simp [colorStr, hex2U, hexU, e1, e2, e3]

/-- the style-record loop with natural-number positions (the form it takes on well-formed chunks) -/
def runLoopN (fontmap : List FontInfo) (d : Bytes) : Nat → Nat → R (List TextFormat)
  | 0, _ => .ok []
  | n+1, idx => do
    let _unknown2 ← getS .be 2 d idx
    let start ← getS .be 2 d (idx + 2)
    let _unknown4 ← getS .be 2 d (idx + 4)
    let _unknown5 ← getS .be 2 d (idx + 6)
    let fontFamilyId ← getS .be 2 d (idx + 8)
    let fontFormat ← byteAt d (idx + 10)
    let _unknown7 ← byteAt d (idx + 11)
    let fontSize ← getS .be 2 d (idx + 12)
    let red ← byteAt d (idx + 14)
    let _unknown9 ← byteAt d (idx + 15)
    let green ← byteAt d (idx + 16)
    let _unknown10 ← byteAt d (idx + 17)
    let blue ← byteAt d (idx + 18)
    let _unknown11 ← byteAt d (idx + 19)
    let rest ← runLoopN fontmap d n (idx + 20)
    .ok (⟨colorStr red green blue, start, fontFormat.toNat % 2 = 1, fontFormat.toNat / 2 % 2 = 1, fontFormat.toNat / 4 % 2 = 1,
          fontSize, fontFamily fontmap fontFamilyId⟩ :: rest)

theorem runLoop_nat (fm : List FontInfo) (d : Bytes) (n i : Nat) : runLoop fm d n (i : Int) = runLoopN fm d n i := by
  induction n generalizing i with
  | zero => simp [runLoop, runLoopN]
  | succ n ih =>
    unfold runLoop runLoopN
    have c2 : (i : Int) + 2 = ((i + 2 : Nat) : Int) := by omega
    have c4 : (i : Int) + 4 = ((i + 4 : Nat) : Int) := by omega
    have c6 : (i : Int) + 6 = ((i + 6 : Nat) : Int) := by omega
    have c8 : (i : Int) + 8 = ((i + 8 : Nat) : Int) := by omega
    have c10 : (i : Int) + 10 = ((i + 10 : Nat) : Int) := by omega
    have c11 : (i : Int) + 11 = ((i + 11 : Nat) : Int) := by omega
    have c12 : (i : Int) + 12 = ((i + 12 : Nat) : Int) := by omega
    have c14 : (i : Int) + 14 = ((i + 14 : Nat) : Int) := by omega
    have c15 : (i : Int) + 15 = ((i + 15 : Nat) : Int) := by omega
    have c16 : (i : Int) + 16 = ((i + 16 : Nat) : Int) := by omega
    have c17 : (i : Int) + 17 = ((i + 17 : Nat) : Int) := by omega
    have c18 : (i : Int) + 18 = ((i + 18 : Nat) : Int) := by omega
    have c19 : (i : Int) + 19 = ((i + 19 : Nat) : Int) := by omega
    have c20 : (i : Int) + 20 = ((i + 20 : Nat) : Int) := by omega
    simp only [c2, c4, c6, c8, c10, c11, c12, c14, c15, c16, c17, c18, c19, c20, getSI_nat, byteAtI_nat, ih]


theorem runLoopN_skip (fm : List FontInfo) (pre rest : Bytes) (n i : Nat) :
    runLoopN fm (pre ++ rest) n (pre.length + i) = runLoopN fm rest n i := by
  induction n generalizing i with
  | zero => simp [runLoopN]
  | succ n ih =>
    unfold runLoopN
    have e20 : pre.length + i + 20 = pre.length + (i + 20) := by omega
    rw [e20, ih]
    repeat (rw [getS_skip]; rotate_left; (· omega))
    repeat (rw [byteAt_skip]; rotate_left; (· omega))
    have e0 : pre.length + i - pre.length = i := by omega
    have f : ∀ k, pre.length + i + k - pre.length = i + k := fun k => by omega
    simp only [e0, f]

theorem encRun_length (r : RunSpec) : (encRun r).length = 20 := by simp [encRun]

theorem runLoopN_runs (fm : List FontInfo) (runs : List RunSpec) (tail : Bytes) (hv : ∀ r ∈ runs, r.valid) :
    runLoopN fm (encRuns runs ++ tail) runs.length 0 = .ok (runs.map (RunSpec.meaning fm)) := by
  induction runs with
  | nil => simp [runLoopN]
  | cons r rs ih =>
    obtain ⟨h2, hst, h4, h5, hfid, hsz⟩ := hv r (by simp)
    simp only [List.length_cons, encRuns, List.map_cons, List.append_assoc]
    unfold runLoopN
    have e20 : 0 + 20 = (encRun r).length + 0 := by rw [encRun_length]
    rw [e20, runLoopN_skip, ih (fun x hx => hv x (by simp [hx]))]
    have q0 : getS .be 2 (encRun r ++ (encRuns rs ++ tail)) 0 = .ok r.u2 := by
      simp only [encRun, List.append_assoc]; exact getS2_here _ _ _ h2
    have q2 : getS .be 2 (encRun r ++ (encRuns rs ++ tail)) (0 + 2) = .ok r.start := by
      simp only [encRun, List.append_assoc]
      repeat (rw [getS_skip]; rotate_left; (· simp))
      simp only [encS_length]; exact getS2_here _ _ _ hst
    have q4 : getS .be 2 (encRun r ++ (encRuns rs ++ tail)) (0 + 4) = .ok r.u4 := by
      simp only [encRun, List.append_assoc]
      repeat (rw [getS_skip]; rotate_left; (· simp))
      simp only [encS_length]; exact getS2_here _ _ _ h4
    have q6 : getS .be 2 (encRun r ++ (encRuns rs ++ tail)) (0 + 6) = .ok r.u5 := by
      simp only [encRun, List.append_assoc]
      repeat (rw [getS_skip]; rotate_left; (· simp))
      simp only [encS_length]; exact getS2_here _ _ _ h5
    have q8 : getS .be 2 (encRun r ++ (encRuns rs ++ tail)) (0 + 8) = .ok r.fontId := by
      simp only [encRun, List.append_assoc]
      repeat (rw [getS_skip]; rotate_left; (· simp))
      simp only [encS_length]; exact getS2_here _ _ _ hfid
    have q12 : getS .be 2 (encRun r ++ (encRuns rs ++ tail)) (0 + 12) = .ok r.size := by
      simp only [encRun, List.append_assoc]
      repeat (rw [getS_skip]; rotate_left; (· simp))
      simp only [encS_length, List.length_cons, List.length_nil]; exact getS2_here _ _ _ hsz
    have b : ∀ (k : Nat) (x : UInt8), (encRun r)[k]? = some x → byteAt (encRun r ++ (encRuns rs ++ tail)) (0 + k) = .ok x := by
      intro k x hx
      have hk : k < (encRun r).length := by
        rcases Nat.lt_or_ge k (encRun r).length with h | h
        · exact h
        · rw [List.getElem?_eq_none h] at hx; cases hx
      simp [byteAt, List.getElem?_append_left hk, hx]
    have g : ∀ (k : Nat) (x : UInt8), 10 ≤ k → ([r.format, r.u7] ++ (encS .be 2 r.size ++ [r.red, r.red2, r.green, r.green2, r.blue, r.blue2]))[k - 10]? = some x →
        (encRun r)[k]? = some x := by
      intro k x hk hx
      simp only [encRun]
      have l5 : (encS Order.be 2 r.u2 ++ (encS .be 2 r.start ++ (encS .be 2 r.u4 ++ (encS .be 2 r.u5 ++ encS .be 2 r.fontId)))).length = 10 := by simp
      have : encS Order.be 2 r.u2 ++ (encS .be 2 r.start ++ (encS .be 2 r.u4 ++ (encS .be 2 r.u5 ++ (encS .be 2 r.fontId ++
          ([r.format, r.u7] ++ (encS .be 2 r.size ++ [r.red, r.red2, r.green, r.green2, r.blue, r.blue2]))))))
          = (encS Order.be 2 r.u2 ++ (encS .be 2 r.start ++ (encS .be 2 r.u4 ++ (encS .be 2 r.u5 ++ encS .be 2 r.fontId)))) ++
          ([r.format, r.u7] ++ (encS .be 2 r.size ++ [r.red, r.red2, r.green, r.green2, r.blue, r.blue2])) := by simp
      rw [this, List.getElem?_append_right (by omega), l5]
      exact hx
    have hsl : (encS Order.be 2 r.size).length = 2 := by simp
    have g2 : ∀ (k : Nat) (x : UInt8), 4 ≤ k → [r.red, r.red2, r.green, r.green2, r.blue, r.blue2][k - 4]? = some x →
        ([r.format, r.u7] ++ (encS .be 2 r.size ++ [r.red, r.red2, r.green, r.green2, r.blue, r.blue2]))[k]? = some x := by
      intro k x hk hx
      have : [r.format, r.u7] ++ (encS Order.be 2 r.size ++ [r.red, r.red2, r.green, r.green2, r.blue, r.blue2])
          = ([r.format, r.u7] ++ encS Order.be 2 r.size) ++ [r.red, r.red2, r.green, r.green2, r.blue, r.blue2] := by simp
      rw [this, List.getElem?_append_right (by simp; omega)]
      simpa using hx
    have q10 := b 10 r.format (g 10 _ (by omega) (by simp))
    have q11 := b 11 r.u7 (g 11 _ (by omega) (by simp))
    have q14 := b 14 r.red (g 14 _ (by omega) (g2 4 _ (by omega) (by simp)))
    have q15 := b 15 r.red2 (g 15 _ (by omega) (g2 5 _ (by omega) (by simp)))
    have q16 := b 16 r.green (g 16 _ (by omega) (g2 6 _ (by omega) (by simp)))
    have q17 := b 17 r.green2 (g 17 _ (by omega) (g2 7 _ (by omega) (by simp)))
    have q18 := b 18 r.blue (g 18 _ (by omega) (g2 8 _ (by omega) (by simp)))
    have q19 := b 19 r.blue2 (g 19 _ (by omega) (g2 9 _ (by omega) (by simp)))
    rw [q0, q2, q4, q6, q8, q10, q11, q12, q14, q15, q16, q17, q18, q19]
    simp only [bind, Except.bind, RunSpec.meaning, colorStr_eq, fontFamily_eq_specFont]


theorem parseStxt_encStxt (dec : Dec) (fm : List FontInfo) (gap text : Bytes) (fds : Int) (runs : List RunSpec) (tail : Bytes)
    (hlen : 12 + gap.length + text.length < 2147483648) (hfds : s32 fds) (hn : runs.length < 32768) (hv : ∀ r ∈ runs, r.valid) :
    parseStxt dec fm (encStxt gap text fds runs tail)
      = (dec text).bind fun t => .ok ⟨t, runs.map (RunSpec.meaning fm)⟩ := by
  have q0 : getS .be 4 (encStxt gap text fds runs tail) 0 = .ok ((12 + gap.length : Nat) : Int) := by
    unfold encStxt; exact getS4_here _ _ _ (s32_ofNat _ (by omega))
  have q4 : getS .be 4 (encStxt gap text fds runs tail) 4 = .ok (text.length : Int) := by
    unfold encStxt
    repeat (rw [getS_skip]; rotate_left; (· simp))
    simp only [encS_length]; exact getS4_here _ _ _ (s32_ofNat _ (by omega))
  have q8 : getS .be 4 (encStxt gap text fds runs tail) 8 = .ok fds := by
    unfold encStxt
    repeat (rw [getS_skip]; rotate_left; (· simp))
    simp only [encS_length]; exact getS4_here _ _ _ hfds
  have hd : encStxt gap text fds runs tail
      = (encS .be 4 ((12 + gap.length : Nat) : Int) ++ (encS .be 4 (text.length : Int) ++ (encS .be 4 fds ++ gap))) ++
        (text ++ (encS .be 2 (runs.length : Int) ++ (encRuns runs ++ tail))) := by simp [encStxt]
  have hpl : (encS Order.be 4 ((12 + gap.length : Nat) : Int) ++ (encS .be 4 (text.length : Int) ++ (encS .be 4 fds ++ gap))).length = 12 + gap.length := by
    simp; omega
  have e1 : ((12 + gap.length : Nat) : Int) + (text.length : Int) = ((12 + gap.length + text.length : Nat) : Int) := by omega
  have e2 : ((12 + gap.length + text.length : Nat) : Int) + 2 = ((12 + gap.length + text.length + 2 : Nat) : Int) := by omega
  have qt : pySlice (encStxt gap text fds runs tail) ((12 + gap.length : Nat) : Int) ((12 + gap.length + text.length : Nat) : Int) = text := by
    rw [pySlice_nat, hd, slice_skip _ _ _ _ (by omega), hpl]
    have a : 12 + gap.length - (12 + gap.length) = 0 := by omega
    have b : 12 + gap.length + text.length - (12 + gap.length) = text.length := by omega
    rw [a, b]
    exact slice_zero_append _ _ _ rfl
  have hd2 : encStxt gap text fds runs tail
      = (encS .be 4 ((12 + gap.length : Nat) : Int) ++ (encS .be 4 (text.length : Int) ++ (encS .be 4 fds ++ (gap ++ text)))) ++
        (encS .be 2 (runs.length : Int) ++ (encRuns runs ++ tail)) := by simp [encStxt]
  have hpl2 : (encS Order.be 4 ((12 + gap.length : Nat) : Int) ++ (encS .be 4 (text.length : Int) ++ (encS .be 4 fds ++ (gap ++ text)))).length
      = 12 + gap.length + text.length := by simp; omega
  have qn : getS .be 2 (encStxt gap text fds runs tail) (12 + gap.length + text.length) = .ok (runs.length : Int) := by
    rw [hd2, getS_skip _ _ _ _ _ (by omega), hpl2]
    have a : 12 + gap.length + text.length - (12 + gap.length + text.length) = 0 := by omega
    rw [a]
    exact getS2_here _ _ _ (s16_ofNat _ hn)
  have hd3 : encStxt gap text fds runs tail
      = (encS .be 4 ((12 + gap.length : Nat) : Int) ++ (encS .be 4 (text.length : Int) ++ (encS .be 4 fds ++ (gap ++ (text ++ encS .be 2 (runs.length : Int)))))) ++
        (encRuns runs ++ tail) := by simp [encStxt]
  have hpl3 : (encS Order.be 4 ((12 + gap.length : Nat) : Int) ++ (encS .be 4 (text.length : Int) ++ (encS .be 4 fds ++ (gap ++ (text ++ encS .be 2 (runs.length : Int)))))).length
      = 12 + gap.length + text.length + 2 := by simp; omega
  have ql : runLoopN fm (encStxt gap text fds runs tail) runs.length (12 + gap.length + text.length + 2) = .ok (runs.map (RunSpec.meaning fm)) := by
    rw [hd3]
    have a : 12 + gap.length + text.length + 2 = (encS Order.be 4 ((12 + gap.length : Nat) : Int) ++ (encS .be 4 (text.length : Int) ++ (encS .be 4 fds ++ (gap ++ (text ++ encS .be 2 (runs.length : Int)))))).length + 0 := by
      rw [hpl3]
    rw [a, runLoopN_skip]
    exact runLoopN_runs fm runs tail hv
  unfold parseStxt
  rw [q0, q4, q8]
  simp only [bind, Except.bind]
  rw [e1, qt]
  cases dec text with
  | error e => rfl
  | ok t =>
    simp only []
    rw [e2, getSI_nat, qn]
    simp only [Int.toNat_natCast]
    rw [runLoop_nat, ql]


/-! ### font map -/

theorem metaLoop_skip (pre rest : Bytes) (n i : Nat) :
    metaLoop (pre ++ rest) n (pre.length + i) = metaLoop rest n i := by
  induction n generalizing i with
  | zero => simp [metaLoop]
  | succ n ih =>
    unfold metaLoop
    have e8 : pre.length + i + 8 = pre.length + (i + 8) := by omega
    rw [e8, ih]
    repeat (rw [getS_skip]; rotate_left; (· omega))
    have e0 : pre.length + i - pre.length = i := by omega
    have f : ∀ k, pre.length + i + k - pre.length = i + k := fun k => by omega
    simp only [e0, f]

/-- the (displacement, id) pairs of the used slots -/
def metaOf : List FontSpec → Nat → List (Int × Int)
  | [], _ => []
  | f :: fs, off => ((off : Int), f.id) :: metaOf fs (off + 4 + f.name.length + f.pad.length)

theorem metaLoop_slots (unused : List SlotSpec) (tail : Bytes) (hv : ∀ s ∈ unused, s.valid) :
    metaLoop (encSlots unused ++ tail) unused.length 0 = .ok (unused.map fun s => (s.disp, s.id)) := by
  induction unused with
  | nil => simp [metaLoop]
  | cons s ss ih =>
    obtain ⟨hd, hu, hid⟩ := hv s (by simp)
    simp only [List.length_cons, encSlots, List.map_cons, List.append_assoc]
    unfold metaLoop
    have q0 : getS .be 4 (encS .be 4 s.disp ++ (encS .be 2 s.u ++ (encS .be 2 s.id ++ (encSlots ss ++ tail)))) 0 = .ok s.disp :=
      getS4_here _ _ _ hd
    have q4 : getS .be 2 (encS .be 4 s.disp ++ (encS .be 2 s.u ++ (encS .be 2 s.id ++ (encSlots ss ++ tail)))) (0 + 4) = .ok s.u := by
      repeat (rw [getS_skip]; rotate_left; (· simp))
      simp only [encS_length]; exact getS2_here _ _ _ hu
    have q6 : getS .be 2 (encS .be 4 s.disp ++ (encS .be 2 s.u ++ (encS .be 2 s.id ++ (encSlots ss ++ tail)))) (0 + 6) = .ok s.id := by
      repeat (rw [getS_skip]; rotate_left; (· simp))
      simp only [encS_length]; exact getS2_here _ _ _ hid
    rw [q0, q4, q6]
    have e : encS Order.be 4 s.disp ++ (encS .be 2 s.u ++ (encS .be 2 s.id ++ (encSlots ss ++ tail)))
        = (encS Order.be 4 s.disp ++ (encS .be 2 s.u ++ encS .be 2 s.id)) ++ (encSlots ss ++ tail) := by simp
    have e8 : 0 + 8 = (encS Order.be 4 s.disp ++ (encS .be 2 s.u ++ encS .be 2 s.id)).length + 0 := by simp
    rw [e, e8, metaLoop_skip, ih (fun x hx => hv x (by simp [hx]))]
    rfl

theorem metaLoop_meta (fonts : List FontSpec) (unused : List SlotSpec) (off : Nat) (tail : Bytes)
    (hf : ∀ f ∈ fonts, f.valid) (hfit : FontsFit fonts off) (hv : ∀ s ∈ unused, s.valid) :
    metaLoop (encMeta fonts off ++ (encSlots unused ++ tail)) (fonts.length + unused.length) 0
      = .ok (metaOf fonts off ++ unused.map fun s => (s.disp, s.id)) := by
  induction fonts generalizing off with
  | nil => simpa [encMeta, metaOf] using metaLoop_slots unused tail hv
  | cons f fs ih =>
    obtain ⟨hid, hu⟩ := hf f (by simp)
    obtain ⟨hoff, _, hrest⟩ := hfit
    have hcnt : (f :: fs).length + unused.length = (fs.length + unused.length) + 1 := by simp; omega
    rw [hcnt]
    simp only [encMeta, metaOf, List.append_assoc, List.cons_append]
    unfold metaLoop
    have q0 : getS .be 4 (encS .be 4 (off : Int) ++ (encS .be 2 f.u ++ (encS .be 2 f.id ++
        (encMeta fs (off + 4 + f.name.length + f.pad.length) ++ (encSlots unused ++ tail))))) 0 = .ok (off : Int) :=
      getS4_here _ _ _ (s32_ofNat _ hoff)
    have q4 : getS .be 2 (encS .be 4 (off : Int) ++ (encS .be 2 f.u ++ (encS .be 2 f.id ++
        (encMeta fs (off + 4 + f.name.length + f.pad.length) ++ (encSlots unused ++ tail))))) (0 + 4) = .ok f.u := by
      repeat (rw [getS_skip]; rotate_left; (· simp))
      simp only [encS_length]; exact getS2_here _ _ _ hu
    have q6 : getS .be 2 (encS .be 4 (off : Int) ++ (encS .be 2 f.u ++ (encS .be 2 f.id ++
        (encMeta fs (off + 4 + f.name.length + f.pad.length) ++ (encSlots unused ++ tail))))) (0 + 6) = .ok f.id := by
      repeat (rw [getS_skip]; rotate_left; (· simp))
      simp only [encS_length]; exact getS2_here _ _ _ hid
    rw [q0, q4, q6]
    have e : encS Order.be 4 (off : Int) ++ (encS .be 2 f.u ++ (encS .be 2 f.id ++
        (encMeta fs (off + 4 + f.name.length + f.pad.length) ++ (encSlots unused ++ tail))))
        = (encS Order.be 4 (off : Int) ++ (encS .be 2 f.u ++ encS .be 2 f.id)) ++
          (encMeta fs (off + 4 + f.name.length + f.pad.length) ++ (encSlots unused ++ tail)) := by simp
    have e8 : 0 + 8 = (encS Order.be 4 (off : Int) ++ (encS .be 2 f.u ++ encS .be 2 f.id)).length + 0 := by simp
    rw [e, e8, metaLoop_skip, ih _ (fun x hx => hf x (by simp [hx])) hrest]
    rfl

theorem fontLoop_fonts (dec : Dec) (fonts : List FontSpec) (P btail : Bytes) (extra : List (Int × Int)) (acc : Nat)
    (hacc : acc ≤ P.length) (hfit : FontsFit fonts P.length) :
    fontLoop dec (P ++ (encFontNames fonts ++ btail)) fonts.length (metaOf fonts P.length ++ extra) acc = decodeFonts dec fonts := by
  induction fonts generalizing P acc with
  | nil => simp [fontLoop, decodeFonts]
  | cons f fs ih =>
    obtain ⟨hoff, hname, hrest⟩ := hfit
    simp only [List.length_cons, metaOf, List.cons_append, encFontNames, decodeFonts]
    unfold fontLoop
    have q0 : getSI .be 4 (P ++ (encS .be 4 (f.name.length : Int) ++ (f.name ++ (f.pad ++ encFontNames fs)) ++ btail)) (P.length : Int)
        = .ok (f.name.length : Int) := by
      rw [getSI_nat, getS_skip _ _ _ _ _ (by omega)]
      have a : P.length - P.length = 0 := by omega
      rw [a]
      simp only [List.append_assoc]
      exact getS4_here _ _ _ (s32_ofNat _ hname)
    rw [q0]
    simp only [bind, Except.bind]
    have e1 : (P.length : Int) + 4 = ((P.length + 4 : Nat) : Int) := by omega
    have e2 : ((P.length + 4 : Nat) : Int) + (f.name.length : Int) = ((P.length + 4 + f.name.length : Nat) : Int) := by omega
    have qs : pySlice (P ++ (encS .be 4 (f.name.length : Int) ++ (f.name ++ (f.pad ++ encFontNames fs)) ++ btail))
        ((P.length + 4 : Nat) : Int) ((P.length + 4 + f.name.length : Nat) : Int) = f.name := by
      rw [pySlice_nat]
      have e : P ++ (encS Order.be 4 (f.name.length : Int) ++ (f.name ++ (f.pad ++ encFontNames fs)) ++ btail)
          = (P ++ encS Order.be 4 (f.name.length : Int)) ++ (f.name ++ (f.pad ++ (encFontNames fs ++ btail))) := by simp
      rw [e, slice_skip _ _ _ _ (by simp)]
      have a : P.length + 4 - (P ++ encS Order.be 4 (f.name.length : Int)).length = 0 := by simp
      have b : P.length + 4 + f.name.length - (P ++ encS Order.be 4 (f.name.length : Int)).length = f.name.length := by simp
      rw [a, b]
      exact slice_zero_append _ _ _ rfl
    rw [e1, e2, qs]
    have hbig : ¬ (acc + f.name.length >
        (P ++ (encS Order.be 4 (f.name.length : Int) ++ (f.name ++ (f.pad ++ encFontNames fs)) ++ btail)).length) := by
      simp; omega
    rw [if_neg hbig]
    have e : P ++ (encS Order.be 4 (f.name.length : Int) ++ (f.name ++ (f.pad ++ encFontNames fs)) ++ btail)
        = (P ++ (encS Order.be 4 (f.name.length : Int) ++ (f.name ++ f.pad))) ++ (encFontNames fs ++ btail) := by simp
    have hl : (P ++ (encS Order.be 4 (f.name.length : Int) ++ (f.name ++ f.pad))).length = P.length + 4 + f.name.length + f.pad.length := by
      simp; omega
    rw [e]
    have := ih (P ++ (encS Order.be 4 (f.name.length : Int) ++ (f.name ++ f.pad))) (acc + f.name.length) (by rw [hl]; omega) (by rw [hl]; exact hrest)
    rw [hl] at this
    rw [this]

theorem parseFmap_encFmap (dec : Dec) (h : FmapHdr) (fonts : List FontSpec) (unused : List SlotSpec) (htail bpre btail : Bytes)
    (hh : h.valid) (hf : ∀ f ∈ fonts, f.valid) (hfit : FontsFit fonts bpre.length) (hu : ∀ s ∈ unused, s.valid)
    (hcap : fonts.length + unused.length < 2147483648)
    (hhd : (encFmapHeader h fonts unused bpre htail).length < 2147483648)
    (hbd : (bpre ++ (encFontNames fonts ++ btail)).length < 2147483648) :
    parseFmap dec (encFmap h fonts unused htail bpre btail) = decodeFonts dec fonts := by
  obtain ⟨h1, h2, h3, h4, h5, hms, h6, h7, h8, h9⟩ := hh
  have hnf : fonts.length < 2147483648 := by omega
  -- the twelve fixed header words and the metadata records, read from the header area
  have k0 : getS .be 2 (encFmapHeader h fonts unused bpre htail) 0 = .ok h.u1 := by
    unfold encFmapHeader; exact getS2_here _ _ _ h1
  have k2 : getS .be 2 (encFmapHeader h fonts unused bpre htail) 2 = .ok h.u2 := by
    unfold encFmapHeader
    repeat (rw [getS_skip]; rotate_left; (· simp))
    simp only [encS_length]; exact getS2_here _ _ _ h2
  have k4 : getS .be 2 (encFmapHeader h fonts unused bpre htail) 4 = .ok h.u3 := by
    unfold encFmapHeader
    repeat (rw [getS_skip]; rotate_left; (· simp))
    simp only [encS_length]; exact getS2_here _ _ _ h3
  have k6 : getS .be 2 (encFmapHeader h fonts unused bpre htail) 6 = .ok h.u4 := by
    unfold encFmapHeader
    repeat (rw [getS_skip]; rotate_left; (· simp))
    simp only [encS_length]; exact getS2_here _ _ _ h4
  have k8 : getS .be 4 (encFmapHeader h fonts unused bpre htail) 8 = .ok (fonts.length : Int) := by
    unfold encFmapHeader
    repeat (rw [getS_skip]; rotate_left; (· simp))
    simp only [encS_length]; exact getS4_here _ _ _ (s32_ofNat _ hnf)
  have k12 : getS .be 4 (encFmapHeader h fonts unused bpre htail) 12 = .ok ((fonts.length + unused.length : Nat) : Int) := by
    unfold encFmapHeader
    repeat (rw [getS_skip]; rotate_left; (· simp))
    simp only [encS_length]; exact getS4_here _ _ _ (s32_ofNat _ hcap)
  have k16 : getS .be 2 (encFmapHeader h fonts unused bpre htail) 16 = .ok h.u5 := by
    unfold encFmapHeader
    repeat (rw [getS_skip]; rotate_left; (· simp))
    simp only [encS_length]; exact getS2_here _ _ _ h5
  have k18 : getS .be 2 (encFmapHeader h fonts unused bpre htail) 18 = .ok h.metaSize := by
    unfold encFmapHeader
    repeat (rw [getS_skip]; rotate_left; (· simp))
    simp only [encS_length]; exact getS2_here _ _ _ hms
  have k20 : getS .be 2 (encFmapHeader h fonts unused bpre htail) 20 = .ok h.u6 := by
    unfold encFmapHeader
    repeat (rw [getS_skip]; rotate_left; (· simp))
    simp only [encS_length]; exact getS2_here _ _ _ h6
  have k22 : getS .be 2 (encFmapHeader h fonts unused bpre htail) 22 = .ok h.u7 := by
    unfold encFmapHeader
    repeat (rw [getS_skip]; rotate_left; (· simp))
    simp only [encS_length]; exact getS2_here _ _ _ h7
  have k24 : getS .be 2 (encFmapHeader h fonts unused bpre htail) 24 = .ok h.u8 := by
    unfold encFmapHeader
    repeat (rw [getS_skip]; rotate_left; (· simp))
    simp only [encS_length]; exact getS2_here _ _ _ h8
  have k26 : getS .be 2 (encFmapHeader h fonts unused bpre htail) 26 = .ok h.u9 := by
    unfold encFmapHeader
    repeat (rw [getS_skip]; rotate_left; (· simp))
    simp only [encS_length]; exact getS2_here _ _ _ h9
  have km : metaLoop (encFmapHeader h fonts unused bpre htail) (fonts.length + unused.length) 28
      = .ok (metaOf fonts bpre.length ++ unused.map fun s => (s.disp, s.id)) := by
    have e : encFmapHeader h fonts unused bpre htail
        = (encS .be 2 h.u1 ++ (encS .be 2 h.u2 ++ (encS .be 2 h.u3 ++ (encS .be 2 h.u4 ++ (encS .be 4 (fonts.length : Int) ++
          (encS .be 4 ((fonts.length + unused.length : Nat) : Int) ++ (encS .be 2 h.u5 ++ (encS .be 2 h.metaSize ++ (encS .be 2 h.u6 ++
          (encS .be 2 h.u7 ++ (encS .be 2 h.u8 ++ encS .be 2 h.u9))))))))))) ++ (encMeta fonts bpre.length ++ (encSlots unused ++ htail)) := by
      simp [encFmapHeader]
    have e28 : (28 : Nat) = (encS Order.be 2 h.u1 ++ (encS .be 2 h.u2 ++ (encS .be 2 h.u3 ++ (encS .be 2 h.u4 ++ (encS .be 4 (fonts.length : Int) ++
          (encS .be 4 ((fonts.length + unused.length : Nat) : Int) ++ (encS .be 2 h.u5 ++ (encS .be 2 h.metaSize ++ (encS .be 2 h.u6 ++
          (encS .be 2 h.u7 ++ (encS .be 2 h.u8 ++ encS .be 2 h.u9))))))))))).length + 0 := by simp
    rw [e]
    conv => lhs; arg 3; rw [e28]
    rw [metaLoop_skip]
    exact metaLoop_meta fonts unused bpre.length htail hf hfit hu
  -- the outer layout
  generalize hHD : encFmapHeader h fonts unused bpre htail = HD at *
  generalize hBD : bpre ++ (encFontNames fonts ++ btail) = BD at *
  have hd : encFmap h fonts unused htail bpre btail = encS .be 4 (HD.length : Int) ++ (encS .be 4 (BD.length : Int) ++ (HD ++ BD)) := by
    simp only [encFmap, hHD, hBD]
  rw [hd]
  have q0 : getS .be 4 (encS .be 4 (HD.length : Int) ++ (encS .be 4 (BD.length : Int) ++ (HD ++ BD))) 0 = .ok (HD.length : Int) :=
    getS4_here _ _ _ (s32_ofNat _ hhd)
  have q4 : getS .be 4 (encS .be 4 (HD.length : Int) ++ (encS .be 4 (BD.length : Int) ++ (HD ++ BD))) 4 = .ok (BD.length : Int) := by
    rw [getS_skip _ _ _ _ _ (by simp)]
    simp only [encS_length]; exact getS4_here _ _ _ (s32_ofNat _ hbd)
  have hlen : 8 + (HD.length : Int) + (BD.length : Int)
      = ((encS Order.be 4 (HD.length : Int) ++ (encS .be 4 (BD.length : Int) ++ (HD ++ BD))).length : Int) := by
    simp; omega
  have qh : pySlice (encS Order.be 4 (HD.length : Int) ++ (encS .be 4 (BD.length : Int) ++ (HD ++ BD))) 8 (8 + (HD.length : Int)) = HD := by
    have e : (8 : Int) + (HD.length : Int) = ((8 + HD.length : Nat) : Int) := by omega
    have e8 : (8 : Int) = ((8 : Nat) : Int) := rfl
    rw [e, e8, pySlice_nat]
    have e2 : encS Order.be 4 (HD.length : Int) ++ (encS .be 4 (BD.length : Int) ++ (HD ++ BD))
        = (encS Order.be 4 (HD.length : Int) ++ encS .be 4 (BD.length : Int)) ++ (HD ++ BD) := by simp
    rw [e2, slice_skip _ _ _ _ (by simp)]
    have a : 8 - (encS Order.be 4 (HD.length : Int) ++ encS .be 4 (BD.length : Int)).length = 0 := by simp
    have b : 8 + HD.length - (encS Order.be 4 (HD.length : Int) ++ encS .be 4 (BD.length : Int)).length = HD.length := by simp
    rw [a, b]
    exact slice_zero_append _ _ _ rfl
  have qb : pySlice (encS Order.be 4 (HD.length : Int) ++ (encS .be 4 (BD.length : Int) ++ (HD ++ BD))) (8 + (HD.length : Int))
      (8 + (HD.length : Int) + (BD.length : Int)) = BD := by
    have e : (8 : Int) + (HD.length : Int) = ((8 + HD.length : Nat) : Int) := by omega
    have e' : ((8 + HD.length : Nat) : Int) + (BD.length : Int) = ((8 + HD.length + BD.length : Nat) : Int) := by omega
    rw [e, e', pySlice_nat]
    have e2 : encS Order.be 4 (HD.length : Int) ++ (encS .be 4 (BD.length : Int) ++ (HD ++ BD))
        = (encS Order.be 4 (HD.length : Int) ++ (encS .be 4 (BD.length : Int) ++ HD)) ++ BD := by simp
    rw [e2, slice_skip _ _ _ _ (by simp; omega)]
    have a : 8 + HD.length - (encS Order.be 4 (HD.length : Int) ++ (encS .be 4 (BD.length : Int) ++ HD)).length = 0 := by simp; omega
    have b : 8 + HD.length + BD.length - (encS Order.be 4 (HD.length : Int) ++ (encS .be 4 (BD.length : Int) ++ HD)).length = BD.length := by
      simp; omega
    rw [a, b]
    simp [slice]
  unfold parseFmap
  rw [q0, q4]
  simp only [bind, Except.bind]
  rw [if_neg (by rw [hlen]; simp), qh, qb, k0, k2, k4, k6, k8, k12, k16, k18, k20, k22, k24, k26]
  simp only [Int.toNat_natCast]
  rw [km]
  simp only []
  rw [← hBD]
  exact fontLoop_fonts dec fonts bpre btail _ 0 (Nat.zero_le _) hfit

end Drx
