/-
  C03 link, byte level (part 5): the source skeleton of an embedded structured program lies in the class `Src.oks` of the
  reconstruction theorem, under a SYNTACTIC no-ambiguity condition on the source (`okAmbs`): a `repeat while` is not directly
  preceded by a `set` statement while its body ends with `set _ = <integer> + _` (that is the shape of a compiled `repeat with`),
  and the left operand of its condition is not an integer literal (shape of `repeat with … in`).
-/
import DrxProofs.LinkFlow2Frag
namespace Drx.LinkFlow
open Drx Drx.Lscr Drx.Spec Drx.Link

/-! ### shapes of embedded expressions -/

theorem emb_name_ok : ∀ (e : Expr) (n : Node), FragE0 e = true → Emb e n → ∃ nm, n.name = .ok nm :=
  fun e n _ h => emb_name e n h   -- agent-link's lemma (Drx/Link.lean): follows every extension of `Emb`

/-- an embedded expression is a constant node only for literals -/
theorem emb_const (e : Expr) (n : Node) (hf : FragE0 e = true) (h : Emb e n) (hc : n.cls = .leaf .const) :
    (∃ k, e = .int k) ∨ (∃ s, e = .str s) :=
  emb_const_lit e n h hc

/-- an embedded expression is a binary node only for binary operations -/
theorem emb_binary (e : Expr) (op : Str) (p : Int) (x y : Node) (hf : FragE0 e = true) (h : Emb e (.binary op p x y)) :
    ∃ o a b, e = .bin o a b ∧ op = binName o ∧ Emb a x ∧ Emb b y ∧ FragE0 a = true ∧ FragE0 b = true := by
  obtain ⟨o, a, b, rfl, rfl, ha, hb⟩ := emb_binary_inv e op p x y h
  simp only [FragE0, FragE, Bool.and_eq_true] at hf
  exact ⟨o, a, b, rfl, rfl, ha, hb, hf.1.2, hf.2⟩

theorem embLv_name_ok (lv : Expr) (l : Node) (h : EmbLv lv l) : ∃ nm, l.name = .ok nm :=
  embLv_name lv l h   -- agent-link's lemma (Drx/Link.lean): follows every extension of `EmbLv`

theorem idOk_ne_one (v : Spec.Name) (h : idOk v = true) : v ≠ S "1" := by
  intro e; subst e
  have : idOk (S "1") = false := by decide
  rw [this] at h; cases h

/-- the name of an assignment target of the fragment is never the string `1` (the name of the counter of `repeat with … in`) -/
theorem embLv_name_ne1 (lv : Expr) (l : Node) (hf : FragLv lv = true) (h : EmbLv lv l) : ∃ nm, l.name = .ok nm ∧ nm ≠ .s (S "1") := by
  cases lv with
  | var k v =>
    simp only [FragLv] at hf
    have hv : Lscr.Name.s v ≠ .s (S "1") := fun e => idOk_ne_one v hf (Lscr.Name.s.inj e)
    cases k <;> simp only [EmbLv] at h
    · obtain ⟨p, rfl⟩ := h; exact ⟨_, rfl, hv⟩
    · obtain ⟨p, rfl⟩ := h; exact ⟨_, rfl, hv⟩
    · obtain ⟨p, rfl⟩ := h; exact ⟨_, rfl, hv⟩
    · obtain ⟨p, q, rfl⟩ := h; exact ⟨_, rfl, by decide⟩
  | oprop v o => simp only [EmbLv, Emb] at h; obtain ⟨p, x, rfl, _⟩ := h; exact ⟨_, rfl, by decide⟩
  | movie v =>
    simp only [FragLv] at hf
    simp only [EmbLv, Emb] at h
    rcases h with ⟨p, rfl⟩ | ⟨p, q, o, rfl, _⟩
    · exact ⟨_, rfl, fun e => idOk_ne_one v hf (Lscr.Name.s.inj e)⟩
    · exact ⟨_, rfl, by decide⟩
  | the t k as =>
    simp only [FragLv, Bool.and_eq_true] at hf
    simp only [EmbLv] at h
    cases as with
    | nil =>
      cases t with
      | sys => simp only [Emb] at h; obtain ⟨p, q, o, rfl, _⟩ := h; exact ⟨_, rfl, by decide⟩
      | special =>
        simp only [Emb] at h; obtain ⟨p, rfl⟩ := h
        have hk : k < 6 := by have := hf.1; simpa [FragE] using this
        refine ⟨_, rfl, ?_⟩
        have : k = 0 ∨ k = 1 ∨ k = 2 ∨ k = 3 ∨ k = 4 ∨ k = 5 := by omega
        rcases this with rfl | rfl | rfl | rfl | rfl | rfl <;> decide
      | _ => exact absurd h (by simp [Emb])
    | cons x xs =>
      cases xs with
      | nil =>
        simp only [Emb] at h
        rcases h with ⟨p, q, cls, tb, w, nm, _, _, rfl⟩ | ⟨p, y, op, r, ty, hst, _, rfl, _⟩ | ⟨_, p, q, y, rfl, _⟩
        · exact ⟨_, rfl, by decide⟩
        · refine ⟨_, rfl, ?_⟩
          have hop : op = S "number" ∨ op = S "last" := by
            cases t <;> simp [strThe] at hst <;> first | exact Or.inr hst.2.1.symm | exact Or.inl hst.1.symm
          rcases hop with rfl | rfl <;> decide
        · exact ⟨_, rfl, by decide⟩
      | cons y ys => cases t <;> exact absurd h (by simp [Emb])
  | _ => simp [FragLv] at hf

theorem binName_add (o : BinOp) (h : binName o = S "add") : o = .add := by
  cases o <;> first | rfl | (exact absurd h (by decide))

/-! ### when `is_repeat_with` says no although the statement before the loop is an assignment -/

/-- the last statement of a loop body is not of the shape `v := <constant> + w` -/
def NotStepNode (last : Option Node) : Prop :=
  last = none ∨ ∃ p c, last = some (.stmt p c) ∧
    (c.cls ≠ .binary ∨ ∃ lop q ll lr, c = .binary lop q ll lr ∧ (∃ nm, ll.name = .ok nm) ∧
      (lr.cls ≠ .binary ∨ ∃ iop q' il ir, lr = .binary iop q' il ir ∧ (∃ nm, ir.name = .ok nm) ∧
        (iop ≠ S "add" ∨ il.cls ≠ .leaf .const)))

theorem isRepeatWith_notStep (r : Ro) (p q : Int) (pop : Str) (pl pr : Node) (hpl : ∃ nm, pl.name = .ok nm)
    (hcond : ∀ cn cp cl cr, r.cond = .binary cn cp cl cr → ∃ nm, cl.name = .ok nm)
    (hlast : NotStepNode r.stmts.reverse.head?) :
    isRepeatWith r (some (.stmt p (.binary pop q pl pr))) = .ok false := by
  obtain ⟨v1, hv1⟩ := hpl
  unfold isRepeatWith
  simp only
  split
  · rfl
  · simp only [hv1, bind, Except.bind]
    split
    · rename_i cn cp cl cr hc
      obtain ⟨v2, hv2⟩ := hcond cn cp cl cr hc
      simp only [hv2]
      split
      · rfl
      · -- the last statement
        rcases hlast with hl | ⟨lp, lc, hl, hshape⟩
        · have : r.stmts.reverse = [] := by
            cases hr : r.stmts.reverse with
            | nil => rfl
            | cons x xs => rw [hr] at hl; simp at hl
          simp only [this]; rfl
        · obtain ⟨xs, hr⟩ : ∃ xs, r.stmts.reverse = .stmt lp lc :: xs := by
            cases hr : r.stmts.reverse with
            | nil => rw [hr] at hl; simp at hl
            | cons x xs => rw [hr] at hl; simp at hl; exact ⟨xs, by rw [hl]⟩
          simp only [hr]
          rcases hshape with hnb | ⟨lop, lq, ll, lr, rfl, ⟨v3, hv3⟩, hrest⟩
          · cases lc <;> first | (exact absurd rfl hnb) | rfl
          · simp only
            split
            · rfl
            · simp only [hv3]
              split
              · rfl
              · rcases hrest with hnb | ⟨iop, iq, il, ir, rfl, ⟨rn, hrn⟩, hfin⟩
                · cases lr <;> first | (exact absurd rfl hnb) | rfl
                · simp only [hrn]
                  split
                  · rfl
                  · rename_i hh
                    rcases hfin with h1 | h1
                    · exact absurd h1 (by intro h2; exact hh (Or.inr h2))
                    · cases il <;> first | rfl | skip
                      rename_i cl' nm' ps'
                      cases cl' <;> first | rfl | (exact absurd rfl h1)
    · rfl

/-! ### the syntactic condition -/

def isSet : Stmt → Bool
  | .set _ _ => true
  | _ => false

/-- `set _ = <literal> + _` -/
def stepLike : Stmt → Bool
  | .set _ (.bin .add (.int _) _) => true
  | .set _ (.bin .add (.str _) _) => true
  | _ => false

def lastStepLike (b : List Stmt) : Bool :=
  match b.getLast? with
  | some s => stepLike s
  | none => false

/-- `<literal> <op> _` -/
def intLeft : Expr → Bool
  | .bin _ (.int _) _ => true
  | .bin _ (.str _) _ => true
  | _ => false

mutual
/-- no `repeat while` looks like a compiled `repeat with` / `repeat with … in` (`prevSet`: the statement before is a `set`) -/
def okAmb1 (prevSet : Bool) : Stmt → Bool
  | .ifThen _ t e => okAmbs false t && okAmbs false e
  | .repeatWhile c b => !intLeft c && !(prevSet && lastStepLike b) && okAmbs false b
  | .repeatWith _ _ _ _ body => okAmbs false body
  | .repeatIn _ _ body => okAmbs false body
  | _ => true
def okAmbs (prevSet : Bool) : List Stmt → Bool
  | [] => true
  | s :: ss => okAmb1 prevSet s && okAmbs (isSet s) ss
end

/-- a `set` statement that is not step-like embeds as a node that is not step-shaped -/
theorem set_notStep (lv v : Expr) (hf0 : FragE0 v = true) (hns : stepLike (.set lv v) = false) (p : Int) (c : Node)
    (h : EmbS (.set lv v) (.stmt p c)) (p0 : Int) : NotStepNode (some (.stmt p0 c)) := by
  simp only [EmbS] at h
  obtain ⟨p', q, l, r, he, hlv, hv⟩ := h
  cases he
  refine Or.inr ⟨p0, _, rfl, Or.inr ⟨_, _, _, _, rfl, embLv_name_ok lv l hlv, ?_⟩⟩
  by_cases hb : r.cls = .binary
  · cases r with
    | binary op pp x y =>
      obtain ⟨o, a, b, rfl, rfl, ha, hbb, hfa, hfb⟩ := emb_binary v op pp x y hf0 hv
      refine Or.inr ⟨_, _, _, _, rfl, emb_name_ok b y hfb hbb, ?_⟩
      by_cases ho : o = .add
      · subst ho
        right
        intro hc
        rcases emb_const a x hfa ha hc with ⟨k, rfl⟩ | ⟨s, rfl⟩
        · simp [stepLike] at hns
        · simp [stepLike] at hns
      · left
        intro hc
        exact ho (binName_add o hc)
    | _ => simp [Node.cls] at hb
  · exact Or.inl hb

theorem notStep_of_cls (p : Int) (c : Node) (h : c.cls ≠ .binary) : NotStepNode (some (.stmt p c)) :=
  Or.inr ⟨p, c, rfl, Or.inl h⟩

theorem head?_reverse_append {α} (l1 l2 : List α) (h : l2 ≠ []) : (l1 ++ l2).reverse.head? = l2.reverse.head? := by
  rw [List.reverse_append]
  cases hr : l2.reverse with
  | nil => exact absurd (by simpa using hr) h
  | cons x xs => rfl

/-- every embedded statement contributes at least one statement to its list -/
theorem tgtC_lower1_ne (s : Stmt) (y : Src) (_h : EmbSrc1 s y) (o : Int) : tgtC o (lower1 y) ≠ [] := by
  have : P.nsts (lower1 y) ≠ 0 := nsts_lower1_pos y
  exact tgtC_ne_nil o _ this

/-- the last statement of the (condition-detected) list of one embedded statement that is not step-like -/
theorem lastNode1_notStep (s : Stmt) (y : Src) (hfr : FragT s = true) (h : EmbSrc1 s y) (hns : stepLike s = false) (o : Int) :
    NotStepNode (tgtC o (lower1 y)).reverse.head? := by
  cases s with
  | ifThen c t e =>
    obtain ⟨csz, cn, t', e', rfl, _⟩ := h
    rw [tgtC_lower1_if]; exact notStep_of_cls _ _ (by simp [Node.cls])
  | repeatWhile c b =>
    obtain ⟨csz, cn, b', rfl, _⟩ := h
    rw [tgtC_lower1_while]; exact notStep_of_cls _ _ (by simp [Node.cls, rawLoop])
  | repeatWith v a b d body =>
    cases v with
    | var k n =>
      cases k with
      | loc =>
        obtain ⟨pre, incr, csz, body', p1, p2, p3, p4, p5, pv1, pv2, pv3, pv4, ra, rb, rfl, _⟩ := h
        rw [tgtC_lower1_with]; exact notStep_of_cls _ _ (by simp [Node.cls, rawLoop])
      | _ => obtain ⟨sm, p, rfl, _, he, _⟩ := h; simp [EmbS] at he
    | _ => obtain ⟨sm, p, rfl, _, he, _⟩ := h; simp [EmbS] at he
  | repeatIn v l body =>
    cases v with
    | var k n =>
      cases k with
      | loc =>
        obtain ⟨presz, bp, incrsz, postsz, csz, body', pb, pk, pc, pl, ps, pg, pl2, pv, ln, rfl, _⟩ := h
        rw [tgtC_lower1_in]; exact notStep_of_cls _ _ (by simp [Node.cls, rawLoop])
      | _ => obtain ⟨sm, p, rfl, _, he, _⟩ := h; simp [EmbS] at he
    | _ => obtain ⟨sm, p, rfl, _, he, _⟩ := h; simp [EmbS] at he
  | set lv v =>
    obtain ⟨sm, p, rfl, _, he, _⟩ := h
    rw [tgtC_lower1_simple]
    have hf0 : FragE0 v = true := by simp only [FragT, Bool.and_eq_true] at hfr; exact hfr.2
    exact set_notStep lv v hf0 hns p sm.code he _
  | call f as =>
    obtain ⟨⟨sz, off, code⟩, p, rfl, _, he, _⟩ := h
    simp only [EmbS] at he
    obtain ⟨p', q, q', wr, ops, he, _⟩ := he
    cases he
    rw [tgtC_lower1_simple]; exact notStep_of_cls _ _ (by simp [Node.cls])
  | exit =>
    obtain ⟨⟨sz, off, code⟩, p, rfl, _, he, _⟩ := h
    simp only [EmbS] at he
    obtain ⟨p', q, he⟩ := he
    cases he
    rw [tgtC_lower1_simple]; exact notStep_of_cls _ _ (by simp [Node.cls])
  | put m v lv =>
    obtain ⟨⟨sz, off, code⟩, p, rfl, _, he, _⟩ := h
    simp only [EmbS] at he
    obtain ⟨p', q, l, r, he, _⟩ := he
    cases he
    rw [tgtC_lower1_simple]; exact notStep_of_cls _ _ (by simp [Node.cls])
  | delete t =>
    obtain ⟨⟨sz, off, code⟩, p, rfl, _, he, _⟩ := h
    simp only [EmbS] at he
    obtain ⟨p', q, l, he, _⟩ := he
    cases he
    rw [tgtC_lower1_simple]; exact notStep_of_cls _ _ (by simp [Node.cls])
  | hilite t =>
    obtain ⟨⟨sz, off, code⟩, p, rfl, _, he, _⟩ := h
    simp only [EmbS] at he
    obtain ⟨p', q, l, he, _⟩ := he
    cases he
    rw [tgtC_lower1_simple]; exact notStep_of_cls _ _ (by simp [Node.cls])
  | mcall o m as =>
    obtain ⟨⟨sz, off, code⟩, p, rfl, _, he, _⟩ := h
    simp only [EmbS] at he
    obtain ⟨p', q, q', ps, rc, ops, nm, _, he, _⟩ := he
    cases he
    rw [tgtC_lower1_simple]; exact notStep_of_cls _ _ (by simp [Node.cls])
  | _ => obtain ⟨sm, p, rfl, _, he, _⟩ := h; simp [EmbS] at he

theorem lastStepLike_cons (s : Stmt) (ss : List Stmt) (h : ss ≠ []) : lastStepLike (s :: ss) = lastStepLike ss := by
  unfold lastStepLike
  cases ss with
  | nil => exact absurd rfl h
  | cons y ys => simp [List.getLast?_cons_cons]

theorem lastNode_notStep : ∀ (b : List Stmt) (b' : List Src), FragTs b = true → EmbSrc b b' → lastStepLike b = false → ∀ (o : Int),
    NotStepNode (tgtC o (lower b')).reverse.head? := by
  intro b
  induction b with
  | nil =>
    intro b' _ h _ o
    have : b' = [] := h
    subst this
    exact Or.inl (by simp [lower, tgtC])
  | cons s ss ih =>
    intro b' hfr h hns o
    obtain ⟨y, ys, rfl, h1, h2⟩ := h
    simp only [FragTs, Bool.and_eq_true] at hfr
    rw [tgtC_lower_cons]
    by_cases hss : ss = []
    · subst hss
      have : ys = [] := h2
      subst this
      have hs : stepLike s = false := by simpa [lastStepLike] using hns
      rw [lower_nil, tgtC_nil, List.append_nil]
      exact lastNode1_notStep s y hfr.1 h1 hs o
    · rw [lastStepLike_cons s ss hss] at hns
      have hne : tgtC (o + y.size) (lower ys) ≠ [] := by
        cases ss with
        | nil => exact absurd rfl hss
        | cons s2 ss2 =>
          obtain ⟨y2, ys2, rfl, h21, _⟩ := h2
          rw [tgtC_lower_cons]
          have := tgtC_lower1_ne s2 y2 h21 (o + y.size)
          simp [this]
      rw [head?_reverse_append _ _ hne]
      exact ih ys hfr.2 h2 hns (o + y.size)

/-! ### membership in the class -/

/-- what is known about `previous_st` when a construct is reached: if the source statement before it is not a `set`, it is not a
    binary operation; if it is, it is an assignment whose left side has a name -/
def PrevInv (prevSet : Bool) (prev : Option Node) : Prop :=
  prev = none ∨ ∃ p c, prev = some (.stmt p c) ∧
    (c.cls ≠ .binary ∨ (prevSet = true ∧ ∃ pop q pl pr, c = .binary pop q pl pr ∧ ∃ nm, pl.name = .ok nm ∧ nm ≠ .s (S "1")))

theorem plain_simpleCode' {p : Int} {c : Node} (h : PlainStmt (.stmt p c)) : simpleCode c = true := by
  cases h <;> rfl

theorem emb_cond_name (c : Expr) (cond : Node) (hf : FragE0 c = true) (h : Emb c cond) :
    ∀ cn cp cl cr, cond = .binary cn cp cl cr → ∃ nm, cl.name = .ok nm := by
  intro cn cp cl cr e
  subst e
  obtain ⟨o, a, b, rfl, _, ha, _, hfa, _⟩ := emb_binary c cn cp cl cr hf h
  exact emb_name_ok a cl hfa ha

theorem isRepeatWith_prev (r : Ro) (ps : Bool) (prev : Option Node) (hp : PrevInv ps prev)
    (hcond : ∀ cn cp cl cr, r.cond = .binary cn cp cl cr → ∃ nm, cl.name = .ok nm)
    (hlast : ps = true → NotStepNode r.stmts.reverse.head?) : isRepeatWith r prev = .ok false := by
  rcases hp with rfl | ⟨p, c, rfl, h | ⟨hps, pop, q, pl, pr, rfl, nm, hnm, _⟩⟩
  · rfl
  · exact isRepeatWith_notBinary r p c h
  · exact isRepeatWith_notStep r p q pop pl pr ⟨nm, hnm⟩ hcond (hlast hps)

/-- `is_repeat_with` says no to a loop whose condition compares the constant `1` (the counter of `repeat with … in`): the
    statement before the loop assigns to something whose name is not `1` -/
theorem isRepeatWith_in (r : Ro) (ps : Bool) (prev : Option Node) (hp : PrevInv ps prev) (cn : Str) (cp pk : Int) (cr : Node)
    (hc : r.cond = .binary cn cp (.leaf .const (.s (S "1")) pk) cr) : isRepeatWith r prev = .ok false := by
  rcases hp with rfl | ⟨p, c, rfl, h | ⟨hps, pop, q, pl, pr, rfl, nm, hnm, hne⟩⟩
  · rfl
  · exact isRepeatWith_notBinary r p c h
  · unfold isRepeatWith
    simp only
    split
    · rfl
    · have hk : (Node.leaf Leaf.const (Lscr.Name.s (S "1")) pk).name = .ok (.s (S "1")) := rfl
      simp only [hnm, bind, Except.bind, hc, hk]
      simp [hne, pure, Except.pure]

theorem emb_notIntLeft (c : Expr) (cond : Node) (hf : FragE0 c = true) (h : Emb c cond) (hn : intLeft c = false) :
    ∀ op p l rr, cond = .binary op p l rr → l.cls ≠ .leaf .const := by
  intro op p l rr e hc
  subst e
  obtain ⟨o, a, b, rfl, _, ha, _, hfa, _⟩ := emb_binary c op p l rr hf h
  rcases emb_const a l hfa ha hc with ⟨k, rfl⟩ | ⟨s, rfl⟩ <;> simp [intLeft] at hn

/-- the components `inParts` extracts from the condition and the first body statement of an embedded `repeat with … in` -/
theorem inParts_emb (l : Expr) (ln : Node) (hl : Emb l ln) (v : Spec.Name) (pb pk pc pl ps pg pl2 pv : Int) :
    inParts (.binary (S "lte") pb (.leaf .const (.s (S "1")) pk)
        (.callFn (.s (S "count")) pc (.loadList (S "<load_list>") pl [ln]) true false false .none))
      (.binary (S "assign") ps (.leaf .localVar (.s v) pv)
        (.callFn (.s (S "getAt")) pg (.loadList (S "<load_list>") pl2 [.leaf .const (.s (S "1")) pk, ln]) true false false .none)) =
      some (ln, .s v, .leaf .localVar (.s v) pv) := by
  obtain ⟨lnm, hlnm⟩ := emb_name l ln hl
  have hlnone := emb_isNone l ln hl
  have hself : ln.pyEq ln = true := by
    unfold Node.pyEq
    cases ln <;> first | (simp [Node.isNone] at hlnone; done) | (simp only [Node.name] at hlnm; simp [hlnm, Node.name])
  have g1 : pyGet [ln] 0 = .ok ln := rfl
  have g2 : pyGet [Node.leaf Leaf.const (Lscr.Name.s (S "1")) pk, ln] 1 = .ok ln := rfl
  have g3 : pyGet [Node.leaf Leaf.const (Lscr.Name.s (S "1")) pk, ln] 0 = .ok (Node.leaf Leaf.const (Lscr.Name.s (S "1")) pk) := rfl
  have g4 : (Node.leaf Leaf.localVar (Lscr.Name.s v) pv).name = .ok (.s v) := rfl
  have hK : (Node.leaf Leaf.const (Lscr.Name.s (S "1")) pk).pyEq (Node.leaf Leaf.const (Lscr.Name.s (S "1")) pk) = true := by
    simp [Node.pyEq, Node.cls, Node.name, Node.pos]
  simp only [inParts, g1, g2, g3, g4, hself, hK, and_self, if_true]

mutual
theorem class1 : (s : Stmt) → (x : Src) → FragT s = true → EmbSrc1 s x → ∀ (ps : Bool) (prev : Option Node) (o : Int), PrevInv ps prev →
    okAmb1 ps s = true → x.ok prev o = true ∧ PrevInv (isSet s) (lastOr (tgtL1 o x) prev)
  | .ifThen c t e, x, hfr, h, ps, prev, o, _, hok => by
    obtain ⟨csz, cn, t', e', rfl, _, ht, he⟩ := h
    simp only [okAmb1, Bool.and_eq_true] at hok
    simp only [FragT, Bool.and_eq_true] at hfr
    refine ⟨ok_if.2 ⟨classs t t' hfr.1.2 ht false none _ (Or.inl rfl) hok.1, classs e e' hfr.2 he false none _ (Or.inl rfl) hok.2⟩, ?_⟩
    simp only [tgtL1, lastOr]
    exact Or.inr ⟨_, _, rfl, Or.inl (by simp [Node.cls])⟩
  | .repeatWhile c b, x, hfr, h, ps, prev, o, hp, hok => by
    obtain ⟨csz, cn, b', rfl, hc, hb⟩ := h
    simp only [FragT, Bool.and_eq_true] at hfr
    simp only [okAmb1, Bool.and_eq_true, Bool.not_eq_true', Bool.and_eq_false_iff] at hok
    obtain ⟨⟨hil, hamb⟩, hbody⟩ := hok
    refine ⟨ok_while.2 ⟨classs b b' hfr.2 hb false none _ (Or.inl rfl) hbody, ?_, ?_⟩, ?_⟩
    · apply isRepeatWith_prev _ ps prev hp (emb_cond_name c cn hfr.1.2 hc)
      intro hps
      have : lastStepLike b = false := by
        rcases hamb with h | h
        · rw [hps] at h; cases h
        · exact h
      exact lastNode_notStep b b' hfr.2 hb this _
    · exact isRepeatWithIn_leftNotConst _ (emb_notIntLeft c cn hfr.1.2 hc hil)
    · simp only [tgtL1, lastOr]
      exact Or.inr ⟨_, _, rfl, Or.inl (by simp [Node.cls])⟩
  | .repeatWith (.var .loc v) a b down body, x, hfr, h, ps, prev, o, _, hok => by
    simp only [FragT, Bool.and_eq_true] at hfr
    obtain ⟨pre, incr, csz, body', p1, p2, p3, p4, p5, pv1, pv2, pv3, pv4, ra, rb, rfl, ho1, ho2, hc1, hc2, _, _, hb⟩ := h
    simp only [okAmb1] at hok
    have hparts : withParts (.binary (cmpName down) p1 (.leaf .localVar (.s v) pv1) rb) pre.code incr.code =
        some (.leaf .localVar (.s v) pv2, ra, .s v, if down then S "-" else S "+") := by
      rw [hc1, hc2]
      cases down <;> simp [withParts, Node.name, cmpName, stepStr] <;> decide
    refine ⟨ok_with.2 ⟨ho1, ho2, by rw [hc1]; rfl, by rw [hc2]; rfl, classs body body' hfr.2 hb false none _ (Or.inl rfl) hok, by rw [hparts]; rfl, ?_⟩, ?_⟩
    · exact isRepeatWithIn_leftNotConst _ (by
        intro op p l rr e
        simp only [roOf, Node.binary.injEq] at e
        obtain ⟨_, _, rfl, _⟩ := e
        simp [Node.cls])
    · simp only [tgtL1, hparts, lastOr]
      exact Or.inr ⟨_, _, rfl, Or.inl (by simp [Node.cls])⟩
  | .set lv v, x, hfr, h, ps, prev, o, _, _ => by
    obtain ⟨⟨sz, off, code⟩, p, rfl, ho, he, hpl⟩ := h
    refine ⟨ok_simple.2 ⟨ho, plain_simpleCode' hpl⟩, ?_⟩
    simp only [EmbS] at he
    obtain ⟨p', q, l, r, he, hlv, _⟩ := he
    cases he
    simp only [tgtL1, lastOr, isSet]
    have hflv : FragLv lv = true := by simp only [FragT, FragS, Bool.and_eq_true] at hfr; exact hfr.1.1
    exact Or.inr ⟨_, _, rfl, Or.inr ⟨rfl, _, _, _, _, rfl, embLv_name_ne1 lv l hflv hlv⟩⟩
  | .call f as, x, _, h, ps, prev, o, _, _ => by
    obtain ⟨⟨sz, off, code⟩, p, rfl, ho, he, hpl⟩ := h
    refine ⟨ok_simple.2 ⟨ho, plain_simpleCode' hpl⟩, ?_⟩
    simp only [EmbS] at he
    obtain ⟨p', q, q', wr, ops, he, _⟩ := he
    cases he
    simp only [tgtL1, lastOr]
    exact Or.inr ⟨_, _, rfl, Or.inl (by simp [Node.cls])⟩
  | .exit, x, _, h, ps, prev, o, _, _ => by
    obtain ⟨⟨sz, off, code⟩, p, rfl, ho, he, hpl⟩ := h
    refine ⟨ok_simple.2 ⟨ho, plain_simpleCode' hpl⟩, ?_⟩
    simp only [EmbS] at he
    obtain ⟨p', q, he⟩ := he
    cases he
    simp only [tgtL1, lastOr]
    exact Or.inr ⟨_, _, rfl, Or.inl (by simp [Node.cls])⟩
  | .put m v lv, x, _, h, ps, prev, o, _, _ => by
    obtain ⟨⟨sz, off, code⟩, p, rfl, ho, he, hpl⟩ := h
    refine ⟨ok_simple.2 ⟨ho, plain_simpleCode' hpl⟩, ?_⟩
    simp only [EmbS] at he
    obtain ⟨p', q, l, r, he, _⟩ := he
    cases he
    simp only [tgtL1, lastOr]
    exact Or.inr ⟨_, _, rfl, Or.inl (by simp [Node.cls])⟩
  | .delete t, x, _, h, ps, prev, o, _, _ => by
    obtain ⟨⟨sz, off, code⟩, p, rfl, ho, he, hpl⟩ := h
    refine ⟨ok_simple.2 ⟨ho, plain_simpleCode' hpl⟩, ?_⟩
    simp only [EmbS] at he
    obtain ⟨p', q, l, he, _⟩ := he
    cases he
    simp only [tgtL1, lastOr]
    exact Or.inr ⟨_, _, rfl, Or.inl (by simp [Node.cls])⟩
  | .hilite t, x, _, h, ps, prev, o, _, _ => by
    obtain ⟨⟨sz, off, code⟩, p, rfl, ho, he, hpl⟩ := h
    refine ⟨ok_simple.2 ⟨ho, plain_simpleCode' hpl⟩, ?_⟩
    simp only [EmbS] at he
    obtain ⟨p', q, l, he, _⟩ := he
    cases he
    simp only [tgtL1, lastOr]
    exact Or.inr ⟨_, _, rfl, Or.inl (by simp [Node.cls])⟩
  | .mcall o m as, x, _, h, ps, prev, o', _, _ => by
    obtain ⟨⟨sz, off, code⟩, p, rfl, ho, he, hpl⟩ := h
    refine ⟨ok_simple.2 ⟨ho, plain_simpleCode' hpl⟩, ?_⟩
    simp only [EmbS] at he
    obtain ⟨p', q, q', ps', rc, ops, nm, _, he, _⟩ := he
    cases he
    simp only [tgtL1, lastOr]
    exact Or.inr ⟨_, _, rfl, Or.inl (by simp [Node.cls])⟩
  | .tell .., x, _, h, _, _, _, _, _ => by obtain ⟨sm, p, rfl, ho, he, hp⟩ := h; exact absurd he (by simp [EmbS])
  | .repeatIn (.var .loc v) l body, x, hfr, h, ps, prev, o, hp, hok => by
    simp only [FragT, Bool.and_eq_true] at hfr
    obtain ⟨presz, bp, incrsz, postsz, csz, body', pb, pk, pc, pl, ps', pg, pl2, pv, ln, rfl, ho, hc, hl, hb⟩ := h
    simp only [okAmb1] at hok
    have hparts : inParts (.binary (S "lte") pb (.leaf .const (.s (S "1")) pk)
          (.callFn (.s (S "count")) pc (.loadList (S "<load_list>") pl [ln]) true false false .none)) bp.code =
        some (ln, .s v, .leaf .localVar (.s v) pv) := by
      rw [hc]; exact inParts_emb l ln hl v pb pk pc pl ps' pg pl2 pv
    refine ⟨ok_in.2 ⟨ho, by rw [hc]; rfl, classs body body' hfr.2 hb false none _ (Or.inl rfl) hok, by rw [hparts]; rfl, ?_⟩, ?_⟩
    · exact isRepeatWith_in _ ps prev hp (S "lte") pb pk _ rfl
    · simp only [tgtL1, hparts, lastOr]
      exact Or.inr ⟨_, _, rfl, Or.inl (by simp [Node.cls])⟩
  | .repeatIn (.int _) .., x, _, h, _, _, _, _, _ => by obtain ⟨sm, p, rfl, ho, he, hp⟩ := h; exact absurd he (by simp [EmbS])
  | .exitRepeat, x, _, h, _, _, _, _, _ => by obtain ⟨sm, p, rfl, ho, he, hp⟩ := h; exact absurd he (by simp [EmbS])
  | .repeatWith (.int _) .., x, _, h, _, _, _, _, _ => by obtain ⟨sm, p, rfl, ho, he, hp⟩ := h; exact absurd he (by simp [EmbS])
theorem classs : (ss : List Stmt) → (xs : List Src) → FragTs ss = true → EmbSrc ss xs → ∀ (ps : Bool) (prev : Option Node) (o : Int), PrevInv ps prev →
    okAmbs ps ss = true → Src.oks prev o xs = true
  | [], xs, _, h, _, _, _, _, _ => by
    have : xs = [] := h
    subst this
    rfl
  | s :: ss, xs, hfr, h, ps, prev, o, hp, hok => by
    obtain ⟨y, ys, rfl, h1, h2⟩ := h
    simp only [okAmbs, Bool.and_eq_true] at hok
    simp only [FragTs, Bool.and_eq_true] at hfr
    obtain ⟨a1, a2⟩ := class1 s y hfr.1 h1 ps prev o hp hok.1
    exact oks_cons.2 ⟨a1, classs ss ys hfr.2 h2 (isSet s) _ _ a2 hok.2⟩
end

end Drx.LinkFlow
