/-
  The model's text `mText s` as an item list: its rendering is `mText s`, its tokens are `dToks s`, and it is properly
  delimited, so `lex (mText s) = some (dToks s)`.
-/
import Drx.Link
import DrxProofs.LinkLex
import DrxProofs.LinkCompile
import DrxProofs.LinkSort
namespace Drx.Link
open Drx Drx.Lscr Drx.Spec
set_option linter.unusedSimpArgs false
set_option linter.unusedVariables false

def kwI (s : String) : Item := .tk (.id s.toList)

/-- characters that may follow any token -/
def safeCh (c : Char) : Bool := !isIdChar c && c != '.' && c != '-' && c != '&' && c != '=' && c != '>'

def ItemOk : Item → Bool
  | .tk (.id s) => idOk s
  | .tk (.str s) => safeStr s
  | .tk (.flt _ _) => false
  | _ => true

theorem okNext_safe (it : Item) (c : Char) (r : List Char) (hi : ItemOk it = true) (hc : safeCh c = true) : okNext it (c :: r) = true := by
  simp only [safeCh, Bool.and_eq_true, Bool.not_eq_true', bne_iff_ne, ne_eq] at hc
  obtain ⟨⟨⟨⟨⟨h1, h2⟩, h3⟩, h4⟩, h5⟩, h6⟩ := hc
  cases it with
  | sp => rfl
  | tk t =>
    cases t with
    | nl => rfl
    | id s => simp [okNext, h1]; exact hi
    | num n => simp [okNext, h1, h2]
    | p x => cases x <;> simp [okNext, h3, h4, h5, h6]
    | str s => simpa [okNext, ItemOk] using hi
    | flt a b => simp [ItemOk] at hi

def SafeHd (rest : List Char) : Prop := ∃ c r, rest = c :: r ∧ safeCh c = true

theorem okNext_safeHd (it : Item) (rest : List Char) (hi : ItemOk it = true) (h : SafeHd rest) : okNext it rest = true := by
  obtain ⟨c, r, rfl, hc⟩ := h
  exact okNext_safe it c r hi hc

theorem safeHd_cons (c : Char) (r : List Char) (h : safeCh c = true) : SafeHd (c :: r) := ⟨c, r, rfl, h⟩

/-! ### expressions -/

mutual
def iE : Expr → List Item
  | .int k => [.tk (.num k)]
  | .str s => [.tk (.str s)]
  | .sym n => [.tk (.p .hash), .tk (.id n)]
  | .var _ v => [.tk (.id v)]
  | .un .neg a => .tk (.p .minus) :: iE a
  | .un .not a => kwI "not" :: .sp :: iE a
  | .bin o a b =>
    if o.isInfix then [.tk (.p .lp)] ++ iE a ++ [.sp, .tk o.tok, .sp] ++ iE b ++ [.tk (.p .rp)]
    else [kwI "sprite", .sp] ++ iE a ++ [.sp, .tk o.tok, .sp] ++ iE b
  | .field a => kwI "field" :: .sp :: iE a
  | .call f as => .tk (.id f) :: .tk (.p .lp) :: (iArgs as ++ [.tk (.p .rp)])
  | .mcall o m as => iE o ++ (.tk (.p .lp) :: .tk (.id m) :: ((if as.isEmpty then [] else .tk (.p .comma) :: .sp :: iArgs as) ++ [.tk (.p .rp)]))
  | .list as => .tk (.p .lb) :: (iArgs as ++ [.tk (.p .rb)])
  | .plist as => if as.isEmpty then [.tk (.p .lb), .tk (.p .colon), .tk (.p .rb)] else .tk (.p .lb) :: (iPairs as ++ [.tk (.p .rb)])
  | .key v => [kwI "the", .sp, .tk (.id v)]
  | .movie v => [kwI "the", .sp, .tk (.id v)]
  | .the .sys k [] => [kwI "the", .sp, .tk (.id (nameOrUnknown tblSys k))]
  | .the .special k [] => [kwI "the", .sp, .tk (.id (nameOrUnknown tblSpecial k))]
  | .the t k [e] =>
    (match theTbl t with
     | some (_, tb, w) => [kwI "the", .sp, .tk (.id (nameOrUnknown tb k)), .sp, kwI "of", .sp, kwI w, .sp] ++ iE e
     | none =>
       match strThe t k with
       | some (op, r) =>
         if op = S "last" then [kwI "the", .sp, kwI "last", .sp, .tk (.id ((chunkTy r).getD [])), .sp, kwI "of", .sp] ++ iE e
         else [kwI "the", .sp, kwI "number", .sp, kwI "of", .sp, .tk (.id ((chunkTy r).getD [] ++ ['s'])), .sp, kwI "of", .sp] ++ iE e
       | none =>
         if t = .field then [kwI "the", .sp, .tk (.id (nameOrUnknown tblCast k)), .sp, kwI "of", .sp, kwI "field", .sp] ++ iE e else [])
  | .oprop v o => [kwI "the", .sp, .tk (.id v), .sp, kwI "of", .sp] ++ iE o
  | .chunk k a b d =>
    [kwI k.tag, .sp] ++ (iE a ++ ((if isZero b then [] else [.sp, kwI "to", .sp] ++ iE b) ++ ([.sp, kwI "of", .sp] ++ iE d)))
  | _ => []
def iArgs : List Expr → List Item
  | [] => []
  | [e] => iE e
  | e :: e2 :: es => iE e ++ (.tk (.p .comma) :: .sp :: iArgs (e2 :: es))
def iPairs : List Expr → List Item
  | [] => []
  | [k] => iE k
  | [k, v] => iE k ++ (.tk (.p .colon) :: .sp :: iE v)
  | k :: v :: k2 :: rest => iE k ++ (.tk (.p .colon) :: .sp :: (iE v ++ (.tk (.p .comma) :: .sp :: iPairs (k2 :: rest))))
end

theorem plain_safeStr (v : Spec.Name) (h : ∀ c ∈ v, plainCharB c = true) : safeStr v = true := by
  simp only [safeStr, List.all_eq_true, Bool.and_eq_true, bne_iff_ne, ne_eq]
  intro c hc
  have := h c hc
  simp only [plainCharB, Bool.and_eq_true, decide_eq_true_eq, bne_iff_ne, ne_eq] at this
  refine ⟨⟨this.2, ?_⟩, ?_⟩
  · intro e; subst e; simp at this
  · intro e; subst e; simp at this

/-- a non-empty string of plain characters is none of Lingo's named string constants -/
theorem nameOfConstant_plain (v : Spec.Name) (hne : v ≠ []) (h : ∀ c ∈ v, plainCharB c = true) : nameOfConstant v = none := by
  unfold nameOfConstant
  rw [Option.map_eq_none_iff, List.find?_eq_none]
  intro x hx
  simp only [namedConstants, List.mem_cons, List.mem_nil_iff, or_false] at hx
  rcases hx with hx | hx | hx | hx | hx | hx <;> subst hx <;> simp only [beq_iff_eq] <;> intro e
  · exact hne e.symm
  · have := h (Char.ofNat 8) (by rw [← e]; simp); simp [plainCharB] at this
  · have := h (Char.ofNat 3) (by rw [← e]; simp); simp [plainCharB] at this
  · have := h '"' (by rw [← e]; simp); simp [plainCharB] at this
  · have := h '\r' (by rw [← e]; simp); simp [plainCharB] at this
  · have := h '\t' (by rw [← e]; simp); simp [plainCharB] at this

theorem optok_text (o : BinOp) (h : o ≠ .starts) : Item.text (.tk o.tok) = opTxt o := by
  cases o <;> first | rfl | exact absurd rfl h

theorem optok_ok (o : BinOp) : ItemOk (.tk o.tok) = true := by cases o <;> decide

theorem safe_colon : safeCh ':' = true := by decide
theorem safe_sp : safeCh ' ' = true := by decide
theorem safe_rp : safeCh ')' = true := by decide
theorem safe_nl : safeCh '\n' = true := by decide
theorem safe_comma : safeCh ',' = true := by decide
theorem safe_lp : safeCh '(' = true := by decide
theorem safe_rb : safeCh ']' = true := by decide

theorem sys_idOk (k : Nat) (h : tblSys.any (fun x => x.1 == k) = true) : idOk (nameOrUnknown tblSys k) = true := by
  have hall : tblSys.all (fun x => idOk (nameOrUnknown tblSys x.1)) = true := by decide +kernel
  rw [List.any_eq_true] at h
  obtain ⟨x, hx, hk⟩ := h
  have hk' : x.1 = k := by simpa using hk
  have := List.all_eq_true.mp hall x hx
  rw [hk'] at this
  exact this

theorem chunkTy_spec (r : Nat) (ty : Str) (h : chunkTy r = some ty) : ∃ c : ChunkKind, ChunkKind.ofRank r = some c ∧ ty = c.tag.toList := by
  unfold chunkTy at h
  cases hc : ChunkKind.ofRank r with
  | none => rw [hc] at h; cases h
  | some c => rw [hc] at h; simp only [Option.map_some, Option.some.injEq] at h; exact ⟨c, rfl, h.symm⟩

/-- the shape of the items of `the number of <chunk>s of e` / `the last <chunk> of e` -/
theorem iE_strThe (t : Tbl) (k : Nat) (e : Expr) (op : Str) (r : Nat) (ty : Str) (ht : theTbl t = none) (hst : strThe t k = some (op, r))
    (hty : chunkTy r = some ty) :
    iE (.the t k [e]) = (if op = S "last" then [kwI "the", .sp, kwI "last", .sp, .tk (.id ty), .sp, kwI "of", .sp] ++ iE e
      else [kwI "the", .sp, kwI "number", .sp, kwI "of", .sp, .tk (.id (ty ++ ['s'])), .sp, kwI "of", .sp] ++ iE e) := by
  simp only [iE, ht, hst, hty, Option.getD_some]

theorem iE_fieldThe (k : Nat) (e : Expr) :
    iE (.the .field k [e]) = [kwI "the", .sp, .tk (.id (nameOrUnknown tblCast k)), .sp, kwI "of", .sp, kwI "field", .sp] ++ iE e := by
  simp only [iE, theTbl, strThe, if_true]

theorem tbl_idOk (tb : List (Nat × String)) (hall : tb.all (fun x => idOk (nameOrUnknown tb x.1)) = true) (k : Nat)
    (h : tb.any (fun x => x.1 == k) = true) : idOk (nameOrUnknown tb k) = true := by
  rw [List.any_eq_true] at h
  obtain ⟨x, hx, hk⟩ := h
  have hk' : x.1 = k := by simpa using hk
  have := List.all_eq_true.mp hall x hx
  rw [hk'] at this
  exact this

theorem obj_idOk (t : Tbl) (cls : Lscr.Leaf) (tb : List (Nat × String)) (w : String) (ht : theTbl t = some (cls, tb, w)) (k : Nat)
    (h : tb.any (fun x => x.1 == k) = true) : idOk (nameOrUnknown tb k) = true ∧ ItemOk (kwI w) = true := by
  cases t <;> simp [theTbl] at ht <;>
  · obtain ⟨_, rfl, rfl⟩ := ht
    exact ⟨tbl_idOk _ (by decide +kernel) k h, by decide⟩

theorem special_idOk (k : Nat) (h : k < 6) : idOk (nameOrUnknown tblSpecial k) = true := by
  have : k = 0 ∨ k = 1 ∨ k = 2 ∨ k = 3 ∨ k = 4 ∨ k = 5 := by omega
  rcases this with rfl | rfl | rfl | rfl | rfl | rfl <;> decide +kernel

theorem render_the (x : Spec.Name) : render [kwI "the", .sp, .tk (.id x)] = S "the " ++ x := by
  simp [render, Item.text, kwI, S]

theorem render_nil : render [] = [] := rfl

theorem chain_cons_safe (it : Item) (l : List Item) (rest : List Char) (hi : ItemOk it = true) (hs : SafeHd (render l ++ rest)) :
    Chain (it :: l) rest = Chain l rest := by
  simp only [Chain, okNext_safeHd it _ hi hs, Bool.true_and]

theorem chain_sp (l : List Item) (rest : List Char) : Chain (.sp :: l) rest = Chain l rest := by simp [Chain, okNext]
theorem chain_nl (l : List Item) (rest : List Char) : Chain (.tk .nl :: l) rest = Chain l rest := by simp [Chain, okNext]


/-- an item other than a string / float token whose follower starts with a blank / newline / comma -/
theorem chain_cons_sp (it : Item) (l : List Item) (rest : List Char) (hi : ItemOk it = true) :
    Chain (it :: .sp :: l) rest = Chain l rest := by
  rw [chain_cons_safe it _ rest hi ⟨' ', _, rfl, safe_sp⟩, chain_sp]

theorem chain_cons_nl (it : Item) (l : List Item) (rest : List Char) (hi : ItemOk it = true) :
    Chain (it :: .tk .nl :: l) rest = Chain l rest := by
  rw [chain_cons_safe it _ rest hi ⟨'\n', _, rfl, safe_nl⟩, chain_nl]

theorem chain_cons_comma_sp (it : Item) (l : List Item) (rest : List Char) (hi : ItemOk it = true) :
    Chain (it :: .tk (.p .comma) :: .sp :: l) rest = Chain l rest := by
  rw [chain_cons_safe it _ rest hi ⟨',', render (.sp :: l) ++ rest, by simp [render, Item.text, P.text], safe_comma⟩]
  exact chain_cons_sp _ _ _ (by decide)


theorem chain_the (x : Spec.Name) (hid : idOk x = true) (rest : List Char) (h : SafeHd rest) :
    Chain [kwI "the", .sp, .tk (.id x)] rest = true := by
  simp only [Chain, Bool.and_eq_true, and_true]
  refine ⟨okNext_safe (kwI "the") ' ' _ (by decide) safe_sp, rfl, ?_⟩
  simp only [render, List.flatMap_nil, List.nil_append]
  exact okNext_safeHd _ _ (by simpa [ItemOk] using hid) h

theorem prTail_cons : ∀ (es : List Expr) (e : Expr), prTail (e :: es) = .p .comma :: prArgs (e :: es)
  | [], e => by simp [prTail, prArgs]
  | e2 :: es, e => by
    have ih := prTail_cons es e2
    simp only [prTail] at ih ⊢
    simp [prArgs, ih]

theorem prTail_eq (as : List Expr) : prTail as = if as.isEmpty then [] else .p .comma :: prArgs as := by
  cases as with
  | nil => rfl
  | cons e es => simp [prTail_cons]

/-- the receiver of a method call is a variable: one identifier item -/
theorem recv_iE (o : Expr) (h : recvOk o = true) : ∃ nm, idOk nm = true ∧ iE o = [.tk (.id nm)] ∧ mE o = nm ∧ prE o = [.id nm] := by
  obtain ⟨nm, _, hid, _, hshape⟩ := recvOk_spec o h
  rcases hshape with rfl | rfl | rfl <;> exact ⟨nm, hid, rfl, rfl, rfl⟩

theorem chain_id_lp (nm : Spec.Name) (X : List Item) (rest : List Char) (hid : idOk nm = true) :
    Chain (.tk (.id nm) :: .tk (.p .lp) :: X) rest = Chain X rest := by
  have e : render (.tk (.p .lp) :: X) ++ rest = '(' :: (render X ++ rest) := by simp [render, Item.text, P.text]
  have h1 := okNext_safe (.tk (.id nm)) '(' (render X ++ rest) (by simpa [ItemOk] using hid) safe_lp
  simp only [Chain, e, h1, Bool.true_and]
  simp [okNext]

theorem chain_id_rp (nm : Spec.Name) (X : List Item) (rest : List Char) (hid : idOk nm = true) :
    Chain (.tk (.id nm) :: .tk (.p .rp) :: X) rest = Chain X rest := by
  have e : render (.tk (.p .rp) :: X) ++ rest = ')' :: (render X ++ rest) := by simp [render, Item.text, P.text]
  have h1 := okNext_safe (.tk (.id nm)) ')' (render X ++ rest) (by simpa [ItemOk] using hid) safe_rp
  simp only [Chain, e, h1, Bool.true_and]
  simp [okNext]

mutual
theorem render_iE : ∀ (e : Expr), FragE e = true → render (iE e) = mE e
  | .int k, _ => by simp [iE, render, Item.text, mE]
  | .var _ v, _ => by simp [iE, render, Item.text, mE]
  | .un .neg a, hf => by
    simp only [FragE, Bool.and_eq_true] at hf
    simp only [iE, render_cons, render_iE a hf.1, mE]; rfl
  | .un .not a, hf => by
    simp only [FragE] at hf
    simp only [iE, render_cons, render_iE a hf, mE]; rfl
  | .bin o a b, hf => by
    simp only [FragE, Bool.and_eq_true, decide_eq_true_eq] at hf
    obtain ⟨⟨ho, ha⟩, hb⟩ := hf
    cases hi : o.isInfix <;>
      simp only [iE, hi, Bool.false_eq_true, if_false, if_true, render_append, render_cons, render_iE a ha, render_iE b hb, mE,
        optok_text o ho] <;> simp [render, Item.text, S, kwI, P.text]
  | .str v, _ => by simp [iE, render, Item.text, mE]
  | .float _ _, hf => by simp [FragE] at hf
  | .sym n, _ => by simp [iE, render, Item.text, mE, P.text]
  | .me, hf => by simp [FragE] at hf
  | .field a, hf => by
    simp only [FragE] at hf
    simp only [iE, render_cons, render_iE a hf, mE]; rfl
  | .call f as, hf => by
    simp only [FragE, Bool.and_eq_true] at hf
    simp only [iE, render_cons, render_append, render_iArgs as hf.2, mE]
    simp [render, Item.text, S, P.text]
  | .mcall o m as, hf => by
    simp only [FragE, Bool.and_eq_true] at hf
    obtain ⟨nm, _, hio, hmo, _⟩ := recv_iE o hf.1.1
    have hr := render_iArgs as hf.2
    unfold render at hr
    cases hemp : as.isEmpty <;>
      simp [iE, mE, hio, hmo, hemp, render_cons, render_append, hr, render, Item.text, S, P.text]
  | .list as, hf => by
    simp only [FragE] at hf
    simp only [iE, render_cons, render_append, render_iArgs as hf, mE]
    simp [render, Item.text, S, P.text]
  | .plist as, hf => by
    simp only [FragE, Bool.and_eq_true] at hf
    cases hemp : as.isEmpty with
    | true => simp [iE, mE, hemp, render, Item.text, S, P.text]
    | false =>
      simp only [iE, mE, hemp, Bool.false_eq_true, if_false, render_cons, render_append, render_iPairs as hf.1]
      simp [render, Item.text, S, P.text]
  | .the t k as, hf => by
    cases as with
    | cons x xs =>
      cases xs with
      | cons y ys => cases t <;> simp [FragE] at hf
      | nil =>
        have hfx : FragE x = true := by simp only [FragE, Bool.and_eq_true] at hf; exact hf.2
        have ih := render_iE x hfx
        rcases mE_the1 t k x hf with ⟨cls, tb, w, ht, _, _, hm⟩ | ⟨op, r, ty, ht, hst, hty, hm⟩ | ⟨rfl, _, hm⟩
        · rw [hm]
          simp [iE, ht, render_append, render_cons, ih, Item.text, kwI, S, render_nil]
        rotate_left
        · rw [hm, iE_fieldThe]
          simp [render_append, render_cons, ih, Item.text, kwI, S, render_nil]
        · rw [hm, iE_strThe t k x op r ty ht hst hty]
          rcases strThe_op t k op r hst with rfl | rfl
          · have hne : ¬ (S "number" = S "last") := by decide
            simp [hne, render_append, render_cons, ih, Item.text, kwI, S, render_nil]
          · simp [render_append, render_cons, ih, Item.text, kwI, S, render_nil]
    | nil => cases t <;> first | (simp [FragE] at hf; done) | (simp only [iE, mE]; exact render_the _)
  | .key v, _ => by simp only [iE, mE]; exact render_the _
  | .movie v, _ => by simp only [iE, mE]; exact render_the _
  | .oprop v o, hf => by
    simp only [FragE, Bool.and_eq_true] at hf
    simp [iE, mE, render_append, render_cons, render_iE o hf.2, Item.text, kwI, S, render_nil]
  | .chunk k a b d, hf => by
    simp only [FragE, Bool.and_eq_true, Bool.not_eq_true'] at hf
    obtain ⟨⟨⟨hfa, _⟩, hfb⟩, hfd⟩ := hf
    cases hz : isZero b <;>
      simp [iE, mE, hz, render_append, render_cons, render_iE a hfa, render_iE b hfb, render_iE d hfd, Item.text, kwI, S, render_nil]
theorem render_iArgs : ∀ (as : List Expr), FragL as = true → render (iArgs as) = mArgs as
  | [], _ => rfl
  | [e], hf => by
    simp only [FragL, Bool.and_eq_true] at hf
    simp only [iArgs, render_iE e hf.1, mArgs]
  | e :: e2 :: es, hf => by
    simp only [FragL, Bool.and_eq_true] at hf
    have ih := render_iArgs (e2 :: es) (by simp only [FragL, Bool.and_eq_true]; exact hf.2)
    simp only [iArgs, render_append, render_cons, render_iE e hf.1, ih, mArgs]
    simp [Item.text, S, P.text]
theorem render_iPairs : ∀ (as : List Expr), FragL as = true → render (iPairs as) = mPairs as
  | [], _ => rfl
  | [k], hf => by
    simp only [FragL, Bool.and_eq_true] at hf
    simp only [iPairs, render_iE k hf.1, mPairs]
  | [k, v], hf => by
    simp only [FragL, Bool.and_eq_true] at hf
    simp only [iPairs, render_append, render_cons, render_iE k hf.1, render_iE v hf.2.1, mPairs]
    simp [Item.text, S, P.text]
  | k :: v :: k2 :: rest, hf => by
    simp only [FragL, Bool.and_eq_true] at hf
    have ih := render_iPairs (k2 :: rest) (by simp only [FragL, Bool.and_eq_true]; exact hf.2.2)
    simp only [iPairs, render_append, render_cons, render_iE k hf.1, render_iE v hf.2.1, ih, mPairs]
    simp [Item.text, S, P.text]
end

theorem prE_chunk (c : ChunkKind) (a b d : Expr) :
    prE (.chunk c a b d) = kw c.tag :: (prE a ++ ((if isZero b then [] else kw "to" :: prE b) ++ kw "of" :: prE d)) := by
  cases b with
  | int n => cases n <;> simp [prE, isZero]
  | _ => simp [prE, isZero]

mutual
theorem itoks_iE : ∀ (e : Expr), FragE e = true → itoks (iE e) = prE e
  | .int k, _ => by simp [iE, itoks, prE]
  | .var _ v, _ => by simp [iE, itoks, prE]
  | .un .neg a, hf => by
    simp only [FragE, Bool.and_eq_true] at hf
    simp only [iE, itoks, itoks_iE a hf.1, prE]
  | .un .not a, hf => by
    simp only [FragE] at hf
    simp only [iE, kwI, itoks, itoks_iE a hf, prE, kw]
  | .bin o a b, hf => by
    simp only [FragE, Bool.and_eq_true, decide_eq_true_eq] at hf
    obtain ⟨⟨ho, ha⟩, hb⟩ := hf
    cases hi : o.isInfix <;>
      simp [iE, hi, itoks_append, itoks, itoks_iE a ha, itoks_iE b hb, prE, kwI, kw]
  | .str v, hf => by
    simp only [FragE] at hf
    obtain ⟨hne, hpl⟩ := plainStr_spec v hf
    simp only [iE, itoks, prE, strToks, hne, if_false, nameOfConstant_plain v hne hpl]
  | .float _ _, hf => by simp [FragE] at hf
  | .sym n, _ => by simp [iE, itoks, prE]
  | .me, hf => by simp [FragE] at hf
  | .field a, hf => by
    simp only [FragE] at hf
    simp only [iE, kwI, itoks, itoks_iE a hf, prE, kw]
  | .call f as, hf => by
    simp only [FragE, Bool.and_eq_true] at hf
    simp [iE, itoks, itoks_append, itoks_iArgs as hf.2, prE]
  | .mcall o m as, hf => by
    simp only [FragE, Bool.and_eq_true] at hf
    obtain ⟨nm, _, hio, _, hpo⟩ := recv_iE o hf.1.1
    cases hemp : as.isEmpty <;>
      simp [iE, hio, hpo, hemp, itoks, itoks_append, itoks_iArgs as hf.2, prE, prTail_eq]
  | .list as, hf => by
    simp only [FragE] at hf
    simp [iE, itoks, itoks_append, itoks_iArgs as hf, prE]
  | .plist as, hf => by
    simp only [FragE, Bool.and_eq_true] at hf
    cases hemp : as.isEmpty with
    | true => simp [iE, hemp, itoks, prE]
    | false => simp [iE, hemp, itoks, itoks_append, itoks_iPairs as hf.1, prE]
  | .the t k as, hf => by
    cases as with
    | cons x xs =>
      cases xs with
      | cons y ys => cases t <;> simp [FragE] at hf
      | nil =>
        have hfx : FragE x = true := by simp only [FragE, Bool.and_eq_true] at hf; exact hf.2
        have ih := itoks_iE x hfx
        rcases mE_the1 t k x hf with ⟨cls, tb, w, ht, _, _, _⟩ | ⟨op, r, ty, ht, hst, hty, _⟩ | ⟨rfl, _, _⟩
        · cases t <;> simp [theTbl] at ht <;>
          · obtain ⟨_, rfl, rfl⟩ := ht
            simp [iE, theTbl, itoks, itoks_append, ih, prE, prThe, kwI, kw]
        rotate_left
        · rw [iE_fieldThe]
          simp [itoks, itoks_append, ih, prE, prThe, kwI, kw]
        · rw [iE_strThe t k x op r ty ht hst hty]
          obtain ⟨c, hc, rfl⟩ := chunkTy_spec r ty hty
          cases t <;> simp [strThe] at hst
          · obtain ⟨hk, rfl, rfl⟩ := hst
            simp [itoks, itoks_append, ih, prE, prThe, kwI, kw, hc]
          · obtain ⟨rfl, rfl⟩ := hst
            have hne : ¬ (S "number" = S "last") := by decide
            have hpl : (chunkPlural c).toList = c.tag.toList ++ ['s'] := by cases c <;> rfl
            simp [hne, itoks, itoks_append, ih, prE, prThe, kwI, kw, hc, hpl]
    | nil =>
      cases t with
      | sys => simp [iE, itoks, prE, prThe, kwI, kw]
      | special =>
        simp only [FragE, decide_eq_true_eq] at hf
        simp [iE, itoks, prE, prThe, kwI, kw, hf]
      | _ => simp [FragE] at hf
  | .key v, _ => by simp [iE, itoks, prE, kwI, kw]
  | .movie v, _ => by simp [iE, itoks, prE, kwI, kw]
  | .oprop v o, hf => by
    simp only [FragE, Bool.and_eq_true] at hf
    simp [iE, itoks, itoks_append, itoks_iE o hf.2, prE, kwI, kw]
  | .chunk k a b d, hf => by
    simp only [FragE, Bool.and_eq_true, Bool.not_eq_true'] at hf
    obtain ⟨⟨⟨hfa, _⟩, hfb⟩, hfd⟩ := hf
    have iha := itoks_iE a hfa
    have ihb := itoks_iE b hfb
    have ihd := itoks_iE d hfd
    rw [prE_chunk]
    cases hz : isZero b <;>
      simp only [iE, hz, Bool.false_eq_true, if_false, if_true, itoks_append, itoks, iha, ihb, ihd, kwI, kw, List.nil_append,
        List.cons_append, List.append_assoc]
theorem itoks_iArgs : ∀ (as : List Expr), FragL as = true → itoks (iArgs as) = prArgs as
  | [], _ => rfl
  | [e], hf => by
    simp only [FragL, Bool.and_eq_true] at hf
    simp only [iArgs, itoks_iE e hf.1, prArgs]
  | e :: e2 :: es, hf => by
    simp only [FragL, Bool.and_eq_true] at hf
    have ih := itoks_iArgs (e2 :: es) (by simp only [FragL, Bool.and_eq_true]; exact hf.2)
    simp only [iArgs, itoks_append, itoks, itoks_iE e hf.1, ih, prArgs]
theorem itoks_iPairs : ∀ (as : List Expr), FragL as = true → itoks (iPairs as) = prPairs as
  | [], _ => rfl
  | [k], hf => by
    simp only [FragL, Bool.and_eq_true] at hf
    simp only [iPairs, itoks_iE k hf.1, prPairs]
  | [k, v], hf => by
    simp only [FragL, Bool.and_eq_true] at hf
    simp only [iPairs, itoks_append, itoks, itoks_iE k hf.1, itoks_iE v hf.2.1, prPairs]
  | k :: v :: k2 :: rest, hf => by
    simp only [FragL, Bool.and_eq_true] at hf
    have ih := itoks_iPairs (k2 :: rest) (by simp only [FragL, Bool.and_eq_true]; exact hf.2.2)
    simp only [iPairs, itoks_append, itoks, itoks_iE k hf.1, itoks_iE v hf.2.1, ih, prPairs]
    simp [List.append_assoc]
end

theorem mE_ne_nil : ∀ (e : Expr), FragE e = true → mE e ≠ []
  | .int k, _ => by
    obtain ⟨c, r, h, _⟩ := natStr_head k
    simp [mE, h]
  | .var _ v, hf => by
    simp only [FragE] at hf
    cases v with
    | nil => simp [idOk] at hf
    | cons c cs => simp [mE]
  | .un .neg a, _ => by simp [mE, S]
  | .un .not a, _ => by simp [mE, S]
  | .bin o a b, _ => by cases h : o.isInfix <;> simp [mE, h, S]
  | .str v, _ => by simp [mE]
  | .float _ _, hf => by simp [FragE] at hf
  | .sym n, _ => by simp [mE]
  | .me, hf => by simp [FragE] at hf
  | .field _, _ => by simp [mE, S]
  | .call f as, _ => by simp [mE, S]
  | .mcall _ _ _, _ => by simp [mE, S]
  | .list _, _ => by simp [mE, S]
  | .plist as, _ => by cases h : as.isEmpty <;> simp [mE, h, S]
  | .the t k as, hf => by
    cases as with
    | cons x xs =>
      cases xs with
      | cons y ys => cases t <;> simp [FragE] at hf
      | nil => obtain ⟨r, hr⟩ := mE_the_head t k [x] hf; rw [hr]; simp [S]
    | nil => cases t <;> first | (simp [FragE] at hf; done) | simp [mE, S]
  | .key _, _ => by simp [mE, S]
  | .movie _, _ => by simp [mE, S]
  | .oprop _ _, _ => by simp [mE, S]
  | .chunk k _ _ _, _ => by cases k <;> simp [mE, ChunkKind.tag, S]


mutual
theorem chain_iE : ∀ (e : Expr), FragE e = true → ∀ (rest : List Char), SafeHd rest → Chain (iE e) rest = true
  | .int k, _, rest, h => by
    simp only [iE, Chain, render, List.flatMap_nil, List.nil_append, Bool.and_true]
    exact okNext_safeHd _ _ rfl h
  | .var _ v, hf, rest, h => by
    simp only [FragE] at hf
    simp only [iE, Chain, render, List.flatMap_nil, List.nil_append, Bool.and_true]
    exact okNext_safeHd _ _ (by simpa [ItemOk] using hf) h
  | .un .neg a, hf, rest, h => by
    simp only [FragE, Bool.and_eq_true, Bool.not_eq_true'] at hf
    simp only [iE, Chain, Bool.and_eq_true]
    refine ⟨?_, chain_iE a hf.1 rest h⟩
    rw [render_iE a hf.1]
    have hm := mE_not_minus a hf.1 hf.2
    cases hme : mE a with
    | nil => exact absurd hme (mE_ne_nil a hf.1)
    | cons c r =>
      rw [hme] at hm
      simp only [List.cons_append, okNext, bne_iff_ne, ne_eq]
      intro hc; subst hc
      simp [startsWith, S, List.isPrefixOf] at hm
  | .un .not a, hf, rest, h => by
    simp only [FragE] at hf
    simp only [iE, Chain, Bool.and_eq_true]
    refine ⟨?_, rfl, chain_iE a hf rest h⟩
    simp only [render_cons, Item.text, List.cons_append, List.nil_append]
    exact okNext_safe _ _ _ (by decide) safe_sp
  | .bin o a b, hf, rest, h => by
    simp only [FragE, Bool.and_eq_true, decide_eq_true_eq] at hf
    obtain ⟨⟨ho, ha⟩, hb⟩ := hf
    have hsp : ∀ x, SafeHd (' ' :: x) := fun x => safeHd_cons _ _ safe_sp
    cases hi : o.isInfix with
    | true =>
      have e : iE (.bin o a b) = [.tk (.p .lp)] ++ (iE a ++ ([.sp, .tk o.tok, .sp] ++ (iE b ++ [.tk (.p .rp)]))) := by
        simp [iE, hi]
      have h5 : Chain [.tk (.p .rp)] rest = true := by simp [Chain, okNext]
      have h4 : Chain (iE b) (render [.tk (.p .rp)] ++ rest) = true :=
        chain_iE b hb _ ⟨')', rest, by simp [render, Item.text, P.text], safe_rp⟩
      have h3 : Chain [.sp, .tk o.tok, .sp] (render (iE b ++ [.tk (.p .rp)]) ++ rest) = true := by
        simp only [Chain, okNext, Bool.and_eq_true, true_and, and_true]
        exact okNext_safe _ ' ' _ (optok_ok o) safe_sp
      have h2 : Chain (iE a) (render ([.sp, .tk o.tok, .sp] ++ (iE b ++ [.tk (.p .rp)])) ++ rest) = true :=
        chain_iE a ha _ ⟨' ', _, rfl, safe_sp⟩
      have h1 : Chain [.tk (.p .lp)] (render (iE a ++ ([.sp, .tk o.tok, .sp] ++ (iE b ++ [.tk (.p .rp)]))) ++ rest) = true := by
        simp [Chain, okNext]
      rw [e, chain_append, chain_append, chain_append, h1, h2, h3, chain_append, h4, h5]
      rfl
    | false =>
      have e : iE (.bin o a b) = [kwI "sprite", .sp] ++ (iE a ++ ([.sp, .tk o.tok, .sp] ++ iE b)) := by
        simp [iE, hi]
      have h4 : Chain (iE b) rest = true := chain_iE b hb _ h
      have h3 : Chain [.sp, .tk o.tok, .sp] (render (iE b) ++ rest) = true := by
        simp only [Chain, okNext, Bool.and_eq_true, true_and, and_true]
        exact okNext_safe _ ' ' _ (optok_ok o) safe_sp
      have h2 : Chain (iE a) (render ([.sp, .tk o.tok, .sp] ++ iE b) ++ rest) = true :=
        chain_iE a ha _ ⟨' ', _, rfl, safe_sp⟩
      have h1 : Chain [kwI "sprite", .sp] (render (iE a ++ ([.sp, .tk o.tok, .sp] ++ iE b)) ++ rest) = true := by
        simp only [Chain, Bool.and_eq_true, and_true]
        exact ⟨okNext_safe (kwI "sprite") ' ' _ (by decide) safe_sp, rfl⟩
      rw [e, chain_append, chain_append, chain_append, h1, h2, h3, h4]
      rfl
  | .str v, hf, rest, h => by
    simp only [FragE] at hf
    simp only [iE, Chain, render, List.flatMap_nil, List.nil_append, Bool.and_true]
    exact okNext_safeHd _ _ (by simpa [ItemOk] using plain_safeStr v (plainStr_spec v hf).2) h
  | .float _ _, hf, _, _ => by simp [FragE] at hf
  | .sym n, hf, rest, h => by
    simp only [FragE] at hf
    simp only [iE, Chain, render, List.flatMap_nil, List.nil_append, Bool.and_true, Bool.and_eq_true]
    exact ⟨rfl, okNext_safeHd _ _ (by simpa [ItemOk] using hf) h⟩
  | .me, hf, _, _ => by simp [FragE] at hf
  | .field a, hf, rest, h => by
    simp only [FragE] at hf
    simp only [iE, Chain, Bool.and_eq_true]
    refine ⟨?_, rfl, chain_iE a hf rest h⟩
    exact okNext_safe (kwI "field") ' ' _ (by decide) safe_sp
  | .call f as, hf, rest, h => by
    simp only [FragE, Bool.and_eq_true] at hf
    obtain ⟨⟨⟨⟨hid, _⟩, _⟩, _⟩, hfl⟩ := hf
    simp only [iE, Chain, Bool.and_eq_true]
    refine ⟨?_, rfl, ?_⟩
    · exact okNext_safe (.tk (.id f)) '(' _ (by simpa [ItemOk] using hid) safe_lp
    · have hv := chain_iArgs as hfl (render [.tk (.p .rp)] ++ rest) ⟨')', rest, rfl, safe_rp⟩
      rw [chain_append, hv]
      simp [Chain, okNext]
  | .mcall o m as, hf, rest, h => by
    simp only [FragE, Bool.and_eq_true] at hf
    obtain ⟨⟨hro, hm⟩, hfl⟩ := hf
    obtain ⟨nm, hid, hio, _, _⟩ := recv_iE o hro
    simp only [iE, hio, List.cons_append, List.nil_append]
    rw [chain_id_lp nm _ rest hid]
    have hmi : ItemOk (.tk (.id m)) = true := by simpa [ItemOk] using hm
    cases hemp : as.isEmpty with
    | true =>
      simp only [if_true, List.nil_append]
      rw [chain_id_rp m _ rest hm]
      rfl
    | false =>
      simp only [Bool.false_eq_true, if_false, List.cons_append]
      have hv := chain_iArgs as hfl (render [.tk (.p .rp)] ++ rest) ⟨')', rest, rfl, safe_rp⟩
      rw [chain_cons_comma_sp _ _ _ hmi, chain_append, hv]
      simp [Chain, okNext]
  | .list as, hf, rest, h => by
    simp only [FragE] at hf
    simp only [iE, Chain, Bool.and_eq_true]
    refine ⟨rfl, ?_⟩
    have hv := chain_iArgs as hf (render [.tk (.p .rb)] ++ rest) ⟨']', rest, rfl, safe_rb⟩
    rw [chain_append, hv]
    simp [Chain, okNext]
  | .plist as, hf, rest, h => by
    simp only [FragE, Bool.and_eq_true] at hf
    cases hemp : as.isEmpty with
    | true => simp [iE, hemp, Chain, okNext]
    | false =>
      simp only [iE, hemp, Bool.false_eq_true, if_false, Chain, Bool.and_eq_true]
      refine ⟨rfl, ?_⟩
      have hv := chain_iPairs as hf.1 (render [.tk (.p .rb)] ++ rest) ⟨']', rest, rfl, safe_rb⟩
      rw [chain_append, hv]
      simp [Chain, okNext]
  | .the t k as, hf, rest, h => by
    cases as with
    | cons x xs =>
      cases xs with
      | cons y ys => cases t <;> simp [FragE] at hf
      | nil =>
        have hfe : FragE x = true := by simp only [FragE, Bool.and_eq_true] at hf; exact hf.2
        have ih := chain_iE x hfe rest h
        rcases mE_the1 t k x hf with ⟨cls, tb, w, ht, htk, _, _⟩ | ⟨op, r, ty, ht, hst, hty, _⟩ | ⟨rfl, htk, _⟩
        · obtain ⟨h1, h2⟩ := obj_idOk t cls tb w ht k htk
          simp only [iE, ht, List.cons_append, List.nil_append]
          rw [chain_cons_sp _ _ _ (by decide), chain_cons_sp _ _ _ (by simpa [ItemOk] using h1), chain_cons_sp _ _ _ (by decide),
            chain_cons_sp _ _ _ h2, ih]
        rotate_left
        · have h1 := tbl_idOk tblCast (by decide +kernel) k htk
          rw [iE_fieldThe]
          simp only [List.cons_append, List.nil_append]
          rw [chain_cons_sp _ _ _ (by decide), chain_cons_sp _ _ _ (by simpa [ItemOk] using h1), chain_cons_sp _ _ _ (by decide),
            chain_cons_sp _ _ _ (by decide), ih]
        · rw [iE_strThe t k x op r ty ht hst hty]
          obtain ⟨c, hc, rfl⟩ := chunkTy_spec r ty hty
          have hi1 : ItemOk (.tk (.id c.tag.toList)) = true := by cases c <;> decide
          have hi2 : ItemOk (.tk (.id (c.tag.toList ++ ['s']))) = true := by cases c <;> decide
          by_cases hop : op = S "last"
          · rw [if_pos hop]
            simp only [List.cons_append, List.nil_append]
            rw [chain_cons_sp _ _ _ (by decide), chain_cons_sp _ _ _ (by decide), chain_cons_sp _ _ _ hi1, chain_cons_sp _ _ _ (by decide), ih]
          · rw [if_neg hop]
            simp only [List.cons_append, List.nil_append]
            rw [chain_cons_sp _ _ _ (by decide), chain_cons_sp _ _ _ (by decide), chain_cons_sp _ _ _ (by decide), chain_cons_sp _ _ _ hi2,
              chain_cons_sp _ _ _ (by decide), ih]
    | nil =>
      cases t with
      | sys => simp only [FragE] at hf; simp only [iE]; exact chain_the _ (sys_idOk k hf) rest h
      | special => simp only [FragE, decide_eq_true_eq] at hf; simp only [iE]; exact chain_the _ (special_idOk k hf) rest h
      | _ => simp [FragE] at hf
  | .key v, hf, rest, h => by simp only [FragE] at hf; simp only [iE]; exact chain_the _ hf rest h
  | .movie v, hf, rest, h => by simp only [FragE] at hf; simp only [iE]; exact chain_the _ hf rest h
  | .oprop v o, hf, rest, h => by
    simp only [FragE, Bool.and_eq_true] at hf
    have ih := chain_iE o hf.2 rest h
    simp only [iE, List.cons_append, List.nil_append]
    rw [chain_cons_sp _ _ _ (by decide), chain_cons_sp _ _ _ (by simpa [ItemOk] using hf.1.1), chain_cons_sp _ _ _ (by decide), ih]
  | .chunk k a b d, hf, rest, h => by
    simp only [FragE, Bool.and_eq_true, Bool.not_eq_true'] at hf
    obtain ⟨⟨⟨hfa, _⟩, hfb⟩, hfd⟩ := hf
    have hk : ItemOk (kwI k.tag) = true := by cases k <;> decide
    have hd := chain_iE d hfd rest h
    have htail : Chain ([.sp, kwI "of", .sp] ++ iE d) rest = true := by
      simp only [List.cons_append, List.nil_append, chain_sp]
      rw [chain_cons_sp _ _ _ (by decide), hd]
    have hsp : ∀ Y : List Item, SafeHd (render (.sp :: Y) ++ rest) := fun Y => ⟨' ', render Y ++ rest, rfl, safe_sp⟩
    cases hz : isZero b with
    | true =>
      simp only [iE, hz, if_true, List.nil_append, List.cons_append]
      rw [chain_cons_sp _ _ _ hk, chain_append, chain_iE a hfa _ (hsp _), Bool.true_and]
      exact htail
    | false =>
      simp only [iE, hz, Bool.false_eq_true, if_false, List.nil_append, List.cons_append, List.append_assoc]
      rw [chain_cons_sp _ _ _ hk, chain_append, chain_iE a hfa _ (hsp _), Bool.true_and, chain_sp, chain_cons_sp _ _ _ (by decide),
        chain_append, chain_iE b hfb _ (hsp _), Bool.true_and]
      exact htail
theorem chain_iArgs : ∀ (as : List Expr), FragL as = true → ∀ (rest : List Char), SafeHd rest → Chain (iArgs as) rest = true
  | [], _, _, _ => rfl
  | [e], hf, rest, h => by
    simp only [FragL, Bool.and_eq_true] at hf
    simp only [iArgs]
    exact chain_iE e hf.1 rest h
  | e :: e2 :: es, hf, rest, h => by
    simp only [FragL, Bool.and_eq_true] at hf
    have ih := chain_iArgs (e2 :: es) (by simp only [FragL, Bool.and_eq_true]; exact hf.2) rest h
    simp only [iArgs]
    rw [chain_append, chain_iE e hf.1 _ ⟨',', render (.sp :: iArgs (e2 :: es)) ++ rest, by simp [render, Item.text, P.text], safe_comma⟩]
    simp only [Chain, Bool.and_eq_true, Bool.true_and]
    exact ⟨okNext_safe (.tk (.p .comma)) ' ' _ (by decide) safe_sp, rfl, ih⟩
theorem chain_iPairs : ∀ (as : List Expr), FragL as = true → ∀ (rest : List Char), SafeHd rest → Chain (iPairs as) rest = true
  | [], _, _, _ => rfl
  | [k], hf, rest, h => by
    simp only [FragL, Bool.and_eq_true] at hf
    simp only [iPairs]
    exact chain_iE k hf.1 rest h
  | [k, v], hf, rest, h => by
    simp only [FragL, Bool.and_eq_true] at hf
    simp only [iPairs]
    rw [chain_append, chain_iE k hf.1 _ ⟨':', render (.sp :: iE v) ++ rest, by simp [render, Item.text, P.text], safe_colon⟩]
    simp only [Chain, Bool.and_eq_true, Bool.true_and]
    exact ⟨by simp [okNext], rfl, chain_iE v hf.2.1 rest h⟩
  | k :: v :: k2 :: rs, hf, rest, h => by
    simp only [FragL, Bool.and_eq_true] at hf
    have ih := chain_iPairs (k2 :: rs) (by simp only [FragL, Bool.and_eq_true]; exact hf.2.2) rest h
    simp only [iPairs]
    rw [chain_append, chain_iE k hf.1 _ ⟨':', render (.sp :: (iE v ++ (.tk (.p .comma) :: .sp :: iPairs (k2 :: rs)))) ++ rest,
      by simp [render, Item.text, P.text], safe_colon⟩]
    simp only [Chain, Bool.and_eq_true, Bool.true_and]
    refine ⟨by simp [okNext], rfl, ?_⟩
    rw [chain_append, chain_iE v hf.2.1 _ ⟨',', render (.sp :: iPairs (k2 :: rs)) ++ rest, by simp [render, Item.text, P.text], safe_comma⟩]
    simp only [Chain, Bool.and_eq_true, Bool.true_and]
    exact ⟨okNext_safe (.tk (.p .comma)) ' ' _ (by decide) safe_sp, rfl, ih⟩
end

/-! ### statements, handlers, scripts -/

theorem rep_add {α : Type} (a b : Nat) (x : α) : List.replicate (a + b) x = List.replicate a x ++ List.replicate b x := by
  induction a with
  | zero => simp
  | succ k ih => rw [Nat.succ_add, List.replicate_succ, List.replicate_succ, ih]; rfl

theorem indentOf_eq (n : Nat) : indentOf n = List.replicate (4 * n) ' ' := by
  induction n with
  | zero => rfl
  | succ k ih =>
    have e : 4 * (k + 1) = 4 + 4 * k := by omega
    rw [e, rep_add]
    simp only [indentOf, List.replicate_succ, List.flatten_cons] at ih ⊢
    rw [ih]; rfl

def iIndent (ind : Nat) : List Item := List.replicate (4 * ind) .sp

theorem render_replicate (k : Nat) : render (List.replicate k .sp) = List.replicate k ' ' := by
  induction k with
  | zero => rfl
  | succ n ih => simp only [List.replicate_succ, render_cons, ih, Item.text, List.singleton_append]

theorem render_indent (ind : Nat) : render (iIndent ind) = indentOf ind := by
  rw [indentOf_eq, iIndent, render_replicate]

theorem itoks_indent (ind : Nat) : itoks (iIndent ind) = [] := by
  unfold iIndent
  induction 4 * ind with
  | zero => rfl
  | succ n ih => simp [List.replicate_succ, itoks, ih]

theorem chain_indent (ind : Nat) (l : List Item) (rest : List Char) : Chain (iIndent ind ++ l) rest = Chain l rest := by
  unfold iIndent
  induction 4 * ind with
  | zero => rfl
  | succ n ih => simp [List.replicate_succ, chain_sp, ih]

/-! ### the condition of `repeat while`: outer parentheses of an infix operation stripped -/

def iCond : Expr → List Item
  | .bin op a b => if op.isInfix then iE a ++ ([.sp, .tk op.tok, .sp] ++ iE b) else iE (.bin op a b)
  | e => iE e

theorem stripParens_paren (x : Str) : Lscr.stripParens ('(' :: (x ++ [')'])) = x := by
  unfold Lscr.stripParens pySlice
  have h1 : ¬ ((1 : Int) < 0) := by omega
  have h2 : ((-1 : Int) < 0) := by omega
  have hn : ((('(' :: (x ++ [')'])).length : Nat) : Int) = (x.length : Int) + 2 := by simp; omega
  simp only [h1, h2, if_false, if_true, hn]
  have ea : (min (1 : Int) ((x.length : Int) + 2)).toNat = 1 := by omega
  have eb : (max (-1 + ((x.length : Int) + 2)) 0).toNat = x.length + 1 := by omega
  rw [ea, eb]
  simp

theorem mE_not_lp' (e : Expr) (hf : FragE e = true) (hn : notInfix e = true) : startsWith (mE e) (S "(") = false := by
  have hid : ∀ v : Spec.Name, idOk v = true → ∀ r, startsWith (v ++ r) (S "(") = false := by
    intro v hv r
    cases v with
    | nil => simp [idOk] at hv
    | cons c cs =>
      simp only [idOk, Bool.and_eq_true] at hv
      have : c ≠ '(' := by
        intro e; subst e
        have : isIdStart '(' = false := by decide
        rw [this] at hv; simp at hv
      simp only [startsWith, S]
      simp [List.isPrefixOf]
      exact fun e => this e.symm
  cases e with
  | int k =>
    obtain ⟨c, rest, h, hd, _, _⟩ := natStr_head k
    have : c ≠ '(' := by
      intro e; subst e
      have : isAsciiDigit '(' = false := by decide
      rw [this] at hd; cases hd
    simp only [mE, h, startsWith, S]
    simp [List.isPrefixOf]
    exact fun e => this e.symm
  | var k v =>
    simp only [FragE] at hf
    simpa [mE] using hid v hf []
  | un o a => cases o <;> simp [mE, startsWith, S, List.isPrefixOf]
  | bin o a b =>
    simp only [notInfix, Bool.not_eq_true'] at hn
    simp [mE, hn, startsWith, S, List.isPrefixOf]
  | field a => simp [mE, startsWith, S, List.isPrefixOf]
  | call f as =>
    simp only [FragE, Bool.and_eq_true] at hf
    simpa [mE] using hid f hf.1.1.1.1 _
  | list as => simp [mE, startsWith, S, List.isPrefixOf]
  | plist as => cases h : as.isEmpty <;> simp [mE, h, startsWith, S, List.isPrefixOf]
  | str v => simp [mE, startsWith, S, List.isPrefixOf]
  | sym v => simp [mE, startsWith, S, List.isPrefixOf]
  | key v => simp [mE, startsWith, S, List.isPrefixOf]
  | movie v => simp [mE, startsWith, S, List.isPrefixOf]
  | oprop v o => simp [mE, startsWith, S, List.isPrefixOf]
  | chunk k a b d => cases k <;> simp [mE, ChunkKind.tag, startsWith, S, List.isPrefixOf]
  | mcall o m as =>
    simp only [FragE, Bool.and_eq_true] at hf
    obtain ⟨nm, hidn, _, hmo, _⟩ := recv_iE o hf.1.1
    simpa [mE, hmo, List.append_assoc] using hid nm hidn _
  | the t k as =>
    obtain ⟨r, hr⟩ := mE_the_head t k as hf
    rw [hr]
    simp [startsWith, S, List.isPrefixOf]
  | _ => simp [FragE] at hf

theorem optok_text' (o : BinOp) (h : o ≠ .starts) : Item.text (.tk o.tok) = opTxt o := by
  cases o <;> first | rfl | exact absurd rfl h

theorem render_iCond (c : Expr) (hf : FragE c = true) : render (iCond c) = mCond c := by
  have hstd : iCond c = iE c → notInfix c = true → render (iCond c) = mCond c := by
    intro e hn
    rw [e, render_iE c hf]
    unfold mCond
    rw [mE_not_lp' c hf hn]
    rfl
  cases c with
  | bin op a b =>
    by_cases hop : op.isInfix = true
    · simp only [FragE, Bool.and_eq_true, decide_eq_true_eq] at hf
      obtain ⟨⟨ho, ha⟩, hb⟩ := hf
      have hm : mE (.bin op a b) = '(' :: ((mE a ++ S " " ++ opTxt op ++ S " " ++ mE b) ++ [')']) := by
        simp [mE, hop, S, List.append_assoc]
      have hst : startsWith (mE (.bin op a b)) (S "(") = true := by rw [hm]; simp [startsWith, S, List.isPrefixOf]
      unfold mCond
      rw [hst, if_pos rfl, hm, stripParens_paren]
      simp only [iCond, hop, if_true, render_append, render_cons, render_iE a ha, render_iE b hb, optok_text' op ho]
      simp [render, Item.text, S, List.append_assoc]
    · exact hstd (by simp [iCond, hop]) (by simp [notInfix, hop])
  | _ => exact hstd rfl rfl

theorem itoks_iCond (c : Expr) (hf : FragE c = true) : itoks (iCond c) = wCond c := by
  cases c with
  | bin op a b =>
    by_cases hop : op.isInfix = true
    · simp only [FragE, Bool.and_eq_true, decide_eq_true_eq] at hf
      simp [iCond, wCond, hop, itoks_append, itoks, itoks_iE a hf.1.2, itoks_iE b hf.2]
    · have := itoks_iE (.bin op a b) hf
      simpa [iCond, wCond, hop] using this
  | _ => simpa [iCond, wCond] using itoks_iE _ hf

/-- the items of a command call, in the three printed forms (`mCall`) -/
def iCall (f : Spec.Name) (as : List Expr) : List Item :=
  if f = "sound".toList then
    (match as with
     | .sym m :: rest => .tk (.id f) :: .sp :: .tk (.id m) :: .sp :: iArgs rest
     | _ => .tk (.id f) :: (if as.isEmpty then [] else .sp :: iArgs as))
  else if f = "go".toList then
    (match as with
     | [.sym w] => if goWordX w then [.tk (.id f), .sp, .tk (.id w)] else .tk (.id f) :: (if as.isEmpty then [] else .sp :: iArgs as)
     | _ => .tk (.id f) :: (if as.isEmpty then [] else .sp :: iArgs as))
  else .tk (.id f) :: (if as.isEmpty then [] else .sp :: iArgs as)

theorem iCall_plain (f : Spec.Name) (as : List Expr) (h : plainCallName f = true) :
    iCall f as = .tk (.id f) :: (if as.isEmpty then [] else .sp :: iArgs as) := by
  simp only [plainCallName, Bool.and_eq_true, bne_iff_ne, ne_eq] at h
  simp only [iCall, h.1, h.2, if_false]

theorem goWordX_spec (w : Spec.Name) (h : goWordX w = true) : goWord w = true := by
  simp only [goWordX, Bool.or_eq_true, beq_iff_eq] at h
  rcases h with (rfl | rfl) | rfl <;> decide

mutual
def iS : Nat → Stmt → List Item
  | ind, .set lv v => iIndent ind ++ ([kwI "set", .sp] ++ (iE lv ++ ([.sp, .tk (.p .eq), .sp] ++ (iE v ++ [.tk .nl]))))
  | ind, .call f as => iIndent ind ++ (iCall f as ++ [.tk .nl])
  | ind, .exit => iIndent ind ++ [kwI "exit", .tk .nl]
  | ind, .put m v lv => iIndent ind ++ ([kwI "put", .sp] ++ (iE v ++ ([.sp, kwI m.tag, .sp] ++ (iE lv ++ [.tk .nl]))))
  | ind, .delete t => iIndent ind ++ ([kwI "delete", .sp] ++ (iE t ++ [.tk .nl]))
  | ind, .hilite t => iIndent ind ++ ([kwI "hilite", .sp] ++ (iE t ++ [.tk .nl]))
  | ind, .mcall o m as => iIndent ind ++ (iE o ++ (.sp :: .tk (.id m) :: ((if as.isEmpty then [] else .tk (.p .comma) :: .sp :: iArgs as) ++ [.tk .nl])))
  | ind, .ifThen c t e =>
    iIndent ind ++ ([kwI "if", .sp] ++ (iE c ++ ([.sp, kwI "then", .tk .nl] ++ (iSs (ind + 1) t ++
      ((if e.isEmpty then [] else iIndent ind ++ ([kwI "else", .tk .nl] ++ iSs (ind + 1) e)) ++
        (iIndent ind ++ [kwI "end", .sp, kwI "if", .tk .nl]))))))
  | ind, .repeatWhile c b =>
    iIndent ind ++ ([kwI "repeat", .sp, kwI "while", .sp] ++ (iCond c ++ ([.tk .nl] ++ (iSs (ind + 1) b ++
      (iIndent ind ++ [kwI "end", .sp, kwI "repeat", .tk .nl])))))
  | ind, .repeatWith v a b down body =>
    iIndent ind ++ ([kwI "repeat", .sp, kwI "with", .sp] ++ (iE v ++ ([.sp, .tk (.p .eq), .sp] ++ (iE a ++ ([.sp] ++
      ((if down then [kwI "down", .sp, kwI "to"] else [kwI "to"]) ++ ([.sp] ++ (iE b ++ ([.tk .nl] ++ (iSs (ind + 1) body ++
        (iIndent ind ++ [kwI "end", .sp, kwI "repeat", .tk .nl])))))))))))
  | ind, .repeatIn v l body =>
    iIndent ind ++ ([kwI "repeat", .sp, kwI "with", .sp] ++ (iE v ++ ([.sp, kwI "in", .sp] ++ (iE l ++ ([.tk .nl] ++ (iSs (ind + 1) body ++
      (iIndent ind ++ [kwI "end", .sp, kwI "repeat", .tk .nl])))))))
  | _, _ => []
def iSs : Nat → List Stmt → List Item
  | _, [] => []
  | ind, s :: ss => iS ind s ++ iSs ind ss
end

theorem fragLv_fragE (lv : Expr) (h : FragLv lv = true) : FragE lv = true := by
  cases lv <;> simp_all [FragLv, FragE]

theorem render_iS (ind : Nat) (s : Stmt) (hf : FragS s = true) : render (iS ind s) = mS ind s := by
  cases s with
  | set lv v =>
    simp only [FragS, Bool.and_eq_true] at hf
    simp only [iS, render_append, render_indent, render_iE lv (fragLv_fragE lv hf.1), render_iE v hf.2, mS]
    simp [render, Item.text, kwI, S, P.text]
  | call f as =>
    simp only [FragS, Bool.or_eq_true] at hf
    rcases hf with (hf | hf) | hf
    · simp only [callPlain, Bool.and_eq_true] at hf
      cases hemp : as.isEmpty <;>
        simp [iS, iCall_plain f as hf.1.1.2, mCall_plain f as hf.1.1.2, hemp, render_append, render_cons, render_indent,
          render_iArgs as hf.2, mS, Item.text, S, render_nil]
    · simp only [callSound, Bool.and_eq_true, beq_iff_eq] at hf
      obtain ⟨rfl, hf⟩ := hf
      split at hf
      · rename_i m rest
        simp only [Bool.and_eq_true] at hf
        simp [iS, iCall, mS, mCall, render_append, render_cons, render_indent, render_iArgs rest hf.2, Item.text, S, render_nil]
      · cases hf
    · simp only [callGo, Bool.and_eq_true, beq_iff_eq] at hf
      obtain ⟨rfl, hf⟩ := hf
      split at hf
      · rename_i w
        simp [iS, iCall, mS, mCall, hf, render_append, render_cons, render_indent, Item.text, S, render_nil]
      · cases hf
  | exit => simp [iS, render_append, render_cons, render_indent, mS, Item.text, kwI, S, render_nil]
  | put m v lv =>
    simp only [FragS, Bool.and_eq_true] at hf
    simp only [iS, render_append, render_indent, render_iE lv (fragTg_fragE lv 0 hf.1.2), render_iE v hf.1.1, mS]
    simp [render, Item.text, kwI, S]
  | delete t =>
    simp only [FragS, Bool.and_eq_true] at hf
    simp only [iS, render_append, render_indent, render_iE t (fragTg_fragE t 0 hf.2), mS]
    simp [render, Item.text, kwI, S]
  | hilite t =>
    simp only [FragS] at hf
    simp only [iS, render_append, render_indent, render_iE t (fragTg_fragE t 0 hf), mS]
    simp [render, Item.text, kwI, S]
  | mcall o m as =>
    simp only [FragS, Bool.and_eq_true] at hf
    obtain ⟨nm, _, hio, hmo, _⟩ := recv_iE o hf.1.1
    have hr := render_iArgs as hf.2
    have hi := render_indent ind
    unfold render at hr hi
    cases hemp : as.isEmpty <;>
      simp [iS, mS, hio, hmo, hemp, render_cons, render_append, hi, hr, render, Item.text, S, P.text]
  | _ => simp [FragS] at hf

theorem plainCall_pr (f : Spec.Name) (as : List Expr) (h : plainCallName f = true) : prCallStmt f as = .id f :: prArgs as := by
  simp only [plainCallName, Bool.and_eq_true, bne_iff_ne, ne_eq] at h
  have h1 : ¬ f = ['s', 'o', 'u', 'n', 'd'] := h.1
  have h2 : ¬ f = ['g', 'o'] := h.2
  simp [prCallStmt, h1, h2]

theorem itoks_iS (ind : Nat) (s : Stmt) (hf : FragS s = true) : itoks (iS ind s) = prS s := by
  cases s with
  | set lv v =>
    simp only [FragS, Bool.and_eq_true] at hf
    simp [iS, itoks_append, itoks_indent, itoks_iE lv (fragLv_fragE lv hf.1), itoks_iE v hf.2, prS, itoks, kwI, kw]
  | call f as =>
    simp only [FragS, Bool.or_eq_true] at hf
    rcases hf with (hf | hf) | hf
    · simp only [callPlain, Bool.and_eq_true] at hf
      cases hemp : as.isEmpty with
      | true =>
        have : as = [] := List.isEmpty_iff.mp hemp
        subst this
        simp [iS, iCall_plain f [] hf.1.1.2, itoks_append, itoks_indent, itoks, prS, plainCall_pr f [] hf.1.1.2, prArgs]
      | false =>
        simp [iS, iCall_plain f as hf.1.1.2, hemp, itoks_append, itoks_indent, itoks, itoks_iArgs as hf.2, prS, plainCall_pr f as hf.1.1.2]
    · simp only [callSound, Bool.and_eq_true, beq_iff_eq] at hf
      obtain ⟨rfl, hf⟩ := hf
      split at hf
      · rename_i m rest
        simp only [Bool.and_eq_true] at hf
        simp [iS, iCall, itoks_append, itoks_indent, itoks, itoks_iArgs rest hf.2, prS, prCallStmt]
      · cases hf
    · simp only [callGo, Bool.and_eq_true, beq_iff_eq] at hf
      obtain ⟨rfl, hf⟩ := hf
      split at hf
      · rename_i w
        have hsound : ¬ ("go".toList = "sound".toList) := by decide
        simp [iS, iCall, hf, itoks_append, itoks_indent, itoks, prS, prCallStmt, hsound, goWordX_spec w hf]
      · cases hf
  | exit => simp [iS, itoks_append, itoks_indent, itoks, prS, kwI, kw]
  | put m v lv =>
    simp only [FragS, Bool.and_eq_true] at hf
    simp [iS, itoks_append, itoks_indent, itoks_iE lv (fragTg_fragE lv 0 hf.1.2), itoks_iE v hf.1.1, prS, itoks, kwI, kw]
  | delete t =>
    simp only [FragS, Bool.and_eq_true] at hf
    simp [iS, itoks_append, itoks_indent, itoks_iE t (fragTg_fragE t 0 hf.2), prS, itoks, kwI, kw]
  | hilite t =>
    simp only [FragS] at hf
    simp [iS, itoks_append, itoks_indent, itoks_iE t (fragTg_fragE t 0 hf), prS, itoks, kwI, kw]
  | mcall o m as =>
    simp only [FragS, Bool.and_eq_true] at hf
    obtain ⟨nm, _, hio, _, hpo⟩ := recv_iE o hf.1.1
    cases hemp : as.isEmpty <;>
      simp [iS, hio, hpo, hemp, itoks, itoks_append, itoks_indent, itoks_iArgs as hf.2, prS, prTail_eq]
  | _ => simp [FragS] at hf

/-- an expression followed by an item list whose text starts with a blank / newline -/
theorem chain_iE_then (e : Expr) (hf : FragE e = true) (c : Char) (hc : safeCh c = true) (X : List Item) (rest : List Char)
    (hX : ∃ r, render X = c :: r) : Chain (iE e ++ X) rest = Chain X rest := by
  obtain ⟨r, hr⟩ := hX
  rw [chain_append, chain_iE e hf (render X ++ rest) ⟨c, r ++ rest, by rw [hr]; rfl, hc⟩, Bool.true_and]

theorem render_sp_head (Y : List Item) : ∃ r, render (.sp :: Y) = ' ' :: r := ⟨render Y, rfl⟩
theorem render_nl_head (Y : List Item) : ∃ r, render (.tk .nl :: Y) = '\n' :: r := ⟨render Y, rfl⟩

theorem chain_iCond_then (c : Expr) (hf : FragE c = true) (X : List Item) (rest : List Char)
    (hX : ∃ r, render X = '\n' :: r) : Chain (iCond c ++ X) rest = Chain X rest := by
  have hstd : iCond c = iE c → Chain (iCond c ++ X) rest = Chain X rest := by
    intro e; rw [e]; exact chain_iE_then c hf '\n' safe_nl X rest hX
  cases c with
  | bin op a b =>
    by_cases hop : op.isInfix = true
    · simp only [FragE, Bool.and_eq_true, decide_eq_true_eq] at hf
      obtain ⟨⟨ho, ha⟩, hb⟩ := hf
      simp only [iCond, hop, if_true, List.append_assoc, List.cons_append, List.nil_append]
      rw [chain_iE_then a ha ' ' safe_sp _ _ (render_sp_head _), chain_sp, chain_cons_sp _ _ _ (optok_ok op),
        chain_iE_then b hb '\n' safe_nl X rest hX]
    · exact hstd (by simp [iCond, hop])
  | _ => exact hstd rfl

theorem chain_iS (ind : Nat) (s : Stmt) (hf : FragS s = true) (l : List Item) (rest : List Char) :
    Chain (iS ind s ++ l) rest = Chain l rest := by
  cases s with
  | set lv v =>
    simp only [FragS, Bool.and_eq_true] at hf
    simp only [iS, List.append_assoc, List.cons_append, List.nil_append, chain_indent]
    have hv := chain_iE v hf.2 (render (.tk .nl :: l) ++ rest) ⟨'\n', _, rfl, safe_nl⟩
    rw [chain_cons_sp _ _ _ (by decide), chain_iE_then lv (fragLv_fragE lv hf.1) ' ' safe_sp _ _ (render_sp_head _), chain_sp,
      chain_cons_sp _ _ _ (by decide), chain_append, hv, Bool.true_and, chain_nl]
  | call f as =>
    simp only [FragS, Bool.or_eq_true] at hf
    rcases hf with (hf | hf) | hf
    rotate_left
    · simp only [callSound, Bool.and_eq_true, beq_iff_eq] at hf
      obtain ⟨rfl, hf⟩ := hf
      split at hf
      · rename_i m more
        simp only [Bool.and_eq_true] at hf
        have hmi : ItemOk (.tk (.id m)) = true := by simpa [ItemOk] using hf.1
        simp only [iS, iCall, if_true, List.append_assoc, List.cons_append, List.nil_append, chain_indent]
        have hv := chain_iArgs more hf.2 (render (.tk .nl :: l) ++ rest) ⟨'\n', _, rfl, safe_nl⟩
        rw [chain_cons_sp _ _ _ (by decide), chain_cons_sp _ _ _ hmi, chain_append, hv, Bool.true_and, chain_nl]
      · cases hf
    · simp only [callGo, Bool.and_eq_true, beq_iff_eq] at hf
      obtain ⟨rfl, hf⟩ := hf
      split at hf
      · rename_i w
        have hwi : ItemOk (.tk (.id w)) = true := by simpa [ItemOk] using goWordX_idOk w hf
        have hsound : ¬ ("go".toList = "sound".toList) := by decide
        simp only [iS, iCall, hsound, if_false, if_true, hf, List.append_assoc, List.cons_append, List.nil_append, chain_indent]
        rw [chain_cons_sp _ _ _ (by decide)]
        exact chain_cons_nl _ _ _ hwi
      · cases hf
    simp only [callPlain, Bool.and_eq_true] at hf
    obtain ⟨⟨⟨hid, hpc⟩, _⟩, hfl⟩ := hf
    simp only [iS, iCall_plain f as hpc, List.append_assoc, List.cons_append, chain_indent]
    cases hemp : as.isEmpty with
    | true =>
      simp only [if_true, List.nil_append, List.cons_append]
      exact chain_cons_nl _ _ _ (by simpa [ItemOk] using hid)
    | false =>
      simp only [Bool.false_eq_true, if_false, List.cons_append, List.nil_append]
      have hv := chain_iArgs as hfl (render (.tk .nl :: l) ++ rest) ⟨'\n', _, rfl, safe_nl⟩
      rw [chain_cons_sp _ _ _ (by simpa [ItemOk] using hid), chain_append, hv, Bool.true_and, chain_nl]
  | exit =>
    simp only [iS, List.append_assoc, List.cons_append, List.nil_append, chain_indent]
    exact chain_cons_nl _ _ _ (by decide)
  | put m v lv =>
    simp only [FragS, Bool.and_eq_true] at hf
    simp only [iS, List.append_assoc, List.cons_append, List.nil_append, chain_indent]
    have hv := chain_iE lv (fragTg_fragE lv 0 hf.1.2) (render (.tk .nl :: l) ++ rest) ⟨'\n', _, rfl, safe_nl⟩
    have hm : ItemOk (kwI m.tag) = true := by cases m <;> decide
    rw [chain_cons_sp _ _ _ (by decide), chain_iE_then v hf.1.1 ' ' safe_sp _ _ (render_sp_head _), chain_sp,
      chain_cons_sp _ _ _ hm, chain_append, hv, Bool.true_and, chain_nl]
  | delete t =>
    simp only [FragS, Bool.and_eq_true] at hf
    simp only [iS, List.append_assoc, List.cons_append, List.nil_append, chain_indent]
    have hv := chain_iE t (fragTg_fragE t 0 hf.2) (render (.tk .nl :: l) ++ rest) ⟨'\n', _, rfl, safe_nl⟩
    rw [chain_cons_sp _ _ _ (by decide), chain_append, hv, Bool.true_and, chain_nl]
  | hilite t =>
    simp only [FragS] at hf
    simp only [iS, List.append_assoc, List.cons_append, List.nil_append, chain_indent]
    have hv := chain_iE t (fragTg_fragE t 0 hf) (render (.tk .nl :: l) ++ rest) ⟨'\n', _, rfl, safe_nl⟩
    rw [chain_cons_sp _ _ _ (by decide), chain_append, hv, Bool.true_and, chain_nl]
  | mcall o m as =>
    simp only [FragS, Bool.and_eq_true] at hf
    obtain ⟨⟨hro, hm⟩, hfl⟩ := hf
    obtain ⟨nm, hid, hio, _, _⟩ := recv_iE o hro
    have hmi : ItemOk (.tk (.id m)) = true := by simpa [ItemOk] using hm
    simp only [iS, hio, List.append_assoc, List.cons_append, List.nil_append, chain_indent]
    rw [chain_cons_sp _ _ _ (by simpa [ItemOk] using hid)]
    cases hemp : as.isEmpty with
    | true =>
      simp only [if_true, List.nil_append]
      exact chain_cons_nl _ _ _ hmi
    | false =>
      simp only [Bool.false_eq_true, if_false, List.cons_append]
      have hv := chain_iArgs as hfl (render (.tk .nl :: l) ++ rest) ⟨'\n', _, rfl, safe_nl⟩
      rw [chain_cons_comma_sp _ _ _ hmi, chain_append, hv, Bool.true_and, chain_nl]
  | _ => simp [FragS] at hf

theorem render_iSs (ind : Nat) : ∀ (ss : List Stmt), FragSs ss = true → render (iSs ind ss) = mSs ind ss
  | [], _ => rfl
  | s :: ss, hf => by
    simp only [FragSs, Bool.and_eq_true] at hf
    simp only [iSs, render_append, render_iS ind s hf.1, render_iSs ind ss hf.2, mSs]

theorem itoks_iSs (ind : Nat) : ∀ (ss : List Stmt), FragSs ss = true → itoks (iSs ind ss) = prSs ss
  | [], _ => rfl
  | s :: ss, hf => by
    simp only [FragSs, Bool.and_eq_true] at hf
    simp only [iSs, itoks_append, itoks_iS ind s hf.1, itoks_iSs ind ss hf.2, prSs]

theorem chain_iSs (ind : Nat) : ∀ (ss : List Stmt), FragSs ss = true → ∀ (l : List Item) (rest : List Char),
    Chain (iSs ind ss ++ l) rest = Chain l rest
  | [], _, l, rest => rfl
  | s :: ss, hf, l, rest => by
    simp only [FragSs, Bool.and_eq_true] at hf
    simp only [iSs, List.append_assoc]
    rw [chain_iS ind s hf.1, chain_iSs ind ss hf.2]

/-! ### structured statements (`FragX`) -/

/-- the printed form of an expression of the fragment starts with '(' only for an infix operation -/
theorem mE_not_lp (e : Expr) (hf : FragE e = true) (hn : notInfix e = true) : startsWith (mE e) (S "(") = false := by
  have hid : ∀ v : Spec.Name, idOk v = true → ∀ r, startsWith (v ++ r) (S "(") = false := by
    intro v hv r
    cases v with
    | nil => simp [idOk] at hv
    | cons c cs =>
      simp only [idOk, Bool.and_eq_true] at hv
      have : c ≠ '(' := by
        intro e; subst e
        have : isIdStart '(' = false := by decide
        rw [this] at hv; simp at hv
      simp only [startsWith, S]
      simp [List.isPrefixOf]
      exact fun e => this e.symm
  cases e with
  | int k =>
    obtain ⟨c, rest, h, hd, _, _⟩ := natStr_head k
    have : c ≠ '(' := by
      intro e; subst e
      have : isAsciiDigit '(' = false := by decide
      rw [this] at hd; cases hd
    simp only [mE, h, startsWith, S]
    simp [List.isPrefixOf]
    exact fun e => this e.symm
  | var k v =>
    simp only [FragE] at hf
    simpa [mE] using hid v hf []
  | un o a => cases o <;> simp [mE, startsWith, S, List.isPrefixOf]
  | bin o a b =>
    simp only [notInfix, Bool.not_eq_true'] at hn
    simp [mE, hn, startsWith, S, List.isPrefixOf]
  | field a => simp [mE, startsWith, S, List.isPrefixOf]
  | call f as =>
    simp only [FragE, Bool.and_eq_true] at hf
    simpa [mE] using hid f hf.1.1.1.1 _
  | list as => simp [mE, startsWith, S, List.isPrefixOf]
  | plist as => cases h : as.isEmpty <;> simp [mE, h, startsWith, S, List.isPrefixOf]
  | str v => simp [mE, startsWith, S, List.isPrefixOf]
  | sym v => simp [mE, startsWith, S, List.isPrefixOf]
  | key v => simp [mE, startsWith, S, List.isPrefixOf]
  | movie v => simp [mE, startsWith, S, List.isPrefixOf]
  | oprop v o => simp [mE, startsWith, S, List.isPrefixOf]
  | chunk k a b d => cases k <;> simp [mE, ChunkKind.tag, startsWith, S, List.isPrefixOf]
  | mcall o m as =>
    simp only [FragE, Bool.and_eq_true] at hf
    obtain ⟨nm, hidn, _, hmo, _⟩ := recv_iE o hf.1.1
    simpa [mE, hmo, List.append_assoc] using hid nm hidn _
  | the t k as =>
    cases as with
    | cons x xs =>
      cases xs with
      | cons y ys => cases t <;> simp [FragE] at hf
      | nil => obtain ⟨r, hr⟩ := mE_the_head t k [x] hf; rw [hr]; simp [startsWith, S, List.isPrefixOf]
    | nil => cases t <;> first | (simp [FragE] at hf; done) | simp [mE, startsWith, S, List.isPrefixOf]
  | _ => simp [FragE] at hf

theorem mCond_eq (c : Expr) (hf : FragE c = true) (hn : notInfix c = true) : mCond c = mE c := by
  unfold mCond
  rw [mE_not_lp c hf hn]
  rfl

mutual
theorem render_iX : ∀ (s : Stmt), FragX s = true → ∀ (ind : Nat), render (iS ind s) = mS ind s
  | .set lv v, hf, ind => render_iS ind _ (by simpa only [FragX] using hf)
  | .call f as, hf, ind => render_iS ind _ (by simpa only [FragX] using hf)
  | .exit, _, ind => render_iS ind _ rfl
  | .ifThen c t e, hf, ind => by
    simp only [FragX, Bool.and_eq_true] at hf
    obtain ⟨⟨hc, ht⟩, he⟩ := hf
    cases hee : e.isEmpty <;>
      simp [iS, mS, hee, render_append, render_cons, render_indent, render_iE c hc, render_iXs t ht (ind + 1), render_iXs e he (ind + 1),
        Item.text, kwI, S, render_nil]
  | .repeatWhile c b, hf, ind => by
    simp only [FragX, Bool.and_eq_true] at hf
    obtain ⟨hc, hb⟩ := hf
    simp [iS, mS, render_append, render_cons, render_indent, render_iCond c hc, render_iXs b hb (ind + 1),
      Item.text, kwI, S, render_nil]
  | .repeatWith v a b down body, hf, ind => by
    cases v with
    | var k v =>
      cases k with
      | loc =>
        simp only [FragX, Bool.and_eq_true] at hf
        obtain ⟨⟨⟨hv, ha⟩, hb⟩, hbody⟩ := hf
        cases down <;>
          simp [iS, iE, mS, mE, render_append, render_cons, render_indent, render_iE a ha, render_iE b hb, render_iXs body hbody (ind + 1),
            Item.text, kwI, S, render_nil, P.text]
      | _ => simp [FragX] at hf
    | _ => simp [FragX] at hf
  | .put m v lv, hf, ind => render_iS ind _ (by simpa only [FragX] using hf)
  | .delete t, hf, ind => render_iS ind _ (by simpa only [FragX] using hf)
  | .hilite t, hf, ind => render_iS ind _ (by simpa only [FragX] using hf)
  | .mcall o m as, hf, ind => render_iS ind _ (by simpa only [FragX] using hf)
  | .tell .., hf, _ => by simp [FragX] at hf
  | .repeatIn v l body, hf, ind => by
    cases v with
    | var k v =>
      cases k with
      | loc =>
        simp only [FragX, Bool.and_eq_true] at hf
        obtain ⟨⟨hv, hl⟩, hbody⟩ := hf
        simp [iS, iE, mS, mE, render_append, render_cons, render_indent, render_iE l hl, render_iXs body hbody (ind + 1),
          Item.text, kwI, S, render_nil]
      | _ => simp [FragX] at hf
    | _ => simp [FragX] at hf
  | .exitRepeat, hf, _ => by simp [FragX] at hf
theorem render_iXs : ∀ (ss : List Stmt), FragXs ss = true → ∀ (ind : Nat), render (iSs ind ss) = mSs ind ss
  | [], _, _ => rfl
  | s :: ss, hf, ind => by
    simp only [FragXs, Bool.and_eq_true] at hf
    simp only [iSs, render_append, render_iX s hf.1 ind, render_iXs ss hf.2 ind, mSs]
end

mutual
theorem itoks_iX : ∀ (s : Stmt), FragX s = true → ∀ (ind : Nat), itoks (iS ind s) = prSW s
  | .set lv v, hf, ind => by rw [itoks_iS ind _ (by simpa only [FragX] using hf)]; simp [prS, prSW]
  | .call f as, hf, ind => by rw [itoks_iS ind _ (by simpa only [FragX] using hf)]; simp [prS, prSW]
  | .exit, _, ind => by rw [itoks_iS ind _ rfl]; simp [prS, prSW]
  | .ifThen c t e, hf, ind => by
    simp only [FragX, Bool.and_eq_true] at hf
    obtain ⟨⟨hc, ht⟩, he⟩ := hf
    cases hee : e.isEmpty <;>
      simp [iS, prSW, hee, itoks_append, itoks_indent, itoks, itoks_iE c hc, itoks_iXs t ht (ind + 1), itoks_iXs e he (ind + 1), kwI, kw]
  | .repeatWhile c b, hf, ind => by
    simp only [FragX, Bool.and_eq_true] at hf
    obtain ⟨hc, hb⟩ := hf
    simp [iS, prSW, itoks_append, itoks_indent, itoks, itoks_iCond c hc, itoks_iXs b hb (ind + 1), kwI, kw]
  | .repeatWith v a b down body, hf, ind => by
    cases v with
    | var k v =>
      cases k with
      | loc =>
        simp only [FragX, Bool.and_eq_true] at hf
        obtain ⟨⟨⟨hv, ha⟩, hb⟩, hbody⟩ := hf
        cases down <;>
          simp [iS, iE, prSW, prE, itoks_append, itoks_indent, itoks, itoks_iE a ha, itoks_iE b hb, itoks_iXs body hbody (ind + 1), kwI, kw]
      | _ => simp [FragX] at hf
    | _ => simp [FragX] at hf
  | .put m v lv, hf, ind => by rw [itoks_iS ind _ (by simpa only [FragX] using hf)]; simp [prS, prSW]
  | .delete t, hf, ind => by rw [itoks_iS ind _ (by simpa only [FragX] using hf)]; simp [prS, prSW]
  | .hilite t, hf, ind => by rw [itoks_iS ind _ (by simpa only [FragX] using hf)]; simp [prS, prSW]
  | .mcall o m as, hf, ind => by rw [itoks_iS ind _ (by simpa only [FragX] using hf)]; simp [prS, prSW]
  | .tell .., hf, _ => by simp [FragX] at hf
  | .repeatIn v l body, hf, ind => by
    cases v with
    | var k v =>
      cases k with
      | loc =>
        simp only [FragX, Bool.and_eq_true] at hf
        obtain ⟨⟨hv, hl⟩, hbody⟩ := hf
        simp [iS, iE, prSW, prE, itoks_append, itoks_indent, itoks, itoks_iE l hl, itoks_iXs body hbody (ind + 1), kwI, kw]
      | _ => simp [FragX] at hf
    | _ => simp [FragX] at hf
  | .exitRepeat, hf, _ => by simp [FragX] at hf
theorem itoks_iXs : ∀ (ss : List Stmt), FragXs ss = true → ∀ (ind : Nat), itoks (iSs ind ss) = prSsW ss
  | [], _, _ => rfl
  | s :: ss, hf, ind => by
    simp only [FragXs, Bool.and_eq_true] at hf
    simp only [iSs, itoks_append, itoks_iX s hf.1 ind, itoks_iXs ss hf.2 ind, prSsW]
end

mutual
theorem chain_iX : ∀ (s : Stmt), FragX s = true → ∀ (ind : Nat) (l : List Item) (rest : List Char),
    Chain (iS ind s ++ l) rest = Chain l rest
  | .set lv v, hf, ind, l, rest => chain_iS ind _ (by simpa only [FragX] using hf) l rest
  | .call f as, hf, ind, l, rest => chain_iS ind _ (by simpa only [FragX] using hf) l rest
  | .exit, _, ind, l, rest => chain_iS ind _ rfl l rest
  | .ifThen c t e, hf, ind, l, rest => by
    simp only [FragX, Bool.and_eq_true] at hf
    obtain ⟨⟨hc, ht⟩, he⟩ := hf
    have hend : Chain (iIndent ind ++ (kwI "end" :: .sp :: kwI "if" :: .tk .nl :: l)) rest = Chain l rest := by
      rw [chain_indent, chain_cons_sp _ _ _ (by decide), chain_cons_nl _ _ _ (by decide)]
    cases hee : e.isEmpty with
    | true =>
      simp only [iS, hee, if_true, List.append_assoc, List.cons_append, List.nil_append, chain_indent]
      rw [chain_cons_sp _ _ _ (by decide), chain_iE_then c hc ' ' safe_sp _ _ (render_sp_head _), chain_sp,
        chain_cons_nl _ _ _ (by decide), chain_iXs t ht, hend]
    | false =>
      simp only [iS, hee, Bool.false_eq_true, if_false, List.append_assoc, List.cons_append, List.nil_append, chain_indent]
      rw [chain_cons_sp _ _ _ (by decide), chain_iE_then c hc ' ' safe_sp _ _ (render_sp_head _), chain_sp,
        chain_cons_nl _ _ _ (by decide), chain_iXs t ht, chain_indent, chain_cons_nl _ _ _ (by decide), chain_iXs e he, hend]
  | .repeatWhile c b, hf, ind, l, rest => by
    simp only [FragX, Bool.and_eq_true] at hf
    obtain ⟨hc, hb⟩ := hf
    simp only [iS, List.append_assoc, List.cons_append, List.nil_append, chain_indent]
    rw [chain_cons_sp _ _ _ (by decide), chain_cons_sp _ _ _ (by decide), chain_iCond_then c hc _ _ (render_nl_head _),
      chain_nl, chain_iXs b hb, chain_indent, chain_cons_sp _ _ _ (by decide), chain_cons_nl _ _ _ (by decide)]
  | .repeatWith v a b down body, hf, ind, l, rest => by
    cases v with
    | var k v =>
      cases k with
      | loc =>
        simp only [FragX, Bool.and_eq_true] at hf
        obtain ⟨⟨⟨hv, ha⟩, hb⟩, hbody⟩ := hf
        have hend : Chain (iE b ++ (.tk .nl :: (iSs (ind + 1) body ++ (iIndent ind ++ (kwI "end" :: .sp :: kwI "repeat" :: .tk .nl :: l))))) rest
            = Chain l rest := by
          rw [chain_iE_then b hb '\n' safe_nl _ _ (render_nl_head _), chain_nl, chain_iXs body hbody, chain_indent,
            chain_cons_sp _ _ _ (by decide), chain_cons_nl _ _ _ (by decide)]
        cases down with
        | false =>
          simp only [iS, iE, Bool.false_eq_true, if_false, List.append_assoc, List.cons_append, List.nil_append, chain_indent]
          rw [chain_cons_sp _ _ _ (by decide), chain_cons_sp _ _ _ (by decide), chain_cons_sp _ _ _ (by simpa [ItemOk] using hv),
            chain_cons_sp _ _ _ (by decide), chain_iE_then a ha ' ' safe_sp _ _ (render_sp_head _), chain_sp,
            chain_cons_sp _ _ _ (by decide), hend]
        | true =>
          simp only [iS, iE, if_true, List.append_assoc, List.cons_append, List.nil_append, chain_indent]
          rw [chain_cons_sp _ _ _ (by decide), chain_cons_sp _ _ _ (by decide), chain_cons_sp _ _ _ (by simpa [ItemOk] using hv),
            chain_cons_sp _ _ _ (by decide), chain_iE_then a ha ' ' safe_sp _ _ (render_sp_head _), chain_sp,
            chain_cons_sp _ _ _ (by decide), chain_cons_sp _ _ _ (by decide), hend]
      | _ => simp [FragX] at hf
    | _ => simp [FragX] at hf
  | .put m v lv, hf, ind, l, rest => chain_iS ind _ (by simpa only [FragX] using hf) l rest
  | .delete t, hf, ind, l, rest => chain_iS ind _ (by simpa only [FragX] using hf) l rest
  | .hilite t, hf, ind, l, rest => chain_iS ind _ (by simpa only [FragX] using hf) l rest
  | .mcall o m as, hf, ind, l, rest => chain_iS ind _ (by simpa only [FragX] using hf) l rest
  | .tell .., hf, _, _, _ => by simp [FragX] at hf
  | .repeatIn v l body, hf, ind, lst, rest => by
    cases v with
    | var k v =>
      cases k with
      | loc =>
        simp only [FragX, Bool.and_eq_true] at hf
        obtain ⟨⟨hv, hl⟩, hbody⟩ := hf
        simp only [iS, iE, List.append_assoc, List.cons_append, List.nil_append, chain_indent]
        rw [chain_cons_sp _ _ _ (by decide), chain_cons_sp _ _ _ (by decide), chain_cons_sp _ _ _ (by simpa [ItemOk] using hv),
          chain_cons_sp _ _ _ (by decide), chain_iE_then l hl '\n' safe_nl _ _ (render_nl_head _), chain_nl, chain_iXs body hbody, chain_indent,
          chain_cons_sp _ _ _ (by decide), chain_cons_nl _ _ _ (by decide)]
      | _ => simp [FragX] at hf
    | _ => simp [FragX] at hf
  | .exitRepeat, hf, _, _, _ => by simp [FragX] at hf
theorem chain_iXs : ∀ (ss : List Stmt), FragXs ss = true → ∀ (ind : Nat) (l : List Item) (rest : List Char),
    Chain (iSs ind ss ++ l) rest = Chain l rest
  | [], _, _, l, rest => rfl
  | s :: ss, hf, ind, l, rest => by
    simp only [FragXs, Bool.and_eq_true] at hf
    simp only [iSs, List.append_assoc]
    rw [chain_iX s hf.1, chain_iXs ss hf.2]
end

/-- what the handler / script level needs to know about a body: its items render to the model's text, carry the reference
    printer's tokens, and are properly delimited -/
structure BodyLex (body : List Stmt) : Prop where
  render : render (iSs 1 body) = mSs 1 body
  itoks : itoks (iSs 1 body) = prSsW body
  chain : ∀ (l : List Item) (rest : List Char), Chain (iSs 1 body ++ l) rest = Chain l rest

/-- without a `repeat while` the two printers agree -/
theorem prSsW_flat : ∀ (ss : List Stmt), FragSs ss = true → prSsW ss = prSs ss
  | [], _ => rfl
  | s :: ss, h => by
    simp only [FragSs, Bool.and_eq_true] at h
    have ih := prSsW_flat ss h.2
    have e : prSW s = prS s := by cases s <;> first | (simp [FragS] at h; done) | simp [prSW, prS]
    simp only [prSsW, prSs, ih, e]

theorem bodyLex_flat (body : List Stmt) (h : FragSs body = true) : BodyLex body :=
  ⟨render_iSs 1 body h, by rw [itoks_iSs 1 body h, prSsW_flat body h], chain_iSs 1 body h⟩

theorem bodyLex_structured (body : List Stmt) (h : FragXs body = true) : BodyLex body :=
  ⟨render_iXs body h 1, itoks_iXs body h 1, chain_iXs body h 1⟩

/-- `a, b, c` -/
def iNames : List Spec.Name → List Item
  | [] => []
  | [n] => [.tk (.id n)]
  | n :: m :: ns => .tk (.id n) :: .tk (.p .comma) :: .sp :: iNames (m :: ns)

theorem render_iNames : ∀ (ns : List Spec.Name), render (iNames ns) = joinWith (S ", ") ns
  | [] => rfl
  | [n] => by simp [iNames, render, Item.text, joinWith]
  | n :: m :: ns => by
    have ih := render_iNames (m :: ns)
    simp only [iNames, render_cons, ih, joinWith]
    simp [Item.text, S, P.text]

theorem itoks_iNames : ∀ (ns : List Spec.Name), itoks (iNames ns) = prNames ns
  | [] => rfl
  | [n] => rfl
  | n :: m :: ns => by
    have ih := itoks_iNames (m :: ns)
    simp only [iNames, itoks, ih, prNames]

theorem chain_iNames : ∀ (ns : List Spec.Name), (∀ n ∈ ns, idOk n = true) → ∀ (l : List Item) (rest : List Char),
    Chain (iNames ns ++ .tk .nl :: l) rest = Chain l rest
  | [], _, l, rest => by simp [iNames, chain_nl]
  | [n], h, l, rest => by
    simp only [iNames, List.cons_append, List.nil_append]
    exact chain_cons_nl _ _ _ (by simpa [ItemOk] using h n (by simp))
  | n :: m :: ns, h, l, rest => by
    have ih := chain_iNames (m :: ns) (fun x hx => h x (by simp [hx])) l rest
    simp only [iNames, List.cons_append]
    rw [chain_cons_comma_sp _ _ _ (by simpa [ItemOk] using h n (by simp))]
    exact ih

/-- `    global g` lines -/
def iHGlobalLines : List Spec.Name → List Item
  | [] => []
  | g :: gs => iIndent 1 ++ (kwI "global" :: .sp :: .tk (.id g) :: .tk .nl :: iHGlobalLines gs)

def iHGlobals (gl : List Spec.Name) : List Item := iHGlobalLines gl ++ (if gl.isEmpty then [] else [.tk .nl])

theorem render_iHGlobalLines : ∀ (gl : List Spec.Name),
    render (iHGlobalLines gl) = (gl.map fun g => indentOf 1 ++ S "global " ++ g ++ S "\n").flatten
  | [] => rfl
  | g :: gs => by
    simp only [iHGlobalLines, render_append, render_cons, render_indent, render_iHGlobalLines gs, List.map_cons, List.flatten_cons]
    simp [Item.text, kwI, S]

theorem render_iHGlobals (gl : List Spec.Name) : render (iHGlobals gl) = mGlobalLines gl := by
  unfold iHGlobals mGlobalLines
  rw [render_append, render_iHGlobalLines]
  cases gl <;> simp [render, Item.text, S]

theorem itoks_iHGlobalLines : ∀ (gl : List Spec.Name), itoks (iHGlobalLines gl) = gl.flatMap (fun g => [kw "global", .id g, .nl])
  | [] => rfl
  | g :: gs => by simp [iHGlobalLines, itoks_append, itoks_indent, itoks, itoks_iHGlobalLines gs, kwI, kw]

theorem itoks_iHGlobals (gl : List Spec.Name) : itoks (iHGlobals gl) = dGlobalLines gl := by
  unfold iHGlobals dGlobalLines
  rw [itoks_append, itoks_iHGlobalLines]
  cases gl <;> simp [itoks]

theorem chain_iHGlobalLines : ∀ (gl : List Spec.Name), (∀ g ∈ gl, idOk g = true) → ∀ (l : List Item) (rest : List Char),
    Chain (iHGlobalLines gl ++ l) rest = Chain l rest
  | [], _, l, rest => rfl
  | g :: gs, h, l, rest => by
    simp only [iHGlobalLines, List.append_assoc, List.cons_append, chain_indent]
    rw [chain_cons_sp _ _ _ (by decide), chain_cons_nl _ _ _ (by simpa [ItemOk] using h g (by simp)),
      chain_iHGlobalLines gs (fun x hx => h x (by simp [hx]))]

theorem chain_iHGlobals (gl : List Spec.Name) (h : ∀ g ∈ gl, idOk g = true) (l : List Item) (rest : List Char) :
    Chain (iHGlobals gl ++ l) rest = Chain l rest := by
  unfold iHGlobals
  rw [List.append_assoc, chain_iHGlobalLines gl h]
  cases gl <;> simp [chain_nl]

def iHandler (s : Spec.Script) (h : Handler) : List Item :=
  [kwI "on", .sp, .tk (.id h.name)] ++ ((if h.params.isEmpty then [] else .sp :: iNames h.params) ++ ([.tk .nl] ++
    (iHGlobals (hGlobalsSorted s h) ++ (iSs 1 h.body ++ [kwI "end", .tk .nl]))))

def iHandlers (s : Spec.Script) : List Handler → Bool → List Item
  | [], _ => []
  | h :: hs, first => (if first then [] else [.tk .nl]) ++ (iHandler s h ++ iHandlers s hs false)

theorem render_iHandler (s : Spec.Script) (h : Handler) (hb : BodyLex h.body) : render (iHandler s h) = mHandler s h := by
  unfold iHandler mHandler
  cases hp : h.params.isEmpty <;>
    simp [hp, render_append, render_cons, hb.render, render_iNames, render_iHGlobals, Item.text, kwI, S, render_nil]

theorem itoks_iHandler (s : Spec.Script) (h : Handler) (hb : BodyLex h.body) : itoks (iHandler s h) = dHandler s h := by
  unfold iHandler dHandler
  cases hp : h.params.isEmpty with
  | true =>
    have : h.params = [] := List.isEmpty_iff.mp hp
    simp [hp, this, itoks_append, itoks, hb.itoks, itoks_iHGlobals, kwI, kw, prNames]
  | false =>
    simp [hp, itoks_append, itoks, hb.itoks, itoks_iNames, itoks_iHGlobals, kwI, kw]

theorem hGlobalsSorted_mem (s : Spec.Script) (h : Handler) (g : Spec.Name) (hg : g ∈ hGlobalsSorted s h) : g ∈ h.globalsUsed s.globals :=
  (isort_perm _).mem_iff.mp hg

theorem chain_iHandler (s : Spec.Script) (h : Handler) (hb : BodyLex h.body) (hn : idOk h.name = true) (hp : ∀ v ∈ h.params, idOk v = true)
    (hgl : ∀ g ∈ h.globalsUsed s.globals, idOk g = true)
    (l : List Item) (rest : List Char) : Chain (iHandler s h ++ l) rest = Chain l rest := by
  have hbody : ∀ l', Chain (iHGlobals (hGlobalsSorted s h) ++ (iSs 1 h.body ++ (kwI "end" :: .tk .nl :: l'))) rest = Chain l' rest := by
    intro l'
    rw [chain_iHGlobals _ (fun g hg => hgl g (hGlobalsSorted_mem s h g hg)), hb.chain, chain_cons_nl _ _ _ (by decide)]
  unfold iHandler
  cases hpe : h.params.isEmpty with
  | true =>
    simp only [if_true, List.append_assoc, List.cons_append, List.nil_append]
    rw [chain_cons_sp _ _ _ (by decide), chain_cons_nl _ _ _ (by simpa [ItemOk] using hn), hbody]
  | false =>
    simp only [Bool.false_eq_true, if_false, List.append_assoc, List.cons_append, List.nil_append]
    rw [chain_cons_sp _ _ _ (by decide), chain_cons_sp _ _ _ (by simpa [ItemOk] using hn), chain_iNames h.params hp, hbody]

theorem render_iHandlers (s : Spec.Script) : ∀ (hs : List Handler) (first : Bool), (∀ h ∈ hs, BodyLex h.body) →
    render (iHandlers s hs first) = mHandlers s hs first
  | [], _, _ => rfl
  | h :: hs, first, hf => by
    have ih := render_iHandlers s hs false (fun x hx => hf x (by simp [hx]))
    cases first <;> simp [iHandlers, mHandlers, render_append, render_cons, render_iHandler s h (hf h (by simp)), ih, Item.text, S, render_nil]

theorem itoks_iHandlers (s : Spec.Script) : ∀ (hs : List Handler) (first : Bool), (∀ h ∈ hs, BodyLex h.body) →
    itoks (iHandlers s hs first) = dHandlers s hs first
  | [], _, _ => rfl
  | h :: hs, first, hf => by
    have ih := itoks_iHandlers s hs false (fun x hx => hf x (by simp [hx]))
    cases first <;> simp [iHandlers, dHandlers, itoks_append, itoks, itoks_iHandler s h (hf h (by simp)), ih]

theorem chain_iHandlers (s : Spec.Script) : ∀ (hs : List Handler) (first : Bool),
    (∀ h ∈ hs, BodyLex h.body ∧ idOk h.name = true ∧ (∀ v ∈ h.params, idOk v = true) ∧ ∀ g ∈ h.globalsUsed s.globals, idOk g = true) →
    Chain (iHandlers s hs first) [] = true
  | [], _, _ => rfl
  | h :: hs, first, hf => by
    obtain ⟨hb, hn, hp, hg⟩ := hf h (by simp)
    have ih := chain_iHandlers s hs false (fun x hx => hf x (by simp [hx]))
    cases first with
    | true =>
      simp only [iHandlers, if_true, List.nil_append]
      rw [chain_iHandler s h hb hn hp hg, ih]
    | false =>
      simp only [iHandlers, Bool.false_eq_true, if_false, List.cons_append, List.nil_append, chain_nl]
      rw [chain_iHandler s h hb hn hp hg, ih]

def iGlobals : List Spec.Name → List Item
  | [] => []
  | g :: gs => kwI "global" :: .sp :: .tk (.id g) :: .tk .nl :: iGlobals gs

def iScript (s : Spec.Script) : List Item :=
  (if s.props.length > 0 then kwI "property" :: .sp :: (iNames s.props ++ [.tk .nl]) else [])
    ++ (if s.globals.length > 0 then iGlobals s.globals ++ [.tk .nl] else []) ++ iHandlers s s.handlers true

theorem render_iGlobals : ∀ (gs : List Spec.Name), render (iGlobals gs) = (gs.map fun g => S "global " ++ g ++ S "\n").flatten
  | [] => rfl
  | g :: gs => by
    simp only [iGlobals, render_cons, render_iGlobals gs, List.map_cons, List.flatten_cons]
    simp [Item.text, kwI, S]

theorem itoks_iGlobals : ∀ (gs : List Spec.Name), itoks (iGlobals gs) = gs.flatMap (fun g => [kw "global", .id g, .nl])
  | [] => rfl
  | g :: gs => by simp [iGlobals, itoks, itoks_iGlobals gs, kwI, kw]

theorem chain_iGlobals : ∀ (gs : List Spec.Name), (∀ g ∈ gs, idOk g = true) → ∀ (l : List Item) (rest : List Char),
    Chain (iGlobals gs ++ l) rest = Chain l rest
  | [], _, l, rest => rfl
  | g :: gs, h, l, rest => by
    simp only [iGlobals, List.cons_append]
    rw [chain_cons_sp _ _ _ (by decide), chain_cons_nl _ _ _ (by simpa [ItemOk] using h g (by simp)),
      chain_iGlobals gs (fun x hx => h x (by simp [hx]))]

theorem fragScript_spec (s : Spec.Script) (hf : FragScript s = true) :
    s.factory = [] ∧ (∀ v ∈ s.props, idOk v = true) ∧ (∀ g ∈ s.globals, idOk g = true) ∧
      ∀ h ∈ s.handlers, FragSs h.body = true ∧ idOk h.name = true ∧ (∀ v ∈ h.params, idOk v = true) ∧
        ∀ g ∈ h.globalsUsed s.globals, idOk g = true := by
  simp only [FragScript, Bool.and_eq_true, List.all_eq_true, List.isEmpty_iff] at hf
  obtain ⟨⟨⟨h1, h2⟩, h3⟩, h4⟩ := hf
  refine ⟨h1, h2, h3, ?_⟩
  intro h hh
  obtain ⟨_, a, b, c, _, d⟩ := fragH_spec s h (h4 h hh)
  exact ⟨c, a, b, d⟩

/-- what the lexing of the whole text needs: identifiers everywhere, bodies with `BodyLex` -/
def ScriptLex (s : Spec.Script) : Prop :=
  s.factory = [] ∧ (∀ v ∈ s.props, idOk v = true) ∧ (∀ g ∈ s.globals, idOk g = true) ∧
    ∀ h ∈ s.handlers, BodyLex h.body ∧ idOk h.name = true ∧ (∀ v ∈ h.params, idOk v = true) ∧
      ∀ g ∈ h.globalsUsed s.globals, idOk g = true

theorem scriptLex_of_frag (s : Spec.Script) (hf : FragScript s = true) : ScriptLex s := by
  obtain ⟨h1, h2, h3, h4⟩ := fragScript_spec s hf
  exact ⟨h1, h2, h3, fun h hh => ⟨bodyLex_flat h.body (h4 h hh).1, (h4 h hh).2⟩⟩

theorem fragHX_spec (s : Spec.Script) (h : Handler) (hf : FragHX s h = true) :
    h.isMethod = false ∧ idOk h.name = true ∧ (∀ v ∈ h.params, idOk v = true) ∧ FragXs h.body = true ∧
      (∀ v ∈ Stmt.varsList .prop h.body, s.props.contains v = true) ∧ ∀ g ∈ h.globalsUsed s.globals, idOk g = true := by
  simp only [FragHX, Bool.and_eq_true, Bool.not_eq_true', List.all_eq_true] at hf
  obtain ⟨⟨⟨⟨⟨a, b⟩, c⟩, d⟩, e⟩, f⟩ := hf
  exact ⟨a, b, c, d, e, f⟩

theorem scriptLex_of_fragX (s : Spec.Script) (hf : FragScriptX s = true) : ScriptLex s := by
  simp only [FragScriptX, Bool.and_eq_true, List.all_eq_true, List.isEmpty_iff] at hf
  obtain ⟨⟨⟨h1, h2⟩, h3⟩, h4⟩ := hf
  refine ⟨h1, h2, h3, ?_⟩
  intro h hh
  obtain ⟨_, a, b, c, _, d⟩ := fragHX_spec s h (h4 h hh)
  exact ⟨bodyLex_structured h.body c, a, b, d⟩

theorem render_iScript (s : Spec.Script) (hf : ScriptLex s) : render (iScript s) = mText s := by
  obtain ⟨_, _, _, hH⟩ := hf
  unfold iScript mText
  simp only [render_append, render_iHandlers s s.handlers true (fun h hh => (hH h hh).1)]
  congr 1
  congr 1
  · split
    · simp [render_cons, render_append, render_iNames, Item.text, kwI, S, render_nil]
    · rfl
  · split
    · simp [render_append, render_iGlobals, render_cons, Item.text, S, render_nil]
    · rfl

theorem itoks_iScript (s : Spec.Script) (hf : ScriptLex s) : itoks (iScript s) = dToks s := by
  obtain ⟨_, _, _, hH⟩ := hf
  unfold iScript dToks
  simp only [itoks_append, itoks_iHandlers s s.handlers true (fun h hh => (hH h hh).1)]
  congr 1
  congr 1
  · split
    · simp [itoks, itoks_append, itoks_iNames, kwI, kw]
    · rfl
  · split
    · simp [itoks_append, itoks_iGlobals, itoks]
    · rfl

theorem chain_iScript (s : Spec.Script) (hf : ScriptLex s) : Chain (iScript s) [] = true := by
  obtain ⟨_, hP, hG, hH⟩ := hf
  have h3 : Chain (iHandlers s s.handlers true) [] = true := chain_iHandlers s s.handlers true hH
  have h2 : Chain ((if s.globals.length > 0 then iGlobals s.globals ++ [.tk .nl] else []) ++ iHandlers s s.handlers true) [] = true := by
    split
    · simp only [List.append_assoc, List.cons_append, List.nil_append]
      rw [chain_iGlobals s.globals hG, chain_nl, h3]
    · simpa using h3
  unfold iScript
  rw [List.append_assoc]
  split
  · simp only [List.append_assoc, List.cons_append, List.nil_append]
    rw [chain_cons_sp _ _ _ (by decide), chain_iNames s.props hP]
    exact h2
  · simpa using h2

/-- **the model's text lexes to the reference printer's tokens (decompiler layout)**, for any script with `ScriptLex` -/
theorem lex_mTextg (s : Spec.Script) (hf : ScriptLex s) : lex (mText s) = some (dToks s) := by
  rw [← render_iScript s hf, ← itoks_iScript s hf]
  exact lex_render_items _ (chain_iScript s hf)

theorem lex_mText (s : Spec.Script) (hf : FragScript s = true) : lex (mText s) = some (dToks s) :=
  lex_mTextg s (scriptLex_of_frag s hf)

/-- the same for structured bodies -/
theorem lex_mText_structured (s : Spec.Script) (hf : FragScriptX s = true) : lex (mText s) = some (dToks s) :=
  lex_mTextg s (scriptLex_of_fragX s hf)

end Drx.Link
