/-
  The model's text `mText s` as an item list: its rendering is `mText s`, its tokens are `dToks s`, and it is properly
  delimited, so `lex (mText s) = some (dToks s)`.
-/
import Drx.Link
import DrxProofs.LinkLex
import DrxProofs.LinkCompile
import DrxProofs.LinkSort
namespace Drx.Link
open Drx Drx.Lscr Drx.Spec
set_option linter.unusedSimpArgs false
set_option linter.unusedVariables false

def kwI (s : String) : Item := .tk (.id s.toList)

/-- characters that may follow any token -/
def safeCh (c : Char) : Bool := !isIdChar c && c != '.' && c != '-' && c != '&' && c != '=' && c != '>'

def ItemOk : Item → Bool
  | .tk (.id s) => idOk s
  | .tk (.str s) => safeStr s
  | .tk (.flt _ _) => false
  | _ => true

theorem okNext_safe (it : Item) (c : Char) (r : List Char) (hi : ItemOk it = true) (hc : safeCh c = true) : okNext it (c :: r) = true := by
  simp only [safeCh, Bool.and_eq_true, Bool.not_eq_true', bne_iff_ne, ne_eq] at hc
  obtain ⟨⟨⟨⟨⟨h1, h2⟩, h3⟩, h4⟩, h5⟩, h6⟩ := hc
  cases it with
  | sp => rfl
  | tk t =>
    cases t with
    | nl => rfl
    | id s => simp [okNext, h1]; exact hi
    | num n => simp [okNext, h1, h2]
    | p x => cases x <;> simp [okNext, h3, h4, h5, h6]
    | str s => simpa [okNext, ItemOk] using hi
    | flt a b => simp [ItemOk] at hi

def SafeHd (rest : List Char) : Prop := ∃ c r, rest = c :: r ∧ safeCh c = true

theorem okNext_safeHd (it : Item) (rest : List Char) (hi : ItemOk it = true) (h : SafeHd rest) : okNext it rest = true := by
  obtain ⟨c, r, rfl, hc⟩ := h
  exact okNext_safe it c r hi hc

theorem safeHd_cons (c : Char) (r : List Char) (h : safeCh c = true) : SafeHd (c :: r) := ⟨c, r, rfl, h⟩

/-! ### expressions -/

mutual
def iE : Expr → List Item
  | .int k => [.tk (.num k)]
  | .str s => [.tk (.str s)]
  | .sym n => [.tk (.p .hash), .tk (.id n)]
  | .var _ v => [.tk (.id v)]
  | .un .neg a => .tk (.p .minus) :: iE a
  | .un .not a => kwI "not" :: .sp :: iE a
  | .bin o a b =>
    if o.isInfix then [.tk (.p .lp)] ++ iE a ++ [.sp, .tk o.tok, .sp] ++ iE b ++ [.tk (.p .rp)]
    else [kwI "sprite", .sp] ++ iE a ++ [.sp, .tk o.tok, .sp] ++ iE b
  | .field a => kwI "field" :: .sp :: iE a
  | .call f as => .tk (.id f) :: .tk (.p .lp) :: (iArgs as ++ [.tk (.p .rp)])
  | .list as => .tk (.p .lb) :: (iArgs as ++ [.tk (.p .rb)])
  | _ => []
def iArgs : List Expr → List Item
  | [] => []
  | [e] => iE e
  | e :: e2 :: es => iE e ++ (.tk (.p .comma) :: .sp :: iArgs (e2 :: es))
end

theorem plain_safeStr (v : Spec.Name) (h : ∀ c ∈ v, plainCharB c = true) : safeStr v = true := by
  simp only [safeStr, List.all_eq_true, Bool.and_eq_true, bne_iff_ne, ne_eq]
  intro c hc
  have := h c hc
  simp only [plainCharB, Bool.and_eq_true, decide_eq_true_eq, bne_iff_ne, ne_eq] at this
  refine ⟨⟨this.2, ?_⟩, ?_⟩
  · intro e; subst e; simp at this
  · intro e; subst e; simp at this

/-- a non-empty string of plain characters is none of Lingo's named string constants -/
theorem nameOfConstant_plain (v : Spec.Name) (hne : v ≠ []) (h : ∀ c ∈ v, plainCharB c = true) : nameOfConstant v = none := by
  unfold nameOfConstant
  rw [Option.map_eq_none_iff, List.find?_eq_none]
  intro x hx
  simp only [namedConstants, List.mem_cons, List.mem_nil_iff, or_false] at hx
  rcases hx with hx | hx | hx | hx | hx | hx <;> subst hx <;> simp only [beq_iff_eq] <;> intro e
  · exact hne e.symm
  · have := h (Char.ofNat 8) (by rw [← e]; simp); simp [plainCharB] at this
  · have := h (Char.ofNat 3) (by rw [← e]; simp); simp [plainCharB] at this
  · have := h '"' (by rw [← e]; simp); simp [plainCharB] at this
  · have := h '\r' (by rw [← e]; simp); simp [plainCharB] at this
  · have := h '\t' (by rw [← e]; simp); simp [plainCharB] at this

theorem optok_text (o : BinOp) (h : o ≠ .starts) : Item.text (.tk o.tok) = opTxt o := by
  cases o <;> first | rfl | exact absurd rfl h

theorem optok_ok (o : BinOp) : ItemOk (.tk o.tok) = true := by cases o <;> decide

mutual
theorem render_iE : ∀ (e : Expr), FragE e = true → render (iE e) = mE e
  | .int k, _ => by simp [iE, render, Item.text, mE]
  | .var _ v, _ => by simp [iE, render, Item.text, mE]
  | .un .neg a, hf => by
    simp only [FragE, Bool.and_eq_true] at hf
    simp only [iE, render_cons, render_iE a hf.1, mE]; rfl
  | .un .not a, hf => by
    simp only [FragE] at hf
    simp only [iE, render_cons, render_iE a hf, mE]; rfl
  | .bin o a b, hf => by
    simp only [FragE, Bool.and_eq_true, decide_eq_true_eq] at hf
    obtain ⟨⟨ho, ha⟩, hb⟩ := hf
    cases hi : o.isInfix <;>
      simp only [iE, hi, Bool.false_eq_true, if_false, if_true, render_append, render_cons, render_iE a ha, render_iE b hb, mE,
        optok_text o ho] <;> simp [render, Item.text, S, kwI, P.text]
  | .str v, _ => by simp [iE, render, Item.text, mE]
  | .float _ _, hf => by simp [FragE] at hf
  | .sym n, _ => by simp [iE, render, Item.text, mE, P.text]
  | .me, hf => by simp [FragE] at hf
  | .field a, hf => by
    simp only [FragE] at hf
    simp only [iE, render_cons, render_iE a hf, mE]; rfl
  | .call f as, hf => by
    simp only [FragE, Bool.and_eq_true] at hf
    simp only [iE, render_cons, render_append, render_iArgs as hf.2, mE]
    simp [render, Item.text, S, P.text]
  | .mcall _ _ _, hf => by simp [FragE] at hf
  | .list as, hf => by
    simp only [FragE] at hf
    simp only [iE, render_cons, render_append, render_iArgs as hf, mE]
    simp [render, Item.text, S, P.text]
  | .plist _, hf => by simp [FragE] at hf
  | .the _ _ _, hf => by simp [FragE] at hf
  | .key _, hf => by simp [FragE] at hf
  | .movie _, hf => by simp [FragE] at hf
  | .oprop _ _, hf => by simp [FragE] at hf
  | .chunk _ _ _ _, hf => by simp [FragE] at hf
theorem render_iArgs : ∀ (as : List Expr), FragL as = true → render (iArgs as) = mArgs as
  | [], _ => rfl
  | [e], hf => by
    simp only [FragL, Bool.and_eq_true] at hf
    simp only [iArgs, render_iE e hf.1, mArgs]
  | e :: e2 :: es, hf => by
    simp only [FragL, Bool.and_eq_true] at hf
    have ih := render_iArgs (e2 :: es) (by simp only [FragL, Bool.and_eq_true]; exact hf.2)
    simp only [iArgs, render_append, render_cons, render_iE e hf.1, ih, mArgs]
    simp [Item.text, S, P.text]
end

mutual
theorem itoks_iE : ∀ (e : Expr), FragE e = true → itoks (iE e) = prE e
  | .int k, _ => by simp [iE, itoks, prE]
  | .var _ v, _ => by simp [iE, itoks, prE]
  | .un .neg a, hf => by
    simp only [FragE, Bool.and_eq_true] at hf
    simp only [iE, itoks, itoks_iE a hf.1, prE]
  | .un .not a, hf => by
    simp only [FragE] at hf
    simp only [iE, kwI, itoks, itoks_iE a hf, prE, kw]
  | .bin o a b, hf => by
    simp only [FragE, Bool.and_eq_true, decide_eq_true_eq] at hf
    obtain ⟨⟨ho, ha⟩, hb⟩ := hf
    cases hi : o.isInfix <;>
      simp [iE, hi, itoks_append, itoks, itoks_iE a ha, itoks_iE b hb, prE, kwI, kw]
  | .str v, hf => by
    simp only [FragE] at hf
    obtain ⟨hne, hpl⟩ := plainStr_spec v hf
    simp only [iE, itoks, prE, strToks, hne, if_false, nameOfConstant_plain v hne hpl]
  | .float _ _, hf => by simp [FragE] at hf
  | .sym n, _ => by simp [iE, itoks, prE]
  | .me, hf => by simp [FragE] at hf
  | .field a, hf => by
    simp only [FragE] at hf
    simp only [iE, kwI, itoks, itoks_iE a hf, prE, kw]
  | .call f as, hf => by
    simp only [FragE, Bool.and_eq_true] at hf
    simp [iE, itoks, itoks_append, itoks_iArgs as hf.2, prE]
  | .mcall _ _ _, hf => by simp [FragE] at hf
  | .list as, hf => by
    simp only [FragE] at hf
    simp [iE, itoks, itoks_append, itoks_iArgs as hf, prE]
  | .plist _, hf => by simp [FragE] at hf
  | .the _ _ _, hf => by simp [FragE] at hf
  | .key _, hf => by simp [FragE] at hf
  | .movie _, hf => by simp [FragE] at hf
  | .oprop _ _, hf => by simp [FragE] at hf
  | .chunk _ _ _ _, hf => by simp [FragE] at hf
theorem itoks_iArgs : ∀ (as : List Expr), FragL as = true → itoks (iArgs as) = prArgs as
  | [], _ => rfl
  | [e], hf => by
    simp only [FragL, Bool.and_eq_true] at hf
    simp only [iArgs, itoks_iE e hf.1, prArgs]
  | e :: e2 :: es, hf => by
    simp only [FragL, Bool.and_eq_true] at hf
    have ih := itoks_iArgs (e2 :: es) (by simp only [FragL, Bool.and_eq_true]; exact hf.2)
    simp only [iArgs, itoks_append, itoks, itoks_iE e hf.1, ih, prArgs]
end

theorem mE_ne_nil : ∀ (e : Expr), FragE e = true → mE e ≠ []
  | .int k, _ => by
    obtain ⟨c, r, h, _⟩ := natStr_head k
    simp [mE, h]
  | .var _ v, hf => by
    simp only [FragE] at hf
    cases v with
    | nil => simp [idOk] at hf
    | cons c cs => simp [mE]
  | .un .neg a, _ => by simp [mE, S]
  | .un .not a, _ => by simp [mE, S]
  | .bin o a b, _ => by cases h : o.isInfix <;> simp [mE, h, S]
  | .str v, _ => by simp [mE]
  | .float _ _, hf => by simp [FragE] at hf
  | .sym n, _ => by simp [mE]
  | .me, hf => by simp [FragE] at hf
  | .field _, _ => by simp [mE, S]
  | .call f as, _ => by simp [mE, S]
  | .mcall _ _ _, hf => by simp [FragE] at hf
  | .list _, _ => by simp [mE, S]
  | .plist _, hf => by simp [FragE] at hf
  | .the _ _ _, hf => by simp [FragE] at hf
  | .key _, hf => by simp [FragE] at hf
  | .movie _, hf => by simp [FragE] at hf
  | .oprop _ _, hf => by simp [FragE] at hf
  | .chunk _ _ _ _, hf => by simp [FragE] at hf

theorem safe_sp : safeCh ' ' = true := by decide
theorem safe_rp : safeCh ')' = true := by decide
theorem safe_nl : safeCh '\n' = true := by decide
theorem safe_comma : safeCh ',' = true := by decide
theorem safe_lp : safeCh '(' = true := by decide
theorem safe_rb : safeCh ']' = true := by decide

mutual
theorem chain_iE : ∀ (e : Expr), FragE e = true → ∀ (rest : List Char), SafeHd rest → Chain (iE e) rest = true
  | .int k, _, rest, h => by
    simp only [iE, Chain, render, List.flatMap_nil, List.nil_append, Bool.and_true]
    exact okNext_safeHd _ _ rfl h
  | .var _ v, hf, rest, h => by
    simp only [FragE] at hf
    simp only [iE, Chain, render, List.flatMap_nil, List.nil_append, Bool.and_true]
    exact okNext_safeHd _ _ (by simpa [ItemOk] using hf) h
  | .un .neg a, hf, rest, h => by
    simp only [FragE, Bool.and_eq_true, Bool.not_eq_true'] at hf
    simp only [iE, Chain, Bool.and_eq_true]
    refine ⟨?_, chain_iE a hf.1 rest h⟩
    rw [render_iE a hf.1]
    have hm := mE_not_minus a hf.1 hf.2
    cases hme : mE a with
    | nil => exact absurd hme (mE_ne_nil a hf.1)
    | cons c r =>
      rw [hme] at hm
      simp only [List.cons_append, okNext, bne_iff_ne, ne_eq]
      intro hc; subst hc
      simp [startsWith, S, List.isPrefixOf] at hm
  | .un .not a, hf, rest, h => by
    simp only [FragE] at hf
    simp only [iE, Chain, Bool.and_eq_true]
    refine ⟨?_, rfl, chain_iE a hf rest h⟩
    simp only [render_cons, Item.text, List.cons_append, List.nil_append]
    exact okNext_safe _ _ _ (by decide) safe_sp
  | .bin o a b, hf, rest, h => by
    simp only [FragE, Bool.and_eq_true, decide_eq_true_eq] at hf
    obtain ⟨⟨ho, ha⟩, hb⟩ := hf
    have hsp : ∀ x, SafeHd (' ' :: x) := fun x => safeHd_cons _ _ safe_sp
    cases hi : o.isInfix with
    | true =>
      have e : iE (.bin o a b) = [.tk (.p .lp)] ++ (iE a ++ ([.sp, .tk o.tok, .sp] ++ (iE b ++ [.tk (.p .rp)]))) := by
        simp [iE, hi]
      have h5 : Chain [.tk (.p .rp)] rest = true := by simp [Chain, okNext]
      have h4 : Chain (iE b) (render [.tk (.p .rp)] ++ rest) = true :=
        chain_iE b hb _ ⟨')', rest, by simp [render, Item.text, P.text], safe_rp⟩
      have h3 : Chain [.sp, .tk o.tok, .sp] (render (iE b ++ [.tk (.p .rp)]) ++ rest) = true := by
        simp only [Chain, okNext, Bool.and_eq_true, true_and, and_true]
        exact okNext_safe _ ' ' _ (optok_ok o) safe_sp
      have h2 : Chain (iE a) (render ([.sp, .tk o.tok, .sp] ++ (iE b ++ [.tk (.p .rp)])) ++ rest) = true :=
        chain_iE a ha _ ⟨' ', _, rfl, safe_sp⟩
      have h1 : Chain [.tk (.p .lp)] (render (iE a ++ ([.sp, .tk o.tok, .sp] ++ (iE b ++ [.tk (.p .rp)]))) ++ rest) = true := by
        simp [Chain, okNext]
      rw [e, chain_append, chain_append, chain_append, h1, h2, h3, chain_append, h4, h5]
      rfl
    | false =>
      have e : iE (.bin o a b) = [kwI "sprite", .sp] ++ (iE a ++ ([.sp, .tk o.tok, .sp] ++ iE b)) := by
        simp [iE, hi]
      have h4 : Chain (iE b) rest = true := chain_iE b hb _ h
      have h3 : Chain [.sp, .tk o.tok, .sp] (render (iE b) ++ rest) = true := by
        simp only [Chain, okNext, Bool.and_eq_true, true_and, and_true]
        exact okNext_safe _ ' ' _ (optok_ok o) safe_sp
      have h2 : Chain (iE a) (render ([.sp, .tk o.tok, .sp] ++ iE b) ++ rest) = true :=
        chain_iE a ha _ ⟨' ', _, rfl, safe_sp⟩
      have h1 : Chain [kwI "sprite", .sp] (render (iE a ++ ([.sp, .tk o.tok, .sp] ++ iE b)) ++ rest) = true := by
        simp only [Chain, Bool.and_eq_true, and_true]
        exact ⟨okNext_safe (kwI "sprite") ' ' _ (by decide) safe_sp, rfl⟩
      rw [e, chain_append, chain_append, chain_append, h1, h2, h3, h4]
      rfl
  | .str v, hf, rest, h => by
    simp only [FragE] at hf
    simp only [iE, Chain, render, List.flatMap_nil, List.nil_append, Bool.and_true]
    exact okNext_safeHd _ _ (by simpa [ItemOk] using plain_safeStr v (plainStr_spec v hf).2) h
  | .float _ _, hf, _, _ => by simp [FragE] at hf
  | .sym n, hf, rest, h => by
    simp only [FragE] at hf
    simp only [iE, Chain, render, List.flatMap_nil, List.nil_append, Bool.and_true, Bool.and_eq_true]
    exact ⟨rfl, okNext_safeHd _ _ (by simpa [ItemOk] using hf) h⟩
  | .me, hf, _, _ => by simp [FragE] at hf
  | .field a, hf, rest, h => by
    simp only [FragE] at hf
    simp only [iE, Chain, Bool.and_eq_true]
    refine ⟨?_, rfl, chain_iE a hf rest h⟩
    exact okNext_safe (kwI "field") ' ' _ (by decide) safe_sp
  | .call f as, hf, rest, h => by
    simp only [FragE, Bool.and_eq_true] at hf
    obtain ⟨⟨⟨⟨hid, _⟩, _⟩, _⟩, hfl⟩ := hf
    simp only [iE, Chain, Bool.and_eq_true]
    refine ⟨?_, rfl, ?_⟩
    · exact okNext_safe (.tk (.id f)) '(' _ (by simpa [ItemOk] using hid) safe_lp
    · have hv := chain_iArgs as hfl (render [.tk (.p .rp)] ++ rest) ⟨')', rest, rfl, safe_rp⟩
      rw [chain_append, hv]
      simp [Chain, okNext]
  | .mcall _ _ _, hf, _, _ => by simp [FragE] at hf
  | .list as, hf, rest, h => by
    simp only [FragE] at hf
    simp only [iE, Chain, Bool.and_eq_true]
    refine ⟨rfl, ?_⟩
    have hv := chain_iArgs as hf (render [.tk (.p .rb)] ++ rest) ⟨']', rest, rfl, safe_rb⟩
    rw [chain_append, hv]
    simp [Chain, okNext]
  | .plist _, hf, _, _ => by simp [FragE] at hf
  | .the _ _ _, hf, _, _ => by simp [FragE] at hf
  | .key _, hf, _, _ => by simp [FragE] at hf
  | .movie _, hf, _, _ => by simp [FragE] at hf
  | .oprop _ _, hf, _, _ => by simp [FragE] at hf
  | .chunk _ _ _ _, hf, _, _ => by simp [FragE] at hf
theorem chain_iArgs : ∀ (as : List Expr), FragL as = true → ∀ (rest : List Char), SafeHd rest → Chain (iArgs as) rest = true
  | [], _, _, _ => rfl
  | [e], hf, rest, h => by
    simp only [FragL, Bool.and_eq_true] at hf
    simp only [iArgs]
    exact chain_iE e hf.1 rest h
  | e :: e2 :: es, hf, rest, h => by
    simp only [FragL, Bool.and_eq_true] at hf
    have ih := chain_iArgs (e2 :: es) (by simp only [FragL, Bool.and_eq_true]; exact hf.2) rest h
    simp only [iArgs]
    rw [chain_append, chain_iE e hf.1 _ ⟨',', render (.sp :: iArgs (e2 :: es)) ++ rest, by simp [render, Item.text, P.text], safe_comma⟩]
    simp only [Chain, Bool.and_eq_true, Bool.true_and]
    exact ⟨okNext_safe (.tk (.p .comma)) ' ' _ (by decide) safe_sp, rfl, ih⟩
end

/-! ### statements, handlers, scripts -/

theorem render_nil : render [] = [] := rfl

theorem chain_cons_safe (it : Item) (l : List Item) (rest : List Char) (hi : ItemOk it = true) (hs : SafeHd (render l ++ rest)) :
    Chain (it :: l) rest = Chain l rest := by
  simp only [Chain, okNext_safeHd it _ hi hs, Bool.true_and]

theorem chain_sp (l : List Item) (rest : List Char) : Chain (.sp :: l) rest = Chain l rest := by simp [Chain, okNext]
theorem chain_nl (l : List Item) (rest : List Char) : Chain (.tk .nl :: l) rest = Chain l rest := by simp [Chain, okNext]

theorem rep_add {α : Type} (a b : Nat) (x : α) : List.replicate (a + b) x = List.replicate a x ++ List.replicate b x := by
  induction a with
  | zero => simp
  | succ k ih => rw [Nat.succ_add, List.replicate_succ, List.replicate_succ, ih]; rfl

theorem indentOf_eq (n : Nat) : indentOf n = List.replicate (4 * n) ' ' := by
  induction n with
  | zero => rfl
  | succ k ih =>
    have e : 4 * (k + 1) = 4 + 4 * k := by omega
    rw [e, rep_add]
    simp only [indentOf, List.replicate_succ, List.flatten_cons] at ih ⊢
    rw [ih]; rfl

def iIndent (ind : Nat) : List Item := List.replicate (4 * ind) .sp

theorem render_replicate (k : Nat) : render (List.replicate k .sp) = List.replicate k ' ' := by
  induction k with
  | zero => rfl
  | succ n ih => simp only [List.replicate_succ, render_cons, ih, Item.text, List.singleton_append]

theorem render_indent (ind : Nat) : render (iIndent ind) = indentOf ind := by
  rw [indentOf_eq, iIndent, render_replicate]

theorem itoks_indent (ind : Nat) : itoks (iIndent ind) = [] := by
  unfold iIndent
  induction 4 * ind with
  | zero => rfl
  | succ n ih => simp [List.replicate_succ, itoks, ih]

theorem chain_indent (ind : Nat) (l : List Item) (rest : List Char) : Chain (iIndent ind ++ l) rest = Chain l rest := by
  unfold iIndent
  induction 4 * ind with
  | zero => rfl
  | succ n ih => simp [List.replicate_succ, chain_sp, ih]

/-- an item other than a string / float token whose follower starts with a blank / newline / comma -/
theorem chain_cons_sp (it : Item) (l : List Item) (rest : List Char) (hi : ItemOk it = true) :
    Chain (it :: .sp :: l) rest = Chain l rest := by
  rw [chain_cons_safe it _ rest hi ⟨' ', _, rfl, safe_sp⟩, chain_sp]

theorem chain_cons_nl (it : Item) (l : List Item) (rest : List Char) (hi : ItemOk it = true) :
    Chain (it :: .tk .nl :: l) rest = Chain l rest := by
  rw [chain_cons_safe it _ rest hi ⟨'\n', _, rfl, safe_nl⟩, chain_nl]

theorem chain_cons_comma_sp (it : Item) (l : List Item) (rest : List Char) (hi : ItemOk it = true) :
    Chain (it :: .tk (.p .comma) :: .sp :: l) rest = Chain l rest := by
  rw [chain_cons_safe it _ rest hi ⟨',', render (.sp :: l) ++ rest, by simp [render, Item.text, P.text], safe_comma⟩]
  exact chain_cons_sp _ _ _ (by decide)

def iS (ind : Nat) : Stmt → List Item
  | .set lv v => iIndent ind ++ ([kwI "set", .sp] ++ (iE lv ++ ([.sp, .tk (.p .eq), .sp] ++ (iE v ++ [.tk .nl]))))
  | .call f as => iIndent ind ++ (.tk (.id f) :: ((if as.isEmpty then [] else .sp :: iArgs as) ++ [.tk .nl]))
  | .exit => iIndent ind ++ [kwI "exit", .tk .nl]
  | _ => []

def iSs (ind : Nat) : List Stmt → List Item
  | [] => []
  | s :: ss => iS ind s ++ iSs ind ss

theorem fragLv_fragE (lv : Expr) (h : FragLv lv = true) : FragE lv = true := by
  cases lv <;> simp_all [FragLv, FragE]

theorem render_iS (ind : Nat) (s : Stmt) (hf : FragS s = true) : render (iS ind s) = mS ind s := by
  cases s with
  | set lv v =>
    simp only [FragS, Bool.and_eq_true] at hf
    simp only [iS, render_append, render_indent, render_iE lv (fragLv_fragE lv hf.1), render_iE v hf.2, mS]
    simp [render, Item.text, kwI, S, P.text]
  | call f as =>
    simp only [FragS, Bool.and_eq_true] at hf
    cases hemp : as.isEmpty <;>
      simp [iS, hemp, render_append, render_cons, render_indent, render_iArgs as hf.2, mS, Item.text, S, render_nil]
  | exit => simp [iS, render_append, render_cons, render_indent, mS, Item.text, kwI, S, render_nil]
  | _ => simp [FragS] at hf

theorem plainCall_pr (f : Spec.Name) (as : List Expr) (h : plainCallName f = true) : prCallStmt f as = .id f :: prArgs as := by
  simp only [plainCallName, Bool.and_eq_true, bne_iff_ne, ne_eq] at h
  have h1 : ¬ f = ['s', 'o', 'u', 'n', 'd'] := h.1
  have h2 : ¬ f = ['g', 'o'] := h.2
  simp [prCallStmt, h1, h2]

theorem itoks_iS (ind : Nat) (s : Stmt) (hf : FragS s = true) : itoks (iS ind s) = prS s := by
  cases s with
  | set lv v =>
    simp only [FragS, Bool.and_eq_true] at hf
    simp [iS, itoks_append, itoks_indent, itoks_iE lv (fragLv_fragE lv hf.1), itoks_iE v hf.2, prS, itoks, kwI, kw]
  | call f as =>
    simp only [FragS, Bool.and_eq_true] at hf
    cases hemp : as.isEmpty with
    | true =>
      have : as = [] := List.isEmpty_iff.mp hemp
      subst this
      simp [iS, itoks_append, itoks_indent, itoks, prS, plainCall_pr f [] hf.1.1.2, prArgs]
    | false =>
      simp [iS, hemp, itoks_append, itoks_indent, itoks, itoks_iArgs as hf.2, prS, plainCall_pr f as hf.1.1.2]
  | exit => simp [iS, itoks_append, itoks_indent, itoks, prS, kwI, kw]
  | _ => simp [FragS] at hf

theorem chain_iS (ind : Nat) (s : Stmt) (hf : FragS s = true) (l : List Item) (rest : List Char) :
    Chain (iS ind s ++ l) rest = Chain l rest := by
  cases s with
  | set lv v =>
    simp only [FragS, Bool.and_eq_true] at hf
    have hlv : ∃ n, iE lv = [.tk (.id n)] ∧ idOk n = true := by
      cases lv with
      | var k n => exact ⟨n, rfl, by simpa [FragLv] using hf.1⟩
      | _ => simp [FragLv] at hf
    obtain ⟨n, hn, hid⟩ := hlv
    simp only [iS, hn, List.append_assoc, List.cons_append, List.nil_append, chain_indent]
    have hv := chain_iE v hf.2 (render (.tk .nl :: l) ++ rest) ⟨'\n', _, rfl, safe_nl⟩
    rw [chain_cons_sp _ _ _ (by decide), chain_cons_sp _ _ _ (by simpa [ItemOk] using hid), chain_cons_sp _ _ _ (by decide),
      chain_append, hv, Bool.true_and, chain_nl]
  | call f as =>
    simp only [FragS, Bool.and_eq_true] at hf
    obtain ⟨⟨⟨hid, _⟩, _⟩, hfl⟩ := hf
    simp only [iS, List.append_assoc, List.cons_append, chain_indent]
    cases hemp : as.isEmpty with
    | true =>
      simp only [if_true, List.nil_append, List.cons_append]
      exact chain_cons_nl _ _ _ (by simpa [ItemOk] using hid)
    | false =>
      simp only [Bool.false_eq_true, if_false, List.cons_append, List.nil_append]
      have hv := chain_iArgs as hfl (render (.tk .nl :: l) ++ rest) ⟨'\n', _, rfl, safe_nl⟩
      rw [chain_cons_sp _ _ _ (by simpa [ItemOk] using hid), chain_append, hv, Bool.true_and, chain_nl]
  | exit =>
    simp only [iS, List.append_assoc, List.cons_append, List.nil_append, chain_indent]
    exact chain_cons_nl _ _ _ (by decide)
  | _ => simp [FragS] at hf

theorem render_iSs (ind : Nat) : ∀ (ss : List Stmt), FragSs ss = true → render (iSs ind ss) = mSs ind ss
  | [], _ => rfl
  | s :: ss, hf => by
    simp only [FragSs, Bool.and_eq_true] at hf
    simp only [iSs, render_append, render_iS ind s hf.1, render_iSs ind ss hf.2, mSs]

theorem itoks_iSs (ind : Nat) : ∀ (ss : List Stmt), FragSs ss = true → itoks (iSs ind ss) = prSs ss
  | [], _ => rfl
  | s :: ss, hf => by
    simp only [FragSs, Bool.and_eq_true] at hf
    simp only [iSs, itoks_append, itoks_iS ind s hf.1, itoks_iSs ind ss hf.2, prSs]

theorem chain_iSs (ind : Nat) : ∀ (ss : List Stmt), FragSs ss = true → ∀ (l : List Item) (rest : List Char),
    Chain (iSs ind ss ++ l) rest = Chain l rest
  | [], _, l, rest => rfl
  | s :: ss, hf, l, rest => by
    simp only [FragSs, Bool.and_eq_true] at hf
    simp only [iSs, List.append_assoc]
    rw [chain_iS ind s hf.1, chain_iSs ind ss hf.2]

/-- `a, b, c` -/
def iNames : List Spec.Name → List Item
  | [] => []
  | [n] => [.tk (.id n)]
  | n :: m :: ns => .tk (.id n) :: .tk (.p .comma) :: .sp :: iNames (m :: ns)

theorem render_iNames : ∀ (ns : List Spec.Name), render (iNames ns) = joinWith (S ", ") ns
  | [] => rfl
  | [n] => by simp [iNames, render, Item.text, joinWith]
  | n :: m :: ns => by
    have ih := render_iNames (m :: ns)
    simp only [iNames, render_cons, ih, joinWith]
    simp [Item.text, S, P.text]

theorem itoks_iNames : ∀ (ns : List Spec.Name), itoks (iNames ns) = prNames ns
  | [] => rfl
  | [n] => rfl
  | n :: m :: ns => by
    have ih := itoks_iNames (m :: ns)
    simp only [iNames, itoks, ih, prNames]

theorem chain_iNames : ∀ (ns : List Spec.Name), (∀ n ∈ ns, idOk n = true) → ∀ (l : List Item) (rest : List Char),
    Chain (iNames ns ++ .tk .nl :: l) rest = Chain l rest
  | [], _, l, rest => by simp [iNames, chain_nl]
  | [n], h, l, rest => by
    simp only [iNames, List.cons_append, List.nil_append]
    exact chain_cons_nl _ _ _ (by simpa [ItemOk] using h n (by simp))
  | n :: m :: ns, h, l, rest => by
    have ih := chain_iNames (m :: ns) (fun x hx => h x (by simp [hx])) l rest
    simp only [iNames, List.cons_append]
    rw [chain_cons_comma_sp _ _ _ (by simpa [ItemOk] using h n (by simp))]
    exact ih

/-- `    global g` lines -/
def iHGlobalLines : List Spec.Name → List Item
  | [] => []
  | g :: gs => iIndent 1 ++ (kwI "global" :: .sp :: .tk (.id g) :: .tk .nl :: iHGlobalLines gs)

def iHGlobals (gl : List Spec.Name) : List Item := iHGlobalLines gl ++ (if gl.isEmpty then [] else [.tk .nl])

theorem render_iHGlobalLines : ∀ (gl : List Spec.Name),
    render (iHGlobalLines gl) = (gl.map fun g => indentOf 1 ++ S "global " ++ g ++ S "\n").flatten
  | [] => rfl
  | g :: gs => by
    simp only [iHGlobalLines, render_append, render_cons, render_indent, render_iHGlobalLines gs, List.map_cons, List.flatten_cons]
    simp [Item.text, kwI, S]

theorem render_iHGlobals (gl : List Spec.Name) : render (iHGlobals gl) = mGlobalLines gl := by
  unfold iHGlobals mGlobalLines
  rw [render_append, render_iHGlobalLines]
  cases gl <;> simp [render, Item.text, S]

theorem itoks_iHGlobalLines : ∀ (gl : List Spec.Name), itoks (iHGlobalLines gl) = gl.flatMap (fun g => [kw "global", .id g, .nl])
  | [] => rfl
  | g :: gs => by simp [iHGlobalLines, itoks_append, itoks_indent, itoks, itoks_iHGlobalLines gs, kwI, kw]

theorem itoks_iHGlobals (gl : List Spec.Name) : itoks (iHGlobals gl) = dGlobalLines gl := by
  unfold iHGlobals dGlobalLines
  rw [itoks_append, itoks_iHGlobalLines]
  cases gl <;> simp [itoks]

theorem chain_iHGlobalLines : ∀ (gl : List Spec.Name), (∀ g ∈ gl, idOk g = true) → ∀ (l : List Item) (rest : List Char),
    Chain (iHGlobalLines gl ++ l) rest = Chain l rest
  | [], _, l, rest => rfl
  | g :: gs, h, l, rest => by
    simp only [iHGlobalLines, List.append_assoc, List.cons_append, chain_indent]
    rw [chain_cons_sp _ _ _ (by decide), chain_cons_nl _ _ _ (by simpa [ItemOk] using h g (by simp)),
      chain_iHGlobalLines gs (fun x hx => h x (by simp [hx]))]

theorem chain_iHGlobals (gl : List Spec.Name) (h : ∀ g ∈ gl, idOk g = true) (l : List Item) (rest : List Char) :
    Chain (iHGlobals gl ++ l) rest = Chain l rest := by
  unfold iHGlobals
  rw [List.append_assoc, chain_iHGlobalLines gl h]
  cases gl <;> simp [chain_nl]

def iHandler (s : Spec.Script) (h : Handler) : List Item :=
  [kwI "on", .sp, .tk (.id h.name)] ++ ((if h.params.isEmpty then [] else .sp :: iNames h.params) ++ ([.tk .nl] ++
    (iHGlobals (hGlobalsSorted s h) ++ (iSs 1 h.body ++ [kwI "end", .tk .nl]))))

def iHandlers (s : Spec.Script) : List Handler → Bool → List Item
  | [], _ => []
  | h :: hs, first => (if first then [] else [.tk .nl]) ++ (iHandler s h ++ iHandlers s hs false)

theorem render_iHandler (s : Spec.Script) (h : Handler) (hb : FragSs h.body = true) : render (iHandler s h) = mHandler s h := by
  unfold iHandler mHandler
  cases hp : h.params.isEmpty <;>
    simp [hp, render_append, render_cons, render_iSs 1 h.body hb, render_iNames, render_iHGlobals, Item.text, kwI, S, render_nil]

theorem itoks_iHandler (s : Spec.Script) (h : Handler) (hb : FragSs h.body = true) : itoks (iHandler s h) = dHandler s h := by
  unfold iHandler dHandler
  cases hp : h.params.isEmpty with
  | true =>
    have : h.params = [] := List.isEmpty_iff.mp hp
    simp [hp, this, itoks_append, itoks, itoks_iSs 1 h.body hb, itoks_iHGlobals, kwI, kw, prNames]
  | false =>
    simp [hp, itoks_append, itoks, itoks_iSs 1 h.body hb, itoks_iNames, itoks_iHGlobals, kwI, kw]

theorem hGlobalsSorted_mem (s : Spec.Script) (h : Handler) (g : Spec.Name) (hg : g ∈ hGlobalsSorted s h) : g ∈ h.globalsUsed s.globals :=
  (isort_perm _).mem_iff.mp hg

theorem chain_iHandler (s : Spec.Script) (h : Handler) (hb : FragSs h.body = true) (hn : idOk h.name = true) (hp : ∀ v ∈ h.params, idOk v = true)
    (hgl : ∀ g ∈ h.globalsUsed s.globals, idOk g = true)
    (l : List Item) (rest : List Char) : Chain (iHandler s h ++ l) rest = Chain l rest := by
  have hbody : ∀ l', Chain (iHGlobals (hGlobalsSorted s h) ++ (iSs 1 h.body ++ (kwI "end" :: .tk .nl :: l'))) rest = Chain l' rest := by
    intro l'
    rw [chain_iHGlobals _ (fun g hg => hgl g (hGlobalsSorted_mem s h g hg)), chain_iSs 1 h.body hb, chain_cons_nl _ _ _ (by decide)]
  unfold iHandler
  cases hpe : h.params.isEmpty with
  | true =>
    simp only [if_true, List.append_assoc, List.cons_append, List.nil_append]
    rw [chain_cons_sp _ _ _ (by decide), chain_cons_nl _ _ _ (by simpa [ItemOk] using hn), hbody]
  | false =>
    simp only [Bool.false_eq_true, if_false, List.append_assoc, List.cons_append, List.nil_append]
    rw [chain_cons_sp _ _ _ (by decide), chain_cons_sp _ _ _ (by simpa [ItemOk] using hn), chain_iNames h.params hp, hbody]

theorem render_iHandlers (s : Spec.Script) : ∀ (hs : List Handler) (first : Bool), (∀ h ∈ hs, FragSs h.body = true) →
    render (iHandlers s hs first) = mHandlers s hs first
  | [], _, _ => rfl
  | h :: hs, first, hf => by
    have ih := render_iHandlers s hs false (fun x hx => hf x (by simp [hx]))
    cases first <;> simp [iHandlers, mHandlers, render_append, render_cons, render_iHandler s h (hf h (by simp)), ih, Item.text, S, render_nil]

theorem itoks_iHandlers (s : Spec.Script) : ∀ (hs : List Handler) (first : Bool), (∀ h ∈ hs, FragSs h.body = true) →
    itoks (iHandlers s hs first) = dHandlers s hs first
  | [], _, _ => rfl
  | h :: hs, first, hf => by
    have ih := itoks_iHandlers s hs false (fun x hx => hf x (by simp [hx]))
    cases first <;> simp [iHandlers, dHandlers, itoks_append, itoks, itoks_iHandler s h (hf h (by simp)), ih]

theorem chain_iHandlers (s : Spec.Script) : ∀ (hs : List Handler) (first : Bool),
    (∀ h ∈ hs, FragSs h.body = true ∧ idOk h.name = true ∧ (∀ v ∈ h.params, idOk v = true) ∧ ∀ g ∈ h.globalsUsed s.globals, idOk g = true) →
    Chain (iHandlers s hs first) [] = true
  | [], _, _ => rfl
  | h :: hs, first, hf => by
    obtain ⟨hb, hn, hp, hg⟩ := hf h (by simp)
    have ih := chain_iHandlers s hs false (fun x hx => hf x (by simp [hx]))
    cases first with
    | true =>
      simp only [iHandlers, if_true, List.nil_append]
      rw [chain_iHandler s h hb hn hp hg, ih]
    | false =>
      simp only [iHandlers, Bool.false_eq_true, if_false, List.cons_append, List.nil_append, chain_nl]
      rw [chain_iHandler s h hb hn hp hg, ih]

def iGlobals : List Spec.Name → List Item
  | [] => []
  | g :: gs => kwI "global" :: .sp :: .tk (.id g) :: .tk .nl :: iGlobals gs

def iScript (s : Spec.Script) : List Item :=
  (if s.props.length > 0 then kwI "property" :: .sp :: (iNames s.props ++ [.tk .nl]) else [])
    ++ (if s.globals.length > 0 then iGlobals s.globals ++ [.tk .nl] else []) ++ iHandlers s s.handlers true

theorem render_iGlobals : ∀ (gs : List Spec.Name), render (iGlobals gs) = (gs.map fun g => S "global " ++ g ++ S "\n").flatten
  | [] => rfl
  | g :: gs => by
    simp only [iGlobals, render_cons, render_iGlobals gs, List.map_cons, List.flatten_cons]
    simp [Item.text, kwI, S]

theorem itoks_iGlobals : ∀ (gs : List Spec.Name), itoks (iGlobals gs) = gs.flatMap (fun g => [kw "global", .id g, .nl])
  | [] => rfl
  | g :: gs => by simp [iGlobals, itoks, itoks_iGlobals gs, kwI, kw]

theorem chain_iGlobals : ∀ (gs : List Spec.Name), (∀ g ∈ gs, idOk g = true) → ∀ (l : List Item) (rest : List Char),
    Chain (iGlobals gs ++ l) rest = Chain l rest
  | [], _, l, rest => rfl
  | g :: gs, h, l, rest => by
    simp only [iGlobals, List.cons_append]
    rw [chain_cons_sp _ _ _ (by decide), chain_cons_nl _ _ _ (by simpa [ItemOk] using h g (by simp)),
      chain_iGlobals gs (fun x hx => h x (by simp [hx]))]

theorem fragScript_spec (s : Spec.Script) (hf : FragScript s = true) :
    s.factory = [] ∧ (∀ v ∈ s.props, idOk v = true) ∧ (∀ g ∈ s.globals, idOk g = true) ∧
      ∀ h ∈ s.handlers, FragSs h.body = true ∧ idOk h.name = true ∧ (∀ v ∈ h.params, idOk v = true) ∧
        ∀ g ∈ h.globalsUsed s.globals, idOk g = true := by
  simp only [FragScript, Bool.and_eq_true, List.all_eq_true, List.isEmpty_iff] at hf
  obtain ⟨⟨⟨h1, h2⟩, h3⟩, h4⟩ := hf
  refine ⟨h1, h2, h3, ?_⟩
  intro h hh
  obtain ⟨_, a, b, c, _, d⟩ := fragH_spec s h (h4 h hh)
  exact ⟨c, a, b, d⟩

theorem render_iScript (s : Spec.Script) (hf : FragScript s = true) : render (iScript s) = mText s := by
  obtain ⟨_, _, _, hH⟩ := fragScript_spec s hf
  unfold iScript mText
  simp only [render_append, render_iHandlers s s.handlers true (fun h hh => (hH h hh).1)]
  congr 1
  congr 1
  · split
    · simp [render_cons, render_append, render_iNames, Item.text, kwI, S, render_nil]
    · rfl
  · split
    · simp [render_append, render_iGlobals, render_cons, Item.text, S, render_nil]
    · rfl

theorem itoks_iScript (s : Spec.Script) (hf : FragScript s = true) : itoks (iScript s) = dToks s := by
  obtain ⟨_, _, _, hH⟩ := fragScript_spec s hf
  unfold iScript dToks
  simp only [itoks_append, itoks_iHandlers s s.handlers true (fun h hh => (hH h hh).1)]
  congr 1
  congr 1
  · split
    · simp [itoks, itoks_append, itoks_iNames, kwI, kw]
    · rfl
  · split
    · simp [itoks_append, itoks_iGlobals, itoks]
    · rfl

theorem chain_iScript (s : Spec.Script) (hf : FragScript s = true) : Chain (iScript s) [] = true := by
  obtain ⟨_, hP, hG, hH⟩ := fragScript_spec s hf
  have h3 : Chain (iHandlers s s.handlers true) [] = true := chain_iHandlers s s.handlers true hH
  have h2 : Chain ((if s.globals.length > 0 then iGlobals s.globals ++ [.tk .nl] else []) ++ iHandlers s s.handlers true) [] = true := by
    split
    · simp only [List.append_assoc, List.cons_append, List.nil_append]
      rw [chain_iGlobals s.globals hG, chain_nl, h3]
    · simpa using h3
  unfold iScript
  rw [List.append_assoc]
  split
  · simp only [List.append_assoc, List.cons_append, List.nil_append]
    rw [chain_cons_sp _ _ _ (by decide), chain_iNames s.props hP]
    exact h2
  · simpa using h2

/-- **the model's text lexes to the reference printer's tokens (decompiler layout)** -/
theorem lex_mText (s : Spec.Script) (hf : FragScript s = true) : lex (mText s) = some (dToks s) := by
  rw [← render_iScript s hf, ← itoks_iScript s hf]
  exact lex_render_items _ (chain_iScript s hf)

end Drx.Link
