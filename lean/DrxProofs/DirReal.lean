/-
  Helper lemmas about the composed real decoders (Drx/DirReal.lean), used by DrxProps/C05Real.lean.
-/
import Drx.DirReal
import DrxProofs.LscrGen
import DrxProofs.LscrRegs
namespace Drx.DirReal
open Drx Drx.Dir

/-- the key decoder of `realDecoders` is C17's key model followed by the record renaming -/
theorem realKey_eq (c : Codec) (o : Order) (d : Bytes) : (realDecoders c).key o d = (Idx.parseKey o d).map keyConv := rfl

/-- the script decoder as a Python process sees it: the opcode singletons hold whatever operand registers `regs` the previous
    parses left behind, and the JS generator runs on the tree the Lingo generator left behind -/
def scriptRealWith (codec : Codec) (regs : Lscr.Regs) (d : Bytes) (names : J) : R ScriptOut := do
  let ns ← namesOfJ names
  let (s, _) ← Lscr.parseLscrWith codec regs d ns
  let (lingo, s') := Lscr.genLingo s
  let l ← lingo
  let j ← (Lscr.genJs s').1
  .ok ⟨s.scrNum, s.contScrNum, l, j⟩

/-- the script decoder of two independent command-line runs (lscr2lingo, lscr2js): fresh registers, each generator on a
    freshly parsed tree -/
def scriptFresh (codec : Codec) (d : Bytes) (names : J) : R ScriptOut := do
  let ns ← namesOfJ names
  let (s, _) ← Lscr.parseLscrWith codec [] d ns
  let l ← (Lscr.genLingo s).1
  let j ← (Lscr.genJs s).1
  .ok ⟨s.scrNum, s.contScrNum, l, j⟩

theorem scriptRealWith_nil (codec : Codec) (d : Bytes) (names : J) : scriptRealWith codec [] d names = scriptReal codec d names := rfl

/-- whatever the registers hold, the script decoder returns what it returns in a fresh process -/
theorem scriptRealWith_regs (codec : Codec) (regs : Lscr.Regs) (d : Bytes) (names : J) :
    scriptRealWith codec regs d names = scriptReal codec d names := by
  unfold scriptRealWith scriptReal
  cases hn : namesOfJ names with
  | error e => rfl
  | ok ns =>
    simp only [bind, Except.bind]
    have h := Lscr.parseLscrWith_regs_irrelevant codec regs [] d ns
    cases h1 : Lscr.parseLscrWith codec regs d ns with
    | error e1 =>
      cases h2 : Lscr.parseLscrWith codec [] d ns with
      | error e2 => rw [h1, h2] at h; simp only [Except.map] at h; cases h; rfl
      | ok y => rw [h1, h2] at h; simp [Except.map] at h
    | ok x =>
      cases h2 : Lscr.parseLscrWith codec [] d ns with
      | error e2 => rw [h1, h2] at h; simp [Except.map] at h
      | ok y =>
        rw [h1, h2] at h
        simp only [Except.map, Except.ok.injEq] at h
        obtain ⟨s, r⟩ := x
        obtain ⟨s2, r2⟩ := y
        simp only at h
        subst h
        rfl

/-- generating the JavaScript text from the tree the Lingo generator left behind gives the text of a fresh tree -/
theorem scriptReal_fresh (codec : Codec) (d : Bytes) (names : J) : scriptReal codec d names = scriptFresh codec d names := by
  unfold scriptReal scriptFresh
  cases hn : namesOfJ names with
  | error e => rfl
  | ok ns =>
    simp only [bind, Except.bind]
    cases hp : Lscr.parseLscrWith codec [] d ns with
    | error e => rfl
    | ok x =>
      obtain ⟨s, r⟩ := x
      simp only [Lscr.genLingo, Lscr.genJs]
      cases hl : Lscr.lingoText s with
      | error e => rfl
      | ok l =>
        simp only [Lscr.jsText_afterLingoScript]
        cases Lscr.jsText s <;> rfl

end Drx.DirReal
