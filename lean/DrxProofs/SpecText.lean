/-
  The text level: `readLingo (printLingoText s) = some s`.  The printer's token lists are free of lexical hazards (`safeToks`) for every
  script whose own names are identifiers and whose string literals can stand between quotes (`okScript`, a decidable predicate on
  the SOURCE tree); `lex_render` (DrxProofs/SpecLex.lean) then turns the token-level round trip into one about characters.
-/
import DrxProofs.SpecLex
import DrxProofs.SpecScript
namespace Drx.Spec
set_option linter.unusedSimpArgs false
set_option linter.unusedVariables false

theorem safeToks_append (a b : List Tok) : safeToks (a ++ b) = (safeToks a && safeToks b) := by simp [safeToks]
theorem safeToks_cons (t : Tok) (a : List Tok) : safeToks (t :: a) = (safeTok t && safeToks a) := by simp [safeToks]
theorem safeToks_nil : safeToks [] = true := rfl
theorem safeTok_nl : safeTok .nl = true := rfl
theorem safeTok_p (x : P) : safeTok (.p x) = true := rfl

/-! ### the names the printer takes from the spec tables are identifiers -/

theorem tbl_valid : ∀ t ∈ [tblSpecial, tblMenuItem, tblSprite, tblCast, tblSound, tblVideo, tblSys], ∀ x ∈ t, validId x.2.toList = true := by
  decide +kernel

theorem nameOrUnknown_valid (t : List (Nat × String)) (ht : t ∈ [tblSpecial, tblMenuItem, tblSprite, tblCast, tblSound, tblVideo, tblSys])
    (k : Nat) : validId (nameOrUnknown t k) = true := by
  unfold nameOrUnknown tblLookupIdx
  cases hf : t.find? (fun x => x.1 == k) with
  | none => simp; decide
  | some x => simpa using tbl_valid t ht x (List.mem_of_find?_eq_some hf)

theorem tblDate_valid : ∀ x ∈ tblDate, validId x.2.1.toList = true ∧ validId x.2.2.toList = true := by decide +kernel

theorem chunkTag_valid (c : ChunkKind) : validId c.tag.toList = true ∧ validId (chunkPlural c).toList = true := by cases c <;> decide

theorem namedConstants_valid : ∀ x ∈ namedConstants, validId x.1.toList = true := by decide +kernel

theorem nameOfConstant_valid (s c : Name) (h : nameOfConstant s = some c) : validId c = true := by
  unfold nameOfConstant at h
  cases hf : namedConstants.find? (fun x => x.2 == s) with
  | none => simp [hf] at h
  | some x =>
    simp [hf] at h
    subst h
    exact namedConstants_valid x (List.mem_of_find?_eq_some hf)

/-! ### hazard-free source trees -/

mutual
/-- names are identifiers, string literals contain no quote / line end (unless they are the named constants), decimal literals have
    a fractional digit -/
def okE : Expr → Bool
  | .int _ => true
  | .str s => s.isEmpty || (nameOfConstant s).isSome || safeStr s
  | .float _ s => decide (1 ≤ s)
  | .sym n => validId n
  | .var _ n => validId n
  | .me => true
  | .bin _ a b => okE a && okE b
  | .un _ a => okE a
  | .field a => okE a
  | .call f as => validId f && okEs as
  | .mcall o m as => okE o && validId m && okEs as
  | .list as => okEs as
  | .plist as => okEs as
  | .the _ _ as => okEs as
  | .key n => validId n
  | .movie n => validId n
  | .oprop n o => validId n && okE o
  | .chunk _ a b d => okE a && okE b && okE d
def okEs : List Expr → Bool
  | [] => true
  | e :: es => okE e && okEs es
end

theorem safe_kw (k : String) (h : validId k.toList = true) : safeTok (kw k) = true := by simpa [kw, safeTok] using h

theorem optok_safe (op : BinOp) : safeTok op.tok = true := by cases op <;> decide

mutual
theorem prE_safe : ∀ (e : Expr), okE e = true → safeToks (prE e) = true
  | .int _, _ => by simp [prE, safeToks, safeTok]
  | .str s, h => by
    by_cases h0 : s = []
    · simp [prE, strToks, h0, safeToks, safeTok, safeStr]
    · cases hc : nameOfConstant s with
      | some c => simp [prE, strToks, h0, hc, safeToks, safeTok, nameOfConstant_valid s c hc]
      | none =>
        have : safeStr s = true := by simpa [okE, hc, h0] using h
        simp [prE, strToks, h0, hc, safeToks, safeTok, this]
  | .float _ s, h => by simpa [prE, safeToks, safeTok, okE] using h
  | .sym n, h => by simpa [prE, safeToks, safeTok, okE] using h
  | .var _ n, h => by simpa [prE, safeToks, safeTok, okE] using h
  | .me, _ => by simp [prE, safeToks_cons, safeToks_nil]; decide
  | .key n, h => by
    have : validId n = true := by simpa [okE] using h
    simp only [prE, safeToks_cons, safeToks_nil, safeTok, this, Bool.and_true]; decide
  | .movie n, h => by
    have : validId n = true := by simpa [okE] using h
    simp only [prE, safeToks_cons, safeToks_nil, safeTok, this, Bool.and_true]; decide
  | .un op a, h => by
    have := prE_safe a (by simpa [okE] using h)
    cases op
    · simp only [prE, safeToks_cons, this, Bool.and_true]; decide
    · simp only [prE, safeToks_cons, this, Bool.and_true]; decide
  | .field a, h => by
    have := prE_safe a (by simpa [okE] using h)
    simp only [prE, safeToks_cons, this, Bool.and_true]; decide
  | .bin op a b, h => by
    have hh : okE a = true ∧ okE b = true := by simpa [okE] using h
    have ha := prE_safe a hh.1
    have hb := prE_safe b hh.2
    cases hop : op.isInfix
    · simp only [prE, hop, Bool.false_eq_true, if_false, safeToks_cons, safeToks_append, ha, hb, optok_safe, Bool.and_true]; decide
    · simp only [prE, hop, if_true, safeToks_cons, safeToks_append, ha, hb, optok_safe, safeToks_nil, Bool.and_true]; decide
  | .call f as, h => by
    have hh : validId f = true ∧ okEs as = true := by simpa [okE] using h
    have := prArgs_safe as hh.2
    simp [prE, safeToks_cons, safeToks_append, this, safeTok, hh.1, safeToks_nil]
  | .mcall o m as, h => by
    have hh : (okE o = true ∧ validId m = true) ∧ okEs as = true := by simpa [okE] using h
    have ho := prE_safe o hh.1.1
    have := prTail_safe as hh.2
    simp [prE, safeToks_cons, safeToks_append, this, ho, safeTok, hh.1.2, safeToks_nil]
  | .list as, h => by
    have := prArgs_safe as (by simpa [okE] using h)
    simp [prE, safeToks_cons, safeToks_append, this, safeTok, safeToks_nil]
  | .plist as, h => by
    have := prPairs_safe as (by simpa [okE] using h)
    cases as <;> simp [prE, safeToks_cons, safeToks_append, this, safeTok, safeToks_nil]
  | .the t k as, h => by
    have := prThe_safe t k as (by simpa [okE] using h)
    simpa [prE] using this
  | .oprop n o, h => by
    have hh : validId n = true ∧ okE o = true := by simpa [okE] using h
    have := prE_safe o hh.2
    simp only [prE, safeToks_cons, this, safeTok, hh.1, Bool.and_true, Bool.true_and]; decide
  | .chunk c a b d, h => by
    have hh : (okE a = true ∧ okE b = true) ∧ okE d = true := by simpa [okE] using h
    have ha := prE_safe a hh.1.1
    have hb := prE_safe b hh.1.2
    have hd := prE_safe d hh.2
    have hc := safe_kw c.tag (chunkTag_valid c).1
    have hof : safeTok (kw "of") = true := by decide
    have hto : safeTok (kw "to") = true := by decide
    have hcase : b = .int 0 ∨ prE (.chunk c a b d) = kw c.tag :: prE a ++ kw "to" :: prE b ++ kw "of" :: prE d := by
      cases b with
      | int n => cases n with
        | zero => exact Or.inl rfl
        | succ m => exact Or.inr (by simp [prE])
      | _ => exact Or.inr (by simp [prE])
    rcases hcase with hb0 | hpr
    · subst hb0; simp [prE, safeToks_cons, safeToks_append, ha, hd, hc, hof]
    · rw [hpr]; simp [safeToks_cons, safeToks_append, ha, hb, hd, hc, hof, hto]
theorem prArgs_safe : ∀ (es : List Expr), okEs es = true → safeToks (prArgs es) = true
  | [], _ => by simp [prArgs, safeToks]
  | e :: es, h => by
    have hh : okE e = true ∧ okEs es = true := by simpa [okEs] using h
    have he := prE_safe e hh.1
    have := prTail_safe es hh.2
    rw [prArgs_cons]
    simp [safeToks_append, he, this]
theorem prTail_safe : ∀ (es : List Expr), okEs es = true → safeToks (prTail es) = true
  | [], _ => by simp [prTail, safeToks]
  | e :: es, h => by
    have hh : okE e = true ∧ okEs es = true := by simpa [okEs] using h
    have he := prE_safe e hh.1
    have := prTail_safe es hh.2
    simp [prTail, safeToks_cons, safeToks_append, he, this, safeTok]
theorem prPairs_safe : ∀ (es : List Expr), okEs es = true → safeToks (prPairs es) = true
  | [], _ => by simp [prPairs, safeToks]
  | [k], h => by simpa [prPairs] using prE_safe k (by simpa [okEs] using h)
  | [k, v], h => by
    have hh : okE k = true ∧ okE v = true := by simpa [okEs] using h
    have hk := prE_safe k hh.1
    have hv := prE_safe v hh.2
    simp [prPairs, safeToks_cons, safeToks_append, hk, hv, safeTok]
  | k :: v :: w :: r, h => by
    have hh : okE k = true ∧ okE v = true ∧ okEs (w :: r) = true := by simpa [okEs, Bool.and_assoc] using h
    have hk := prE_safe k hh.1
    have hv := prE_safe v hh.2.1
    have := prPairs_safe (w :: r) hh.2.2
    simp only [prPairs, safeToks_cons, safeToks_append, hk, hv, this, safeTok]
    simp
theorem prThe_safe : ∀ (t : Tbl) (k : Nat) (as : List Expr), okEs as = true → safeToks (prThe t k as) = true
  | t, k, [], _ => by
    have hthe : safeTok (kw "the") = true := by decide
    have hunk : safeTok (kw "UNKNOWN") = true := by decide
    cases t <;> simp only [prThe, safeToks_cons, safeToks_nil, hthe, hunk, Bool.and_true, Bool.true_and]
    · -- special
      split
      · have hv : safeTok (.id (nameOrUnknown tblSpecial k)) = true := by simpa [safeTok] using nameOrUnknown_valid tblSpecial (by simp) k
        simp [safeToks_cons, safeToks_nil, hthe, hv]
      · split
        · rename_i st un heq
          have := tblDate_valid _ (List.mem_of_find?_eq_some heq)
          simp [safeToks_cons, safeToks_nil, hthe, safe_kw _ this.1, safe_kw _ this.2]
        · simp [safeToks_cons, safeToks_nil, hthe, hunk]
    · -- sys
      simp [safeTok, nameOrUnknown_valid tblSys (by simp) k]
    · -- count
      have h1 : safeTok (kw "perFrameHook") = true := by decide
      have h2 : safeTok (kw "number") = true := by decide
      have h3 : safeTok (kw "of") = true := by decide
      have h4 : safeTok (kw "castMembers") = true := by decide
      have h5 : safeTok (kw "menus") = true := by decide
      split
      · simp [safeToks_cons, safeToks_nil, hthe, h1]
      · split <;> simp [safeToks_cons, safeToks_nil, hthe, h2, h3, h4, h5]
  | t, k, [a], h => by
    have ha := prE_safe a (by simpa [okEs] using h)
    have hthe : safeTok (kw "the") = true := by decide
    have hunk : safeTok (kw "UNKNOWN") = true := by decide
    have hof : safeTok (kw "of") = true := by decide
    have hlast : safeTok (kw "last") = true := by decide
    have hnum : safeTok (kw "number") = true := by decide
    have hname : safeTok (kw "name") = true := by decide
    have hmenu : safeTok (kw "menu") = true := by decide
    have hmis : safeTok (kw "menuItems") = true := by decide
    have hsound : safeTok (kw "sound") = true := by decide
    have hsprite : safeTok (kw "sprite") = true := by decide
    have hcast : safeTok (kw "cast") = true := by decide
    have hfield : safeTok (kw "field") = true := by decide
    cases t <;> simp only [prThe, safeToks_cons, safeToks_nil, safeToks_append, hthe, hunk, hof, hlast, hnum, hname, hmenu, hmis, hsound,
      hsprite, hcast, hfield, ha, Bool.and_true, Bool.true_and]
    · -- special: last chunk
      cases hc : ChunkKind.ofRank (k - 11) with
      | none => simp [hunk]
      | some c => simp [safe_kw _ (chunkTag_valid c).1]
    · -- numChunks
      cases hc : ChunkKind.ofRank k with
      | none => simp [hunk]
      | some c => simp [safe_kw _ (chunkTag_valid c).2]
    · -- menu
      split <;> simp [safeToks_cons, hthe, hname, hof, hmenu, hnum, hmis, ha]
    · simp [safeTok, nameOrUnknown_valid tblSound (by simp) k]
    · simp [safeTok, nameOrUnknown_valid tblSprite (by simp) k]
    · simp [safeTok, nameOrUnknown_valid tblCast (by simp) k]
    · simp [safeTok, nameOrUnknown_valid tblCast (by simp) k]
    · simp [safeTok, nameOrUnknown_valid tblVideo (by simp) k]
  | t, k, [a, b], h => by
    have hh : okE a = true ∧ okE b = true := by simpa [okEs] using h
    have ha := prE_safe a hh.1
    have hb := prE_safe b hh.2
    have hthe : safeTok (kw "the") = true := by decide
    have hunk : safeTok (kw "UNKNOWN") = true := by decide
    have hof : safeTok (kw "of") = true := by decide
    have hmenu : safeTok (kw "menu") = true := by decide
    have hmi : safeTok (kw "menuItem") = true := by decide
    cases t <;> simp only [prThe, safeToks_cons, safeToks_nil, safeToks_append, hthe, hunk, hof, hmenu, hmi, ha, hb, Bool.and_true, Bool.true_and]
    simp [safeTok, nameOrUnknown_valid tblMenuItem (by simp) k]
  | t, k, a :: b :: c :: ds, _ => by
    have hthe : safeTok (kw "the") = true := by decide
    have hunk : safeTok (kw "UNKNOWN") = true := by decide
    cases t <;> simp only [prThe, safeToks_cons, safeToks_nil, hthe, hunk, Bool.and_true]
end

mutual
def okS : Stmt → Bool
  | .set lv v => okE lv && okE v
  | .put _ v lv => okE v && okE lv
  | .delete t => okE t
  | .hilite t => okE t
  | .call f as => validId f && okEs as
  | .mcall o m as => okE o && validId m && okEs as
  | .exit => true
  | .exitRepeat => true
  | .tell o b => okE o && okSs b
  | .ifThen c t e => okE c && okSs t && okSs e
  | .repeatWhile c b => okE c && okSs b
  | .repeatWith v a b _ body => okE v && okE a && okE b && okSs body
  | .repeatIn v l body => okE v && okE l && okSs body
def okSs : List Stmt → Bool
  | [] => true
  | s :: ss => okS s && okSs ss
end

theorem prCallStmt_safe (f : Name) (as : List Expr) (hf : validId f = true) (has : okEs as = true) : safeToks (prCallStmt f as) = true := by
  have hfa : safeTok (.id f) = true := by simpa [safeTok] using hf
  have hall := prArgs_safe as has
  unfold prCallStmt
  split
  · split
    · rename_i m rest
      have hh : validId m = true ∧ okEs rest = true := by simpa [okEs, okE] using has
      have hm : safeTok (.id m) = true := by simpa [safeTok] using hh.1
      simp [safeToks_cons, hfa, hm, prArgs_safe rest hh.2]
    · simp [safeToks_cons, hfa, hall]
  · split
    · split
      · split
        · rename_i w _
          have hw : validId w = true := by simpa [okEs, okE] using has
          have hw' : safeTok (.id w) = true := by simpa [safeTok] using hw
          simp [safeToks_cons, safeToks_nil, hfa, hw']
        · simp [safeToks_cons, hfa, hall]
      · simp [safeToks_cons, hfa, hall]
    · simp [safeToks_cons, hfa, hall]

theorem putMode_safe (md : PutMode) : safeTok (kw md.tag) = true := by cases md <;> decide

mutual
theorem prS_safe : ∀ (s : Stmt), okS s = true → safeToks (prS s) = true
  | .set lv v, h => by
    have hh : okE lv = true ∧ okE v = true := by simpa [okS] using h
    have h0 : safeTok (kw "set") = true := by decide
    simp [prS, safeToks_cons, safeToks_append, safeToks_nil, h0, prE_safe lv hh.1, prE_safe v hh.2, safeTok_nl, safeTok_p]
  | .put md v lv, h => by
    have hh : okE v = true ∧ okE lv = true := by simpa [okS] using h
    have h0 : safeTok (kw "put") = true := by decide
    simp [prS, safeToks_cons, safeToks_append, safeToks_nil, h0, prE_safe lv hh.2, prE_safe v hh.1, safeTok_nl, safeTok_p, putMode_safe md]
  | .delete t, h => by
    have h0 : safeTok (kw "delete") = true := by decide
    simp [prS, safeToks_cons, safeToks_append, safeToks_nil, h0, prE_safe t (by simpa [okS] using h), safeTok_nl, safeTok_p]
  | .hilite t, h => by
    have h0 : safeTok (kw "hilite") = true := by decide
    simp [prS, safeToks_cons, safeToks_append, safeToks_nil, h0, prE_safe t (by simpa [okS] using h), safeTok_nl, safeTok_p]
  | .call f as, h => by
    have hh : validId f = true ∧ okEs as = true := by simpa [okS] using h
    simp [prS, safeToks_append, safeToks_cons, safeToks_nil, prCallStmt_safe f as hh.1 hh.2, safeTok_nl, safeTok_p]
  | .mcall o m as, h => by
    have hh : (okE o = true ∧ validId m = true) ∧ okEs as = true := by simpa [okS] using h
    have hm : safeTok (.id m) = true := by simpa [safeTok] using hh.1.2
    simp [prS, safeToks_append, safeToks_cons, safeToks_nil, prE_safe o hh.1.1, hm, prTail_safe as hh.2, safeTok_nl, safeTok_p]
  | .exit, _ => by decide
  | .exitRepeat, _ => by decide
  | .tell o b, h => by
    have hh : okE o = true ∧ okSs b = true := by simpa [okS] using h
    have h0 : safeTok (kw "tell") = true := by decide
    have h1 : safeTok (kw "end") = true := by decide
    simp [prS, safeToks_append, safeToks_cons, safeToks_nil, prE_safe o hh.1, prSs_safe b hh.2, h0, h1, safeTok_nl, safeTok_p]
  | .ifThen c t e, h => by
    have hh : (okE c = true ∧ okSs t = true) ∧ okSs e = true := by simpa [okS] using h
    have h0 : safeTok (kw "if") = true := by decide
    have h1 : safeTok (kw "end") = true := by decide
    have h2 : safeTok (kw "then") = true := by decide
    have h3 : safeTok (kw "else") = true := by decide
    cases e with
    | nil => simp [prS, safeToks_append, safeToks_cons, safeToks_nil, prE_safe c hh.1.1, prSs_safe t hh.1.2, h0, h1, h2, safeTok_nl, safeTok_p]
    | cons e1 es =>
      simp [prS, safeToks_append, safeToks_cons, safeToks_nil, prE_safe c hh.1.1, prSs_safe t hh.1.2, prSs_safe (e1 :: es) hh.2, h0, h1, h2, h3, safeTok_nl, safeTok_p]
  | .repeatWhile c b, h => by
    have hh : okE c = true ∧ okSs b = true := by simpa [okS] using h
    have h0 : safeTok (kw "repeat") = true := by decide
    have h1 : safeTok (kw "end") = true := by decide
    have h2 : safeTok (kw "while") = true := by decide
    simp [prS, safeToks_append, safeToks_cons, safeToks_nil, prE_safe c hh.1, prSs_safe b hh.2, h0, h1, h2, safeTok_nl, safeTok_p]
  | .repeatWith v a b d body, h => by
    have hh : ((okE v = true ∧ okE a = true) ∧ okE b = true) ∧ okSs body = true := by simpa [okS] using h
    have h0 : safeTok (kw "repeat") = true := by decide
    have h1 : safeTok (kw "end") = true := by decide
    have h2 : safeTok (kw "with") = true := by decide
    have h3 : safeTok (kw "to") = true := by decide
    have h4 : safeTok (kw "down") = true := by decide
    cases d <;>
      simp [prS, safeToks_append, safeToks_cons, safeToks_nil, prE_safe v hh.1.1.1, prE_safe a hh.1.1.2, prE_safe b hh.1.2,
        prSs_safe body hh.2, h0, h1, h2, h3, h4, safeTok_nl, safeTok_p]
  | .repeatIn v l body, h => by
    have hh : (okE v = true ∧ okE l = true) ∧ okSs body = true := by simpa [okS] using h
    have h0 : safeTok (kw "repeat") = true := by decide
    have h1 : safeTok (kw "end") = true := by decide
    have h2 : safeTok (kw "with") = true := by decide
    have h3 : safeTok (kw "in") = true := by decide
    simp [prS, safeToks_append, safeToks_cons, safeToks_nil, prE_safe v hh.1.1, prE_safe l hh.1.2, prSs_safe body hh.2, h0, h1, h2, h3, safeTok_nl, safeTok_p]
theorem prSs_safe : ∀ (ss : List Stmt), okSs ss = true → safeToks (prSs ss) = true
  | [], _ => rfl
  | s :: ss, h => by
    have hh : okS s = true ∧ okSs ss = true := by simpa [okSs] using h
    simp [prSs, safeToks_append, prS_safe s hh.1, prSs_safe ss hh.2]
end

/-! ### handlers, header, script -/

theorem prNames_safe : ∀ (ns : List Name), ns.all validId = true → safeToks (prNames ns) = true
  | [], _ => rfl
  | [n], h => by
    have : validId n = true := by simpa using h
    simp [prNames, safeToks, safeTok, this]
  | n :: m :: ns, h => by
    have hh : validId n = true ∧ (m :: ns).all validId = true := by simpa using h
    have := prNames_safe (m :: ns) hh.2
    have hn : safeTok (.id n) = true := by simpa [safeTok] using hh.1
    simp only [prNames, safeToks_cons, this, hn, safeTok_p, Bool.and_true]

theorem globalLines_safe : ∀ (gs : List Name), gs.all validId = true → safeToks (globalLines gs) = true
  | [], _ => rfl
  | g :: gs, h => by
    have hh : validId g = true ∧ gs.all validId = true := by simpa using h
    have h0 : safeTok (kw "global") = true := by decide
    rw [globalLines_cons]
    have hg : safeTok (.id g) = true := by simpa [safeTok] using hh.1
    simp [safeToks_cons, h0, safeTok_nl, hg, globalLines_safe gs hh.2]

theorem nls_safe (k : Nat) : safeToks (nls k) = true := by simp [nls, safeToks, safeTok_nl, safeTok_p]

def okH (s : Script) (h : Handler) : Bool :=
  validId h.name && h.params.all validId && (hGlobals s h).all validId && okSs h.body

/-- hazard-free scripts (decidable, on the source tree): every name is an identifier, every string literal can stand between quotes -/
def okScript (s : Script) : Bool :=
  s.props.all validId && s.globals.all validId && (s.factory.isEmpty || validId s.factory) && s.handlers.all (okH s)

theorem handlerKw_safe (m : Bool) : safeTok (handlerKw m) = true := by cases m <;> decide

theorem prHandlerL_safe (L : Layout) (s : Script) (h : Handler) (hp : s.props.all validId = true) (hh : okH s h = true) :
    safeToks (prHandlerL L s h) = true := by
  simp only [okH, Bool.and_eq_true] at hh
  obtain ⟨⟨⟨h1, h2⟩, h3⟩, h4⟩ := hh
  have hn : safeTok (.id h.name) = true := by simpa [safeTok] using h1
  have he : safeTok (kw "end") = true := by decide
  have hi : safeTok (kw "instance") = true := by decide
  have hpre : safeToks (prPre L s h) = true := by
    unfold prPre
    have hgl : safeToks (globalLines (hGlobals s h) ++ (if hGlobals s h = [] then [] else nls L.afterHGlobals)) = true := by
      by_cases hg : hGlobals s h = []
      · rw [if_pos hg]; simp [safeToks_append, globalLines_safe _ h3, safeToks_nil]
      · rw [if_neg hg]; simp [safeToks_append, globalLines_safe _ h3, nls_safe]
    by_cases hc : h.isMethod = true ∧ lowerName h.name = "mnew".toList ∧ s.props ≠ []
    · rw [if_pos hc]
      simp [safeToks_append, safeToks_cons, hi, prNames_safe _ hp, safeTok_nl, safeTok_p, nls_safe, hgl]
    · rw [if_neg hc]; simpa using hgl
  simp [prHandlerL, safeToks_cons, safeToks_append, safeToks_nil, handlerKw_safe, hn, prNames_safe _ h2, safeTok_nl, safeTok_p, hpre, prSs_safe _ h4, he]

theorem prHandlersL_safe (L : Layout) (s : Script) (hp : s.props.all validId = true) :
    ∀ (hs : List Handler), hs.all (okH s) = true → safeToks (prHandlersL L s hs) = true
  | [], _ => rfl
  | h :: hs, hh => by
    have h2 : okH s h = true ∧ hs.all (okH s) = true := by simpa using hh
    have ih := prHandlersL_safe L s hp hs h2.2
    rw [prHandlersL_cons]
    cases hs with
    | nil => simp [afterHandler, safeToks_append, prHandlerL_safe L s h hp h2.1, safeToks_nil]
    | cons h3 hs3 => simp [afterHandler, safeToks_append, prHandlerL_safe L s h hp h2.1, nls_safe, ih]

/-- the printer's token lists are free of lexical hazards, in every layout -/
theorem printLingoL_safe (L : Layout) (s : Script) (h : okScript s = true) : safeToks (printLingoL L s) = true := by
  simp only [okScript, Bool.and_eq_true] at h
  obtain ⟨⟨⟨h1, h2⟩, h3⟩, h4⟩ := h
  have hprop : safeTok (kw "property") = true := by decide
  have hfac : safeTok (kw "factory") = true := by decide
  have hgl : safeToks (globalLines s.globals ++ (if s.globals = [] then [] else nls L.afterGlobals)) = true := by
    by_cases hg : s.globals = []
    · rw [if_pos hg]; simp [safeToks_append, globalLines_safe _ h2, safeToks_nil]
    · rw [if_neg hg]; simp [safeToks_append, globalLines_safe _ h2, nls_safe]
  have hhdr : safeToks (prHeaderL L s) = true := by
    unfold prHeaderL
    by_cases c1 : s.props ≠ [] ∧ s.factory = []
    · have c2 : ¬ s.factory ≠ [] := by simp [c1.2]
      rw [if_pos c1, if_neg c2]
      simp [safeToks_append, safeToks_cons, safeToks_nil, hprop, prNames_safe _ h1, safeTok_nl, safeTok_p, hgl]
    · rw [if_neg c1]
      by_cases c2 : s.factory ≠ []
      · rw [if_pos c2]
        have hf : safeTok (.id s.factory) = true := by
          have : s.factory.isEmpty = false := by simpa using c2
          simpa [safeTok, this] using h3
        simp [safeToks_append, safeToks_cons, hfac, hf, safeTok_nl, safeTok_p, nls_safe, hgl]
      · rw [if_neg c2]; simpa [safeToks_append] using hgl
  simp [printLingoL, safeToks_append, hhdr, prHandlersL_safe L s h1 _ h4]

/-! ### text -/

def printLingoTextL (L : Layout) (s : Script) : List Char := renderToks (printLingoL L s)

/-- **the text-level round trip**: printing a script to characters and reading the characters gives the script back -/
theorem rp_text (L : Layout) (s : Script) (hok : ScriptOk L s) (hs : okScript s = true) : readLingo (printLingoTextL L s) = some s := by
  unfold readLingo printLingoTextL
  rw [lex_render _ (printLingoL_safe L s hs)]
  exact rp_script L s hok

theorem rp_text_compact (s : Script) (hok : ScriptOk {} s) (hs : okScript s = true) : readLingo (printLingoText s) = some s := by
  have := rp_text {} s hok hs
  simpa [printLingoTextL, printLingoText, printLingoL_compact] using this

/-- the text gap alone: reading the printed text is parsing the printed tokens -/
theorem read_text_eq_parse (s : Script) (hs : okScript s = true) : readLingo (printLingoText s) = parseScript (printLingo s) := by
  unfold readLingo printLingoText
  rw [lex_render _ (by simpa [printLingoL_compact] using printLingoL_safe {} s hs)]
  rfl

end Drx.Spec
