/-
  Bounds on the counting twins of the bitmap decoders (support for C10).
-/
import Drx.BitdSteps
namespace Drx.Bitd
open Drx

@[simp] theorem Steps.add_ops (a b : Steps) : (a + b).ops = a.ops + b.ops := rfl
@[simp] theorem Steps.add_run (a b : Steps) : (a + b).run = a.run + b.run := rfl
@[simp] theorem Steps.add_runBits (a b : Steps) : (a + b).runBits = a.runBits + b.runBits := rfl
@[simp] theorem Steps.add_lit (a b : Steps) : (a + b).lit = a.lit + b.lit := rfl
@[simp] theorem Steps.add_litBits (a b : Steps) : (a + b).litBits = a.litBits + b.litBits := rfl
@[simp] theorem Steps.add_rows (a b : Steps) : (a + b).rows = a.rows + b.rows := rfl
@[simp] theorem Steps.add_cols (a b : Steps) : (a + b).cols = a.cols + b.cols := rfl
@[simp] theorem Steps.add_bits (a b : Steps) : (a + b).bits = a.bits + b.bits := rfl
@[simp] theorem Steps.add_deRows (a b : Steps) : (a + b).deRows = a.deRows + b.deRows := rfl
@[simp] theorem Steps.add_dePix (a b : Steps) : (a + b).dePix = a.dePix + b.dePix := rfl

/-- the rounds of a PackBits loop over `len` input bytes: at most one operation per byte, at most 129 paint rounds per
    operation, at most 8 bit rounds per paint round, and nothing else -/
def OpBound (s : Steps) (len : Nat) : Prop :=
  s.ops ≤ len ∧ s.run + s.lit ≤ 129 * s.ops ∧ s.runBits ≤ 8 * s.run ∧ s.litBits ≤ 8 * s.lit ∧
  s.rows = 0 ∧ s.cols = 0 ∧ s.bits = 0 ∧ s.deRows = 0 ∧ s.dePix = 0

theorem OpBound.zero (len : Nat) : OpBound {} len := by
  refine ⟨Nat.zero_le _, ?_, ?_, ?_, rfl, rfl, rfl, rfl, rfl⟩ <;> simp

theorem OpBound.mono {s : Steps} {a b : Nat} (h : OpBound s a) (hab : a ≤ b) : OpBound s b := by
  obtain ⟨h1, h2⟩ := h
  exact ⟨by omega, h2⟩

theorem OpBound.add {a b : Steps} {la lb : Nat} (ha : OpBound a la) (hb : OpBound b lb) : OpBound (a + b) (la + lb) := by
  obtain ⟨a1, a2, a3, a4, a5, a6, a7, a8, a9⟩ := ha
  obtain ⟨b1, b2, b3, b4, b5, b6, b7, b8, b9⟩ := hb
  refine ⟨?_, ?_, ?_, ?_, ?_, ?_, ?_, ?_, ?_⟩ <;> simp only [Steps.add_ops, Steps.add_run, Steps.add_lit, Steps.add_runBits,
    Steps.add_litBits, Steps.add_rows, Steps.add_cols, Steps.add_bits, Steps.add_deRows, Steps.add_dePix] <;> omega

/-- one RLE operation -/
theorem OpBound.runOp (k kb len : Nat) (hk : k ≤ 129) (hkb : kb ≤ 8 * k) (hl : 1 ≤ len) :
    OpBound { ops := 1, run := k, runBits := kb } len := by
  refine ⟨hl, ?_, hkb, ?_, rfl, rfl, rfl, rfl, rfl⟩ <;> simp <;> omega

theorem OpBound.litOp (k kb len : Nat) (hk : k ≤ 129) (hkb : kb ≤ 8 * k) (hl : 1 ≤ len) :
    OpBound { ops := 1, lit := k, litBits := kb } len := by
  refine ⟨hl, ?_, ?_, hkb, rfl, rfl, rfl, rfl, rfl⟩ <;> simp <;> omega

theorem OpBound.total {s : Steps} {len : Nat} (h : OpBound s len) : s.total ≤ 1162 * len := by
  obtain ⟨h1, h2, h3, h4, h5, h6, h7, h8, h9⟩ := h
  unfold Steps.total
  omega

/-! ### 8 bit -/

theorem paintRun8Steps_le (g : G8) (y : Nat) (v : UInt8) : ∀ (n : Nat) (data : Bytes) (x : Nat), paintRun8Steps g y v n data x ≤ n := by
  intro n
  induction n with
  | zero => intro data x; simp [paintRun8Steps]
  | succ n ih =>
    intro data x
    unfold paintRun8Steps
    split
    · omega
    · split
      · omega
      · rename_i _ d _; have := ih d (x + 1); omega

theorem paintLit8Steps_le (g : G8) (y : Nat) : ∀ (n : Nat) (rest data : Bytes) (x : Nat), paintLit8Steps g y n rest data x ≤ n := by
  intro n
  induction n with
  | zero => intro rest data x; simp [paintLit8Steps]
  | succ n ih =>
    intro rest data x
    unfold paintLit8Steps
    split
    · omega
    · split
      · omega
      · split
        · omega
        · rename_i _ r' _ d _; have := ih r' d (x + 1); omega

theorem byte_lt (v : UInt8) : v.toNat < 256 := UInt8.toNat_lt v

theorem loop8Steps_bound (g : G8) : ∀ (n : Nat) (rest data : Bytes) (x y : Nat), rest.length ≤ n →
    OpBound (loop8Steps g rest data x y) rest.length := by
  intro n
  induction n with
  | zero =>
    intro rest data x y h
    have : rest = [] := List.eq_nil_of_length_eq_zero (by omega)
    subst this
    rw [loop8Steps]; exact OpBound.zero _
  | succ n ih =>
    intro rest data x y h
    rw [loop8Steps.eq_def]
    cases rest with
    | nil => exact OpBound.zero _
    | cons val r1 =>
      simp only
      have hv := byte_lt val
      split
      · -- RLE
        cases r1 with
        | nil => simp only; exact OpBound.runOp 0 0 _ (by omega) (by omega) (by simp)
        | cons v r2 =>
          simp only
          have hk := paintRun8Steps_le g y v (257 - val.toNat) data x
          have h1 : OpBound { ops := 1, run := paintRun8Steps g y v (257 - val.toNat) data x } 2 :=
            OpBound.runOp _ 0 2 (by omega) (by omega) (by omega)
          have hlen : (val :: v :: r2).length = 2 + r2.length := by simp; omega
          rw [hlen]
          split
          · exact h1.mono (by omega)
          · split
            · split
              · exact h1.mono (by omega)
              · exact h1.add (ih r2 _ _ _ (by simp at h; omega))
            · exact h1.add (ih r2 _ _ _ (by simp at h; omega))
      · split
        · exact OpBound.runOp 0 0 _ (by omega) (by omega) (by simp)
        · have hk := paintLit8Steps_le g y (val.toNat + 1) r1 data x
          have h1 : OpBound { ops := 1, lit := paintLit8Steps g y (val.toNat + 1) r1 data x } 1 :=
            OpBound.litOp _ 0 1 (by omega) (by omega) (by omega)
          split
          · exact h1.mono (by simp)
          · rename_i d' x' r2 hp
            have hr2 := paintLit8_len _ _ _ _ _ _ _ _ _ hp
            have hlen : 1 + r2.length ≤ (val :: r1).length := by simp; omega
            split
            · split
              · exact h1.mono (by simp)
              · exact (h1.add (ih r2 _ _ _ (by simp at h; omega))).mono hlen
            · exact (h1.add (ih r2 _ _ _ (by simp at h; omega))).mono hlen

/-! ### 1 bit -/

theorem paintBits1Steps_le (g : G1) (y : Nat) (v : UInt8) : ∀ (k j : Nat) (data : Bytes) (x : Nat), paintBits1Steps g y v k j data x ≤ k := by
  intro k
  induction k with
  | zero => intro j data x; simp [paintBits1Steps]
  | succ k ih =>
    intro j data x
    unfold paintBits1Steps
    split
    · omega
    · split
      · omega
      · rename_i _ d _; have := ih (j + 1) d (x + 1); omega

theorem paintRun1Steps_le (g : G1) (y : Nat) (v : UInt8) : ∀ (n : Nat) (data : Bytes) (x : Nat),
    (paintRun1Steps g y v n data x).1 ≤ n ∧ (paintRun1Steps g y v n data x).2 ≤ 8 * (paintRun1Steps g y v n data x).1 := by
  intro n
  induction n with
  | zero => intro data x; simp [paintRun1Steps]
  | succ n ih =>
    intro data x
    unfold paintRun1Steps
    have hb := paintBits1Steps_le g y v 8 0 data x
    split
    · simp only; omega
    · rename_i d x' _
      have := ih d x'
      simp only; omega

theorem paintLit1Steps_le (g : G1) (y : Nat) : ∀ (n : Nat) (rest data : Bytes) (x : Nat),
    (paintLit1Steps g y n rest data x).1 ≤ n ∧ (paintLit1Steps g y n rest data x).2 ≤ 8 * (paintLit1Steps g y n rest data x).1 := by
  intro n
  induction n with
  | zero => intro rest data x; simp [paintLit1Steps]
  | succ n ih =>
    intro rest data x
    unfold paintLit1Steps
    cases rest with
    | nil => simp
    | cons v rest' =>
      simp only
      have hb := paintBits1Steps_le g y v 8 0 data x
      split
      · simp only; omega
      · rename_i d x' _
        have := ih rest' d x'
        simp only; omega

theorem loop1Steps_bound (g : G1) : ∀ (n : Nat) (rest data : Bytes) (x y : Nat), rest.length ≤ n →
    OpBound (loop1Steps g rest data x y) rest.length := by
  intro n
  induction n with
  | zero =>
    intro rest data x y h
    have : rest = [] := List.eq_nil_of_length_eq_zero (by omega)
    subst this
    rw [loop1Steps]; exact OpBound.zero _
  | succ n ih =>
    intro rest data x y h
    rw [loop1Steps.eq_def]
    cases rest with
    | nil => exact OpBound.zero _
    | cons val r1 =>
      simp only
      have hv := byte_lt val
      split
      · cases r1 with
        | nil => simp only; exact OpBound.runOp 0 0 _ (by omega) (by omega) (by simp)
        | cons v r2 =>
          simp only
          have hk := paintRun1Steps_le g y v (257 - val.toNat) data x
          have h1 : OpBound { ops := 1, run := (paintRun1Steps g y v (257 - val.toNat) data x).1,
                              runBits := (paintRun1Steps g y v (257 - val.toNat) data x).2 } 2 :=
            OpBound.runOp _ _ 2 (by omega) hk.2 (by omega)
          have hlen : (val :: v :: r2).length = 2 + r2.length := by simp; omega
          rw [hlen]
          split
          · exact h1.mono (by omega)
          · split
            · split
              · exact h1.mono (by omega)
              · exact h1.add (ih r2 _ _ _ (by simp at h; omega))
            · exact h1.add (ih r2 _ _ _ (by simp at h; omega))
      · split
        · exact OpBound.runOp 0 0 _ (by omega) (by omega) (by simp)
        · have hk := paintLit1Steps_le g y (val.toNat + 1) r1 data x
          have h1 : OpBound { ops := 1, lit := (paintLit1Steps g y (val.toNat + 1) r1 data x).1,
                              litBits := (paintLit1Steps g y (val.toNat + 1) r1 data x).2 } 1 :=
            OpBound.litOp _ _ 1 (by omega) hk.2 (by omega)
          split
          · exact h1.mono (by simp)
          · rename_i d' x' r2 hp
            have hr2 := paintLit1_len _ _ _ _ _ _ _ _ _ hp
            have hlen : 1 + r2.length ≤ (val :: r1).length := by simp; omega
            split
            · split
              · exact h1.mono (by simp)
              · exact (h1.add (ih r2 _ _ _ (by simp at h; omega))).mono hlen
            · exact (h1.add (ih r2 _ _ _ (by simp at h; omega))).mono hlen

/-! ### 16 and 24/32 bit -/

theorem paintRun16Steps_le (width : Nat) (y : Int) (v : UInt8) : ∀ (n : Nat) (data : Bytes) (x : Nat), paintRun16Steps width y v n data x ≤ n := by
  intro n
  induction n with
  | zero => intro data x; simp [paintRun16Steps]
  | succ n ih =>
    intro data x
    unfold paintRun16Steps
    split
    · omega
    · rename_i d _; have := ih d (x + 1); omega

theorem paintLit16Steps_le (width : Nat) : ∀ (n : Nat) (rest data : Bytes) (x : Nat) (y : Int), paintLit16Steps width n rest data x y ≤ n := by
  intro n
  induction n with
  | zero => intro rest data x y; simp [paintLit16Steps]
  | succ n ih =>
    intro rest data x y
    unfold paintLit16Steps
    split
    · omega
    · split
      · omega
      · rename_i r' _ d _
        split
        · have := ih r' d 0 (y - 1); omega
        · have := ih r' d (x + 1) y; omega

theorem loop16Steps_bound (width : Nat) : ∀ (n : Nat) (rest data : Bytes) (x : Nat) (y : Int), rest.length ≤ n →
    OpBound (loop16Steps width rest data x y) rest.length := by
  intro n
  induction n with
  | zero =>
    intro rest data x y h
    have : rest = [] := List.eq_nil_of_length_eq_zero (by omega)
    subst this
    rw [loop16Steps.eq_def]; split <;> exact OpBound.zero _
  | succ n ih =>
    intro rest data x y h
    rw [loop16Steps.eq_def]
    split
    · exact OpBound.zero _
    · cases rest with
      | nil => exact OpBound.zero _
      | cons val r1 =>
        simp only
        have hv := byte_lt val
        split
        · cases r1 with
          | nil => simp only; exact OpBound.runOp 0 0 _ (by omega) (by omega) (by simp)
          | cons v r2 =>
            simp only
            have hlen : (val :: v :: r2).length = 2 + r2.length := by simp; omega
            rw [hlen]
            have hk := paintRun16Steps_le width (jump16 width (257 - val.toNat) x y).2 v (257 - val.toNat) data (jump16 width (257 - val.toNat) x y).1
            have h1 : OpBound { ops := 1, run := paintRun16Steps width (jump16 width (257 - val.toNat) x y).2 v (257 - val.toNat) data (jump16 width (257 - val.toNat) x y).1 } 2 :=
              OpBound.runOp _ 0 2 (by omega) (by omega) (by omega)
            split
            · exact h1.mono (by omega)
            · exact h1.add (ih r2 _ _ _ (by simp at h; omega))
        · have hk := paintLit16Steps_le width (val.toNat + 1) r1 data (jump16 width (val.toNat + 1) x y).1 (jump16 width (val.toNat + 1) x y).2
          have h1 : OpBound { ops := 1, lit := paintLit16Steps width (val.toNat + 1) r1 data (jump16 width (val.toNat + 1) x y).1 (jump16 width (val.toNat + 1) x y).2 } 1 :=
            OpBound.litOp _ 0 1 (by omega) (by omega) (by omega)
          split
          · exact h1.mono (by simp)
          · rename_i d' x' y' r2 hp
            have hr2 := paintLit16_len _ _ _ _ _ _ _ _ _ _ hp
            have hlen : 1 + r2.length ≤ (val :: r1).length := by simp; omega
            exact (h1.add (ih r2 _ _ _ (by simp at h; omega))).mono hlen

theorem paintRun24Steps_le (width : Nat) (v : UInt8) : ∀ (n : Nat) (data : Bytes) (x : Nat) (y : Int), paintRun24Steps width v n data x y ≤ n := by
  intro n
  induction n with
  | zero => intro data x y; simp [paintRun24Steps]
  | succ n ih =>
    intro data x y
    unfold paintRun24Steps
    split
    · omega
    · rename_i d x' y' _; have := ih d x' y'; omega

theorem paintLit24Steps_le (width : Nat) : ∀ (n : Nat) (rest data : Bytes) (x : Nat) (y : Int), paintLit24Steps width n rest data x y ≤ n := by
  intro n
  induction n with
  | zero => intro rest data x y; simp [paintLit24Steps]
  | succ n ih =>
    intro rest data x y
    unfold paintLit24Steps
    split
    · omega
    · split
      · omega
      · rename_i r' _ d x' y' _; have := ih r' d x' y'; omega

theorem loop24Steps_bound (width : Nat) : ∀ (n : Nat) (rest data : Bytes) (x : Nat) (y : Int), rest.length ≤ n →
    OpBound (loop24Steps width rest data x y) rest.length := by
  intro n
  induction n with
  | zero =>
    intro rest data x y h
    have : rest = [] := List.eq_nil_of_length_eq_zero (by omega)
    subst this
    rw [loop24Steps.eq_def]; split <;> exact OpBound.zero _
  | succ n ih =>
    intro rest data x y h
    rw [loop24Steps.eq_def]
    split
    · exact OpBound.zero _
    · cases rest with
      | nil => exact OpBound.zero _
      | cons val r1 =>
        simp only
        have hv := byte_lt val
        split
        · cases r1 with
          | nil => simp only; exact OpBound.runOp 0 0 _ (by omega) (by omega) (by simp)
          | cons v r2 =>
            simp only
            have hlen : (val :: v :: r2).length = 2 + r2.length := by simp; omega
            rw [hlen]
            have hk := paintRun24Steps_le width v (257 - val.toNat) data x y
            have h1 : OpBound { ops := 1, run := paintRun24Steps width v (257 - val.toNat) data x y } 2 :=
              OpBound.runOp _ 0 2 (by omega) (by omega) (by omega)
            split
            · exact h1.mono (by omega)
            · exact h1.add (ih r2 _ _ _ (by simp at h; omega))
        · have hk := paintLit24Steps_le width (val.toNat + 1) r1 data x y
          have h1 : OpBound { ops := 1, lit := if val.toNat = 0 then 0 else paintLit24Steps width (val.toNat + 1) r1 data x y } 1 :=
            OpBound.litOp _ 0 1 (by split <;> omega) (by omega) (by omega)
          split
          · exact h1.mono (by simp)
          · rename_i d' x' y' r2 hp
            have hr2 := paintLit24_len _ _ _ _ _ _ _ _ _ _ hp
            have hlen : 1 + r2.length ≤ (val :: r1).length := by simp; omega
            exact (h1.add (ih r2 _ _ _ (by simp at h; omega))).mono hlen

/-! ### raw loops -/

/-- the rounds of a raw copy over at most `n` lines of `w` pixels -/
def RawBound (s : Steps) (n w : Nat) : Prop :=
  s.rows ≤ n ∧ s.cols ≤ n * w ∧ s.bits ≤ n * w ∧ s.ops = 0 ∧ s.run = 0 ∧ s.runBits = 0 ∧ s.lit = 0 ∧ s.litBits = 0 ∧ s.deRows = 0 ∧ s.dePix = 0

theorem RawBound.total {s : Steps} {n w : Nat} (h : RawBound s n w) : s.total ≤ n + 2 * (n * w) := by
  obtain ⟨h1, h2, h3, h4, h5, h6, h7, h8, h9, h10⟩ := h
  unfold Steps.total; omega

theorem copyRow8Steps_le (fdata : Bytes) : ∀ (n : Nat) (data : Bytes) (di idx : Nat), copyRow8Steps fdata n data di idx ≤ n := by
  intro n
  induction n with
  | zero => intro data di idx; simp [copyRow8Steps]
  | succ n ih =>
    intro data di idx
    unfold copyRow8Steps
    split
    · omega
    · split
      · omega
      · rename_i d _; have := ih d (di + 1) (idx + 1); omega

theorem rawLoop8Steps_bound (fdata : Bytes) (w wSize padW tail : Nat) : ∀ (n : Nat) (data : Bytes) (di : Nat),
    RawBound (rawLoop8Steps fdata w wSize padW tail n data di) n w := by
  intro n
  induction n with
  | zero => intro data di; simp [rawLoop8Steps, RawBound]
  | succ y ih =>
    intro data di
    unfold rawLoop8Steps
    have hk := copyRow8Steps_le fdata w data (di + padW) (y * wSize)
    have e : (y + 1) * w = y * w + w := by rw [Nat.add_mul]; omega
    split
    · refine ⟨?_, ?_, ?_, rfl, rfl, rfl, rfl, rfl, rfl, rfl⟩ <;> simp <;> omega
    · rename_i d di' _
      obtain ⟨a1, a2, a3, a4, a5, a6, a7, a8, a9, a10⟩ := ih d (di' + tail)
      refine ⟨?_, ?_, ?_, ?_, ?_, ?_, ?_, ?_, ?_, ?_⟩ <;> simp only [Steps.add_ops, Steps.add_run, Steps.add_lit, Steps.add_runBits,
        Steps.add_litBits, Steps.add_rows, Steps.add_cols, Steps.add_bits, Steps.add_deRows, Steps.add_dePix] <;> omega

theorem copyBits1Steps_le (fdata : Bytes) : ∀ (n j : Nat) (data : Bytes) (di idx : Nat),
    (copyBits1Steps fdata n j data di idx).2 ≤ n ∧ (copyBits1Steps fdata n j data di idx).1 ≤ (copyBits1Steps fdata n j data di idx).2 := by
  intro n
  induction n with
  | zero => intro j data di idx; simp [copyBits1Steps]
  | succ n ih =>
    intro j data di idx
    unfold copyBits1Steps
    have ho : (if j = 0 then 1 else 0) ≤ 1 := by split <;> omega
    generalize (if j = 0 then 1 else 0) = o at ho
    cases byteAt fdata idx with
    | error e => simp only; omega
    | ok v =>
      simp only
      cases setAt data di (bitOf v j) with
      | error e => simp only; omega
      | ok d =>
        simp only
        by_cases h7 : j = 7
        · simp only [h7, if_true]
          have := ih 0 d (di + 1) (idx + 1); omega
        · simp only [h7, if_false]
          have := ih (j + 1) d (di + 1) idx; omega

theorem rawLoop1Steps_bound (fdata : Bytes) (w wSize padW tail : Nat) : ∀ (n : Nat) (data : Bytes) (di : Nat),
    RawBound (rawLoop1Steps fdata w wSize padW tail n data di) n w := by
  intro n
  induction n with
  | zero => intro data di; simp [rawLoop1Steps, RawBound]
  | succ y ih =>
    intro data di
    unfold rawLoop1Steps
    have hk := copyBits1Steps_le fdata w 0 data (di + padW) (y * wSize)
    have e : (y + 1) * w = y * w + w := by rw [Nat.add_mul]; omega
    split
    · refine ⟨?_, ?_, ?_, rfl, rfl, rfl, rfl, rfl, rfl, rfl⟩ <;> simp <;> omega
    · rename_i d di' _
      obtain ⟨a1, a2, a3, a4, a5, a6, a7, a8, a9, a10⟩ := ih d (di' + tail)
      refine ⟨?_, ?_, ?_, ?_, ?_, ?_, ?_, ?_, ?_, ?_⟩ <;> simp only [Steps.add_ops, Steps.add_run, Steps.add_lit, Steps.add_runBits,
        Steps.add_litBits, Steps.add_rows, Steps.add_cols, Steps.add_bits, Steps.add_deRows, Steps.add_dePix] <;> omega

/-! ### whole decodes -/

/-- rows the request declares (the height, plus the amount of a negative top offset) -/
def declaredRows (c : Call) : Nat := (fixPad c.height c.padH).1

theorem fixPad_le (h : Nat) (p : Int) : (fixPad h p).1 - (fixPad h p).2 ≤ (fixPad h p).1 := Nat.sub_le _ _

theorem total_zero : ({} : Steps).total = 0 := rfl

theorem total_add (a b : Steps) : (a + b).total = a.total + b.total := by
  simp only [Steps.total, Steps.add_ops, Steps.add_run, Steps.add_lit, Steps.add_runBits,
    Steps.add_litBits, Steps.add_rows, Steps.add_cols, Steps.add_bits, Steps.add_deRows, Steps.add_dePix]
  omega

theorem raw_total_le {s : Steps} {n w H W : Nat} (h : RawBound s n w) (hn : n ≤ H) (hw : w ≤ W) : s.total ≤ 2 * (H * (W + 1)) := by
  have h1 := h.total
  have h2 : n * w ≤ H * W := Nat.mul_le_mul hn hw
  have h3 : H * (W + 1) = H * W + H := by rw [Nat.mul_succ]
  omega

theorem decode8Steps_bound (c : Call) :
    (decode8Steps c).total ≤ 1162 * c.fdata.length + 2 * (declaredRows c * (c.width + 1)) := by
  unfold decode8Steps declaredRows
  rcases hfp : fixPad c.height c.padH with ⟨H, padH⟩
  simp only
  split
  · rw [total_zero]; omega
  · split
    · simp only [raw8Steps]
      have hb := rawLoop8Steps_bound c.fdata ((c.width : Int) - c.padW).toNat
        ((((c.width : Int) - c.padW) + ((c.width : Int) - c.padW) % 2)).toNat c.padW
        (((stride4 c.width : Nat) : Int) - ((c.width : Int) - c.padW) - c.padW).toNat (H - padH) (zeros (stride4 c.width * H)) 0
      have := raw_total_le hb (Nat.sub_le H padH) (by omega : ((c.width : Int) - c.padW).toNat ≤ c.width)
      omega
    · unfold compressed8Steps
      simp only
      split
      · rw [total_zero]; omega
      · have := (loop8Steps_bound (g8 c.width c.padW (stride4 c.width)) c.fdata.length c.fdata
          (zeros ((g8 c.width c.padW (stride4 c.width)).bw * H)) 0 (H - 1 - padH) (Nat.le_refl _)).total
        omega

theorem decode1Steps_bound (c : Call) :
    (decode1Steps c).total ≤ 1162 * c.fdata.length + 2 * (declaredRows c * (c.width + 1)) := by
  unfold decode1Steps declaredRows
  rcases hfp : fixPad c.height c.padH with ⟨H, padH⟩
  simp only
  split
  · rw [total_zero]; omega
  · split
    · simp only [raw1Steps]
      have hb := rawLoop1Steps_bound c.fdata ((c.width : Int) - c.padW).toNat
        (wSize1 ((c.width : Int) - c.padW)).toNat c.padW
        (((stride4 c.width : Nat) : Int) - ((c.width : Int) - c.padW) - c.padW).toNat (H - padH) (zeros (stride4 c.width * H)) 0
      have := raw_total_le hb (Nat.sub_le H padH) (by omega : ((c.width : Int) - c.padW).toNat ≤ c.width)
      omega
    · unfold compressed1Steps
      simp only
      split
      · rw [total_zero]; omega
      · have := (loop1Steps_bound (g1 c.width c.padW (stride4 c.width)) c.fdata.length c.fdata
          (zeros (stride4 c.width * H)) 0 (H - 1 - padH) (Nat.le_refl _)).total
        omega

theorem de_total (h w : Nat) : ({ deRows := h, dePix := h * w } : Steps).total = h + h * w := by
  simp [Steps.total]

theorem decode16Steps_bound (c : Call) :
    (decode16Steps c).total ≤ 1162 * c.fdata.length + 2 * (declaredRows c * (c.width + 1)) := by
  unfold decode16Steps declaredRows
  rcases hfp : fixPad c.height c.padH with ⟨H, padH⟩
  simp only
  split
  · rw [total_zero]; omega
  · split
    · rw [total_zero]; omega
    · unfold compressed16Steps
      simp only
      have hl := (loop16Steps_bound (2 * (c.width - c.padW)) c.fdata.length c.fdata
        (zeros (2 * (c.width - c.padW) * (H - padH))) 0 (((H - padH : Nat) : Int) - 1) (Nat.le_refl _)).total
      have h2 : (H - padH) * (c.width - c.padW) ≤ H * c.width := Nat.mul_le_mul (Nat.sub_le _ _) (Nat.sub_le _ _)
      have h3 : H * (c.width + 1) = H * c.width + H := by rw [Nat.mul_succ]
      have h4 : H - padH ≤ H := Nat.sub_le _ _
      split
      · omega
      · rw [total_add, de_total]; omega

theorem decode24Steps_bound (c : Call) :
    (decode24Steps c).total ≤ 1162 * c.fdata.length + 2 * (declaredRows c * (c.width + 1)) := by
  unfold decode24Steps declaredRows
  rcases hfp : fixPad c.height c.padH with ⟨H, padH⟩
  simp only
  split
  · rw [total_zero]; omega
  · split
    · rw [total_zero]; omega
    · unfold compressed24Steps
      simp only
      have hl := (loop24Steps_bound (4 * (c.width - c.padW)) c.fdata.length c.fdata
        (zeros (4 * (c.width - c.padW) * (H - padH))) 0 (((H - padH : Nat) : Int) - 1) (Nat.le_refl _)).total
      have h2 : (H - padH) * (c.width - c.padW) ≤ H * c.width := Nat.mul_le_mul (Nat.sub_le _ _) (Nat.sub_le _ _)
      have h3 : H * (c.width + 1) = H * c.width + H := by rw [Nat.mul_succ]
      have h4 : H - padH ≤ H := Nat.sub_le _ _
      split
      · omega
      · rw [total_add, de_total]; omega

theorem bitd2bmpSteps_bound (c : Call) :
    (bitd2bmpSteps c).total ≤ 1162 * c.fdata.length + 2 * (declaredRows c * (c.width + 1)) := by
  unfold bitd2bmpSteps
  split
  · rw [total_zero]; omega
  · rename_i cls _
    unfold decodeClassSteps
    split
    · exact decode1Steps_bound { c with palette := paletteName c }
    split
    · exact decode8Steps_bound { c with palette := paletteName c }
    split
    · exact decode16Steps_bound { c with palette := paletteName c }
    split
    · exact decode24Steps_bound { c with palette := paletteName c }
    · rw [total_zero]; omega

theorem stride4_le (W : Nat) : stride4 W ≤ W + 3 := by unfold stride4; split <;> omega

theorem allocBytes_bound (c : Call) : allocBytes c ≤ 7 * (declaredRows c * (c.width + 1)) := by
  unfold allocBytes declaredRows
  rcases hfp : fixPad c.height c.padH with ⟨H, padH⟩
  simp only
  have h3 : H * (c.width + 1) = H * c.width + H := by rw [Nat.mul_succ]
  have hs := stride4_le c.width
  have h2 : (c.width - c.padW) * (H - padH) ≤ c.width * H := Nat.mul_le_mul (Nat.sub_le _ _) (Nat.sub_le _ _)
  have hc : c.width * H = H * c.width := Nat.mul_comm _ _
  split
  · have h8 : (stride4 c.width + 4) * H ≤ (c.width + 7) * H := Nat.mul_le_mul_right _ (by omega)
    have e1 : (c.width + 7) * H = c.width * H + 7 * H := Nat.add_mul _ _ _
    omega
  · have h8 : stride4 c.width * H ≤ (c.width + 3) * H := Nat.mul_le_mul_right _ hs
    have e1 : (c.width + 3) * H = c.width * H + 3 * H := Nat.add_mul _ _ _
    omega
  · have h8 : (2 * c.width + (2 * c.width) % 4) * H ≤ (2 * c.width + 2) * H := Nat.mul_le_mul_right _ (by omega)
    have e1 : (2 * c.width + 2) * H = 2 * (c.width * H) + 2 * H := by rw [Nat.add_mul, Nat.mul_assoc]
    have e2 : 2 * (c.width - c.padW) * (H - padH) = 2 * ((c.width - c.padW) * (H - padH)) := Nat.mul_assoc _ _ _
    omega
  · have h8 : (3 * c.width + (4 - (3 * c.width) % 4) % 4) * H ≤ (3 * c.width + 3) * H := Nat.mul_le_mul_right _ (by omega)
    have e1 : (3 * c.width + 3) * H = 3 * (c.width * H) + 3 * H := by rw [Nat.add_mul, Nat.mul_assoc]
    have e2 : 4 * (c.width - c.padW) * (H - padH) = 4 * ((c.width - c.padW) * (H - padH)) := Nat.mul_assoc _ _ _
    omega
  · omega

end Drx.Bitd
