/-
  Helper lemmas for property C15 (cast-member records).
-/
import Drx.Cast
import Drx.CastSpec
import DrxProofs.Py
import Drx.Layout
import Drx.Gen.CastLayouts
namespace Drx.Cast
open Drx

/-! ### the field engine -/

@[simp] theorem encField_length (k : FK) (v : Int) : (encField k v).length = k.size := by
  cases k <;> simp [encField, FK.size]

theorem encFields_length (fs : List (FK × Int)) : (encFields fs).length = (fs.map fun f => f.1.size).sum := by
  induction fs with
  | nil => rfl
  | cons f fs ih => obtain ⟨k, v⟩ := f; simp [encFields, ih]

theorem encFields_append (a b : List (FK × Int)) : encFields (a ++ b) = encFields a ++ encFields b := by
  induction a with
  | nil => rfl
  | cons f fs ih => obtain ⟨k, v⟩ := f; simp [encFields, ih]

theorem byteAt_mid (pre post : Bytes) (b : UInt8) : byteAt (pre ++ (b :: post)) pre.length = .ok b := by
  simp [byteAt]

/-- one read of an encoded field, whatever precedes and follows it -/
theorem readField_enc (k : FK) (v : Int) (pre post : Bytes) (h : k.inRange v) :
    readField k (pre ++ (encField k v ++ post)) pre.length = .ok v := by
  cases k with
  | u8 =>
    obtain ⟨h0, h1⟩ := h
    simp only [readField, encField, List.singleton_append, byteAt_mid]
    have : (UInt8.ofNat v.toNat).toNat = v.toNat := by
      simp [UInt8.toNat_ofNat']; omega
    rw [this]; congr 1; omega
  | s16 =>
    obtain ⟨h0, h1⟩ := h
    simp only [readField, encField, getS]
    rw [slice_at' pre (encS .be 2 v) post pre.length (pre.length + 2) rfl (by simp)]
    exact unpackS_encS .be 2 (by decide) v (by simpa using h0) (by simpa using h1)
  | s32 =>
    obtain ⟨h0, h1⟩ := h
    simp only [readField, encField, getS]
    rw [slice_at' pre (encS .be 4 v) post pre.length (pre.length + 4) rfl (by simp)]
    exact unpackS_encS .be 4 (by decide) v (by simpa using h0) (by simpa using h1)
  | u32 =>
    obtain ⟨h0, h1⟩ := h
    simp only [readField, encField, getU]
    rw [slice_at' pre (encOrd .be 4 v.toNat) post pre.length (pre.length + 4) rfl (by simp)]
    rw [unpackU_encOrd .be 4 v.toNat (by omega)]
    simp only [Except.ok.injEq]; omega

/-- a run of reads over a run of encoded fields -/
theorem readFields_enc (fs : List (FK × Int)) (pre post : Bytes) (h : fieldsOK fs) :
    readFields (fs.map Prod.fst) (pre ++ (encFields fs ++ post)) pre.length = .ok (fs.map Prod.snd) := by
  induction fs generalizing pre with
  | nil => rfl
  | cons f fs ih =>
    obtain ⟨k, v⟩ := f
    have hk : k.inRange v := h (k, v) (by simp)
    have hfs : fieldsOK fs := fun f hf => h f (by simp [hf])
    simp only [List.map_cons, readFields, encFields, List.append_assoc]
    rw [readField_enc k v pre _ hk]
    have e : pre ++ (encField k v ++ (encFields fs ++ post)) = (pre ++ encField k v) ++ (encFields fs ++ post) := by simp
    have l : pre.length + k.size = (pre ++ encField k v).length := by simp
    rw [e, l, ih (pre ++ encField k v) hfs]

theorem readFields_enc0 (fs : List (FK × Int)) (post : Bytes) (h : fieldsOK fs) :
    readFields (fs.map Prod.fst) (encFields fs ++ post) 0 = .ok (fs.map Prod.snd) := by
  have := readFields_enc fs [] post h
  simpa using this

theorem readN_eq (k : FK) (n : Nat) (d : Bytes) (off : Nat) : readN k n d off = readFields (List.replicate n k) d off := by
  induction n generalizing off with
  | zero => rfl
  | succ n ih => simp only [readN, List.replicate_succ, readFields, ih]

theorem map_fst_pair (k : FK) (vs : List Int) : (vs.map fun v => (k, v)).map Prod.fst = List.replicate vs.length k := by
  induction vs with
  | nil => rfl
  | cons v vs ih => simp [List.replicate_succ, ih]

theorem map_snd_pair (k : FK) (vs : List Int) : (vs.map fun v => (k, v)).map Prod.snd = vs := by
  induction vs with
  | nil => rfl
  | cons v vs ih => simp [ih]

/-- `n` reads of one kind over `n` encoded values -/
theorem readN_enc (k : FK) (vs : List Int) (pre post : Bytes) (h : ∀ v ∈ vs, k.inRange v) :
    readN k vs.length (pre ++ (encFields (vs.map fun v => (k, v)) ++ post)) pre.length = .ok vs := by
  rw [readN_eq]
  have := readFields_enc (vs.map fun v => (k, v)) pre post (by
    intro f hf
    obtain ⟨v, hv, rfl⟩ := List.mem_map.mp hf
    exact h v hv)
  rw [map_fst_pair, map_snd_pair] at this
  exact this

/-! ### the small name/flag functions: model = specification -/

theorem lookupOrStr_eq (t : List (Int × String)) (v : Int) : lookupOrStr t v = nameFrom t v := by
  unfold lookupOrStr nameFrom Pal.pyStrInt
  cases t.lookup v <;> rfl

theorem boxTypeName_eq (v : Int) : boxTypeName v = boxTypeView v := by
  unfold boxTypeName boxTypeView Pal.pyStrInt
  by_cases h0 : v = 0 <;> by_cases h1 : v = 1 <;> by_cases h2 : v = 2 <;> by_cases h3 : v = 3 <;> simp_all

theorem alignmentJ_eq (v : Int) : alignmentJ v = alignmentView v := rfl

theorem buttonTypeJ_eq (v : Int) : buttonTypeJ v = buttonTypeView v := rfl

theorem bppOfCode_eq (v : Int) : bppOfCode v = depthOfCode v := by
  unfold bppOfCode depthOfCode
  by_cases h0 : v = 0x80 <;> by_cases h1 : v = 0x81 <;> by_cases h2 : v = 0x82 <;> by_cases h3 : v = 0x84 <;>
    by_cases h4 : v = 0x85 <;> by_cases h5 : v = 0x8A <;> by_cases h6 : v = 0 <;> simp_all

/-! ### per-type readers on encoded headers -/

theorem parseShape_enc (f : ShapeF) (post : Bytes) (bd2 : Int) (h : fieldsOK (Body.shape f).fields) :
    parseShape (encFields (Body.shape f).fields ++ post) = .ok (viewBody (.shape f) bd2) := by
  unfold parseShape
  have e : shapeKinds = (Body.shape f).fields.map Prod.fst := rfl
  rw [e, readFields_enc0 _ _ h]
  simp [Body.fields, viewBody, lookupOrStr_eq, bind, Except.bind]

theorem parseTransition_enc (f : TransF) (post : Bytes) (bd2 : Int) (h : fieldsOK (Body.transition f).fields) :
    parseTransition (encFields (Body.transition f).fields ++ post) = .ok (viewBody (.transition f) bd2) := by
  unfold parseTransition
  have e : transitionKinds = (Body.transition f).fields.map Prod.fst := rfl
  rw [e, readFields_enc0 _ _ h]
  simp [Body.fields, viewBody, lookupOrStr_eq, bind, Except.bind]

theorem parseButton_enc (f : ButtonF) (post : Bytes) (bd2 : Int) (h : fieldsOK (Body.button f).fields) :
    parseButton (encFields (Body.button f).fields ++ post) = .ok (viewBody (.button f) bd2) := by
  unfold parseButton
  have e : buttonKinds = (Body.button f).fields.map Prod.fst := rfl
  rw [e, readFields_enc0 _ _ h]
  simp [Body.fields, viewBody, alignmentJ_eq, buttonTypeJ_eq, bind, Except.bind]

theorem parseText_enc (f : TextF) (post : Bytes) (bd2 : Int) (h : fieldsOK (Body.richText f).fields) :
    parseText (encFields (Body.richText f).fields ++ post) = .ok (viewBody (.richText f) bd2) := by
  unfold parseText
  have e : textKinds = (Body.richText f).fields.map Prod.fst := rfl
  rw [e, readFields_enc0 _ _ h]
  have hm : (if f.threshold < 0 then 0 else f.threshold) = max f.threshold 0 := by
    by_cases h : f.threshold < 0
    · simp [h]; omega
    · simp [h]; omega
  simp [Body.fields, viewBody, boxTypeName_eq, hm, bind, Except.bind]

theorem bit_eq (v : Int) (k : Nat) : bit v k = decide (v.toNat / 2 ^ k % 2 = 1) := rfl

theorem parseTextInput_enc (f : FieldF) (post : Bytes) (bd2 : Int) (h : fieldsOK (Body.field f).fields) :
    parseTextInput (encFields (Body.field f).fields ++ post) = .ok (viewBody (.field f) bd2) := by
  unfold parseTextInput
  have e : textInputKinds = (Body.field f).fields.map Prod.fst := rfl
  rw [e, readFields_enc0 _ _ h]
  have h2 : decide (f.options.toNat / 4 % 2 = 0) = !bit f.options 2 := by
    simp only [bit_eq]
    have : f.options.toNat / 4 % 2 = 0 ∨ f.options.toNat / 4 % 2 = 1 := by omega
    rcases this with h | h <;> simp [h]
  have h0 : decide (f.options.toNat % 2 = 1) = bit f.options 0 := by simp [bit_eq]
  have h1 : decide (f.options.toNat / 2 % 2 = 1) = bit f.options 1 := by simp [bit_eq]
  simp [Body.fields, viewBody, boxTypeName_eq, alignmentJ_eq, h0, h1, h2, jB, bind, Except.bind]

theorem bitmap_fixed_length (f : BitmapF) : (encFields (Body.bitmap f).fields).length = 23 := by
  simp [encFields_length, Body.fields, FK.size]

/-- bitmap header: fixed part, optional tail, pad -/
theorem parseImage_enc (f : BitmapF) (pad : Bytes) (bd2 : Int) (h : fieldsOK (Body.bitmap f).fields)
    (ht : fieldsOK (Body.bitmap f).tailFields) (hp : f.tail = none → pad.length ≤ 1) :
    parseImage (encFields (Body.bitmap f).fields ++ encFields (Body.bitmap f).tailFields ++ pad)
      = .ok (viewBody (.bitmap f) bd2) := by
  unfold parseImage
  have e : imageKinds = (Body.bitmap f).fields.map Prod.fst := rfl
  rw [List.append_assoc, e, readFields_enc0 _ _ h]
  have hl := bitmap_fixed_length f
  cases htail : f.tail with
  | none =>
    have hlen : ¬ ((encFields (Body.bitmap f).fields ++ (encFields (Body.bitmap f).tailFields ++ pad)).length > 24) := by
      have := hp htail
      simp [Body.tailFields, htail, encFields, hl]; omega
    simp only [hlen, if_false]
    simp [Body.fields, viewBody, htail, bppOfCode_eq, bind, Except.bind]
  | some dp =>
    obtain ⟨d, p⟩ := dp
    have hd : FK.inRange .s16 d := ht (.s16, d) (by simp [Body.tailFields, htail])
    have hpp : FK.inRange .s16 p := ht (.s16, p) (by simp [Body.tailFields, htail])
    have etail : encFields (Body.bitmap f).tailFields = encField .s16 d ++ encField .s16 p := by
      simp [Body.tailFields, htail, encFields]
    have hlen : (encFields (Body.bitmap f).fields ++ (encFields (Body.bitmap f).tailFields ++ pad)).length > 24 := by
      simp [etail, hl, FK.size]; omega
    simp only [hlen, if_true]
    have r1 : getS .be 2 (encFields (Body.bitmap f).fields ++ (encFields (Body.bitmap f).tailFields ++ pad)) 23 = .ok d := by
      have := readField_enc .s16 d (encFields (Body.bitmap f).fields) (encField .s16 p ++ pad) hd
      rw [hl] at this
      rw [etail, List.append_assoc]
      exact this
    have r2 : getS .be 2 (encFields (Body.bitmap f).fields ++ (encFields (Body.bitmap f).tailFields ++ pad)) 25 = .ok p := by
      have := readField_enc .s16 p (encFields (Body.bitmap f).fields ++ encField .s16 d) pad hpp
      have hl2 : (encFields (Body.bitmap f).fields ++ encField .s16 d).length = 25 := by simp [hl, FK.size]
      rw [hl2] at this
      rw [etail]
      simpa [List.append_assoc, readField] using this
    simp only [r1, r2]
    simp [Body.fields, viewBody, htail, bppOfCode_eq, Pal.pyStrInt, bind, Except.bind]
    by_cases hgt : d > depthOfCode f.code
    · have : max (depthOfCode f.code) d = d := by omega
      simp [hgt, this]
    · have : max (depthOfCode f.code) d = depthOfCode f.code := by omega
      simp [hgt, this]

/-! ### the info block -/

theorem offsetsFrom_length (base : Nat) (ex : List Bytes) : (offsetsFrom base ex).length = ex.length + 1 := by
  induction ex generalizing base with
  | nil => rfl
  | cons e es ih => simp [offsetsFrom, ih]

theorem offsetsFrom_cons2 (base : Nat) (e : Bytes) (es : List Bytes) :
    ∃ rest, offsetsFrom base (e :: es) = (base : Int) :: ((base + e.length : Nat) : Int) :: rest ∧
      offsetsFrom (base + e.length) es = ((base + e.length : Nat) : Int) :: rest := by
  cases es with
  | nil => exact ⟨[], rfl, rfl⟩
  | cons e' es' => exact ⟨offsetsFrom (base + e.length + e'.length) es', rfl, rfl⟩

theorem offsetsFrom_bounds (base : Nat) (ex : List Bytes) :
    ∀ o ∈ offsetsFrom base ex, (base : Int) ≤ o ∧ o ≤ ((base + ex.flatten.length : Nat) : Int) := by
  induction ex generalizing base with
  | nil => intro o ho; simp [offsetsFrom] at ho; subst ho; simp
  | cons e es ih =>
    intro o ho
    simp only [offsetsFrom, List.mem_cons] at ho
    rcases ho with rfl | ho
    · refine ⟨Int.le_refl _, ?_⟩
      simp only [List.flatten_cons, List.length_append]
      omega
    · have := ih (base + e.length) o ho
      simp only [List.flatten_cons, List.length_append]
      omega

/-- the structure loop recovers exactly the structures that were laid out, empty ones included -/
theorem collectExtras_enc (ex : List Bytes) (base : Nat) (pre post : Bytes) :
    collectExtras (pre ++ (ex.flatten ++ post)) (offsetsFrom base ex) pre.length = ex := by
  induction ex generalizing base pre with
  | nil => simp [offsetsFrom, collectExtras]
  | cons e es ih =>
    obtain ⟨rest, h1, h2⟩ := offsetsFrom_cons2 base e es
    rw [h1]
    simp only [collectExtras]
    have hst : ((base + e.length : Nat) : Int) - (base : Int) = (e.length : Int) := by omega
    rw [hst, ← h2]
    cases e with
    | nil =>
      simp only [List.length_nil, Int.natCast_zero, Int.lt_irrefl, gt_iff_lt, if_false, List.flatten_cons, List.nil_append]
      rw [ih (base + 0) pre]
    | cons x xs =>
      have hpos : (((x :: xs).length : Int) > 0) := by simp
      simp only [hpos, if_true, Int.toNat_natCast, List.flatten_cons, List.append_assoc]
      rw [slice_at' pre (x :: xs) (es.flatten ++ post) pre.length (pre.length + (x :: xs).length) rfl rfl]
      have e2 : pre ++ ((x :: xs) ++ (es.flatten ++ post)) = (pre ++ (x :: xs)) ++ (es.flatten ++ post) := by simp
      have l2 : pre.length + (x :: xs).length = (pre ++ (x :: xs)).length := by simp
      rw [e2, l2, ih (base + (x :: xs).length) (pre ++ (x :: xs))]

theorem memberName_eq (codec : Codec) (ex : List Bytes) : memberName codec ex = nameView codec ex := by
  cases ex with
  | nil => rfl
  | cons a t =>
    cases t with
    | nil => rfl
    | cons b t2 =>
      cases b with
      | nil => rfl
      | cons n cs =>
        have : slice (n :: cs) 1 (n.toNat + 1) = cs.take n.toNat := by simp [slice]
        simp only [memberName, nameView, this]
        cases decodeText codec (cs.take n.toNat) <;> rfl

theorem purgeName_eq (bd2 : Int) (h4 : Gen.CastTables.purgePriority.length = 4) : purgeName bd2 = .ok (purgeView bd2) := by
  unfold purgeName purgeView
  have hlt : ((bd2 / 4) % 4).toNat < Gen.CastTables.purgePriority.length := by rw [h4]; omega
  rw [List.getElem?_eq_getElem hlt]
  simp [List.getD, List.getElem?_eq_getElem hlt]

theorem readField_in (fs1 fs2 : List (FK × Int)) (k : FK) (v : Int) (post : Bytes) (h : k.inRange v) :
    readField k (encFields (fs1 ++ (k, v) :: fs2) ++ post) (encFields fs1).length = .ok v := by
  rw [encFields_append]
  simp only [encFields, List.append_assoc]
  exact readField_enc k v (encFields fs1) _ h

theorem encFields_pairs_length (k : FK) (vs : List Int) : (encFields (vs.map fun v => (k, v))).length = k.size * vs.length := by
  induction vs with
  | nil => simp [encFields]
  | cons v vs ih => simp [encFields, ih, Nat.mul_succ]; omega

theorem viewContent_some (codec : Codec) (i : Info) :
    viewContent codec (some i) =
      if i.extras = [] then .ok (.basic ⟨i.scriptKey, i.bd1, i.bd2, purgeView i.bd2, i.scriptIndex⟩)
      else (nameView codec i.extras).map fun n => .full ⟨i.scriptKey, i.bd1, i.bd2, purgeView i.bd2, i.scriptIndex⟩ i.extras n := rfl

/-- the info block of any valid member decodes to its view -/
theorem parseBasic_enc (codec : Codec) (i : Info) (hv : i.valid) (h4 : Gen.CastTables.purgePriority.length = 4) :
    parseBasic codec (encInfo i) = viewContent codec (some i) := by
  obtain ⟨hA, hU, hn, hns, hx⟩ := hv
  let ns : Int := 0x14 + 4 * (i.unknowns.length : Int)
  let A : List (FK × Int) := [(.s32, ns), (.u32, i.scriptKey), (.s32, i.bd1), (.s32, i.bd2), (.s32, i.scriptIndex)]
  let U := i.unknowns.map fun u => (FK.s32, u)
  let O := (offsetsFrom 0 i.extras).map fun o => (FK.s32, o)
  let n : Int := (i.extras.length : Int)
  have hb : encInfo i = encFields A ++ (encFields U ++ (encField .s16 n ++ (encFields O ++ (i.extras.flatten ++ [])))) := by
    simp [encInfo, encFields, A, U, O, n, ns, List.append_assoc]
  have hsk : FK.inRange .u32 i.scriptKey := hA (.u32, i.scriptKey) (by simp)
  have hbd1 : FK.inRange .s32 i.bd1 := hA (.s32, i.bd1) (by simp)
  have hbd2 : FK.inRange .s32 i.bd2 := hA (.s32, i.bd2) (by simp)
  have hsi : FK.inRange .s32 i.scriptIndex := hA (.s32, i.scriptIndex) (by simp)
  have hnsr : FK.inRange .s32 ns := by simp only [FK.inRange, ns]; omega
  have hnr : FK.inRange .s16 n := by simp only [FK.inRange, n]; omega
  generalize hR : (encFields U ++ (encField .s16 n ++ (encFields O ++ (i.extras.flatten ++ [])))) = R at hb
  have r0 : getS .be 4 (encFields A ++ R) 0 = .ok ns := readField_in [] _ .s32 ns R hnsr
  have r1 : readField .u32 (encFields A ++ R) 4 = .ok i.scriptKey := by
    have := readField_in [(.s32, ns)] [(.s32, i.bd1), (.s32, i.bd2), (.s32, i.scriptIndex)] .u32 i.scriptKey R hsk
    simpa [encFields, FK.size, A] using this
  have r2 : getS .be 4 (encFields A ++ R) 8 = .ok i.bd1 := by
    have := readField_in [(.s32, ns), (.u32, i.scriptKey)] [(.s32, i.bd2), (.s32, i.scriptIndex)] .s32 i.bd1 R hbd1
    simpa [encFields, readField, FK.size, A] using this
  have r3 : getS .be 4 (encFields A ++ R) 12 = .ok i.bd2 := by
    have := readField_in [(.s32, ns), (.u32, i.scriptKey), (.s32, i.bd1)] [(.s32, i.scriptIndex)] .s32 i.bd2 R hbd2
    simpa [encFields, readField, FK.size, A] using this
  have r4 : getS .be 4 (encFields A ++ R) 16 = .ok i.scriptIndex := by
    have := readField_in [(.s32, ns), (.u32, i.scriptKey), (.s32, i.bd1), (.s32, i.bd2)] [] .s32 i.scriptIndex R hsi
    simpa [encFields, readField, FK.size, A] using this
  have lA : (encFields A).length = 20 := by simp [A, encFields, FK.size]
  have lU : (encFields U).length = 4 * i.unknowns.length := by simp [U, encFields_pairs_length, FK.size]
  have hne : (encFields A ++ R).length ≠ 0 := by simp [lA]
  have hnel : ((ns - 0x14) / 4).toNat = i.unknowns.length := by simp only [ns]; omega
  have r5 : readN .s32 i.unknowns.length (encFields A ++ R) 20 = .ok i.unknowns := by
    have := readN_enc .s32 i.unknowns (encFields A) (encField .s16 n ++ (encFields O ++ (i.extras.flatten ++ []))) hU
    rw [lA] at this
    rw [← hR]; exact this
  have r6 : getS .be 2 (encFields A ++ R) (20 + 4 * i.unknowns.length) = .ok n := by
    have := readField_enc .s16 n (encFields A ++ encFields U) (encFields O ++ (i.extras.flatten ++ [])) hnr
    have l : (encFields A ++ encFields U).length = 20 + 4 * i.unknowns.length := by simp [lA, lU]
    rw [l] at this
    rw [← hR]
    simpa [List.append_assoc, readField] using this
  rw [hb, viewContent_some]
  unfold parseBasic
  simp only [hne, if_false, r0, r1, r2, r3, r4, purgeName_eq i.bd2 h4, hnel, r5, r6, bind, Except.bind]
  have hns' : ¬ (ns < 0x14) := by simp only [ns]; omega
  simp only [hns', if_false]
  by_cases hex : i.extras = []
  · have hn0 : ¬ (n > 0) := by simp [n, hex]
    simp only [hn0, if_false, hex, if_true]
  · have hn0 : n > 0 := by
      have : i.extras.length ≠ 0 := fun h => hex (List.eq_nil_of_length_eq_zero h)
      simp only [n]; omega
    simp only [hn0, if_true, hex, if_false]
    have hoff : ∀ o ∈ offsetsFrom 0 i.extras, FK.inRange .s32 o := by
      intro o ho
      have := offsetsFrom_bounds 0 i.extras o ho
      simp only [FK.inRange]; omega
    have hnn : n.toNat + 1 = (offsetsFrom 0 i.extras).length := by simp [offsetsFrom_length, n]
    have r7 : readN .s32 (n.toNat + 1) (encFields A ++ R) (20 + 4 * i.unknowns.length + 2) = .ok (offsetsFrom 0 i.extras) := by
      have := readN_enc .s32 (offsetsFrom 0 i.extras) (encFields A ++ encFields U ++ encField .s16 n) (i.extras.flatten ++ []) hoff
      have l : (encFields A ++ encFields U ++ encField .s16 n).length = 20 + 4 * i.unknowns.length + 2 := by
        simp [lA, lU, FK.size]; omega
      rw [l] at this
      rw [hnn, ← hR]
      simpa [List.append_assoc] using this
    have r8 : collectExtras (encFields A ++ R) (offsetsFrom 0 i.extras) (20 + 4 * i.unknowns.length + 2 + 4 * (n.toNat + 1)) = i.extras := by
      have := collectExtras_enc i.extras 0 (encFields A ++ encFields U ++ encField .s16 n ++ encFields O) []
      have l : (encFields A ++ encFields U ++ encField .s16 n ++ encFields O).length
          = 20 + 4 * i.unknowns.length + 2 + 4 * (n.toNat + 1) := by
        simp [lA, lU, FK.size, O, encFields_pairs_length, offsetsFrom_length, n]; omega
      rw [l] at this
      rw [← hR]
      simpa [List.append_assoc] using this
    simp only [r7, r8, memberName_eq]
    cases nameView codec i.extras <;> rfl

/-! ### the two container layouts -/

theorem pySlice_mid (pre x post : Bytes) (a b : Int) (ha : a = (pre.length : Int)) (hb : b = ((pre.length + x.length : Nat) : Int)) :
    pySlice (pre ++ (x ++ post)) a b = x := by
  subst ha hb
  rw [pySlice_nat]
  exact slice_at' pre x post _ _ rfl rfl

/-- Director 4 frame: any sizes that add up, any type byte -/
theorem structD4_frame (hs asz : Int) (tc : UInt8) (header info : Bytes)
    (hhs : FK.inRange .s16 hs) (has : FK.inRange .s32 asz)
    (e1 : hs = 1 + (header.length : Int)) (e2 : asz = (info.length : Int)) :
    structD4 (encS .be 2 hs ++ encS .be 4 asz ++ [tc] ++ header ++ info) = .ok ⟨(tc.toNat : Int), header, info⟩ := by
  have hd : encS .be 2 hs ++ encS .be 4 asz ++ [tc] ++ header ++ info
      = encField .s16 hs ++ (encField .s32 asz ++ (tc :: (header ++ info))) := by simp [encField]
  rw [hd]
  have r0 : getS .be 2 (encField .s16 hs ++ (encField .s32 asz ++ (tc :: (header ++ info)))) 0 = .ok hs := by
    have := readField_enc .s16 hs [] (encField .s32 asz ++ (tc :: (header ++ info))) hhs
    simpa [readField] using this
  have r1 : getS .be 4 (encField .s16 hs ++ (encField .s32 asz ++ (tc :: (header ++ info)))) 2 = .ok asz := by
    have := readField_enc .s32 asz (encField .s16 hs) (tc :: (header ++ info)) has
    simpa [readField, FK.size] using this
  have r2 : byteAt (encField .s16 hs ++ (encField .s32 asz ++ (tc :: (header ++ info)))) 6 = .ok tc := by
    have := byteAt_mid (encField .s16 hs ++ encField .s32 asz) (header ++ info) tc
    simpa [FK.size] using this
  have hlen : (encField .s16 hs ++ (encField .s32 asz ++ (tc :: (header ++ info)))).length = 7 + header.length + info.length := by
    simp [FK.size]; omega
  have hchk : ¬ (6 + hs + asz ≠ ((encField .s16 hs ++ (encField .s32 asz ++ (tc :: (header ++ info)))).length : Int)) := by
    rw [hlen]; simp; omega
  have hh : pySlice (encField .s16 hs ++ (encField .s32 asz ++ (tc :: (header ++ info)))) 7 (7 + hs - 1) = header := by
    have := pySlice_mid (encField .s16 hs ++ encField .s32 asz ++ [tc]) header info 7 (7 + hs - 1)
      (by simp [FK.size]) (by simp [FK.size]; omega)
    simpa [List.append_assoc] using this
  have hi : (if asz > 0 then pySlice (encField .s16 hs ++ (encField .s32 asz ++ (tc :: (header ++ info)))) (7 + (hs - 1)) (7 + (hs - 1) + asz) else []) = info := by
    by_cases hpos : asz > 0
    · simp only [hpos, if_true]
      have := pySlice_mid (encField .s16 hs ++ encField .s32 asz ++ [tc] ++ header) info [] (7 + (hs - 1)) (7 + (hs - 1) + asz)
        (by simp [FK.size]; omega) (by simp [FK.size]; omega)
      simpa [List.append_assoc] using this
    · simp only [hpos, if_false]
      have : info.length = 0 := by omega
      exact (List.eq_nil_of_length_eq_zero this).symm
  unfold structD4
  simp only [r0, r1, r2, hchk, if_false, hh, hi, bind, Except.bind]

/-- Director 5 frame -/
theorem structD5_frame (dt hs asz : Int) (header info : Bytes)
    (hdt : FK.inRange .s32 dt) (hhs : FK.inRange .s32 hs) (has : FK.inRange .s32 asz)
    (e1 : hs = (header.length : Int)) (e2 : asz = (info.length : Int)) :
    structD5 (encS .be 4 dt ++ encS .be 4 asz ++ encS .be 4 hs ++ info ++ header) = .ok ⟨dt, header, info⟩ := by
  have hd : encS .be 4 dt ++ encS .be 4 asz ++ encS .be 4 hs ++ info ++ header
      = encField .s32 dt ++ (encField .s32 asz ++ (encField .s32 hs ++ (info ++ header))) := by simp [encField]
  rw [hd]
  generalize hD : encField .s32 dt ++ (encField .s32 asz ++ (encField .s32 hs ++ (info ++ header))) = D
  have r0 : getS .be 4 D 0 = .ok dt := by
    have := readField_enc .s32 dt [] (encField .s32 asz ++ (encField .s32 hs ++ (info ++ header))) hdt
    rw [← hD]; simpa [readField] using this
  have r1 : getS .be 4 D 4 = .ok asz := by
    have := readField_enc .s32 asz (encField .s32 dt) (encField .s32 hs ++ (info ++ header)) has
    rw [← hD]; simpa [readField, FK.size] using this
  have r2 : getS .be 4 D 8 = .ok hs := by
    have := readField_enc .s32 hs (encField .s32 dt ++ encField .s32 asz) (info ++ header) hhs
    rw [← hD]; simpa [readField, FK.size, List.append_assoc] using this
  have hlen : D.length = 12 + info.length + header.length := by
    rw [← hD]; simp [FK.size]; omega
  have hchk : ¬ (12 + hs + asz ≠ (D.length : Int)) := by
    rw [hlen]; simp; omega
  have hi : (if asz > 0 then pySlice D 12 (12 + asz) else []) = info := by
    by_cases hpos : asz > 0
    · simp only [hpos, if_true]
      have := pySlice_mid (encField .s32 dt ++ encField .s32 asz ++ encField .s32 hs) info header 12 (12 + asz)
        (by simp [FK.size]) (by simp [FK.size]; omega)
      rw [← hD]; simpa [List.append_assoc] using this
    · simp only [hpos, if_false]
      have : info.length = 0 := by omega
      exact (List.eq_nil_of_length_eq_zero this).symm
  have hh : pySlice D (if asz > 0 then 12 + asz else 12) ((if asz > 0 then 12 + asz else 12) + hs) = header := by
    have hidx : (if asz > 0 then 12 + asz else (12 : Int)) = 12 + asz := by
      by_cases hpos : asz > 0
      · simp [hpos]
      · simp only [hpos, if_false]; omega
    rw [hidx]
    have := pySlice_mid (encField .s32 dt ++ encField .s32 asz ++ encField .s32 hs ++ info) header [] (12 + asz) (12 + asz + hs)
      (by simp [FK.size]; omega) (by simp [FK.size]; omega)
    rw [← hD]; simpa [List.append_assoc] using this
  unfold structD5
  simp only [r0, r1, r2, hchk, if_false, hh, hi, bind, Except.bind]

/-! ### layout detection -/

theorem ofSigned_nonneg (bits : Nat) (v : Int) (h0 : 0 ≤ v) (h1 : v < ((2 ^ bits : Nat) : Int)) : ofSigned bits v = v.toNat := by
  unfold ofSigned
  rw [Int.emod_eq_of_lt h0 h1]

/-- a Director 4 record starts with a non-zero 16-bit size, so one of its first three bytes is non-zero -/
theorem detect_d4 (hs asz : Int) (rest : Bytes) (h1 : 1 ≤ hs) (h2 : hs < 32768) :
    ∃ w, getU .be 4 (encS .be 2 hs ++ encS .be 4 asz ++ rest) 0 = .ok w ∧ w / 256 ≠ 0 := by
  have hs4 : slice (encS .be 2 hs ++ encS .be 4 asz ++ rest) 0 4 = encS .be 2 hs ++ (encS .be 4 asz).take 2 := by
    have l2 : (encS .be 2 hs).length = 2 := by simp
    simp [slice, List.take_append, l2, List.take_of_length_le]
  refine ⟨beNat (encS .be 2 hs ++ (encS .be 4 asz).take 2), ?_, ?_⟩
  · unfold getU
    rw [show (0 + 4 : Nat) = 4 from rfl, hs4]
    simp [unpackU, ordNat]
  · rw [beNat_append]
    have hb : beNat (encS .be 2 hs) = hs.toNat := by
      simp only [encS, encOrd, beNat_encBE]
      rw [ofSigned_nonneg 16 hs (by omega) (by simp; omega)]
      have : hs.toNat < 256 ^ 2 := by omega
      exact Nat.mod_eq_of_lt this
    rw [hb]
    have hl : ((encS .be 4 asz).take 2).length = 2 := by simp
    rw [hl]
    have : 1 ≤ hs.toNat := by omega
    have : hs.toNat * 256 ^ 2 ≥ 65536 := by
      calc hs.toNat * 256 ^ 2 ≥ 1 * 256 ^ 2 := Nat.mul_le_mul_right _ this
        _ = 65536 := by decide
    omega

/-- a Director 5 record starts with the 32-bit type code (< 256): its first three bytes are zero -/
theorem detect_d5 (tc : Int) (rest : Bytes) (h0 : 0 ≤ tc) (h1 : tc < 256) :
    ∃ w, getU .be 4 (encS .be 4 tc ++ rest) 0 = .ok w ∧ w / 256 = 0 := by
  refine ⟨tc.toNat, ?_, by omega⟩
  have : slice (encS .be 4 tc ++ rest) 0 4 = encS .be 4 tc := slice_append_left _ _ _ (by simp)
  unfold getU
  rw [show (0 + 4 : Nat) = 4 from rfl, this]
  simp only [encS]
  rw [ofSigned_nonneg 32 tc h0 (by simp; omega)]
  exact unpackU_encOrd .be 4 tc.toNat (by omega)

/-! ### dispatch -/

def className : Body → String
  | .bitmap _ => "ImageParser" | .field _ => "TextInputParser" | .palette => "PaletteParser" | .sound => "SoundParser"
  | .button _ => "ButtonParser" | .shape _ => "ShapeParser" | .script => "ScriptParser" | .richText _ => "TextParser"
  | .transition _ => "TransitionParser"

/-- the generated `PARSERS` table binds Director's type codes to the expected reader classes -/
theorem parsers_table (b : Body) : Gen.CastTables.parsers.lookup b.typeCode = some (className b) := by
  cases b <;> (simp only [Body.typeCode, className]; decide)

theorem typeCode_lt (b : Body) : b.typeCode < 256 := by cases b <;> (simp only [Body.typeCode]; decide)

theorem dispatch_enc (m : Member) (hv : m.valid) (c : Content) :
    dispatch (m.body.typeCode : Int) m.header c = .ok (viewBody m.body c.bd2) := by
  obtain ⟨hf, ht, _, _, hp⟩ := hv
  unfold dispatch
  have h0 : ¬ ((m.body.typeCode : Int) < 0) := by omega
  simp only [h0, if_false, Int.toNat_natCast, parsers_table]
  unfold Member.header
  cases hb : m.body with
  | bitmap f =>
    rw [hb] at hf ht hp
    simp only [className]
    simpa using parseImage_enc f m.hdrPad c.bd2 hf ht hp
  | field f =>
    rw [hb] at hf
    simp only [className, Body.tailFields, encFields, List.append_nil]
    simpa using parseTextInput_enc f m.hdrPad c.bd2 hf
  | palette => simp [className, parsePalette, viewBody]
  | sound => simp [className, parseSound, viewBody]
  | button f =>
    rw [hb] at hf
    simp only [className, Body.tailFields, encFields, List.append_nil]
    simpa using parseButton_enc f m.hdrPad c.bd2 hf
  | shape f =>
    rw [hb] at hf
    simp only [className, Body.tailFields, encFields, List.append_nil]
    simpa using parseShape_enc f m.hdrPad c.bd2 hf
  | script => simp [className, parseScript, viewBody]
  | richText f =>
    rw [hb] at hf
    simp only [className, Body.tailFields, encFields, List.append_nil]
    simpa using parseText_enc f m.hdrPad c.bd2 hf
  | transition f =>
    rw [hb] at hf
    simp only [className, Body.tailFields, encFields, List.append_nil]
    simpa using parseTransition_enc f m.hdrPad c.bd2 hf

/-! ### assembly -/

/-- what `parse_cast_file_data` does after the container has been taken apart -/
def finish (codec : Codec) (st : CastStruct) : R CastData :=
  match parseBasic codec st.basic with
  | .error e => .error e
  | .ok content =>
    match dispatch st.dataType st.header content with
    | .error e => .error e
    | .ok fields => .ok ⟨fields, content⟩

theorem parseCast_eq (codec : Codec) (d : Bytes) :
    parseCast codec d =
      match getU .be 4 d 0 with
      | .error e => .error e
      | .ok w =>
        match (if w / 256 ≠ 0 then structD4 d else structD5 d) with
        | .error e => .error e
        | .ok st => finish codec st := by
  unfold parseCast finish
  cases getU .be 4 d 0 with
  | error e => rfl
  | ok w =>
    simp only [bind, Except.bind]
    by_cases hw : w / 256 ≠ 0
    · rw [if_pos hw, if_pos hw]
      cases structD4 d with
      | error e => rfl
      | ok st =>
        dsimp only
        cases parseBasic codec st.basic with
        | error e => rfl
        | ok c => dsimp only; cases dispatch st.dataType st.header c <;> rfl
    · rw [if_neg hw, if_neg hw]
      cases structD5 d with
      | error e => rfl
      | ok st =>
        dsimp only
        cases parseBasic codec st.basic with
        | error e => rfl
        | ok c => dsimp only; cases dispatch st.dataType st.header c <;> rfl

theorem infoBytes_length_range (m : Member) (hv : m.valid) : FK.inRange .s32 (m.infoBytes.length : Int) := by
  obtain ⟨_, _, _, hi, _⟩ := hv
  unfold Member.infoBytes
  cases hinfo : m.info with
  | none => simp [FK.inRange]
  | some i =>
    rw [hinfo] at hi
    simp only [FK.inRange]
    have := hi.2
    omega

theorem finish_enc (codec : Codec) (m : Member) (hv : m.valid) (h4 : Gen.CastTables.purgePriority.length = 4) :
    finish codec ⟨(m.body.typeCode : Int), m.header, m.infoBytes⟩ = view codec m := by
  unfold finish view
  simp only
  cases hinfo : m.info with
  | none =>
    have hb : m.infoBytes = [] := by simp [Member.infoBytes, hinfo]
    have hp : parseBasic codec [] = .ok .empty := by simp [parseBasic]
    rw [hb, hp]
    simp only [viewContent, Except.map]
    rw [dispatch_enc m hv .empty]
    rfl
  | some i =>
    have hb : m.infoBytes = encInfo i := by simp [Member.infoBytes, hinfo]
    have hiv : i.valid := by
      have := hv.2.2.2.1
      rw [hinfo] at this
      exact this.1
    rw [hb, parseBasic_enc codec i hiv h4]
    cases hc : viewContent codec (some i) with
    | error e => rfl
    | ok c =>
      have hbd2 : c.bd2 = i.bd2 := by
        rw [viewContent_some] at hc
        by_cases hex : i.extras = []
        · simp only [hex, if_true, Except.ok.injEq] at hc
          subst hc; rfl
        · simp only [hex, if_false] at hc
          cases hn : nameView codec i.extras with
          | error e => simp [hn, Except.map] at hc
          | ok nm => simp [hn, Except.map] at hc; subst hc; rfl
      simp only [Except.map]
      rw [dispatch_enc m hv c, hbd2]

/-- Director 4 layout of any valid member decodes to its view -/
theorem parseCast_encD4 (codec : Codec) (m : Member) (hv : m.valid) (h4 : Gen.CastTables.purgePriority.length = 4) :
    parseCast codec (encD4 m) = view codec m := by
  have hhl : 1 + m.header.length < 32768 := hv.2.2.1
  have hir := infoBytes_length_range m hv
  have e : encD4 m = encS .be 2 (1 + (m.header.length : Int)) ++ encS .be 4 (m.infoBytes.length : Int)
      ++ ([UInt8.ofNat m.body.typeCode] ++ m.header ++ m.infoBytes) := by simp [encD4]
  obtain ⟨w, hw, hne⟩ := detect_d4 (1 + (m.header.length : Int)) (m.infoBytes.length : Int)
    ([UInt8.ofNat m.body.typeCode] ++ m.header ++ m.infoBytes) (by omega) (by omega)
  rw [parseCast_eq, e, hw]
  simp only [hne, ne_eq, not_false_eq_true, if_true]
  have hf := structD4_frame (1 + (m.header.length : Int)) (m.infoBytes.length : Int) (UInt8.ofNat m.body.typeCode) m.header m.infoBytes
    (by simp only [FK.inRange]; omega) hir rfl rfl
  have e2 : encS .be 2 (1 + (m.header.length : Int)) ++ encS .be 4 (m.infoBytes.length : Int)
      ++ ([UInt8.ofNat m.body.typeCode] ++ m.header ++ m.infoBytes)
      = encS .be 2 (1 + (m.header.length : Int)) ++ encS .be 4 (m.infoBytes.length : Int) ++ [UInt8.ofNat m.body.typeCode]
        ++ m.header ++ m.infoBytes := by simp
  rw [e2, hf]
  have htc : ((UInt8.ofNat m.body.typeCode).toNat : Int) = (m.body.typeCode : Int) := by
    have := typeCode_lt m.body
    simp [UInt8.toNat_ofNat']; omega
  simp only [htc]
  exact finish_enc codec m hv h4

/-- Director 5 layout of any valid member decodes to its view -/
theorem parseCast_encD5 (codec : Codec) (m : Member) (hv : m.valid) (h4 : Gen.CastTables.purgePriority.length = 4) :
    parseCast codec (encD5 m) = view codec m := by
  have hhl : 1 + m.header.length < 32768 := hv.2.2.1
  have hir := infoBytes_length_range m hv
  have htl := typeCode_lt m.body
  have e : encD5 m = encS .be 4 (m.body.typeCode : Int) ++ (encS .be 4 (m.infoBytes.length : Int)
      ++ encS .be 4 (m.header.length : Int) ++ m.infoBytes ++ m.header) := by simp [encD5]
  obtain ⟨w, hw, hz⟩ := detect_d5 (m.body.typeCode : Int) (encS .be 4 (m.infoBytes.length : Int)
      ++ encS .be 4 (m.header.length : Int) ++ m.infoBytes ++ m.header) (by omega) (by omega)
  rw [parseCast_eq, e, hw]
  simp only [hz, ne_eq, not_true_eq_false, if_false]
  have hf := structD5_frame (m.body.typeCode : Int) (m.header.length : Int) (m.infoBytes.length : Int) m.header m.infoBytes
    (by simp only [FK.inRange]; omega) (by simp only [FK.inRange]; omega) hir rfl rfl
  have e2 : encS .be 4 (m.body.typeCode : Int) ++ (encS .be 4 (m.infoBytes.length : Int)
      ++ encS .be 4 (m.header.length : Int) ++ m.infoBytes ++ m.header)
      = encS .be 4 (m.body.typeCode : Int) ++ encS .be 4 (m.infoBytes.length : Int) ++ encS .be 4 (m.header.length : Int)
        ++ m.infoBytes ++ m.header := by simp
  rw [e2, hf]
  exact finish_enc codec m hv h4

/-! ### name safety, for arbitrary input bytes -/

theorem safeChar_safe (c : Char) : isSafe (safeChar c) = true := by
  unfold safeChar
  by_cases h : isSafe c = true
  · simp [h]
  · simp [h]; decide

theorem memberName_safe (codec : Codec) (ex : List Bytes) (n : List Char) (h : memberName codec ex = .ok n) :
    ∀ c ∈ n, isSafe c = true := by
  unfold memberName at h
  split at h
  · split at h
    · cases h
      intro c hc
      obtain ⟨c', _, rfl⟩ := List.mem_map.mp hc
      exact safeChar_safe c'
    · cases h
  · cases h; simp

theorem parseBasic_name_safe (codec : Codec) (b : Bytes) (c : Content) (h : parseBasic codec b = .ok c) :
    ∀ n, c.name? = some n → ∀ ch ∈ n, isSafe ch = true := by
  intro n hn
  unfold parseBasic at h
  split at h
  · cases h; simp [Content.name?] at hn
  · simp only [bind, Except.bind] at h
    repeat' (split at h)
    all_goals (try (cases h))
    all_goals (try (simp only [Content.name?, Option.some.injEq, reduceCtorEq] at hn))
    all_goals (rename_i hmn; subst hn; exact memberName_safe codec _ _ hmn)

theorem finish_content (codec : Codec) (st : CastStruct) (r : CastData) (h : finish codec st = .ok r) :
    parseBasic codec st.basic = .ok r.content := by
  unfold finish at h
  cases hp : parseBasic codec st.basic with
  | error e => simp [hp] at h
  | ok c =>
    simp only [hp] at h
    cases hd : dispatch st.dataType st.header c with
    | error e => simp [hd] at h
    | ok f => simp only [hd, Except.ok.injEq] at h; subst h; rfl

theorem parseCast_name_safe (codec : Codec) (d : Bytes) (r : CastData) (h : parseCast codec d = .ok r) :
    ∀ n, r.content.name? = some n → ∀ ch ∈ n, isSafe ch = true := by
  rw [parseCast_eq] at h
  cases hw : getU .be 4 d 0 with
  | error e => simp [hw] at h
  | ok w =>
    simp only [hw] at h
    cases hs : (if w / 256 ≠ 0 then structD4 d else structD5 d) with
    | error e => rw [hs] at h; cases h
    | ok st =>
      rw [hs] at h
      exact parseBasic_name_safe codec st.basic r.content (finish_content codec st r h)

/-! ### declared sizes -/

theorem structD4_mismatch (d : Bytes) (hs asz : Int) (h1 : getS .be 2 d 0 = .ok hs) (h2 : getS .be 4 d 2 = .ok asz)
    (hne : 6 + hs + asz ≠ (d.length : Int)) : structD4 d = .error .value := by
  unfold structD4
  simp [h1, h2, hne, bind, Except.bind]

theorem structD5_mismatch (d : Bytes) (dt hs asz : Int) (h0 : getS .be 4 d 0 = .ok dt) (h1 : getS .be 4 d 4 = .ok asz)
    (h2 : getS .be 4 d 8 = .ok hs) (hne : 12 + hs + asz ≠ (d.length : Int)) : structD5 d = .error .value := by
  unfold structD5
  simp [h0, h1, h2, hne, bind, Except.bind]

theorem structD4_ok_size (d : Bytes) (st : CastStruct) (h : structD4 d = .ok st) :
    ∃ hs asz, getS .be 2 d 0 = .ok hs ∧ getS .be 4 d 2 = .ok asz ∧ 6 + hs + asz = (d.length : Int) := by
  unfold structD4 at h
  simp only [bind, Except.bind] at h
  cases h1 : getS .be 2 d 0 with
  | error e => simp [h1] at h
  | ok hs =>
    cases h2 : getS .be 4 d 2 with
    | error e => simp [h1, h2] at h
    | ok asz =>
      refine ⟨hs, asz, rfl, rfl, ?_⟩
      by_cases hne : 6 + hs + asz ≠ (d.length : Int)
      · simp [h1, h2, hne] at h
      · simpa using hne

theorem structD5_ok_size (d : Bytes) (st : CastStruct) (h : structD5 d = .ok st) :
    ∃ hs asz, getS .be 4 d 8 = .ok hs ∧ getS .be 4 d 4 = .ok asz ∧ 12 + hs + asz = (d.length : Int) := by
  unfold structD5 at h
  simp only [bind, Except.bind] at h
  cases h0 : getS .be 4 d 0 with
  | error e => simp [h0] at h
  | ok dt =>
    cases h1 : getS .be 4 d 4 with
    | error e => simp [h0, h1] at h
    | ok asz =>
      cases h2 : getS .be 4 d 8 with
      | error e => simp [h0, h1, h2] at h
      | ok hs =>
        refine ⟨hs, asz, rfl, rfl, ?_⟩
        by_cases hne : 12 + hs + asz ≠ (d.length : Int)
        · simp [h0, h1, h2, hne] at h
        · simpa using hne

theorem parseCast_d4_mismatch (codec : Codec) (d : Bytes) (w : Nat) (hs asz : Int) (hw : getU .be 4 d 0 = .ok w) (hd : w / 256 ≠ 0)
    (h1 : getS .be 2 d 0 = .ok hs) (h2 : getS .be 4 d 2 = .ok asz) (hne : 6 + hs + asz ≠ (d.length : Int)) :
    parseCast codec d = .error .value := by
  rw [parseCast_eq, hw]
  simp only [hd, ne_eq, not_false_eq_true, if_true, structD4_mismatch d hs asz h1 h2 hne]

theorem parseCast_d5_mismatch (codec : Codec) (d : Bytes) (w : Nat) (dt hs asz : Int) (hw : getU .be 4 d 0 = .ok w) (hd : w / 256 = 0)
    (h0 : getS .be 4 d 0 = .ok dt) (h1 : getS .be 4 d 4 = .ok asz) (h2 : getS .be 4 d 8 = .ok hs)
    (hne : 12 + hs + asz ≠ (d.length : Int)) : parseCast codec d = .error .value := by
  rw [parseCast_eq, hw]
  simp only [hd, ne_eq, not_true_eq_false, if_false, structD5_mismatch d dt hs asz h0 h1 h2 hne]

theorem parseCast_ok_sizes (codec : Codec) (d : Bytes) (r : CastData) (h : parseCast codec d = .ok r) :
    ∃ w, getU .be 4 d 0 = .ok w ∧
      ((w / 256 ≠ 0 ∧ ∃ hs asz, getS .be 2 d 0 = .ok hs ∧ getS .be 4 d 2 = .ok asz ∧ 6 + hs + asz = (d.length : Int)) ∨
       (w / 256 = 0 ∧ ∃ hs asz, getS .be 4 d 8 = .ok hs ∧ getS .be 4 d 4 = .ok asz ∧ 12 + hs + asz = (d.length : Int))) := by
  rw [parseCast_eq] at h
  cases hw : getU .be 4 d 0 with
  | error e => simp [hw] at h
  | ok w =>
    refine ⟨w, rfl, ?_⟩
    simp only [hw] at h
    by_cases hd : w / 256 ≠ 0
    · left
      refine ⟨hd, ?_⟩
      simp only [hd, ne_eq, not_false_eq_true, if_true] at h
      cases hs : structD4 d with
      | error e => simp [hs] at h
      | ok st => exact structD4_ok_size d st hs
    · right
      have hz : w / 256 = 0 := by simpa using hd
      refine ⟨hz, ?_⟩
      simp only [hz, ne_eq, not_true_eq_false, if_false] at h
      cases hs : structD5 d with
      | error e => simp [hs] at h
      | ok st => exact structD5_ok_size d st hs

/-- bytes appended to a Director 4 record without adjusting its size fields: rejected -/
theorem encD4_junk (codec : Codec) (m : Member) (hv : m.valid) (junk : Bytes) (hj : junk ≠ []) :
    parseCast codec (encD4 m ++ junk) = .error .value := by
  have hhl : 1 + m.header.length < 32768 := hv.2.2.1
  have hir := infoBytes_length_range m hv
  have e : encD4 m ++ junk = encS .be 2 (1 + (m.header.length : Int)) ++ encS .be 4 (m.infoBytes.length : Int)
      ++ ([UInt8.ofNat m.body.typeCode] ++ m.header ++ m.infoBytes ++ junk) := by simp [encD4]
  obtain ⟨w, hw, hne⟩ := detect_d4 (1 + (m.header.length : Int)) (m.infoBytes.length : Int)
    ([UInt8.ofNat m.body.typeCode] ++ m.header ++ m.infoBytes ++ junk) (by omega) (by omega)
  rw [e]
  refine parseCast_d4_mismatch codec _ w (1 + (m.header.length : Int)) (m.infoBytes.length : Int) hw hne ?_ ?_ ?_
  · have := readField_enc .s16 (1 + (m.header.length : Int)) [] (encS .be 4 (m.infoBytes.length : Int)
      ++ ([UInt8.ofNat m.body.typeCode] ++ m.header ++ m.infoBytes ++ junk)) (by simp only [FK.inRange]; omega)
    simpa [readField, encField, List.append_assoc] using this
  · have := readField_enc .s32 (m.infoBytes.length : Int) (encS .be 2 (1 + (m.header.length : Int)))
      ([UInt8.ofNat m.body.typeCode] ++ m.header ++ m.infoBytes ++ junk) hir
    simpa [readField, encField, List.append_assoc] using this
  · have : junk.length ≠ 0 := fun h => hj (List.eq_nil_of_length_eq_zero h)
    simp; omega

/-- … and to a Director 5 record -/
theorem encD5_junk (codec : Codec) (m : Member) (hv : m.valid) (junk : Bytes) (hj : junk ≠ []) :
    parseCast codec (encD5 m ++ junk) = .error .value := by
  have hhl : 1 + m.header.length < 32768 := hv.2.2.1
  have hir := infoBytes_length_range m hv
  have htl := typeCode_lt m.body
  have e : encD5 m ++ junk = encS .be 4 (m.body.typeCode : Int) ++ (encS .be 4 (m.infoBytes.length : Int)
      ++ encS .be 4 (m.header.length : Int) ++ m.infoBytes ++ m.header ++ junk) := by simp [encD5]
  obtain ⟨w, hw, hz⟩ := detect_d5 (m.body.typeCode : Int) (encS .be 4 (m.infoBytes.length : Int)
      ++ encS .be 4 (m.header.length : Int) ++ m.infoBytes ++ m.header ++ junk) (by omega) (by omega)
  rw [e]
  refine parseCast_d5_mismatch codec _ w (m.body.typeCode : Int) (m.header.length : Int) (m.infoBytes.length : Int) hw hz ?_ ?_ ?_ ?_
  · have := readField_enc .s32 (m.body.typeCode : Int) [] (encS .be 4 (m.infoBytes.length : Int)
      ++ encS .be 4 (m.header.length : Int) ++ m.infoBytes ++ m.header ++ junk) (by simp only [FK.inRange]; omega)
    simpa [readField, encField, List.append_assoc] using this
  · have := readField_enc .s32 (m.infoBytes.length : Int) (encS .be 4 (m.body.typeCode : Int))
      (encS .be 4 (m.header.length : Int) ++ m.infoBytes ++ m.header ++ junk) hir
    simpa [readField, encField, List.append_assoc] using this
  · have := readField_enc .s32 (m.header.length : Int) (encS .be 4 (m.body.typeCode : Int) ++ encS .be 4 (m.infoBytes.length : Int))
      (m.infoBytes ++ m.header ++ junk) (by simp only [FK.inRange]; omega)
    simpa [readField, encField, List.append_assoc] using this
  · have : junk.length ≠ 0 := fun h => hj (List.eq_nil_of_length_eq_zero h)
    simp; omega

/-! ### kind lists vs. the layouts regenerated from the source -/

def FK.width : FK → Nat := FK.size
def FK.signed : FK → Bool
  | .u8 => false | .s16 => true | .s32 => true | .u32 => false

/-- (offset, width, signed) of a run of kinds read with a running index starting at `off` -/
def layoutOf : List FK → Nat → List (Nat × Nat × Bool)
  | [], _ => []
  | k :: ks, off => (off, k.width, k.signed) :: layoutOf ks (off + k.size)

def shapeOf (l : List Layout.Field) : List (Nat × Nat × Bool) := l.map fun f => (f.off, f.width, f.signed)
def namesOf (l : List Layout.Field) : List String := l.map (·.name)

/-- the model's fixed reads outside the nine readers ARE `readFields` over the kind lists -/
theorem structD4_reads (d : Bytes) :
    readFields structD4Kinds d 0 =
      (match getS .be 2 d 0 with
       | .error e => .error e
       | .ok hs => match getS .be 4 d 2 with
         | .error e => .error e
         | .ok asz => match byteAt d 6 with
           | .error e => .error e
           | .ok dt => .ok [hs, asz, (dt.toNat : Int)]) := by
  simp only [structD4Kinds, readFields, readField, FK.size]
  cases getS .be 2 d 0 <;> simp only
  cases getS .be 4 d 2 <;> simp only
  cases byteAt d 6 <;> rfl

theorem structD5_reads (d : Bytes) :
    readFields structD5Kinds d 0 =
      (match getS .be 4 d 0 with
       | .error e => .error e
       | .ok dt => match getS .be 4 d 4 with
         | .error e => .error e
         | .ok asz => match getS .be 4 d 8 with
           | .error e => .error e
           | .ok hs => .ok [dt, asz, hs]) := by
  simp only [structD5Kinds, readFields, readField, FK.size]
  cases getS .be 4 d 0 <;> simp only
  cases getS .be 4 d 4 <;> simp only
  cases getS .be 4 d 8 <;> rfl

theorem basic_reads (b : Bytes) :
    readFields basicKinds b 0 =
      (match getS .be 4 b 0 with
       | .error e => .error e
       | .ok ns => match readField .u32 b 4 with
         | .error e => .error e
         | .ok sk => match getS .be 4 b 8 with
           | .error e => .error e
           | .ok bd1 => match getS .be 4 b 12 with
             | .error e => .error e
             | .ok bd2 => match getS .be 4 b 16 with
               | .error e => .error e
               | .ok si => .ok [ns, sk, bd1, bd2, si]) := by
  have e : ∀ (d : Bytes) (o : Nat), readField .s32 d o = getS .be 4 d o := fun _ _ => rfl
  simp only [basicKinds, readFields, FK.size, e, Nat.zero_add, Nat.reduceAdd]
  cases getS .be 4 b 0 <;> simp only
  cases readField .u32 b 4 <;> simp only
  cases getS .be 4 b 8 <;> simp only
  cases getS .be 4 b 12 <;> simp only
  cases getS .be 4 b 16 <;> rfl

theorem imageTail_reads (h : Bytes) :
    readFields imageTailKinds h imageTailOff =
      (match getS .be 2 h 23 with
       | .error e => .error e
       | .ok bitdepth => match getS .be 2 h 25 with
         | .error e => .error e
         | .ok pid => .ok [bitdepth, pid]) := by
  simp only [imageTailKinds, imageTailOff, readFields, readField, FK.size]
  cases getS .be 2 h 23 <;> simp only
  cases getS .be 2 h 25 <;> rfl

end Drx.Cast
