/-
  Reader ∘ printer = identity, statement level: `pStmt` / `pStmts` invert `prS` / `prSs` (DrxProps/C02.lean, C03.lean).
  One lemma per statement form (hypothesis form: "if the parts read back, the statement reads back"), then the fragment `FragS`
  and the mutual induction over `Stmt` / `List Stmt` — nesting depth is unbounded.
-/
import DrxProofs.SpecLingo
namespace Drx.Spec
set_option linter.unusedSimpArgs false
set_option linter.unusedVariables false

/-! ### keyword facts (closed, by evaluation) -/
@[local simp] theorem kwf_set_end : (Tok.id ['s','e','t']).kw "end" = false := by decide
@[local simp] theorem kwf_set_else : (Tok.id ['s','e','t']).kw "else" = false := by decide
@[local simp] theorem kwf_set_global : (Tok.id ['s','e','t']).kw "global" = false := by decide
@[local simp] theorem kwf_set_instance : (Tok.id ['s','e','t']).kw "instance" = false := by decide
@[local simp] theorem kwf_set_property : (Tok.id ['s','e','t']).kw "property" = false := by decide
@[local simp] theorem kwf_set_set : (Tok.id ['s','e','t']).kw "set" = true := by decide
@[local simp] theorem kwf_set_put : (Tok.id ['s','e','t']).kw "put" = false := by decide
@[local simp] theorem kwf_set_if : (Tok.id ['s','e','t']).kw "if" = false := by decide
@[local simp] theorem kwf_set_repeat : (Tok.id ['s','e','t']).kw "repeat" = false := by decide
@[local simp] theorem kwf_set_exit : (Tok.id ['s','e','t']).kw "exit" = false := by decide
@[local simp] theorem kwf_set_tell : (Tok.id ['s','e','t']).kw "tell" = false := by decide
@[local simp] theorem kwf_set_delete : (Tok.id ['s','e','t']).kw "delete" = false := by decide
@[local simp] theorem kwf_set_hilite : (Tok.id ['s','e','t']).kw "hilite" = false := by decide
@[local simp] theorem kwf_put_end : (Tok.id ['p','u','t']).kw "end" = false := by decide
@[local simp] theorem kwf_put_else : (Tok.id ['p','u','t']).kw "else" = false := by decide
@[local simp] theorem kwf_put_global : (Tok.id ['p','u','t']).kw "global" = false := by decide
@[local simp] theorem kwf_put_instance : (Tok.id ['p','u','t']).kw "instance" = false := by decide
@[local simp] theorem kwf_put_property : (Tok.id ['p','u','t']).kw "property" = false := by decide
@[local simp] theorem kwf_put_set : (Tok.id ['p','u','t']).kw "set" = false := by decide
@[local simp] theorem kwf_put_put : (Tok.id ['p','u','t']).kw "put" = true := by decide
@[local simp] theorem kwf_put_if : (Tok.id ['p','u','t']).kw "if" = false := by decide
@[local simp] theorem kwf_put_repeat : (Tok.id ['p','u','t']).kw "repeat" = false := by decide
@[local simp] theorem kwf_put_exit : (Tok.id ['p','u','t']).kw "exit" = false := by decide
@[local simp] theorem kwf_put_tell : (Tok.id ['p','u','t']).kw "tell" = false := by decide
@[local simp] theorem kwf_put_delete : (Tok.id ['p','u','t']).kw "delete" = false := by decide
@[local simp] theorem kwf_put_hilite : (Tok.id ['p','u','t']).kw "hilite" = false := by decide
@[local simp] theorem kwf_if_end : (Tok.id ['i','f']).kw "end" = false := by decide
@[local simp] theorem kwf_if_else : (Tok.id ['i','f']).kw "else" = false := by decide
@[local simp] theorem kwf_if_global : (Tok.id ['i','f']).kw "global" = false := by decide
@[local simp] theorem kwf_if_instance : (Tok.id ['i','f']).kw "instance" = false := by decide
@[local simp] theorem kwf_if_property : (Tok.id ['i','f']).kw "property" = false := by decide
@[local simp] theorem kwf_if_set : (Tok.id ['i','f']).kw "set" = false := by decide
@[local simp] theorem kwf_if_put : (Tok.id ['i','f']).kw "put" = false := by decide
@[local simp] theorem kwf_if_if : (Tok.id ['i','f']).kw "if" = true := by decide
@[local simp] theorem kwf_if_repeat : (Tok.id ['i','f']).kw "repeat" = false := by decide
@[local simp] theorem kwf_if_exit : (Tok.id ['i','f']).kw "exit" = false := by decide
@[local simp] theorem kwf_if_tell : (Tok.id ['i','f']).kw "tell" = false := by decide
@[local simp] theorem kwf_if_delete : (Tok.id ['i','f']).kw "delete" = false := by decide
@[local simp] theorem kwf_if_hilite : (Tok.id ['i','f']).kw "hilite" = false := by decide
@[local simp] theorem kwf_repeat_end : (Tok.id ['r','e','p','e','a','t']).kw "end" = false := by decide
@[local simp] theorem kwf_repeat_else : (Tok.id ['r','e','p','e','a','t']).kw "else" = false := by decide
@[local simp] theorem kwf_repeat_global : (Tok.id ['r','e','p','e','a','t']).kw "global" = false := by decide
@[local simp] theorem kwf_repeat_instance : (Tok.id ['r','e','p','e','a','t']).kw "instance" = false := by decide
@[local simp] theorem kwf_repeat_property : (Tok.id ['r','e','p','e','a','t']).kw "property" = false := by decide
@[local simp] theorem kwf_repeat_set : (Tok.id ['r','e','p','e','a','t']).kw "set" = false := by decide
@[local simp] theorem kwf_repeat_put : (Tok.id ['r','e','p','e','a','t']).kw "put" = false := by decide
@[local simp] theorem kwf_repeat_if : (Tok.id ['r','e','p','e','a','t']).kw "if" = false := by decide
@[local simp] theorem kwf_repeat_repeat : (Tok.id ['r','e','p','e','a','t']).kw "repeat" = true := by decide
@[local simp] theorem kwf_repeat_exit : (Tok.id ['r','e','p','e','a','t']).kw "exit" = false := by decide
@[local simp] theorem kwf_repeat_tell : (Tok.id ['r','e','p','e','a','t']).kw "tell" = false := by decide
@[local simp] theorem kwf_repeat_delete : (Tok.id ['r','e','p','e','a','t']).kw "delete" = false := by decide
@[local simp] theorem kwf_repeat_hilite : (Tok.id ['r','e','p','e','a','t']).kw "hilite" = false := by decide
@[local simp] theorem kwf_exit_end : (Tok.id ['e','x','i','t']).kw "end" = false := by decide
@[local simp] theorem kwf_exit_else : (Tok.id ['e','x','i','t']).kw "else" = false := by decide
@[local simp] theorem kwf_exit_global : (Tok.id ['e','x','i','t']).kw "global" = false := by decide
@[local simp] theorem kwf_exit_instance : (Tok.id ['e','x','i','t']).kw "instance" = false := by decide
@[local simp] theorem kwf_exit_property : (Tok.id ['e','x','i','t']).kw "property" = false := by decide
@[local simp] theorem kwf_exit_set : (Tok.id ['e','x','i','t']).kw "set" = false := by decide
@[local simp] theorem kwf_exit_put : (Tok.id ['e','x','i','t']).kw "put" = false := by decide
@[local simp] theorem kwf_exit_if : (Tok.id ['e','x','i','t']).kw "if" = false := by decide
@[local simp] theorem kwf_exit_repeat : (Tok.id ['e','x','i','t']).kw "repeat" = false := by decide
@[local simp] theorem kwf_exit_exit : (Tok.id ['e','x','i','t']).kw "exit" = true := by decide
@[local simp] theorem kwf_exit_tell : (Tok.id ['e','x','i','t']).kw "tell" = false := by decide
@[local simp] theorem kwf_exit_delete : (Tok.id ['e','x','i','t']).kw "delete" = false := by decide
@[local simp] theorem kwf_exit_hilite : (Tok.id ['e','x','i','t']).kw "hilite" = false := by decide
@[local simp] theorem kwf_tell_end : (Tok.id ['t','e','l','l']).kw "end" = false := by decide
@[local simp] theorem kwf_tell_else : (Tok.id ['t','e','l','l']).kw "else" = false := by decide
@[local simp] theorem kwf_tell_global : (Tok.id ['t','e','l','l']).kw "global" = false := by decide
@[local simp] theorem kwf_tell_instance : (Tok.id ['t','e','l','l']).kw "instance" = false := by decide
@[local simp] theorem kwf_tell_property : (Tok.id ['t','e','l','l']).kw "property" = false := by decide
@[local simp] theorem kwf_tell_set : (Tok.id ['t','e','l','l']).kw "set" = false := by decide
@[local simp] theorem kwf_tell_put : (Tok.id ['t','e','l','l']).kw "put" = false := by decide
@[local simp] theorem kwf_tell_if : (Tok.id ['t','e','l','l']).kw "if" = false := by decide
@[local simp] theorem kwf_tell_repeat : (Tok.id ['t','e','l','l']).kw "repeat" = false := by decide
@[local simp] theorem kwf_tell_exit : (Tok.id ['t','e','l','l']).kw "exit" = false := by decide
@[local simp] theorem kwf_tell_tell : (Tok.id ['t','e','l','l']).kw "tell" = true := by decide
@[local simp] theorem kwf_tell_delete : (Tok.id ['t','e','l','l']).kw "delete" = false := by decide
@[local simp] theorem kwf_tell_hilite : (Tok.id ['t','e','l','l']).kw "hilite" = false := by decide
@[local simp] theorem kwf_delete_end : (Tok.id ['d','e','l','e','t','e']).kw "end" = false := by decide
@[local simp] theorem kwf_delete_else : (Tok.id ['d','e','l','e','t','e']).kw "else" = false := by decide
@[local simp] theorem kwf_delete_global : (Tok.id ['d','e','l','e','t','e']).kw "global" = false := by decide
@[local simp] theorem kwf_delete_instance : (Tok.id ['d','e','l','e','t','e']).kw "instance" = false := by decide
@[local simp] theorem kwf_delete_property : (Tok.id ['d','e','l','e','t','e']).kw "property" = false := by decide
@[local simp] theorem kwf_delete_set : (Tok.id ['d','e','l','e','t','e']).kw "set" = false := by decide
@[local simp] theorem kwf_delete_put : (Tok.id ['d','e','l','e','t','e']).kw "put" = false := by decide
@[local simp] theorem kwf_delete_if : (Tok.id ['d','e','l','e','t','e']).kw "if" = false := by decide
@[local simp] theorem kwf_delete_repeat : (Tok.id ['d','e','l','e','t','e']).kw "repeat" = false := by decide
@[local simp] theorem kwf_delete_exit : (Tok.id ['d','e','l','e','t','e']).kw "exit" = false := by decide
@[local simp] theorem kwf_delete_tell : (Tok.id ['d','e','l','e','t','e']).kw "tell" = false := by decide
@[local simp] theorem kwf_delete_delete : (Tok.id ['d','e','l','e','t','e']).kw "delete" = true := by decide
@[local simp] theorem kwf_delete_hilite : (Tok.id ['d','e','l','e','t','e']).kw "hilite" = false := by decide
@[local simp] theorem kwf_hilite_end : (Tok.id ['h','i','l','i','t','e']).kw "end" = false := by decide
@[local simp] theorem kwf_hilite_else : (Tok.id ['h','i','l','i','t','e']).kw "else" = false := by decide
@[local simp] theorem kwf_hilite_global : (Tok.id ['h','i','l','i','t','e']).kw "global" = false := by decide
@[local simp] theorem kwf_hilite_instance : (Tok.id ['h','i','l','i','t','e']).kw "instance" = false := by decide
@[local simp] theorem kwf_hilite_property : (Tok.id ['h','i','l','i','t','e']).kw "property" = false := by decide
@[local simp] theorem kwf_hilite_set : (Tok.id ['h','i','l','i','t','e']).kw "set" = false := by decide
@[local simp] theorem kwf_hilite_put : (Tok.id ['h','i','l','i','t','e']).kw "put" = false := by decide
@[local simp] theorem kwf_hilite_if : (Tok.id ['h','i','l','i','t','e']).kw "if" = false := by decide
@[local simp] theorem kwf_hilite_repeat : (Tok.id ['h','i','l','i','t','e']).kw "repeat" = false := by decide
@[local simp] theorem kwf_hilite_exit : (Tok.id ['h','i','l','i','t','e']).kw "exit" = false := by decide
@[local simp] theorem kwf_hilite_tell : (Tok.id ['h','i','l','i','t','e']).kw "tell" = false := by decide
@[local simp] theorem kwf_hilite_delete : (Tok.id ['h','i','l','i','t','e']).kw "delete" = false := by decide
@[local simp] theorem kwf_hilite_hilite : (Tok.id ['h','i','l','i','t','e']).kw "hilite" = true := by decide
@[local simp] theorem kwf_end_end : (Tok.id ['e','n','d']).kw "end" = true := by decide
@[local simp] theorem kwf_end_else : (Tok.id ['e','n','d']).kw "else" = false := by decide
@[local simp] theorem kwf_end_global : (Tok.id ['e','n','d']).kw "global" = false := by decide
@[local simp] theorem kwf_end_instance : (Tok.id ['e','n','d']).kw "instance" = false := by decide
@[local simp] theorem kwf_end_property : (Tok.id ['e','n','d']).kw "property" = false := by decide
@[local simp] theorem kwf_end_set : (Tok.id ['e','n','d']).kw "set" = false := by decide
@[local simp] theorem kwf_end_put : (Tok.id ['e','n','d']).kw "put" = false := by decide
@[local simp] theorem kwf_end_if : (Tok.id ['e','n','d']).kw "if" = false := by decide
@[local simp] theorem kwf_end_repeat : (Tok.id ['e','n','d']).kw "repeat" = false := by decide
@[local simp] theorem kwf_end_exit : (Tok.id ['e','n','d']).kw "exit" = false := by decide
@[local simp] theorem kwf_end_tell : (Tok.id ['e','n','d']).kw "tell" = false := by decide
@[local simp] theorem kwf_end_delete : (Tok.id ['e','n','d']).kw "delete" = false := by decide
@[local simp] theorem kwf_end_hilite : (Tok.id ['e','n','d']).kw "hilite" = false := by decide
@[local simp] theorem kwf_else_end : (Tok.id ['e','l','s','e']).kw "end" = false := by decide
@[local simp] theorem kwf_else_else : (Tok.id ['e','l','s','e']).kw "else" = true := by decide
@[local simp] theorem kwf_else_global : (Tok.id ['e','l','s','e']).kw "global" = false := by decide
@[local simp] theorem kwf_else_instance : (Tok.id ['e','l','s','e']).kw "instance" = false := by decide
@[local simp] theorem kwf_else_property : (Tok.id ['e','l','s','e']).kw "property" = false := by decide
@[local simp] theorem kwf_else_set : (Tok.id ['e','l','s','e']).kw "set" = false := by decide
@[local simp] theorem kwf_else_put : (Tok.id ['e','l','s','e']).kw "put" = false := by decide
@[local simp] theorem kwf_else_if : (Tok.id ['e','l','s','e']).kw "if" = false := by decide
@[local simp] theorem kwf_else_repeat : (Tok.id ['e','l','s','e']).kw "repeat" = false := by decide
@[local simp] theorem kwf_else_exit : (Tok.id ['e','l','s','e']).kw "exit" = false := by decide
@[local simp] theorem kwf_else_tell : (Tok.id ['e','l','s','e']).kw "tell" = false := by decide
@[local simp] theorem kwf_else_delete : (Tok.id ['e','l','s','e']).kw "delete" = false := by decide
@[local simp] theorem kwf_else_hilite : (Tok.id ['e','l','s','e']).kw "hilite" = false := by decide
@[local simp] theorem kwf_then_then : (Tok.id ['t','h','e','n']).kw "then" = true := by decide
@[local simp] theorem kwf_while_while : (Tok.id ['w','h','i','l','e']).kw "while" = true := by decide
@[local simp] theorem kwf_while_with : (Tok.id ['w','h','i','l','e']).kw "with" = false := by decide
@[local simp] theorem kwf_with_while : (Tok.id ['w','i','t','h']).kw "while" = false := by decide
@[local simp] theorem kwf_with_with : (Tok.id ['w','i','t','h']).kw "with" = true := by decide
@[local simp] theorem kwf_to_to : (Tok.id ['t','o']).kw "to" = true := by decide
@[local simp] theorem kwf_down_to : (Tok.id ['d','o','w','n']).kw "to" = false := by decide
@[local simp] theorem kwf_down_down : (Tok.id ['d','o','w','n']).kw "down" = true := by decide
@[local simp] theorem kwf_to_down : (Tok.id ['t','o']).kw "down" = false := by decide
@[local simp] theorem kwf_in_in : (Tok.id ['i','n']).kw "in" = true := by decide
@[local simp] theorem kwf_into_into : (Tok.id ['i','n','t','o']).kw "into" = true := by decide
@[local simp] theorem kwf_after_into : (Tok.id ['a','f','t','e','r']).kw "into" = false := by decide
@[local simp] theorem kwf_after_after : (Tok.id ['a','f','t','e','r']).kw "after" = true := by decide
@[local simp] theorem kwf_before_into : (Tok.id ['b','e','f','o','r','e']).kw "into" = false := by decide
@[local simp] theorem kwf_before_after : (Tok.id ['b','e','f','o','r','e']).kw "after" = false := by decide
@[local simp] theorem kwf_before_before : (Tok.id ['b','e','f','o','r','e']).kw "before" = true := by decide

variable (env : Env)

/-! ### expression and assignment target inside a statement -/

theorem binOfTok_nl (l : Nat) : binOfTok l .nl = none := binOfTok_closer l .nl (by simp [Closer])

/-- a whole expression followed by the end of the line -/
theorem rp_expr_nl (e : Expr) (h : Frag env e) (rest : List Tok) (F : Nat) (hF : fuelOf e + 6 ≤ F) :
    pExpr env F (prE e ++ .nl :: rest) = some (e, .nl :: rest) :=
  level_of_e5 env e _ (fuelOf e) (fun F' hF' => rp_e5 env e h _ (nolp_closer _ _ (by simp [Closer])) F' hF') 1 (by omega) (by omega)
    (follow_closer _ _ _ (by simp [Closer])) F hF

/-- a word that is no binary operator and no parenthesis may follow an expression -/
def WordTok (t : Tok) : Prop := (∀ l, binOfTok l t = none) ∧ t ≠ .p .lp

theorem rp_expr_word (e : Expr) (h : Frag env e) (t : Tok) (ht : WordTok t) (rest : List Tok) (F : Nat) (hF : fuelOf e + 6 ≤ F) :
    pExpr env F (prE e ++ t :: rest) = some (e, t :: rest) :=
  level_of_e5 env e (t :: rest) (fuelOf e) (fun F' hF' => rp_e5 env e h _ (by have := ht.2; cases t <;> simp_all [NoLp]) F' hF') 1 (by omega) (by omega)
    (show Follow 1 (t :: rest) from fun l _ => ht.1 l) F hF

/-- assignment targets: a variable the environment resolves as the tree says, or one of the forms that start with
    `the` / `field` / a chunk word -/
def lvKind : Expr → Bool
  | .the _ _ _ | .key _ | .movie _ | .oprop _ _ | .field _ | .chunk _ _ _ _ => true
  | _ => false

def LvOk (env : Env) (lv : Expr) : Prop :=
  (∃ s, prE lv = [.id s] ∧ PlainId s ∧ env.resolveVar s = lv) ∨ (lvKind lv = true ∧ Frag env lv)

theorem lvKind_head (lv : Expr) (h : lvKind lv = true) :
    ∃ s X, prE lv = .id s :: X ∧ ((Tok.id s).kw "the" || (Tok.id s).kw "field" || (chunkOfSingular s).isSome) = true := by
  cases lv <;> simp [lvKind] at h
  case field a => exact ⟨"field".toList, prE a, by simp [prE, kw], by decide⟩
  case the t k as =>
    obtain ⟨X, hX⟩ := prThe_head t k as
    exact ⟨"the".toList, X, by simp [prE, hX, kw], by decide⟩
  case key n => exact ⟨"the".toList, [.id n], by simp [prE, kw], by decide⟩
  case movie n => exact ⟨"the".toList, [.id n], by simp [prE, kw], by decide⟩
  case oprop n o => exact ⟨"the".toList, .id n :: kw "of" :: prE o, by simp [prE, kw], by decide⟩
  case chunk c a b d =>
    have hc := chunkTag_facts c
    by_cases hb : b = .int 0
    · subst hb; exact ⟨c.tag.toList, prE a ++ kw "of" :: prE d, by simp [prE, kw], by simp [hc]⟩
    · refine ⟨c.tag.toList, prE a ++ kw "to" :: prE b ++ kw "of" :: prE d, ?_, by simp [hc]⟩
      cases b with
      | int n => cases n with
        | zero => exact absurd rfl hb
        | succ m => simp [prE, kw]
      | _ => simp [prE, kw]

theorem rp_lvalue (lv : Expr) (h : LvOk env lv) (rest : List Tok) (hn : NoLp rest) (F : Nat) (hF : fuelOf lv ≤ F) :
    pLvalue env F (prE lv ++ rest) = some (lv, rest) := by
  rcases h with ⟨s, hs, ⟨_, _, h3, h4, h5⟩, hr⟩ | ⟨hk, hf⟩
  · simp [hs, pLvalue, h3, h4, h5, hr]
  · obtain ⟨s, X, hpe, hkw⟩ := lvKind_head lv hk
    have := rp_e5 env lv hf rest hn F hF
    rw [hpe] at this ⊢
    simp only [List.cons_append, pLvalue, hkw, if_true]
    simpa using this

/-! ### one lemma per statement form -/

theorem eos_nl (r : List Tok) : eos (.nl :: r) = some r := rfl
theorem kw_nl (k : String) : Tok.nl.kw k = false := rfl
theorem eos_lp (r : List Tok) : eos (.p .lp :: r) = none := rfl

theorem pStmt_set (f : Nat) (X r1 rest : List Tok) (lv v : Expr)
    (h1 : pLvalue env (32 * (X.length + 2)) X = some (lv, .p .eq :: r1))
    (h2 : pExpr env (32 * (X.length + 2)) r1 = some (v, .nl :: rest)) :
    pStmt env (f + 1) (kw "set" :: X) = some (.set lv v, rest) := by
  simp only [kw]
  simp [pStmt, h1, h2, eos]

theorem pStmt_put0 (f : Nat) (rest : List Tok) :
    pStmt env (f + 1) (kw "put" :: .nl :: rest) = some (.call "put".toList [], rest) := by
  simp only [kw]
  simp [pStmt, eos]

/-- `put v into|after|before target` (for `into`, the target is not a plain variable: that is `set`) -/
theorem pStmt_put (f : Nat) (md : PutMode) (X r1 rest : List Tok) (lv v : Expr) (hX : eos X = none)
    (h1 : pExpr env (32 * (X.length + 2)) X = some (v, kw md.tag :: r1))
    (h2 : pLvalue env (32 * (X.length + 2)) r1 = some (lv, .nl :: rest))
    (hmd : md = .into → lvKind lv = true) :
    pStmt env (f + 1) (kw "put" :: X) = some (.put md v lv, rest) := by
  simp only [kw] at h1 ⊢
  simp only [pStmt, kwf_put_set, kwf_put_put, hX, Option.isSome_none, Bool.and_false, Bool.false_eq_true, if_false, if_true, h1]
  cases md
  · have hk := hmd rfl
    simp [PutMode.tag, h2, eos]
    cases lv <;> simp [lvKind] at hk <;> rfl
  · simp [PutMode.tag, h2, eos]
  · simp [PutMode.tag, h2, eos]

/-- `put a, b, c` (the command) -/
theorem pStmt_putCall (f : Nat) (X r1 rest : List Tok) (m : Tok) (v : Expr) (es : List Expr) (hX : eos X = none)
    (h1 : pExpr env (32 * (X.length + 2)) X = some (v, m :: r1))
    (hm : m.kw "into" = false ∧ m.kw "after" = false ∧ m.kw "before" = false)
    (h2 : pMore env (32 * (X.length + 2)) (m :: r1) = some (es, .nl :: rest)) :
    pStmt env (f + 1) (kw "put" :: X) = some (.call "put".toList (v :: es), rest) := by
  simp only [kw]
  simp only [pStmt, kwf_put_set, kwf_put_put, hX, Option.isSome_none, Bool.and_false, Bool.false_eq_true, if_false, if_true, h1]
  simp [hm.1, hm.2.1, hm.2.2, h2, eos]

theorem pStmt_delete (f : Nat) (X rest : List Tok) (tg : Expr)
    (h1 : pLvalue env (32 * (X.length + 2)) X = some (tg, .nl :: rest)) :
    pStmt env (f + 1) (kw "delete" :: X) = some (.delete tg, rest) := by
  simp only [kw]
  simp [pStmt, h1, eos]

theorem pStmt_hilite (f : Nat) (X rest : List Tok) (tg : Expr)
    (h1 : pLvalue env (32 * (X.length + 2)) X = some (tg, .nl :: rest)) :
    pStmt env (f + 1) (kw "hilite" :: X) = some (.hilite tg, rest) := by
  simp only [kw]
  simp [pStmt, h1, eos]

theorem pStmt_exit (f : Nat) (rest : List Tok) :
    pStmt env (f + 1) (kw "exit" :: .nl :: rest) = some (.exit, rest) := by
  simp only [kw]
  simp [pStmt, eos, kw_nl]

theorem pStmt_exitRepeat (f : Nat) (rest : List Tok) :
    pStmt env (f + 1) (kw "exit" :: kw "repeat" :: .nl :: rest) = some (.exitRepeat, rest) := by
  simp only [kw]
  simp [pStmt, eos]

theorem pStmt_tell (f : Nat) (X r2 rest : List Tok) (o : Expr) (body : List Stmt)
    (h1 : pExpr env (32 * (X.length + 2)) X = some (o, .nl :: r2))
    (h2 : pStmts env f r2 = some (body, kw "end" :: kw "tell" :: .nl :: rest)) :
    pStmt env (f + 1) (kw "tell" :: X) = some (.tell o body, rest) := by
  simp only [kw] at h2 ⊢
  simp [pStmt, h1, h2, eos]

theorem pStmt_if (f : Nat) (X r2 rest : List Tok) (c : Expr) (tb : List Stmt)
    (h1 : pExpr env (32 * (X.length + 2)) X = some (c, kw "then" :: .nl :: r2))
    (h2 : pStmts env f r2 = some (tb, kw "end" :: kw "if" :: .nl :: rest)) :
    pStmt env (f + 1) (kw "if" :: X) = some (.ifThen c tb [], rest) := by
  simp only [kw] at h1 h2 ⊢
  simp [pStmt, h1, h2, eos]

theorem pStmt_ifElse (f : Nat) (X r2 r3 rest : List Tok) (c : Expr) (tb eb : List Stmt)
    (h1 : pExpr env (32 * (X.length + 2)) X = some (c, kw "then" :: .nl :: r2))
    (h2 : pStmts env f r2 = some (tb, kw "else" :: .nl :: r3)) (h3 : skipNl r3 = r3)
    (h4 : pStmts env f r3 = some (eb, kw "end" :: kw "if" :: .nl :: rest)) :
    pStmt env (f + 1) (kw "if" :: X) = some (.ifThen c tb eb, rest) := by
  simp only [kw] at h1 h2 h4 ⊢
  simp [pStmt, h1, h2, skipNl, h3, h4, eos]

theorem pStmt_while (f : Nat) (X r3 rest : List Tok) (c : Expr) (body : List Stmt)
    (h1 : pExpr env (32 * (X.length + 3)) X = some (c, .nl :: r3))
    (h2 : pStmts env f r3 = some (body, kw "end" :: kw "repeat" :: .nl :: rest)) :
    pStmt env (f + 1) (kw "repeat" :: kw "while" :: X) = some (.repeatWhile c body, rest) := by
  simp only [kw] at h2 ⊢
  simp [pStmt, h1, h2, eos]

theorem pStmt_withUp (f : Nat) (v : Name) (X r3 r6 rest : List Tok) (a b : Expr) (body : List Stmt)
    (h1 : pExpr env (32 * (X.length + 5)) X = some (a, kw "to" :: r3))
    (h2 : pExpr env (32 * (X.length + 5)) r3 = some (b, .nl :: r6))
    (h3 : pStmts env f r6 = some (body, kw "end" :: kw "repeat" :: .nl :: rest)) :
    pStmt env (f + 1) (kw "repeat" :: kw "with" :: .id v :: .p .eq :: X) = some (.repeatWith (env.resolveVar v) a b false body, rest) := by
  simp only [kw] at h1 h3 ⊢
  simp [pStmt, h1, h2, h3, eos]

theorem pStmt_withDown (f : Nat) (v : Name) (X r3 r6 rest : List Tok) (a b : Expr) (body : List Stmt)
    (h1 : pExpr env (32 * (X.length + 5)) X = some (a, kw "down" :: kw "to" :: r3))
    (h2 : pExpr env (32 * (X.length + 5)) r3 = some (b, .nl :: r6))
    (h3 : pStmts env f r6 = some (body, kw "end" :: kw "repeat" :: .nl :: rest)) :
    pStmt env (f + 1) (kw "repeat" :: kw "with" :: .id v :: .p .eq :: X) = some (.repeatWith (env.resolveVar v) a b true body, rest) := by
  simp only [kw] at h1 h3 ⊢
  simp [pStmt, h1, h2, h3, eos]

theorem pStmt_in (f : Nat) (v : Name) (X r4 rest : List Tok) (l : Expr) (body : List Stmt)
    (h1 : pExpr env (32 * (X.length + 5)) X = some (l, .nl :: r4))
    (h2 : pStmts env f r4 = some (body, kw "end" :: kw "repeat" :: .nl :: rest)) :
    pStmt env (f + 1) (kw "repeat" :: kw "with" :: .id v :: kw "in" :: X) = some (.repeatIn (env.resolveVar v) l body, rest) := by
  simp only [kw] at h2 ⊢
  simp [pStmt, h1, h2, eos, kw_p]

/-- names that can head a command line: none of the statement keywords -/
def cmdName (s : Name) : Bool :=
  ["set", "put", "if", "repeat", "exit", "tell", "delete", "hilite", "end", "else", "global", "instance", "property", "on", "method"].all
    fun k => !(Tok.id s).kw k

theorem cmdName_spec (s : Name) (h : cmdName s = true) :
    (Tok.id s).kw "set" = false ∧ (Tok.id s).kw "put" = false ∧ (Tok.id s).kw "if" = false ∧ (Tok.id s).kw "repeat" = false
    ∧ (Tok.id s).kw "exit" = false ∧ (Tok.id s).kw "tell" = false ∧ (Tok.id s).kw "delete" = false ∧ (Tok.id s).kw "hilite" = false
    ∧ (Tok.id s).kw "end" = false ∧ (Tok.id s).kw "else" = false ∧ (Tok.id s).kw "global" = false ∧ (Tok.id s).kw "instance" = false
    ∧ (Tok.id s).kw "property" = false := by
  simp [cmdName, List.all] at h
  simp [h]

theorem pStmt_sound0 (f : Nat) (m : Name) (rest : List Tok) :
    pStmt env (f + 1) (kw "sound" :: .id m :: .nl :: rest) = some (.call "sound".toList [.sym m], rest) := by
  have c := cmdName_spec ['s','o','u','n','d'] (by decide)
  have k : (Tok.id ['s','o','u','n','d']).kw "sound" = true := by decide
  simp only [kw]
  simp [pStmt, c, k, eos]

theorem pStmt_sound (f : Nat) (m : Name) (X rest : List Tok) (as : List Expr) (hX : eos X = none)
    (h : pArgs env (32 * (X.length + 3)) X = some (as, .nl :: rest)) :
    pStmt env (f + 1) (kw "sound" :: .id m :: X) = some (.call "sound".toList (.sym m :: as), rest) := by
  have c := cmdName_spec ['s','o','u','n','d'] (by decide)
  have k : (Tok.id ['s','o','u','n','d']).kw "sound" = true := by decide
  simp only [kw]
  simp [pStmt, c, k, hX, h, eos_nl]

theorem pStmt_mcall0 (f : Nat) (s m : Name) (rest : List Tok) (hc : cmdName s = true) (hs : (Tok.id s).kw "sound" = false)
    (hv : env.isVar s = true) :
    pStmt env (f + 1) (.id s :: .id m :: .nl :: rest) = some (.mcall (env.resolveVar s) m [], rest) := by
  have c := cmdName_spec s hc
  simp [pStmt, c, hs, hv, eos]

theorem pStmt_mcall (f : Nat) (s m : Name) (X rest : List Tok) (as : List Expr) (hc : cmdName s = true)
    (hs : (Tok.id s).kw "sound" = false) (hv : env.isVar s = true)
    (h : pArgs env (32 * (X.length + 4)) X = some (as, .nl :: rest)) :
    pStmt env (f + 1) (.id s :: .id m :: .p .comma :: X) = some (.mcall (env.resolveVar s) m as, rest) := by
  have c := cmdName_spec s hc
  simp [pStmt, c, hs, hv, h, eos]

theorem pStmt_call0 (f : Nat) (s : Name) (rest : List Tok) (hc : cmdName s = true) (hs : (Tok.id s).kw "sound" = false)
    (hv : env.isVar s = false) :
    pStmt env (f + 1) (.id s :: .nl :: rest) = some (.call s [], rest) := by
  have c := cmdName_spec s hc
  simp [pStmt, c, hs, hv, eos]

theorem pStmt_go (f : Nat) (w : Name) (rest : List Tok) (hw : goWord w = true) (hv : env.isVar "go".toList = false) :
    pStmt env (f + 1) (kw "go" :: .id w :: .nl :: rest) = some (.call "go".toList [.sym w], rest) := by
  have c := cmdName_spec ['g','o'] (by decide)
  have k1 : (Tok.id ['g','o']).kw "sound" = false := by decide
  have k2 : (Tok.id ['g','o']).kw "go" = true := by decide
  simp only [kw]
  simp at hv
  simp [pStmt, c, k1, k2, hv, hw, eos]

/-- `f a, b` where the first argument does not start with a parenthesis -/
theorem pStmt_call (f : Nat) (s : Name) (t : Tok) (X rest : List Tok) (as : List Expr) (hc : cmdName s = true)
    (hs : (Tok.id s).kw "sound" = false) (hv : env.isVar s = false) (ht1 : t ≠ .nl) (ht2 : t ≠ .p .lp)
    (hgo : (Tok.id s).kw "go" = false ∨ ∀ w, t = .id w → goWord w = false)
    (h : pArgs env (32 * (X.length + 3)) (t :: X) = some (as, .nl :: rest)) :
    pStmt env (f + 1) (.id s :: t :: X) = some (.call s as, rest) := by
  have c := cmdName_spec s hc
  have e : 32 * (X.length + 1 + 2) = 32 * (X.length + 3) := by omega
  cases t with
  | nl => exact absurd rfl ht1
  | id w =>
    have hg : ((Tok.id s).kw "go" && goWord w) = false := by
      rcases hgo with hg | hg
      · simp [hg]
      · simp [hg w rfl]
    simp only [Bool.and_eq_false_iff] at hg
    rcases hg with hg | hg <;> simp [pStmt, c, hs, hv, eos, hg, e, h]
  | num n => simp [pStmt, c, hs, hv, eos, e, h, kw_num]
  | flt a b => simp [pStmt, c, hs, hv, eos, e, h, kw_flt]
  | str a => simp [pStmt, c, hs, hv, eos, e, h, kw_str]
  | p x =>
    cases x <;> first | exact absurd rfl ht2 | simp [pStmt, c, hs, hv, eos, e, h, kw_p]

/-! ### auxiliary: argument lists up to the end of the line, heads of printed expressions, fuel -/

/-- tokens a printed expression can start with -/
def exprHead : Tok → Bool
  | .num _ | .str _ | .flt _ _ | .id _ | .p .hash | .p .lp | .p .lb | .p .minus => true
  | _ => false

def headIs (p : Tok → Bool) : List Tok → Bool
  | [] => false
  | t :: _ => p t

theorem prE_exprHead (e : Expr) (h : Frag env e) : headIs exprHead (prE e) = true := by
  cases e with
  | int n => simp [prE, headIs, exprHead]
  | str s =>
    by_cases h0 : s = []
    · simp [prE, strToks, h0, headIs, exprHead]
    · cases hc : nameOfConstant s <;> simp [prE, strToks, h0, hc, headIs, exprHead]
  | float d s => simp [prE, headIs, exprHead]
  | sym n => simp [prE, headIs, exprHead]
  | var k n => simp [prE, headIs, exprHead]
  | un op a => cases op <;> simp [prE, kw, headIs, exprHead]
  | bin op a b => cases hop : op.isInfix <;> simp [prE, hop, kw, headIs, exprHead]
  | field a => simp [prE, kw, headIs, exprHead]
  | call f as => simp [prE, headIs, exprHead]
  | list as => simp [prE, headIs, exprHead]
  | me => simp [prE, kw, headIs, exprHead]
  | mcall o m as =>
    obtain ⟨⟨s, hs, _⟩, _⟩ : RecvOk env o ∧ FragL env as := h
    simp [prE, hs, headIs, exprHead]
  | plist as => cases as <;> simp [prE, headIs, exprHead]
  | the t k as =>
    obtain ⟨X, hX⟩ := prThe_head t k as
    simp [prE, hX, kw, headIs, exprHead]
  | key n => simp [prE, kw, headIs, exprHead]
  | movie n => simp [prE, kw, headIs, exprHead]
  | oprop n o => simp [prE, kw, headIs, exprHead]
  | chunk c a b d =>
    cases b with
    | int n => cases n <;> simp [prE, kw, headIs, exprHead]
    | _ => simp [prE, kw, headIs, exprHead]

/-- an identifier that is not one of the five operator words is no binary operator -/
theorem binOfTok_word (s : Name) (h1 : (Tok.id s).kw "contains" = false) (h2 : (Tok.id s).kw "starts" = false)
    (h3 : (Tok.id s).kw "mod" = false) (h4 : (Tok.id s).kw "and" = false) (h5 : (Tok.id s).kw "or" = false) :
    ∀ l, binOfTok l (.id s) = none := by
  intro l
  match l with
  | 0 => rfl
  | 1 => rfl
  | 2 => simp [binOfTok, h1, h2]
  | 3 => rfl
  | 4 => simp [binOfTok, h3, h4, h5]
  | n + 5 => simp [binOfTok]

theorem wordTok_kw (k : String) (h : ((kw k).kw "contains" || (kw k).kw "starts" || (kw k).kw "mod" || (kw k).kw "and" || (kw k).kw "or") = false) :
    WordTok (kw k) := by
  simp only [Bool.or_eq_false_iff] at h
  exact ⟨binOfTok_word _ h.1.1.1.1 h.1.1.1.2 h.1.1.2 h.1.2 h.2, by simp [kw]⟩

/-- `, a, b` up to any closing token that is not a comma -/
theorem rp_more_c : ∀ (es : List Expr), FragL env es → ∀ (c : Tok), Closer c → c ≠ .p .comma → ∀ (rest : List Tok) (F : Nat),
    fuelOfL es + 1 ≤ F → pMore env F (prTail es ++ c :: rest) = some (es, c :: rest)
  | [], _, c, _, hc2, rest, F, hF => by
    obtain ⟨f, rfl⟩ : ∃ f, F = f + 1 := ⟨F - 1, by omega⟩
    simp only [prTail, List.nil_append]
    cases c with
    | p x => cases x <;> first | exact absurd rfl hc2 | simp [pMore]
    | _ => simp [pMore]
  | e :: es, h, c, hc, hc2, rest, F, hF => by
    obtain ⟨he, hes⟩ : Frag env e ∧ FragL env es := h
    obtain ⟨f, rfl⟩ : ∃ f, F = f + 1 := ⟨F - 1, by omega⟩
    have hE : pLevel env f 1 (prE e ++ (prTail es ++ c :: rest)) = some (e, prTail es ++ c :: rest) := by
      cases es with
      | nil =>
        exact level_of_e5 env e _ (fuelOf e) (fun F' hF' => rp_e5 env e he _ (nolp_closer _ _ hc) F' hF') 1 (by omega) (by omega)
          (follow_closer _ _ _ hc) f (by simp [fuelOfL] at hF; omega)
      | cons e2 es2 =>
        exact level_of_e5 env e _ (fuelOf e) (fun F' hF' => rp_e5 env e he _ (nolp_closer _ _ (Or.inr (Or.inl rfl))) F' hF') 1 (by omega) (by omega)
          (follow_closer _ _ _ (Or.inr (Or.inl rfl))) f (by simp [fuelOfL] at hF; omega)
    have hM := rp_more_c es hes c hc hc2 rest f (by simp [fuelOfL] at hF; omega)
    simp only [prTail, List.cons_append, List.append_assoc, pMore, hE, hM]

/-- `a, b, c` up to any closing token that is not a comma -/
theorem rp_args_c (e : Expr) (es : List Expr) (he : Frag env e) (hes : FragL env es) (c : Tok) (hc : Closer c) (hc2 : c ≠ .p .comma)
    (rest : List Tok) (F : Nat) (hF : fuelOf e + fuelOfL es + 8 ≤ F) :
    pArgs env F (prE e ++ (prTail es ++ c :: rest)) = some (e :: es, c :: rest) := by
  obtain ⟨f, rfl⟩ : ∃ f, F = f + 1 := ⟨F - 1, by omega⟩
  have hE : pLevel env f 1 (prE e ++ (prTail es ++ c :: rest)) = some (e, prTail es ++ c :: rest) := by
    cases es with
    | nil =>
      exact level_of_e5 env e _ (fuelOf e) (fun F' hF' => rp_e5 env e he _ (nolp_closer _ _ hc) F' hF') 1 (by omega) (by omega)
        (follow_closer _ _ _ hc) f (by omega)
    | cons e2 es2 =>
      exact level_of_e5 env e _ (fuelOf e) (fun F' hF' => rp_e5 env e he _ (nolp_closer _ _ (Or.inr (Or.inl rfl))) F' hF') 1 (by omega) (by omega)
        (follow_closer _ _ _ (Or.inr (Or.inl rfl))) f (by omega)
  have hM := rp_more_c env es hes c hc hc2 rest f (by omega)
  simp only [pArgs, hE, hM]

/-- the inside of a parenthesised binary operation, read at level 1: `a op b` up to the closing parenthesis -/
theorem rp_bin_inner (op : BinOp) (hop : op.isInfix = true) (a b : Expr) (ha : Frag env a) (hb : Frag env b) (R : List Tok) (F : Nat)
    (hF : fuelOf a + fuelOf b + 20 ≤ F) :
    pLevel env F 1 (prE a ++ op.tok :: (prE b ++ .p .rp :: R)) = some (.bin op a b, .p .rp :: R) := by
  have hlv := level_range op hop
  have hA : ∀ F', fuelOf a + 6 ≤ F' →
      pLevel env F' (op.level + 1) (prE a ++ op.tok :: (prE b ++ .p .rp :: R)) = some (a, op.tok :: (prE b ++ .p .rp :: R)) :=
    level_of_e5 env a _ (fuelOf a) (fun F' hF' => rp_e5 env a ha _ (nolp_optok op _) F' hF') (op.level + 1) (by omega) (by omega)
      (follow_tok_of_infix op hop _)
  have hB : ∀ F', fuelOf b + 6 ≤ F' → pLevel env F' (op.level + 1) (prE b ++ .p .rp :: R) = some (b, .p .rp :: R) :=
    level_of_e5 env b _ (fuelOf b) (fun F' hF' => rp_e5 env b hb _ (nolp_closer _ _ (Or.inl rfl)) F' hF') (op.level + 1) (by omega) (by omega)
      (follow_closer _ _ _ (Or.inl rfl))
  exact read_infix env op hop a b (prE a) (prE b) (.p .rp :: R) (fuelOf a + fuelOf b + 6)
    (fun F' hF' => hA F' (by omega)) (fun F' hF' => hB F' (by omega)) (follow_closer _ _ _ (Or.inl rfl))
    (op.level - 1) 1 (by omega) (Nat.le_refl 1) F (by omega)

/-- the statement reader's expression fuel (32 per remaining token) covers every printed expression among those tokens -/
theorem fuel_le (e : Expr) (h : Frag env e) (n : Nat) (hn : (prE e).length ≤ n) : fuelOf e + 6 ≤ 32 * (n + 2) := by
  have := fuel_bound env e h
  omega

theorem fuelL_le (es : List Expr) (h : FragL env es) (n : Nat) (hn : (prTail es).length ≤ n) : fuelOfL es + 8 ≤ 32 * (n + 2) := by
  have := fuelL_bound env es h
  omega

theorem fuelArgs_le (e : Expr) (es : List Expr) (he : Frag env e) (hes : FragL env es) (n : Nat)
    (hn : (prE e).length + (prTail es).length ≤ n) : fuelOf e + fuelOfL es + 8 ≤ 32 * (n + 2) := by
  have := fuel_bound env e he
  have := fuelL_bound env es hes
  omega

/-- heads of printed statements: nothing the statement-list reader stops at or skips -/
def stmtHead (t : Tok) : Bool :=
  t != .nl && !t.kw "end" && !t.kw "else" && !t.kw "global" && !t.kw "instance" && !t.kw "property"

theorem pStmts_cons (f : Nat) (t : Tok) (X R' R : List Tok) (s : Stmt) (ss : List Stmt) (ht : stmtHead t = true)
    (h1 : pStmt env f (t :: X) = some (s, R')) (h2 : pStmts env f R' = some (ss, R)) :
    pStmts env (f + 1) (t :: X) = some (s :: ss, R) := by
  simp [stmtHead] at ht
  obtain ⟨⟨⟨⟨⟨t1, t2⟩, t3⟩, t4⟩, t5⟩, t6⟩ := ht
  simp [pStmts, t1, t2, t3, t4, t5, t6, h1, h2]

theorem pStmts_stop (f : Nat) (t : Tok) (r : List Tok) (h : (t.kw "end" || t.kw "else") = true) :
    pStmts env (f + 1) (t :: r) = some ([], t :: r) := by
  have hn : t ≠ .nl := by intro hh; subst hh; simp [kw_nl] at h
  simp [pStmts, hn, h]

/-- `f (a op b)` and `f (a op b), c`: the whole-list-parenthesised reading is tried first; it either gives the same call or fails -/
theorem pStmt_call_paren (f : Nat) (s : Name) (t : Tok) (R r2 rest : List Tok) (e : Expr) (as : List Expr) (hc : cmdName s = true)
    (hs : (Tok.id s).kw "sound" = false) (hv : env.isVar s = false) (ht : t ≠ .p .rp)
    (h1 : pArgs env (32 * (R.length + 4)) (t :: R) = some ([e], .p .rp :: r2))
    (h2 : (r2 = .nl :: rest ∧ as = [e]) ∨ (eos r2 = none ∧ pArgs env (32 * (R.length + 4)) (.p .lp :: t :: R) = some (as, .nl :: rest))) :
    pStmt env (f + 1) (.id s :: .p .lp :: t :: R) = some (.call s as, rest) := by
  have c := cmdName_spec s hc
  have e' : 32 * (R.length + 1 + 1 + 2) = 32 * (R.length + 4) := by omega
  rcases h2 with ⟨h21, h22⟩ | ⟨h21, h22⟩
  · subst h21; subst h22
    cases t with
    | p x => cases x <;> first | exact absurd rfl ht | simp [pStmt, c, hs, hv, eos, kw_p, e', h1]
    | _ => simp [pStmt, c, hs, hv, eos, kw_p, e', h1]
  · cases t with
    | p x => cases x <;> first | exact absurd rfl ht | simp [pStmt, c, hs, hv, eos_nl, eos_lp, kw_p, e', h1, h21, h22]
    | _ => simp [pStmt, c, hs, hv, eos_nl, eos_lp, kw_p, e', h1, h21, h22]

/-! ### the statement fragment -/

/-- loop variable: an identifier that the environment resolves (in assignment position) to the tree's node -/
def VarOk (env : Env) (v : Expr) : Prop := ∃ s, prE v = [.id s] ∧ env.resolveVar s = v

/-- receiver of a method call written as a command `obj mName, args` -/
def RecvStmtOk (env : Env) (o : Expr) : Prop :=
  ∃ s, prE o = [.id s] ∧ cmdName s = true ∧ (Tok.id s).kw "sound" = false ∧ env.isVar s = true ∧ env.resolveVar s = o

/-- command calls: `put a, b`; `sound <word> args`; `go loop|next|previous`; any other name that is no statement keyword and no variable -/
def CallOk (env : Env) (f : Name) (as : List Expr) : Prop :=
  f = "put".toList
  ∨ (f = "sound".toList ∧ ∃ m rest, as = .sym m :: rest)
  ∨ (f = "go".toList ∧ env.isVar f = false ∧ ∃ w, as = [.sym w] ∧ goWord w = true)
  ∨ (cmdName f = true ∧ (Tok.id f).kw "sound" = false ∧ (Tok.id f).kw "go" = false ∧ env.isVar f = false)

mutual
/-- the statement fragment of the round-trip theorem: every statement form; expressions in `Frag`, assignment targets in `LvOk`,
    `put … into` a plain variable excluded (the reader and the decompiler write that as `set`) -/
def FragS (env : Env) : Stmt → Prop
  | .set lv v => LvOk env lv ∧ Frag env v
  | .put md v lv => Frag env v ∧ LvOk env lv ∧ (md = .into → lvKind lv = true)
  | .delete t => LvOk env t
  | .hilite t => LvOk env t
  | .call f as => CallOk env f as ∧ FragL env as
  | .mcall o _ as => RecvStmtOk env o ∧ FragL env as
  | .exit => True
  | .exitRepeat => True
  | .tell o b => Frag env o ∧ FragSs env b
  | .ifThen c t e => Frag env c ∧ FragSs env t ∧ FragSs env e
  | .repeatWhile c b => Frag env c ∧ FragSs env b
  | .repeatWith v a b _ body => VarOk env v ∧ Frag env a ∧ Frag env b ∧ FragSs env body
  | .repeatIn v l body => VarOk env v ∧ Frag env l ∧ FragSs env body
def FragSs (env : Env) : List Stmt → Prop
  | [] => True
  | s :: ss => FragS env s ∧ FragSs env ss
end

mutual
/-- statement fuel that is certainly enough -/
def fuelS : Stmt → Nat
  | .tell _ b => fuelSs b + 1
  | .ifThen _ t e => fuelSs t + fuelSs e + 1
  | .repeatWhile _ b => fuelSs b + 1
  | .repeatWith _ _ _ _ b => fuelSs b + 1
  | .repeatIn _ _ b => fuelSs b + 1
  | _ => 1
def fuelSs : List Stmt → Nat
  | [] => 1
  | s :: ss => fuelS s + fuelSs ss + 1
end

theorem stmtHead_of_cmdName (s : Name) (h : cmdName s = true) : stmtHead (.id s) = true := by
  have c := cmdName_spec s h
  simp [stmtHead, c]

theorem lv_fuel (lv : Expr) (h : LvOk env lv) (n : Nat) (hn : (prE lv).length ≤ n) : fuelOf lv ≤ 32 * (n + 2) := by
  rcases h with ⟨s, _, _, hr⟩ | ⟨_, hf⟩
  · rw [← hr]
    unfold Env.resolveVar
    split
    · simp [fuelOf]; omega
    · split
      · simp [fuelOf]; omega
      · split
        · simp [fuelOf]; omega
        · split <;> simp [fuelOf] <;> omega
  · have := fuel_bound env lv hf
    omega

theorem lv_exprHead (lv : Expr) (h : LvOk env lv) : headIs exprHead (prE lv) = true := by
  rcases h with ⟨s, hs, _⟩ | ⟨_, hf⟩
  · simp [hs, headIs, exprHead]
  · exact prE_exprHead env lv hf

theorem eos_of_exprHead (X Y : List Tok) (h : headIs exprHead X = true) : eos (X ++ Y) = none := by
  cases X with
  | nil => simp [headIs] at h
  | cons t X' => cases t <;> simp_all [headIs, exprHead, eos]

theorem ne_of_kw_false (f : Name) (k : String) (h : (Tok.id f).kw k = false) (hk : lowerName k.toList = k.toList) : f ≠ k.toList := by
  intro hh
  subst hh
  simp [Tok.kw, hk] at h

/-- the first token of a printed statement -/
theorem prS_stmtHead (s : Stmt) (h : FragS env s) : headIs stmtHead (prS s) = true := by
  cases s with
  | set lv v => simp [prS, kw, headIs, stmtHead]
  | put md v lv => simp [prS, kw, headIs, stmtHead]
  | delete t => simp [prS, kw, headIs, stmtHead]
  | hilite t => simp [prS, kw, headIs, stmtHead]
  | exit => simp [prS, kw, headIs, stmtHead]
  | exitRepeat => simp [prS, kw, headIs, stmtHead]
  | tell o b => simp [prS, kw, headIs, stmtHead]
  | ifThen c t e => simp [prS, kw, headIs, stmtHead]
  | repeatWhile c b => simp [prS, kw, headIs, stmtHead]
  | repeatWith v a b d body => simp [prS, kw, headIs, stmtHead]
  | repeatIn v l body => simp [prS, kw, headIs, stmtHead]
  | mcall o m as =>
    obtain ⟨⟨s, hs, hc, _⟩, _⟩ : RecvStmtOk env o ∧ FragL env as := h
    simp [prS, hs, headIs, stmtHead_of_cmdName s hc]
  | call f as =>
    obtain ⟨hc, _⟩ : CallOk env f as ∧ FragL env as := h
    have hh : ∃ X, prCallStmt f as = .id f :: X := by
      unfold prCallStmt
      split
      · split <;> exact ⟨_, rfl⟩
      · split
        · split
          · split <;> exact ⟨_, rfl⟩
          · exact ⟨_, rfl⟩
        · exact ⟨_, rfl⟩
    obtain ⟨X, hX⟩ := hh
    have hf : stmtHead (.id f) = true := by
      rcases hc with hc | ⟨hc, _⟩ | ⟨hc, _⟩ | ⟨hc, _⟩
      · subst hc; decide
      · subst hc; decide
      · subst hc; decide
      · exact stmtHead_of_cmdName f hc
    simp [prS, hX, headIs, hf]

def Stop (rest : List Tok) : Prop := headIs (fun t => t.kw "end" || t.kw "else") rest = true

theorem prSs_head (ss : List Stmt) (h : FragSs env ss) (rest : List Tok) (hr : Stop rest) :
    headIs (fun t => t != .nl) (prSs ss ++ rest) = true := by
  cases ss with
  | nil =>
    cases rest with
    | nil => simp [Stop, headIs] at hr
    | cons t r =>
      simp only [prSs, List.nil_append, headIs]
      simp only [Stop, headIs] at hr
      cases t <;> simp_all [kw_nl]
  | cons s ss =>
    obtain ⟨hs, _⟩ : FragS env s ∧ FragSs env ss := h
    have := prS_stmtHead env s hs
    cases hp : prS s with
    | nil => simp [hp, headIs] at this
    | cons t X =>
      simp only [hp, headIs, stmtHead] at this
      simp only [prSs, hp, List.cons_append, headIs]
      simp at this ⊢
      exact this.1.1.1.1.1

theorem skipNl_of_head (X : List Tok) (h : headIs (fun t => t != .nl) X = true) : skipNl X = X := by
  cases X with
  | nil => rfl
  | cons t X' => cases t <;> simp_all [headIs, skipNl]

/-! ### the round trip -/

theorem rp_expr_closer (e : Expr) (h : Frag env e) (c : Tok) (hc : Closer c) (rest : List Tok) (F : Nat) (hF : fuelOf e + 6 ≤ F) :
    pExpr env F (prE e ++ c :: rest) = some (e, c :: rest) :=
  level_of_e5 env e _ (fuelOf e) (fun F' hF' => rp_e5 env e h _ (nolp_closer _ _ hc) F' hF') 1 (by omega) (by omega)
    (follow_closer _ _ _ hc) F hF

/-- only a (fully parenthesised) binary operation is printed with a leading parenthesis -/
theorem lp_head_is_bin (e : Expr) (h : Frag env e) (X : List Tok) (hp : prE e = .p .lp :: X) :
    ∃ op a b, e = .bin op a b ∧ op.isInfix = true := by
  cases e with
  | bin op a b =>
    cases hop : op.isInfix with
    | true => exact ⟨op, a, b, rfl, hop⟩
    | false => simp [prE, hop, kw] at hp
  | str s =>
    by_cases h0 : s = []
    · simp [prE, strToks, h0] at hp
    · cases hc : nameOfConstant s <;> simp [prE, strToks, h0, hc] at hp
  | un op a => cases op <;> simp [prE, kw] at hp
  | mcall o m as =>
    obtain ⟨⟨s, hs, _⟩, _⟩ : RecvOk env o ∧ FragL env as := h
    simp [prE, hs] at hp
  | plist as => cases as <;> simp [prE] at hp
  | the t k as =>
    obtain ⟨Y, hY⟩ := prThe_head t k as
    simp [prE, hY, kw] at hp
  | chunk c a b d =>
    cases b with
    | int n => cases n <;> simp [prE, kw] at hp
    | _ => simp [prE, kw] at hp
  | _ => simp [prE, kw] at hp

/-- the argument list `a op b` closed by the parenthesis that opened before `a` -/
theorem rp_args_inner (op : BinOp) (hop : op.isInfix = true) (a b : Expr) (ha : Frag env a) (hb : Frag env b) (R : List Tok) (F : Nat)
    (hF : fuelOf a + fuelOf b + 22 ≤ F) :
    pArgs env F (prE a ++ op.tok :: (prE b ++ .p .rp :: R)) = some ([.bin op a b], .p .rp :: R) := by
  obtain ⟨f, rfl⟩ : ∃ f, F = f + 1 := ⟨F - 1, by omega⟩
  obtain ⟨f', rfl⟩ : ∃ f', f = f' + 1 := ⟨f - 1, by omega⟩
  have h1 := rp_bin_inner env op hop a b ha hb R (f' + 1) (by omega)
  simp [pArgs, h1, pMore]

mutual
/-- the statement reader inverts the statement printer, for every statement form and any nesting depth -/
theorem rp_stmt : ∀ (s : Stmt), FragS env s → ∀ (rest : List Tok) (F : Nat), fuelS s ≤ F →
    pStmt env F (prS s ++ rest) = some (s, rest)
  | .set lv v, h, rest, F, hF => by
    obtain ⟨hlv, hv⟩ : LvOk env lv ∧ Frag env v := h
    obtain ⟨f, rfl⟩ : ∃ f, F = f + 1 := ⟨F - 1, by simp [fuelS] at hF; omega⟩
    have h1 := rp_lvalue env lv hlv (.p .eq :: (prE v ++ .nl :: rest)) (by simp [NoLp])
      (32 * ((prE lv ++ .p .eq :: (prE v ++ .nl :: rest)).length + 2))
      (lv_fuel env lv hlv _ (by simp only [List.length_append, List.length_cons]; omega))
    have h2 := rp_expr_nl env v hv rest (32 * ((prE lv ++ .p .eq :: (prE v ++ .nl :: rest)).length + 2))
      (fuel_le env v hv _ (by simp only [List.length_append, List.length_cons]; omega))
    have := pStmt_set env f _ _ rest lv v h1 h2
    simpa [prS] using this
  | .put md v lv, h, rest, F, hF => by
    obtain ⟨hv, hlv, hmd⟩ : Frag env v ∧ LvOk env lv ∧ (md = .into → lvKind lv = true) := h
    obtain ⟨f, rfl⟩ : ∃ f, F = f + 1 := ⟨F - 1, by simp [fuelS] at hF; omega⟩
    have hX : eos (prE v ++ kw md.tag :: (prE lv ++ .nl :: rest)) = none := eos_of_exprHead (prE v) _ (prE_exprHead env v hv)
    have hw : WordTok (kw md.tag) := by cases md <;> exact wordTok_kw _ (by decide)
    have h1 := rp_expr_word env v hv (kw md.tag) hw (prE lv ++ .nl :: rest)
      (32 * ((prE v ++ kw md.tag :: (prE lv ++ .nl :: rest)).length + 2))
      (fuel_le env v hv _ (by simp only [List.length_append, List.length_cons]; omega))
    have h2 := rp_lvalue env lv hlv (.nl :: rest) (by simp [NoLp])
      (32 * ((prE v ++ kw md.tag :: (prE lv ++ .nl :: rest)).length + 2))
      (lv_fuel env lv hlv _ (by simp only [List.length_append, List.length_cons]; omega))
    have := pStmt_put env f md _ _ rest lv v hX h1 h2 hmd
    simpa [prS] using this
  | .delete t, h, rest, F, hF => by
    have hlv : LvOk env t := h
    obtain ⟨f, rfl⟩ : ∃ f, F = f + 1 := ⟨F - 1, by simp [fuelS] at hF; omega⟩
    have h1 := rp_lvalue env t hlv (.nl :: rest) (by simp [NoLp]) (32 * ((prE t ++ .nl :: rest).length + 2))
      (lv_fuel env t hlv _ (by simp only [List.length_append, List.length_cons]; omega))
    have := pStmt_delete env f _ rest t h1
    simpa [prS] using this
  | .hilite t, h, rest, F, hF => by
    have hlv : LvOk env t := h
    obtain ⟨f, rfl⟩ : ∃ f, F = f + 1 := ⟨F - 1, by simp [fuelS] at hF; omega⟩
    have h1 := rp_lvalue env t hlv (.nl :: rest) (by simp [NoLp]) (32 * ((prE t ++ .nl :: rest).length + 2))
      (lv_fuel env t hlv _ (by simp only [List.length_append, List.length_cons]; omega))
    have := pStmt_hilite env f _ rest t h1
    simpa [prS] using this
  | .exit, _, rest, F, hF => by
    obtain ⟨f, rfl⟩ : ∃ f, F = f + 1 := ⟨F - 1, by simp [fuelS] at hF; omega⟩
    simpa [prS] using pStmt_exit env f rest
  | .exitRepeat, _, rest, F, hF => by
    obtain ⟨f, rfl⟩ : ∃ f, F = f + 1 := ⟨F - 1, by simp [fuelS] at hF; omega⟩
    simpa [prS] using pStmt_exitRepeat env f rest
  | .mcall o m as, h, rest, F, hF => by
    obtain ⟨⟨s, hs, hc, hsd, hv, hr⟩, has⟩ : RecvStmtOk env o ∧ FragL env as := h
    obtain ⟨f, rfl⟩ : ∃ f, F = f + 1 := ⟨F - 1, by simp [fuelS] at hF; omega⟩
    cases as with
    | nil =>
      have := pStmt_mcall0 env f s m rest hc hsd hv
      rw [hr] at this
      simpa [prS, hs, prTail] using this
    | cons e es =>
      obtain ⟨he, hes⟩ : Frag env e ∧ FragL env es := has
      have h1 := rp_args_c env e es he hes .nl (by simp [Closer]) (by simp) rest
        (32 * ((prE e ++ (prTail es ++ .nl :: rest)).length + 4))
        (by have := fuelArgs_le env e es he hes (prE e ++ (prTail es ++ .nl :: rest)).length
              (by simp only [List.length_append, List.length_cons]; omega)
            omega)
      have := pStmt_mcall env f s m _ rest (e :: es) hc hsd hv h1
      rw [hr] at this
      simpa [prS, hs, prTail] using this
  | .call fn as, h, rest, F, hF => by
    obtain ⟨hc, has⟩ : CallOk env fn as ∧ FragL env as := h
    obtain ⟨f, rfl⟩ : ∃ f, F = f + 1 := ⟨F - 1, by simp [fuelS] at hF; omega⟩
    rcases hc with hc | ⟨hc, m, as', has'⟩ | ⟨hc, hv, w, has', hw⟩ | ⟨hc, hsd, hgo, hv⟩
    · -- put
      subst hc
      cases as with
      | nil => simpa [prS, prCallStmt, prArgs, kw] using pStmt_put0 env f rest
      | cons e es =>
        obtain ⟨he, hes⟩ : Frag env e ∧ FragL env es := has
        have hX : eos (prE e ++ (prTail es ++ .nl :: rest)) = none := eos_of_exprHead (prE e) _ (prE_exprHead env e he)
        have hfe := fuel_le env e he (prE e ++ (prTail es ++ .nl :: rest)).length (by simp only [List.length_append]; omega)
        have h2 := rp_more_c env es hes .nl (by simp [Closer]) (by simp) rest (32 * ((prE e ++ (prTail es ++ .nl :: rest)).length + 2))
          (by have := fuelL_le env es hes (prE e ++ (prTail es ++ .nl :: rest)).length
                (by simp only [List.length_append]; omega)
              omega)
        cases es with
        | nil =>
          have h1 := rp_expr_nl env e he rest (32 * ((prE e ++ (prTail [] ++ .nl :: rest)).length + 2)) hfe
          have := pStmt_putCall env f _ _ rest .nl e [] hX (by simpa [prTail] using h1) (by simp [kw_nl]) (by simpa [prTail] using h2)
          simpa [prS, prCallStmt, prArgs, prTail, kw] using this
        | cons e2 es2 =>
          have h1 := rp_expr_closer env e he (.p .comma) (by simp [Closer]) (prE e2 ++ (prTail es2 ++ .nl :: rest))
            (32 * ((prE e ++ (prTail (e2 :: es2) ++ .nl :: rest)).length + 2)) hfe
          have := pStmt_putCall env f _ _ rest (.p .comma) e (e2 :: es2) hX (by simpa [prTail] using h1) (by simp [kw_p])
            (by simpa [prTail] using h2)
          simpa [prS, prCallStmt, prArgs_cons, prTail, kw] using this
    · -- sound
      subst hc; subst has'
      obtain ⟨_, has2⟩ : Frag env (.sym m) ∧ FragL env as' := has
      cases as' with
      | nil => simpa [prS, prCallStmt, prArgs, kw] using pStmt_sound0 env f m rest
      | cons e es =>
        obtain ⟨he, hes⟩ : Frag env e ∧ FragL env es := has2
        have hX : eos (prE e ++ (prTail es ++ .nl :: rest)) = none := eos_of_exprHead (prE e) _ (prE_exprHead env e he)
        have h1 := rp_args_c env e es he hes .nl (by simp [Closer]) (by simp) rest
          (32 * ((prE e ++ (prTail es ++ .nl :: rest)).length + 3))
          (by have := fuelArgs_le env e es he hes (prE e ++ (prTail es ++ .nl :: rest)).length
                (by simp only [List.length_append, List.length_cons]; omega)
              omega)
        have := pStmt_sound env f m _ rest (e :: es) hX h1
        simpa [prS, prCallStmt, prArgs_cons, kw] using this
    · -- go loop / next / previous
      subst hc; subst has'
      have := pStmt_go env f w rest hw hv
      simpa [prS, prCallStmt, hw, kw] using this
    · -- any other command
      have hne1 : fn ≠ ['s','o','u','n','d'] := ne_of_kw_false fn "sound" hsd (by decide)
      have hne2 : fn ≠ ['g','o'] := ne_of_kw_false fn "go" hgo (by decide)
      have hpr : prCallStmt fn as = .id fn :: prArgs as := by simp [prCallStmt, hne1, hne2]
      cases as with
      | nil => simpa [prS, hpr, prArgs] using pStmt_call0 env f fn rest hc hsd hv
      | cons e es =>
        obtain ⟨he, hes⟩ : Frag env e ∧ FragL env es := has
        have hhead := prE_exprHead env e he
        cases hpe : prE e with
        | nil => simp [hpe, headIs] at hhead
        | cons t X =>
          rw [hpe] at hhead
          by_cases hlp : t = .p .lp
          · -- `f (a op b) …`
            subst hlp
            obtain ⟨op, a, b, rfl, hop⟩ := lp_head_is_bin env e he X hpe
            obtain ⟨ha, hb⟩ : Frag env a ∧ Frag env b := he
            have hX : X = prE a ++ op.tok :: (prE b ++ [.p .rp]) := by
              simp [prE, hop] at hpe; exact hpe.symm
            have hha := prE_head env a ha
            cases hpa : prE a with
            | nil => simp [hpa, HeadNotRp] at hha
            | cons ta A =>
              rw [hpa] at hha
              have hfa := fuel_bound env a ha
              have hfb := fuel_bound env b hb
              have hfes := fuelL_bound env es hes
              rw [hpa] at hfa
              have h1 := rp_args_inner env op hop a b ha hb (prTail es ++ .nl :: rest)
                (32 * ((A ++ op.tok :: (prE b ++ .p .rp :: (prTail es ++ .nl :: rest))).length + 4))
                (by simp only [List.length_append, List.length_cons] at hfa ⊢; omega)
              rw [hpa] at h1
              have hfull := rp_args_c env (.bin op a b) es ⟨ha, hb⟩ hes .nl (by simp [Closer]) (by simp) rest
                (32 * ((A ++ op.tok :: (prE b ++ .p .rp :: (prTail es ++ .nl :: rest))).length + 4))
                (by simp only [List.length_append, List.length_cons, fuelOf] at hfa ⊢; omega)
              have h2 : (prTail es ++ .nl :: rest = .nl :: rest ∧ (.bin op a b :: es) = [.bin op a b]) ∨
                  (eos (prTail es ++ .nl :: rest) = none ∧
                    pArgs env (32 * ((A ++ op.tok :: (prE b ++ .p .rp :: (prTail es ++ .nl :: rest))).length + 4))
                      (.p .lp :: ta :: (A ++ op.tok :: (prE b ++ .p .rp :: (prTail es ++ .nl :: rest)))) = some (.bin op a b :: es, .nl :: rest)) := by
                cases es with
                | nil => exact Or.inl ⟨by simp [prTail], rfl⟩
                | cons e2 es2 =>
                  refine Or.inr ⟨by simp [prTail, eos], ?_⟩
                  simpa [prE, hop, hpa] using hfull
              have := pStmt_call_paren env f fn ta _ _ rest (.bin op a b) (.bin op a b :: es) hc hsd hv hha.1
                (by simpa using h1) h2
              simpa [prS, hpr, prArgs_cons, prE, hop, hpa] using this
          · have h1 := rp_args_c env e es he hes .nl (by simp [Closer]) (by simp) rest
              (32 * ((X ++ (prTail es ++ .nl :: rest)).length + 3))
              (by have := fuelArgs_le env e es he hes ((X ++ (prTail es ++ .nl :: rest)).length + 1)
                    (by rw [hpe]; simp only [List.length_append, List.length_cons]; omega)
                  omega)
            rw [hpe] at h1
            have htn : t ≠ .nl := by intro hh; subst hh; simp [headIs, exprHead] at hhead
            have := pStmt_call env f fn t (X ++ (prTail es ++ .nl :: rest)) rest (e :: es) hc hsd hv htn hlp (Or.inl hgo)
              (by simpa using h1)
            simpa [prS, hpr, prArgs_cons, hpe] using this
  | .tell o b, h, rest, F, hF => by
    obtain ⟨ho, hb⟩ : Frag env o ∧ FragSs env b := h
    obtain ⟨f, rfl⟩ : ∃ f, F = f + 1 := ⟨F - 1, by simp [fuelS] at hF; omega⟩
    have h1 := rp_expr_nl env o ho (prSs b ++ kw "end" :: kw "tell" :: .nl :: rest)
      (32 * ((prE o ++ .nl :: (prSs b ++ kw "end" :: kw "tell" :: .nl :: rest)).length + 2))
      (fuel_le env o ho _ (by simp only [List.length_append, List.length_cons]; omega))
    have h2 := rp_stmts b hb (kw "end" :: kw "tell" :: .nl :: rest) (by simp [Stop, headIs, kw]) f (by simp [fuelS] at hF; omega)
    have := pStmt_tell env f _ _ rest o b h1 h2
    simpa [prS] using this
  | .ifThen c t e, h, rest, F, hF => by
    obtain ⟨hc, ht, he⟩ : Frag env c ∧ FragSs env t ∧ FragSs env e := h
    obtain ⟨f, rfl⟩ : ∃ f, F = f + 1 := ⟨F - 1, by simp [fuelS] at hF; omega⟩
    have hw : WordTok (kw "then") := wordTok_kw _ (by decide)
    cases e with
    | nil =>
      have h1 := rp_expr_word env c hc (kw "then") hw (.nl :: (prSs t ++ kw "end" :: kw "if" :: .nl :: rest))
        (32 * ((prE c ++ kw "then" :: .nl :: (prSs t ++ kw "end" :: kw "if" :: .nl :: rest)).length + 2))
        (fuel_le env c hc _ (by simp only [List.length_append, List.length_cons]; omega))
      have h2 := rp_stmts t ht (kw "end" :: kw "if" :: .nl :: rest) (by simp [Stop, headIs, kw]) f (by simp [fuelS] at hF; omega)
      have := pStmt_if env f _ _ rest c t h1 h2
      simpa [prS] using this
    | cons e1 es =>
      have h1 := rp_expr_word env c hc (kw "then") hw
        (.nl :: (prSs t ++ kw "else" :: .nl :: (prSs (e1 :: es) ++ kw "end" :: kw "if" :: .nl :: rest)))
        (32 * ((prE c ++ kw "then" :: .nl :: (prSs t ++ kw "else" :: .nl :: (prSs (e1 :: es) ++ kw "end" :: kw "if" :: .nl :: rest))).length + 2))
        (fuel_le env c hc _ (by simp only [List.length_append, List.length_cons]; omega))
      have h2 := rp_stmts t ht (kw "else" :: .nl :: (prSs (e1 :: es) ++ kw "end" :: kw "if" :: .nl :: rest))
        (by simp [Stop, headIs, kw]) f (by simp [fuelS] at hF; omega)
      have h3 := skipNl_of_head _ (prSs_head env (e1 :: es) he (kw "end" :: kw "if" :: .nl :: rest) (by simp [Stop, headIs, kw]))
      have h4 := rp_stmts (e1 :: es) he (kw "end" :: kw "if" :: .nl :: rest) (by simp [Stop, headIs, kw]) f (by simp [fuelS] at hF; omega)
      have := pStmt_ifElse env f _ _ _ rest c t (e1 :: es) h1 h2 h3 h4
      simpa [prS] using this
  | .repeatWhile c b, h, rest, F, hF => by
    obtain ⟨hc, hb⟩ : Frag env c ∧ FragSs env b := h
    obtain ⟨f, rfl⟩ : ∃ f, F = f + 1 := ⟨F - 1, by simp [fuelS] at hF; omega⟩
    have h1 := rp_expr_nl env c hc (prSs b ++ kw "end" :: kw "repeat" :: .nl :: rest)
      (32 * ((prE c ++ .nl :: (prSs b ++ kw "end" :: kw "repeat" :: .nl :: rest)).length + 3))
      (by have := fuel_le env c hc (prE c ++ .nl :: (prSs b ++ kw "end" :: kw "repeat" :: .nl :: rest)).length
            (by simp only [List.length_append, List.length_cons]; omega)
          omega)
    have h2 := rp_stmts b hb (kw "end" :: kw "repeat" :: .nl :: rest) (by simp [Stop, headIs, kw]) f (by simp [fuelS] at hF; omega)
    have := pStmt_while env f _ _ rest c b h1 h2
    simpa [prS] using this
  | .repeatWith v a b down body, h, rest, F, hF => by
    obtain ⟨⟨s, hs, hr⟩, ha, hb, hbody⟩ : VarOk env v ∧ Frag env a ∧ Frag env b ∧ FragSs env body := h
    obtain ⟨f, rfl⟩ : ∃ f, F = f + 1 := ⟨F - 1, by simp [fuelS] at hF; omega⟩
    have h3 := rp_stmts body hbody (kw "end" :: kw "repeat" :: .nl :: rest) (by simp [Stop, headIs, kw]) f (by simp [fuelS] at hF; omega)
    cases down with
    | false =>
      have hw : WordTok (kw "to") := wordTok_kw _ (by decide)
      have h1 := rp_expr_word env a ha (kw "to") hw (prE b ++ .nl :: (prSs body ++ kw "end" :: kw "repeat" :: .nl :: rest))
        (32 * ((prE a ++ kw "to" :: (prE b ++ .nl :: (prSs body ++ kw "end" :: kw "repeat" :: .nl :: rest))).length + 5))
        (by have := fuel_le env a ha (prE a ++ kw "to" :: (prE b ++ .nl :: (prSs body ++ kw "end" :: kw "repeat" :: .nl :: rest))).length
              (by simp only [List.length_append, List.length_cons]; omega)
            omega)
      have h2 := rp_expr_nl env b hb (prSs body ++ kw "end" :: kw "repeat" :: .nl :: rest)
        (32 * ((prE a ++ kw "to" :: (prE b ++ .nl :: (prSs body ++ kw "end" :: kw "repeat" :: .nl :: rest))).length + 5))
        (by have := fuel_le env b hb (prE a ++ kw "to" :: (prE b ++ .nl :: (prSs body ++ kw "end" :: kw "repeat" :: .nl :: rest))).length
              (by simp only [List.length_append, List.length_cons]; omega)
            omega)
      have := pStmt_withUp env f s _ _ _ rest a b body h1 h2 h3
      rw [hr] at this
      simpa [prS, hs] using this
    | true =>
      have hw : WordTok (kw "down") := wordTok_kw _ (by decide)
      have h1 := rp_expr_word env a ha (kw "down") hw (kw "to" :: (prE b ++ .nl :: (prSs body ++ kw "end" :: kw "repeat" :: .nl :: rest)))
        (32 * ((prE a ++ kw "down" :: kw "to" :: (prE b ++ .nl :: (prSs body ++ kw "end" :: kw "repeat" :: .nl :: rest))).length + 5))
        (by have := fuel_le env a ha (prE a ++ kw "down" :: kw "to" :: (prE b ++ .nl :: (prSs body ++ kw "end" :: kw "repeat" :: .nl :: rest))).length
              (by simp only [List.length_append, List.length_cons]; omega)
            omega)
      have h2 := rp_expr_nl env b hb (prSs body ++ kw "end" :: kw "repeat" :: .nl :: rest)
        (32 * ((prE a ++ kw "down" :: kw "to" :: (prE b ++ .nl :: (prSs body ++ kw "end" :: kw "repeat" :: .nl :: rest))).length + 5))
        (by have := fuel_le env b hb (prE a ++ kw "down" :: kw "to" :: (prE b ++ .nl :: (prSs body ++ kw "end" :: kw "repeat" :: .nl :: rest))).length
              (by simp only [List.length_append, List.length_cons]; omega)
            omega)
      have := pStmt_withDown env f s _ _ _ rest a b body h1 h2 h3
      rw [hr] at this
      simpa [prS, hs] using this
  | .repeatIn v l body, h, rest, F, hF => by
    obtain ⟨⟨s, hs, hr⟩, hl, hbody⟩ : VarOk env v ∧ Frag env l ∧ FragSs env body := h
    obtain ⟨f, rfl⟩ : ∃ f, F = f + 1 := ⟨F - 1, by simp [fuelS] at hF; omega⟩
    have h2 := rp_stmts body hbody (kw "end" :: kw "repeat" :: .nl :: rest) (by simp [Stop, headIs, kw]) f (by simp [fuelS] at hF; omega)
    have h1 := rp_expr_nl env l hl (prSs body ++ kw "end" :: kw "repeat" :: .nl :: rest)
      (32 * ((prE l ++ .nl :: (prSs body ++ kw "end" :: kw "repeat" :: .nl :: rest)).length + 5))
      (by have := fuel_le env l hl (prE l ++ .nl :: (prSs body ++ kw "end" :: kw "repeat" :: .nl :: rest)).length
            (by simp only [List.length_append, List.length_cons]; omega)
          omega)
    have := pStmt_in env f s _ _ rest l body h1 h2
    rw [hr] at this
    simpa [prS, hs] using this
/-- … and so does the statement-list reader, up to the `end` / `else` that closes the list -/
theorem rp_stmts : ∀ (ss : List Stmt), FragSs env ss → ∀ (rest : List Tok), Stop rest → ∀ (F : Nat), fuelSs ss ≤ F →
    pStmts env F (prSs ss ++ rest) = some (ss, rest)
  | [], _, rest, hr, F, hF => by
    obtain ⟨f, rfl⟩ : ∃ f, F = f + 1 := ⟨F - 1, by simp [fuelSs] at hF; omega⟩
    cases rest with
    | nil => simp [Stop, headIs] at hr
    | cons t r => simpa [prSs] using pStmts_stop env f t r (by simpa [Stop, headIs] using hr)
  | s :: ss, h, rest, hr, F, hF => by
    obtain ⟨hs, hss⟩ : FragS env s ∧ FragSs env ss := h
    obtain ⟨f, rfl⟩ : ∃ f, F = f + 1 := ⟨F - 1, by simp [fuelSs] at hF; omega⟩
    have hhead := prS_stmtHead env s hs
    have h1 := rp_stmt s hs (prSs ss ++ rest) f (by simp [fuelSs] at hF; omega)
    have h2 := rp_stmts ss hss rest hr f (by simp [fuelSs] at hF; omega)
    cases hp : prS s with
    | nil => simp [hp, headIs] at hhead
    | cons t X =>
      rw [hp] at h1 hhead
      have := pStmts_cons env f t (X ++ (prSs ss ++ rest)) _ rest s ss (by simpa [headIs] using hhead) (by simpa using h1) h2
      simpa [prSs, hp] using this
end

end Drx.Spec
