/-
  Reader ∘ printer = identity, statement level: `pStmt` / `pStmts` invert `prS` / `prSs` (DrxProps/C02.lean, C03.lean).
  One lemma per statement form (hypothesis form: "if the parts read back, the statement reads back"), then the fragment `FragS`
  and the mutual induction over `Stmt` / `List Stmt` — nesting depth is unbounded.
-/
import DrxProofs.SpecLingo
namespace Drx.Spec
set_option linter.unusedSimpArgs false
set_option linter.unusedVariables false

/-! ### keyword facts (closed, by evaluation) -/
@[local simp] theorem kwf_set_end : (Tok.id ['s','e','t']).kw "end" = false := by decide
@[local simp] theorem kwf_set_else : (Tok.id ['s','e','t']).kw "else" = false := by decide
@[local simp] theorem kwf_set_global : (Tok.id ['s','e','t']).kw "global" = false := by decide
@[local simp] theorem kwf_set_instance : (Tok.id ['s','e','t']).kw "instance" = false := by decide
@[local simp] theorem kwf_set_property : (Tok.id ['s','e','t']).kw "property" = false := by decide
@[local simp] theorem kwf_set_set : (Tok.id ['s','e','t']).kw "set" = true := by decide
@[local simp] theorem kwf_set_put : (Tok.id ['s','e','t']).kw "put" = false := by decide
@[local simp] theorem kwf_set_if : (Tok.id ['s','e','t']).kw "if" = false := by decide
@[local simp] theorem kwf_set_repeat : (Tok.id ['s','e','t']).kw "repeat" = false := by decide
@[local simp] theorem kwf_set_exit : (Tok.id ['s','e','t']).kw "exit" = false := by decide
@[local simp] theorem kwf_set_tell : (Tok.id ['s','e','t']).kw "tell" = false := by decide
@[local simp] theorem kwf_set_delete : (Tok.id ['s','e','t']).kw "delete" = false := by decide
@[local simp] theorem kwf_set_hilite : (Tok.id ['s','e','t']).kw "hilite" = false := by decide
@[local simp] theorem kwf_put_end : (Tok.id ['p','u','t']).kw "end" = false := by decide
@[local simp] theorem kwf_put_else : (Tok.id ['p','u','t']).kw "else" = false := by decide
@[local simp] theorem kwf_put_global : (Tok.id ['p','u','t']).kw "global" = false := by decide
@[local simp] theorem kwf_put_instance : (Tok.id ['p','u','t']).kw "instance" = false := by decide
@[local simp] theorem kwf_put_property : (Tok.id ['p','u','t']).kw "property" = false := by decide
@[local simp] theorem kwf_put_set : (Tok.id ['p','u','t']).kw "set" = false := by decide
@[local simp] theorem kwf_put_put : (Tok.id ['p','u','t']).kw "put" = true := by decide
@[local simp] theorem kwf_put_if : (Tok.id ['p','u','t']).kw "if" = false := by decide
@[local simp] theorem kwf_put_repeat : (Tok.id ['p','u','t']).kw "repeat" = false := by decide
@[local simp] theorem kwf_put_exit : (Tok.id ['p','u','t']).kw "exit" = false := by decide
@[local simp] theorem kwf_put_tell : (Tok.id ['p','u','t']).kw "tell" = false := by decide
@[local simp] theorem kwf_put_delete : (Tok.id ['p','u','t']).kw "delete" = false := by decide
@[local simp] theorem kwf_put_hilite : (Tok.id ['p','u','t']).kw "hilite" = false := by decide
@[local simp] theorem kwf_if_end : (Tok.id ['i','f']).kw "end" = false := by decide
@[local simp] theorem kwf_if_else : (Tok.id ['i','f']).kw "else" = false := by decide
@[local simp] theorem kwf_if_global : (Tok.id ['i','f']).kw "global" = false := by decide
@[local simp] theorem kwf_if_instance : (Tok.id ['i','f']).kw "instance" = false := by decide
@[local simp] theorem kwf_if_property : (Tok.id ['i','f']).kw "property" = false := by decide
@[local simp] theorem kwf_if_set : (Tok.id ['i','f']).kw "set" = false := by decide
@[local simp] theorem kwf_if_put : (Tok.id ['i','f']).kw "put" = false := by decide
@[local simp] theorem kwf_if_if : (Tok.id ['i','f']).kw "if" = true := by decide
@[local simp] theorem kwf_if_repeat : (Tok.id ['i','f']).kw "repeat" = false := by decide
@[local simp] theorem kwf_if_exit : (Tok.id ['i','f']).kw "exit" = false := by decide
@[local simp] theorem kwf_if_tell : (Tok.id ['i','f']).kw "tell" = false := by decide
@[local simp] theorem kwf_if_delete : (Tok.id ['i','f']).kw "delete" = false := by decide
@[local simp] theorem kwf_if_hilite : (Tok.id ['i','f']).kw "hilite" = false := by decide
@[local simp] theorem kwf_repeat_end : (Tok.id ['r','e','p','e','a','t']).kw "end" = false := by decide
@[local simp] theorem kwf_repeat_else : (Tok.id ['r','e','p','e','a','t']).kw "else" = false := by decide
@[local simp] theorem kwf_repeat_global : (Tok.id ['r','e','p','e','a','t']).kw "global" = false := by decide
@[local simp] theorem kwf_repeat_instance : (Tok.id ['r','e','p','e','a','t']).kw "instance" = false := by decide
@[local simp] theorem kwf_repeat_property : (Tok.id ['r','e','p','e','a','t']).kw "property" = false := by decide
@[local simp] theorem kwf_repeat_set : (Tok.id ['r','e','p','e','a','t']).kw "set" = false := by decide
@[local simp] theorem kwf_repeat_put : (Tok.id ['r','e','p','e','a','t']).kw "put" = false := by decide
@[local simp] theorem kwf_repeat_if : (Tok.id ['r','e','p','e','a','t']).kw "if" = false := by decide
@[local simp] theorem kwf_repeat_repeat : (Tok.id ['r','e','p','e','a','t']).kw "repeat" = true := by decide
@[local simp] theorem kwf_repeat_exit : (Tok.id ['r','e','p','e','a','t']).kw "exit" = false := by decide
@[local simp] theorem kwf_repeat_tell : (Tok.id ['r','e','p','e','a','t']).kw "tell" = false := by decide
@[local simp] theorem kwf_repeat_delete : (Tok.id ['r','e','p','e','a','t']).kw "delete" = false := by decide
@[local simp] theorem kwf_repeat_hilite : (Tok.id ['r','e','p','e','a','t']).kw "hilite" = false := by decide
@[local simp] theorem kwf_exit_end : (Tok.id ['e','x','i','t']).kw "end" = false := by decide
@[local simp] theorem kwf_exit_else : (Tok.id ['e','x','i','t']).kw "else" = false := by decide
@[local simp] theorem kwf_exit_global : (Tok.id ['e','x','i','t']).kw "global" = false := by decide
@[local simp] theorem kwf_exit_instance : (Tok.id ['e','x','i','t']).kw "instance" = false := by decide
@[local simp] theorem kwf_exit_property : (Tok.id ['e','x','i','t']).kw "property" = false := by decide
@[local simp] theorem kwf_exit_set : (Tok.id ['e','x','i','t']).kw "set" = false := by decide
@[local simp] theorem kwf_exit_put : (Tok.id ['e','x','i','t']).kw "put" = false := by decide
@[local simp] theorem kwf_exit_if : (Tok.id ['e','x','i','t']).kw "if" = false := by decide
@[local simp] theorem kwf_exit_repeat : (Tok.id ['e','x','i','t']).kw "repeat" = false := by decide
@[local simp] theorem kwf_exit_exit : (Tok.id ['e','x','i','t']).kw "exit" = true := by decide
@[local simp] theorem kwf_exit_tell : (Tok.id ['e','x','i','t']).kw "tell" = false := by decide
@[local simp] theorem kwf_exit_delete : (Tok.id ['e','x','i','t']).kw "delete" = false := by decide
@[local simp] theorem kwf_exit_hilite : (Tok.id ['e','x','i','t']).kw "hilite" = false := by decide
@[local simp] theorem kwf_tell_end : (Tok.id ['t','e','l','l']).kw "end" = false := by decide
@[local simp] theorem kwf_tell_else : (Tok.id ['t','e','l','l']).kw "else" = false := by decide
@[local simp] theorem kwf_tell_global : (Tok.id ['t','e','l','l']).kw "global" = false := by decide
@[local simp] theorem kwf_tell_instance : (Tok.id ['t','e','l','l']).kw "instance" = false := by decide
@[local simp] theorem kwf_tell_property : (Tok.id ['t','e','l','l']).kw "property" = false := by decide
@[local simp] theorem kwf_tell_set : (Tok.id ['t','e','l','l']).kw "set" = false := by decide
@[local simp] theorem kwf_tell_put : (Tok.id ['t','e','l','l']).kw "put" = false := by decide
@[local simp] theorem kwf_tell_if : (Tok.id ['t','e','l','l']).kw "if" = false := by decide
@[local simp] theorem kwf_tell_repeat : (Tok.id ['t','e','l','l']).kw "repeat" = false := by decide
@[local simp] theorem kwf_tell_exit : (Tok.id ['t','e','l','l']).kw "exit" = false := by decide
@[local simp] theorem kwf_tell_tell : (Tok.id ['t','e','l','l']).kw "tell" = true := by decide
@[local simp] theorem kwf_tell_delete : (Tok.id ['t','e','l','l']).kw "delete" = false := by decide
@[local simp] theorem kwf_tell_hilite : (Tok.id ['t','e','l','l']).kw "hilite" = false := by decide
@[local simp] theorem kwf_delete_end : (Tok.id ['d','e','l','e','t','e']).kw "end" = false := by decide
@[local simp] theorem kwf_delete_else : (Tok.id ['d','e','l','e','t','e']).kw "else" = false := by decide
@[local simp] theorem kwf_delete_global : (Tok.id ['d','e','l','e','t','e']).kw "global" = false := by decide
@[local simp] theorem kwf_delete_instance : (Tok.id ['d','e','l','e','t','e']).kw "instance" = false := by decide
@[local simp] theorem kwf_delete_property : (Tok.id ['d','e','l','e','t','e']).kw "property" = false := by decide
@[local simp] theorem kwf_delete_set : (Tok.id ['d','e','l','e','t','e']).kw "set" = false := by decide
@[local simp] theorem kwf_delete_put : (Tok.id ['d','e','l','e','t','e']).kw "put" = false := by decide
@[local simp] theorem kwf_delete_if : (Tok.id ['d','e','l','e','t','e']).kw "if" = false := by decide
@[local simp] theorem kwf_delete_repeat : (Tok.id ['d','e','l','e','t','e']).kw "repeat" = false := by decide
@[local simp] theorem kwf_delete_exit : (Tok.id ['d','e','l','e','t','e']).kw "exit" = false := by decide
@[local simp] theorem kwf_delete_tell : (Tok.id ['d','e','l','e','t','e']).kw "tell" = false := by decide
@[local simp] theorem kwf_delete_delete : (Tok.id ['d','e','l','e','t','e']).kw "delete" = true := by decide
@[local simp] theorem kwf_delete_hilite : (Tok.id ['d','e','l','e','t','e']).kw "hilite" = false := by decide
@[local simp] theorem kwf_hilite_end : (Tok.id ['h','i','l','i','t','e']).kw "end" = false := by decide
@[local simp] theorem kwf_hilite_else : (Tok.id ['h','i','l','i','t','e']).kw "else" = false := by decide
@[local simp] theorem kwf_hilite_global : (Tok.id ['h','i','l','i','t','e']).kw "global" = false := by decide
@[local simp] theorem kwf_hilite_instance : (Tok.id ['h','i','l','i','t','e']).kw "instance" = false := by decide
@[local simp] theorem kwf_hilite_property : (Tok.id ['h','i','l','i','t','e']).kw "property" = false := by decide
@[local simp] theorem kwf_hilite_set : (Tok.id ['h','i','l','i','t','e']).kw "set" = false := by decide
@[local simp] theorem kwf_hilite_put : (Tok.id ['h','i','l','i','t','e']).kw "put" = false := by decide
@[local simp] theorem kwf_hilite_if : (Tok.id ['h','i','l','i','t','e']).kw "if" = false := by decide
@[local simp] theorem kwf_hilite_repeat : (Tok.id ['h','i','l','i','t','e']).kw "repeat" = false := by decide
@[local simp] theorem kwf_hilite_exit : (Tok.id ['h','i','l','i','t','e']).kw "exit" = false := by decide
@[local simp] theorem kwf_hilite_tell : (Tok.id ['h','i','l','i','t','e']).kw "tell" = false := by decide
@[local simp] theorem kwf_hilite_delete : (Tok.id ['h','i','l','i','t','e']).kw "delete" = false := by decide
@[local simp] theorem kwf_hilite_hilite : (Tok.id ['h','i','l','i','t','e']).kw "hilite" = true := by decide
@[local simp] theorem kwf_end_end : (Tok.id ['e','n','d']).kw "end" = true := by decide
@[local simp] theorem kwf_end_else : (Tok.id ['e','n','d']).kw "else" = false := by decide
@[local simp] theorem kwf_end_global : (Tok.id ['e','n','d']).kw "global" = false := by decide
@[local simp] theorem kwf_end_instance : (Tok.id ['e','n','d']).kw "instance" = false := by decide
@[local simp] theorem kwf_end_property : (Tok.id ['e','n','d']).kw "property" = false := by decide
@[local simp] theorem kwf_end_set : (Tok.id ['e','n','d']).kw "set" = false := by decide
@[local simp] theorem kwf_end_put : (Tok.id ['e','n','d']).kw "put" = false := by decide
@[local simp] theorem kwf_end_if : (Tok.id ['e','n','d']).kw "if" = false := by decide
@[local simp] theorem kwf_end_repeat : (Tok.id ['e','n','d']).kw "repeat" = false := by decide
@[local simp] theorem kwf_end_exit : (Tok.id ['e','n','d']).kw "exit" = false := by decide
@[local simp] theorem kwf_end_tell : (Tok.id ['e','n','d']).kw "tell" = false := by decide
@[local simp] theorem kwf_end_delete : (Tok.id ['e','n','d']).kw "delete" = false := by decide
@[local simp] theorem kwf_end_hilite : (Tok.id ['e','n','d']).kw "hilite" = false := by decide
@[local simp] theorem kwf_else_end : (Tok.id ['e','l','s','e']).kw "end" = false := by decide
@[local simp] theorem kwf_else_else : (Tok.id ['e','l','s','e']).kw "else" = true := by decide
@[local simp] theorem kwf_else_global : (Tok.id ['e','l','s','e']).kw "global" = false := by decide
@[local simp] theorem kwf_else_instance : (Tok.id ['e','l','s','e']).kw "instance" = false := by decide
@[local simp] theorem kwf_else_property : (Tok.id ['e','l','s','e']).kw "property" = false := by decide
@[local simp] theorem kwf_else_set : (Tok.id ['e','l','s','e']).kw "set" = false := by decide
@[local simp] theorem kwf_else_put : (Tok.id ['e','l','s','e']).kw "put" = false := by decide
@[local simp] theorem kwf_else_if : (Tok.id ['e','l','s','e']).kw "if" = false := by decide
@[local simp] theorem kwf_else_repeat : (Tok.id ['e','l','s','e']).kw "repeat" = false := by decide
@[local simp] theorem kwf_else_exit : (Tok.id ['e','l','s','e']).kw "exit" = false := by decide
@[local simp] theorem kwf_else_tell : (Tok.id ['e','l','s','e']).kw "tell" = false := by decide
@[local simp] theorem kwf_else_delete : (Tok.id ['e','l','s','e']).kw "delete" = false := by decide
@[local simp] theorem kwf_else_hilite : (Tok.id ['e','l','s','e']).kw "hilite" = false := by decide
@[local simp] theorem kwf_then_then : (Tok.id ['t','h','e','n']).kw "then" = true := by decide
@[local simp] theorem kwf_while_while : (Tok.id ['w','h','i','l','e']).kw "while" = true := by decide
@[local simp] theorem kwf_while_with : (Tok.id ['w','h','i','l','e']).kw "with" = false := by decide
@[local simp] theorem kwf_with_while : (Tok.id ['w','i','t','h']).kw "while" = false := by decide
@[local simp] theorem kwf_with_with : (Tok.id ['w','i','t','h']).kw "with" = true := by decide
@[local simp] theorem kwf_to_to : (Tok.id ['t','o']).kw "to" = true := by decide
@[local simp] theorem kwf_down_to : (Tok.id ['d','o','w','n']).kw "to" = false := by decide
@[local simp] theorem kwf_down_down : (Tok.id ['d','o','w','n']).kw "down" = true := by decide
@[local simp] theorem kwf_to_down : (Tok.id ['t','o']).kw "down" = false := by decide
@[local simp] theorem kwf_in_in : (Tok.id ['i','n']).kw "in" = true := by decide
@[local simp] theorem kwf_into_into : (Tok.id ['i','n','t','o']).kw "into" = true := by decide
@[local simp] theorem kwf_after_into : (Tok.id ['a','f','t','e','r']).kw "into" = false := by decide
@[local simp] theorem kwf_after_after : (Tok.id ['a','f','t','e','r']).kw "after" = true := by decide
@[local simp] theorem kwf_before_into : (Tok.id ['b','e','f','o','r','e']).kw "into" = false := by decide
@[local simp] theorem kwf_before_after : (Tok.id ['b','e','f','o','r','e']).kw "after" = false := by decide
@[local simp] theorem kwf_before_before : (Tok.id ['b','e','f','o','r','e']).kw "before" = true := by decide

variable (env : Env)

/-! ### expression and assignment target inside a statement -/

theorem binOfTok_nl (l : Nat) : binOfTok l .nl = none := binOfTok_closer l .nl (by simp [Closer])

/-- a whole expression followed by the end of the line -/
theorem rp_expr_nl (e : Expr) (h : Frag env e) (rest : List Tok) (F : Nat) (hF : fuelOf e + 6 ≤ F) :
    pExpr env F (prE e ++ .nl :: rest) = some (e, .nl :: rest) :=
  level_of_e5 env e _ (fuelOf e) (fun F' hF' => rp_e5 env e h _ (nolp_closer _ _ (by simp [Closer])) F' hF') 1 (by omega) (by omega)
    (follow_closer _ _ _ (by simp [Closer])) F hF

/-- a word that is no binary operator and no parenthesis may follow an expression -/
def WordTok (t : Tok) : Prop := (∀ l, binOfTok l t = none) ∧ t ≠ .p .lp

theorem rp_expr_word (e : Expr) (h : Frag env e) (t : Tok) (ht : WordTok t) (rest : List Tok) (F : Nat) (hF : fuelOf e + 6 ≤ F) :
    pExpr env F (prE e ++ t :: rest) = some (e, t :: rest) :=
  level_of_e5 env e (t :: rest) (fuelOf e) (fun F' hF' => rp_e5 env e h _ (by have := ht.2; cases t <;> simp_all [NoLp]) F' hF') 1 (by omega) (by omega)
    (show Follow 1 (t :: rest) from fun l _ => ht.1 l) F hF

/-- assignment targets: a variable the environment resolves as the tree says, or one of the forms that start with
    `the` / `field` / a chunk word -/
def lvKind : Expr → Bool
  | .the _ _ _ | .key _ | .movie _ | .oprop _ _ | .field _ | .chunk _ _ _ _ => true
  | _ => false

def LvOk (env : Env) (lv : Expr) : Prop :=
  (∃ s, prE lv = [.id s] ∧ PlainId s ∧ env.resolveVar s = lv) ∨ (lvKind lv = true ∧ Frag env lv)

theorem lvKind_head (lv : Expr) (h : lvKind lv = true) :
    ∃ s X, prE lv = .id s :: X ∧ ((Tok.id s).kw "the" || (Tok.id s).kw "field" || (chunkOfSingular s).isSome) = true := by
  cases lv <;> simp [lvKind] at h
  case field a => exact ⟨"field".toList, prE a, by simp [prE, kw], by decide⟩
  case the t k as =>
    obtain ⟨X, hX⟩ := prThe_head t k as
    exact ⟨"the".toList, X, by simp [prE, hX, kw], by decide⟩
  case key n => exact ⟨"the".toList, [.id n], by simp [prE, kw], by decide⟩
  case movie n => exact ⟨"the".toList, [.id n], by simp [prE, kw], by decide⟩
  case oprop n o => exact ⟨"the".toList, .id n :: kw "of" :: prE o, by simp [prE, kw], by decide⟩
  case chunk c a b d =>
    have hc := chunkTag_facts c
    by_cases hb : b = .int 0
    · subst hb; exact ⟨c.tag.toList, prE a ++ kw "of" :: prE d, by simp [prE, kw], by simp [hc]⟩
    · refine ⟨c.tag.toList, prE a ++ kw "to" :: prE b ++ kw "of" :: prE d, ?_, by simp [hc]⟩
      cases b with
      | int n => cases n with
        | zero => exact absurd rfl hb
        | succ m => simp [prE, kw]
      | _ => simp [prE, kw]

theorem rp_lvalue (lv : Expr) (h : LvOk env lv) (rest : List Tok) (hn : NoLp rest) (F : Nat) (hF : fuelOf lv ≤ F) :
    pLvalue env F (prE lv ++ rest) = some (lv, rest) := by
  rcases h with ⟨s, hs, ⟨_, _, h3, h4, h5⟩, hr⟩ | ⟨hk, hf⟩
  · simp [hs, pLvalue, h3, h4, h5, hr]
  · obtain ⟨s, X, hpe, hkw⟩ := lvKind_head lv hk
    have := rp_e5 env lv hf rest hn F hF
    rw [hpe] at this ⊢
    simp only [List.cons_append, pLvalue, hkw, if_true]
    simpa using this

/-! ### one lemma per statement form -/

theorem eos_nl (r : List Tok) : eos (.nl :: r) = some r := rfl
theorem kw_nl (k : String) : Tok.nl.kw k = false := rfl

theorem pStmt_set (f : Nat) (X r1 rest : List Tok) (lv v : Expr)
    (h1 : pLvalue env (32 * (X.length + 2)) X = some (lv, .p .eq :: r1))
    (h2 : pExpr env (32 * (X.length + 2)) r1 = some (v, .nl :: rest)) :
    pStmt env (f + 1) (kw "set" :: X) = some (.set lv v, rest) := by
  simp only [kw]
  simp [pStmt, h1, h2, eos]

theorem pStmt_put0 (f : Nat) (rest : List Tok) :
    pStmt env (f + 1) (kw "put" :: .nl :: rest) = some (.call "put".toList [], rest) := by
  simp only [kw]
  simp [pStmt, eos]

/-- `put v into|after|before target` (for `into`, the target is not a plain variable: that is `set`) -/
theorem pStmt_put (f : Nat) (md : PutMode) (X r1 rest : List Tok) (lv v : Expr) (hX : eos X = none)
    (h1 : pExpr env (32 * (X.length + 2)) X = some (v, kw md.tag :: r1))
    (h2 : pLvalue env (32 * (X.length + 2)) r1 = some (lv, .nl :: rest))
    (hmd : md = .into → lvKind lv = true) :
    pStmt env (f + 1) (kw "put" :: X) = some (.put md v lv, rest) := by
  simp only [kw] at h1 ⊢
  simp only [pStmt, kwf_put_set, kwf_put_put, hX, Option.isSome_none, Bool.and_false, Bool.false_eq_true, if_false, if_true, h1]
  cases md
  · have hk := hmd rfl
    simp [PutMode.tag, h2, eos]
    cases lv <;> simp [lvKind] at hk <;> rfl
  · simp [PutMode.tag, h2, eos]
  · simp [PutMode.tag, h2, eos]

/-- `put a, b, c` (the command) -/
theorem pStmt_putCall (f : Nat) (X r1 rest : List Tok) (m : Tok) (v : Expr) (es : List Expr) (hX : eos X = none)
    (h1 : pExpr env (32 * (X.length + 2)) X = some (v, m :: r1))
    (hm : m.kw "into" = false ∧ m.kw "after" = false ∧ m.kw "before" = false)
    (h2 : pMore env (32 * (X.length + 2)) (m :: r1) = some (es, .nl :: rest)) :
    pStmt env (f + 1) (kw "put" :: X) = some (.call "put".toList (v :: es), rest) := by
  simp only [kw]
  simp only [pStmt, kwf_put_set, kwf_put_put, hX, Option.isSome_none, Bool.and_false, Bool.false_eq_true, if_false, if_true, h1]
  simp [hm.1, hm.2.1, hm.2.2, h2, eos]

theorem pStmt_delete (f : Nat) (X rest : List Tok) (tg : Expr)
    (h1 : pLvalue env (32 * (X.length + 2)) X = some (tg, .nl :: rest)) :
    pStmt env (f + 1) (kw "delete" :: X) = some (.delete tg, rest) := by
  simp only [kw]
  simp [pStmt, h1, eos]

theorem pStmt_hilite (f : Nat) (X rest : List Tok) (tg : Expr)
    (h1 : pLvalue env (32 * (X.length + 2)) X = some (tg, .nl :: rest)) :
    pStmt env (f + 1) (kw "hilite" :: X) = some (.hilite tg, rest) := by
  simp only [kw]
  simp [pStmt, h1, eos]

theorem pStmt_exit (f : Nat) (rest : List Tok) :
    pStmt env (f + 1) (kw "exit" :: .nl :: rest) = some (.exit, rest) := by
  simp only [kw]
  simp [pStmt, eos, kw_nl]

theorem pStmt_exitRepeat (f : Nat) (rest : List Tok) :
    pStmt env (f + 1) (kw "exit" :: kw "repeat" :: .nl :: rest) = some (.exitRepeat, rest) := by
  simp only [kw]
  simp [pStmt, eos]

theorem pStmt_tell (f : Nat) (X r2 rest : List Tok) (o : Expr) (body : List Stmt)
    (h1 : pExpr env (32 * (X.length + 2)) X = some (o, .nl :: r2))
    (h2 : pStmts env f r2 = some (body, kw "end" :: kw "tell" :: .nl :: rest)) :
    pStmt env (f + 1) (kw "tell" :: X) = some (.tell o body, rest) := by
  simp only [kw] at h2 ⊢
  simp [pStmt, h1, h2, eos]

theorem pStmt_if (f : Nat) (X r2 rest : List Tok) (c : Expr) (tb : List Stmt)
    (h1 : pExpr env (32 * (X.length + 2)) X = some (c, kw "then" :: .nl :: r2))
    (h2 : pStmts env f r2 = some (tb, kw "end" :: kw "if" :: .nl :: rest)) :
    pStmt env (f + 1) (kw "if" :: X) = some (.ifThen c tb [], rest) := by
  simp only [kw] at h1 h2 ⊢
  simp [pStmt, h1, h2, eos]

theorem pStmt_ifElse (f : Nat) (X r2 r3 rest : List Tok) (c : Expr) (tb eb : List Stmt)
    (h1 : pExpr env (32 * (X.length + 2)) X = some (c, kw "then" :: .nl :: r2))
    (h2 : pStmts env f r2 = some (tb, kw "else" :: .nl :: r3)) (h3 : skipNl r3 = r3)
    (h4 : pStmts env f r3 = some (eb, kw "end" :: kw "if" :: .nl :: rest)) :
    pStmt env (f + 1) (kw "if" :: X) = some (.ifThen c tb eb, rest) := by
  simp only [kw] at h1 h2 h4 ⊢
  simp [pStmt, h1, h2, skipNl, h3, h4, eos]

theorem pStmt_while (f : Nat) (X r3 rest : List Tok) (c : Expr) (body : List Stmt)
    (h1 : pExpr env (32 * (X.length + 3)) X = some (c, .nl :: r3))
    (h2 : pStmts env f r3 = some (body, kw "end" :: kw "repeat" :: .nl :: rest)) :
    pStmt env (f + 1) (kw "repeat" :: kw "while" :: X) = some (.repeatWhile c body, rest) := by
  simp only [kw] at h2 ⊢
  simp [pStmt, h1, h2, eos]

theorem pStmt_withUp (f : Nat) (v : Name) (X r3 r6 rest : List Tok) (a b : Expr) (body : List Stmt)
    (h1 : pExpr env (32 * (X.length + 5)) X = some (a, kw "to" :: r3))
    (h2 : pExpr env (32 * (X.length + 5)) r3 = some (b, .nl :: r6))
    (h3 : pStmts env f r6 = some (body, kw "end" :: kw "repeat" :: .nl :: rest)) :
    pStmt env (f + 1) (kw "repeat" :: kw "with" :: .id v :: .p .eq :: X) = some (.repeatWith (env.resolveVar v) a b false body, rest) := by
  simp only [kw] at h1 h3 ⊢
  simp [pStmt, h1, h2, h3, eos]

theorem pStmt_withDown (f : Nat) (v : Name) (X r3 r6 rest : List Tok) (a b : Expr) (body : List Stmt)
    (h1 : pExpr env (32 * (X.length + 5)) X = some (a, kw "down" :: kw "to" :: r3))
    (h2 : pExpr env (32 * (X.length + 5)) r3 = some (b, .nl :: r6))
    (h3 : pStmts env f r6 = some (body, kw "end" :: kw "repeat" :: .nl :: rest)) :
    pStmt env (f + 1) (kw "repeat" :: kw "with" :: .id v :: .p .eq :: X) = some (.repeatWith (env.resolveVar v) a b true body, rest) := by
  simp only [kw] at h1 h3 ⊢
  simp [pStmt, h1, h2, h3, eos]

theorem pStmt_in (f : Nat) (v : Name) (X r4 rest : List Tok) (l : Expr) (body : List Stmt)
    (h1 : pExpr env (32 * (X.length + 5)) X = some (l, .nl :: r4))
    (h2 : pStmts env f r4 = some (body, kw "end" :: kw "repeat" :: .nl :: rest)) :
    pStmt env (f + 1) (kw "repeat" :: kw "with" :: .id v :: kw "in" :: X) = some (.repeatIn (env.resolveVar v) l body, rest) := by
  simp only [kw] at h2 ⊢
  simp [pStmt, h1, h2, eos, kw_p]

end Drx.Spec
