/-
  `unpack_float80` returns the CORRECTLY ROUNDED double for every 80-bit value whose nearest double is normal:
  `float80Value q k = roundDbl q (k - 63)`.  The Python code rounds twice (q → double, then the product with 2^k); in the
  normal range the second rounding is exact.  (In the denormal range it is not: finding F102.)
-/
import Drx.Lscr
import Drx.Lscr.LitEvalFloat
import DrxProofs.Py
namespace Drx.Lscr
open Drx

/-! ### bit length -/

theorem bitLen_bounds {q : Nat} (hq : q ≠ 0) : 2 ^ (bitLen q - 1) ≤ q ∧ q < 2 ^ bitLen q ∧ 1 ≤ bitLen q := by
  unfold bitLen
  simp only [hq, if_false]
  refine ⟨?_, ?_, by omega⟩
  · simp only [Nat.add_sub_cancel]; exact Nat.log2_self_le hq
  · exact Nat.lt_log2_self

theorem bitLen_of_range {m : Nat} {b : Nat} (h1 : 2 ^ b ≤ m) (h2 : m < 2 ^ (b + 1)) : bitLen m = b + 1 := by
  have hm : m ≠ 0 := by
    intro h; subst h
    have := Nat.two_pow_pos b
    omega
  unfold bitLen
  simp only [hm, if_false]
  have a : b ≤ m.log2 := (Nat.le_log2 hm).mpr h1
  have c : m.log2 < b + 1 := (Nat.log2_lt hm).mpr h2
  omega

/-! ### the 53-bit rounding of a positive integer, independent of the scale -/

/-- mantissa and exponent offset of `q` rounded to 53 bits -/
def rnd53 (q : Nat) : Nat × Int :=
  let bl := bitLen q
  let m' := if bl ≤ 53 then q * 2 ^ (53 - bl) else shrRNE q (bl - 53)
  if m' = 2 ^ 53 then (2 ^ 52, (bl : Int) - 52) else (m', (bl : Int) - 53)

theorem shrRNE_range {q s : Nat} (hs : 0 < s) (h1 : 2 ^ (52 + s) ≤ q) (h2 : q < 2 ^ (53 + s)) :
    2 ^ 52 ≤ shrRNE q s ∧ shrRNE q s ≤ 2 ^ 53 := by
  have hp : 0 < 2 ^ s := Nat.two_pow_pos s
  have hq1 : 2 ^ 52 ≤ q / 2 ^ s := by
    rw [Nat.le_div_iff_mul_le hp, ← Nat.pow_add]; exact h1
  have hq2 : q / 2 ^ s < 2 ^ 53 := by
    rw [Nat.div_lt_iff_lt_mul hp, ← Nat.pow_add]; exact h2
  unfold shrRNE
  have hs0 : ¬ s = 0 := by omega
  simp only [hs0, if_false]
  split
  · omega
  · split
    · omega
    · split <;> omega

theorem rnd53_range {q : Nat} (hq : q ≠ 0) : 2 ^ 52 ≤ (rnd53 q).1 ∧ (rnd53 q).1 < 2 ^ 53 := by
  obtain ⟨b1, b2, b3⟩ := bitLen_bounds hq
  unfold rnd53
  simp only
  by_cases hbl : bitLen q ≤ 53
  · simp only [hbl, if_true]
    have e1 : 2 ^ 52 = 2 ^ (bitLen q - 1) * 2 ^ (53 - bitLen q) := by rw [← Nat.pow_add]; congr 1; omega
    have e2 : 2 ^ 53 = 2 ^ bitLen q * 2 ^ (53 - bitLen q) := by rw [← Nat.pow_add]; congr 1; omega
    have hp : 0 < 2 ^ (53 - bitLen q) := Nat.two_pow_pos _
    have l1 : 2 ^ 52 ≤ q * 2 ^ (53 - bitLen q) := by rw [e1]; exact Nat.mul_le_mul_right _ b1
    have l2 : q * 2 ^ (53 - bitLen q) < 2 ^ 53 := by rw [e2]; exact Nat.mul_lt_mul_of_pos_right b2 hp
    have hne : ¬ q * 2 ^ (53 - bitLen q) = 2 ^ 53 := by omega
    simp only [hne, if_false]
    exact ⟨l1, l2⟩
  · simp only [hbl, if_false]
    have hs : 0 < bitLen q - 53 := by omega
    have h1 : 2 ^ (52 + (bitLen q - 53)) ≤ q := by
      have : 52 + (bitLen q - 53) = bitLen q - 1 := by omega
      rw [this]; exact b1
    have h2 : q < 2 ^ (53 + (bitLen q - 53)) := by
      have : 53 + (bitLen q - 53) = bitLen q := by omega
      rw [this]; exact b2
    have r := shrRNE_range hs h1 h2
    split
    · simp
    · rename_i hne
      simp only
      omega

theorem rnd53_exp (q : Nat) : (bitLen q : Int) - 53 ≤ (rnd53 q).2 ∧ (rnd53 q).2 ≤ (bitLen q : Int) - 52 := by
  unfold rnd53
  simp only
  by_cases h : (if bitLen q ≤ 53 then q * 2 ^ (53 - bitLen q) else shrRNE q (bitLen q - 53)) = 2 ^ 53
  · simp only [h, if_true]; omega
  · simp only [h, if_false]; omega

/-- in the normal range (`bitLen q - 53 + s ≥ -1074`) rounding `q·2^s` is the 53-bit rounding of `q`, shifted -/
theorem roundDbl_normal {q : Nat} (hq : q ≠ 0) (s : Int) (hn : -1074 ≤ (bitLen q : Int) - 53 + s) :
    roundDbl q s = if (rnd53 q).2 + s + 53 > 1024 then .inf else .fin (rnd53 q).1 ((rnd53 q).2 + s) := by
  have hr := rnd53_range hq
  unfold roundDbl
  simp only [hq, if_false]
  have hmax : max ((bitLen q : Int) - 53 + s) (-1074) = (bitLen q : Int) - 53 + s := by omega
  simp only [hmax]
  have hsh : (bitLen q : Int) - 53 + s - s = (bitLen q : Int) - 53 := by omega
  simp only [hsh]
  unfold rnd53 at hr ⊢
  simp only at hr ⊢
  by_cases hbl : bitLen q ≤ 53
  · have c1 : (bitLen q : Int) - 53 ≤ 0 := by omega
    have c2 : (-((bitLen q : Int) - 53)).toNat = 53 - bitLen q := by omega
    simp only [hbl, c1, if_true, c2] at hr ⊢
    split
    · rename_i h53
      simp only [h53, if_true] at hr ⊢
      have e : (bitLen q : Int) - 53 + s + 1 = (bitLen q : Int) - 52 + s := by omega
      simp only [e]
      have : (2 : Nat) ^ 52 ≥ 2 ^ 52 := Nat.le_refl _
      simp only [this, and_true]
    · rename_i h53
      simp only [h53, if_false] at hr ⊢
      have : q * 2 ^ (53 - bitLen q) ≥ 2 ^ 52 := hr.1
      simp only [this, and_true]
  · have c1 : ¬ ((bitLen q : Int) - 53 ≤ 0) := by omega
    have c2 : ((bitLen q : Int) - 53).toNat = bitLen q - 53 := by omega
    simp only [hbl, c1, if_false, c2] at hr ⊢
    split
    · rename_i h53
      simp only [h53, if_true] at hr ⊢
      have e : (bitLen q : Int) - 53 + s + 1 = (bitLen q : Int) - 52 + s := by omega
      simp only [e]
      have : (2 : Nat) ^ 52 ≥ 2 ^ 52 := Nat.le_refl _
      simp only [this, and_true]
    · rename_i h53
      simp only [h53, if_false] at hr ⊢
      have : shrRNE q (bitLen q - 53) ≥ 2 ^ 52 := hr.1
      simp only [this, and_true]

/-- a normalised 53-bit mantissa is its own rounding -/
theorem rnd53_of_norm {m : Nat} (h1 : 2 ^ 52 ≤ m) (h2 : m < 2 ^ 53) : rnd53 m = (m, 0) := by
  have hb : bitLen m = 53 := bitLen_of_range h1 h2
  unfold rnd53
  simp only [hb, Nat.le_refl, if_true, Nat.sub_self, Nat.pow_zero, Nat.mul_one]
  have : ¬ m = 2 ^ 53 := by omega
  simp only [this, if_false]
  simp


/-! ### unpack_float80 -/

/-- the value computed by `(q*2.0)/(1<<64) * pow(2, k)` is the correctly rounded `q · 2^(k-63)` whenever that is in the normal
    double range (or overflows to infinity) -/
theorem float80Value_normal {q : Nat} (hq : q ≠ 0) (hq64 : q < 2 ^ 64) (k : Int) (hk : k ≤ 1023)
    (hn : -1074 ≤ (bitLen q : Int) - 53 + (k - 63)) : float80Value q k = .ok (roundDbl q (k - 63)) := by
  obtain ⟨b1, b2, b3⟩ := bitLen_bounds hq
  have hbl : bitLen q ≤ 64 := by
    by_cases h : bitLen q ≤ 64
    · exact h
    · exfalso
      have : 2 ^ 64 ≤ 2 ^ (bitLen q - 1) := Nat.pow_le_pow_right (by decide) (by omega)
      omega
  have hr := rnd53_range hq
  have he := rnd53_exp q
  unfold float80Value
  rw [roundDbl_normal hq 0 (by omega), roundDbl_normal hq (k - 63) hn]
  have h0 : ¬ ((rnd53 q).2 + 0 + 53 > 1024) := by omega
  simp only [h0, if_false]
  -- the second rounding: the mantissa already has 53 bits
  have hm0 : (rnd53 q).1 ≠ 0 := by
    have := Nat.two_pow_pos 52
    omega
  have hb53 : bitLen (rnd53 q).1 = 53 := bitLen_of_range hr.1 hr.2
  have second : ∀ t : Int, -1074 ≤ t →
      roundDbl (rnd53 q).1 t = if t + 53 > 1024 then .inf else .fin (rnd53 q).1 t := by
    intro t ht
    rw [roundDbl_normal hm0 t (by rw [hb53]; omega), rnd53_of_norm hr.1 hr.2]
    simp only [Int.zero_add]
  have e1 : (rnd53 q).2 + 0 + 1 - 64 + k = (rnd53 q).2 + (k - 63) := by omega
  have ht : -1074 ≤ (rnd53 q).2 + (k - 63) := by omega
  by_cases hk0 : k ≥ 0
  · have hk1 : ¬ (k > 1023) := by omega
    simp only [hk0, if_true, hk1, if_false, e1]
    rw [second _ ht]
  · have hk2 : ¬ (k < -1074) := by omega
    simp only [hk0, if_false, hk2, e1]
    rw [second _ ht]

/-- the result of a normal-range rounding is a normalised finite double (or infinity) -/
theorem roundDbl_normal_norm {q : Nat} (hq : q ≠ 0) (s : Int) (hn : -1074 ≤ (bitLen q : Int) - 53 + s) {m : Nat} {e : Int}
    (h : roundDbl q s = .fin m e) : NormDbl m e := by
  have hr := rnd53_range hq
  have he := (rnd53_exp q).1
  rw [roundDbl_normal hq s hn] at h
  split at h
  · cases h
  · rename_i hov
    simp only [Dbl.fin.injEq] at h
    obtain ⟨h1, h2⟩ := h
    subst h1; subst h2
    left
    exact ⟨hr.1, hr.2, by omega, by omega⟩

/-- the part of `evalDecimal` after the sign -/
def decBody (neg : Bool) (s : Str) : Option (Bool × Nat × Int) :=
  let ip := s.takeWhile isAsciiDigit
  let r1 := s.dropWhile isAsciiDigit
  let (fp, r2) := match r1 with
    | '.' :: r => (r.takeWhile isAsciiDigit, r.dropWhile isAsciiDigit)
    | r => ([], r)
  if ip = [] then none else
  match digitsVal (ip ++ fp) 0 with
  | none => none
  | some m =>
    match r2 with
    | [] => some (neg, m, - (fp.length : Int))
    | 'e' :: r =>
      let (eneg, ed) := match r with | '-' :: x => (true, x) | '+' :: x => (false, x) | x => (false, x)
      if ed = [] then none else
      (digitsVal ed 0).map fun e => (neg, m, (if eneg then - (e : Int) else (e : Int)) - (fp.length : Int))
    | _ => none

theorem evalDecimal_minus (r : Str) : evalDecimal ('-' :: r) = decBody true r := rfl

theorem evalDecimal_other (s : Str) (hs : ∀ r, s ≠ '-' :: r) : evalDecimal s = decBody false s := by
  unfold evalDecimal decBody
  split
  rename_i x neg s' heq
  split at heq
  · rename_i r; exact absurd rfl (hs r)
  · cases heq; rfl

theorem tail_sign (neg : Bool) (m : Nat) (c : Prop) [Decidable c] (o : Option Int) (g : Int → Int) :
    (if c then none else o.map fun e => (neg, m, g e)) =
      Option.map (fun x : Bool × Nat × Int => (neg, x.2.1, x.2.2)) (if c then none else o.map fun e => (false, m, g e)) := by
  by_cases h : c
  · simp [h]
  · simp only [h, if_false]
    cases o <;> rfl

theorem decBody_sign (neg : Bool) (s : Str) : decBody neg s = (decBody false s).map fun x => (neg, x.2.1, x.2.2) := by
  unfold decBody
  simp only
  split
  · rfl
  · split
    · rfl
    · split
      · rfl
      · split <;> exact tail_sign _ _ _ _ _
      · rfl

/-- reading a negated literal -/
theorem evalDecimal_neg {t : Str} {m : Nat} {ex : Int} (h : evalDecimal t = some (false, m, ex)) :
    evalDecimal ('-' :: t) = some (true, m, ex) := by
  rw [evalDecimal_minus]
  by_cases hm : ∃ r, t = '-' :: r
  · obtain ⟨r, hr⟩ := hm
    subst hr
    rw [evalDecimal_minus, decBody_sign] at h
    cases hb : decBody false r with
    | none => rw [hb] at h; simp at h
    | some v => rw [hb] at h; simp at h
  · have hne : ∀ r, t ≠ '-' :: r := fun r hr => hm ⟨r, hr⟩
    rw [evalDecimal_other t hne] at h
    rw [decBody_sign, h]
    rfl

theorem readDbl_neg {t : Str} {d : Dbl} (h : readDbl t = some (false, d)) : readDbl ('-' :: t) = some (true, d) := by
  unfold readDbl at h ⊢
  cases he : evalDecimal t with
  | none => rw [he] at h; simp at h
  | some v =>
    obtain ⟨ng, m, ex⟩ := v
    rw [he] at h
    simp only [Option.map, Option.some.injEq, Prod.mk.injEq] at h
    obtain ⟨h1, h2⟩ := h
    subst h1
    rw [evalDecimal_neg he]
    simp only [Option.map, h2]

/-- the ten bytes of an 80-bit extended value: sign/exponent word and mantissa -/
def f80Bytes (e q : Nat) : Bytes := encBE 2 e ++ encBE 8 q

theorem f80_fields (e q : Nat) (he : e < 65536) (hq : q < 2 ^ 64) :
    unpackU .be 2 (pySlice (f80Bytes e q) 0 2) = .ok e ∧ unpackU .be 8 (pySlice (f80Bytes e q) 2 10) = .ok q := by
  have h1 : pySlice (f80Bytes e q) 0 2 = encBE 2 e := by
    have := pySlice_nat (f80Bytes e q) 0 2
    rw [show ((0 : Nat) : Int) = 0 from rfl, show ((2 : Nat) : Int) = 2 from rfl] at this
    rw [this]
    simp [slice, f80Bytes]
  have h2 : pySlice (f80Bytes e q) 2 10 = encBE 8 q := by
    have := pySlice_nat (f80Bytes e q) 2 10
    rw [show ((2 : Nat) : Int) = 2 from rfl, show ((10 : Nat) : Int) = 10 from rfl] at this
    rw [this]
    simp [slice, f80Bytes]
    exact List.take_of_length_le (by simp)
  rw [h1, h2]
  exact ⟨unpackU_encOrd .be 2 e (by simpa using he), unpackU_encOrd .be 8 q (by simpa using hq)⟩

/-- **unpack_float80 on normal values** (hypothesis: `repr(float)` round-trips): for an 80-bit value ±q·2^(e'−16383−63) whose
    nearest double is normal (finite, not denormal), the text `unpack_float80` returns reads back as exactly that double, with
    the sign of the value -/
theorem unpackFloat80_normal (H : ReprRoundTrips) (e q : Nat) (he : e < 65536) (hq0 : q ≠ 0) (hq : q < 2 ^ 64)
    (k : Int) (hk' : k = ((if e ≥ 0x8000 then e - 0x8000 else e : Nat) : Int) - 16383) (hk : k ≤ 1023)
    (hn : -1074 ≤ (bitLen q : Int) - 53 + (k - 63)) (m : Nat) (ex : Int) (hfin : roundDbl q (k - 63) = .fin m ex) :
    ∃ t, unpackFloat80 (f80Bytes e q) = .ok t ∧ readDbl t = some (decide (e ≥ 0x8000), .fin m ex) := by
  obtain ⟨f1, f2⟩ := f80_fields e q he hq
  have hv := float80Value_normal hq0 hq k hk hn
  rw [hfin] at hv
  have hnorm := roundDbl_normal_norm hq0 (k - 63) hn hfin
  have hread := H m ex hnorm
  unfold unpackFloat80
  simp only [f1, f2, bind, Except.bind, pure, Except.pure]
  rw [← hk', hv]
  simp only
  by_cases hneg : e ≥ 0x8000
  · simp only [hneg, if_true, decide_true]
    exact ⟨_, rfl, readDbl_neg hread⟩
  · simp only [hneg, if_false, decide_false]
    exact ⟨_, rfl, by simpa using hread⟩

end Drx.Lscr
