/-
  C03 link, byte level (part 1): the model's opcode step (`Link.execI`, agent-link) on the three control-flow instructions of the
  compile scheme, and on `41 ff` (the step −1 of `repeat with … down to`).
-/
import DrxProofs.LinkStack
import DrxProofs.LinkFlowLayout
namespace Drx.LinkFlow
open Drx Drx.Lscr Drx.Gen Drx.Spec Drx.Link

/-- `95 hi lo`: pops the condition, appends `jz a cond (a + x)` -/
theorem exec_jz (ctx : Lscr.Ctx) (x : Nat) (a : Int) (st : PState) (c : Node) (rest : List Node)
    (hs : st.stack = c :: rest) :
    execI ctx (.op3 0x95 x) a st = .ok { st with stack := rest, stmts := st.stmts ++ [jzStmt a c (a + (x : Int))] } := by
  have hl : Opcodes.opcodes.lookup 0x95 = some { cls := "ConditionalJumpOpcode", impl := "ConditionalJumpOpcode", nbytes := 3, kind := "param2", attrs := [] } := rfl
  have e : x / 256 * 256 + x % 256 = x := by omega
  simp only [execI, hl]
  unfold process2
  simp only [PState.pop, hs, PState.addStmt, Bind.bind, Except.bind, pure, Except.pure, jzStmt, e]

/-- `93 hi lo`: appends `jump a (a + x)` -/
theorem exec_jump (ctx : Lscr.Ctx) (x : Nat) (a : Int) (st : PState) :
    execI ctx (.op3 0x93 x) a st = .ok { st with stmts := st.stmts ++ [jumpStmt a (a + (x : Int))] } := by
  have hl : Opcodes.opcodes.lookup 0x93 = some { cls := "FowardJumpOpcode", impl := "FowardJumpOpcode", nbytes := 3, kind := "param2", attrs := [] } := rfl
  have e : x / 256 * 256 + x % 256 = x := by omega
  simp only [execI, hl]
  unfold process2
  simp only [PState.addStmt, jumpStmt, e]

/-- `54 k`: `JumpOpcode.process` -/
theorem exec_back (ctx : Lscr.Ctx) (k : Nat) (a : Int) (st : PState) (s' : List Node) (hj : jumpBack st.stmts a k = .ok s') :
    execI ctx (.op2 0x54 k) a st = .ok { st with stmts := s' } := by
  have hl : Opcodes.opcodes.lookup 0x54 = some { cls := "JumpOpcode", impl := "JumpOpcode", nbytes := 2, kind := "param1", attrs := [] } := rfl
  have hk : ¬ ("param1" = "bi" ∨ "param1" = "tri") := by decide
  simp only [execI, hl, hk, if_false]
  unfold process1
  simp only [hj, Bind.bind, Except.bind, pure, Except.pure]

theorem natStr_one : natStr 1 = S "1" := by decide

/-- `41 ff`: the constant −1 -/
theorem exec_int1_ff (ctx : Lscr.Ctx) (a : Int) (st : PState) :
    execI ctx (.op2 0x41 0xff) a st = .ok { st with stack := .leaf .const (.s (S "-1")) a :: st.stack } := by
  have hl : Opcodes.opcodes.lookup 0x41 = some { cls := "Int1bOpcode", impl := "Int1bOpcode", nbytes := 2, kind := "param1", attrs := [] } := rfl
  have hk : ¬ ("param1" = "bi" ∨ "param1" = "tri") := by decide
  simp only [execI, hl, hk, if_false]
  unfold process1
  have h1 : intStr (int1b 0xff) = S "-1" := by decide
  simp only [PState.push, mkConst, h1]

end Drx.LinkFlow
