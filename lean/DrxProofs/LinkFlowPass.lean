/-
  C03 link, layer F1b: the range scans of the second loop of `condition_detect_in_statements` (`ifScan`, `elseScan`),
  `break_detect_in_statements`, the placeholder replacement and the exit-if replacement, on lists given by position ranges.
-/
import DrxProofs.LinkFlowBasic
namespace Drx.LinkFlow
open Drx Drx.Lscr

/-! ### the "normal if part" scan -/

/-- statements in front of the jz (positions below `start`) are passed over -/
theorem ifScan_pre (op ph : Node) (start stop : Int) (A L l' c' : List Node)
    (hA : AllS (fun p c => c.pyEq op = false ∧ p < start ∧ p < stop) A) (hL : ifScan op ph start stop L = .ok (l', c')) :
    ifScan op ph start stop (A ++ L) = .ok (A ++ l', c') := by
  induction A with
  | nil => simpa using hL
  | cons a A ih =>
    obtain ⟨p, c, rfl, h1, h2, h3⟩ := hA.head
    have ih' := ih hA.tail
    have n1 : ¬ (start ≤ p ∧ p < stop) := by omega
    have n2 : ¬ (p ≥ stop) := by omega
    simp only [List.cons_append, ifScan, h1, n1, n2, ih']
    rfl

/-- the statement whose code `== op` gets the placeholder and is not collected -/
theorem ifScan_hit (op ph : Node) (start stop : Int) (pos : Int) (code : Node) (L l' c' : List Node)
    (hc : code.pyEq op = true) (hL : ifScan op ph start stop L = .ok (l', c')) :
    ifScan op ph start stop (.stmt pos code :: L) = .ok (.stmt pos ph :: l', c') := by
  simp only [ifScan, hc, hL]
  rfl

/-- the statements inside `[start, stop)` are collected; the scan stops at the first statement at or beyond `stop` -/
theorem ifScan_body (op ph : Node) (start stop : Int) (X R : List Node)
    (hX : AllS (fun p c => c.pyEq op = false ∧ start ≤ p ∧ p < stop) X)
    (hR : R = [] ∨ ∃ p c R', R = .stmt p c :: R' ∧ c.pyEq op = false ∧ stop ≤ p) :
    ifScan op ph start stop (X ++ R) = .ok (X ++ R, X) := by
  induction X with
  | nil =>
    rcases hR with rfl | ⟨p, c, R', rfl, h1, h2⟩
    · rfl
    · have n1 : ¬ (start ≤ p ∧ p < stop) := by omega
      have n2 : p ≥ stop := by omega
      simp [ifScan, h1, n1, n2]
  | cons a X ih =>
    obtain ⟨p, c, rfl, h1, h2, h3⟩ := hX.head
    have ih' := ih hX.tail
    have n1 : (start ≤ p ∧ p < stop) := by omega
    have n2 : ¬ (p ≥ stop) := by omega
    simp only [List.cons_append, ifScan, h1, n1, n2, ih']
    rfl

/-- the whole "normal if part" scan on `A ++ jz :: X ++ R` -/
theorem ifScan_split (op ph : Node) (start stop : Int) (A X R : List Node) (pos : Int) (code : Node)
    (hA : AllS (fun p c => c.pyEq op = false ∧ p < start ∧ p < stop) A) (hc : code.pyEq op = true)
    (hX : AllS (fun p c => c.pyEq op = false ∧ start ≤ p ∧ p < stop) X)
    (hR : R = [] ∨ ∃ p c R', R = .stmt p c :: R' ∧ c.pyEq op = false ∧ stop ≤ p) :
    ifScan op ph start stop (A ++ .stmt pos code :: (X ++ R)) = .ok (A ++ .stmt pos ph :: (X ++ R), X) :=
  ifScan_pre op ph start stop A _ _ _ hA (ifScan_hit op ph start stop pos code _ _ _ hc (ifScan_body op ph start stop X R hX hR))

/-! ### the "normal else part" scan -/

theorem elseScan_body (start stop : Int) (E R : List Node) (hE : AllS (fun p _ => start < p ∧ p < stop) E)
    (hR : R = [] ∨ ∃ p c R', R = .stmt p c :: R' ∧ stop ≤ p) : elseScan start stop (E ++ R) = E := by
  induction E with
  | nil =>
    rcases hR with rfl | ⟨p, c, R', rfl, h2⟩
    · rfl
    · have n1 : ¬ (start < p ∧ p < stop) := by omega
      have n2 : p ≥ stop := by omega
      simp [elseScan, Node.pos, n1, n2]
  | cons a E ih =>
    obtain ⟨p, c, rfl, h2, h3⟩ := hE.head
    have ih' := ih hE.tail
    have n1 : (start < p ∧ p < stop) := by omega
    have n2 : ¬ (p ≥ stop) := by omega
    simp [elseScan, Node.pos, n1, n2, ih']

theorem elseScan_pre (start stop : Int) (A L : List Node) (hA : AllS (fun p _ => p ≤ start ∧ p < stop) A) :
    elseScan start stop (A ++ L) = elseScan start stop L := by
  induction A with
  | nil => rfl
  | cons a A ih =>
    obtain ⟨p, c, rfl, h2, h3⟩ := hA.head
    have ih' := ih hA.tail
    have n1 : ¬ (start < p ∧ p < stop) := by omega
    have n2 : ¬ (p ≥ stop) := by omega
    simp [elseScan, Node.pos, n1, n2, ih']

theorem elseScan_split (start stop : Int) (A E R : List Node) (hA : AllS (fun p _ => p ≤ start ∧ p < stop) A)
    (hE : AllS (fun p _ => start < p ∧ p < stop) E) (hR : R = [] ∨ ∃ p c R', R = .stmt p c :: R' ∧ stop ≤ p) :
    elseScan start stop (A ++ (E ++ R)) = E := by
  rw [elseScan_pre start stop A _ hA, elseScan_body start stop E R hE hR]

/-! ### `break_detect_in_statements` changes nothing when no jump of the list leaves the loop -/

theorem breakDetect_id (l : List Node) (r : Option Int) (hl : AllS (fun _ _ => True) l)
    (hj : ∀ e, r = some e → ∀ p jp ja, Node.stmt p (.jump jp ja) ∈ l → ja ≤ e) : breakDetect l r = .ok l := by
  unfold breakDetect
  split
  · rfl
  · rename_i e
    split
    · rfl
    · split
      · rename_i elseJump lastSt revInit hrev
        have hmem : lastSt ∈ l := by
          have : lastSt ∈ l.reverse := by rw [hrev]; simp
          simpa using this
        obtain ⟨p, c, rfl, _⟩ := hl lastSt hmem
        split
        · rename_i x1 jp ja hx
          cases hx
          have := hj e rfl p jp ja hmem
          have n : ¬ e < ja := by omega
          simp [n]
        · rfl
        · rename_i hx1 hx2
          exact absurd rfl (hx2 p c)
      · rfl

/-! ### the placeholder -/

/-- no statement of the list carries an empty if-then of position `opos` -/
def NoPh (opos : Int) (l : List Node) : Prop := AllS (fun _ c => ∀ cd, c ≠ Node.ifThen opos cd [] []) l

theorem finalizeIf_id (opos : Int) (final : Node) (l : List Node) (h : NoPh opos l) : finalizeIf opos final l = l := by
  induction l with
  | nil => rfl
  | cons a l ih =>
    obtain ⟨p, c, rfl, hc⟩ := h.head
    have ih' : List.map _ l = l := ih h.tail
    unfold finalizeIf
    rw [List.map_cons, ih']
    congr 1
    split
    · rename_i p' q cd hx
      cases hx
      split
      · rename_i hq; subst hq; exact absurd rfl (hc cd)
      · rfl
    · rfl

theorem finalizeIf_split (opos : Int) (final cd : Node) (p : Int) (A R : List Node) (hA : NoPh opos A) (hR : NoPh opos R) :
    finalizeIf opos final (A ++ .stmt p (.ifThen opos cd [] []) :: R) = A ++ .stmt p final :: R := by
  have h1 := finalizeIf_id opos final A hA
  have h2 := finalizeIf_id opos final R hR
  unfold finalizeIf at *
  rw [List.map_append, List.map_cons, h1, h2]
  simp

/-! ### exit repeat in if part: the first statement whose code `== op` -/

theorem replaceFirstCode_head (op new : Node) (pos : Int) (code : Node) (rest : List Node) (hc : code.pyEq op = true) :
    replaceFirstCode op new (.stmt pos code :: rest) = .ok (.stmt pos new :: rest) := by
  simp [replaceFirstCode, hc]

end Drx.LinkFlow
