/-
  C06, 32 bits per pixel (decoder24b.py, zero offsets): the PackBits loop fills the planar buffer line by line
  (every byte wraps at the end of a line), the re-ordering loop turns it into 24-bit BMP rows.
-/
import DrxProofs.Bitd16Top
namespace Drx.Bitd
open Drx Drx.Bitd.Spec

theorem put24_spec (width y : Nat) (A B p : Bytes) (v : UInt8) (hA : A.length = y * width) (hp : p.length < width) :
    put24 width (bufP width A B p) p.length (y : Int) v
      = .ok (bufP width A B (p ++ [v]), (if p.length + 1 = width then 0 else p.length + 1),
             (if p.length + 1 = width then (y : Int) - 1 else (y : Int))) := by
  unfold put24
  rw [idx_cast, setAtI_nat]
  have e : y * width + p.length = A.length + p.length + 0 := by omega
  rw [e]
  unfold bufP
  rw [setAt_rowImg A B width 0 width p v hp (by omega)]
  simp only
  by_cases h : p.length + 1 = width
  · have h2 : p.length + 1 ≥ width := by omega
    rw [if_pos h2, if_pos h, if_pos h]
  · have h2 : ¬ (p.length + 1 ≥ width) := by omega
    rw [if_neg h2, if_neg h, if_neg h]

theorem paintRun24_spec (width y : Nat) (v : UInt8) (A B : Bytes) (hA : A.length = y * width) :
    ∀ (n : Nat) (p : Bytes), p.length < width → p.length + n ≤ width →
      paintRun24 width v n (bufP width A B p) p.length (y : Int)
        = .ok (bufP width A B (p ++ List.replicate n v),
               (if p.length + n = width then 0 else p.length + n),
               (if p.length + n = width then (y : Int) - 1 else (y : Int))) := by
  intro n
  induction n with
  | zero =>
    intro p hlt _
    have h0 : ¬ (p.length + 0 = width) := by omega
    rw [if_neg h0, if_neg h0]
    simp [paintRun24]
  | succ n ih =>
    intro p hlt hp
    unfold paintRun24
    rw [put24_spec width y A B p v hA hlt]
    simp only
    by_cases hfull : p.length + 1 = width
    · have hn : n = 0 := by omega
      subst hn
      simp only [hfull, if_true, paintRun24]
      simp
    · simp only [hfull, if_false]
      have := ih (p ++ [v]) (by simp; omega) (by simp; omega)
      simp only [List.length_append, List.length_singleton] at this
      rw [this]
      have e1 : p.length + 1 + n = p.length + (n + 1) := by omega
      simp only [e1, List.append_assoc, List.singleton_append, List.replicate_succ]

theorem paintLit24_spec (width y : Nat) (A B : Bytes) (hA : A.length = y * width) :
    ∀ (bs p rest : Bytes), p.length < width → p.length + bs.length ≤ width →
      paintLit24 width bs.length (bs ++ rest) (bufP width A B p) p.length (y : Int)
        = .ok (bufP width A B (p ++ bs),
               (if p.length + bs.length = width then 0 else p.length + bs.length),
               (if p.length + bs.length = width then (y : Int) - 1 else (y : Int)), rest) := by
  intro bs
  induction bs with
  | nil =>
    intro p rest hlt _
    have h0 : ¬ (p.length + ([] : Bytes).length = width) := by simp; omega
    rw [if_neg h0, if_neg h0]
    simp [paintLit24]
  | cons v bs ih =>
    intro p rest hlt hp
    simp only [List.length_cons] at hp ⊢
    unfold paintLit24
    simp only [List.cons_append]
    rw [put24_spec width y A B p v hA hlt]
    simp only
    by_cases hfull : p.length + 1 = width
    · have hn : bs = [] := List.eq_nil_of_length_eq_zero (by omega)
      subst hn
      simp only [hfull, if_true, paintLit24, List.length_nil, Nat.zero_add, List.nil_append]
    · simp only [hfull, if_false]
      have := ih (p ++ [v]) rest (by simp; omega) (by simp; omega)
      simp only [List.length_append, List.length_singleton] at this
      rw [this]
      have e1 : p.length + 1 + bs.length = p.length + (bs.length + 1) := by omega
      simp only [e1, List.append_assoc, List.singleton_append]

theorem loop24_nil (width : Nat) (data : Bytes) (x : Nat) (yI : Int) : loop24 width [] data x yI = .ok data := by
  rw [loop24]; split <;> rfl

theorem loop24_run (width n : Nat) (v : UInt8) (rest data : Bytes) (x : Nat) (yI : Int) (h2 : 2 ≤ n) (h128 : n ≤ 128) (hy : 0 ≤ yI) :
    loop24 width ((Op.run n v).bytes ++ rest) data x yI =
      match paintRun24 width v n data x yI with
      | .error e => .error e
      | .ok (data, x, y) => loop24 width rest data x y := by
  have e1 : (UInt8.ofNat (257 - n)).toNat = 257 - n := by
    simp only [UInt8.toNat_ofNat']; omega
  simp only [Op.bytes, List.cons_append, List.nil_append]
  rw [loop24]
  have e0 : ¬ (yI < 0) := by omega
  have e2 : (257 - n ≥ 128) := by omega
  have e3 : 257 - (257 - n) = n := by omega
  simp only [e0, e1, e2, e3, if_true, if_false]
  cases paintRun24 width v n data x yI with
  | error e => rfl
  | ok a => obtain ⟨d, x', y'⟩ := a; rfl

theorem loop24_lit (width : Nat) (bs : Bytes) (rest data : Bytes) (x : Nat) (yI : Int) (h1 : 1 ≤ bs.length) (h128 : bs.length ≤ 128) (hy : 0 ≤ yI) :
    loop24 width ((Op.lit bs).bytes ++ rest) data x yI =
      match paintLit24 width bs.length (bs ++ rest) data x yI with
      | .error e => .error e
      | .ok (data, x, y, r2) => loop24 width r2 data x y := by
  have e1 : (UInt8.ofNat (bs.length - 1)).toNat = bs.length - 1 := by
    simp only [UInt8.toNat_ofNat']; omega
  simp only [Op.bytes, List.cons_append]
  rw [loop24.eq_def]
  have e0 : ¬ (yI < 0) := by omega
  have e2 : ¬ (bs.length - 1 ≥ 128) := by omega
  have e3 : bs.length - 1 + 1 = bs.length := by omega
  simp only [e0, e1, e2, if_false]
  split <;> rename_i heq <;> rw [e1, e3] at heq <;> simp only [heq]

theorem loop24_op (width y : Nat) (A B : Bytes) (hA : A.length = y * width)
    (o : Op) (hv : o.valid = true) (p rest : Bytes) (hlt : p.length < width) (hfit : p.length + o.expand.length ≤ width) :
    loop24 width (o.bytes ++ rest) (bufP width A B p) p.length (y : Int)
      = loop24 width rest (bufP width A B (p ++ o.expand))
          (if p.length + o.expand.length = width then 0 else p.length + o.expand.length)
          (if p.length + o.expand.length = width then (y : Int) - 1 else (y : Int)) := by
  cases o with
  | lit bs =>
    simp only [Op.valid, Bool.and_eq_true, decide_eq_true_eq] at hv
    simp only [Op.expand] at hfit ⊢
    rw [loop24_lit width bs rest _ _ _ hv.1 hv.2 (by omega)]
    rw [paintLit24_spec width y A B hA bs p rest hlt hfit]
    rfl
  | run n v =>
    simp only [Op.valid, Bool.and_eq_true, decide_eq_true_eq] at hv
    simp only [Op.expand, List.length_replicate] at hfit ⊢
    rw [loop24_run width n v rest _ _ _ hv.1 hv.2 (by omega)]
    rw [paintRun24_spec width y v A B hA n p hlt hfit]

theorem loop24_ops (width y : Nat) (A B : Bytes) (hA : A.length = y * width) (rest : Bytes) :
    ∀ (ops : List Op) (p : Bytes), (∀ o ∈ ops, o.valid = true) → ops ≠ [] → p.length + (unpack ops).length = width → p.length < width →
      loop24 width (packed ops ++ rest) (bufP width A B p) p.length (y : Int)
        = loop24 width rest (bufP width A B (p ++ unpack ops)) 0 ((y : Int) - 1) := by
  intro ops
  induction ops with
  | nil => intro p _ h; exact absurd rfl h
  | cons o os ih =>
    intro p hv _ hlen hlt
    have hvo := hv o (by simp)
    have hvos : ∀ o' ∈ os, o'.valid = true := fun o' h => hv o' (by simp [h])
    simp only [unpack, packed, List.flatMap_cons, List.length_append, List.append_assoc] at hlen ⊢
    rw [loop24_op width y A B hA o hvo p _ hlt (by omega)]
    have hpos1 := expand_length_pos o hvo
    cases os with
    | nil =>
      simp only [List.flatMap_nil, List.length_nil, Nat.add_zero, List.nil_append, List.append_nil] at hlen ⊢
      simp only [hlen, if_true]
    | cons o2 os2 =>
      have hpos2 := expand_length_pos o2 (hvos o2 (by simp))
      have hne : ¬ (p.length + o.expand.length = width) := by
        simp only [List.flatMap_cons, List.length_append] at hlen; omega
      simp only [hne, if_false]
      have := ih (p ++ o.expand) hvos (by simp) (by simp only [unpack, List.length_append]; omega)
        (by simp only [List.flatMap_cons, List.length_append] at hlen ⊢; omega)
      simp only [List.length_append, unpack, packed] at this
      rw [this]
      simp [List.append_assoc]

theorem loop24_rows (width : Nat) (hpos : 0 < width) :
    ∀ (opsRows : List (List Op)) (rows : List Bytes) (y : Nat) (B : Bytes),
      validRows opsRows rows = true → rows.length = y + 1 → (∀ r ∈ rows, r.length = width) →
      loop24 width (packed opsRows.flatten) (zeros ((y + 1) * width) ++ B) 0 (y : Int) = .ok (rows.reverse.flatten ++ B) := by
  intro opsRows
  induction opsRows with
  | nil =>
    intro rows y B hv hl _
    cases rows with
    | nil => simp at hl
    | cons r rs => simp [validRows] at hv
  | cons ops os ih =>
    intro rows y B hv hl hlen
    cases rows with
    | nil => simp [validRows] at hv
    | cons r rs =>
      simp only [validRows, Bool.and_eq_true, List.all_eq_true, beq_iff_eq] at hv
      obtain ⟨⟨hvo, hun⟩, hvr⟩ := hv
      have hr : r.length = width := hlen r (by simp)
      have hne : ops ≠ [] := by
        intro h; subst h; simp [unpack] at hun; subst hun; simp at hr; omega
      have hz : zeros ((y + 1) * width) = zeros (y * width) ++ rowImg width 0 width [] := by
        rw [rowImg_nil _ _ _ (by omega), ← zeros_add]; congr 1; rw [Nat.add_mul]; simp
      have hstep := loop24_ops width y (zeros (y * width)) B (by simp) (packed os.flatten) ops [] hvo hne (by simp [hun, hr]) (by simpa using hpos)
      simp only [bufP, List.nil_append, List.length_nil] at hstep
      have hpk : packed (ops :: os).flatten = packed ops ++ packed os.flatten := by simp [packed]
      rw [hpk, hz]
      simp only [List.append_assoc] at hstep ⊢
      rw [hstep, hun, rowImg_full width r hr]
      by_cases hy : y = 0
      · subst hy
        have : rs = [] := by simp at hl; exact hl
        subst this
        have hos : os = [] := by
          cases os with
          | nil => rfl
          | cons a b => simp [validRows] at hvr
        subst hos
        simp only [List.flatten_nil, packed, List.flatMap_nil]
        rw [loop24_nil]
        simp [zeros_zero]
      · obtain ⟨y', rfl⟩ : ∃ y', y = y' + 1 := ⟨y - 1, by omega⟩
        have hl' : rs.length = y' + 1 := by simp at hl; omega
        have e : (((y' + 1 : Nat) : Int) - 1) = (y' : Int) := by omega
        rw [e]
        have := ih rs y' (r ++ B) hvr hl' (fun r' h => hlen r' (by simp [h]))
        rw [this]
        simp [List.append_assoc]

end Drx.Bitd
