/-
  C03 link: `JumpOpcode.process` (`Flow.jumpBack`) and the event stream of a compiled skeleton: running the events through the
  model's `jumpBack` produces exactly the statement list `emit false` on which `condition_detect` is proved to work.
-/
import DrxProofs.LinkFlowLoop
namespace Drx.LinkFlow
open Drx Drx.Lscr

theorem filter_none {l : List Node} {f : Node → Bool} (h : ∀ x ∈ l, f x = false) : l.filter f = [] := by
  induction l with
  | nil => rfl
  | cons x l ih =>
    rw [List.filter_cons, h x List.mem_cons_self]
    exact ih fun y hy => h y (List.mem_cons_of_mem _ hy)

theorem filter_all {l : List Node} {f : Node → Bool} (h : ∀ x ∈ l, f x = true) : l.filter f = l := by
  induction l with
  | nil => rfl
  | cons x l ih =>
    rw [List.filter_cons, h x List.mem_cons_self]
    simp only [if_true]
    rw [ih fun y hy => h y (List.mem_cons_of_mem _ hy)]

/-- `JumpOpcode.process`: the statements at or after the jump target become the body of a `repeat while TRUE` appended in their
    place (positions in the list are increasing: everything before the target stays) -/
theorem jumpBack_split (done B : List Node) (index : Int) (op1 : Nat) (s : Int) (hs : index - op1 = s)
    (hd : AllS (fun p _ => p < s) done) (hB : AllS (fun p _ => s ≤ p) B) :
    jumpBack (done ++ B) index op1 = .ok (done ++ [.stmt index (rawLoop s index B)]) := by
  unfold jumpBack
  simp only [hs]
  have hf : (done ++ B).filter (fun st => decide (st.pos ≥ s)) = B := by
    rw [List.filter_append, filter_none, filter_all, List.nil_append]
    · intro x hx; obtain ⟨p, c, rfl, hp⟩ := hB x hx; simpa [Node.pos] using hp
    · intro x hx; obtain ⟨p, c, rfl, hp⟩ := hd x hx; simp [Node.pos]; omega
  rw [hf]
  have hr : pyRemoveAll (done ++ B) B = .ok done := by
    have := pyRemoveAll_block done B [] (allS_true hd) (allS_true hB) (by
      intro a ha x hx
      obtain ⟨pa, ca, rfl, hpa⟩ := hd a ha
      obtain ⟨px, cx, rfl, hpx⟩ := hB x hx
      simp [Node.pos]; omega)
    simpa using this
  rw [hr]
  rfl

theorem runEv_st (stmts : List Node) (n : Node) (es : List Ev) : runEv stmts (.st n :: es) = runEv (stmts ++ [n]) es := by
  simp only [runEv]

theorem runEv_back (stmts s' : List Node) (i : Int) (k : Nat) (es : List Ev) (h : jumpBack stmts i k = .ok s') :
    runEv stmts (.back i k :: es) = runEv s' es := by
  simp only [runEv, h]

theorem allS_jz {φ : Int → Node → Prop} (p : Int) (c : Node) (a : Int) (h : φ p (.jz p c a)) : AllS φ [jzStmt p c a] :=
  AllS.cons h AllS.nil

theorem rawEv1_if_noelse (o : Int) (csz : Nat) (cond : Node) (t : List P) :
    rawEv1 o (.ifThen csz cond t []) = .st (jzStmt (o + csz) cond (o + csz + 3 + P.sizes t)) :: rawEv (o + csz + 3) t := by
  simp [rawEv1]
theorem rawEv1_if_else (o : Int) (csz : Nat) (cond : Node) (t e : List P) (h : e ≠ []) :
    rawEv1 o (.ifThen csz cond t e) = .st (jzStmt (o + csz) cond (o + csz + 3 + P.sizes t + 3)) ::
        (rawEv (o + csz + 3) t ++
          .st (jumpStmt (o + csz + 3 + P.sizes t) (o + csz + 3 + P.sizes t + 3 + P.sizes e)) :: rawEv (o + csz + 3 + P.sizes t + 3) e) := by
  have : e.isEmpty = false := by cases e <;> simp_all
  simp [rawEv1, this]
theorem rawEv1_loop (o : Int) (csz : Nat) (cond : Node) (body : List P) :
    rawEv1 o (.loop csz cond body) = .st (jzStmt (o + csz) cond (o + csz + 3 + P.sizes body + 2)) ::
      (rawEv (o + csz + 3) body ++ [.back (o + csz + 3 + P.sizes body) (csz + 3 + P.sizes body)]) := by
  simp [rawEv1]

theorem rawEv1_loopX (o : Int) (csz : Nat) (cond : Node) (b1 : List P) (csz2 : Nat) (cond2 : Node) (t b2 : List P) :
    rawEv1 o (.loopX csz cond b1 csz2 cond2 t b2) =
      .st (jzStmt (o + csz) cond (o + csz + 3 + (P.sizes b1 + (csz2 + 3 + P.sizes t + 3) + P.sizes b2) + 2)) ::
        (rawEv (o + csz + 3) b1 ++
          .st (jzStmt (o + csz + 3 + P.sizes b1 + csz2) cond2 (o + csz + 3 + P.sizes b1 + csz2 + 3 + P.sizes t + 3)) ::
            (rawEv (o + csz + 3 + P.sizes b1 + csz2 + 3) t ++
              .st (jumpStmt (o + csz + 3 + P.sizes b1 + csz2 + 3 + P.sizes t)
                  (o + csz + 3 + (P.sizes b1 + (csz2 + 3 + P.sizes t + 3) + P.sizes b2) + 2)) ::
                (rawEv (o + csz + 3 + P.sizes b1 + csz2 + 3 + P.sizes t + 3) b2 ++
                  [.back (o + csz + 3 + (P.sizes b1 + (csz2 + 3 + P.sizes t + 3) + P.sizes b2))
                    (csz + 3 + (P.sizes b1 + (csz2 + 3 + P.sizes t + 3) + P.sizes b2))]))) := by
  simp [rawEv1]

mutual
theorem runEv_raw1 : (x : P) → ∀ (o : Int) (done : List Node) (es : List Ev), x.wf = true → AllS (fun p _ => p < o) done →
    runEv done (rawEv1 o x ++ es) = runEv (done ++ emit1 false o x) es
  | .simple s, o, done, es, _, _ => by
    simp only [rawEv1, emit1, List.cons_append, List.nil_append]
    rw [runEv_st]
  | .skip n, o, done, es, _, _ => by simp [rawEv1, emit1]
  | .ifThen csz cond t e, o, done, es, h, hd => by
    obtain ⟨ht, he, _⟩ := wf_if.1 h
    have it := emit_inv false (o + csz + 3) t ht
    by_cases hemp : e = []
    · subst hemp
      rw [emit1_if_noelse, rawEv1_if_noelse, List.cons_append, runEv_st,
        runEv_raws t (o + csz + 3) (done ++ [jzStmt (o + csz) cond (o + csz + 3 + P.sizes t)]) es ht
          (AllS.append (AllS.mono hd fun _ _ hh => by omega) (allS_jz _ _ _ (by omega)))]
      simp [List.append_assoc]
    · rw [emit1_if_else _ _ _ _ _ _ hemp, rawEv1_if_else _ _ _ _ _ hemp]
      simp only [List.cons_append, List.append_assoc]
      have hd1 : AllS (fun p _ => p < o + csz + 3) (done ++ [jzStmt (o + csz) cond (o + csz + 3 + P.sizes t + 3)]) :=
        AllS.append (AllS.mono hd fun _ _ hh => by omega) (allS_jz _ _ _ (by omega))
      rw [runEv_st, runEv_raws t (o + csz + 3) (done ++ [jzStmt (o + csz) cond (o + csz + 3 + P.sizes t + 3)]) _ ht hd1, runEv_st,
        runEv_raws e (o + csz + 3 + P.sizes t + 3) _ es he
        (AllS.append (AllS.append (AllS.mono hd1 fun _ _ hh => by omega) (AllS.mono it fun _ _ hh => by have := hh.2.1; omega))
          (allS_jump (o + csz + 3 + P.sizes t) (o + csz + 3 + P.sizes t + 3 + P.sizes e) (by omega)))]
      simp [List.append_assoc]
  | .loop csz cond body, o, done, es, h, hd => by
    have hb := wf_loop.1 h
    have ib := emit_inv false (o + csz + 3) body hb
    rw [emit1_loop_raw, rawEv1_loop]
    simp only [List.cons_append, List.append_assoc]
    rw [runEv_st, runEv_raws body (o + csz + 3) (done ++ [jzStmt (o + csz) cond (o + csz + 3 + P.sizes body + 2)]) _ hb
      (AllS.append (AllS.mono hd fun _ _ hh => by omega) (allS_jz _ _ _ (by omega)))]
    have hj := jumpBack_split done (jzStmt (o + csz) cond (o + csz + 3 + P.sizes body + 2) :: emit false (o + csz + 3) body)
      (o + csz + 3 + P.sizes body) (csz + 3 + P.sizes body) o (by push_cast; omega) hd
      (AllS.append (allS_jz _ _ _ (by omega)) (AllS.mono ib fun _ _ hh => by have := hh.1; omega))
    rw [List.append_assoc, List.singleton_append, runEv_back _ _ _ _ _ hj, List.nil_append]
  | .loopX csz cond b1 csz2 cond2 t b2, o, done, es, h, hd => by
    obtain ⟨hb1, ht, hb2, _⟩ := wf_loopX.1 h
    have i1 := emit_inv false (o + csz + 3) b1 hb1
    have it := emit_inv false (o + csz + 3 + P.sizes b1 + csz2 + 3) t ht
    have i2 := emit_inv false (o + csz + 3 + P.sizes b1 + csz2 + 3 + P.sizes t + 3) b2 hb2
    rw [emit1_loopX_raw, rawEv1_loopX]
    simp only [List.cons_append, List.append_assoc]
    have hd0 : AllS (fun p _ => p < o + csz + 3)
        (done ++ [jzStmt (o + csz) cond (o + csz + 3 + (P.sizes b1 + (csz2 + 3 + P.sizes t + 3) + P.sizes b2) + 2)]) :=
      AllS.append (AllS.mono hd fun _ _ hh => by omega) (allS_jz _ _ _ (by omega))
    have hd1 : AllS (fun p _ => p < o + csz + 3 + P.sizes b1 + csz2 + 3)
        ((done ++ [jzStmt (o + csz) cond (o + csz + 3 + (P.sizes b1 + (csz2 + 3 + P.sizes t + 3) + P.sizes b2) + 2)] ++
          emit false (o + csz + 3) b1) ++
          [jzStmt (o + csz + 3 + P.sizes b1 + csz2) cond2 (o + csz + 3 + P.sizes b1 + csz2 + 3 + P.sizes t + 3)]) :=
      AllS.append (AllS.append (AllS.mono hd0 fun _ _ hh => by omega) (AllS.mono i1 fun _ _ hh => by have := hh.2.1; omega))
        (allS_jz _ _ _ (by omega))
    have hd2 : AllS (fun p _ => p < o + csz + 3 + P.sizes b1 + csz2 + 3 + P.sizes t + 3)
        ((((done ++ [jzStmt (o + csz) cond (o + csz + 3 + (P.sizes b1 + (csz2 + 3 + P.sizes t + 3) + P.sizes b2) + 2)] ++
          emit false (o + csz + 3) b1) ++
          [jzStmt (o + csz + 3 + P.sizes b1 + csz2) cond2 (o + csz + 3 + P.sizes b1 + csz2 + 3 + P.sizes t + 3)]) ++
          emit false (o + csz + 3 + P.sizes b1 + csz2 + 3) t) ++
          [jumpStmt (o + csz + 3 + P.sizes b1 + csz2 + 3 + P.sizes t)
            (o + csz + 3 + (P.sizes b1 + (csz2 + 3 + P.sizes t + 3) + P.sizes b2) + 2)]) :=
      AllS.append (AllS.append (AllS.mono hd1 fun _ _ hh => by omega) (AllS.mono it fun _ _ hh => by have := hh.2.1; omega))
        (allS_jump _ _ (by omega))
    rw [runEv_st, runEv_raws b1 (o + csz + 3) _ _ hb1 hd0, runEv_st, runEv_raws t (o + csz + 3 + P.sizes b1 + csz2 + 3) _ _ ht hd1,
      runEv_st, runEv_raws b2 (o + csz + 3 + P.sizes b1 + csz2 + 3 + P.sizes t + 3) _ _ hb2 hd2]
    have hj := jumpBack_split done
      (jzStmt (o + csz) cond (o + csz + 3 + (P.sizes b1 + (csz2 + 3 + P.sizes t + 3) + P.sizes b2) + 2) ::
        (emit false (o + csz + 3) b1 ++
          jzStmt (o + csz + 3 + P.sizes b1 + csz2) cond2 (o + csz + 3 + P.sizes b1 + csz2 + 3 + P.sizes t + 3) ::
            (emit false (o + csz + 3 + P.sizes b1 + csz2 + 3) t ++
              jumpStmt (o + csz + 3 + P.sizes b1 + csz2 + 3 + P.sizes t)
                  (o + csz + 3 + (P.sizes b1 + (csz2 + 3 + P.sizes t + 3) + P.sizes b2) + 2) ::
                emit false (o + csz + 3 + P.sizes b1 + csz2 + 3 + P.sizes t + 3) b2)))
      (o + csz + 3 + (P.sizes b1 + (csz2 + 3 + P.sizes t + 3) + P.sizes b2)) (csz + 3 + (P.sizes b1 + (csz2 + 3 + P.sizes t + 3) + P.sizes b2)) o
      (by push_cast; omega) hd
      (AllS.append (allS_jz _ _ _ (by omega)) (AllS.append (AllS.mono i1 fun _ _ hh => by have := hh.1; omega)
        (AllS.append (allS_jz _ _ _ (by omega)) (AllS.append (AllS.mono it fun _ _ hh => by have := hh.1; omega)
          (AllS.append (allS_jump _ _ (by omega)) (AllS.mono i2 fun _ _ hh => by have := hh.1; omega))))))
    have hshape : (((((done ++ [jzStmt (o + csz) cond (o + csz + 3 + (P.sizes b1 + (csz2 + 3 + P.sizes t + 3) + P.sizes b2) + 2)] ++
          emit false (o + csz + 3) b1) ++
          [jzStmt (o + csz + 3 + P.sizes b1 + csz2) cond2 (o + csz + 3 + P.sizes b1 + csz2 + 3 + P.sizes t + 3)]) ++
          emit false (o + csz + 3 + P.sizes b1 + csz2 + 3) t) ++
          [jumpStmt (o + csz + 3 + P.sizes b1 + csz2 + 3 + P.sizes t)
            (o + csz + 3 + (P.sizes b1 + (csz2 + 3 + P.sizes t + 3) + P.sizes b2) + 2)]) ++
          emit false (o + csz + 3 + P.sizes b1 + csz2 + 3 + P.sizes t + 3) b2) =
        done ++ (jzStmt (o + csz) cond (o + csz + 3 + (P.sizes b1 + (csz2 + 3 + P.sizes t + 3) + P.sizes b2) + 2) ::
        (emit false (o + csz + 3) b1 ++
          jzStmt (o + csz + 3 + P.sizes b1 + csz2) cond2 (o + csz + 3 + P.sizes b1 + csz2 + 3 + P.sizes t + 3) ::
            (emit false (o + csz + 3 + P.sizes b1 + csz2 + 3) t ++
              jumpStmt (o + csz + 3 + P.sizes b1 + csz2 + 3 + P.sizes t)
                  (o + csz + 3 + (P.sizes b1 + (csz2 + 3 + P.sizes t + 3) + P.sizes b2) + 2) ::
                emit false (o + csz + 3 + P.sizes b1 + csz2 + 3 + P.sizes t + 3) b2))) := by simp [List.append_assoc]
    rw [hshape, runEv_back _ _ _ _ _ hj, List.nil_append]
theorem runEv_raws : (ps : List P) → ∀ (o : Int) (done : List Node) (es : List Ev), P.wfs ps = true → AllS (fun p _ => p < o) done →
    runEv done (rawEv o ps ++ es) = runEv (done ++ emit false o ps) es
  | [], o, done, es, _, _ => by simp [rawEv, emit]
  | x :: ps, o, done, es, h, hd => by
    obtain ⟨hx, hps⟩ := wfs_cons.1 h
    have ix := emit1_inv false o x hx
    simp only [rawEv, List.append_assoc]
    rw [runEv_raw1 x o done _ hx hd, runEv_raws ps (o + x.size) _ es hps
      (AllS.append (AllS.mono hd fun _ _ hh => by omega) (AllS.mono ix fun _ _ hh => hh.2.1)), emit_cons, List.append_assoc]
end

/-- the events of a compiled skeleton, run from the empty statement list, leave the list `emit false` -/
theorem runEv_rawEv (ps : List P) (o : Int) (h : P.wfs ps = true) : runEv [] (rawEv o ps) = .ok (emit false o ps) := by
  have := runEv_raws ps o [] [] h AllS.nil
  simpa [runEv] using this

end Drx.LinkFlow
