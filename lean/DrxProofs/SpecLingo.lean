/-
  The reference reader inverts the reference printer (expression fragment):  pExpr env (prE e ++ rest) = some (e, rest).
-/
import Drx.Spec.LingoPrint
namespace Drx.Spec

/-- nothing that follows can continue an expression at level ≥ lvl -/
def Follow (lvl : Nat) : List Tok → Prop
  | [] => True
  | t :: _ => ∀ l, lvl ≤ l → binOfTok l t = none

def NoLp : List Tok → Prop
  | .p .lp :: _ => False
  | _ => True

theorem binOfTok_ge5 (l : Nat) (t : Tok) (h : 5 ≤ l) : binOfTok l t = none := by
  match l, h with
  | n + 5, _ => simp [binOfTok]

theorem binOfTok_zero (t : Tok) : binOfTok 0 t = none := by simp [binOfTok]

/-- tokens that are never an infix operator -/
def Closer (t : Tok) : Prop := t = .p .rp ∨ t = .p .comma ∨ t = .p .rb ∨ t = .nl ∨ t = .p .colon

theorem binOfTok_closer (l : Nat) (t : Tok) (h : Closer t) : binOfTok l t = none := by
  rcases h with h | h | h | h | h <;> subst h <;>
  · match l with
    | 0 => rfl
    | 1 => rfl
    | 2 => rfl
    | 3 => rfl
    | 4 => rfl
    | n + 5 => simp [binOfTok]

theorem follow_closer (lvl : Nat) (t : Tok) (r : List Tok) (h : Closer t) : Follow lvl (t :: r) :=
  fun l _ => binOfTok_closer l t h

theorem nolp_closer (t : Tok) (r : List Tok) (h : Closer t) : NoLp (t :: r) := by
  rcases h with h | h | h | h | h <;> subst h <;> trivial

theorem binOfTok_own (op : BinOp) (h : op.isInfix = true) : binOfTok op.level op.tok = some op := by
  cases op <;> first | rfl | (simp [BinOp.isInfix] at h)

theorem binOfTok_other (op : BinOp) (l : Nat) (h : op.isInfix = true) (hl : l ≠ op.level) : binOfTok l op.tok = none := by
  match l with
  | 0 => rfl
  | n + 5 => simp [binOfTok]
  | 1 => cases op <;> first | rfl | (simp [BinOp.level] at hl) | (simp [BinOp.isInfix] at h)
  | 2 => cases op <;> first | rfl | (simp [BinOp.level] at hl) | (simp [BinOp.isInfix] at h)
  | 3 => cases op <;> first | rfl | (simp [BinOp.level] at hl) | (simp [BinOp.isInfix] at h)
  | 4 => cases op <;> first | rfl | (simp [BinOp.level] at hl) | (simp [BinOp.isInfix] at h)

theorem level_range (op : BinOp) (h : op.isInfix = true) : 1 ≤ op.level ∧ op.level ≤ 4 := by
  cases op <;> simp [BinOp.level, BinOp.isInfix] at *

end Drx.Spec
